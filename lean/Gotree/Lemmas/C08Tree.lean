/-
  C08 — the shape hypotheses (`unrootedOK`: unique tip names, root of degree ≥ 3, no
  single-child node) imply the semantic ones (`good`: distinct branches define distinct
  splits, tip branches are exactly the trivial splits).  Core Lean only.
-/
import Gotree.Lemmas.C08

namespace Gotree.C08.Canon
open Gotree Gotree.C08 List

/-! ## leaves -/

mutual
theorem leaves_pos : ∀ (t : T), 1 ≤ t.leaves.length
  | .node _ _ [] => by simp [T.leaves]
  | .node _ _ (k :: ks) => by
    have := leavesL_len (k :: ks)
    simp only [T.leaves]
    simp only [length_cons] at this
    omega
theorem leavesL_len : ∀ (k : Kids), k.length ≤ (leavesL k).length
  | [] => by simp [leavesL]
  | (_, t) :: r => by
    have h1 := leaves_pos t
    have h2 := leavesL_len r
    simp only [leavesL, length_cons, length_append]
    omega
end

theorem leaves_two (t : T) (h1 : t.noSingleBelow = true) (h2 : t.isLeaf = false) : 2 ≤ t.leaves.length := by
  match t, h1, h2 with
  | .node _ _ [], _, h2 => simp [T.isLeaf] at h2
  | .node _ _ (k :: ks), h1, _ =>
    have := leavesL_len (k :: ks)
    simp only [T.noSingleBelow, Bool.and_eq_true, bne_iff_ne, ne_eq, length_cons] at h1
    simp only [T.leaves]
    simp only [length_cons] at this
    omega

theorem leaf_shape (t : T) (h : t.isLeaf = true) : ∃ x, t.leaves = [x] := by
  match t, h with
  | .node d _ [], _ => exact ⟨d.name, rfl⟩
  | .node _ _ (_ :: _), h => simp [T.isLeaf] at h

theorem mem_leavesL {k : Kids} {x : String} : x ∈ leavesL k ↔ ∃ p ∈ k, x ∈ p.2.leaves := by
  induction k with
  | nil => simp [leavesL]
  | cons p r ih =>
    obtain ⟨e, t⟩ := p
    simp only [leavesL, mem_append, ih, mem_cons]
    constructor
    · rintro (h | ⟨q, hq, hx⟩)
      · exact ⟨(e, t), Or.inl rfl, h⟩
      · exact ⟨q, Or.inr hq, hx⟩
    · rintro ⟨q, hq | hq, hx⟩
      · subst hq; exact Or.inl hx
      · exact Or.inr ⟨q, hq, hx⟩

theorem leaves_sub_leavesL {k : Kids} {p : EdgeD × T} (h : p ∈ k) : p.2.leaves <+ leavesL k := by
  induction k with
  | nil => cases h
  | cons q r ih =>
    obtain ⟨e, t⟩ := q
    rcases mem_cons.mp h with h | h
    · subst h; exact sublist_append_left _ _
    · exact (ih h).trans (sublist_append_right _ _)

/-- the leaves of one child plus one per other child -/
theorem leavesL_len_ge {k : Kids} {p : EdgeD × T} (h : p ∈ k) :
    p.2.leaves.length + (k.length - 1) ≤ (leavesL k).length := by
  induction k with
  | nil => cases h
  | cons q r ih =>
    obtain ⟨e, t⟩ := q
    simp only [leavesL, length_append, length_cons]
    rcases mem_cons.mp h with h | h
    · subst h
      have := leavesL_len r
      simp only []
      omega
    · have := ih h
      have h1 := leaves_pos t
      have : 1 ≤ r.length := by
        cases r with
        | nil => cases h
        | cons _ _ => simp
      omega

/-- the leaves of distinct children are disjoint -/
theorem leavesL_disjoint {k : Kids} (h : (leavesL k).Nodup) :
    k.Pairwise (fun p q => ∀ x ∈ p.2.leaves, x ∉ q.2.leaves) := by
  induction k with
  | nil => exact Pairwise.nil
  | cons p r ih =>
    obtain ⟨e, t⟩ := p
    simp only [leavesL] at h
    obtain ⟨_, h2, h3⟩ := nodup_append.mp h
    refine pairwise_cons.mpr ⟨?_, ih h2⟩
    intro q hq x hx hx'
    exact h3 x hx x (mem_leavesL.mpr ⟨q, hq, hx'⟩) rfl

/-! ## the split list -/

mutual
theorem splitsBelow_sub : ∀ (t : T), ∀ s ∈ t.splitsBelow, s.below <+ t.leaves
  | .node _ _ [], s, hs => by simp [T.splitsBelow, splitsL] at hs
  | .node _ _ (k :: ks), s, hs => by
    simp only [T.splitsBelow] at hs
    simp only [T.leaves]
    exact splitsL_sub (k :: ks) s hs
theorem splitsL_sub : ∀ (k : Kids), ∀ s ∈ splitsL k, s.below <+ leavesL k
  | [], s, hs => by simp [splitsL] at hs
  | (e, t) :: r, s, hs => by
    simp only [splitsL, mem_cons, mem_append] at hs
    simp only [leavesL]
    rcases hs with hs | hs | hs
    · subst hs; exact sublist_append_left _ _
    · exact (splitsBelow_sub t s hs).trans (sublist_append_left _ _)
    · exact (splitsL_sub r s hs).trans (sublist_append_right _ _)
end

/-- every branch lies inside the subtree of one child -/
theorem splitsL_block {k : Kids} {s : SplitE} (hs : s ∈ splitsL k) : ∃ p ∈ k, s.below <+ p.2.leaves := by
  induction k with
  | nil => simp [splitsL] at hs
  | cons q r ih =>
    obtain ⟨e, t⟩ := q
    simp only [splitsL, mem_cons, mem_append] at hs
    rcases hs with hs | hs | hs
    · subst hs; exact ⟨(e, t), by simp, Sublist.refl _⟩
    · exact ⟨(e, t), by simp, splitsBelow_sub t s hs⟩
    · obtain ⟨p, hp, h⟩ := ih hs
      exact ⟨p, by simp [hp], h⟩

/-- shape of the entries: a tip branch has one name below, an internal one at least two -/
def shapeOK (s : SplitE) : Prop :=
  (s.tip = true → ∃ x, s.below = [x]) ∧ (s.tip = false → 2 ≤ s.below.length)

mutual
theorem splitsBelow_shape : ∀ (t : T), t.noSingleBelow = true → ∀ s ∈ t.splitsBelow, shapeOK s
  | .node _ _ k, h, s, hs => by
    simp only [T.noSingleBelow, Bool.and_eq_true] at h
    simp only [T.splitsBelow] at hs
    exact splitsL_shape k h.2 s hs
theorem splitsL_shape : ∀ (k : Kids), noSingleL k = true → ∀ s ∈ splitsL k, shapeOK s
  | [], _, s, hs => by simp [splitsL] at hs
  | (e, t) :: r, h, s, hs => by
    simp only [noSingleL, Bool.and_eq_true] at h
    simp only [splitsL, mem_cons, mem_append] at hs
    rcases hs with hs | hs | hs
    · subst hs
      exact ⟨fun ht => leaf_shape t ht, fun ht => leaves_two t h.1 ht⟩
    · exact splitsBelow_shape t h.1 s hs
    · exact splitsL_shape r h.2 s hs
end

theorem shape_ne_nil {s : SplitE} (h : shapeOK s) : s.below ≠ [] := by
  intro e
  cases ht : s.tip with
  | true => obtain ⟨x, hx⟩ := h.1 ht; rw [e] at hx; cases hx
  | false => have := h.2 ht; rw [e] at this; simp at this

/-- strictly inside: a branch below a node with ≥ 2 children misses a leaf of the node -/
theorem splitsL_strict {k : Kids} (hk : 2 ≤ k.length) {s : SplitE} (hs : s ∈ splitsL k) :
    s.below.length < (leavesL k).length := by
  obtain ⟨p, hp, h⟩ := splitsL_block hs
  have := leavesL_len_ge hp
  have := h.length_le
  omega

theorem splitsBelow_strict (t : T) (h : t.noSingleBelow = true) {s : SplitE} (hs : s ∈ t.splitsBelow) :
    s.below.length < t.leaves.length := by
  match t, h, hs with
  | .node _ _ [], _, hs => simp [T.splitsBelow, splitsL] at hs
  | .node _ _ (k :: ks), h, hs =>
    simp only [T.noSingleBelow, Bool.and_eq_true, bne_iff_ne, ne_eq, length_cons] at h
    simp only [T.splitsBelow] at hs
    simp only [T.leaves]
    exact splitsL_strict (by simp only [length_cons]; omega) hs

/-- different as sets -/
def NE (s1 s2 : SplitE) : Prop := ¬ (∀ x, x ∈ s1.below ↔ x ∈ s2.below)

theorem NE_of_length {L : List String} (hL : L.Nodup) {s1 s2 : SplitE} (h1 : s1.below <+ L) (h2 : s2.below <+ L)
    (hlen : s1.below.length ≠ s2.below.length) : NE s1 s2 := by
  intro heq
  exact hlen ((perm_ext_iff_of_nodup (h1.nodup hL) (h2.nodup hL)).mpr heq).length_eq

theorem NE_of_disjoint {s1 s2 : SplitE} (hne : s1.below ≠ []) (h : ∀ x ∈ s1.below, x ∉ s2.below) : NE s1 s2 := by
  intro heq
  cases hb : s1.below with
  | nil => exact hne hb
  | cons x _ =>
    have hx : x ∈ s1.below := by rw [hb]; simp
    exact h x hx ((heq x).mp hx)

mutual
theorem splitsBelow_NE : ∀ (t : T), t.leaves.Nodup → t.noSingleBelow = true → t.splitsBelow.Pairwise NE
  | .node _ _ [], _, _ => by simp [T.splitsBelow, splitsL]
  | .node _ _ (k :: ks), hn, h => by
    simp only [T.noSingleBelow, Bool.and_eq_true] at h
    simp only [T.leaves] at hn
    simp only [T.splitsBelow]
    exact splitsL_NE (k :: ks) hn h.2
theorem splitsL_NE : ∀ (k : Kids), (leavesL k).Nodup → noSingleL k = true → (splitsL k).Pairwise NE
  | [], _, _ => by simp [splitsL]
  | (e, t) :: r, hn, h => by
    simp only [noSingleL, Bool.and_eq_true] at h
    simp only [leavesL] at hn
    obtain ⟨hn1, hn2, hn3⟩ := nodup_append.mp hn
    have ih1 := splitsBelow_NE t hn1 h.1
    have ih2 := splitsL_NE r hn2 h.2
    simp only [splitsL]
    refine pairwise_cons.mpr ⟨?_, pairwise_append.mpr ⟨ih1, ih2, ?_⟩⟩
    · intro s' hs'
      rcases mem_append.mp hs' with hs' | hs'
      · -- the branch above `t` against a branch inside `t`
        have hlt := splitsBelow_strict t h.1 hs'
        exact NE_of_length hn1 (Sublist.refl _) (splitsBelow_sub t s' hs') (by simp only []; omega)
      · -- against a branch of a later sibling
        apply NE_of_disjoint
        · have := leaves_pos t
          intro e0; simp only [] at e0; rw [e0] at this; simp at this
        · intro x hx hx'
          exact hn3 x hx x ((splitsL_sub r s' hs').subset hx') rfl
    · intro s1 hs1 s2 hs2
      apply NE_of_disjoint (shape_ne_nil (splitsBelow_shape t h.1 s1 hs1))
      intro x hx hx'
      exact hn3 x ((splitsBelow_sub t s1 hs1).subset hx) x ((splitsL_sub r s2 hs2).subset hx') rfl
end

/-! ## canonical sides -/

/-- is the presentation flipped to the complement (the side contains the least taxon) -/
def flipB (all b : List String) : Bool :=
  match minS all with
  | none => false
  | some m => b.contains m

theorem mem_sortS {l : List String} {x : String} : x ∈ sortS l ↔ x ∈ l := by
  unfold sortS; exact mem_mergeSort

theorem mem_canonSide (all b : List String) (x : String) :
    x ∈ canonSide all b ↔ x ∈ all ∧ (if flipB all b = true then x ∉ b else x ∈ b) := by
  unfold canonSide flipB
  simp only
  cases hm : minS all with
  | none =>
    simp only [mem_sortS, mem_filter, contains_iff_mem, Bool.false_eq_true, if_false]
    exact ⟨fun h => ⟨h.2, h.1⟩, fun h => ⟨h.2, h.1⟩⟩
  | some m =>
    have hmall : m ∈ all := (minS_spec hm).1
    simp only
    have hc : (sortS (b.filter all.contains)).contains m = b.contains m := by
      rw [Bool.eq_iff_iff]
      simp only [contains_iff_mem, mem_sortS, mem_filter]
      exact ⟨fun h => h.1, fun h => ⟨h, hmall⟩⟩
    rw [hc]
    by_cases hbm : b.contains m = true
    · simp only [hbm, if_true, mem_sortS, complS, mem_filter, Bool.not_eq_true', contains_eq_mem,
        decide_eq_false_iff_not, decide_eq_true_eq]
      constructor
      · rintro ⟨h1, h2⟩
        exact ⟨h1, fun hb => h2 ⟨hb, h1⟩⟩
      · rintro ⟨h1, h2⟩
        exact ⟨h1, fun hb => h2 hb.1⟩
    · simp only [hbm, Bool.false_eq_true, if_false, mem_sortS, mem_filter, contains_iff_mem]
      exact ⟨fun h => ⟨h.2, h.1⟩, fun h => ⟨h.2, h.1⟩⟩

/-- two sides that differ as sets and leave a common taxon outside have different canonical sides -/
theorem canonSide_ne (all A B : List String) (hA : A ⊆ all) (hB : B ⊆ all)
    (hNE : ¬ (∀ x, x ∈ A ↔ x ∈ B)) (o : String) (ho : o ∈ all) (hoA : o ∉ A) (hoB : o ∉ B) :
    canonSide all A ≠ canonSide all B := by
  intro heq
  have hmem : ∀ x, x ∈ canonSide all A ↔ x ∈ canonSide all B := by intro x; rw [heq]
  have hflip : flipB all A = flipB all B := by
    have := hmem o
    rw [mem_canonSide, mem_canonSide] at this
    cases h1 : flipB all A <;> cases h2 : flipB all B <;> simp_all
  apply hNE
  intro x
  by_cases hx : x ∈ all
  · have := hmem x
    rw [mem_canonSide, mem_canonSide, hflip] at this
    cases h2 : flipB all B with
    | false => simpa [h2, hx] using this
    | true =>
      have h3 : x ∉ A ↔ x ∉ B := by simpa [h2, hx] using this
      constructor
      · intro ha; exact Classical.byContradiction fun hb => (h3.mpr hb) ha
      · intro hb; exact Classical.byContradiction fun ha => (h3.mp ha) hb
  · exact ⟨fun h => absurd (hA h) hx, fun h => absurd (hB h) hx⟩

theorem filter_contains_self {l all : List String} (h : ∀ x ∈ l, x ∈ all) : l.filter all.contains = l := by
  apply filter_eq_self.mpr
  intro a ha
  exact contains_iff_mem.mpr (h a ha)

/-- size of the lighter side of a canonical side -/
theorem lightSize_canonSide (all b : List String) (hall : all.Nodup) (hb : b <+ all) :
    lightSize all (canonSide all b) = min b.length (all.length - b.length) := by
  have hbsub : ∀ x ∈ b, x ∈ all := fun x hx => hb.subset hx
  have hblen := hb.length_le
  unfold lightSize
  have hcs : ∀ x ∈ canonSide all b, x ∈ all := fun x hx => ((mem_canonSide all b x).mp hx).1
  rw [filter_contains_self hcs]
  suffices h : (canonSide all b).length = b.length ∨ (canonSide all b).length = all.length - b.length by
    rcases h with h | h <;> simp only [h] <;> omega
  unfold canonSide
  simp only
  rw [filter_contains_self hbsub]
  have hs : (sortS b).length = b.length := (sortS_perm_self b).length_eq
  cases minS all with
  | none => exact Or.inl hs
  | some m =>
    simp only
    split
    · right
      rw [(sortS_perm_self _).length_eq]
      unfold complS
      -- |all \ s| = |all| - |s| for a duplicate-free s ⊆ all
      have hpart := length_eq_countP_add_countP (fun x => (sortS b).contains x) (l := all)
      have h1 : all.countP (fun x => (sortS b).contains x) = b.length := by
        rw [countP_eq_length_filter]
        have : all.filter (fun x => (sortS b).contains x) ~ b := by
          rw [perm_ext_iff_of_nodup (hall.sublist filter_sublist) (hb.nodup hall)]
          intro x
          simp only [mem_filter, contains_iff_mem, mem_sortS]
          exact ⟨fun h => h.2, fun h => ⟨hbsub x h, h⟩⟩
        exact this.length_eq
      have h2 : (all.filter (fun x => !(sortS b).contains x)).length
          = all.countP (fun a => decide ¬((sortS b).contains a = true)) := by
        rw [countP_eq_length_filter]
        congr 1
        apply filter_congr
        intro x _
        cases (sortS b).contains x <;> simp
      rw [h2]
      omega
    · exact Or.inl hs

/-! ## a taxon outside any two branches (root of degree ≥ 3) -/

theorem disj_idx {k : Kids} (hn : (leavesL k).Nodup) (a b : Nat) (ha : a < k.length) (hb : b < k.length)
    (hab : a ≠ b) : ∀ x ∈ k[a].2.leaves, x ∉ k[b].2.leaves := by
  have hp := pairwise_iff_getElem.mp (leavesL_disjoint hn)
  intro x hx hx'
  by_cases hlt : a < b
  · exact hp a b ha hb hlt x hx hx'
  · exact hp b a hb ha (by omega) x hx' hx

theorem third_kid {k : Kids} (hk : 3 ≤ k.length) (hn : (leavesL k).Nodup) {p1 p2 : EdgeD × T}
    (h1 : p1 ∈ k) (h2 : p2 ∈ k) : ∃ o ∈ leavesL k, o ∉ p1.2.leaves ∧ o ∉ p2.2.leaves := by
  obtain ⟨i, hi, e1⟩ := mem_iff_getElem.mp h1
  obtain ⟨j, hj, e2⟩ := mem_iff_getElem.mp h2
  have hl : ∃ l, l < k.length ∧ l ≠ i ∧ l ≠ j := by
    by_cases c0 : i ≠ 0 ∧ j ≠ 0
    · exact ⟨0, by omega, by omega, by omega⟩
    · by_cases c1 : i ≠ 1 ∧ j ≠ 1
      · exact ⟨1, by omega, by omega, by omega⟩
      · exact ⟨2, by omega, by omega, by omega⟩
  obtain ⟨l, hl, hli, hlj⟩ := hl
  have hpos := leaves_pos k[l].2
  cases hlv : k[l].2.leaves with
  | nil => rw [hlv] at hpos; simp at hpos
  | cons o _ =>
    have ho : o ∈ k[l].2.leaves := by rw [hlv]; simp
    refine ⟨o, mem_leavesL.mpr ⟨k[l], getElem_mem hl, ho⟩, ?_, ?_⟩
    · rw [← e1]; exact disj_idx hn l i hl hi hli o ho
    · rw [← e2]; exact disj_idx hn l j hl hj hlj o ho

theorem outsider {k : Kids} (hk : 3 ≤ k.length) (hn : (leavesL k).Nodup) {s1 s2 : SplitE}
    (h1 : s1 ∈ splitsL k) (h2 : s2 ∈ splitsL k) : ∃ o ∈ leavesL k, o ∉ s1.below ∧ o ∉ s2.below := by
  obtain ⟨p1, hp1, hs1⟩ := splitsL_block h1
  obtain ⟨p2, hp2, hs2⟩ := splitsL_block h2
  obtain ⟨o, ho, ho1, ho2⟩ := third_kid hk hn hp1 hp2
  exact ⟨o, ho, fun h => ho1 (hs1.subset h), fun h => ho2 (hs2.subset h)⟩

/-! ## every leaf has its tip branch -/

mutual
theorem tipT : ∀ (t : T), t.isLeaf = false → ∀ x ∈ t.leaves, ∃ s ∈ t.splitsBelow, s.tip = true ∧ s.below = [x]
  | .node _ _ [], h, _, _ => by simp [T.isLeaf] at h
  | .node _ _ (k :: ks), _, x, hx => by
    simp only [T.leaves] at hx
    simp only [T.splitsBelow]
    exact tipL (k :: ks) x hx
theorem tipL : ∀ (k : Kids), ∀ x ∈ leavesL k, ∃ s ∈ splitsL k, s.tip = true ∧ s.below = [x]
  | [], x, hx => by simp [leavesL] at hx
  | (e, t) :: r, x, hx => by
    simp only [leavesL, mem_append] at hx
    simp only [splitsL]
    rcases hx with hx | hx
    · cases hl : t.isLeaf with
      | true =>
        obtain ⟨y, hy⟩ := leaf_shape t hl
        rw [hy] at hx
        simp only [mem_singleton] at hx
        subst hx
        exact ⟨⟨t.leaves, e, true⟩, mem_cons_self, rfl, hy⟩
      | false =>
        obtain ⟨s, hs, h1, h2⟩ := tipT t hl x hx
        exact ⟨s, by simp [hs], h1, h2⟩
    · obtain ⟨s, hs, h1, h2⟩ := tipL r x hx
      exact ⟨s, by simp [hs], h1, h2⟩
end

/-! ## the shape hypotheses imply the semantic ones -/

theorem tipNames_eq (t : T) (h : 3 ≤ t.kids.length) : t.tipNames = leavesL t.kids := by
  unfold T.tipNames
  have : (t.kids.length == 1) = false := by simp; omega
  simp [this]

theorem good_of_unrootedOK (t : T) (h : unrootedOK t = true) : good t = true := by
  unfold unrootedOK at h
  simp only [Bool.and_eq_true, decide_eq_true_eq] at h
  obtain ⟨⟨hu, hns⟩, hk⟩ := h
  have hall := tipNames_eq t hk
  have hn : (leavesL t.kids).Nodup := by rw [← hall]; exact nodup_of_uniqueTips t hu
  have hsp : t.splits = splitsL t.kids := rfl
  have hns' : noSingleL t.kids = true := hns
  have hlen := leavesL_len t.kids
  unfold good
  simp only [Bool.and_eq_true, hu, true_and, Bool.not_eq_true', isEmpty_eq_false_iff]
  refine ⟨⟨⟨?_, ?_⟩, ?_⟩, ?_⟩
  · -- at least one tip
    rw [hall]; intro e; rw [e] at hlen; simp only [length_nil] at hlen; omega
  · -- distinct branches, distinct splits
    unfold keysNodup
    rw [decide_eq_true_eq, hall, hsp]
    rw [Nodup, pairwise_map]
    refine Pairwise.imp_of_mem ?_ (splitsL_NE t.kids hn hns')
    intro s1 s2 h1 h2 hne
    obtain ⟨o, ho, ho1, ho2⟩ := outsider hk hn h1 h2
    exact canonSide_ne _ _ _ (splitsL_sub _ s1 h1).subset (splitsL_sub _ s2 h2).subset hne o ho ho1 ho2
  · -- tip branches are the trivial splits
    unfold classOK
    rw [all_eq_true, hall, hsp]
    intro s hs
    have hsub := splitsL_sub _ s hs
    have hshape := splitsL_shape _ hns' s hs
    rw [lightSize_canonSide _ _ hn hsub, beq_iff_eq]
    cases ht : s.tip with
    | true =>
      obtain ⟨x, hx⟩ := hshape.1 ht
      have : min s.below.length ((leavesL t.kids).length - s.below.length) ≤ 1 := by rw [hx]; simp; omega
      simp [this]
    | false =>
      have h2 := hshape.2 ht
      obtain ⟨p, hp, hsp'⟩ := splitsL_block hs
      have h3 := leavesL_len_ge hp
      have h4 := hsp'.length_le
      have : ¬ min s.below.length ((leavesL t.kids).length - s.below.length) ≤ 1 := by omega
      simp [this]
  · -- every tip has its branch, and tip branches are tips
    unfold tipSplitsOK
    rw [Bool.and_eq_true, all_eq_true, all_eq_true, hall, hsp]
    constructor
    · intro x hx
      obtain ⟨s, hs, h1, h2⟩ := tipL t.kids x hx
      exact any_eq_true.mpr ⟨s, hs, by simp [h1, h2]⟩
    · intro s hs
      cases ht : s.tip with
      | false => simp
      | true =>
        obtain ⟨x, hx⟩ := (splitsL_shape _ hns' s hs).1 ht
        have hxm : x ∈ leavesL t.kids := (splitsL_sub _ s hs).subset (by rw [hx]; simp)
        simp [hx, hxm]

end Gotree.C08.Canon
