/-
  C12 — random resolution: a resolved slice is a non-empty subset of the slice it came from, so
  what DOWNPASS / DELTRAN report with `--random-resolve` is contained in the down-pass sets.
-/
import Gotree.Lemmas.C12Asr
import Gotree.Model.C12R

namespace Gotree.C12
open Gotree

theorem intn_lt (n : Nat) (hn : 0 < n) : ∀ s : List Nat, (intn n s).1 < n
  | [] => by simp [intn, hn]
  | v :: r => by
    unfold intn
    split
    · have : v &&& (n - 1) ≤ n - 1 := Nat.and_le_right
      simp only; omega
    · split
      · exact intn_lt n hn r
      · exact Nat.mod_lt _ hn

theorem mem_present (k : Nat) (v : Vec) (i : Nat) : i ∈ present k v ↔ i < k ∧ v.at i ≠ 0 := by
  simp only [present, List.mem_filter, List.mem_range, decide_eq_true_eq]
  constructor
  · rintro ⟨h1, h2⟩; exact ⟨h1, by omega⟩
  · rintro ⟨h1, h2⟩; exact ⟨h1, by omega⟩

/-- what `randomlyResolveNodeStates` does to a slice: either nothing, or exactly one of its states is kept -/
theorem resolve_cases (k : Nat) (v : Vec) (s : List Nat) :
    (resolve k v s).1 = v ∨
    ∃ sel, sel < k ∧ v.at sel ≠ 0 ∧ (resolve k v s).1 = tab k fun i => if i = sel then 1 else 0 := by
  unfold resolve
  simp only []
  split
  · rename_i hlen
    right
    have hr := intn_lt (present k v).length (by omega) s
    have hmem : (present k v).getD (intn (present k v).length s).1 0 ∈ present k v := by
      rw [List.getD_eq_getElem?_getD, List.getElem?_eq_getElem hr]
      simp
    rw [mem_present] at hmem
    exact ⟨_, hmem.1, hmem.2, rfl⟩
  · left; rfl

section rr
variable (k : Nat)

theorem resolve_sub (v : Vec) (s : List Nat) (i : Nat) (hi : i < k) (h : (resolve k v s).1.at i ≠ 0) :
    v.at i ≠ 0 := by
  rcases resolve_cases k v s with e | ⟨sel, _, hv, e⟩
  · rw [e] at h; exact h
  · rw [e, at_tab] at h
    simp only [hi, if_true] at h
    by_cases his : i = sel
    · subst his; exact hv
    · simp [his] at h

theorem resolve_nz (v : Vec) (s : List Nat) (h : ∃ i, i < k ∧ v.at i ≠ 0) :
    ∃ i, i < k ∧ (resolve k v s).1.at i ≠ 0 := by
  rcases resolve_cases k v s with e | ⟨sel, hsel, _, e⟩
  · rw [e]; exact h
  · exact ⟨sel, hsel, by rw [e, at_tab]; simp [hsel]⟩

theorem resolve_01 (v : Vec) (s : List Nat) (h : Set01 k v) : Set01 k (resolve k v s).1 := by
  rcases resolve_cases k v s with e | ⟨sel, _, _, e⟩
  · rw [e]; exact h
  · rw [e]; intro i _; rw [at_tab]; split <;> (try split) <;> omega

/- DOWNPASS with resolution: every slice is contained in the slice of the plain down-pass -/
mutual
theorem resolveA_sub : ∀ (a : A) (st : List Nat) (p : List Nat) (vec vec' : Vec),
    a.get p = some vec → (resolveA k a st).1.get p = some vec' → ∀ i, i < k → vec'.at i ≠ 0 → vec.at i ≠ 0
  | .node s [], st, [], vec, vec', h, h', i, _, hne => by
    simp only [resolveA, A.get, Option.some.injEq] at h h'
    subst h; subst h'; exact hne
  | .node s [], st, j :: p, vec, vec', h, _, i, _, _ => by simp [A.get, A.getL] at h
  | .node s (c :: cs), st, [], vec, vec', h, h', i, hi, hne => by
    simp only [resolveA, A.get, Option.some.injEq] at h h'
    subst h; subst h'
    exact resolve_sub k _ st i hi hne
  | .node s (c :: cs), st, j :: p, vec, vec', h, h', i, hi, hne => by
    simp only [resolveA, A.get] at h h'
    exact resolveAL_sub (c :: cs) _ j p vec vec' h h' i hi hne
theorem resolveAL_sub : ∀ (l : List A) (st : List Nat) (j : Nat) (p : List Nat) (vec vec' : Vec),
    A.getL l j p = some vec → A.getL (resolveAL k l st).1 j p = some vec' →
    ∀ i, i < k → vec'.at i ≠ 0 → vec.at i ≠ 0
  | [], _, _, _, _, _, h, _, _, _, _ => by simp [A.getL] at h
  | a :: r, st, 0, p, vec, vec', h, h', i, hi, hne => by
    simp only [resolveAL, A.getL] at h h'
    exact resolveA_sub a st p vec vec' h h' i hi hne
  | a :: r, st, j + 1, p, vec, vec', h, h', i, hi, hne => by
    simp only [resolveAL, A.getL] at h h'
    exact resolveAL_sub r _ j p vec vec' h h' i hi hne
end

/- DELTRAN with resolution: every slice is contained in the slice it started from -/
mutual
theorem deltranR_sub : ∀ (a : A) (par : Option Vec) (st : List Nat), (∀ pv, par = some pv → Set01 k pv) →
    (∀ v ∈ a.flat, Set01 k v) →
    ∀ (p : List Nat) (vec vec' : Vec), a.get p = some vec → (deltranR k par a st).1.get p = some vec' →
    ∀ i, i < k → vec'.at i ≠ 0 → vec.at i ≠ 0
  | .node s [], par, st, _, _, [], vec, vec', h, h', i, _, hne => by
    simp only [deltranR, A.get, Option.some.injEq] at h h'
    subst h; subst h'; exact hne
  | .node s [], par, st, _, _, j :: p, vec, vec', h, _, i, _, _ => by simp [A.get, A.getL] at h
  | .node s (c :: cs), none, st, _, hall, [], vec, vec', h, h', i, hi, hne => by
    simp only [deltranR, A.get, Option.some.injEq] at h h'
    subst h; subst h'
    exact resolve_sub k _ st i hi hne
  | .node s (c :: cs), some pv, st, hpar, hall, [], vec, vec', h, h', i, hi, hne => by
    simp only [deltranR, A.get, Option.some.injEq] at h h'
    subst h; subst h'
    exact inter_sub k s pv (hpar pv rfl) i hi (resolve_sub k _ st i hi hne)
  | .node s (c :: cs), none, st, _, hall, j :: p, vec, vec', h, h', i, hi, hne => by
    simp only [deltranR, A.get] at h h'
    have hs : Set01 k s := hall s (by simp [A.flat])
    exact deltranRL_sub (c :: cs) _ _ (fun pv e => by cases e; exact resolve_01 k s st hs)
      (fun v hv => hall v (by simp only [A.flat, List.mem_cons]; exact Or.inr hv)) j p vec vec' h h' i hi hne
  | .node s (c :: cs), some pv, st, _, hall, j :: p, vec, vec', h, h', i, hi, hne => by
    simp only [deltranR, A.get] at h h'
    have hs : Set01 k s := hall s (by simp [A.flat])
    exact deltranRL_sub (c :: cs) _ _ (fun q e => by cases e; exact resolve_01 k _ st (inter_01 k s pv hs))
      (fun v hv => hall v (by simp only [A.flat, List.mem_cons]; exact Or.inr hv)) j p vec vec' h h' i hi hne
theorem deltranRL_sub : ∀ (l : List A) (par : Option Vec) (st : List Nat), (∀ pv, par = some pv → Set01 k pv) →
    (∀ v ∈ A.flatL l, Set01 k v) →
    ∀ (j : Nat) (p : List Nat) (vec vec' : Vec), A.getL l j p = some vec →
    A.getL (deltranRL k par l st).1 j p = some vec' → ∀ i, i < k → vec'.at i ≠ 0 → vec.at i ≠ 0
  | [], _, _, _, _, _, _, _, _, h, _, _, _, _ => by simp [A.getL] at h
  | a :: r, par, st, hpar, hall, 0, p, vec, vec', h, h', i, hi, hne => by
    simp only [deltranRL, A.getL] at h h'
    exact deltranR_sub a par st hpar (fun v hv => hall v (by simp only [A.flatL, List.mem_append]; exact Or.inl hv))
      p vec vec' h h' i hi hne
  | a :: r, par, st, hpar, hall, j + 1, p, vec, vec', h, h', i, hi, hne => by
    simp only [deltranRL, A.getL] at h h'
    exact deltranRL_sub r par _ hpar (fun v hv => hall v (by simp only [A.flatL, List.mem_append]; exact Or.inr hv))
      j p vec vec' h h' i hi hne
end

end rr

end Gotree.C12
