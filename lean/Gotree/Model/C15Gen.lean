/-
  C15 — the copy functions of `Gotree/Model/C15.lean` instantiated with table (d) regenerated from the
  source (`Gotree.Gen.C15.fields`, harness/c15/extract.go).  Only C15's own driver, `Proofs/C15Tables.lean`
  may import this module (round 7b): a changed table must not stop another property from building.
  Core Lean only.
-/
import Gotree.Model.C15
import Gotree.Gen.C15Fields

namespace Gotree.C15
open Gotree

/-- `Clone` (the table of the current source) -/
def clone (t : T) : T := cloneBy Gotree.Gen.C15.fields t

/-- `SubTree(n)` (the table of the current source) -/
def subTree (t : T) (path : List Nat) : Option T := subTreeBy Gotree.Gen.C15.fields t path

/-- `gotree subtree -i t -n '^name$'`: exactly one node matches and it is not a tip → its subtree;
    otherwise (no match, several matches, a tip) a message on stderr, nothing printed, exit 0 -/
def cliSubtree (t : T) (name : String) : Option T := cliSubtreeBy Gotree.Gen.C15.fields t name

/-- `gotree subtree -n '^name$'` on an input of several trees: the trees in which exactly one inner node
    matches print their subtree, the others print nothing (a log line); exit 0 -/
def cliSubtreeAll (ts : List T) (name : String) : List T := ts.filterMap (cliSubtree · name)

end Gotree.C15
