/-
  C04 — the quartet enumeration of the model (`quartets`, non specific) delivers, as a multiset,
  exactly the quartets read off the tree (`specQuartets`).  Core Lean only.
-/
import Gotree.Lemmas.C04Idx

namespace Gotree.C04
open Gotree

/-! ## pairs up to order -/

def cp (p : Nat × Nat) : Nat × Nat := (min p.1 p.2, max p.1 p.2)

theorem cp_swap (a b : Nat) : cp (a, b) = cp (b, a) := by
  simp only [cp, Prod.mk.injEq]; omega

theorem pairsOf_perm {l l' : List Nat} (h : l.Perm l') : ((pairsOf l).map cp).Perm ((pairsOf l').map cp) := by
  induction h with
  | nil => exact List.Perm.refl _
  | cons x p ih =>
    simp only [pairsOf, List.map_append, List.map_map]
    exact List.Perm.append (p.map _) ih
  | swap x y l =>
    simp only [pairsOf, List.map_append, List.map_map, List.map_cons, List.cons_append]
    rw [cp_swap y x]
    refine List.Perm.cons _ ?_
    rw [← List.append_assoc, ← List.append_assoc]
    exact List.Perm.append_right _ List.perm_append_comm
  | trans _ _ ih1 ih2 => exact ih1.trans ih2

theorem flatMap_perm_left {α β : Type} (l : List α) {f g : α → List β} (h : ∀ a ∈ l, (f a).Perm (g a)) :
    (l.flatMap f).Perm (l.flatMap g) := by
  induction l with
  | nil => exact List.Perm.refl _
  | cons a r ih =>
    simp only [List.flatMap_cons]
    exact List.Perm.append (h a (List.mem_cons_self ..)) (ih fun b hb => h b (List.mem_cons_of_mem _ hb))

/-- canonical forms of `iterPlain` through canonical pairs -/
theorem iterPlain_canon (l r : List Nat) :
    (iterPlain l r).map Quartet.canon =
      ((pairsOf l).map cp).flatMap fun p => ((pairsOf r).map cp).map fun q => [p.1, p.2, q.1, q.2] := by
  simp only [iterPlain, List.map_flatMap, List.flatMap_map, List.map_map]
  rfl

theorem iterPlain_perm {l l' r r' : List Nat} (hl : l.Perm l') (hr : r.Perm r') :
    ((iterPlain l r).map Quartet.canon).Perm ((iterPlain l' r').map Quartet.canon) := by
  rw [iterPlain_canon, iterPlain_canon]
  refine (List.Perm.flatMap_right _ (pairsOf_perm hl)).trans ?_
  exact flatMap_perm_left _ fun p _ => (pairsOf_perm hr).map _

/-! ## the "left" list of a child -/

/-- what `groups` builds for the children -/
def kidGroups (rank : String → Nat) (l : Kids) (k : Nat) : List (Option Nat × List Nat) :=
  (l.zipIdx k).map fun (et, j) => (some j, rightOf rank et.2)

theorem kidGroups_cons (rank : String → Nat) (x : EdgeD × T) (r : Kids) (k : Nat) :
    kidGroups rank (x :: r) k = (some k, rightOf rank x.2) :: kidGroups rank r (k + 1) := by
  simp [kidGroups, List.zipIdx_cons]

theorem kidGroups_append (rank : String → Nat) (a b : Kids) (k : Nat) :
    kidGroups rank (a ++ b) k = kidGroups rank a k ++ kidGroups rank b (k + a.length) := by
  induction a generalizing k with
  | nil => simp [kidGroups]
  | cons x r ih =>
    simp only [List.cons_append, kidGroups_cons, ih, List.length_cons]
    congr 3; omega

theorem kidGroups_filter_ne (rank : String → Nat) (l : Kids) (k j : Nat) (h : j < k ∨ k + l.length ≤ j) :
    (kidGroups rank l k).filter (fun g => g.1 != some j) = kidGroups rank l k := by
  induction l generalizing k with
  | nil => rfl
  | cons x r ih =>
    rw [kidGroups_cons]
    have hk : ((some k : Option Nat) != some j) = true := by
      simp only [bne_iff_ne, ne_eq, Option.some.injEq]
      simp only [List.length_cons] at h; omega
    simp only [List.filter_cons, hk, if_true]
    rw [ih]
    simp only [List.length_cons] at h; omega

theorem kidGroups_flat (rank : String → Nat) (l : Kids) (k : Nat) :
    (kidGroups rank l k).flatMap (·.2) = (leavesL l).map rank := by
  induction l generalizing k with
  | nil => rfl
  | cons x r ih =>
    obtain ⟨e, t⟩ := x
    rw [kidGroups_cons, List.flatMap_cons, ih, leavesL, List.map_append]
    rfl

/-- `left[next]`: the taxa of the other children and what lies above the node -/
theorem leftOfKid_perm (rank : String → Nat) (isRoot : Bool) (p : Nat) (leftX : List Nat)
    (pre post : Kids) (e : EdgeD) (y : T) :
    (leftOfKid pre.length (groups rank isRoot p leftX (pre ++ (e, y) :: post))).Perm
      ((leavesL pre).map rank ++ (leavesL post).map rank ++ (if isRoot then [] else leftX)) := by
  have hg : kidGroups rank (pre ++ (e, y) :: post) 0 =
      kidGroups rank pre 0 ++ (some pre.length, rightOf rank y) :: kidGroups rank post (pre.length + 1) := by
    rw [kidGroups_append, kidGroups_cons]; simp
  have hkids : leftOfKid pre.length (kidGroups rank (pre ++ (e, y) :: post) 0) =
      (leavesL pre).map rank ++ (leavesL post).map rank := by
    unfold leftOfKid
    rw [hg, List.filter_append, List.filter_cons]
    have : ((some pre.length : Option Nat) != some pre.length) = false := by simp
    simp only [this, Bool.false_eq_true, if_false]
    rw [kidGroups_filter_ne rank pre 0 pre.length (Or.inr (by omega)),
      kidGroups_filter_ne rank post (pre.length + 1) pre.length (Or.inl (by omega)),
      List.flatMap_append, kidGroups_flat, kidGroups_flat]
  unfold groups
  show (leftOfKid pre.length (if isRoot = true then kidGroups rank (pre ++ (e, y) :: post) 0 else _)).Perm _
  cases isRoot with
  | true => simp only [if_true, hkids, List.append_nil]; exact List.Perm.refl _
  | false =>
    simp only [Bool.false_eq_true, if_false]
    have hp : (List.take p (kidGroups rank (pre ++ (e, y) :: post) 0) ++
        (none, leftX) :: List.drop p (kidGroups rank (pre ++ (e, y) :: post) 0)).Perm
        ((none, leftX) :: kidGroups rank (pre ++ (e, y) :: post) 0) := by
      refine List.perm_middle.trans ?_
      rw [List.take_append_drop]
    have h2 := (hp.filter fun g => g.1 != some pre.length).flatMap_right (·.2)
    unfold leftOfKid at hkids ⊢
    refine h2.trans ?_
    have : ((none : Option Nat) != some pre.length) = true := by simp
    simp only [List.filter_cons, this, if_true, List.flatMap_cons, hkids]
    exact List.perm_append_comm

/-! ## the complement of a child's leaves -/

theorem leavesL_split (pre post : Kids) (e : EdgeD) (y : T) :
    leavesL (pre ++ (e, y) :: post) = leavesL pre ++ (y.leaves ++ leavesL post) := by
  induction pre with
  | nil => simp [leavesL]
  | cons x r ih => obtain ⟨e', t'⟩ := x; simp only [List.cons_append, leavesL, ih, List.append_assoc]

theorem perm_ite_nil {α β : Type} (c : Bool) (f : α → β) {a b : List α} (h : (a.map f).Perm (b.map f)) :
    ((if c = true then [] else a).map f).Perm ((if c = true then [] else b).map f) := by
  cases c
  · simpa using h
  · simp


theorem compl_kid {tips : List String} (hn : tips.Nodup) (pre post : Kids) (e : EdgeD) (y : T)
    (hs : (leavesL (pre ++ (e, y) :: post)).Sublist tips) :
    (compl tips y.leaves).Perm (leavesL pre ++ leavesL post ++ compl tips (leavesL (pre ++ (e, y) :: post))) := by
  have hall := leavesL_split pre post e y
  rw [hall] at hs ⊢
  have hnd := hs.nodup hn
  have hd1 := List.nodup_append.mp hnd
  have hd2 := List.nodup_append.mp hd1.2.1
  refine (List.perm_ext_iff_of_nodup (compl_nodup hn) ?_).mpr ?_
  · -- the right-hand side has no repetition
    refine List.nodup_append.mpr ⟨List.nodup_append.mpr ⟨hd1.1, hd2.2.1, ?_⟩, compl_nodup hn, ?_⟩
    · intro a ha b hb; exact hd1.2.2 a ha b (List.mem_append_right _ hb)
    · intro a ha b hb hab
      subst hab
      rw [mem_compl] at hb
      apply hb.2
      cases List.mem_append.mp ha with
      | inl h => exact List.mem_append_left _ h
      | inr h => exact List.mem_append_right _ (List.mem_append_right _ h)
  · intro x
    simp only [mem_compl, List.mem_append]
    constructor
    · rintro ⟨hx, hny⟩
      by_cases h1 : x ∈ leavesL pre
      · exact Or.inl (Or.inl h1)
      · by_cases h2 : x ∈ leavesL post
        · exact Or.inl (Or.inr h2)
        · refine Or.inr ⟨hx, ?_⟩
          rintro (h | h | h)
          · exact h1 h
          · exact hny h
          · exact h2 h
    · rintro ((h | h) | ⟨hx, hn'⟩)
      · refine ⟨hs.subset (List.mem_append_left _ h), ?_⟩
        intro hy; exact hd1.2.2 x h x (List.mem_append_left _ hy) rfl
      · refine ⟨hs.subset (List.mem_append_right _ (List.mem_append_right _ h)), ?_⟩
        intro hy; exact hd2.2.2 x hy x h rfl
      · exact ⟨hx, fun hy => hn' (Or.inr (Or.inl hy))⟩

/-! ## generic permutation lemmas -/

theorem flatMap_append_fun {α β : Type} (l : List α) (f g : α → List β) :
    (l.flatMap fun a => f a ++ g a).Perm (l.flatMap f ++ l.flatMap g) := by
  induction l with
  | nil => exact List.Perm.refl _
  | cons a r ih =>
    simp only [List.flatMap_cons, List.append_assoc]
    refine List.Perm.append_left _ ?_
    refine (List.Perm.append_left _ ih).trans ?_
    exact List.perm_append_comm_assoc _ _ _

theorem flatMap_comm {α β γ : Type} (l₁ : List α) (l₂ : List β) (h : α → β → List γ) :
    (l₁.flatMap fun a => l₂.flatMap fun b => h a b).Perm (l₂.flatMap fun b => l₁.flatMap fun a => h a b) := by
  induction l₁ with
  | nil => simp
  | cons a r ih =>
    simp only [List.flatMap_cons]
    refine List.Perm.trans ?_ (flatMap_append_fun l₂ (fun b => h a b) (fun b => r.flatMap fun a' => h a' b)).symm
    exact List.Perm.append_left _ ih

theorem pairs_flatMap_perm {α γ : Type} (f : α × α → List γ) (hs : ∀ x y, (f (x, y)).Perm (f (y, x)))
    {l l' : List α} (h : l.Perm l') : ((pairsOf l).flatMap f).Perm ((pairsOf l').flatMap f) := by
  induction h with
  | nil => exact List.Perm.refl _
  | cons x p ih =>
    simp only [pairsOf, List.flatMap_append, List.flatMap_map]
    exact List.Perm.append (p.flatMap_right _) ih
  | swap x y l =>
    simp only [pairsOf, List.flatMap_append, List.flatMap_map, List.map_cons, List.flatMap_cons, List.append_assoc]
    refine List.Perm.append (hs y x) ?_
    exact List.perm_append_comm_assoc _ _ _
  | trans _ _ ih1 ih2 => exact ih1.trans ih2

theorem pairs_snoc {α γ : Type} (f : α × α → List γ) (S : List α) (g : α) :
    ((pairsOf (S ++ [g])).flatMap f).Perm ((pairsOf S).flatMap f ++ S.flatMap fun s => f (s, g)) := by
  induction S with
  | nil => simp [pairsOf]
  | cons a r ih =>
    simp only [List.cons_append, pairsOf, List.map_append, List.flatMap_append, List.flatMap_map, List.map_cons,
      List.map_nil, List.flatMap_cons, List.flatMap_nil, List.append_assoc]
    refine List.Perm.append_left _ ?_
    refine (List.Perm.append_left _ ih).trans ?_
    exact List.perm_append_comm_assoc _ _ _

/-- the canonical quartets of two left groups against the pairs of right groups -/
def quadC (g1 g2 g3 g4 : List Nat) : List (List Nat) :=
  g1.flatMap fun a => g2.flatMap fun b => g3.flatMap fun c => g4.map fun d => Quartet.canon ⟨a, b, c, d⟩

def pairF (R : List (List Nat)) (g : List Nat × List Nat) : List (List Nat) :=
  (pairsOf R).flatMap fun h => quadC g.1 g.2 h.1 h.2

theorem iterSpecific_canon (L R : List (List Nat)) :
    (iterSpecific L R).map Quartet.canon = (pairsOf L).flatMap (pairF R) := by
  simp only [iterSpecific, List.map_flatMap, List.map_map]
  rfl

theorem canon_swap12 (a b c d : Nat) : Quartet.canon ⟨a, b, c, d⟩ = Quartet.canon ⟨b, a, c, d⟩ := by
  simp only [Quartet.canon, List.cons.injEq, and_true]
  omega

theorem quadC_swap (g1 g2 g3 g4 : List Nat) : (quadC g1 g2 g3 g4).Perm (quadC g2 g1 g3 g4) := by
  unfold quadC
  refine (flatMap_comm g1 g2 _).trans ?_
  simp only [canon_swap12]
  exact List.Perm.refl _

theorem pairF_swap (R : List (List Nat)) (x y : List Nat) : (pairF R (x, y)).Perm (pairF R (y, x)) := by
  unfold pairF
  exact flatMap_perm_left _ fun h _ => quadC_swap x y h.1 h.2

theorem pairF_perm_right (R : List (List Nat)) (x : List Nat) {y y' : List Nat} (h : y.Perm y') :
    (pairF R (x, y)).Perm (pairF R (x, y')) := by
  unfold pairF quadC
  refine flatMap_perm_left _ fun hh _ => ?_
  exact flatMap_perm_left _ fun a _ => h.flatMap_right _

/-- the specific quartets do not depend on the order of the left groups, nor on the order inside the last one -/
theorem iterSpecific_perm (R : List (List Nat)) {L S : List (List Nat)} {g g' : List Nat}
    (hL : L.Perm (S ++ [g])) (hg : g.Perm g') :
    ((iterSpecific L R).map Quartet.canon).Perm ((iterSpecific (S ++ [g']) R).map Quartet.canon) := by
  rw [iterSpecific_canon, iterSpecific_canon]
  refine (pairs_flatMap_perm _ (pairF_swap R) hL).trans ?_
  refine (pairs_snoc _ S g).trans ?_
  refine List.Perm.trans ?_ (pairs_snoc _ S g').symm
  refine List.Perm.append_left _ ?_
  exact flatMap_perm_left _ fun s _ => pairF_perm_right R s hg

theorem iterSpecific_perm_groups (R : List (List Nat)) {L S : List (List Nat)} (hL : L.Perm S) :
    ((iterSpecific L R).map Quartet.canon).Perm ((iterSpecific S R).map Quartet.canon) := by
  rw [iterSpecific_canon, iterSpecific_canon]
  exact pairs_flatMap_perm _ (pairF_swap R) hL


/-! ## the groups around a branch (specific quartets) -/

theorem kidGroups_snd (rank : String → Nat) (l : Kids) (k : Nat) :
    (kidGroups rank l k).map (·.2) = l.map fun et => et.2.leaves.map rank := by
  induction l generalizing k with
  | nil => rfl
  | cons x r ih => rw [kidGroups_cons, List.map_cons, ih]; rfl

theorem zipIdx_filter_ne (l : Kids) (k j : Nat) (h : j < k ∨ k + l.length ≤ j) :
    (l.zipIdx k).filter (fun x => x.2 != j) = l.zipIdx k := by
  induction l generalizing k with
  | nil => rfl
  | cons x r ih =>
    have hk : (k != j) = true := by
      simp only [bne_iff_ne, ne_eq]; simp only [List.length_cons] at h; omega
    simp only [List.zipIdx_cons, List.filter_cons, hk, if_true]
    rw [ih]; simp only [List.length_cons] at h; omega

theorem zipIdx_map_fst {β : Type} (l : Kids) (k : Nat) (G : EdgeD × T → β) :
    (l.zipIdx k).map (fun x => G x.1) = l.map G := by
  induction l generalizing k with
  | nil => rfl
  | cons x r ih => simp only [List.zipIdx_cons, List.map_cons, ih]

/-- the sibling groups of the specification -/
theorem specGroups_eq (rank : String → Nat) (pre post : Kids) (e : EdgeD) (y : T) :
    (((pre ++ (e, y) :: post).zipIdx.filter fun x => x.2 != pre.length).map fun x => x.1.2.leaves.map rank) =
      (pre ++ post).map fun et => et.2.leaves.map rank := by
  rw [List.zipIdx_append, List.zipIdx_cons, List.filter_append, List.filter_cons]
  have : ((0 + pre.length) != pre.length) = false := by simp
  simp only [this, Bool.false_eq_true, if_false]
  rw [zipIdx_filter_ne pre 0 pre.length (Or.inr (by omega)),
    zipIdx_filter_ne post (0 + pre.length + 1) pre.length (Or.inl (by omega)),
    List.map_append, zipIdx_map_fst pre _ (fun et => et.2.leaves.map rank),
    zipIdx_map_fst post _ (fun et => et.2.leaves.map rank), List.map_append]

/-- the groups the model hands to `iterate` on the left: the siblings and what is above the node -/
theorem leftGroups_perm (rank : String → Nat) (isRoot : Bool) (p : Nat) (leftX : List Nat)
    (pre post : Kids) (e : EdgeD) (y : T) :
    (((groups rank isRoot p leftX (pre ++ (e, y) :: post)).filter fun g => g.1 != some pre.length).map (·.2)).Perm
      ((pre ++ post).map (fun et => et.2.leaves.map rank) ++ (if isRoot then [] else [leftX])) := by
  have hg : kidGroups rank (pre ++ (e, y) :: post) 0 =
      kidGroups rank pre 0 ++ (some pre.length, rightOf rank y) :: kidGroups rank post (pre.length + 1) := by
    rw [kidGroups_append, kidGroups_cons]; simp
  have hkids : ((kidGroups rank (pre ++ (e, y) :: post) 0).filter fun g => g.1 != some pre.length).map (·.2) =
      (pre ++ post).map fun et => et.2.leaves.map rank := by
    rw [hg, List.filter_append, List.filter_cons]
    have : ((some pre.length : Option Nat) != some pre.length) = false := by simp
    simp only [this, Bool.false_eq_true, if_false]
    rw [kidGroups_filter_ne rank pre 0 pre.length (Or.inr (by omega)),
      kidGroups_filter_ne rank post (pre.length + 1) pre.length (Or.inl (by omega)),
      List.map_append, kidGroups_snd, kidGroups_snd, List.map_append]
  unfold groups
  show (((if isRoot = true then kidGroups rank (pre ++ (e, y) :: post) 0 else _).filter _).map _).Perm _
  cases isRoot with
  | true => simp only [if_true, hkids, List.append_nil]; exact List.Perm.refl _
  | false =>
    simp only [Bool.false_eq_true, if_false]
    have hp : (List.take p (kidGroups rank (pre ++ (e, y) :: post) 0) ++
        (none, leftX) :: List.drop p (kidGroups rank (pre ++ (e, y) :: post) 0)).Perm
        ((none, leftX) :: kidGroups rank (pre ++ (e, y) :: post) 0) := by
      refine List.perm_middle.trans ?_
      rw [List.take_append_drop]
    refine ((hp.filter fun g => g.1 != some pre.length).map (·.2)).trans ?_
    have : ((none : Option Nat) != some pre.length) = true := by simp
    simp only [List.filter_cons, this, if_true, List.map_cons, hkids]
    exact (List.perm_append_comm (l₁ := [leftX])).trans (List.Perm.refl _)

/-! ## the enumeration -/

section
variable (tips : List String) (rank : String → Nat)

mutual
theorem quartT_spec (sp : Bool) (hn : tips.Nodup) : ∀ (x : T) (isRoot : Bool) (leftX : List Nat),
    (leavesL x.kids).Sublist tips →
    leftX.Perm (if isRoot then [] else (compl tips (leavesL x.kids)).map rank) →
    (isRoot = true → compl tips (leavesL x.kids) = []) →
    ((quartT rank sp isRoot leftX x).map Quartet.canon).Perm ((specQT tips rank sp isRoot x).map Quartet.canon)
  | .node d p kids, isRoot, leftX, hs, hl, hr => by
    rw [quartT, specQT]
    exact quartL_spec sp hn kids isRoot p leftX hs hl hr [] kids rfl
theorem quartL_spec (sp : Bool) (hn : tips.Nodup) : ∀ (all : Kids) (isRoot : Bool) (p : Nat) (leftX : List Nat),
    (leavesL all).Sublist tips →
    leftX.Perm (if isRoot then [] else (compl tips (leavesL all)).map rank) →
    (isRoot = true → compl tips (leavesL all) = []) →
    ∀ (pre rest : Kids), all = pre ++ rest →
    ((quartL rank sp (all.length + if isRoot then 0 else 1) (groups rank isRoot p leftX all) pre.length rest).map Quartet.canon).Perm
      ((specQL tips rank sp isRoot all pre.length rest).map Quartet.canon)
  | all, isRoot, p, leftX, hs, hl, hr, pre, [], _ => by simp [quartL, specQL]
  | all, isRoot, p, leftX, hs, hl, hr, pre, (e, y) :: post, hall => by
    subst hall
    -- the list "left of y"
    have hleft : (leftOfKid pre.length (groups rank isRoot p leftX (pre ++ (e, y) :: post))).Perm
        ((compl tips y.leaves).map rank) := by
      refine (leftOfKid_perm rank isRoot p leftX pre post e y).trans ?_
      refine List.Perm.trans ?_ ((compl_kid hn pre post e y hs).map rank).symm
      simp only [List.map_append]
      refine List.Perm.append_left _ ?_
      cases isRoot with
      | true => simp [hr rfl]
      | false => simpa using hl
    rw [quartL, specQL]
    simp only [List.map_append]
    refine List.Perm.append (List.Perm.append ?_ ?_) ?_
    · -- the quartets of the branch itself
      refine perm_ite_nil _ _ ?_
      cases sp with
      | false => exact iterPlain_perm hleft (List.Perm.refl _)
      | true =>
        simp only [if_true]
        rw [specGroups_eq]
        have hL := leftGroups_perm rank isRoot p leftX pre post e y
        cases isRoot with
        | true =>
          simp only [if_true, List.append_nil] at hL ⊢
          exact iterSpecific_perm_groups _ hL
        | false =>
          simp only [Bool.false_eq_true, if_false] at hL hl ⊢
          exact iterSpecific_perm _ hL hl
    · -- below y
      have hsy : (leavesL y.kids).Sublist tips := by
        refine List.Sublist.trans ?_ hs
        rw [leavesL_split]
        refine List.Sublist.trans ?_ (List.sublist_append_right _ _)
        refine List.Sublist.trans ?_ (List.sublist_append_left _ _)
        cases y with
        | node d' p' k' =>
          cases k' with
          | nil => simp [leavesL]
          | cons a b => simp [T.leaves]
      cases y with
      | node d' p' k' =>
        cases k' with
        | nil => simp [quartT, specQT, quartL, specQL]
        | cons a b =>
          refine quartT_spec sp hn (.node d' p' (a :: b)) false _ hsy ?_ (fun h => by cases h)
          simpa [T.leaves] using hleft
    · have := quartL_spec sp hn (pre ++ (e, y) :: post) isRoot p leftX hs hl hr (pre ++ [(e, y)]) post (by simp)
      simpa using this
end

end

/-- `Quartets(specific, ·)` of the model delivers exactly the quartets of the tree (as a multiset, each
    quartet up to the order inside its pairs): for every tree with unique tip names whose root is
    not a tip, any child order and parent positions. -/
theorem quartets_eq (rank : String → Nat) (sp : Bool) (t : T) (hn : t.tipNames.Nodup) (hr : t.kids.length ≠ 1) :
    ((quartets rank sp t).map Quartet.canon).Perm ((specQuartets rank sp t).map Quartet.canon) := by
  have ht : t.tipNames = leavesL t.kids := by simp [T.tipNames, hr]
  unfold quartets specQuartets
  have : (t.kids.length == 1) = false := by simp [hr]
  simp only [this, Bool.false_eq_true, if_false]
  refine quartT_spec t.tipNames rank sp hn t true [] (by rw [ht]; exact List.Sublist.refl _) (by simp) (fun _ => ?_)
  rw [← ht]
  unfold compl
  apply List.filter_eq_nil_iff.mpr
  intro x hx; simp [hx]

theorem quartets_plain_eq (rank : String → Nat) (t : T) (hn : t.tipNames.Nodup) (hr : t.kids.length ≠ 1) :
    ((quartets rank false t).map Quartet.canon).Perm ((specQuartets rank false t).map Quartet.canon) :=
  quartets_eq rank false t hn hr

theorem assoc_run_puts (qs : List Quartet) (a : List (Quartet × Quartet)) :
    Assoc.run Quartet.hashEquals ((qs.map fun q => HMOp.put q q) ++ [.kvs]) a =
      List.replicate qs.length HMOut.unit ++ [.kvs (qs.foldl (fun a q => Assoc.put Quartet.hashEquals q q a) a)] := by
  induction qs generalizing a with
  | nil => rfl
  | cons q r ih =>
    simp only [List.map_cons, List.cons_append, Assoc.run, List.length_cons, List.replicate_succ, List.foldl_cons, ih]

end Gotree.C04
