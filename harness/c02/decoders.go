package c02

// The XML / JSON decoders the PhyloXML and Nextstrain readers rely on (encoding/xml, encoding/json) are outside
// the Lean models, which start from the decoded structure.  Here the structure comes FIRST: a generator draws a
// PhyloXML / Nextstrain structure, renders it as text in many syntactic guises the decoders must see through
// (element / key order, unknown elements and keys, comments, CDATA, entities, unicode escapes, number forms,
// key case), and the case line carries the generator's structure as the expectation.  The driver applies the
// clade-conversion model to the EXPECTED structure and compares with what the real reader delivered, and also
// compares the structure the Go decoder produced with the expected one.  Corrupted renderings (truncated tags,
// wrong nesting, depth beyond the decoders' limit, invalid UTF-8, bad entities, type mismatches) carry the
// expectation "E": the decoder must refuse them, the reader must report an error (never crash).
//
//	C02.dec <format> <input> <outcome> <records> <decoded by Go> <expected: structure | E>

import (
	"fmt"
	"strconv"
	"strings"

	"verifharness/core"
)

// ---------------------------------------------------------------------------------- PhyloXML

var pxNames = []string{"a", "t1", "Homo sapiens", "x<y", "a&b", "é", "q\"uote", "a]]>b", " lead", "0.5", "c:d", "tab\there"}

func genPx(g *core.G) *pxD {
	px := &pxD{}
	np := g.Intn(3)
	if g.Chance(0.7) {
		np = 1
	}
	for i := 0; i < np; i++ {
		ph := pxP{Rooted: g.Chance(0.5)}
		ph.Root = genPxClade(g, 0)
		px.Phylos = append(px.Phylos, ph)
	}
	return px
}

func genPxClade(g *core.G, depth int) *pxC {
	c := &pxC{}
	switch g.Intn(5) {
	case 0:
		c.Sci = g.Pick(pxNames)
	case 1:
		c.Code = g.Pick(pxNames)
	case 2:
		// no name at all (an error for a tip)
	default:
		c.Name = g.Pick(pxNames) + strconv.Itoa(g.Intn(50))
	}
	// several of the three names at once: the precedence is name, scientific name, code
	if g.Chance(0.25) {
		c.Sci = "sci" + g.Pick(pxNames)
	}
	if g.Chance(0.2) {
		c.Code = "code" + strconv.Itoa(g.Intn(9))
	}
	if g.Chance(0.6) {
		v := float64(g.Intn(64)) / 16
		c.Len = &v
	}
	if g.Chance(0.4) {
		v := float64(g.Intn(101)) / 100
		c.Conf = &v
	}
	if depth < 5 && g.Chance(0.55-0.08*float64(depth)) {
		n := 1 + g.Intn(4)
		for i := 0; i < n; i++ {
			c.Kids = append(c.Kids, genPxClade(g, depth+1))
		}
	}
	return c
}

func xmlText(g *core.G, s string) string {
	switch g.Intn(4) {
	case 0:
		if !strings.Contains(s, "]]>") {
			return "<![CDATA[" + s + "]]>"
		}
	case 1:
		// numeric character references for everything
		var b strings.Builder
		for _, r := range s {
			if g.Chance(0.5) {
				fmt.Fprintf(&b, "&#x%X;", r)
			} else {
				fmt.Fprintf(&b, "&#%d;", r)
			}
		}
		return b.String()
	}
	r := strings.NewReplacer("&", "&amp;", "<", "&lt;", ">", "&gt;", "\"", "&quot;")
	return r.Replace(s)
}

func xmlFloat(g *core.G, v float64) string {
	s := strconv.FormatFloat(v, 'f', -1, 64)
	switch g.Intn(5) {
	case 0:
		return " " + s + "\n"
	case 1:
		return strconv.FormatFloat(v, 'e', -1, 64)
	case 2:
		return "+" + s
	}
	return s
}

var xmlNoise = []string{"<!-- a comment -->", "\n  ", "<property ref=\"x\" datatype=\"xsd:string\">v<a/></property>", "<events><speciations>1</speciations></events>", "<color><red>1</red></color>", ""}

func renderPxClade(g *core.G, b *strings.Builder, c *pxC) {
	b.WriteString("<clade")
	if g.Chance(0.2) {
		b.WriteString(" id_source=\"x\" branch_length='9'") // attributes are not read
	}
	b.WriteString(">")
	var parts []string
	if c.Name != "" || g.Chance(0.1) {
		parts = append(parts, "<name>"+xmlText(g, c.Name)+"</name>")
	}
	if c.Len != nil {
		parts = append(parts, "<branch_length>"+xmlFloat(g, *c.Len)+"</branch_length>")
	}
	if c.Conf != nil {
		parts = append(parts, "<confidence type=\"bootstrap\">"+xmlFloat(g, *c.Conf)+"</confidence>")
	}
	if c.Sci != "" || c.Code != "" || g.Chance(0.1) {
		t := "<taxonomy>"
		if g.Chance(0.3) {
			t += "<id provider=\"ncbi\">" + strconv.Itoa(g.Intn(9999)) + "</id>"
		}
		if c.Code != "" {
			t += "<code>" + xmlText(g, c.Code) + "</code>"
		}
		if c.Sci != "" {
			t += "<scientific_name>" + xmlText(g, c.Sci) + "</scientific_name>"
		}
		parts = append(parts, t+"</taxonomy>")
	}
	// sub-clades keep their document order among themselves; everything else may sit anywhere
	var kids []string
	for i := range c.Kids {
		var kb strings.Builder
		renderPxClade(g, &kb, c.Kids[i])
		kids = append(kids, kb.String())
	}
	// interleave: random merge of parts (shuffled) and kids (in order)
	g.R.Shuffle(len(parts), func(i, j int) { parts[i], parts[j] = parts[j], parts[i] })
	for len(parts) > 0 || len(kids) > 0 {
		b.WriteString(g.Pick(xmlNoise))
		if len(kids) == 0 || (len(parts) > 0 && g.Chance(0.6)) {
			b.WriteString(parts[0])
			parts = parts[1:]
		} else {
			b.WriteString(kids[0])
			kids = kids[1:]
		}
	}
	b.WriteString(g.Pick(xmlNoise))
	b.WriteString("</clade>")
}

func renderPx(g *core.G, px *pxD) string {
	var b strings.Builder
	if g.Chance(0.5) {
		b.WriteString("<?xml version=\"1.0\" encoding=\"UTF-8\"?>\n")
	}
	if g.Chance(0.2) {
		b.WriteString("<!-- header -->\n")
	}
	b.WriteString("<phyloxml")
	if g.Chance(0.5) {
		b.WriteString(" xmlns:xsi=\"http://www.w3.org/2001/XMLSchema-instance\" xmlns=\"http://www.phyloxml.org\"")
	}
	b.WriteString(">")
	for i := range px.Phylos {
		b.WriteString(g.Pick(xmlNoise[:2]))
		b.WriteString(fmt.Sprintf("<phylogeny rooted=\"%s\">", g.Pick([]string{strconv.FormatBool(px.Phylos[i].Rooted), map[bool]string{true: "1", false: "0"}[px.Phylos[i].Rooted]})))
		if g.Chance(0.3) {
			b.WriteString("<name>tree</name><description>d</description>")
		}
		renderPxClade(g, &b, px.Phylos[i].Root)
		b.WriteString("</phylogeny>")
	}
	b.WriteString("</phyloxml>")
	if g.Chance(0.5) {
		b.WriteString("\n")
	}
	return b.String()
}

// corruptXML damages a valid rendering in a way the decoder must refuse.
func corruptXML(g *core.G, doc string) (string, string) {
	end := strings.LastIndex(doc, "</phyloxml>")
	switch g.Intn(10) {
	case 0: // truncated somewhere before the end of the closing tag of the root
		return doc[:g.Intn(end+len("</phyloxml>")-1)], "truncated"
	case 1: // wrong nesting
		if i := strings.Index(doc, "</clade>"); i >= 0 {
			return doc[:i] + "</phylogeny>" + doc[i+len("</clade>"):], "nesting"
		}
	case 2: // a byte that is not UTF-8 inside character data
		if i := strings.Index(doc, "<clade"); i >= 0 {
			j := i + strings.Index(doc[i:], ">") + 1
			return doc[:j] + "<name>a\xffb</name>" + doc[j:], "utf8"
		}
	case 3: // undefined entity
		if i := strings.Index(doc, "<clade"); i >= 0 {
			j := i + strings.Index(doc[i:], ">") + 1
			return doc[:j] + "<name>a&nbsp;b</name>" + doc[j:], "entity"
		}
	case 4: // not a number
		if i := strings.Index(doc, "<clade"); i >= 0 {
			j := i + strings.Index(doc[i:], ">") + 1
			return doc[:j] + "<branch_length>" + g.Pick([]string{"abc", "1,5", "1 2", "--1", "1e", "0x"}) + "</branch_length>" + doc[j:], "float"
		}
	case 5: // not a boolean
		if strings.Contains(doc, "rooted=\"") {
			i := strings.Index(doc, "rooted=\"") + len("rooted=\"")
			j := i + strings.Index(doc[i:], "\"")
			return doc[:i] + g.Pick([]string{"maybe", "yes", "2", "tru"}) + doc[j:], "bool"
		}
	case 6: // another root element
		return strings.Replace(strings.Replace(doc, "<phyloxml", "<phyloxmlx", 1), "</phyloxml>", "</phyloxmlx>", 1), "root"
	case 7: // nesting beyond the decoder's limit
		d := 10001 + g.Intn(200)
		return "<phyloxml><phylogeny>" + strings.Repeat("<clade>", d) + "<name>a</name>" + strings.Repeat("</clade>", d) + "</phylogeny></phyloxml>", "depth"
	case 8: // unquoted attribute / stray markup
		if i := strings.Index(doc, "<clade"); i >= 0 {
			return doc[:i] + g.Pick([]string{"<clade a=b>", "<clade a>", "< clade>", "<clade a=\"1\" b=\"2", "<1clade>"}) + doc[i+len("<clade"):], "markup"
		}
	case 9: // unterminated comment / CDATA / processing instruction
		if i := strings.Index(doc, "<clade"); i >= 0 {
			return doc[:i] + g.Pick([]string{"<!-- never closed ", "<![CDATA[ never closed ", "<?pi never closed "}) + doc[i:], "unterminated"
		}
	}
	return doc[:end], "truncated"
}

// ---------------------------------------------------------------------------------- Nextstrain

var nsNames = []string{"a", "hCoV-19/France/1", "é", "q\"uote", "back\\slash", "tab\there", "𝔘nicode", "a b"}

func genNs(g *core.G) *nsD {
	ns := &nsD{Version: "v2"}
	if g.Chance(0.07) {
		ns.Version = g.Pick([]string{"v1", "", "V2"})
	}
	ns.Tree = genNsNode(g, 0, 0)
	return ns
}

func genNsNode(g *core.G, depth int, div float64) *nsN {
	n := &nsN{}
	if g.Chance(0.85) {
		n.Name = g.Pick(nsNames) + strconv.Itoa(g.Intn(50))
	}
	n.Div = div + float64(g.Intn(64))/16
	if g.Chance(0.3) {
		n.Country = g.Pick([]string{"France", "Costa Rica", "a:b,c"})
	}
	if g.Chance(0.3) {
		n.Date = []float64{2020.5, 2019, 1000, 2021.123456789}[g.Intn(4)]
	}
	if g.Chance(0.2) {
		n.Accession = g.Pick([]string{"MN908947", "A B:1"})
	}
	if g.Chance(0.25) {
		n.Aa = g.Pick([]string{"ORF1a: T265I, S: D614G", "N:P13L"})
	}
	if depth < 5 && g.Chance(0.6-0.08*float64(depth)) {
		k := 1 + g.Intn(4)
		for i := 0; i < k; i++ {
			n.Kids = append(n.Kids, genNsNode(g, depth+1, n.Div))
		}
	}
	return n
}

func jsonKey(g *core.G, k string) string {
	// encoding/json matches keys case-insensitively
	switch g.Intn(6) {
	case 0:
		return "\"" + strings.ToUpper(k) + "\""
	case 1:
		return "\"" + strings.ToUpper(k[:1]) + k[1:] + "\""
	}
	return "\"" + k + "\""
}

func jsonString(g *core.G, s string) string {
	var b strings.Builder
	b.WriteByte('"')
	for _, r := range s {
		switch {
		case r == '"' || r == '\\':
			b.WriteByte('\\')
			b.WriteRune(r)
		case r < 0x20:
			fmt.Fprintf(&b, "\\u%04x", r)
		case r > 0xffff && g.Chance(0.5):
			r -= 0x10000
			fmt.Fprintf(&b, "\\u%04x\\u%04x", 0xd800+(r>>10), 0xdc00+(r&0x3ff))
		case r > 0x7f && r <= 0xffff && g.Chance(0.5), r <= 0xffff && r != ' ' && g.Chance(0.1):
			fmt.Fprintf(&b, "\\u%04X", r)
		case r == '/' && g.Chance(0.3):
			b.WriteString("\\/")
		default:
			b.WriteRune(r)
		}
	}
	b.WriteByte('"')
	return b.String()
}

func jsonNum(g *core.G, v float64) string {
	switch g.Intn(4) {
	case 0:
		return strconv.FormatFloat(v, 'e', -1, 64)
	case 1:
		if v == float64(int64(v)) {
			return strconv.FormatInt(int64(v), 10) + ".0"
		}
	}
	return strconv.FormatFloat(v, 'f', -1, 64)
}

var jsonNoise = []string{`"hidden":false`, `"x":null`, `"vaccine":{"serum":true,"list":[1,[2,{"a":"b"}]]}`, `"url":"http://x/y?z=1"`, `"num_date_confidence":[1,2]`}

func ws(g *core.G) string { return g.Pick([]string{"", "", " ", "\n  ", "\t"}) }

func renderNsNode(g *core.G, b *strings.Builder, n *nsN) {
	var fields []string
	if n.Name != "" || g.Chance(0.3) {
		fields = append(fields, jsonKey(g, "name")+ws(g)+":"+ws(g)+jsonString(g, n.Name))
	}
	{
		var a []string
		a = append(a, jsonKey(g, "div")+":"+jsonNum(g, n.Div))
		if n.Country != "" {
			a = append(a, jsonKey(g, "country")+":{"+jsonKey(g, "value")+":"+jsonString(g, n.Country)+",\"confidence\":{\"France\":0.9}}")
		}
		if n.Date != 0 {
			a = append(a, jsonKey(g, "num_date")+":{\"value\":"+jsonNum(g, n.Date)+",\"confidence\":[2019.1,2021.2]}")
		}
		if n.Accession != "" {
			a = append(a, jsonKey(g, "accession")+":"+jsonString(g, n.Accession))
		}
		if g.Chance(0.3) {
			a = append(a, g.Pick(jsonNoise))
		}
		g.R.Shuffle(len(a), func(i, j int) { a[i], a[j] = a[j], a[i] })
		fields = append(fields, jsonKey(g, "node_attrs")+":{"+strings.Join(a, ","+ws(g))+"}")
	}
	if n.Aa != "" {
		fields = append(fields, jsonKey(g, "branch_attrs")+":{\"mutations\":{\"nuc\":[\"C241T\"]},\"labels\":{\"aa\":"+jsonString(g, n.Aa)+"}}")
	}
	if len(n.Kids) > 0 {
		var kb strings.Builder
		kb.WriteString(jsonKey(g, "children") + ":" + ws(g) + "[")
		for i := range n.Kids {
			if i > 0 {
				kb.WriteString("," + ws(g))
			}
			renderNsNode(g, &kb, n.Kids[i])
		}
		kb.WriteString("]")
		fields = append(fields, kb.String())
	} else if g.Chance(0.3) {
		fields = append(fields, jsonKey(g, "children")+":"+g.Pick([]string{"[]", "null"}))
	}
	if g.Chance(0.3) {
		fields = append(fields, g.Pick(jsonNoise))
	}
	g.R.Shuffle(len(fields), func(i, j int) { fields[i], fields[j] = fields[j], fields[i] })
	b.WriteString("{" + ws(g) + strings.Join(fields, ","+ws(g)) + ws(g) + "}")
}

func renderNs(g *core.G, ns *nsD) string {
	var tb strings.Builder
	renderNsNode(g, &tb, ns.Tree)
	fields := []string{jsonKey(g, "version") + ":" + jsonString(g, ns.Version), jsonKey(g, "tree") + ":" + tb.String()}
	if g.Chance(0.5) {
		fields = append(fields, "\"meta\":{\"title\":\"t\",\"panels\":[\"tree\"],\"updated\":\"2020-01-01\"}")
	}
	g.R.Shuffle(len(fields), func(i, j int) { fields[i], fields[j] = fields[j], fields[i] })
	return ws(g) + "{" + strings.Join(fields, ","+ws(g)) + "}" + ws(g)
}

func corruptJSON(g *core.G, doc string) (string, string) {
	last := strings.LastIndex(doc, "}")
	switch g.Intn(9) {
	case 0:
		return doc[:g.Intn(last)], "truncated"
	case 1: // wrong closing bracket (the strings of the renderings hold no bracket)
		if i := strings.Index(doc, "]"); i >= 0 && g.Chance(0.5) {
			return doc[:i] + "}" + doc[i+1:], "nesting"
		}
		return doc[:last] + "]" + doc[last+1:], "nesting"
	case 2: // a raw control character inside a string
		if i := strings.Index(doc, ":\""); i >= 0 {
			return doc[:i+2] + "\x01" + doc[i+2:], "control"
		}
	case 3: // type mismatch
		if i := strings.Index(strings.ToLower(doc), "\"div\":"); i >= 0 {
			return doc[:i+6] + g.Pick([]string{"\"x\"", "[1]", "{}", "true"}) + "," + "\"zz\":" + doc[i+6:], "type"
		}
	case 4: // number out of range
		if i := strings.Index(strings.ToLower(doc), "\"div\":"); i >= 0 {
			return doc[:i+6] + "1e400,\"zz\":" + doc[i+6:], "range"
		}
	case 5: // something after the top-level value
		return doc[:last+1] + g.Pick([]string{"x", "{}", ",", "]"}), "trailing"
	case 6: // nesting beyond the decoder's limit
		d := 5001 + g.Intn(100)
		return `{"version":"v2","tree":` + strings.Repeat(`{"children":[`, d) + `{"name":"a"}` + strings.Repeat(`]}`, d) + "}", "depth"
	case 7: // bad escape / lone surrogate escape is NOT an error (replaced): use a bad escape
		if i := strings.Index(doc, ":\""); i >= 0 {
			return doc[:i+2] + g.Pick([]string{"\\x41", "\\u12G4", "\\q"}) + doc[i+2:], "escape"
		}
	case 8: // single quotes / unquoted key / trailing comma
		return strings.Replace(doc, "{", g.Pick([]string{"{'a':1,", "{a:1,", "{,"}), 1), "syntax"
	}
	return doc[:last], "truncated"
}

// genDec draws one decoder case.
func genDec(g *core.G, format string) request {
	var doc, expect string
	kind := "valid"
	switch format {
	case "phyloxml", "phyloxmlm":
		px := genPx(g)
		doc = renderPx(g, px)
		expect = encPx(px)
		if g.Chance(0.3) {
			doc, kind = corruptXML(g, doc)
			expect = "E"
		}
	default:
		ns := genNs(g)
		doc = renderNs(g, ns)
		expect = encNs(ns)
		if g.Chance(0.3) {
			doc, kind = corruptJSON(g, doc)
			expect = "E"
		} else if g.Chance(0.1) {
			kind = "utf8-replaced"
			// invalid UTF-8 inside a string is NOT an error for encoding/json: it becomes U+FFFD
			ns.Tree.Name = "bad�byte"
			doc = renderNs(g, ns)
			doc = strings.Replace(doc, "�", "\xff", 1)
			if strings.Contains(doc, "\\uFFFD") || strings.Contains(doc, "\\ufffd") {
				doc = renderNsPlainName(ns)
			}
			expect = encNs(ns)
		}
	}
	return request{op: "dec", format: format, input: []byte(doc), expect: expect, kind: kind}
}

// renderNsPlainName: a minimal rendering whose name holds the raw byte 0xFF.
func renderNsPlainName(ns *nsD) string {
	ns.Tree = &nsN{Name: ns.Tree.Name}
	return "{\"version\":\"" + ns.Version + "\",\"tree\":{\"name\":\"bad\xffbyte\"}}"
}
