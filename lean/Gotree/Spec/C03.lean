/-
  C03 — what "well-formed, and the enumerations / the text describe it" means.

  The harness' walker α has already established connectivity, acyclicity,
  symmetric adjacency and orientation of the heap (its verdict travels in the
  `wf` field); what is left to say is said here about the tree value `t` that
  α returned and the data the public API answered:

  * `enumProblems`: the five enumerations against the plain walk `allPaths`;
  * `textProblems`: the Newick text re-read by a small reference reader against `t`.
-/
import Gotree.Model.C03

namespace Gotree.C03
open Gotree

/- ## the plain walk -/

/-- the subtree rooted at the node named by a path -/
def subtreeAt : T → Path → Option T
  | t, [] => some t
  | t, i :: p =>
    match t.kids[i]? with
    | some (_, c) => subtreeAt c p
    | none => none

/- all node paths, pre-order, children in slice order -/
mutual
def allPathsFrom : Path → T → List Path
  | p, .node _ _ k => p :: allPathsL p 0 k
def allPathsL : Path → Nat → Kids → List Path
  | _, _, [] => []
  | p, i, (_, t) :: r => allPathsFrom (p ++ [i]) t ++ allPathsL p (i + 1) r
end

def allPaths (t : T) : List Path := allPathsFrom [] t

/-- the node at `p` has exactly one neighbour (`Node.Tip()`): a non-root node
    without children, or a root with exactly one child -/
def isTipAt (t : T) (p : Path) : Bool :=
  match subtreeAt t p with
  | some s => isTip (!p.isEmpty) s
  | none => false

/-- lexicographic order on paths (only used to compare multisets) -/
def pathLe : Path → Path → Bool
  | [], _ => true
  | _ :: _, [] => false
  | a :: p, b :: q => a < b || (a == b && pathLe p q)

def sortPaths (l : List Path) : List Path := l.mergeSort pathLe

/-- equal as multisets -/
def sameBag (a b : List Path) : Bool := sortPaths a == sortPaths b

/-- a branch as the public API shows it: which branch (path of the lower end found by
    pointer identity in the plain walk; `none` = a branch the walk never met), and what
    `Left()` / `Right()` point to -/
structure ObsEdge where
  id : Option Path
  left : Option Path
  right : Option Path
  deriving Repr, BEq

/-- Every problem of the five enumerations, as text (empty = the oracle holds).
    `ns ts` = `Nodes() Tips()` as paths (`none` = unknown pointer); `es is xs` = `Edges() InternalEdges() TipEdges()`. -/
def enumProblems (t : T) (ns ts : List (Option Path)) (es is xs : List ObsEdge) : List String :=
  let walk := allPaths t
  let ids (l : List ObsEdge) : List Path := l.filterMap (·.id)
  let known (l : List (Option Path)) : List Path := l.filterMap id
  (if ns.any (·.isNone) || ts.any (·.isNone) then ["a listed node is not part of the tree"] else []) ++
  (if (es ++ is ++ xs).any (·.id.isNone) then ["a listed branch is not part of the tree"] else []) ++
  (if sameBag (known ns) walk then [] else ["Nodes() is not the set of nodes reached by a plain walk"]) ++
  (if sameBag (ids es) walk.tail then [] else ["Edges() is not the set of branches reached by a plain walk"]) ++
  (if es.length + 1 == ns.length then [] else ["branches != nodes - 1"]) ++
  (if sameBag (ids es) (ids is ++ ids xs) then [] else ["Edges() != InternalEdges() + TipEdges() as multisets"]) ++
  (if (es ++ is ++ xs).all (fun e => e.right == e.id && e.left == e.id.map List.dropLast) then []
   else ["a listed branch does not point from the parent to the child"]) ++
  (if sameBag (known ts) (walk.filter (isTipAt t)) then [] else ["Tips() is not the set of nodes with one neighbour"]) ++
  (if sameBag (ids xs) (walk.tail.filter (isTipAt t)) then [] else ["TipEdges() is not the set of branches ending in a tip"])

/- ## reference Newick reader for the texts the writer emits

  node  := [ '(' node { ',' node } ')' ] label { '[' … ']' } [ ':' number ] { '[' … ']' }
  text  := node ';'

  The reader yields the nodes in the order their text ENDS (post-order) with their depth,
  which determines the ordered tree; no tree value is built. -/

structure TextNode where
  depth : Nat
  label : String
  ncomments : List String
  len : Option String
  ecomments : List String
  deriving Repr, BEq

def isMeta (c : Char) : Bool :=
  c == '(' || c == ')' || c == '[' || c == ']' || c == ',' || c == ':' || c == ';'

/-- the longest prefix free of metacharacters -/
def takeWord : List Char → List Char → List Char × List Char
  | [], acc => (acc.reverse, [])
  | c :: r, acc => if isMeta c then (acc.reverse, c :: r) else takeWord r (c :: acc)

/-- after '[': everything up to the matching ']' -/
def takeComment : List Char → List Char → Option (List Char × List Char)
  | [], _ => none
  | c :: r, acc => if c == ']' then some (acc.reverse, r) else takeComment r (c :: acc)

/-- zero or more `[…]` -/
def takeComments : Nat → List Char → List String → Option (List String × List Char)
  | 0, _, _ => none
  | fuel + 1, '[' :: r, acc =>
    match takeComment r [] with
    | some (c, r') => takeComments fuel r' (String.ofList c :: acc)
    | none => none
  | _ + 1, cs, acc => some (acc.reverse, cs)

/-- the part of a node's text after its children: label, node comments, optional length, branch comments -/
def readTail (depth : Nat) (kids : List TextNode) (r1 : List Char) : Option (List TextNode × List Char) :=
  let (lab, r2) := takeWord r1 []
  match takeComments (r2.length + 1) r2 [] with
  | none => none
  | some (ncs, r3) =>
    let lenRes : Option String × List Char :=
      match r3 with
      | ':' :: r => let (w, r') := takeWord r []; (some (String.ofList w), r')
      | _ => (none, r3)
    match takeComments (lenRes.2.length + 1) lenRes.2 [] with
    | none => none
    | some (ecs, r5) => some (kids ++ [⟨depth, String.ofList lab, ncs, lenRes.1, ecs⟩], r5)

/- the children part: "(" node {"," node} ")" or nothing -/
mutual
def readNode : Nat → Nat → List Char → Option (List TextNode × List Char)
  | 0, _, _ => none
  | fuel + 1, depth, '(' :: r =>
    match readKids fuel (depth + 1) r [] with
    | none => none
    | some (kids, r1) => readTail depth kids r1
  | _ + 1, depth, cs => readTail depth [] cs
/-- after '(' : one or more nodes separated by ',' up to ')' -/
def readKids : Nat → Nat → List Char → List TextNode → Option (List TextNode × List Char)
  | 0, _, _, _ => none
  | fuel + 1, depth, cs, acc =>
    match readNode fuel depth cs with
    | none => none
    | some (ns, ',' :: r) => readKids fuel depth r (acc ++ ns)
    | some (ns, ')' :: r) => some (acc ++ ns, r)
    | some _ => none
end

def readNewick (s : String) : Option (List TextNode) :=
  let cs := s.toList
  match readNode (cs.length + 1) 0 cs with
  | some (ns, [';']) => some ns
  | _ => none

/-- what the tree says about one node, in the same (post-)order -/
structure ExpNode where
  depth : Nat
  d : NodeD
  e : Option EdgeD

mutual
def expPost : Nat → Option EdgeD → T → List ExpNode
  | dep, oe, .node d _ k => expPostL (dep + 1) k ++ [⟨dep, d, oe⟩]
def expPostL : Nat → Kids → List ExpNode
  | _, [] => []
  | dep, (e, t) :: r => expPost dep (some e) t ++ expPostL dep r
end

/-- decimal literal as printed by `strconv.FormatFloat(x,'f',-1,64)` -/
def parseDecimal (s : String) : Option Rat :=
  let cs := s.toList
  let (neg, cs) := match cs with | '-' :: r => (true, r) | _ => (false, cs)
  let ip := cs.takeWhile Char.isDigit
  let rest := cs.dropWhile Char.isDigit
  let digitsVal (l : List Char) : Nat := l.foldl (fun a c => 10 * a + (c.toNat - 48)) 0
  let res : Option Rat :=
    match rest with
    | [] => if ip.isEmpty then none else some ((digitsVal ip : Nat) : Rat)
    | '.' :: fp =>
      if ip.isEmpty || fp.isEmpty || !(fp.all Char.isDigit) then none
      else some (((digitsVal ip : Nat) : Rat) + ((digitsVal fp : Nat) : Rat) / ((10 ^ fp.length : Nat) : Rat))
    | _ => none
  res.map fun q => if neg then -q else q

/-- the literal denotes `q` up to the shortest-round-trip printing of a float64 -/
def decOK (s : String) (q : Rat) : Bool :=
  match parseDecimal s with
  | none => false
  | some d =>
    let diff := if d ≥ q then d - q else q - d
    let mag := if q ≥ 0 then q else -q
    decide (diff * (4503599627370496 : Rat) ≤ mag)

/-- split at the first '/': (before, after) -/
def splitSlash : List Char → List Char → List Char × Option (List Char)
  | [], acc => (acc.reverse, none)
  | c :: r, acc => if c == '/' then (acc.reverse, some r) else splitSlash r (c :: acc)

/-- the label the writer gives a node: its name, else support[/p-value] of its branch -/
def labelOK (d : NodeD) (oe : Option EdgeD) (label : String) : Bool :=
  if d.name != "" then label == d.name
  else match oe with
    | none => label == ""
    | some e =>
      if e.sup == NIL then label == ""
      else match splitSlash label.toList [] with
        | (s, none) => e.pval == NIL && decOK (String.ofList s) e.sup
        | (s, some p) => e.pval != NIL && decOK (String.ofList s) e.sup && decOK (String.ofList p) e.pval

def nodeTextOK (x : ExpNode) (y : TextNode) : Bool :=
  x.depth == y.depth && labelOK x.d x.e y.label &&
  (match x.e, y.len with
   | none, none => true
   | some e, none => e.len == NIL
   | some e, some l => e.len != NIL && decOK l e.len
   | none, some _ => false) &&
  -- comments: a Newick text has one run of `[…]` after the label and one after the length; without a
  -- length the two runs are one (the text cannot say where node comments end and branch comments begin)
  (match x.e with
   | none => x.d.comments == y.ncomments && y.ecomments.isEmpty
   | some e =>
     if e.len == NIL then x.d.comments ++ e.comments == y.ncomments && y.ecomments.isEmpty
     else x.d.comments == y.ncomments && e.comments == y.ecomments)

/-- some node name contains a Newick metacharacter (the writer does not quote: open finding F85) -/
def hasMetaName (t : T) : Bool := t.nodeNames.any fun n => n.toList.any isMeta

/-- Problems of the text (empty = the text, re-read, is the tree `t` with its shape,
    child order, names or supports, comments and lengths). -/
def textProblems (t : T) (text : String) : List String :=
  match readNewick text with
  | none => ["the Newick text cannot be re-read"]
  | some ns =>
    let ex := expPost 0 none t
    if ex.length != ns.length then ["the Newick text has " ++ toString ns.length ++ " nodes, the tree " ++ toString ex.length]
    else if (List.zipWith nodeTextOK ex ns).all id then [] else ["the Newick text re-read differs from the tree"]

/- ## the pointer graph itself (first clause of the property), judged here and not by the harness

  The harness prints, without judging it, the graph reachable from `Root()` through `Neigh()`:
  node 0 is the root; `slots i` lists, for every position of node `i`, the neighbour, an identity
  for the branch object, and what `Left()` / `Right()` of that branch point to. -/

structure Slot where
  nb : Int      -- index of neigh[i]   (-1 nil)
  e : Int       -- identity of br[i]   (-1 nil)
  l : Int       -- br[i].Left()        (-1 nil, -2 a node not reachable through Neigh())
  r : Int       -- br[i].Right()
  deriving Repr, BEq

/-- `none` = the node's neigh and br slices have different lengths -/
abbrev Graph := List (Option (List Slot))

/-- Every way in which the graph fails to be a tree with symmetric adjacency whose branches all
    point away from node 0 (empty = well formed).  All nodes are reachable from the root by
    construction (breadth-first listing), so "connected" holds of what is listed; acyclicity is
    `#branches = #nodes − 1` on a connected graph; orientation is "every node but the root is the
    right end of exactly one of its branches, the root of none". -/
def graphProblems (g : Graph) : List String :=
  let n := g.length
  let nodes : List (Nat × List Slot) := (List.range n).zip (g.map fun o => o.getD [])
  let slots : List (Nat × Slot) := nodes.flatMap fun p => p.2.map fun s => (p.1, s)
  let edgeIds := (slots.map (·.2.e)).eraseDups
  (if n == 0 then ["no root"] else []) ++
  (if g.any (·.isNone) then ["a node has neigh and br slices of different lengths"] else []) ++
  (if slots.any (fun p => p.2.nb < 0 || p.2.e < 0) then ["nil neighbour or branch"] else []) ++
  (if slots.all (fun p => (p.2.l == (p.1 : Int) && p.2.r == p.2.nb) || (p.2.l == p.2.nb && p.2.r == (p.1 : Int))) then []
   else ["a branch does not join the node and the neighbour of its slot"]) ++
  (if slots.all (fun p => slots.any fun q => (q.1 : Int) == p.2.nb && q.2.nb == (p.1 : Int) && q.2.e == p.2.e) then []
   else ["adjacency is not symmetric (no back-pointer with the same branch)"]) ++
  (if edgeIds.all (fun e => (slots.filter (·.2.e == e)).length == 2) then [] else ["a branch object does not sit in exactly two slots"]) ++
  (if edgeIds.length + 1 == n then [] else ["not acyclic: branches != nodes - 1 in the connected graph"]) ++
  (if nodes.all (fun p => (p.2.filter fun s => s.r == (p.1 : Int)).length == (if p.1 == 0 then 0 else 1)) then []
   else ["a branch does not point away from the root"])

/- ### the abstraction function α on the raw graph, in Lean (shape and parent positions)

  The harness' walker reads a heap as a tree value; here the same reading is done by Lean on the raw
  graph, so that "the α dump the oracles and ties work on is the tree this pointer graph is" is
  evaluated in Lean on the real heap.  A tree is flattened to tokens `ppos, #kids, kid₁…, kid₂…`. -/

def graphTokens (g : Graph) : Nat → Nat → Option Nat → Option (List Nat)
  | 0, _, _ => none
  | fuel + 1, i, par =>
    match g[i]? with
    | some (some slots) =>
      let isPar (s : Slot) : Bool := match par with | none => false | some p => s.nb == (p : Int)
      let pp := match par with | none => 0 | some _ => slots.findIdx isPar
      let kidSlots := slots.filter fun s => !isPar s
      (kidSlots.mapM fun s => graphTokens g fuel s.nb.toNat (some i)).map fun l => pp :: kidSlots.length :: l.flatten
    | _ => none

mutual
def treeTokens : T → List Nat
  | .node _ pp k => pp :: k.length :: treeTokensL k
def treeTokensL : Kids → List Nat
  | [] => []
  | (_, t) :: r => treeTokens t ++ treeTokensL r
end

/-- the raw graph, read from node 0, is the tree `t` (shape, child order, parent positions) -/
def graphIsTree (g : Graph) (t : T) : Bool := graphTokens g (g.length + 1) 0 none == some (treeTokens t)

/- ## nothing gets lost: what an operation may do to the multiset of tip names

  "Connected" is about the heap: every node that belongs to the tree must still be reachable
  from `Root()`.  The walker can only see what is reachable, so a heap that silently lost a
  subtree (a root left pointing to a deleted node …) reads as a smaller, perfectly formed tree.
  The oracle therefore also checks, per operation, the effect on the tip names that follows
  from the operation's documentation alone. -/

inductive TipEffect where
  | same                                   -- re-rootings, unroot, collapse, resolve, rotate, sort, NNI, clone, shuffle
  | sameCount                              -- renamings
  | keep (names : List String) (revert : Bool)   -- RemoveTips
  | subsetWithout (names : List String)    -- RerootOutGroup(removeoutgroup): the outgroup is gone, nothing new appears
  | replace (tip : String) (by_ : List String)   -- GraftTreeOnTip
  | add (names : List String)              -- GraftTipOnEdge, Merge, InsertIdenticalTips
  | subtree (p : Path)                     -- SubTree
  | subsetWith (extra : List String)       -- CollapseClade: a clade is replaced by one new tip
  | unknown
  deriving Repr

def sortNames3 (l : List String) : List String := l.mergeSort (fun a b => decide (a ≤ b))

def sameNames (a b : List String) : Bool := sortNames3 a == sortNames3 b

/-- tip names, a lone node counting as a tip (what is left when all other tips are pruned) -/
def tipNamesD (t : T) : List String := if t.kids.isEmpty then [t.name] else t.tipNames

def tipEffectOK (eff : TipEffect) (before after : T) : Bool :=
  let tb := tipNamesD before
  let ta := tipNamesD after
  -- a root with at most one neighbour is a tip by degree only: when the operation changes its
  -- degree (or moves the root) that ONE name enters or leaves the list without any node being lost
  let rootWasTip := before.kids.length ≤ 1
  let rootIsTip := after.kids.length ≤ 1
  let eqTol (a b : List String) : Bool :=
    sameNames a b || (rootWasTip && sameNames a (b.erase before.name)) || (rootIsTip && sameNames (a.erase after.name) b) ||
      (rootWasTip && rootIsTip && sameNames (a.erase after.name) (b.erase before.name))
  let oldOr (x : String) : Bool := tb.contains x || (rootIsTip && x == after.name)
  match eff with
  | .same => eqTol ta tb
  | .sameCount => ta.length == tb.length
  | .keep names rev => eqTol ta (tb.filter fun x => names.contains x == rev)
  | .subsetWithout names => ta.all (fun x => oldOr x && !names.contains x)
  | .replace tip by_ => eqTol ta (tb.erase tip ++ by_)
  | .add names => eqTol ta (tb ++ names)
  | .subtree p => match subtreeAt before p with
    | some s => sameNames ta (tipNamesD s)
    | none => false
  | .subsetWith extra => ta.all (fun x => oldOr x || extra.contains x)
  | .unknown => true

end Gotree.C03
