/-
  C09 — helper lemmas for the property theorems of `Gotree/Proofs/C09.lean`.

  Part 1: `eqc` (EqualOrComplement) is an equivalence relation on bitsets.
  Part 2: the edge index built by `addCount` is the naive frequency table.
  Part 3: per-tree counts, the counting loop of `countAll`.
  Part 4: thresholds (`floorCut`, `keep`).
-/
import Gotree.Model.C09
import Gotree.Spec.C09
import Gotree.Lemmas.C09Insert

namespace Gotree.C09
open Gotree

/-! ## Part 1: bitsets -/

/-- `k` is a bitset over `all`: complementing twice gives it back. -/
def IsKey (all k : List String) : Prop := compl all (compl all k) = k

theorem contains_filter_of_mem {all : List String} (q : String → Bool) {x : String} (hx : x ∈ all) :
    (all.filter q).contains x = q x := by
  rw [Bool.eq_iff_iff]
  simp [List.mem_filter, hx]

theorem isKey_filter (all : List String) (q : String → Bool) : IsKey all (all.filter q) := by
  unfold IsKey compl
  apply List.filter_congr
  intro x hx
  rw [contains_filter_of_mem _ hx, contains_filter_of_mem _ hx]
  simp

theorem isKey_bits (all below : List String) : IsKey all (bits all below) := isKey_filter all _

theorem isKey_compl (all k : List String) : IsKey all (compl all k) := isKey_filter all _

/-- `eqc` as a proposition -/
def Eqc (all a b : List String) : Prop := a = b ∨ a = compl all b

theorem eqc_iff (all a b : List String) : eqc all a b = true ↔ Eqc all a b := by
  simp [eqc, Eqc]

theorem eqc_false_iff (all a b : List String) : eqc all a b = false ↔ ¬ Eqc all a b := by
  rw [← eqc_iff]; simp

theorem Eqc.refl (all a : List String) : Eqc all a a := Or.inl rfl

theorem Eqc.symm {all a b : List String} (hb : IsKey all b) (h : Eqc all a b) : Eqc all b a := by
  rcases h with h | h
  · exact Or.inl h.symm
  · right; rw [h]; exact hb.symm

theorem Eqc.trans {all a b c : List String} (hc : IsKey all c) (h1 : Eqc all a b) (h2 : Eqc all b c) :
    Eqc all a c := by
  rcases h1 with rfl | h1
  · exact h2
  · rcases h2 with rfl | h2
    · exact Or.inr h1
    · left; rw [h1, h2]; exact hc

/-! ## Part 2: the edge index is the naive frequency table -/

theorem sumR_append (a b : List Rat) : (a ++ b).sum = a.sum + b.sum := by
  induction a with
  | nil => simp [Rat.zero_add]
  | cons x a ih => simp [List.sum_cons, ih, Rat.add_assoc]

theorem cnt_append (all : List String) (L M : List KL) (k : List String) :
    cnt all (L ++ M) k = cnt all L k + cnt all M k := by
  simp [cnt]

theorem lsum_append (all : List String) (L M : List KL) (k : List String) :
    lsum all (L ++ M) k = lsum all L k + lsum all M k := by
  simp [lsum]

theorem cnt_single (all : List String) (k k' : List String) (l : Rat) :
    cnt all [(k', l)] k = if eqc all k k' then 1 else 0 := by
  simp [cnt, List.countP_cons]

theorem lsum_single (all : List String) (k k' : List String) (l : Rat) :
    lsum all [(k', l)] k = if eqc all k k' then l else 0 := by
  unfold lsum
  by_cases h : eqc all k k' = true <;> simp [h, Rat.add_zero]

theorem addCount_none (all : List String) (idx : List Entry) (k : List String) (l : Rat)
    (h : ∀ x ∈ idx, eqc all x.key k = false) : addCount all idx k l = idx ++ [⟨k, 1, l⟩] := by
  induction idx with
  | nil => rfl
  | cons x r ih =>
    have hx := h x (by simp)
    simp only [addCount, hx, Bool.false_eq_true, if_false, List.cons_append]
    rw [ih (fun y hy => h y (by simp [hy]))]

theorem addCount_some (all : List String) (pre : List Entry) (x : Entry) (post : List Entry)
    (k : List String) (l : Rat) (hpre : ∀ y ∈ pre, eqc all y.key k = false) (hx : eqc all x.key k = true) :
    addCount all (pre ++ x :: post) k l =
      pre ++ { x with count := x.count + 1, len := x.len + l } :: post := by
  induction pre with
  | nil => simp [addCount, hx]
  | cons y r ih =>
    have hy := hpre y (by simp)
    simp only [List.cons_append, addCount, hy, Bool.false_eq_true, if_false]
    rw [ih (fun z hz => hpre z (by simp [hz]))]

theorem split_first {α : Type} (p : α → Bool) (l : List α) :
    (∀ x ∈ l, p x = false) ∨
    ∃ pre x post, l = pre ++ x :: post ∧ (∀ y ∈ pre, p y = false) ∧ p x = true := by
  induction l with
  | nil => left; simp
  | cons a r ih =>
    by_cases ha : p a = true
    · right; exact ⟨[], a, r, rfl, by simp, ha⟩
    · have ha' : p a = false := by simpa using ha
      rcases ih with h | ⟨pre, x, post, rfl, hpre, hx⟩
      · left; intro x hx
        rcases List.mem_cons.1 hx with rfl | hx
        · exact ha'
        · exact h x hx
      · right
        refine ⟨a :: pre, x, post, rfl, ?_, hx⟩
        intro y hy
        rcases List.mem_cons.1 hy with rfl | hy
        · exact ha'
        · exact hpre y hy

/-- The invariant of the counting loop: the index `idx` is the frequency table of
    the branches `L` seen so far. -/
structure Inv (all : List String) (idx : List Entry) (L : List KL) : Prop where
  lkeys : ∀ kl ∈ L, IsKey all kl.1
  keys : ∀ x ∈ idx, IsKey all x.key
  vals : ∀ x ∈ idx, x.count = cnt all L x.key ∧ x.len = lsum all L x.key
  distinct : (idx.map (·.key)).Pairwise (fun a b => eqc all a b = false)
  cover : ∀ kl ∈ L, ∃ x ∈ idx, eqc all x.key kl.1 = true
  pos : ∀ x ∈ idx, 0 < x.count
  src : ∀ x ∈ idx, ∃ kl ∈ L, x.key = kl.1

theorem Inv.nil (all : List String) : Inv all [] [] :=
  ⟨by simp, by simp, by simp, by simp, by simp, by simp, by simp⟩

theorem eqc_symm_b {all a b : List String} (ha : IsKey all a) (hb : IsKey all b) :
    eqc all a b = eqc all b a := by
  rw [Bool.eq_iff_iff, eqc_iff, eqc_iff]
  exact ⟨Eqc.symm hb, Eqc.symm ha⟩

theorem Inv.add {all : List String} {idx : List Entry} {L : List KL} (h : Inv all idx L)
    (k : List String) (l : Rat) (hk : IsKey all k) :
    Inv all (addCount all idx k l) (L ++ [(k, l)]) := by
  have hlk : ∀ kl ∈ L ++ [(k, l)], IsKey all kl.1 := by
    intro kl hkl
    rcases List.mem_append.1 hkl with hkl | hkl
    · exact h.lkeys kl hkl
    · simp only [List.mem_singleton] at hkl; subst hkl; exact hk
  rcases split_first (fun x : Entry => eqc all x.key k) idx with hnone | ⟨pre, x, post, hidx, hpre, hx⟩
  · -- a new bipartition
    rw [addCount_none all idx k l hnone]
    have hcnt0 : cnt all L k = 0 := by
      unfold cnt
      rw [List.countP_eq_zero]
      intro kl hkl hek
      obtain ⟨x, hx, hxe⟩ := h.cover kl hkl
      have h1 : Eqc all x.key kl.1 := (eqc_iff _ _ _).1 hxe
      have h2 : Eqc all kl.1 k := Eqc.symm (h.lkeys kl hkl) ((eqc_iff _ _ _).1 hek)
      have h3 : Eqc all x.key k := Eqc.trans hk h1 h2
      have := hnone x hx
      rw [(eqc_iff _ _ _).2 h3] at this
      exact absurd this (by simp)
    have hls0 : lsum all L k = 0 := by
      unfold lsum
      have : L.filter (fun kl => eqc all k kl.1) = [] := by
        rw [List.filter_eq_nil_iff]
        intro kl hkl
        have := hcnt0
        unfold cnt at this
        rw [List.countP_eq_zero] at this
        exact this kl hkl
      rw [this]; rfl
    refine ⟨hlk, ?_, ?_, ?_, ?_, ?_, ?_⟩
    rotate_left 4
    · intro y hy
      rcases List.mem_append.1 hy with hy | hy
      · exact h.pos y hy
      · simp only [List.mem_singleton] at hy; subst hy; exact Nat.one_pos
    · intro y hy
      rcases List.mem_append.1 hy with hy | hy
      · obtain ⟨kl, hkl, e⟩ := h.src y hy
        exact ⟨kl, List.mem_append_left _ hkl, e⟩
      · simp only [List.mem_singleton] at hy; subst hy
        exact ⟨(k, l), by simp, rfl⟩
    · intro y hy
      rcases List.mem_append.1 hy with hy | hy
      · exact h.keys y hy
      · simp only [List.mem_singleton] at hy; subst hy; exact hk
    · intro y hy
      rcases List.mem_append.1 hy with hy | hy
      · have hyk : eqc all y.key k = false := hnone y hy
        rw [cnt_append, lsum_append, cnt_single, lsum_single, hyk]
        simp only [Bool.false_eq_true, if_false, Nat.add_zero, Rat.add_zero]
        exact h.vals y hy
      · simp only [List.mem_singleton] at hy; subst hy
        have hkk : eqc all k k = true := (eqc_iff _ _ _).2 (Eqc.refl _ _)
        rw [cnt_append, lsum_append, cnt_single, lsum_single, hcnt0, hls0]
        simp [hkk, Rat.zero_add]
    · rw [List.map_append, List.pairwise_append]
      refine ⟨h.distinct, by simp, ?_⟩
      intro a ha b hb
      simp only [List.map_cons, List.map_nil, List.mem_singleton] at hb
      subst hb
      obtain ⟨y, hy, rfl⟩ := List.mem_map.1 ha
      exact hnone y hy
    · intro kl hkl
      rcases List.mem_append.1 hkl with hkl | hkl
      · obtain ⟨x, hx, hxe⟩ := h.cover kl hkl
        exact ⟨x, List.mem_append_left _ hx, hxe⟩
      · simp only [List.mem_singleton] at hkl; subst hkl
        exact ⟨⟨k, 1, l⟩, by simp, (eqc_iff _ _ _).2 (Eqc.refl _ _)⟩
  · -- a bipartition already in the index
    subst hidx
    rw [addCount_some all pre x post k l hpre hx]
    have hxkey : IsKey all x.key := h.keys x (by simp)
    have hdist := h.distinct
    rw [List.map_append, List.map_cons, List.pairwise_append, List.pairwise_cons] at hdist
    obtain ⟨_, ⟨hxpost, _⟩, hprex⟩ := hdist
    -- no other entry is the bipartition k
    have hother : ∀ y ∈ pre ++ post, eqc all y.key k = false := by
      intro y hy
      rcases List.mem_append.1 hy with hy | hy
      · exact hpre y hy
      · have h1 : eqc all x.key y.key = false := hxpost y.key (List.mem_map.2 ⟨y, hy, rfl⟩)
        rw [eqc_false_iff] at h1 ⊢
        intro hyk
        have hykey : IsKey all y.key := h.keys y (by simp [hy])
        exact h1 (Eqc.trans hykey ((eqc_iff _ _ _).1 hx) (Eqc.symm hk hyk))
    refine ⟨hlk, ?_, ?_, ?_, ?_, ?_, ?_⟩
    rotate_left 4
    · intro y hy
      rcases List.mem_append.1 hy with hy | hy
      · exact h.pos y (by simp [hy])
      · rcases List.mem_cons.1 hy with rfl | hy
        · exact Nat.succ_pos _
        · exact h.pos y (by simp [hy])
    · intro y hy
      have : ∃ z ∈ pre ++ x :: post, z.key = y.key := by
        rcases List.mem_append.1 hy with hy | hy
        · exact ⟨y, by simp [hy], rfl⟩
        · rcases List.mem_cons.1 hy with rfl | hy
          · exact ⟨x, by simp, rfl⟩
          · exact ⟨y, by simp [hy], rfl⟩
      obtain ⟨z, hz, ez⟩ := this
      obtain ⟨kl, hkl, e⟩ := h.src z hz
      exact ⟨kl, List.mem_append_left _ hkl, by rw [← ez, e]⟩
    · intro y hy
      rcases List.mem_append.1 hy with hy | hy
      · exact h.keys y (by simp [hy])
      · rcases List.mem_cons.1 hy with rfl | hy
        · exact hxkey
        · exact h.keys y (by simp [hy])
    · intro y hy
      have hold : ∀ z ∈ pre ++ post, z.count = cnt all (L ++ [(k, l)]) z.key ∧ z.len = lsum all (L ++ [(k, l)]) z.key := by
        intro z hz
        have hzk := hother z hz
        have hzm : z ∈ pre ++ x :: post := by
          rcases List.mem_append.1 hz with hz | hz <;> simp [hz]
        rw [cnt_append, lsum_append, cnt_single, lsum_single, hzk]
        simp only [Bool.false_eq_true, if_false, Nat.add_zero, Rat.add_zero]
        exact h.vals z hzm
      rcases List.mem_append.1 hy with hy | hy
      · exact hold y (List.mem_append_left _ hy)
      · rcases List.mem_cons.1 hy with rfl | hy
        · have hv := h.vals x (by simp)
          rw [cnt_append, lsum_append, cnt_single, lsum_single]
          simp only [hx, if_true]
          exact ⟨by rw [hv.1], by rw [hv.2]⟩
        · exact hold y (List.mem_append_right _ hy)
    · have : (pre ++ { x with count := x.count + 1, len := x.len + l } :: post).map (·.key) =
          (pre ++ x :: post).map (·.key) := by simp
      rw [this]; exact h.distinct
    · intro kl hkl
      rcases List.mem_append.1 hkl with hkl | hkl
      · obtain ⟨y, hy, hye⟩ := h.cover kl hkl
        rcases List.mem_append.1 hy with hy | hy
        · exact ⟨y, by simp [hy], hye⟩
        · rcases List.mem_cons.1 hy with rfl | hy
          · exact ⟨{ y with count := y.count + 1, len := y.len + l }, by simp, hye⟩
          · exact ⟨y, by simp [hy], hye⟩
      · simp only [List.mem_singleton] at hkl; subst hkl
        exact ⟨{ x with count := x.count + 1, len := x.len + l }, by simp, hx⟩

theorem Inv.addKeys {all : List String} (M : List KL) (hM : ∀ kl ∈ M, IsKey all kl.1) :
    ∀ {idx : List Entry} {L : List KL}, Inv all idx L → Inv all (addKeys all idx M) (L ++ M) := by
  induction M with
  | nil => intro idx L h; simpa [C09.addKeys] using h
  | cons kl M ih =>
    intro idx L h
    have h1 := h.add kl.1 kl.2 (hM kl (by simp))
    have h2 := ih (fun x hx => hM x (by simp [hx])) h1
    have : L ++ [(kl.1, kl.2)] ++ M = L ++ kl :: M := by simp
    rw [this] at h2
    simpa [C09.addKeys, List.foldl_cons] using h2

/-! ## Part 3: trees -/

theorem addKeys_append (all : List String) (idx : List Entry) (L M : List KL) :
    addKeys all idx (L ++ M) = addKeys all (addKeys all idx L) M := by
  simp [addKeys, List.foldl_append]

theorem foldl_addTree (all : List String) (us : List T) :
    ∀ idx, us.foldl (addTree all) idx = addKeys all idx (us.flatMap (edgeKeys all)) := by
  induction us with
  | nil => intro idx; simp [addKeys]
  | cons u us ih =>
    intro idx
    rw [List.foldl_cons, ih, List.flatMap_cons, addKeys_append]; rfl

theorem edgeKeys_isKey (all : List String) (u : T) : ∀ kl ∈ edgeKeys all u, IsKey all kl.1 := by
  intro kl hkl
  simp only [edgeKeys, List.mem_map] at hkl
  obtain ⟨s, _, rfl⟩ := hkl
  exact isKey_bits all s.below

theorem flat_isKey (all : List String) (us : List T) :
    ∀ kl ∈ us.flatMap (edgeKeys all), IsKey all kl.1 := by
  intro kl hkl
  obtain ⟨u, _, hu⟩ := List.mem_flatMap.1 hkl
  exact edgeKeys_isKey all u kl hu

theorem buildIdx_inv (all : List String) (us : List T) :
    Inv all (buildIdx all us) (us.flatMap (edgeKeys all)) := by
  unfold buildIdx
  rw [foldl_addTree]
  have := Inv.addKeys (all := all) (us.flatMap (edgeKeys all)) (flat_isKey all us) (Inv.nil all)
  simpa using this

theorem cnt_flatMap (all : List String) (us : List T) (k : List String) :
    cnt all (us.flatMap (edgeKeys all)) k = (us.map fun u => cnt all (edgeKeys all u) k).sum := by
  induction us with
  | nil => rfl
  | cons u us ih => rw [List.flatMap_cons, cnt_append, ih]; simp

theorem lsum_flatMap (all : List String) (us : List T) (k : List String) :
    lsum all (us.flatMap (edgeKeys all)) k = lenM all us k := by
  unfold lenM
  induction us with
  | nil => rfl
  | cons u us ih => rw [List.flatMap_cons, lsum_append, ih]; simp

theorem pairwiseNe_cnt (all : List String) (k : List String) (_hk : IsKey all k) :
    ∀ (L : List KL), (∀ kl ∈ L, IsKey all kl.1) → pairwiseNe all (L.map (·.1)) = true → cnt all L k ≤ 1 := by
  intro L
  induction L with
  | nil => intro _ _; simp [cnt]
  | cons a L ih =>
    intro hL hp
    simp only [List.map_cons, pairwiseNe, Bool.and_eq_true, List.all_eq_true] at hp
    have ihL := ih (fun x hx => hL x (by simp [hx])) hp.2
    unfold cnt at ihL ⊢
    rw [List.countP_cons]
    by_cases ha : eqc all k a.1 = true
    · -- then no other element matches
      have : List.countP (fun kl => eqc all k kl.1) L = 0 := by
        rw [List.countP_eq_zero]
        intro b hb hkb
        have h1 := hp.1 b.1 (List.mem_map.2 ⟨b, hb, rfl⟩)
        have hbk : IsKey all b.1 := hL b (by simp [hb])
        have hak : IsKey all a.1 := hL a (by simp)
        have : Eqc all a.1 b.1 := Eqc.trans hbk (Eqc.symm hak ((eqc_iff _ _ _).1 ha)) ((eqc_iff _ _ _).1 hkb)
        rw [(eqc_iff _ _ _).2 this] at h1
        simp at h1
      rw [this]; simp [ha]
    · simp only [ha, Bool.false_eq_true, if_false, Nat.add_zero]; exact ihL

theorem cnt_tree (all : List String) (u : T) (k : List String) (hk : IsKey all k)
    (hd : distinctKeys all u = true) :
    cnt all (edgeKeys all u) k = if hasSplit all u k then 1 else 0 := by
  have hle := pairwiseNe_cnt all k hk (edgeKeys all u) (edgeKeys_isKey all u) hd
  unfold hasSplit
  by_cases h : (edgeKeys all u).any (fun kl => eqc all k kl.1) = true
  · rw [if_pos h]
    have : 0 < cnt all (edgeKeys all u) k := by
      unfold cnt; rw [List.countP_pos_iff]
      simpa [List.any_eq_true] using h
    omega
  · rw [if_neg h]
    unfold cnt; rw [List.countP_eq_zero]
    intro kl hkl hk'
    exact h (List.any_eq_true.2 ⟨kl, hkl, hk'⟩)

theorem sum_ite_countP {α : Type} (p : α → Bool) (l : List α) :
    (l.map fun a => if p a then 1 else 0).sum = l.countP p := by
  induction l with
  | nil => rfl
  | cons a l ih => simp only [List.map_cons, List.sum_cons, List.countP_cons, ih]; omega

/-- With no repeated bipartition inside a tree, the number of branches with
    bipartition `k` over the collection is the number of trees containing it. -/
theorem cnt_trees (all : List String) (us : List T) (k : List String) (hk : IsKey all k)
    (hd : ∀ u ∈ us, distinctKeys all u = true) :
    cnt all (us.flatMap (edgeKeys all)) k = countM all us k := by
  rw [cnt_flatMap, countM, ← sum_ite_countP]
  congr 1
  apply List.map_congr_left
  intro u hu
  exact cnt_tree all u k hk (hd u hu)

/-- every entry of the index is the frequency-table row of its bipartition -/
theorem buildIdx_entry (all : List String) (us : List T) (hd : ∀ u ∈ us, distinctKeys all u = true)
    (x : Entry) (hx : x ∈ buildIdx all us) :
    x.count = countM all us x.key ∧ x.len = lenM all us x.key := by
  have inv := buildIdx_inv all us
  have hv := inv.vals x hx
  rw [cnt_trees all us x.key (inv.keys x hx) hd, lsum_flatMap] at hv
  exact hv

theorem countM_le (all : List String) (us : List T) (k : List String) : countM all us k ≤ us.length :=
  List.countP_le_length

/-- every bipartition of some tree has a row -/
theorem buildIdx_cover (all : List String) (us : List T) (u : T) (hu : u ∈ us) (kl : KL)
    (hkl : kl ∈ edgeKeys all u) : ∃ x ∈ buildIdx all us, eqc all x.key kl.1 = true :=
  (buildIdx_inv all us).cover kl (List.mem_flatMap.2 ⟨u, hu, hkl⟩)

/-- no bipartition has two rows -/
theorem buildIdx_distinct (all : List String) (us : List T) :
    ((buildIdx all us).map (·.key)).Pairwise (fun a b => eqc all a b = false) :=
  (buildIdx_inv all us).distinct

/-! ### the counting loop -/

theorem countRest_ok (unr rs : Bool) (first : T) (alltips univ : List String) :
    ∀ (r : List T) (idx : List Entry) (n : Nat) (cn : Counted),
      countRest unr rs first alltips univ r idx n = .ok cn →
      cn.first = first ∧ cn.alltips = alltips ∧ cn.n = n + r.length ∧
      cn.idx = (r.map (prep unr rs)).foldl (addTree univ) idx := by
  intro r
  induction r with
  | nil =>
    intro idx n cn h
    simp only [countRest, Except.ok.injEq] at h
    subst h; simp
  | cons t r ih =>
    intro idx n cn h
    rw [countRest] at h
    by_cases h1 : dupTips (prep unr rs t) = true
    · simp [h1] at h
    · by_cases h2 : ((allTipNames (prep unr rs t)).length != alltips.length) = true
      · simp [h1, h2] at h
      · by_cases h3 : (!(allTipNames (prep unr rs t)).all fun a => (starOf first).tipNames.contains a) = true
        · simp only [h1, h2, h3, Bool.false_eq_true, if_false, if_true] at h
          exact absurd h (by simp)
        · simp only [h1, h2, h3, Bool.false_eq_true, if_false] at h
          obtain ⟨e1, e2, e3, e4⟩ := ih _ _ _ h
          refine ⟨e1, e2, by rw [e3]; simp; omega, ?_⟩
          rw [e4]; simp

theorem countAll_ok (unr rs : Bool) (t : T) (r : List T) (cn : Counted)
    (h : countAll unr rs (t :: r) = .ok (some cn)) :
    cn.first = prep unr rs t ∧ cn.alltips = allTipNames (prep unr rs t) ∧ cn.n = (t :: r).length ∧
    cn.idx = buildIdx (sortN (prep unr rs t).tipNames) ((t :: r).map (prep unr rs)) ∧
    dupTips (prep unr rs t) = false ∧ 2 ≤ ((prep unr rs t).splits.filter (·.tip)).length := by
  rw [countAll] at h
  by_cases h1 : dupTips (prep unr rs t) = true
  · simp [h1] at h
  · by_cases h2 : ((prep unr rs t).splits.filter (·.tip)).length < 2
    · simp [h1, h2] at h
    · simp only [h1, h2, Bool.false_eq_true, if_false] at h
      split at h
      · rename_i c hc
        simp only [Except.ok.injEq, Option.some.injEq] at h
        subst h
        obtain ⟨e1, e2, e3, e4⟩ := countRest_ok _ _ _ _ _ _ _ _ _ hc
        refine ⟨e1, e2, by rw [e3]; simp; omega, ?_, by simpa using h1, by omega⟩
        rw [e4]; simp [buildIdx, List.foldl_cons]
      · exact absurd h (by simp)

/-! ## Part 4: thresholds -/

theorem floorCut_lt_iff (c : Rat) (n k : Nat) (hc : 0 ≤ c) :
    floorCut c n < k ↔ c * (n : Rat) < (k : Rat) := by
  unfold floorCut
  have h0 : (0 : Rat) ≤ c * (n : Rat) := Rat.mul_nonneg hc (by exact_mod_cast Nat.zero_le n)
  have hf : 0 ≤ (c * (n : Rat)).floor := Rat.le_floor_iff.2 (by simpa using h0)
  have : ((c * (n : Rat)).floor.toNat : Int) = (c * (n : Rat)).floor := Int.toNat_of_nonneg hf
  have key := Rat.floor_lt_iff (a := c * (n : Rat)) (x := (k : Int))
  have cast : ((k : Int) : Rat) = (k : Rat) := by first | rfl | norm_cast
  rw [cast] at key
  rw [← key]
  omega

/-- `⌊c·n⌋ < k ↔ c < k/n` -/
theorem floorCut_lt_iff_freq (c : Rat) (n k : Nat) (hc : 0 ≤ c) (hn : 0 < n) :
    floorCut c n < k ↔ c < (k : Rat) / (n : Rat) := by
  rw [floorCut_lt_iff c n k hc, Rat.lt_div_iff (by exact_mod_cast hn)]

theorem keep_iff (c : Rat) (n : Nat) (hc : 0 ≤ c) (hn : 0 < n) (x : Entry) :
    keep (floorCut c n) n x = true ↔
      (c < (x.count : Rat) / (n : Rat) ∧ x.count ≤ n) ∨ x.count = n := by
  unfold keep
  simp only [Bool.or_eq_true, Bool.and_eq_true, decide_eq_true_eq, beq_iff_eq, gt_iff_lt]
  rw [floorCut_lt_iff_freq c n x.count hc hn]


/-! ## Part 5: order independence -/

theorem sumR_perm {a b : List Rat} (h : a.Perm b) : a.sum = b.sum := by
  induction h with
  | nil => rfl
  | cons x _ ih => simp [List.sum_cons, ih]
  | swap x y l => simp only [List.sum_cons]; rw [← Rat.add_assoc, ← Rat.add_assoc, Rat.add_comm y x]
  | trans _ _ ih1 ih2 => exact ih1.trans ih2

theorem cnt_perm (all : List String) {L M : List KL} (h : L.Perm M) (k : List String) :
    cnt all L k = cnt all M k := h.countP_eq _

theorem lsum_perm (all : List String) {L M : List KL} (h : L.Perm M) (k : List String) :
    lsum all L k = lsum all M k := sumR_perm ((h.filter _).map _)

theorem eqc_congr_left {all a b c : List String} (_ha : IsKey all a) (hb : IsKey all b) (hc : IsKey all c)
    (h : Eqc all a b) : eqc all a c = eqc all b c := by
  rw [Bool.eq_iff_iff, eqc_iff, eqc_iff]
  exact ⟨fun h1 => Eqc.trans hc (Eqc.symm hb h) h1, fun h1 => Eqc.trans hc h h1⟩

theorem cnt_congr (all : List String) (L : List KL) (hL : ∀ kl ∈ L, IsKey all kl.1) {k k' : List String}
    (hk : IsKey all k) (hk' : IsKey all k') (h : Eqc all k k') : cnt all L k = cnt all L k' := by
  unfold cnt
  apply List.countP_congr
  intro kl hkl
  rw [eqc_congr_left hk hk' (hL kl hkl) h]

theorem lsum_congr (all : List String) (L : List KL) (hL : ∀ kl ∈ L, IsKey all kl.1) {k k' : List String}
    (hk : IsKey all k) (hk' : IsKey all k') (h : Eqc all k k') : lsum all L k = lsum all L k' := by
  unfold lsum
  congr 2
  apply List.filter_congr
  intro kl hkl
  rw [eqc_congr_left hk hk' (hL kl hkl) h]

theorem flatMap_perm (all : List String) {us us' : List T} (h : us.Perm us') :
    (us.flatMap (edgeKeys all)).Perm (us'.flatMap (edgeKeys all)) := h.flatMap_right _

/-- two indexes over permuted branch lists have the same rows up to the presentation of the key -/
theorem inv_perm {all : List String} {idx idx' : List Entry} {L L' : List KL}
    (h : Inv all idx L) (h' : Inv all idx' L') (hp : L.Perm L') (x : Entry) (hx : x ∈ idx) :
    ∃ y ∈ idx', eqc all y.key x.key = true ∧ y.count = x.count ∧ y.len = x.len := by
  have hxk := h.keys x hx
  have hpos := h.pos x hx
  rw [(h.vals x hx).1] at hpos
  unfold cnt at hpos
  rw [List.countP_pos_iff] at hpos
  obtain ⟨kl, hkl, hxe⟩ := hpos
  have hkl' : kl ∈ L' := hp.mem_iff.1 hkl
  obtain ⟨y, hy, hye⟩ := h'.cover kl hkl'
  have hklk := h.lkeys kl hkl
  have hyk := h'.keys y hy
  have e1 : Eqc all y.key x.key :=
    Eqc.trans hxk ((eqc_iff _ _ _).1 hye) (Eqc.symm hklk ((eqc_iff _ _ _).1 hxe))
  refine ⟨y, hy, (eqc_iff _ _ _).2 e1, ?_, ?_⟩
  · rw [(h'.vals y hy).1, (h.vals x hx).1, ← cnt_perm all hp, cnt_congr all L h.lkeys hyk hxk e1]
  · rw [(h'.vals y hy).2, (h.vals x hx).2, ← lsum_perm all hp, lsum_congr all L h.lkeys hyk hxk e1]

/-! ## Part 6: the taxon check -/

theorem hasDup_false_iff (l : List String) : hasDup l = false ↔ l.Nodup := by
  induction l with
  | nil => simp [hasDup]
  | cons a r ih =>
    simp only [hasDup, Bool.or_eq_false_iff, ih, List.nodup_cons]
    constructor
    · rintro ⟨h1, h2⟩; exact ⟨by simpa using h1, h2⟩
    · rintro ⟨h1, h2⟩; exact ⟨by simpa using h1, h2⟩

/- the tip entries of the split list are the leaves -/
mutual
theorem tipSplits_below : ∀ t : T,
    (t.splitsBelow.filter (·.tip)).map (fun s => s.below.headD "") = (if t.isLeaf then [] else t.leaves)
  | .node d p [] => by simp [T.splitsBelow, splitsL, T.isLeaf]
  | .node d p (k :: ks) => by
    have := tipSplitsL (k :: ks)
    simp only [T.splitsBelow, T.isLeaf, T.kids_node, List.isEmpty_cons, Bool.false_eq_true, if_false, T.leaves]
    exact this
theorem tipSplitsL : ∀ k : Kids,
    ((splitsL k).filter (·.tip)).map (fun s => s.below.headD "") = leavesL k
  | [] => by simp [splitsL, leavesL]
  | (e, t) :: r => by
    have h1 := tipSplits_below t
    have h2 := tipSplitsL r
    simp only [splitsL, leavesL, List.filter_cons, List.filter_append]
    cases t with
    | node d p k =>
      cases k with
      | nil =>
        simp only [T.isLeaf, T.kids_node, List.isEmpty_nil, if_true, List.map_cons, T.leaves,
          T.splitsBelow, splitsL, List.filter_nil, List.nil_append, List.headD_cons, List.cons_append]
        rw [h2]
      | cons a b =>
        simp only [T.isLeaf, T.kids_node, List.isEmpty_cons, Bool.false_eq_true, if_false] at h1 ⊢
        rw [List.map_append, h1, h2]
end

theorem allTipNames_eq (t : T) (h : t.kids.length ≠ 1) : allTipNames t = t.tipNames := by
  unfold allTipNames T.tipNames
  have : (t.kids.length == 1) = false := by simpa using h
  simp [this]

theorem starOf_tipNames (t : T) (h : 2 ≤ (t.splits.filter (·.tip)).length) :
    (starOf t).tipNames = leavesL t.kids := by
  have hk : (starOf t).kids = (t.splits.filter (·.tip)).map fun s =>
      ((⟨s.e.len, NIL, NIL, [], -1⟩ : EdgeD), T.leaf (s.below.headD "")) := rfl
  have hlen : (starOf t).kids.length ≠ 1 := by rw [hk, List.length_map]; omega
  rw [← allTipNames_eq _ hlen]
  unfold allTipNames
  have : ((starOf t).kids.length == 1) = false := by simpa using hlen
  rw [this]
  simp only [Bool.false_eq_true, if_false, List.nil_append]
  rw [hk, ← tipSplitsL t.kids]
  unfold T.splits
  generalize (splitsL t.kids).filter (·.tip) = l
  induction l with
  | nil => rfl
  | cons s l ih =>
    simp only [List.map_cons, leavesL, T.leaf, T.leaves, List.singleton_append]
    congr 1

/-- If the loop meets a tree that fails the taxon check (and no tree before it is
    refused for duplicated tips), the outcome is the taxon error. -/
theorem countRest_taxa (unr rs : Bool) (first : T) (alltips univ : List String) :
    ∀ (r : List T) (idx : List Entry) (n : Nat),
      (∀ u ∈ r, dupTips (prep unr rs u) = false) →
      (∃ u ∈ r, ((allTipNames (prep unr rs u)).length != alltips.length) = true ∨
        (!(allTipNames (prep unr rs u)).all fun a => (starOf first).tipNames.contains a) = true) →
      countRest unr rs first alltips univ r idx n = .error "taxa" := by
  intro r
  induction r with
  | nil => intro _ _ _ h; obtain ⟨u, hu, _⟩ := h; cases hu
  | cons t r ih =>
    intro idx n hdup hbad
    rw [countRest]
    have h1 : dupTips (prep unr rs t) = false := hdup t (by simp)
    by_cases h2 : ((allTipNames (prep unr rs t)).length != alltips.length) = true
    · simp [h1, h2]
    · by_cases h3 : (!(allTipNames (prep unr rs t)).all fun a => (starOf first).tipNames.contains a) = true
      · simp only [h1, h2, h3, Bool.false_eq_true, if_false, if_true]
      · simp only [h1, h2, h3, Bool.false_eq_true, if_false]
        apply ih _ _ (fun u hu => hdup u (by simp [hu]))
        obtain ⟨u, hu, hb⟩ := hbad
        rcases List.mem_cons.1 hu with rfl | hu
        · rcases hb with hb | hb
          · exact absurd hb h2
          · exact absurd hb h3
        · exact ⟨u, hu, hb⟩


/-! ## Part 7: the vocabulary of the property theorems -/

theorem noRepeat_trees (ts : List T) (h : noRepeat ts = true) :
    ∀ u ∈ trees ts, distinctKeys (univOf ts) u = true := by
  intro u hu
  simp only [trees, List.mem_map] at hu
  obtain ⟨t, ht, rfl⟩ := hu
  simp only [noRepeat, List.all_eq_true] at h
  exact h t ht

/- no single-child node: `RemoveSingleNodes` changes nothing -/
mutual
theorem removeSinglesT_id (e : EdgeD) : ∀ t : T, okBelow t = true → removeSinglesT e t = (e, t)
  | .node d p k => by
    intro h
    simp only [okBelow, Bool.and_eq_true, bne_iff_ne, ne_eq] at h
    have hk := removeSinglesL_id k h.2
    unfold removeSinglesT
    rw [hk]
    match k, h.1 with
    | [], _ => rfl
    | [x], h1 => exact absurd rfl h1
    | _ :: _ :: _, _ => rfl
theorem removeSinglesL_id : ∀ k : Kids, okBelowL k = true → removeSinglesL k = k
  | [] => fun _ => rfl
  | (e, t) :: r => by
    intro h
    simp only [okBelowL, Bool.and_eq_true] at h
    unfold removeSinglesL
    rw [removeSinglesT_id e t h.1, removeSinglesL_id r h.2]
end

theorem removeSingles_id (t : T) (h : okBelowL t.kids = true) : removeSingles t = t := by
  cases t with
  | node d p k => simp only [removeSingles]; rw [removeSinglesL_id k h]

theorem prep_true : prep true true = norm := rfl

theorem norm_of_noSingles (t : T) (h : okBelowL t.kids = true) : norm t = unroot t := by
  unfold norm; rw [removeSingles_id t h]

theorem countAll_index (ts : List T) (cn : Counted)
    (h : countAll true true ts = .ok (some cn)) :
    ts ≠ [] ∧ cn.n = ts.length ∧ cn.idx = index ts ∧
    cn.first = norm (ts.head!) ∧ cn.alltips = allTipNames (norm ts.head!) ∧
    cn.first.tipNames.Nodup ∧ 2 ≤ (cn.first.splits.filter (·.tip)).length := by
  cases ts with
  | nil => simp [countAll] at h
  | cons t r =>
    obtain ⟨e1, e2, e3, e4, e5, e6⟩ := countAll_ok true true t r cn h
    rw [prep_true] at e1 e2 e4 e5 e6
    refine ⟨by simp, e3, by rw [e4]; rfl, e1, e2, ?_, by rw [e1]; exact e6⟩
    rw [e1]; exact (hasDup_false_iff _).1 e5

/-! ## Part 8: concrete collections (non-vacuity witnesses, F34 witness) -/

def exTip (a : String) (l : Rat) : EdgeD × T := (⟨l, NIL, NIL, [], -1⟩, T.leaf a)
def exInner (l : Rat) (k : Kids) : EdgeD × T := (⟨l, NIL, NIL, [], -1⟩, .node ⟨"", []⟩ 0 k)
def exRoot (k : Kids) : T := .node ⟨"", []⟩ 0 k

/-- `((a:1,b:1):1,c:2,(d:1,e:3):1/2);` unrooted -/
def exU1 : T := exRoot [exInner 1 [exTip "a" 1, exTip "b" 1], exTip "c" 2, exInner (1/2) [exTip "d" 1, exTip "e" 3]]
/-- `((b:1,a:3):2,(c:1,(e:1,d:1):3/2):1);` rooted -/
def exR2 : T := exRoot [exInner 2 [exTip "b" 1, exTip "a" 3], exInner 1 [exTip "c" 1, exInner (3/2) [exTip "e" 1, exTip "d" 1]]]
/-- a tip hanging off the root: `(c:1,((d:2,e:2):1,b:1,a:1):4);` rooted, multifurcating -/
def exR3 : T := exRoot [exTip "c" 1, exInner 4 [exInner 1 [exTip "d" 2, exTip "e" 2], exTip "b" 1, exTip "a" 1]]
def exColl : List T := [exU1, exR2, exR3]

/-- three rooted trees `((a,b),(c,d))`: the bipartition ab|cd is in all of them (F34) -/
def exF34 : List T :=
  [exRoot [exInner 1 [exTip "a" 1, exTip "b" 1], exInner 2 [exTip "c" 1, exTip "d" 1]],
   exRoot [exInner (1/2) [exTip "a" 2, exTip "b" 1], exInner (1/2) [exTip "c" 1, exTip "d" 3]],
   exRoot [exInner 0 [exTip "b" 1, exTip "a" 1], exInner 4 [exTip "d" 1, exTip "c" 1]]]

/-- two trees with a single-child inner node above the clade (a,b):
    `(((a:1,b:1):1):2,c:1,d:1);` and `(((a:1,b:1):3):2,c:1,d:1);` (repaired by 5dad91e) -/
def exSingle : List T :=
  [exRoot [exInner 2 [exInner 1 [exTip "a" 1, exTip "b" 1]], exTip "c" 1, exTip "d" 1],
   exRoot [exInner 2 [exInner 3 [exTip "a" 1, exTip "b" 1]], exTip "c" 1, exTip "d" 1]]

/-- the inner branches of an outcome: (sorted tips below, support, length), `none` when rejected -/
def outValues : Out → Option (List (List String × Rat × Rat))
  | .ok r => some ((r.splits.filter (!·.tip)).map fun s => (sortN s.below, s.e.sup, s.e.len))
  | _ => none

def outSplits (o : Out) : Option (List (List String)) := (outValues o).map (·.map (·.1))

/-! ## Part 9: the re-rooting of tip-rooted inputs (5a3a76a) -/

/-- two trees rooted at the tip `a`: `((b:1,c:1,(d:1,e:1):1):2)a;` and `(((d:1,e:3):3,c:1,b:1):4)a;` -/
def exTipRoot : List T :=
  [.node ⟨"a", []⟩ 0 [exInner 2 [exTip "b" 1, exTip "c" 1, exInner 1 [exTip "d" 1, exTip "e" 1]]],
   .node ⟨"a", []⟩ 0 [exInner 4 [exInner 3 [exTip "d" 1, exTip "e" 3], exTip "c" 1, exTip "b" 1]]]

theorem rerootTip_of_deg (t : T) (h : 2 ≤ t.kids.length) : rerootTip t = t := by
  unfold rerootTip
  match hk : t.kids, h with
  | [], h => simp at h
  | [x], h => simp at h
  | x :: y :: r, _ => rfl

theorem map_rerootTip_of_deg (ts : List T) (h : ∀ t ∈ ts, 2 ≤ t.kids.length) : ts.map rerootTip = ts := by
  induction ts with
  | nil => rfl
  | cons a l ih =>
    rw [List.map_cons, rerootTip_of_deg a (h a (by simp)), ih (fun t ht => h t (by simp [ht]))]

theorem rerootTip_cases (t : T) : rerootTip t = t ∨
    ∃ d p e dv pv k kr, t = .node d p [(e, .node dv pv (k :: kr))] ∧
      rerootTip t = .node dv 0 ((k :: kr).take pv ++ (e, .node d 0 []) :: (k :: kr).drop pv) := by
  match t with
  | .node d p [] => exact Or.inl rfl
  | .node d p (x :: y :: r) => exact Or.inl rfl
  | .node d p [(e, .node dv pv [])] => exact Or.inl rfl
  | .node d p [(e, .node dv pv (k :: kr))] => exact Or.inr ⟨d, p, e, dv, pv, k, kr, rfl, rfl⟩

theorem rerootTip_deg (t : T) (h : rerootTip t ≠ t) : 2 ≤ (rerootTip t).kids.length := by
  rcases rerootTip_cases t with h' | ⟨d, p, e, dv, pv, k, kr, rfl, h'⟩
  · exact absurd h' h
  · rw [h']
    show 2 ≤ ((k :: kr).take pv ++ (e, T.node d 0 []) :: (k :: kr).drop pv).length
    rw [List.length_append, List.length_cons]
    have : ((k :: kr).take pv).length + ((k :: kr).drop pv).length = (k :: kr).length := by
      rw [← List.length_append, List.take_append_drop]
    simp only [List.length_cons] at this ⊢
    omega

theorem rerootTip_idem (t : T) : rerootTip (rerootTip t) = rerootTip t := by
  by_cases h : rerootTip t = t
  · rw [h, h]
  · exact rerootTip_of_deg _ (rerootTip_deg t h)

end Gotree.C09
