/-
  C15 — the commands as they treat their WHOLE input (round 7): cmd/repopulate.go with the group file
  as raw text (cmd/root.go:276 readIdenticalGroupFile, io/fileutils Readln = bufio.ReadLine), the three
  states of `-g` (not given / file cannot be opened / file read), and the loop over the tree channel
  of repopulate, collapse single and subtree (several trees in one input file).
  Core Lean only.
-/
import Gotree.Model.C15

namespace Gotree.C15
open Gotree

/-- one more character in front of the first piece -/
def consHead (x : Char) : List (List Char) → List (List Char)
  | [] => [[x]]
  | h :: t => (x :: h) :: t

/-- `strings.Split(s, sep)` for a one-character separator: never empty, `"" ↦ [""]` -/
def splitC (c : Char) : List Char → List (List Char)
  | [] => [[]]
  | x :: r => if x == c then [] :: splitC c r else consHead x (splitC c r)

/-- bufio.ReadLine drops "\n" and, before it, one "\r" -/
def dropCR (l : List Char) : List Char := if l.getLast? == some '\r' then l.dropLast else l

/-- size of the `bufio.Reader` buffer (`bufio.NewReader`: defaultBufSize) -/
def bufSize : Nat := 4096

/-- the lines `fileutils.Readln` delivers WITH a nil error: every "\n"-terminated line without its end-of-line
    marker, then the unterminated rest when it is not empty (its "\r" stays).
    `dropFull = true` is the PINNED behaviour (before /repo 34f70d2, F99, found in round 7b): when the
    unterminated rest fills the buffer exactly (length k·4096, k ≥ 1) `ReadLine` hands out the last chunk with
    `isPrefix = true`, the next call answers `io.EOF`, `Readln` returned the whole line TOGETHER with `io.EOF`
    and the callers (`for e == nil`) dropped it.  Since 34f70d2 `Readln` clears an `io.EOF` that comes with
    a non-empty line: `dropFull = false`. -/
def readLinesBy (dropFull : Bool) (txt : List Char) : List (List Char) :=
  let ls := splitC '\n' txt
  ls.dropLast.map dropCR ++ (match ls.getLast? with
    | some [] => []
    | some l => if dropFull && l.length % bufSize == 0 then [] else [l]
    | none => [])

/-- the code as it is (since 34f70d2) -/
def readLines (txt : List Char) : List (List Char) := readLinesBy false txt

/-- the pinned variant (before 34f70d2) -/
def readLinesPinned (txt : List Char) : List (List Char) := readLinesBy true txt

/-- `readIdenticalGroupFile` on a file that could be opened: one group per line, `strings.Split(line, ",")`.
    `len(cols) == 0` never holds (dead test of cmd/root.go:301): an empty line is the group `[""]`. -/
def readGroupFileBy (dropFull : Bool) (txt : String) : List (List String) :=
  (readLinesBy dropFull txt.toList).map fun l => (splitC ',' l).map String.ofList

/-- the code as it is (since 34f70d2) -/
def readGroupFile (txt : String) : List (List String) := readGroupFileBy false txt

/-- the three states of `-g` -/
inductive GroupArg where
  | absent                 -- flag not given: `groupfile == "none"`
  | missing                -- the reader fails before the first line: the file cannot be opened, or its name ends in .gz and its content is not gzip
  | file (txt : String)    -- the content of a plain file
  | gzfile (txt : String)  -- the content of a .gz file once decompressed (gzip.Reader is trusted); before 34f70d2 the two
                           -- differed: gzip.Reader hands out its last bytes together with io.EOF, so the pinned Readln
                           -- lost a full-buffer last line of a plain file only

/-- the groups `RunE` works with: `identicalgroups, err = readIdenticalGroupFile(groupfile)` is followed at
    once by `if f, err = openWriteFile(outtreefile)` — the reader's error is OVERWRITTEN, so a file that
    cannot be opened yields the empty list made before `os.Open` and no message. -/
def groupsOf : GroupArg → Option (List (List String))
  | .absent => none
  | .missing => some []
  | .file txt => some (readGroupFile txt)
  | .gzfile txt => some (readGroupFileBy false txt)

/-- `for tr := range treechan`: `UpdateTipIndex` (refuses a repeated tip name), `InsertIdenticalTips`,
    print; the first refusal ends the command with an error exit, the trees printed so far stay.
    Result: (trees printed, exit status 0). -/
def repopulateLoop (groups : List (List String)) : List T → List T × Bool
  | [] => ([], true)
  | t :: r =>
    if !(tipIndex t).2 then ([], false)
    else match insertIdentical true t groups with
      | (t', none) => let o := repopulateLoop groups r; (t' :: o.1, o.2)
      | (_, some _) => ([], false)

/-- `gotree repopulate -i trees [-g file]` -/
def cliRepopulateFile (ga : GroupArg) (trees : List T) : List T × Bool :=
  match groupsOf ga with
  | none => ([], false)
  | some gs => repopulateLoop gs trees

/-- `gotree collapse single` on an input of several trees: each one, in order -/
def cliCollapseSingleAll (ts : List T) : List T := ts.map cliCollapseSingle

/-- the text a user writes for a group list: names joined by ",", one group per line -/
def joinC (c : Char) : List (List Char) → List Char
  | [] => []
  | [a] => a
  | a :: b :: r => a ++ c :: joinC c (b :: r)

def renderGroups (gs : List (List String)) : String :=
  String.ofList (gs.flatMap fun g => joinC ',' (g.map String.toList) ++ ['\n'])

/-- a name that survives the file format: no ",", no end-of-line character -/
def cleanName (n : String) : Bool := !(n.toList.contains ',') && !(n.toList.contains '\n') && !(n.toList.contains '\r')

end Gotree.C15
