/-
  C20 — the facts about the source that the hand-written model assumes, in the form the extractor
  `harness/c20/extract.go` regenerates them (`Gotree/Gen/C20Sites.lean`): every anchored function
  (or one branch of it) flattened, in source order, into events (draws with their bound, conditions,
  counter steps, slot stores, calls), plus the option table of `sample`, `prune` and `--seed`.

  `tableOK` is what the model needs of them.  It reads the events through their MEANING, so that a
  rewrite that keeps the meaning keeps the decision: a draw bound is normalised to "loop counter + c"
  where a `counter++` met earlier in the same iteration counts (so `n++; Intn(n)` and
  `Intn(n+1); n++` are the same row and `n++; Intn(n+1)` is not); a condition is looked up in either
  orientation (`j < k` = `k > j`); a variable that holds the result of a rand call, or the call itself
  inside a comparison, is written `$draw` by the extractor (`r := rand.Intn(n); if r == 0` and
  `if rand.Intn(n) == 0` are the same row); only the conditions the model depends on are demanded.
  Core Lean only.
-/
import Gotree.Model.C20

namespace Gotree.C20

/-- the argument of a `rand.Intn` / `rand.Perm` call as written -/
inductive Bound where
  | varPlus (v : String) (c : Nat)   -- `v`, `v + c`, `c + v`
  | lenOf (v : String)               -- `len(v)`
  | other (text : String)
  deriving DecidableEq, Repr

/-- one event of a function body, in source order (a `for` statement: init, condition, body, post) -/
inductive Ev where
  | draw (fn : String) (b : Bound)               -- rand.<fn>(<b>)
  | cond (lhs op rhs : String)                   -- condition of an if (`op = ""`: not a comparison; "switch" / "case")
  | loop (lhs op rhs : String)                   -- condition of a three-clause for
  | range (key val e : String)                   -- for key, val := range e
  | step (v op : String)                         -- v++ / v--
  | store (lhs rhs : String)                     -- append, re-slice, other indexed assignments
  | slot (slice idx val : String)                -- slice[idx] = val
  | swap (slice i j : String)                    -- slice[i], slice[j] = slice[j], slice[i]
  | call (fn args : String)
  deriving DecidableEq, Repr

structure Site where
  name : String
  src : String
  evs : List Ev
  deriving DecidableEq, Repr

/-- `<cmd>.Flags().<T>Var[P](&v, long, [short,] default, usage)` -/
structure Opt where
  file : String
  long : String
  typ : String
  var : String
  dflt : String
  deriving DecidableEq, Repr

def siteEvs (ss : List Site) (name : String) : List Ev :=
  match ss.find? (fun s => s.name == name) with
  | some s => s.evs
  | none => []

/-- what a draw bound means inside a loop whose counter is known -/
inductive BoundSem where
  | counter (c : Nat)      -- (value of the counter when the iteration starts) + c
  | len (v : String)       -- the current length of the slice `v`
  | other (t : String)
  deriving DecidableEq, Repr

/-- the draws of a loop body in order; `steps` = how many `v++` were met before -/
def drawsOf (v : String) : List Ev → Nat → List (String × BoundSem)
  | [], _ => []
  | .step w op :: r, steps => drawsOf v r (if w == v && op == "++" then steps + 1 else steps)
  | .draw fn (.varPlus w c) :: r, steps =>
      (fn, if w == v then BoundSem.counter (c + steps) else BoundSem.other w) :: drawsOf v r steps
  | .draw fn (.lenOf w) :: r, steps => (fn, BoundSem.len w) :: drawsOf v r steps
  | .draw fn (.other t) :: r, steps => (fn, BoundSem.other t) :: drawsOf v r steps
  | _ :: r, steps => drawsOf v r steps

/-- the bound of the single `Intn` of an iteration that starts with counter value `i` (0 = no such draw:
    `Intn(0)` panics, no script of the model contains it) -/
def scriptBound (ds : List (String × BoundSem)) (i : Nat) : Nat :=
  match ds with
  | [("Intn", .counter c)] => i + c
  | _ => 0

def flipOp (op : String) : String :=
  if op == "<" then ">" else if op == ">" then "<" else if op == "<=" then ">=" else if op == ">=" then "<=" else op

def hasCond (evs : List Ev) (l op r : String) : Bool :=
  evs.any fun e => match e with
    | .cond a o b => (a == l && o == op && b == r) || (a == r && o == flipOp op && b == l)
    | _ => false

def hasLoop (evs : List Ev) (l op r : String) : Bool :=
  evs.any fun e => match e with
    | .loop a o b => (a == l && o == op && b == r) || (a == r && o == flipOp op && b == l)
    | _ => false

/-- the counter `v` runs over the indices of a slice: `for v[, _] := range …` -/
def rangesWith (evs : List Ev) (v : String) : Bool :=
  evs.any fun e => match e with
    | .range k _ _ => k == v
    | _ => false

def hasStore (evs : List Ev) (l r : String) : Bool :=
  evs.any fun e => match e with
    | .store a b => a == l && b == r
    | _ => false

/-- the right sides of the stores into `l` -/
def storesTo (evs : List Ev) (l : String) : List String :=
  evs.filterMap fun e => match e with
    | .store a b => if a == l then some b else none
    | _ => none

def callNames (evs : List Ev) (keep : List String) : List String :=
  evs.filterMap fun e => match e with
    | .call f _ => if keep.contains f then some f else none
    | _ => none

def callArgs (evs : List Ev) (fn : String) : List String :=
  evs.filterMap fun e => match e with
    | .call f a => if f == fn then some a else none
    | _ => none

/-- position of the first event satisfying `p` -/
def firstIdx (evs : List Ev) (p : Ev → Bool) : Option Nat := evs.findIdx? p

def condIdx (evs : List Ev) (l op r : String) : Option Nat :=
  firstIdx evs fun e => match e with
    | .cond a o b => a == l && o == op && b == r
    | _ => false

def callIdx (evs : List Ev) (fn args : String) : Option Nat :=
  firstIdx evs fun e => match e with
    | .call f a => f == fn && a == args
    | _ => false

def optLt : Option Nat → Option Nat → Bool
  | some a, some b => a < b
  | _, _ => false

/-- `b` is the event right after `a` -/
def optSucc : Option Nat → Option Nat → Bool
  | some a, some b => b == a + 1
  | _, _ => false

def optIs (os : List Opt) (file long typ dflt : String) : Bool :=
  os.any fun o => o.file == file && o.long == long && o.typ == typ && o.dflt == dflt

/-! the `edges` slice of RandomUniformBinaryTree: how many appends the first iteration (`case 0`) makes,
    depending on `rooted`, and how many every later iteration (`default`) makes -/

def splitAtDefault (evs : List Ev) : List Ev × List Ev := evs.span fun e => e != .cond "default" "case" ""

def initAppends (evs : List Ev) (rooted : Bool) : Nat :=
  let ab := (splitAtDefault evs).1.span fun e => e != .cond "rooted" "" ""
  (storesTo ab.1 "edges").length + (if rooted then (storesTo ab.2 "edges").length else 0)

def graftAppends (evs : List Ev) : Nat := (storesTo (splitAtDefault evs).2 "edges").length

/-! ### reading a loop through its meaning: the names of the local variables are found, not given -/

/-- the loop counter: the variable the first `Intn` bound is written with -/
def counterOf (evs : List Ev) : String :=
  (evs.findSome? fun e => match e with | .draw _ (.varPlus w _) => some w | _ => none).getD ""

/-- the counter advances by one per iteration: `w++` in the body, or `w` is the key of a range loop -/
def advances (evs : List Ev) (w : String) : Bool :=
  evs.any fun e => match e with
    | .step v op => v == w && op == "++"
    | .range k _ _ => k == w
    | _ => false

/-- the capacity `K` of the test `counter < K` -/
def capOf (evs : List Ev) (w : String) : Option String :=
  evs.findSome? fun e => match e with
    | .cond a o b => if a == w && o == "<" then some b else if b == w && o == ">" then some a else none
    | _ => none

/-- the variable of a counted loop: the one stepped by `++` -/
def counterOf' (evs : List Ev) : String :=
  (evs.findSome? fun e => match e with | .step v op => if op == "++" then some v else none | _ => none).getD ""

def slots (evs : List Ev) : List (String × String × String) :=
  evs.filterMap fun e => match e with | .slot x i v => some (x, i, v) | _ => none

def swaps (evs : List Ev) : List (String × String × String) :=
  evs.filterMap fun e => match e with | .swap x i j => some (x, i, j) | _ => none

/-- a reservoir without replacement (resLoop / resScript (· + 1)): the counter `c` advances by one per item; while
    `c < K` the item goes to slot `c`; otherwise ONE `Intn(c + 1)` (c = the value when the iteration starts) and
    the SAME value goes to slot `$draw` of the SAME slice iff `$draw < K` -/
def reservoirOK (evs : List Ev) : Bool :=
  let c := counterOf evs
  c != "" && advances evs c && drawsOf c evs 0 == [("Intn", .counter 1)] &&
  match capOf evs c with
  | none => false
  | some K => hasCond evs "$draw" "<" K &&
      (slots evs).any fun (x, i, v) => i == c && (slots evs).any fun (x', i', v') => x' == x && i' == "$draw" && v' == v

/-- the loop with replacement (replRow / replScript): per slot `j < K` ONE `Intn(t + 1)` for the `t`-th item
    (0-based), the item goes to slot `j` iff the draw is `0` -/
def replaceOK (evs : List Ev) : Bool :=
  let c := counterOf evs
  c != "" && advances evs c && drawsOf c evs 0 == [("Intn", .counter 1)] && hasCond evs "$draw" "==" "0" &&
  evs.any fun e => match e with
    | .loop j o _ => o == "<" && j != c && (slots evs).any fun (_, i, _) => i == j
    | _ => false

/-- Fisher-Yates over the neighbours (rotLoop / rotScript): counter = key of the range loop, `Intn(i + 1)`,
    `neigh` and `br` both swapped at (i, $draw), no test -/
def rotateOK (evs : List Ev) : Bool :=
  let c := counterOf evs
  c != "" && advances evs c && drawsOf c evs 0 == [("Intn", .counter 1)] &&
  swaps evs == [("n.neigh", c, "$draw"), ("n.br", c, "$draw")] &&
  evs.all fun e => match e with | .cond _ _ _ => false | .slot _ _ _ => false | .store _ _ => false | _ => true

/-- the rows of the model that come from the source:

  * `sample` without `--replace` (reservoir / resScript (· + 1)): fill while `totaltrees < numtrees`, else ONE
    `Intn(totaltrees + 1)` (counter value at the start of the iteration), store iff `j < numtrees`;
    negative `numtrees` refused (`sampleCmd_negative`); `make(…, numtrees)` slots
  * with `--replace` (replRow / replScript): per slot `j < numtrees` ONE `Intn(t + 1)` for the `t`-th tree
    (0-based), store iff `r == 0`
  * `randomTips` (randomTips / resScript (· + 1)): over `tr.Tips()`, same reservoir with counter `i`
  * `prune` (pruneSelection): `tipfile != "none"` before `comptree != nil` before `randomtips > 0`, each
    followed by its `RemoveTips`; `randomTips(reftree.Tree, randomtips)` is called inside the loop over the trees
  * `ShuffleTips` (shuffleTips): `rand.Perm(len(names))`, names from `AllTipNames()`, tips from `Tips()`,
    `tips[i].SetName(names[p])`
  * `RotateNeighbors` (rotLoop / rotScript): `Intn(i + 1)` over `n.neigh`, both `neigh` and `br` swapped
  * `RotateInternalNodes` (rotAllT): `RotateNeighbors` on every node of `t.Nodes()`
  * `RandomUniformBinaryTree` (utree / utreeBounds): `Intn(len(edges))`; `edges` grows by `e` [, `e2` if rooted],
    then by `newedge` and `newedge2` for every grafted tip; `nbtips < 3` refused; `RerootFirst` iff `!rooted`
  * options: `--nbtrees` Int 1, `--replace` Bool false, `--random` Int 0, `--revert` Bool false, `--seed` Int64 -1
    (`-1` = clock), `rand.Seed(seed)` -/
def tableOK (ss : List Site) (os : List Opt) (cs : List (String × List String)) : Bool :=
  let nr := siteEvs ss "sample.noreplace"
  let rp := siteEvs ss "sample.replace"
  let sm := siteEvs ss "sample"
  let rt := siteEvs ss "randomTips"
  -- the loop over the trees of the input file (everything from `for reftree := range treechan`)
  let pr := (siteEvs ss "prune").dropWhile fun e => match e with | .range _ _ x => x != "treechan" | _ => true
  let sh := siteEvs ss "ShuffleTips"
  let rn := siteEvs ss "RotateNeighbors"
  let ri := siteEvs ss "RotateInternalNodes"
  let ut := siteEvs ss "RandomUniformBinaryTree"
  let ro := siteEvs ss "root"
  -- sample
  reservoirOK nr && replaceOK rp
  -- the same capacity in both loops, refused when negative, and the size of the slice made before
  && (match capOf nr (counterOf nr) with
      | none => false
      | some K => hasLoop rp (rp.findSome? (fun e => match e with | .loop j _ _ => some j | _ => none) |>.getD "") "<" K
          && hasCond sm K "<" "0" && callArgs sm "make" == ["[]*tree.Tree, " ++ K])
  && (drawsOf (counterOf sm) sm 0).length == 2
  -- randomTips / prune
  && reservoirOK rt && rangesWith rt (counterOf rt) && callNames rt ["Tips", "AllTipNames", "Nodes"] == ["Tips"]
  && optLt (condIdx pr "tipfile" "!=" "\"none\"") (condIdx pr "comptree" "!=" "nil")
  && optLt (condIdx pr "comptree" "!=" "nil") (condIdx pr "randomtips" ">" "0")
  && optSucc (condIdx pr "randomtips" ">" "0") (callIdx pr "randomTips" "reftree.Tree, randomtips")
  && callArgs pr "RemoveTips" == ["revert, tips", "revert, specificTipNames", "revert, sampled", "revert, args"]
  && (drawsOf "" (siteEvs ss "prune") 0).isEmpty
  -- ShuffleTips
  && drawsOf "" sh 0 == [("Perm", .len "names")]
  && callNames sh ["Tips", "AllTipNames", "SetName"] == ["Tips", "AllTipNames", "SetName"]
  && callArgs sh "SetName" == ["names[p]"]
  && (siteEvs ss "shuffletips").filterMap (fun e => match e with | .range _ _ x => some x | .call f _ => some f | _ => none)
       == ["treechan", "ShuffleTips", "Newick"]
  && sh.any (fun e => match e with | .range k v x => k == "i" && v == "p" && x == "$draw" | _ => false)
  && (sh.all fun e => match e with | .cond _ _ _ => false | .store _ _ => false | _ => true)
  -- rotations
  && rotateOK rn && rangesWith rn (counterOf rn)
  && callNames ri ["Nodes", "RotateNeighbors"] == ["Nodes", "RotateNeighbors"]
  && (siteEvs ss "rotaterand").filterMap (fun e => match e with | .range _ _ x => some x | .call f _ => some f | _ => none)
       == ["treechan", "RotateInternalNodes", "Newick"]
  && (ri.all fun e => match e with | .cond _ _ _ => false | _ => true)
  -- uniform tree
  -- the draws in source order are the model's script: Exp [, Exp when rooted], then per tip Intn(len(edges)), Exp, Exp, Exp
  && (drawsOf "" ut 0).map (·.1) == ["gostats.Exp", "gostats.Exp", "Intn", "gostats.Exp", "gostats.Exp", "gostats.Exp"]
  && (drawsOf "" ut 0).filter (·.1 == "Intn") == [("Intn", .len "edges")]
  && storesTo ut "edges" == ["append(edges, e)", "append(edges, e2)", "append(edges, newedge)", "append(edges, newedge2)"]
  && hasCond ut "nbtips" "<" "3"
  && optLt (condIdx ut "rooted" "" "") (firstIdx ut fun e => e == .store "edges" "append(edges, e2)")
  && optLt (firstIdx ut fun e => e == .store "edges" "append(edges, e2)") (condIdx ut "default" "case" "")
  && optLt (condIdx ut "!rooted" "" "") (callIdx ut "RerootFirst" "")
  && callArgs ut "GraftTipOnEdge" == ["n, e"]
  -- `generate uniformtree -n N`: N calls in a counted loop, nothing else draws
  && (let uc := siteEvs ss "uniformtree"
      hasLoop uc (counterOf' uc) "<" "nbtrees" && callArgs uc "RandomUniformBinaryTree" == ["nbtips, rooted"]
      && (drawsOf "" uc 0).isEmpty)
  && callArgs (siteEvs ss "uniformtree.run") "uniformTree" == ["generateNbTrees, generateNbTips, generateOutputfile, generateRooted"]
  -- options and the seed
  && optIs os "cmd/sample.go" "nbtrees" "Int" "1" && optIs os "cmd/sample.go" "replace" "Bool" "false"
  && optIs os "cmd/prune.go" "random" "Int" "0" && optIs os "cmd/prune.go" "revert" "Bool" "false"
  && optIs os "cmd/prune.go" "tipfile" "String" "none" && optIs os "cmd/prune.go" "comp" "String" "none"
  && optIs os "cmd/root.go" "seed" "Int64" "-1"
  && hasCond ro "seed" "==" "-1" && callArgs ro "Seed" == ["seed"]
  -- every function that draws on the paths of the five commands (static calls inside packages cmd and tree,
  -- math/rand resolved through the type checker whatever its local name, gostats.Exp = one Float64)
  && cs == [("sample", ["cmd.sampleCmd.RunE:Intn"]), ("prune", ["cmd.randomTips:Intn"]),
            ("shuffletips", ["tree.Tree.ShuffleTips:Perm"]), ("rotate rand", ["tree.Node.RotateNeighbors:Intn"]),
            ("generate uniformtree", ["tree.RandomUniformBinaryTree:Intn", "tree.RandomUniformBinaryTree:gostats.Exp"])]

end Gotree.C20
