/-
  C06 — from the relation `Ind K` to the Spec functions `T.usplits`, `T.tipLens`
  and `restrictU` (what `dataOK` compares).  Core Lean only.
-/
import Gotree.Lemmas.C06DataRm

namespace Gotree.C06
open Gotree Gotree.C14

theorem leavesL_cons' (e : EdgeD) (t : T) (r : Kids) : leavesL ((e, t) :: r) = t.leaves ++ leavesL r := by
  simp [leavesL]

/-! ## `restrictU` as a fold over the kept branches -/

theorem restrictU_fold (k : List String) : ∀ (L : List SplitE) (acc : List USplit),
    L.foldl (fun acc s =>
      let side := s.below.filter k.contains
      if side.isEmpty || side.length == k.length then acc
      else insertU ⟨canonSide k side, s.e.len, s.e.sup⟩ acc) acc
    = ufoldU ((L.filter (nd k)).map (toU k)) acc
  | [], acc => rfl
  | s :: L, acc => by
    simp only [List.foldl_cons]
    rw [restrictU_fold k L]
    by_cases h : ((s.below.filter k.contains).isEmpty || (s.below.filter k.contains).length == k.length) = true
    · have hn : nd k s = false := by simp [nd, h]
      simp [h, hn]
    · have hn : nd k s = true := by simp [nd, h]
      simp only [h, hn, List.filter_cons, if_true, List.map_cons, ufoldU_cons, Bool.false_eq_true, if_false]
      simp [toU, canonSide_restr]

theorem restrictU_eq (t : T) (keep : List String) :
    restrictU t keep = (ufoldU ((t.splits.filter (nd (t.tipNames.filter keep.contains))).map
      (toU (t.tipNames.filter keep.contains))) []).mergeSort uLe := by
  unfold restrictU
  simp only
  rw [restrictU_fold]
  rfl

/-! ## supports of trivial splits are not observed -/

def normU (K : List String) (u : USplit) : USplit :=
  ⟨u.side, u.len, if 2 ≤ lightSize K u.side then u.sup else NIL⟩

theorem tu_eq_norm (K : List String) (s : SplitE) : tu K s = normU K (toU K s) := rfl

theorem normU_fuse (K : List String) (x u : USplit) (h : x.side = u.side) :
    normU K (fuseU x u) = fuseU (normU K x) (normU K u) := by
  unfold normU fuseU
  simp only [h]
  by_cases hn : 2 ≤ lightSize K u.side
  · simp [hn]
  · simp only [hn, if_false]
    congr 1

theorem insertU_normU (K : List String) (u : USplit) : ∀ acc : List USplit,
    insertU (normU K u) (acc.map (normU K)) = (insertU u acc).map (normU K)
  | [] => rfl
  | x :: r => by
    by_cases h : x.side = u.side
    · rw [List.map_cons, insertU_cons_eq (normU K u) (normU K x) _ (by simpa [normU] using h), insertU_cons_eq u x r h]
      simp only [List.map_cons]
      rw [normU_fuse K x u h]
    · rw [List.map_cons, insertU_cons_ne (normU K u) (normU K x) _ (by simpa [normU] using h), insertU_cons_ne u x r h]
      simp only [List.map_cons]
      rw [insertU_normU K u r]

theorem ufoldU_normU (K : List String) : ∀ (l acc : List USplit),
    ufoldU (l.map (normU K)) (acc.map (normU K)) = (ufoldU l acc).map (normU K)
  | [], _ => rfl
  | u :: l, acc => by
    simp only [List.map_cons, ufoldU_cons]
    rw [insertU_normU, ufoldU_normU K l]

theorem filter_nt_normU (K : List String) : ∀ l : List USplit,
    (l.map (normU K)).filter (fun s => decide (2 ≤ lightSize K s.side)) =
      l.filter (fun s => decide (2 ≤ lightSize K s.side))
  | [] => rfl
  | u :: l => by
    simp only [List.map_cons, List.filter_cons]
    rw [filter_nt_normU K l]
    by_cases h : 2 ≤ lightSize K u.side
    · have : normU K u = u := by simp [normU, h]
      simp [this, h]
    · simp [normU, h]

theorem filter_triv_normU (K : List String) : ∀ l : List USplit,
    ((l.map (normU K)).filter (fun s => decide (lightSize K s.side ≤ 1))).map (fun s => (s.side, s.len)) =
      (l.filter (fun s => decide (lightSize K s.side ≤ 1))).map (fun s => (s.side, s.len))
  | [] => rfl
  | u :: l => by
    simp only [List.map_cons, List.filter_cons]
    have ih := filter_triv_normU K l
    by_cases h : lightSize K u.side ≤ 1
    · simp only [normU, h, decide_true, if_true, List.map_cons]
      rw [← ih]
    · simp only [normU, h, decide_false, Bool.false_eq_true, if_false]
      exact ih

/-! ## every branch of a tree with ≥ 2 root kids has tips on both sides -/

mutual
theorem below_ne_nil : ∀ (t : T), ∀ s ∈ t.splitsBelow, s.below ≠ []
  | .node _ _ [] => by simp [T.splitsBelow, splitsL]
  | .node _ _ (k :: ks) => by
    simpa [T.splitsBelow] using below_ne_nilL (k :: ks)
theorem below_ne_nilL : ∀ (k : Kids), ∀ s ∈ splitsL k, s.below ≠ []
  | [] => by simp [splitsL]
  | (e, t) :: r => by
    intro s hs
    simp only [splitsL, List.mem_cons, List.mem_append] at hs
    rcases hs with rfl | hs | hs
    · exact T.leaves_ne_nil t
    · exact below_ne_nil t s hs
    · exact below_ne_nilL r s hs
end

theorem exists_mem_of_ne_nil {l : List String} (h : l ≠ []) : ∃ y, y ∈ l := by
  cases l with
  | nil => exact absurd rfl h
  | cons a r => exact ⟨a, by simp⟩

theorem exists_outside : ∀ (k : Kids), 2 ≤ k.length → (leavesL k).Nodup →
    ∀ s ∈ splitsL k, ∃ y ∈ leavesL k, y ∉ s.below
  | [], h, _ => by simp at h
  | (e, t) :: r, h2, hnd => by
    intro s hs
    have hr : r ≠ [] := by intro h0; subst h0; simp at h2
    simp only [C06.leavesL_cons'] at hnd ⊢
    have hdis := (List.nodup_append.1 hnd).2.2
    simp only [splitsL, List.mem_cons, List.mem_append] at hs
    have inT : (s = ⟨t.leaves, e, t.isLeaf⟩ ∨ s ∈ t.splitsBelow) → ∃ y ∈ t.leaves ++ leavesL r, y ∉ s.below := by
      intro h
      obtain ⟨y, hy⟩ := exists_mem_of_ne_nil (leavesL_ne_nil r hr)
      refine ⟨y, List.mem_append_right _ hy, fun hm => ?_⟩
      have : y ∈ t.leaves := by
        rcases h with rfl | h
        · exact hm
        · exact below_sub t s h y hm
      exact hdis y this y hy rfl
    rcases hs with h | h | h
    · exact inT (Or.inl h)
    · exact inT (Or.inr h)
    · obtain ⟨y, hy⟩ := exists_mem_of_ne_nil (T.leaves_ne_nil t)
      refine ⟨y, List.mem_append_left _ hy, fun hm => ?_⟩
      exact hdis y hy y (below_subL r s h y hm) rfl

theorem nd_all (t' : T) (K : List String) (h2 : 2 ≤ t'.kids.length) (hnd : t'.tipNames.Nodup)
    (hperm : t'.tipNames.Perm K) : ∀ s ∈ t'.splits, nd K s = true := by
  intro s hs
  have hK : K.Nodup := hperm.nodup_iff.1 hnd
  have htn : t'.tipNames = leavesL t'.kids := tipNames_of_ne1 t' (by omega)
  have hndk : (leavesL t'.kids).Nodup := htn ▸ hnd
  have hsn : s.below.Nodup := splits_below_nodup t' hnd s hs
  have hsub : ∀ a ∈ s.below, a ∈ K := fun a ha =>
    hperm.mem_iff.1 (htn ▸ below_subL t'.kids s hs a ha)
  have hself : s.below.filter K.contains = s.below :=
    List.filter_eq_self.2 (fun a ha => by simpa using hsub a ha)
  obtain ⟨y, hy, hym⟩ := exists_outside t'.kids h2 hndk s hs
  have hyK : y ∈ K := hperm.mem_iff.1 (htn ▸ hy)
  rw [nd_eq, hself]
  simp only [ne_eq, decide_eq_true_eq]
  refine ⟨fun h0 => below_ne_nilL t'.kids s hs (List.length_eq_zero_iff.1 h0), fun hl => ?_⟩
  have c := filter_length_compl K s.below.contains
  have e := count_swap hK hsn
  rw [hself] at e
  have : y ∈ K.filter (fun n => !s.below.contains n) := by
    simp [hyK, hym]
  have : 1 ≤ (K.filter (fun n => !s.below.contains n)).length := List.length_pos_of_mem this
  omega

/-- **Lengths and supports of the induced subtree.**  If the split list of `t'` derives
    from that of `t` by the steps of `removeTip` (`Ind`), then the unrooted split map of
    `t'` (non-trivial splits with length and support; tip branches with length) is the
    fused restriction `restrictU` of that of `t`, up to the order of the list. -/
theorem data_of_ind (t t' : T) (p : String → Bool) (hT : t.tipNames.Nodup)
    (hperm : t'.tipNames.Perm (t.tipNames.filter p)) (h2 : 2 ≤ t'.kids.length)
    (hI : Ind (t.tipNames.filter p) t.splits t'.splits) (hg : LensGood t.splits) :
    t'.usplits.Perm ((restrictU t (t.tipNames.filter p)).filter
      (fun s => decide (2 ≤ lightSize (t.tipNames.filter p) s.side))) ∧
    t'.tipLens.Perm (((restrictU t (t.tipNames.filter p)).filter
      (fun s => decide (lightSize (t.tipNames.filter p) s.side ≤ 1))).map (fun s => (s.side, s.len))) := by
  have hK : (t.tipNames.filter p).Nodup := hT.filter _
  have hnd' : t'.tipNames.Nodup := hperm.nodup_iff.2 hK
  have hk : t.tipNames.filter (t.tipNames.filter p).contains = t.tipNames.filter p := by
    apply List.filter_congr
    intro x hx
    simp [hx]
  -- the two folds
  have hY := (ind_ueq hK hI hg).1 [] (by simp [SidesNodup]) (by intro x hx; cases hx)
  have hall : t'.splits.filter (nd (t.tipNames.filter p)) = t'.splits :=
    List.filter_eq_self.2 (nd_all t' _ h2 hnd' hperm)
  have eY : ufoldU (UL (t.tipNames.filter p) t.splits) [] =
      (ufoldU ((t.splits.filter (nd (t.tipNames.filter p))).map (toU (t.tipNames.filter p))) []).map
        (normU (t.tipNames.filter p)) := by
    rw [← ufoldU_normU]; simp only [UL, List.map_map, List.map_nil]; rfl
  have eY' : ufoldU (UL (t.tipNames.filter p) t'.splits) [] =
      (ufoldU (t'.splits.map (toU (t.tipNames.filter p))) []).map (normU (t.tipNames.filter p)) := by
    rw [← ufoldU_normU]; simp only [UL, hall, List.map_map, List.map_nil]; rfl
  rw [eY, eY'] at hY
  have eR := restrictU_eq t (t.tipNames.filter p)
  rw [hk] at eR
  have eA : t'.usplitsAll = (ufoldU (t'.splits.map (toU (t.tipNames.filter p))) []).mergeSort uLe := by
    rw [T.usplitsAll_eq, toU_perm_all hperm]
  constructor
  · unfold T.usplits
    have hfun : (fun s : USplit => decide (2 ≤ lightSize t'.tipNames s.side)) =
        (fun s : USplit => decide (2 ≤ lightSize (t.tipNames.filter p) s.side)) := by
      funext s; rw [lightSize_perm_all hperm]
    rw [hfun, eA, eR]
    refine ((List.mergeSort_perm _ _).filter _).trans ?_
    refine List.Perm.trans ?_ ((List.mergeSort_perm _ _).filter _).symm
    rw [← filter_nt_normU, ← filter_nt_normU (t.tipNames.filter p) (ufoldU ((t.splits.filter _).map _) [])]
    exact (hY.filter _).symm
  · unfold T.tipLens
    have hfun : (fun s : USplit => decide (lightSize t'.tipNames s.side ≤ 1)) =
        (fun s : USplit => decide (lightSize (t.tipNames.filter p) s.side ≤ 1)) := by
      funext s; rw [lightSize_perm_all hperm]
    rw [hfun, eA, eR]
    refine (((List.mergeSort_perm _ _).filter _).map _).trans ?_
    refine List.Perm.trans ?_ (((List.mergeSort_perm _ _).filter _).map _).symm
    rw [← filter_triv_normU, ← filter_triv_normU (t.tipNames.filter p) (ufoldU ((t.splits.filter _).map _) [])]
    exact ((hY.filter _).map _).symm

end Gotree.C06
