/-
  C15 — `InsertIdenticalTips` refuses a group that does not have exactly one existing member.
  Core Lean only.
-/
import Gotree.Lemmas.C15InsertAll

namespace Gotree.C15
open Gotree

def isErr {α : Type} : Except String α → Bool
  | .error _ => true
  | .ok _ => false

/-- number of members of the group that are tips already -/
def existing (tips g : List String) : Nat := (g.filter (tips.contains ·)).length

theorem existing_cons_mem {tips : List String} {name : String} (r : List String) (h : name ∈ tips) :
    existing tips (name :: r) = existing tips r + 1 := by
  simp [existing, h]

theorem existing_cons_not_mem {tips : List String} {name : String} (r : List String) (h : name ∉ tips) :
    existing tips (name :: r) = existing tips r := by
  simp [existing, h]

theorem scanGroup_too_many (tips : List String) : ∀ (r : List String) (old : String) (news : List String),
    "" ∉ r → (if old = "" then 2 else 1) ≤ existing tips r → isErr (scanGroup tips r old news) = true
  | [], old, news, _, h => by
    simp only [existing, List.filter_nil, List.length_nil] at h
    split at h <;> omega
  | name :: r, old, news, hne, h => by
    have hname : name ≠ "" := fun h0 => hne (by simp [h0])
    have hr : "" ∉ r := fun h0 => hne (by simp [h0])
    simp only [scanGroup]
    by_cases hm : name ∈ tips
    · rw [existing_cons_mem r hm] at h
      by_cases ho : old = ""
      · subst ho
        simp only [List.contains_eq_mem, hm, decide_true, Bool.true_and, beq_self_eq_true, if_true]
        apply scanGroup_too_many tips r name news hr
        simp only [hname, if_false]
        simp only [if_true] at h
        omega
      · have h1 : (old == "") = false := by simpa using ho
        have h2 : (old != "") = true := by simpa using ho
        simp [List.contains_eq_mem, hm, h1, h2, isErr]
    · rw [existing_cons_not_mem r hm] at h
      simp only [List.contains_eq_mem, hm, decide_false, Bool.false_and, if_false, Bool.false_eq_true]
      exact scanGroup_too_many tips r old (news ++ [name]) hr h

theorem scanGroup_none (tips : List String) : ∀ (r : List String) (news : List String),
    existing tips r = 0 → isErr (scanGroup tips r "" news) = true
  | [], news, _ => by simp [scanGroup, isErr]
  | name :: r, news, h => by
    have hm : name ∉ tips := by
      intro hm
      rw [existing_cons_mem r hm] at h
      omega
    rw [existing_cons_not_mem r hm] at h
    simp only [scanGroup, List.contains_eq_mem, hm, decide_false, Bool.false_and, if_false, Bool.false_eq_true]
    exact scanGroup_none tips r _ h

/-- a first group with no member, or with more than one member, among the tips is refused
    (the tree is then left as it was) -/
theorem insertGroups_refuse (t : T) (tips : List String) (g : List String) (gs : List (List String))
    (hne : "" ∉ g) (h : existing tips g ≠ 1) : insertGroups (g :: gs) t tips = (t, (insertGroups (g :: gs) t tips).2) ∧
    (insertGroups (g :: gs) t tips).2 ≠ none := by
  have herr : isErr (scanGroup tips g "" []) = true := by
    by_cases h0 : existing tips g = 0
    · exact scanGroup_none tips g [] h0
    · exact scanGroup_too_many tips g "" [] hne (by simp; omega)
  simp only [insertGroups]
  split
  · exact ⟨rfl, by simp⟩
  · split
    · exact ⟨rfl, by simp⟩
    · rename_i heq
      rw [heq] at herr
      simp [isErr] at herr

end Gotree.C15
