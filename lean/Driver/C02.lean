import Driver.Proto
import Gotree.Spec.C02
import Gotree.Model.C02Readers
import Gotree.Model.C02Dispatch
import Gotree.Model.C02Writers
import Gotree.Model.C02Files
import Gotree.Model.C02Chan
import Gotree.Model.C01

namespace Gotree.Driver.C02
open Gotree Gotree.Driver Gotree.C02

def parseRec (s : String) : Option ObsRec :=
  match s.splitOn ":" with
  | [id, kind, use, dump] =>
    match id.toInt? with
    | some i => some ⟨i, kind == "tree", use, dump⟩
    | none => none
  | id :: kind :: use :: rest =>
    -- a panic message may contain ':' only escaped, so this does not happen; be lenient
    match id.toInt? with
    | some i => some ⟨i, kind == "tree", use, ":".intercalate rest⟩
    | none => none
  | _ => none

def parseRecs (s : String) : Option (List ObsRec) := (splitTerm "|" s).mapM parseRec

def unescapeToBytes (s : String) : Option (List UInt8) :=
  (unescapeBytes s.toList ByteArray.empty).map (·.toList)

def short (s : String) : String := if s.length > 200 then String.ofList (s.toList.take 200) ++ "…" else s

/- canonical form of a tree for obs_P: branch ids dropped, children sorted (by their canonical dump) -/
mutual
def canonT : T → T
  | .node d p k => .node d p ((canonL k).mergeSort fun a b => decide ((T.dumpToks (some a.1) a.2) ≤ (T.dumpToks (some b.1) b.2)))
def canonL : Kids → Kids
  | [] => []
  | (e, t) :: r => ({ e with id := 0 }, canonT t) :: canonL r
end

/-- obs_P of one delivered tree: its α up to child order (and branch numbering) -/
def sameTree (m : T) (dump : String) : Bool :=
  match T.undump dump with
  | some t => t == m || canonT t == canonT m
  | none => false

/-- obs_P of C02: outcome class; for `ok` the number of records, their ids, error-or-tree, and the α of
    every delivered tree -/
def tieOut (m : Readers.ROut) (outcome : String) (recs : List ObsRec) : Option String :=
  match m with
  | .panic msg => some ("model panics: " ++ msg)
  | .hang => some "model does not halt"
  | .err _ => if outcome == "err" then none else some "model: err"
  | .ok rs =>
    if outcome != "ok" then some ("model: ok with " ++ toString rs.length ++ " records") else
    if rs.length != recs.length then some ("model: " ++ toString rs.length ++ " records") else
    let bad := (rs.zip recs).filter fun (m, o) =>
      (m.id : Int) != o.id || m.tree.isSome != o.isTree ||
      (match m.tree with
       | some (t, nonfin) => !nonfin && !(sameTree t o.dump)
       | none => false)
    match bad with
    | [] => none
    | (m, _) :: _ => some ("model record " ++ toString m.id ++ ": " ++
        (match m.tree with | some (t, _) => short t.dump | none => "err"))

/- ## the decoded clade structures sent by the harness -/

def optRat? (s : String) : Option (Option Rat) :=
  if s == "-" then some none else (parseRat? s).map some

mutual
def parseClade : Nat → List String → Option (Readers.Clade × List String)
  | 0, _ => none
  | f + 1, "(" :: n :: sc :: c :: l :: cf :: r =>
    match unescape (dropFirst n), unescape (dropFirst sc), unescape (dropFirst c), optRat? (dropFirst l), optRat? (dropFirst cf) with
    | some n, some sc, some c, some l, some cf =>
      match parseCladeKids f r [] with
      | some (ks, r') => some (.mk n sc c l cf ks, r')
      | none => none
    | _, _, _, _, _ => none
  | _ + 1, _ => none
def parseCladeKids : Nat → List String → List Readers.Clade → Option (List Readers.Clade × List String)
  | 0, _, _ => none
  | _ + 1, ")" :: r, acc => some (acc.reverse, r)
  | f + 1, toks, acc =>
    match parseClade f toks with
    | some (c, r) => parseCladeKids f r (c :: acc)
    | none => none
end

mutual
def parseNs : Nat → List String → Option (Readers.NsNode × List String)
  | 0, _ => none
  | f + 1, "(" :: n :: d :: k :: r =>
    match unescape (dropFirst n), parseRat? (dropFirst d), (if k == "-" then some none else (unescape (dropFirst k)).map some) with
    | some n, some d, some k =>
      match parseNsKids f r [] with
      | some (ks, r') => some (.mk n d k ks, r')
      | none => none
    | _, _, _ => none
  | _ + 1, _ => none
def parseNsKids : Nat → List String → List Readers.NsNode → Option (List Readers.NsNode × List String)
  | 0, _, _ => none
  | _ + 1, ")" :: r, acc => some (acc.reverse, r)
  | f + 1, toks, acc =>
    match parseNs f toks with
    | some (c, r) => parseNsKids f r (c :: acc)
    | none => none
end

/-- decoded PhyloXML: `none` = not comparable (non-finite number), `some none` = the decoder failed -/
def parsePx (s : String) : Option (Option (List Readers.Clade)) :=
  if s == "E" then some none else
  if !s.startsWith "X" then none else
  let parts := splitTerm "|" (dropFirst s)
  (parts.mapM fun p =>
    let toks := splitToks p
    match parseClade (toks.length + 1) toks with
    | some (c, []) => some c
    | _ => none).map some

def parseNsDoc (s : String) : Option (Option (String × Readers.NsNode)) :=
  if s == "E" then some none else
  match splitToks s with
  | v :: toks =>
    match unescape (dropFirst v), parseNs (toks.length + 1) toks with
    | some v, some (n, []) => some (some (v, n))
    | _, _ => none
  | [] => none

/-- why a `decoded` field could not be read: a non-finite number inside (the model has no value for it: the
    case is left untied and TAGGED), or anything else (a bug of the harness: BAD, never a silent pass) -/
def untiedWhy (decoded : String) : String :=
  if (splitToks decoded).any (fun t => ["lnan", "l+inf", "l-inf", "fnan", "f+inf", "f-inf", "dnan", "d+inf", "d-inf"].contains t)
  then "UNTIED-NONFINITE" else "UNTIED-BAD decoded field not understood: " ++ short decoded

/-- model of the XML / JSON entry points on the decoded structure -/
def tieDecoded (fmt decoded outcome : String) (recs : List ObsRec) : Option String :=
  match fmt with
  | "phyloxml" | "phyloxmlm" =>
    match parsePx decoded with
    | none => some (untiedWhy decoded)
    | some px =>
      -- through the `switch format` of the entry points (FORMAT_PHYLOXML = 2); `px = none`: the decoder refused
      if fmt == "phyloxml" then tieOut (Readers.readTreeReader { px := px } 2) outcome recs
      else tieOut (Readers.readMultiTrees { px := px } 2) outcome recs
  | "nextstrain" | "nextstrainm" =>
    match parseNsDoc decoded with
    | none => some (untiedWhy decoded)
    | some ns =>
      if fmt == "nextstrain" then tieOut (Readers.readTreeReader { ns := ns } 3) outcome recs
      else tieOut (Readers.readMultiTrees { ns := ns } 3) outcome recs
  | _ => none

/-- name of a control point, for the coverage report of the driver -/
def _root_.Gotree.C02.Nexus.Ctl.name : Nexus.Ctl → String
  | .expectNexus .. => "expectNexus"
  | .main .. => "main"
  | .mainComment .. => "mainComment"
  | .mainAfterComment .. => "mainAfterComment"
  | .beginName .. => "beginName"
  | .beginSemi .. => "beginSemi"
  | .tHead .. => "tHead"
  | .tEndSemi .. => "tEndSemi"
  | .tDim .. => "tDim"
  | .tDimNtaxEq .. => "tDimNtaxEq"
  | .tDimNtaxVal .. => "tDimNtaxVal"
  | .tDimKeyEq .. => "tDimKeyEq"
  | .tDimKeyVal .. => "tDimKeyVal"
  | .tLabels .. => "tLabels"
  | .tComment .. => "tComment"
  | .tUnsup .. => "tUnsup"
  | .rHead .. => "rHead"
  | .rEndSemi .. => "rEndSemi"
  | .rTr .. => "rTr"
  | .rTrVal .. => "rTrVal"
  | .rTrSep .. => "rTrSep"
  | .rTrComment .. => "rTrComment"
  | .rTreeName .. => "rTreeName"
  | .rTreeEq .. => "rTreeEq"
  | .rTreeFirst .. => "rTreeFirst"
  | .rTreeComment .. => "rTreeComment"
  | .rTreeSkip .. => "rTreeSkip"
  | .rTreeAcc .. => "rTreeAcc"
  | .rComment .. => "rComment"
  | .rUnsup .. => "rUnsup"
  | .dHead .. => "dHead"
  | .dEndSemi .. => "dEndSemi"
  | .dDim .. => "dDim"
  | .dDimNtaxEq .. => "dDimNtaxEq"
  | .dDimNtaxVal .. => "dDimNtaxVal"
  | .dDimNcharEq .. => "dDimNcharEq"
  | .dDimNcharVal .. => "dDimNcharVal"
  | .dDimKeyEq .. => "dDimKeyEq"
  | .dDimKeyVal .. => "dDimKeyVal"
  | .dFmt .. => "dFmt"
  | .dFmtDtEq .. => "dFmtDtEq"
  | .dFmtDtVal .. => "dFmtDtVal"
  | .dFmtMsEq .. => "dFmtMsEq"
  | .dFmtMsVal .. => "dFmtMsVal"
  | .dFmtGapEq .. => "dFmtGapEq"
  | .dFmtGapVal .. => "dFmtGapVal"
  | .dFmtKeyEq .. => "dFmtKeyEq"
  | .dFmtKeyVal .. => "dFmtKeyVal"
  | .dMat .. => "dMat"
  | .dMatSeq .. => "dMatSeq"
  | .dComment .. => "dComment"
  | .dUnsup .. => "dUnsup"
  | .uHead .. => "uHead"
  | .uEndSemi .. => "uEndSemi"

/-- control points of the Nexus machine visited on this input -/
def ctlTrace (ts : List Nexus.Token) : List String :=
  let (_, seen) := ts.foldl (fun (acc : Nexus.St × List String) t =>
    let s' := Nexus.deliver {} acc.1 t
    (s', if acc.2.contains s'.ctl.name then acc.2 else s'.ctl.name :: acc.2)) (({} : Nexus.St), [])
  seen.map ("ctl-" ++ ·)

def slug (s : String) : String :=
  String.ofList ((s.toList.take 36).map fun c => if c.isAlphanum then c else '-')

/-- error kind and "got past the first token", from the model -/
def modelInfo (fmt : String) (bufsize : String) (bytes : List UInt8) : List String × Bool :=
  match fmt with
  | "newick" =>
    match Gotree.C02.Newick.parse bytes with
    | .err m => (["e-" ++ slug m], !(m.startsWith "found"))
    | _ => ([], true)
  | "nexus" | "nexusm" =>
    let tr := ctlTrace (Nexus.tokens (decodeLossy bytes))
    match Nexus.parse bytes with
    | .err m => (("e-" ++ slug m) :: tr, !(m.startsWith "expected #NEXUS"))
    | _ => (tr, true)
  | "multi" =>
    match Readers.multiNewick (Readers.chunksOf (match bufsize.toNat? with | some n => if n < 16 then 4096 else n | none => 4096) bytes) with
    | .ok [r] => ([], r.tree.isSome)
    | _ => ([], true)
  | _ => ([], true)

/-- second opinion: the Newick model of C01 (`Gotree.Newick.parse goCodec`) as a reader outcome;
    `none` = it stores a non-finite number (not comparable) -/
def c01Newick (bytes : List UInt8) : Option Readers.ROut :=
  match Gotree.Newick.parse Gotree.Newick.goCodec (decodeLossy bytes) with
  | .ok t => some (.ok [⟨0, some (t, false)⟩])
  | .err m => some (.err m)
  | .panic m => some (.panic m)
  | .unrep _ => none

/-- fidelity figure (decides nothing): every delivered tree equals the model's EXACTLY (child order, branch ids) -/
def exactOut (m : Readers.ROut) (recs : List ObsRec) : Bool :=
  match m with
  | .ok rs =>
    rs.length == recs.length && (rs.zip recs).all fun (m, o) =>
      match m.tree with
      | some (t, nonfin) => nonfin || (match T.undump o.dump with | some u => u == t | none => false)
      | none => !o.isTree
  | _ => true

/-- the non-triviality rule (DESIGN App. C: "not rejected at the first token"): the text readers got past
    their first token (decided by the Lean model), the XML / JSON decoders accepted the document -/
def pastFirst (fmt bufsize : String) (bytes : List UInt8) (decoded : String) : Bool :=
  match fmt with
  | "phyloxml" | "phyloxmlm" | "nextstrain" | "nextstrainm" => decoded != "E" && decoded != ""
  | "bad" | "badm" => false
  | _ => bytes.length > 0 && (modelInfo fmt bufsize bytes).2

def bufSize' (s : String) : Nat := match s.toNat? with | some n => if n < 16 then 4096 else n | none => 4096

/-- obs_P of a reader entry point on the given bytes: the model(s) against the implementation -/
def tieModel (fmt bufsize : String) (bytes : List UInt8) (decoded outcome : String) (recs : List ObsRec) : Option String :=
  match fmt with
  | "newick" =>
    match tieOut (Readers.newickOne bytes) outcome recs with
    | some d => some d
    | none =>
      -- the model of C01 must agree with the code as well
      match c01Newick bytes with
      | some o => (tieOut o outcome recs).map ("C01 " ++ ·)
      | none => none
  | "multi" =>
    tieOut (Readers.readMultiTrees { chunks := Readers.chunksOf (bufSize' bufsize) bytes } 0) outcome recs
  | "nexus" => tieOut (Readers.readTreeReader { bytes := bytes } 1) outcome recs
  | "nexusm" => tieOut (Readers.readMultiTrees { bytes := bytes } 1) outcome recs
  -- the `default` branches: the harness calls ReadTreeReader(r, 7) and ReadMultiTrees(r, -1)
  | "bad" => tieOut (Readers.readTreeReader { bytes := bytes } 7) outcome recs
  | "badm" => tieOut (Readers.readMultiTrees { bytes := bytes } (-1)) outcome recs
  | _ => tieDecoded fmt decoded outcome recs

/-- the end of a handler: PASS, TIE, or — for a case the model could not be applied to — PASS with the tag
    `untied-nonfinite`, resp. BAD when the reason is not a non-finite number -/
def conclude (tags : List String) (tie : Option String) (extra : List String := []) : Verdict :=
  match tie with
  | none => ⟨.pass, tags ++ extra, ""⟩
  | some d =>
    if d.startsWith "UNTIED-NONFINITE" then ⟨.pass, tags ++ ["untied-nonfinite"], ""⟩
    else if d.startsWith "UNTIED" then bad d
    else ⟨.tie, tags, d⟩

/-- format code and single / stream entry point of a harness format name -/
def fmtCode (fmt : String) : Int × Bool :=
  match fmt with
  | "newick" => (0, false) | "multi" => (0, true) | "nexus" => (1, false) | "nexusm" => (1, true)
  | "phyloxml" => (2, false) | "phyloxmlm" => (2, true) | "nextstrain" => (3, false) | "nextstrainm" => (3, true)
  | _ => (7, false)

/-- the `Input` of the entry-point models for the bytes a reader delivers; `none`: the decoded field cannot be read -/
def mkInput (fmt decoded : String) : Option (List UInt8 → Readers.Input) :=
  match fmt with
  | "phyloxml" | "phyloxmlm" => (parsePx decoded).map fun px b => { bytes := b, px := px }
  | "nextstrain" | "nextstrainm" => (parseNsDoc decoded).map fun ns b => { bytes := b, ns := ns }
  | _ => some fun b => { bytes := b, chunks := Readers.chunksOf 4096 b }

/-- the file-level model (Model/C02Files.lean) for a harness file kind -/
def fileIn (kind : String) (bytes : List UInt8) (gzOpens : Bool) : Files.FileIn :=
  let isGz := ["gz", "gztrunc", "gzflip", "notgz", "emptygz", "onebytegz", "dirgz", "missinggz"].contains kind
  { name := if isGz then "in.txt.gz" else "in.txt",
    entry := if kind.startsWith "missing" then .missing else if kind.startsWith "dir" then .dir else .file bytes,
    gz := if gzOpens then some bytes else none }

def bufSize (s : String) : Nat := match s.toNat? with | some n => if n < 16 then 4096 else n | none => 4096

def handle (op : String) (f : List String) : Verdict :=
  match op, f with
  | "scale", [kind, outcome, nsS, bsS, usS] =>
    match parseNatList nsS, parseNatList bsS, parseNatList usS with
    | some _ns, some bs, some us =>
      -- growth between the two largest sizes tried: the time must not grow more than three times faster than the
      -- number of bytes (a quadratic reader: ten times the bytes, a hundred times the time); the smaller of the
      -- two must have taken at least 5 ms, so that start-up noise does not decide
      let pts := (bs.zip us).filter fun p => p.1 > 0
      let superlinear : Bool :=
        match pts.reverse with
        | (b1, t1) :: (b0, t0) :: _ => t0 ≥ 5000 && b1 > b0 && t1 * b0 > 3 * t0 * b1
        | _ => false
      let tags := ["scale", "scale-" ++ kind, "nontrivial"] ++ tagIf superlinear ("superlinear-" ++ kind) ++
        tagIf (!superlinear) "scale-linear"
      -- "terminates" is all the property asks: a super-linear reader is reported (tag), a reader that does not
      -- come back within the watchdog is a violation like any other timeout
      if outcomeAllowed outcome then ⟨.pass, tags, if superlinear then "time per byte grows with the size: " ++ usS else ""⟩
      else ⟨.oracle, tags, "scaling probe " ++ kind ++ " at sizes " ++ nsS ++ ": " ++ short outcome⟩
    | _, _, _ => bad "C02.scale fields"
  | "readln", [bufsize, input, lines] =>
    match unescapeToBytes input with
    | some bytes =>
      let m := Readers.readLines (Readers.chunksOf (bufSize bufsize) bytes)
      let tags := ["readln"] ++ tagIf (m.length ≥ 2) "nontrivial"
      -- compared as escaped byte strings (the lines may hold any byte)
      let enc (l : List UInt8) : String := String.join (l.map fun b =>
        let c := Char.ofNat b.toNat
        if b < 128 && rawChar c then c.toString else "%" ++ (hexDigit (b.toNat / 16)).toString ++ (hexDigit (b.toNat % 16)).toString)
      let mine := joinTerm "," (m.map enc)
      if mine == lines then ⟨.pass, tags, ""⟩ else ⟨.tie, tags, "model Readln: " ++ short mine⟩
    | none => bad "C02.readln input"
  | "utf8", [input, runes] =>
    match unescapeToBytes input, parseNatList runes with
    | some bytes, some rs =>
      let m := (decodeLossy bytes).map (·.toNat)
      let tags := ["utf8"] ++ tagIf (m.any (· == 0xFFFD)) "nontrivial"
      if m == rs then ⟨.pass, tags, ""⟩ else ⟨.tie, tags, "model decodeLossy: " ++ toString m⟩
    | _, _ => bad "C02.utf8 fields"
  | "lit", [lit, ir, fr] =>
    match unescape lit with
    | none => ⟨.pass, ["lit", "skip-invalid-utf8"], ""⟩
    | some s =>
      let mi := match parseInt s.toList with | none => "E" | some v => toString v
      let mf := match parseFloat s.toList with
        | none => "E"
        | some (.fin q) => showRat q
        | some .nonfinite => "nonfinite"
      let frc := if fr == "nan" || fr == "+inf" || fr == "-inf" then "nonfinite" else fr
      let tags := ["lit"] ++ tagIf (fr != "E") "nontrivial" ++ tagIf (ir != "E") "int"
      -- the codec of C01 (its own transcription of strconv) on the same literal
      let gf := if !(Gotree.Newick.goCodec.isFloat s.toList) then "E" else
        match Gotree.Newick.goCodec.parse s.toList with | some q => showRat q | none => "nonfinite"
      if mi != ir then ⟨.tie, tags, "model ParseInt: " ++ mi⟩
      else if mf != frc then ⟨.tie, tags, "model ParseFloat: " ++ short mf⟩
      else if gf != frc then ⟨.tie, tags, "C01 goCodec: " ++ short gf⟩
      else ⟨.pass, tags, ""⟩
  | "read", [fmt, bufsize, input, outcome, recsS, decoded] =>
    match unescapeToBytes input, parseRecs recsS with
    | some bytes, some recs =>
      let trees := recs.filter (·.isTree)
      let tags := [fmt, "out-" ++ (if outcomeAllowed outcome then outcome else "crash")] ++
        tagIf (fmt == "bad" || fmt == "badm") "unsupported-format" ++
        tagIf (trees.length ≥ 1) "delivered" ++ tagIf (trees.length ≥ 2) "delivered-many" ++
        tagIf (recs.any (! ·.isTree)) "record-err" ++
        tagIf (trees.any (·.use == "err")) "use-err" ++
        tagIf (decoded == "E") "decoder-err" ++
        (let mi := modelInfo fmt bufsize bytes
         mi.1 ++ tagIf (pastFirst fmt bufsize bytes decoded) "nontrivial")
      if !(readOK outcome recs) then
        ⟨.oracle, tags, "reader outcome " ++ short outcome ++ " / use " ++ short (",".intercalate (recs.map (·.use)))⟩
      else
        -- tie of the use model: class of ReinitIndexes on every delivered tree
        let bad := trees.filter fun r =>
          match T.undump r.dump with
          | some t => (reinit t).str != r.use
          | none => false   -- non-finite numbers: shape not comparable
        match bad with
        | r :: _ => ⟨.tie, tags, "model reinit differs on " ++ short r.dump⟩
        | [] =>
          let tie : Option String := tieModel fmt bufsize bytes decoded outcome recs
          match tie with
          | none =>
            -- fidelity on the small inputs (a second run of the model): exact equality of the dumps
            let fid : List String :=
              if bytes.length > 300 then [] else
              let m : Option Readers.ROut := match fmt with
                | "newick" => some (Readers.newickOne bytes)
                | "multi" => some (Readers.multiNewick (Readers.chunksOf (bufSize' bufsize) bytes))
                | "nexus" => some (Readers.nexusOne bytes)
                | "nexusm" => some (Readers.nexusMulti bytes)
                | _ => none
              match m with
              | some o => if exactOut o recs then ["fidelity-exact"] else ["fidelity-differs"]
              | none => []
            ⟨.pass, tags ++ fid, ""⟩
          | some d => conclude tags (some d)
    | _, _ => bad "C02.read fields"
  | "wb", [fmt, _input, outcome, itemsS] =>
    -- written back: `class:dump:newick:nexus:phyloxml|` per delivered tree.  Oracle: the writers returned.
    -- The texts are compared with the writer models as FIDELITY (tags; they decide nothing).
    let items := (splitTerm "|" itemsS).map (·.splitOn ":")
    let crashedW := items.filter fun it => match it with | c :: _ => c.startsWith "panic" | [] => false
    let cmp : List (List String) := items.map fun it =>
      match it with
      | [_, dump, nw, nx, px] =>
        match T.undump dump, unescape nw, unescape nx, unescape px with
        | some t, some nw, some nx, some px =>
          (if Writers.newickText t == nw then ["wb-newick-exact"] else ["wb-newick-differs"]) ++
          (if Writers.nexusText t == nx then ["wb-nexus-exact"] else ["wb-nexus-differs"]) ++
          (if Writers.phyloxmlText t == px then ["wb-phyloxml-exact"] else ["wb-phyloxml-differs"]) ++
          tagIf (Writers.wellNested (Writers.phylogenyLines t) 0) "wb-well-nested" ++
          tagIf (t.kids.length ≤ 1) "wb-degenerate-root"
        | _, _, _, _ => ["wb-not-comparable"]
      | _ => ["wb-bad-item"]
    let ftags := (cmp.flatten).eraseDups
    let tags := ["wb", "wb-" ++ fmt] ++ tagIf (!items.isEmpty) "nontrivial" ++ ftags
    if !(outcomeAllowed outcome) then ⟨.oracle, tags, "reader outcome " ++ short outcome⟩
    else match crashedW with
      | it :: _ => ⟨.oracle, tags, "writing a delivered tree back crashed: " ++ short (":".intercalate (it.take 2))⟩
      | [] =>
        if ftags.contains "wb-bad-item" then bad "C02.wb item" else
        let firstDiff := (items.zip cmp).find? fun (_, c) => c.any (·.endsWith "-differs")
        ⟨.pass, tags, match firstDiff with | some (it, c) => "fidelity: " ++ " ".intercalate (c.filter (·.endsWith "-differs")) ++ " on " ++ short ((it.drop 1).headD "") | none => ""⟩
  | "cli", [flag, input, outcome, _nl, transport, decoded] =>
    match unescapeToBytes input with
    | some bytes =>
      let fmt := Readers.formatOfFlag flag
      let tags := ["cli", "cli-" ++ fmt, "cli-via-" ++ transport] ++ tagIf (fmt != flag) "cli-format-defaulted" ++
        tagIf (pastFirst (if fmt == "newick" then "multi" else fmt) "0" bytes decoded) "nontrivial"
      if !(outcomeAllowed outcome) then ⟨.oracle, tags, "gotree reformat newick --format " ++ fmt ++ ": " ++ short outcome⟩
      else
        -- the command stops with an error at the first record that carries one
        let cls (o : Readers.ROut) : String :=
          match o with
          | .ok rs => if rs.all (·.tree.isSome) then "ok" else "err"
          | .err .. => "err"
          | .panic .. => "panic"
          | .hang => "timeout"
        let m : Option String :=
          match fmt with
          | "newick" => some (cls (Readers.multiNewick (Readers.chunksOf 4096 bytes)))
          | "nexus" => some (cls (Readers.nexusMulti bytes))
          | "phyloxml" =>
            (match parsePx decoded with
             | some none => some "err"
             | some (some ps) => some (cls (Readers.phyloxmlMulti ps))
             | none => some (untiedWhy decoded))
          | "nextstrain" =>
            (match parseNsDoc decoded with
             | some none => some "err"
             | some (some (v, n)) => some (cls (Readers.nextstrainMulti v n))
             | none => some (untiedWhy decoded))
          | _ => some "UNTIED-BAD unknown format"
        match m with
        | some c =>
          if c.startsWith "UNTIED" then conclude tags (some c)
          else if c == outcome then ⟨.pass, tags, ""⟩ else ⟨.tie, tags, "model: " ++ c⟩
        | none => ⟨.pass, tags, ""⟩
    | none => bad "C02.cli input"
  | "clifile", [flag, kind, input, outcome, decoded] =>
    match unescapeToBytes input with
    | some bytes =>
      let fmt := Readers.formatOfFlag flag
      let f := fileIn kind bytes false      -- the kinds with a .gz name used here are never gzip data
      let tags := ["cli", "clifile", "clifile-" ++ kind, "cli-" ++ fmt] ++
        tagIf (match Files.getReader f with | .ok _ => true | _ => false) "nontrivial"
      if !(outcomeAllowed outcome) then ⟨.oracle, tags, "gotree reformat newick --format " ++ fmt ++ " -i <" ++ kind ++ ">: " ++ short outcome⟩
      else
        match mkInput (if fmt == "newick" then "multi" else fmt) decoded with
        | none => conclude tags (some (untiedWhy decoded))
        | some mk =>
          -- the command stops with an error when GetReader fails or at the first record that carries an error
          let c : String := match Files.readTrees f mk (Readers.formatCode flag) with
            | .ok rs => if rs.all (·.tree.isSome) then "ok" else "err"
            | .err .. => "err" | .panic .. => "panic" | .hang => "timeout"
          if c == outcome then ⟨.pass, tags, ""⟩ else ⟨.tie, tags, "model: " ++ c⟩
    | none => bad "C02.clifile input"
  | "clicmd", [cmd, fmt, _input, outcome] =>
    let tags := ["cli", "clicmd", "cli-" ++ fmt, "cliout-" ++ (if outcomeAllowed outcome then outcome else "crash")] ++
      tagIf (outcome == "ok") "nontrivial"
    if outcomeAllowed outcome then ⟨.pass, tags, ""⟩
    else ⟨.oracle, tags, "gotree " ++ (unescape cmd).getD cmd ++ " --format " ++ fmt ++ " on a malformed / degenerate input: " ++ short outcome⟩
  | "file", [mode, fmt, _input, outcome, recsS, decoded, openok, effective] =>
    match unescapeToBytes effective, parseRecs recsS with
    | some bytes, some recs =>
      let trees := recs.filter (·.isTree)
      let tags := ["file", "file-" ++ mode, "file-" ++ fmt, "out-" ++ (if outcomeAllowed outcome then outcome else "crash")] ++
        tagIf (openok == "open" && pastFirst fmt "0" bytes decoded) "nontrivial" ++
        tagIf (trees.length ≥ 1) "delivered" ++ tagIf (openok == "noopen") "file-noopen"
      if !(readOK outcome recs) then
        ⟨.oracle, tags, "file-level reader (" ++ mode ++ "): outcome " ++ short outcome ++ " / use " ++ short (",".intercalate (recs.map (·.use)))⟩
      else
        -- GetReader + ReadTree / ReadMultiTrees through the file-level model: the name (suffix .gz or not), what it
        -- leads to (missing, directory, file), what gzip makes of the content (`noopen`: the header is refused)
        match mkInput fmt decoded with
        | none => conclude tags (some (untiedWhy decoded))
        | some mk =>
          let f := fileIn mode bytes (openok == "open")
          let (code, stream) := fmtCode fmt
          let m := if stream then Files.readTrees f mk code else Files.readTree f mk code
          conclude (tags ++ tagIf (match Files.getReader f with | .err _ => true | _ => false) "getreader-err") (tieOut m outcome recs)
    | _, _ => bad "C02.file fields"
  | "dec", [fmt, input, outcome, recsS, decodedGo, expected, kind] =>
    match unescapeToBytes input, parseRecs recsS with
    | some _, some recs =>
      let trees := recs.filter (·.isTree)
      let tags := ["dec", "dec-" ++ fmt, "out-" ++ (if outcomeAllowed outcome then outcome else "crash")] ++
        tagIf (decodedGo != "E") "nontrivial" ++
        tagIf (expected == "E") "dec-corrupted" ++ tagIf (trees.length ≥ 1) "delivered" ++ ["deckind-" ++ kind]
      if !(readOK outcome recs) then
        ⟨.oracle, tags, "reader outcome " ++ short outcome ++ " / use " ++ short (",".intercalate (recs.map (·.use)))⟩
      else if decodedGo != expected then
        ⟨.tie, tags, "the decoder does not give the generator's structure: " ++ short decodedGo⟩
      else
        conclude tags (tieDecoded fmt expected outcome recs)
    | _, _ => bad "C02.dec fields"
  | "nestx", [fmt, depthS, outcome, use] =>
    let tags := ["nest", "nest-" ++ fmt, "nontrivial"]
    if outcomeAllowed outcome && (use == "" || useAllowed use) then ⟨.pass, tags ++ ["out-" ++ outcome], ""⟩
    else ⟨.oracle, tags, "nesting probe " ++ fmt ++ " depth " ++ depthS ++ ": " ++ short outcome ++ " " ++ short use⟩
  | "nest", [depthS, outcome, use] =>
    match depthS.toNat? with
    | some depth =>
      let tags := ["nest", "nontrivial"] ++ tagIf (depth ≥ 1000000) "deep"
      if outcomeAllowed outcome && useAllowed use then ⟨.pass, tags, ""⟩
      else if isF7 depth outcome then
        ⟨.oracle, tags, "class=F7-deep-nesting-stack-overflow depth " ++ depthS ++ " " ++ short outcome⟩
      else ⟨.oracle, tags, "nesting probe depth " ++ depthS ++ ": " ++ short outcome ++ " " ++ short use⟩
    | none => bad "C02.nest depth"
  | _, _ => bad ("C02: unknown op " ++ op)

end Gotree.Driver.C02
