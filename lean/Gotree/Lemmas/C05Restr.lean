/-
  C05 — outgroup removed: the split set of what is left is the restriction of the split set.
-/
import Gotree.Lemmas.C05Half

namespace Gotree.C05
open Gotree

/-- number of taxa of `all` on a side -/
def sz (all A : List String) : Nat := (A.filter all.contains).length

theorem lightSize_eq (all A : List String) : lightSize all A = min (sz all A) (all.length - sz all A) := rfl

theorem length_filter_mem {all B : List String} (hn : all.Nodup) (hB : B.Nodup) (hsub : ∀ x ∈ B, x ∈ all) :
    (all.filter B.contains).length = B.length := by
  apply List.Perm.length_eq
  apply (List.perm_ext_iff_of_nodup (hn.filter _) hB).2
  intro x
  simp only [List.mem_filter, List.contains_eq_mem, decide_eq_true_eq]
  exact ⟨fun h => h.2, fun h => ⟨hsub x h, h⟩⟩

theorem length_filter_compl (all : List String) (p : String → Bool) :
    (all.filter (fun x => !p x)).length + (all.filter p).length = all.length := by
  induction all with
  | nil => rfl
  | cons a l ih => by_cases h : p a <;> simp [List.filter_cons, h] <;> omega

/-- the canonical side has the size of the side or of its complement -/
theorem sz_canonSide {all A : List String} (hn : all.Nodup) (hA : A.Nodup) :
    sz all (canonSide all A) = sz all A ∨ sz all (canonSide all A) = all.length - sz all A := by
  have hfn : (A.filter all.contains).Nodup := hA.filter _
  have hsub : ∀ x ∈ sortS (A.filter all.contains), x ∈ all := by
    intro x hx; have := (List.mem_filter.1 (mem_sortS.1 hx)).2; simpa using this
  have h1 : sz all (sortS (A.filter all.contains)) = sz all A := by
    unfold sz
    rw [List.filter_eq_self.2 (fun x hx => by simpa using hsub x hx), (sortS_perm _).length_eq]
  have h2 : sz all (sortS (complS all (sortS (A.filter all.contains)))) = all.length - sz all A := by
    unfold sz
    have hall : ∀ x ∈ sortS (complS all (sortS (A.filter all.contains))), all.contains x = true := by
      intro x hx
      have := mem_sortS.1 hx
      simp only [complS, List.mem_filter] at this
      simpa using this.1
    rw [List.filter_eq_self.2 hall, (sortS_perm _).length_eq]
    have hc := length_filter_compl all (sortS (A.filter all.contains)).contains
    have hm := length_filter_mem hn ((sortS_perm _).nodup_iff.2 hfn) hsub
    rw [(sortS_perm _).length_eq] at hm
    simp only [complS]
    omega
  unfold canonSide
  cases minS all with
  | none => exact Or.inl h1
  | some m =>
    simp only
    split
    · exact Or.inr h2
    · exact Or.inl h1

theorem lightSize_canonSide {all A : List String} (hn : all.Nodup) (hA : A.Nodup) :
    lightSize all (canonSide all A) = lightSize all A := by
  have hle : sz all A ≤ all.length := by
    unfold sz
    have hfn : (A.filter all.contains).Nodup := hA.filter _
    exact hfn.length_le_of_subset (fun x hx => by simpa using (List.mem_filter.1 hx).2)
  rw [lightSize_eq, lightSize_eq]
  rcases sz_canonSide hn hA with h | h <;> rw [h] <;> omega


theorem sortS_nodup {l : List String} (h : l.Nodup) : (sortS l).Nodup := (sortS_perm l).nodup_iff.2 h

theorem canonSide_nodup {all A : List String} (hn : all.Nodup) (hA : A.Nodup) : (canonSide all A).Nodup := by
  unfold canonSide
  cases minS all with
  | none => exact sortS_nodup (hA.filter _)
  | some m =>
    simp only
    split
    · exact sortS_nodup (hn.filter _)
    · exact sortS_nodup (hA.filter _)

/-- membership in a canonical side: the side itself or its complement -/
theorem mem_canonSide_cases (all A : List String) :
    (∀ x, x ∈ canonSide all A ↔ x ∈ A ∧ x ∈ all) ∨ (∀ x, x ∈ canonSide all A ↔ x ∈ all ∧ x ∉ A) := by
  cases hm : minS all with
  | none =>
    left; intro x
    unfold canonSide; simp [hm, mem_sortS, List.mem_filter]
  | some m =>
    by_cases h : m ∈ A ∧ m ∈ all
    · right; intro x; exact mem_canonSide_compl hm h x
    · left; intro x; exact mem_canonSide_same hm h x

/-- **restriction of a side that lies inside the kept taxa** -/
theorem restrict_inside {all K below : List String} (hK : K.Nodup) (hKs : ∀ x ∈ K, x ∈ all)
    (hb : below.Nodup) (hbs : ∀ x ∈ below, x ∈ K) (hn : all.Nodup) :
    canonSide K ((canonSide all below).filter K.contains) = canonSide K below := by
  have hσn : ((canonSide all below).filter K.contains).Nodup := (canonSide_nodup hn hb).filter _
  rcases mem_canonSide_cases all below with h | h
  · apply canonSide_perm_side
    apply (List.perm_ext_iff_of_nodup hσn hb).2
    intro x
    simp only [List.mem_filter, List.contains_eq_mem, decide_eq_true_eq, h]
    exact ⟨fun hx => hx.1.1, fun hx => ⟨⟨hx, hKs x (hbs x hx)⟩, hbs x hx⟩⟩
  · apply canonSide_compl hK
    have hnd : ((canonSide all below).filter K.contains ++ below).Nodup := by
      rw [List.nodup_append]
      refine ⟨hσn, hb, ?_⟩
      intro a ha b hb' hab
      subst hab
      simp only [List.mem_filter, h] at ha
      exact ha.1.2 hb'
    apply (List.perm_ext_iff_of_nodup hnd hK).2
    intro x
    simp only [List.mem_append, List.mem_filter, List.contains_eq_mem, decide_eq_true_eq, h]
    constructor
    · rintro (hx | hx)
      · exact hx.2
      · exact hbs x hx
    · intro hx
      by_cases hxb : x ∈ below
      · exact Or.inr hxb
      · exact Or.inl ⟨⟨hKs x hx, hxb⟩, hx⟩

/-- a side with all of the kept taxa, or none of them, restricts to a trivial split -/
theorem restrict_trivial {all K below : List String} (hK : K.Nodup) (hb : below.Nodup) (hn : all.Nodup)
    (hKs : ∀ x ∈ K, x ∈ all)
    (h : (∀ x ∈ K, x ∈ below) ∨ (∀ x ∈ K, x ∉ below)) :
    lightSize K (canonSide K ((canonSide all below).filter K.contains)) = 0 := by
  have hσn : ((canonSide all below).filter K.contains).Nodup := (canonSide_nodup hn hb).filter _
  rw [lightSize_canonSide hK hσn, lightSize_eq]
  -- the restricted side is everything or nothing
  have hall_or_none : (∀ x ∈ K, x ∈ (canonSide all below).filter K.contains) ∨
      (∀ x ∈ K, x ∉ (canonSide all below).filter K.contains) := by
    rcases mem_canonSide_cases all below with hm | hm <;> rcases h with h | h
    · left; intro x hx; simp only [List.mem_filter, hm]; exact ⟨⟨h x hx, hKs x hx⟩, by simpa using hx⟩
    · right; intro x hx hx'; simp only [List.mem_filter, hm] at hx'; exact h x hx hx'.1.1
    · right; intro x hx hx'; simp only [List.mem_filter, hm] at hx'; exact hx'.1.2 (h x hx)
    · left; intro x hx; simp only [List.mem_filter, hm]; exact ⟨⟨hKs x hx, h x hx⟩, by simpa using hx⟩
  have hsub : ∀ x ∈ (canonSide all below).filter K.contains, x ∈ K := by
    intro x hx; simpa using (List.mem_filter.1 hx).2
  have hszeq : sz K ((canonSide all below).filter K.contains) = ((canonSide all below).filter K.contains).length := by
    unfold sz
    rw [List.filter_eq_self.2 (fun x hx => by simpa using hsub x hx)]
  rw [hszeq]
  rcases hall_or_none with h1 | h1
  · have : ((canonSide all below).filter K.contains).length = K.length := by
      apply List.Perm.length_eq
      exact (List.perm_ext_iff_of_nodup hσn hK).2 (fun x => ⟨hsub x, h1 x⟩)
    omega
  · have : (canonSide all below).filter K.contains = [] := by
      apply List.eq_nil_iff_forall_not_mem.2
      intro x hx; exact h1 x (hsub x hx) hx
    rw [this]; simp



/- the leaf lists of the entries are duplicate-free when the leaves are -/
mutual
theorem below_nodup : ∀ (t : T), t.leaves.Nodup → ∀ s ∈ t.splitsBelow, s.below.Nodup
  | .node d p [], _, s, hs => by simp [T.splitsBelow, splitsL] at hs
  | .node d p (k :: ks), hn, s, hs => by
    simp only [T.splitsBelow] at hs
    simp only [T.leaves] at hn
    exact below_nodupL (k :: ks) hn s hs
theorem below_nodupL : ∀ (k : Kids), (leavesL k).Nodup → ∀ s ∈ splitsL k, s.below.Nodup
  | [], _, s, hs => by simp [splitsL] at hs
  | (e, t) :: r, hn, s, hs => by
    simp only [leavesL, List.nodup_append] at hn
    simp only [splitsL, List.mem_cons, List.mem_append] at hs
    rcases hs with rfl | hs | hs
    · exact hn.1
    · exact below_nodup t hn.1 s hs
    · exact below_nodupL r hn.2.1 s hs
end

theorem sz_of_subset {all A : List String} (h : ∀ x ∈ A, x ∈ all) : sz all A = A.length := by
  unfold sz; rw [List.filter_eq_self.2 (fun x hx => by simpa using h x hx)]

/-- **The non-trivial sides of what is left after removing the outgroup are the restrictions of
    the non-trivial sides of the tree.** -/
theorem restrict_mem {t tn : T} (ST : Same t tn) (hu : t.tipNames.Nodup) (r : Nat) (e : EdgeD) (c : T)
    (hk : tn.kids[r]? = some (e, c)) (hc2 : 2 ≤ c.kids.length) (K : List String) (hKp : K.Perm c.leaves)
    (a : List String) :
    a ∈ (T.node c.d 0 c.kids).usplits.map (·.side) ↔
    a ∈ ((t.usplits.map (·.side)).map (fun σ => canonSide K (σ.filter K.contains))).filter
      (fun a => decide (2 ≤ lightSize K a)) := by
  have hun : tn.tipNames.Nodup := ST.tips.nodup_iff.2 hu
  obtain ⟨q1, _⟩ := moveRoot_tipNames_split tn r e c hk
  have hnd2 : (c.leaves ++ (oldRoot tn r).leaves).Nodup := q1.nodup_iff.2 hun
  have hcn : c.leaves.Nodup := (List.nodup_append.1 hnd2).1
  have hon : (oldRoot tn r).leaves.Nodup := (List.nodup_append.1 hnd2).2.1
  have hdisj : ∀ x, x ∈ c.leaves → x ∉ (oldRoot tn r).leaves :=
    fun x h1 h2 => (List.nodup_append.1 hnd2).2.2 x h1 x h2 rfl
  have hKn : K.Nodup := hKp.nodup_iff.2 hcn
  have hKall : ∀ x ∈ K, x ∈ t.tipNames := fun x hx =>
    ST.tips.mem_iff.1 (q1.mem_iff.1 (List.mem_append_left _ (hKp.mem_iff.1 hx)))
  have hckids : c.kids ≠ [] := by intro h0; rw [h0] at hc2; simp at hc2
  have hcl : c.leaves = leavesL c.kids := by obtain ⟨dc, pc, kc⟩ := c; exact leaves_of_kids hckids
  have hutips : (T.node c.d 0 c.kids).tipNames = c.leaves := by
    unfold T.tipNames
    have : (c.kids.length == 1) = false := by simp; omega
    simp [this, hcl]
  have husplits : (T.node c.d 0 c.kids).splits = c.splitsBelow := by
    obtain ⟨dc, pc, kc⟩ := c; simp [T.splits, T.splitsBelow_node]
  have hKu : K.Perm (T.node c.d 0 c.kids).tipNames := by rw [hutips]; exact hKp
  -- entries below the kept side
  have hBin : ∀ s ∈ c.splitsBelow, s.below.Nodup ∧ (∀ x ∈ s.below, x ∈ K) := fun s hs =>
    ⟨below_nodup c hcn s hs, fun x hx => hKp.mem_iff.2 (C14.below_sub c s hs x hx)⟩
  have hlen_le : K.length ≤ t.tipNames.length := hKn.length_le_of_subset hKall
  -- left to right and back
  have hL : a ∈ (T.node c.d 0 c.kids).usplits.map (·.side) ↔
      ∃ s ∈ c.splitsBelow, canonSide K s.below = a ∧ 2 ≤ lightSize K a := by
    unfold T.usplits
    simp only [List.mem_map, List.mem_filter, decide_eq_true_eq]
    constructor
    · rintro ⟨x, ⟨hx, hl⟩, rfl⟩
      obtain ⟨s, hs, hsx⟩ := (mem_usplitsAll_sides _ _).1 (List.mem_map_of_mem (f := (·.side)) hx)
      rw [husplits] at hs
      refine ⟨s, hs, ?_, ?_⟩
      · rw [canonSide_perm_all hKu]; exact hsx
      · rw [lightSize_perm_all hKu]; exact hl
    · rintro ⟨s, hs, rfl, hl⟩
      have : canonSide K s.below ∈ (T.node c.d 0 c.kids).usplitsAll.map (·.side) := by
        rw [mem_usplitsAll_sides]
        exact ⟨s, by rw [husplits]; exact hs, by rw [canonSide_perm_all hKu]⟩
      obtain ⟨x, hx, hxs⟩ := List.mem_map.1 this
      exact ⟨x, ⟨hx, by rw [hxs, ← lightSize_perm_all hKu]; exact hl⟩, hxs⟩
  rw [hL]
  simp only [List.mem_filter, List.mem_map, decide_eq_true_eq]
  constructor
  · rintro ⟨s, hs, rfl, hl⟩
    obtain ⟨hbn, hbK⟩ := hBin s hs
    have hball : ∀ x ∈ s.below, x ∈ t.tipNames := fun x hx => hKall x (hbK x hx)
    refine ⟨⟨canonSide t.tipNames s.below, ?_, restrict_inside hKn hKall hbn hbK hu⟩, hl⟩
    -- the side is a non-trivial side of the tree
    have hmem : canonSide t.tipNames s.below ∈ t.usplitsAll.map (·.side) := by
      rw [← ST.sides, mem_usplitsAll_sides]
      refine ⟨s, (splits_decomp tn r e c hk).mem_iff.2 (by simp [hs]), ?_⟩
      exact canonSide_perm_all ST.tips _
    obtain ⟨x, hx, hxs⟩ := List.mem_map.1 hmem
    refine ⟨x, ?_, hxs⟩
    unfold T.usplits
    simp only [List.mem_filter, decide_eq_true_eq]
    refine ⟨hx, ?_⟩
    rw [hxs, lightSize_canonSide hu hbn, lightSize_eq, sz_of_subset hball]
    rw [lightSize_canonSide hKn hbn, lightSize_eq, sz_of_subset hbK] at hl
    omega
  · rintro ⟨⟨σ, ⟨x, hx, rfl⟩, rfl⟩, hl⟩
    unfold T.usplits at hx
    simp only [List.mem_filter, decide_eq_true_eq] at hx
    have hmem : x.side ∈ tn.usplitsAll.map (·.side) := by
      rw [ST.sides]; exact List.mem_map_of_mem (f := (·.side)) hx.1
    obtain ⟨s, hs, hsx⟩ := (mem_usplitsAll_sides _ _).1 hmem
    rw [canonSide_perm_all ST.tips] at hsx
    rw [← hsx] at hl ⊢
    rcases List.mem_cons.1 ((splits_decomp tn r e c hk).mem_iff.1 hs) with rfl | hs'
    · -- the root branch itself: everything that is kept is below it
      exfalso
      have := restrict_trivial (all := t.tipNames) (K := K) (below := c.leaves) hKn hcn hu hKall
        (Or.inl (fun x hx' => hKp.mem_iff.1 hx'))
      simp only at hl
      omega
    · rcases List.mem_append.1 hs' with hs' | hs'
      · -- a branch on the removed side
        exfalso
        have hbn := below_nodup (oldRoot tn r) hon s hs'
        have := restrict_trivial (all := t.tipNames) (K := K) (below := s.below) hKn hbn hu hKall
          (Or.inr (fun x hx' hxb => hdisj x (hKp.mem_iff.1 hx') (C14.below_sub _ s hs' x hxb)))
        omega
      · obtain ⟨hbn, hbK⟩ := hBin s hs'
        refine ⟨s, hs', ?_, ?_⟩
        · exact (restrict_inside hKn hKall hbn hbK hu).symm
        · exact hl



theorem nodup_eraseDups_gen {α : Type} [BEq α] [LawfulBEq α] : ∀ (n : Nat) (l : List α), l.length ≤ n → l.eraseDups.Nodup
  | 0, l, h => by
    have : l = [] := List.length_eq_zero_iff.1 (by omega)
    subst this; simp
  | n + 1, [], _ => by simp
  | n + 1, a :: as, h => by
    rw [List.eraseDups_cons]
    have hlen : (as.filter fun b => !b == a).length ≤ n := by
      have := List.length_filter_le (fun b => !b == a) as
      simp at h; omega
    refine List.nodup_cons.2 ⟨?_, nodup_eraseDups_gen n _ hlen⟩
    intro hm
    rw [List.mem_eraseDups] at hm
    have := (List.mem_filter.1 hm).2
    simp at this

/-- two lists of sides with the same elements have the same sorted duplicate-free presentation,
    provided the sort key distinguishes the sides -/
theorem canon_eq {X₁ X₂ : List (List String)} (h : ∀ a, a ∈ X₁ ↔ a ∈ X₂)
    (hk : ∀ a ∈ X₁, ∀ b ∈ X₁, toString a = toString b → a = b) :
    (X₁.eraseDups).mergeSort (fun a b => decide (toString a ≤ toString b)) =
    (X₂.eraseDups).mergeSort (fun a b => decide (toString a ≤ toString b)) := by
  have n1 := nodup_eraseDups_gen X₁.length X₁ (Nat.le_refl _)
  have n2 := nodup_eraseDups_gen X₂.length X₂ (Nat.le_refl _)
  have hp : (X₁.eraseDups).Perm (X₂.eraseDups) :=
    (List.perm_ext_iff_of_nodup n1 n2).2 (fun a => by rw [List.mem_eraseDups, List.mem_eraseDups]; exact h a)
  have srt : ∀ l : List (List String),
      (l.mergeSort (fun a b => decide (toString a ≤ toString b))).Pairwise (fun a b => toString a ≤ toString b) := by
    intro l
    have := List.pairwise_mergeSort (le := fun a b : List String => decide (toString a ≤ toString b))
      (by intro a b c; simpa using String.le_trans)
      (by intro a b; simpa using String.le_total (toString a) (toString b)) l
    simpa using this
  refine List.Perm.eq_of_pairwise ?_ (srt _) (srt _)
    ((List.mergeSort_perm _ _).trans (hp.trans (List.mergeSort_perm _ _).symm))
  intro a b ha hb h1 h2
  have ha' : a ∈ X₁ := List.mem_eraseDups.1 ((List.mergeSort_perm _ _).mem_iff.1 ha)
  have hb' : b ∈ X₁ := (h b).2 (List.mem_eraseDups.1 ((List.mergeSort_perm _ _).mem_iff.1 hb))
  exact hk a ha' b hb' (String.le_antisymm h1 h2)



/-- **Outgroup removed**: what is left is the other side of the root branch, with the tips that
    are not in the outgroup and the distances they had. -/
theorem outgroup_remove_full (t t' : T) (strict : Bool) (S : List String)
    (h : rerootOutGroup true strict S t = .ok t') (hu : t.tipNames.Nodup) (hg : LensGood t.splits)
    (hs : ∀ s ∈ t.splits, GoodL s.e.sup) (hside : strict = true ∨ isSide t S = true) :
    t'.tipNames.Perm (t.tipNames.filter (fun x => !(outTips t S).contains x)) ∧
    (∀ a b, a ∈ t'.tipNames → b ∈ t'.tipNames → t'.dist a b = t.dist a b) ∧
    (∀ K : List String, K.Perm t'.tipNames → ∀ a, a ∈ t'.usplits.map (·.side) ↔
      a ∈ ((t.usplits.map (·.side)).map (fun σ => canonSide K (σ.filter K.contains))).filter
        (fun a => decide (2 ≤ lightSize K a))) := by
  unfold rerootOutGroup rerootOutGroupWith at h
  obtain ⟨pl, hpl, h⟩ := Res.bind_ok h
  obtain ⟨ec, hec, h⟩ := Res.bind_ok h
  obtain ⟨e, c⟩ := ec
  have hk := ofOption_ok_panic hec
  simp only [if_true] at h
  split at h
  · cases h
  · rename_i hlen2
    cases h
    obtain ⟨spath, hseff, hne, _, hts, hlen, hfound, hstrict, htn, hre⟩ := outgroupPlan_ok hpl
    have S1 := unroot_same t hu hg hs
    have hu1 : (unroot t).tipNames.Nodup := S1.tips.nodup_iff.2 hu
    obtain ⟨S2, g2⟩ := rerootP_same spath (unroot t) none [] hu1 (unroot_lensGood t hg)
    rw [← hts] at S2 g2
    have hu2 : pl.ts.tipNames.Nodup := S2.tips.nodup_iff.2 hu1
    obtain ⟨S3, _⟩ := rerootP_same pl.f.p pl.ts none (rerootP (unroot t) spath none []).2.2 hu2 g2
    rw [← htn] at S3
    have ST := (S1.trans S2).trans S3
    have hu3 : pl.tn.tipNames.Nodup := ST.tips.nodup_iff.2 hu
    have hseff' : pl.seff = outTips t S := hseff.trans (effOutgroup_eq_outTips t S S1.tips)
    have hSn : pl.seff.Nodup := by rw [hseff']; exact nodup_eraseDups _
    -- the two sides of the root branch
    obtain ⟨q1, _⟩ := moveRoot_tipNames_split pl.tn pl.r e c hk
    have hAl : (aSide pl.tn pl.r).leaves = (oldRoot pl.tn pl.r).leaves := by simp [aSide, oldRoot, T.leaves_node]
    have hnd2 : (c.leaves ++ (oldRoot pl.tn pl.r).leaves).Nodup := q1.nodup_iff.2 hu3
    have hAn : (aSide pl.tn pl.r).leaves.Nodup := by rw [hAl]; exact (List.nodup_append.1 hnd2).2.1
    have hdf : pl.f.diff = 0 := by
      rcases hside with hst | hst
      · exact hstrict hst
      · exact plan_diff_zero hpl hu hg hs hst
    obtain ⟨hin, hout⟩ := plan_clade hSn hne hlen hfound htn hre hAn
    have hA : ∀ x, x ∈ (oldRoot pl.tn pl.r).leaves ↔ x ∈ pl.seff := by
      intro x; rw [← hAl]; exact ⟨hout hdf x, hin x⟩
    -- the tips of what is left
    have hckids : c.kids ≠ [] := by intro h0; rw [h0] at hlen2; simp at hlen2
    have hcl : c.leaves = leavesL c.kids := by
      obtain ⟨dc, pc, kc⟩ := c; exact leaves_of_kids hckids
    have htips : (T.node c.d 0 c.kids).tipNames = c.leaves := by
      unfold T.tipNames
      have : (c.kids.length == 1) = false := by simp; omega
      simp [this, hcl]
    have hdisj : ∀ x, x ∈ c.leaves → x ∉ (oldRoot pl.tn pl.r).leaves :=
      fun x h1 h2 => (List.nodup_append.1 hnd2).2.2 x h1 x h2 rfl
    refine ⟨?_, ?_, ?_⟩
    · rw [htips]
      apply (List.perm_ext_iff_of_nodup (List.nodup_append.1 hnd2).1 (hu.filter _)).2
      intro x
      simp only [List.mem_filter, Bool.not_eq_true', List.contains_eq_mem, decide_eq_false_iff_not]
      rw [← hseff']
      constructor
      · intro hx
        refine ⟨ST.tips.mem_iff.1 (q1.mem_iff.1 (List.mem_append_left _ hx)), fun hs' => ?_⟩
        exact hdisj x hx ((hA x).2 hs')
      · rintro ⟨hx, hns⟩
        have := q1.mem_iff.2 (ST.tips.mem_iff.2 hx)
        rcases List.mem_append.1 this with h' | h'
        · exact h'
        · exact absurd ((hA x).1 h') hns
    · intro a b ha hb
      rw [htips] at ha hb
      have hat : a ∈ t.tipNames := ST.tips.mem_iff.1 (q1.mem_iff.1 (List.mem_append_left _ ha))
      have hbt : b ∈ t.tipNames := ST.tips.mem_iff.1 (q1.mem_iff.1 (List.mem_append_left _ hb))
      rw [← ST.dist a b hat hbt]
      unfold T.dist
      rw [distW_perm _ (splits_decomp pl.tn pl.r e c hk), C14.distW_cons, C14.distW_append]
      have h0 : (SplitE.mk c.leaves e c.isLeaf).sep a b = false := by
        simp [SplitE.sep, ha, hb]
      have h1 : distW EdgeD.lenOr0 (oldRoot pl.tn pl.r).splitsBelow a b = 0 :=
        C14.distW_both_out _ _ a b (C14.out_of_sub _ a (hdisj a ha)) (C14.out_of_sub _ b (hdisj b hb))
      rw [h0, h1]
      have : (T.node c.d 0 c.kids).splits = c.splitsBelow := by
        obtain ⟨dc, pc, kc⟩ := c; simp [T.splits, T.splitsBelow_node]
      rw [this]
      simp only [Bool.false_eq_true, if_false]
      grind
    · intro K hK a
      rw [htips] at hK
      exact restrict_mem ST hu pl.r e c hk (by omega) K hK a

theorem filter_keep_eq {all : List String} (p : String → Bool) :
    all.filter (all.filter p).contains = all.filter p := by
  apply List.filter_congr
  intro x hx
  by_cases h : p x <;> simp [List.mem_filter, hx, h]

/-- the Spec predicate the oracle evaluates when the outgroup is removed -/
theorem removedOK_of (t t' : T) (strict : Bool) (S : List String)
    (h : rerootOutGroup true strict S t = .ok t') (hu : t.tipNames.Nodup) (hg : LensGood t.splits)
    (hs : ∀ s ∈ t.splits, GoodL s.e.sup) (hside : strict = true ∨ isSide t S = true)
    (hk : keysOK t' = true) : removedOK t (outTips t S) t' = true := by
  obtain ⟨h1, h2, h3⟩ := outgroup_remove_full t t' strict S h hu hg hs hside
  unfold removedOK
  simp only [Bool.and_eq_true, beq_iff_eq, List.all_eq_true, Bool.or_eq_true]
  refine ⟨⟨sortS_congr h1, ?_⟩, ?_⟩
  · intro a ha b hb
    by_cases hab : a = b
    · exact Or.inl hab
    · exact Or.inr (h2 a b (h1.mem_iff.2 ha) (h1.mem_iff.2 hb))
  · unfold restrictSplits canonSet T.usplitSet
    simp only [filter_keep_eq]
    have hk' : (t'.usplitsAll.map fun s => toString s.side).Nodup := by simpa [keysOK] using hk
    apply canon_eq (h3 _ h1.symm)
    intro a ha b hb hab
    obtain ⟨x, hx, rfl⟩ := List.mem_map.1 ha
    obtain ⟨y, hy, rfl⟩ := List.mem_map.1 hb
    unfold T.usplits at hx hy
    have := inj_of_nodup_map _ _ hk' x (List.mem_filter.1 hx).1 y (List.mem_filter.1 hy).1 hab
    rw [this]


end Gotree.C05
