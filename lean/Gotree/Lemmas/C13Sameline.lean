/-
  C13 — text after a ';' on the same line: what the multi-tree Newick reader did before fix 3850fd2
  (`multiGoOne`: dropped without a record) and does since (`multiGo`/`chunkGo`: every tree is parsed).
-/
import Gotree.Lemmas.C13

namespace Gotree.C13
open Gotree

/-- one step of the PINNED reader's loop: a line `a;b` whose last non-blank character is ';' is treated
    exactly like the line `a;` — whatever `b` holds (further trees included) leaves no trace in the records -/
theorem multiGoOne_sameline (C : NewickCodec) (L : NewickStreamLaws C) (a b : Txt) (ls : List Txt) (id : Nat)
    (ha : ∀ c ∈ a, c ≠ ';' ∧ c ≠ '[') (hb : lastNonBlank (a ++ ';' :: b) = ';') :
    multiGoOne C ((a ++ ';' :: b) :: ls) [] id = multiGoOne C ((a ++ [';']) :: ls) [] id := by
  have h1 : lastNonBlank (a ++ [';']) = ';' := lastNonBlank_semi a [] (by simp)
  simp only [multiGoOne, List.nil_append, hb, h1, beq_self_eq_true, if_true, L.parse_prefix a b ha]

/-- the CURRENT reader on a chunk that holds two trees `write t₁ ++ write t₂`: both are delivered -/
theorem chunkGo_two (C : NewickCodec) (L : NewickStreamLaws C) (t₁ t₂ : T) (h₁ : L.wf t₁ = true) (h₂ : L.wf t₂ = true)
    (f id : Nat) :
    chunkGo C (f + 2) (C.write t₁ ++ C.write t₂) id =
      ([⟨id, .ok (L.norm t₁)⟩, ⟨id + 1, .ok (L.norm t₂)⟩], some (id + 2)) := by
  obtain ⟨b₁, e₁, hb₁⟩ := L.write_shape t₁ h₁
  obtain ⟨b₂, e₂, hb₂⟩ := L.write_shape t₂ h₂
  have hn₁ : ∀ c ∈ b₁, c ≠ ';' ∧ c ≠ '[' := fun c hc => ⟨(hb₁ c hc).2.2.1, (hb₁ c hc).2.2.2⟩
  have hn₂ : ∀ c ∈ b₂, c ≠ ';' ∧ c ≠ '[' := fun c hc => ⟨(hb₂ c hc).2.2.1, (hb₂ c hc).2.2.2⟩
  have hp₁ : C.parse (C.write t₁ ++ C.write t₂) = some (L.norm t₁) := by
    rw [e₁, List.append_assoc, List.singleton_append, L.parse_prefix b₁ _ hn₁, ← e₁]
    exact L.parse_write t₁ h₁
  have ha : afterTree (C.write t₁ ++ C.write t₂) false = C.write t₂ := by
    rw [e₁, List.append_assoc, List.singleton_append, afterTree_prefix b₁ _ hn₁]
  have hnot : (C.write t₂).all isNewickWs = false := by
    rw [e₂]
    simp [isNewickWs]
  have hs₂ : singleTree (C.write t₂) := by rw [e₂]; exact singleTree_of b₂ [] hn₂ (by simp)
  have h2 := chunkGo_single C f (C.write t₂) (L.norm t₂) (id + 1) (L.parse_write t₂ h₂) hs₂
  rw [chunkGo]
  simp only [hp₁, ha, hnot, Bool.false_eq_true, if_false, h2]

/-- the text of a non-empty list of well-formed trees written one after the other holds a ';' -/
theorem flatten_not_ws (C : NewickCodec) (L : NewickLaws C) (t : T) (r : List T) (h : L.wf t = true) :
    ((t :: r).map C.write).flatten.all isNewickWs = false := by
  obtain ⟨b, e, _⟩ := L.write_shape t h
  simp only [List.map_cons, List.flatten_cons, e, List.all_append, List.all_cons, List.all_nil]
  simp [isNewickWs]

/-- the CURRENT reader on a chunk that holds the texts of any number of well-formed trees, one after the
    other: all are delivered, consecutive identifiers (`f` = fuel, at least the number of trees) -/
theorem chunkGo_many (C : NewickCodec) (L : NewickStreamLaws C) (ts : List T) (hne : ts ≠ [])
    (hw : ∀ t ∈ ts, L.wf t = true) (f id : Nat) (hf : ts.length ≤ f) :
    chunkGo C f (ts.map C.write).flatten id = (recsOfTrees (ts.map L.norm) id, some (id + ts.length)) := by
  induction ts generalizing f id with
  | nil => exact absurd rfl hne
  | cons t r ih =>
    obtain ⟨g, rfl⟩ : ∃ g, f = g + 1 := ⟨f - 1, by simp at hf; omega⟩
    have ht := hw t (by simp)
    obtain ⟨b, e, hb⟩ := L.write_shape t ht
    have hn : ∀ c ∈ b, c ≠ ';' ∧ c ≠ '[' := fun c hc => ⟨(hb c hc).2.2.1, (hb c hc).2.2.2⟩
    cases r with
    | nil =>
      have hs : singleTree (C.write t) := by rw [e]; exact singleTree_of b [] hn (by simp)
      have := chunkGo_single C g (C.write t) (L.norm t) id (L.parse_write t ht) hs
      simpa [recsOfTrees] using this
    | cons t' r' =>
      have hp : C.parse (((t :: t' :: r').map C.write).flatten) = some (L.norm t) := by
        simp only [List.map_cons, List.flatten_cons, e, List.append_assoc, List.singleton_append]
        rw [L.parse_prefix b _ hn, ← e]
        exact L.parse_write t ht
      have ha : afterTree (((t :: t' :: r').map C.write).flatten) false = ((t' :: r').map C.write).flatten := by
        simp only [List.map_cons, List.flatten_cons, e, List.append_assoc, List.singleton_append]
        rw [afterTree_prefix b _ hn]
      have hnot := flatten_not_ws C L.toNewickLaws t' r' (hw t' (by simp))
      have ih' := ih (by simp) (fun x hx => hw x (by simp [hx])) g (id + 1) (by simp at hf ⊢; omega)
      rw [chunkGo]
      simp only [hp, ha, hnot, Bool.false_eq_true, if_false, ih']
      simp only [List.map_cons, recsOfTrees, List.length_cons]
      congr 2
      omega

/-- `deliver` on chunks each of which is the text of a non-empty group of well-formed trees -/
theorem deliver_groups (C : NewickCodec) (L : NewickStreamLaws C) (groups : List (List T))
    (hg : ∀ g ∈ groups, g ≠ [] ∧ ∀ t ∈ g, L.wf t = true) (id : Nat) (hne : groups ≠ [] ∨ id ≠ 0) :
    deliver C [] (groups.map fun g => (g.map C.write).flatten) id = recsOfTrees (groups.flatten.map L.norm) id := by
  induction groups generalizing id with
  | nil =>
    cases hne with
    | inl h => exact absurd rfl h
    | inr h => simp [deliver, recsOfTrees, h]
  | cons g r ih =>
    obtain ⟨hgne, hgw⟩ := hg g (by simp)
    have hlen : g.length ≤ ((g.map C.write).flatten).length + 1 := by
      have : ∀ (l : List T), (∀ t ∈ l, L.wf t = true) → l.length ≤ ((l.map C.write).flatten).length := by
        intro l
        induction l with
        | nil => intro _; simp
        | cons t l' ihl =>
          intro hl
          obtain ⟨b, e, _⟩ := L.write_shape t (hl t (by simp))
          have := ihl (fun x hx => hl x (by simp [hx]))
          simp only [List.map_cons, List.flatten_cons, List.length_append, List.length_cons, e, List.length_nil] at this ⊢
          omega
      have := this g hgw
      omega
    have hc := chunkGo_many C L g hgne hgw _ id hlen
    simp only [List.map_cons, deliver, hc, List.flatten_cons, List.map_append]
    rw [ih (fun x hx => hg x (by simp [hx])) (id + g.length) (Or.inr (by
      have : 0 < g.length := List.length_pos_iff.2 hgne
      omega))]
    -- recsOfTrees of an append
    have happ : ∀ (a b : List T) (i : Nat), recsOfTrees (a ++ b) i = recsOfTrees a i ++ recsOfTrees b (i + a.length) := by
      intro a
      induction a with
      | nil => intro b i; simp [recsOfTrees]
      | cons x a iha =>
        intro b i
        simp only [List.cons_append, recsOfTrees, List.length_cons, iha b (i + 1)]
        congr 3
        omega
    rw [happ]
    simp

end Gotree.C13
