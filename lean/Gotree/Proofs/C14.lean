/-
  C14 — the property theorems (DESIGN §6 C14).  Everything is about the model
  of `Gotree/Model/C14.lean`; the Spec predicates are those of `Gotree/Spec/C14.lean`
  that the driver also evaluates on the implementation's own output.

  `hu : t.tipNames.Nodup` is the hypothesis "tip names are unique".
-/
import Gotree.Lemmas.C14
import Gotree.Lemmas.C14R2
import Gotree.Lemmas.C14Avg
import Gotree.Lemmas.C14Walk5
import Gotree.Lemmas.C14Cut7
import Gotree.Lemmas.C14Doc
import Gotree.Lemmas.C14Bag
import Gotree.Lemmas.C14BagSpec
import Gotree.Lemmas.C14CliThr

namespace Gotree.C14
open Gotree

/-! ### the hypotheses are satisfiable on non-trivial trees -/

example : exT.tipNames = ["A", "B", "C", "D"] := by decide
example : exT.tipNames.Nodup := by decide
example : exTipRoot.tipNames = ["D", "A", "B", "C"] := by decide
example : exTipRoot.tipNames.Nodup := by decide
example : "A" ∈ exT.tipNames ∧ "C" ∈ exT.tipNames ∧ "A" ≠ "C" := by decide

/-! ### distance matrix -/

/-- Every entry the walk from tip `a` writes for another tip `b` is the sum of
    the branch weights over the branches separating `a` from `b`. -/
theorem row_eq_pathsum (w : EdgeD → Rat) (t : T) (hu : t.tipNames.Nodup) (a b : String)
    (ha : a ∈ t.tipNames) (hb : b ∈ t.tipNames) (hab : a ≠ b) :
    (row w t a).lookup b = some (distW w t.splits a b) :=
  row_lookup w t hu a b ha hb hab

/- concrete instances (kernel-evaluated): A–C crosses 1, 1/2 and 3; seen from the
   tip-rooted tree, A–D crosses 1, 1/2 and 1 -/
example : (row Metric.brlen.w exT "A").lookup "C" = some (9/2) := by decide +kernel
example : distW Metric.brlen.w exT.splits "A" "C" = 9/2 := by decide +kernel
example : (row Metric.brlen.w exTipRoot "A").lookup "D" = some (5/2) := by decide +kernel
example : (row Metric.brlen.w exTipRoot "D").lookup "B" = some (7/2) := by decide +kernel

/-- The model's matrix meets the Spec that is used as oracle. -/
theorem matrix_eq_pathsum (m : Metric) (t : T) (hu : t.tipNames.Nodup) :
    matrixOK m t (matrix m t).1 (matrix m t).2 = true := by
  unfold matrixOK
  rw [Bool.and_eq_true, beq_iff_eq, beq_iff_eq]
  exact ⟨rfl, matrix_spec m t hu⟩

/-- The matrix is `n × n` for `n` the number of tips (gives their meaning to the
    `getD` statements below). -/
theorem matrix_square (m : Metric) (t : T) :
    (matrix m t).1.length = t.tipNames.length ∧
    (matrix m t).2.length = t.tipNames.length ∧
    ∀ r ∈ (matrix m t).2, r.length = t.tipNames.length := by
  have hl : (matrix m t).1.length = t.tipNames.length := (sortNames_perm t.tipNames).length_eq
  have h := matrix_isSquare m t
  exact ⟨hl, hl ▸ h.length, fun r hr => hl ▸ h.row_length r hr⟩

theorem matrix_symmetric (m : Metric) (t : T) (hu : t.tipNames.Nodup) (i j : Nat) :
    ((matrix m t).2.getD i []).getD j 0 = ((matrix m t).2.getD j []).getD i 0 := by
  rw [matrix_spec m t hu,
    entry_map_map _ (fun a b => if a == b then 0 else pathSum m t a b),
    entry_map_map _ (fun a b => if a == b then 0 else pathSum m t a b)]
  cases (sortNames t.tipNames)[i]? <;> cases (sortNames t.tipNames)[j]? <;> try rfl
  rename_i a b
  by_cases h : a = b
  · simp [h]
  · have h1 : (a == b) = false := by simpa using h
    have h2 : (b == a) = false := by simpa using Ne.symm h
    simp only [h1, h2, Bool.false_eq_true, if_false]
    exact pathSum_comm m t a b

theorem matrix_zero_diag (m : Metric) (t : T) (i : Nat) :
    ((matrix m t).2.getD i []).getD i 0 = 0 := by
  have : (matrix m t).2 = (sortNames t.tipNames).map fun a => (sortNames t.tipNames).map
      ((fun a b => if a == b then 0 else ((row m.w t a).lookup b).getD 0) a) := rfl
  rw [this, entry_map_map]
  cases (sortNames t.tipNames)[i]? <;> simp

/-- Rows and columns are the tips in increasing name order. -/
theorem matrix_rows_sorted (m : Metric) (t : T) :
    (matrix m t).1 = sortNames t.tipNames ∧
    (sortNames t.tipNames).Pairwise (· ≤ ·) ∧
    (sortNames t.tipNames).Perm t.tipNames :=
  ⟨rfl, sortNames_sorted _, sortNames_perm _⟩

/-! ### average -/

/-- When `AvgDistanceMatrix` succeeds on a non-empty list of trees: the names are
    the sorted tips of the first tree, every tree has the same sorted tips, the
    result is `n × n` and each entry is the mean of the entries of the
    individual matrices. -/
theorem avg_is_mean (m : Metric) (ts : List T) (hne : ts ≠ []) (names : List String)
    (M : List (List Rat)) (h : avgMatrix m ts = some (names, M)) :
    names = sortNames (ts.head hne).tipNames ∧
    (∀ u ∈ ts, sortNames u.tipNames = names) ∧
    M.length = names.length ∧ (∀ r ∈ M, r.length = names.length) ∧
    ∀ i j : Nat, (M.getD i []).getD j 0 =
      (ts.map fun u => ((matrix m u).2.getD i []).getD j 0).sum / ((ts.length : Nat) : Rat) := by
  cases ts with
  | nil => exact absurd rfl hne
  | cons t ts =>
    rw [avgMatrix_cons] at h
    split at h
    · rename_i hall
      simp only [Option.some.injEq, Prod.mk.injEq] at h
      obtain ⟨h1, h2⟩ := h
      simp only [List.all_eq_true, beq_iff_eq] at hall
      have hsame : ∀ u ∈ ts, (matrix m u).1.length = names.length := fun u hu => by
        rw [hall u hu, h1]
      obtain ⟨hsq, hent⟩ := sumM_spec m names.length ts (matrix m t).2
        (h1 ▸ matrix_isSquare m t) hsame
      have hsq' := div_square _ ((ts.length + 1 : Nat) : Rat) hsq
      rw [h2] at hsq'
      refine ⟨h1.symm, ?_, hsq'.length, hsq'.row_length, fun i j => ?_⟩
      · intro u hu
        rcases List.mem_cons.1 hu with rfl | hu
        · exact h1
        · exact (hall u hu).trans h1
      · rw [← h2, div_entry, hent i j]
        simp only [List.map_cons, List.sum_cons, List.length_cons]
    · exact absurd h (by simp)

/-- Different taxa are rejected, and only they. -/
theorem avg_different_taxa_err (m : Metric) (ts : List T) :
    avgMatrix m ts = none ↔
      ∃ hne : ts ≠ [], ∃ u ∈ ts, sortNames u.tipNames ≠ sortNames (ts.head hne).tipNames := by
  cases ts with
  | nil => simp [avgMatrix]
  | cons t ts =>
    rw [avgMatrix_cons]
    constructor
    · intro h
      split at h
      · exact absurd h (by simp)
      · rename_i hall
        simp only [Bool.not_eq_true, List.all_eq_false, beq_iff_eq] at hall
        obtain ⟨u, hu, hne⟩ := hall
        exact ⟨by simp, u, by simp [hu], hne⟩
    · rintro ⟨_, u, hu, hne⟩
      rcases List.mem_cons.1 hu with rfl | hu
      · exact absurd rfl hne
      · have : ¬ (ts.all fun u => (matrix m u).1 == (matrix m t).1) = true := by
          simp only [Bool.not_eq_true, List.all_eq_false, beq_iff_eq]
          exact ⟨u, hu, hne⟩
        simp [this]

/-- two different trees on the same taxa are accepted (so the hypothesis of
    `avg_is_mean` is satisfiable on a list of distinct trees) -/
example : avgMatrix .brlen [exT, exTipRoot] ≠ none := by
  rw [Ne, avg_different_taxa_err]
  rintro ⟨_, u, hu, hne⟩
  have hp : exTipRoot.tipNames.Perm exT.tipNames := by decide
  simp only [List.mem_cons, List.not_mem_nil, or_false] at hu
  rcases hu with rfl | rfl
  · exact hne rfl
  · exact hne (sortNames_eq_of_perm hp)

/-! ### cut -/

/-- Two tips share a bag iff every branch separating them is shorter than the threshold. -/
theorem cut_components (thr : Rat) (t : T) (hu : t.tipNames.Nodup) (a b : String)
    (ha : a ∈ t.tipNames) (hb : b ∈ t.tipNames) :
    sameBag (cut thr t) a b = pathShort thr t a b :=
  cut_sameBag thr t hu a b ha hb

/- concrete instances (kernel-evaluated), threshold 2: B (length 2) and C (length 3)
   are cut off, A and D stay together, also when D is the root -/
example : cut 2 exT = [["A", "D"], ["B"], ["C"]] := by decide +kernel
example : cut 2 exTipRoot = [["D", "A"], ["B"], ["C"]] := by decide +kernel
example : sameBag (cut 2 exT) "A" "D" = true ∧ pathShort 2 exT "A" "D" = true ∧
    sameBag (cut 2 exT) "A" "B" = false ∧ pathShort 2 exT "A" "B" = false := by decide +kernel

/-- The bags partition the tips. -/
theorem cut_partition (thr : Rat) (t : T) :
    ((cut thr t).flatten).Perm t.tipNames ∧ ∀ g ∈ cut thr t, g ≠ [] :=
  ⟨cut_perm thr t, cut_nonempty thr t⟩

/-- The model's cut meets the Spec that is used as oracle. -/
theorem cutOK_holds (thr : Rat) (t : T) (hu : t.tipNames.Nodup) :
    cutOK thr t (cut thr t) = true := by
  simp only [cutOK, Bool.and_eq_true, List.all_eq_true, beq_iff_eq]
  refine ⟨⟨sortNames_eq_of_perm (cut_partition thr t).1, fun g hg => ?_⟩, fun a ha b hb => ?_⟩
  · cases g with
    | nil => exact absurd rfl ((cut_partition thr t).2 _ hg)
    | cons x g => rfl
  · exact cut_components thr t hu a b ha hb

/-! ## Round 2: invariances, monotonicity, more on the average

  `C05.moveRoot t i` is the one-edge root move of C05's model (`Reroot` is a sequence of
  them); `Reord t t'` says `t'` is `t` with the children of any nodes, at any depth, listed in
  another order (and any parent positions). -/

/-- a non-trivial reordering: the two cherries of `exT` swapped at the root and inside -/
def exTReord : T :=
  .node ⟨"", []⟩ 0 [
    (mkE 1 4, T.leaf "D"),
    (mkE (1/2) 0, .node ⟨"", []⟩ 1 [(mkE 2 2, T.leaf "B"), (mkE 1 1, T.leaf "A")]),
    (mkE 3 3, T.leaf "C")]

/-- the hypothesis of the two `_reorder` theorems is satisfiable on a non-trivial pair -/
example : Reord exT exTReord := by
  unfold exT exTReord
  refine Reord.node _ 0 0 (k₂ := [
    (mkE (1/2) 0, .node ⟨"", []⟩ 1 [(mkE 2 2, T.leaf "B"), (mkE 1 1, T.leaf "A")]),
    (mkE 3 3, T.leaf "C"), (mkE 1 4, T.leaf "D")]) ?_ ?_
  · refine .cons _ ?_ (.cons _ ?_ (.cons _ ?_ .nil))
    · exact Reord.node _ 0 1 (k₂ := [(mkE 1 1, T.leaf "A"), (mkE 2 2, T.leaf "B")])
        (.cons _ (Reord.node _ 0 0 .nil (List.Perm.refl _)) (.cons _ (Reord.node _ 0 0 .nil (List.Perm.refl _)) .nil))
        (List.Perm.swap _ _ _)
    · exact Reord.node _ 0 0 .nil (List.Perm.refl _)
    · exact Reord.node _ 0 0 .nil (List.Perm.refl _)
  · exact (List.perm_append_comm (l₁ := [_]) (l₂ := [_, _]))

/-- The matrix does not depend on where the root is: a one-edge root move (hence any
    re-rooting, a sequence of them) leaves names, row order and every entry unchanged. -/
theorem matrix_moveRoot (m : Metric) (t : T) (i : Nat) (hu : t.tipNames.Nodup) :
    matrix m (C05.moveRoot t i) = matrix m t :=
  matrix_moveRoot' m t i hu

/- the hypothesis is satisfiable where the root really moves, onto a tip even -/
example : (C05.moveRoot exT 0).tipNames = ["C", "D", "A", "B"] ∧ (C05.moveRoot exT 0).kids.length = 3 := by decide
example : (C05.moveRoot exT 2).tipNames = ["D", "A", "B", "C"] ∧ (C05.moveRoot exT 2).kids.length = 1 := by decide

/-- The matrix does not depend on the order of the children, at any depth. -/
theorem matrix_reorder (m : Metric) {t t' : T} (h : Reord t t') (hu : t.tipNames.Nodup) :
    matrix m t' = matrix m t :=
  matrix_congr m t t' hu (reord_tipNames h) (fun a _ b _ => distW_sameBranches m.w (reord_splits h) a b)

/-- The bags do not depend on where the root is: the same pairs of tips share a bag, and the
    bags cover the same tips. -/
theorem cut_moveRoot (thr : Rat) (t : T) (i : Nat) (hu : t.tipNames.Nodup) :
    (∀ a ∈ t.tipNames, ∀ b ∈ t.tipNames,
      sameBag (cut thr (C05.moveRoot t i)) a b = sameBag (cut thr t) a b) ∧
    (cut thr (C05.moveRoot t i)).flatten.Perm (cut thr t).flatten :=
  ⟨fun a ha b hb => cut_sameBag_moveRoot thr t i hu a b ha hb,
   (cut_perm thr _).trans ((C05.moveRoot_tips t i).trans (cut_perm thr t).symm)⟩

/-- The bags do not depend on the order of the children either. -/
theorem cut_reorder (thr : Rat) {t t' : T} (h : Reord t t') (hu : t.tipNames.Nodup) :
    (∀ a ∈ t.tipNames, ∀ b ∈ t.tipNames, sameBag (cut thr t') a b = sameBag (cut thr t) a b) ∧
    (cut thr t').flatten.Perm (cut thr t).flatten := by
  have hp := reord_tipNames h
  refine ⟨fun a ha b hb => ?_, (cut_perm thr _).trans (hp.trans (cut_perm thr t).symm)⟩
  rw [cut_sameBag thr t' (hp.nodup_iff.2 hu) a b (hp.mem_iff.2 ha) (hp.mem_iff.2 hb),
    cut_sameBag thr t hu a b ha hb, pathShort_sameBranches thr (reord_splits h)]

/-- Threshold monotonicity: every bag for a threshold lies inside one bag for any larger
    threshold (so the bags for the larger one are unions of bags for the smaller one). -/
theorem cut_threshold_mono (thr thr' : Rat) (hle : thr ≤ thr') (t : T) (hu : t.tipNames.Nodup) :
    ∀ g ∈ cut thr t, ∃ g' ∈ cut thr' t, ∀ x ∈ g, x ∈ g' :=
  cut_refines thr thr' hle t hu

example : cut 2 exT = [["A", "D"], ["B"], ["C"]] ∧ cut (5/2) exT = [["A", "B", "D"], ["C"]] := by decide +kernel

/-- The average of one tree is its matrix. -/
theorem avg_one (m : Metric) (t : T) : avgMatrix m [t] = some (matrix m t) := avg_one' m t

/-- The average does not depend on the order in which the trees arrive: neither whether it
    is rejected nor, when it is accepted, the names or any entry. -/
theorem avg_perm (m : Metric) {ts ts' : List T} (hp : ts'.Perm ts) : avgMatrix m ts' = avgMatrix m ts := by
  by_cases hne : ts = []
  · subst hne; rw [hp.eq_nil]
  have hne' : ts' ≠ [] := fun e => hne (by rw [e] at hp; exact hp.symm.eq_nil)
  cases h : avgMatrix m ts with
  | none =>
    obtain ⟨_, u, hu, hdiff⟩ := (avg_different_taxa_err m ts).1 h
    rw [avg_different_taxa_err]
    by_cases hc : sortNames u.tipNames = sortNames (ts'.head hne').tipNames
    · refine ⟨hne', ts.head hne, hp.mem_iff.2 (List.head_mem hne), fun e => hdiff ?_⟩
      exact hc.trans e.symm
    · exact ⟨hne', u, hp.mem_iff.2 hu, hc⟩
  | some r =>
    obtain ⟨names, M⟩ := r
    obtain ⟨_, hall, hl, hr, hent⟩ := avg_is_mean m ts hne names M h
    cases h' : avgMatrix m ts' with
    | none =>
      obtain ⟨_, u, hu, hdiff⟩ := (avg_different_taxa_err m ts').1 h'
      exact absurd ((hall u (hp.mem_iff.1 hu)).trans
        (hall _ (hp.mem_iff.1 (List.head_mem hne'))).symm) hdiff
    | some r' =>
      obtain ⟨names', M'⟩ := r'
      obtain ⟨hn', _, hl', hr', hent'⟩ := avg_is_mean m ts' hne' names' M' h'
      have e1 : names' = names := hn'.trans (hall _ (hp.mem_iff.1 (List.head_mem hne')))
      subst e1
      have e2 : M' = M := by
        refine square_ext (square_of_lengths hl' hr') (square_of_lengths hl hr) (fun i j => ?_)
        rw [hent' i j, hent i j, hp.length_eq, sum_perm (hp.map _)]
      rw [e2]

/-- The literal name check of `AvgDistanceMatrix` (`for i, tip := range tips { tip.Name() !=
    tips2[i].Name() }`) passes iff the first tree's sorted names are a prefix of the later
    tree's, and indexes out of range (a Go panic) iff the later tree's names run out first.
    With equally many tips: passes iff the names are equal, never panics. -/
theorem avgCheck_outcome (tips tips2 : List String) :
    ((∃ u, Go.checkNames tips 0 tips2 = .ok u) ↔ tips <+: tips2) ∧
    ((∃ msg, Go.checkNames tips 0 tips2 = .panic msg) ↔ (tips2 <+: tips ∧ tips2.length < tips.length)) ∧
    (tips.length = tips2.length →
      ((∃ u, Go.checkNames tips 0 tips2 = .ok u) ↔ tips = tips2) ∧ ¬ ∃ msg, Go.checkNames tips 0 tips2 = .panic msg) := by
  have h1 := checkNames_ok_iff tips 0 tips2
  have h2 := checkNames_panic_iff tips 0 tips2
  simp only [List.drop_zero] at h1 h2
  refine ⟨h1, h2, fun hl => ⟨h1.trans ⟨fun hp => hp.eq_of_length hl, fun e => e ▸ List.prefix_refl _⟩, ?_⟩⟩
  rw [h2]
  intro ⟨_, hlt⟩
  omega

/-- The literal loops of `AvgDistanceMatrix` (statement-level model: the `len(tips2) !=
    len(tips)` test, the name check against the FIRST tree, `matrix[i][j] += matrix2[i][j]`,
    the final division over `range tips × range tips2`) return exactly what `avgMatrix`
    returns — so `avg_is_mean`, `avg_one`, `avg_perm` are statements about them — and the error
    exactly when `avgMatrix` rejects, never a panic; provided the statement-level matrix of each
    tree is the rose-tree one (checked by the driver on every case). -/
theorem avgGo_is_avg (metric : Int) (m : Metric) (ts : List T)
    (hgo : ∀ t ∈ ts, Go.matrixGo metric t = some (matrix m t)) :
    Go.avgDistanceMatrix metric ts =
      match avgMatrix m ts with
      | some r => .ok r
      | none => .err avgMsg :=
  avgGo_eq metric m ts hgo

/-! ### the statement-level model (pointer graph, `prev`, `SetId`/`Id()`, `lengths[...]`) -/

/-- The order in which the code produces the tips: `Tips()`/`tipsRecur` on the pointer graph
    of a rose tree lists exactly `T.tipNames`, in the same order (the root first when it has
    a single neighbour). -/
theorem tips_order (t : T) : (Go.G.ofT t).tips.map (Go.G.ofT t).name = t.tipNames :=
  tips_names_ofT t

/-- ★ `ToDistanceMatrix` as the code writes it — `Tips()`, the stable insertion sort of
    `sort.Slice` by name, `SetId(i)`, one `pathLengths(tip, nil, matrix[i], 0, metric)` per
    tip with its `prev` test, its `switch metric` and `lengths[cur.Id()] = curlength` —
    run on the pointer graph of any rose tree with unique tip names returns exactly the
    matrix of the rose-tree model: same rows in the same order, same entries.  Hence every
    theorem above about `matrix` is a theorem about the statement-level model. -/
theorem matrixGo_is_matrix (mi : Int) (t : T) (hu : t.tipNames.Nodup) :
    Go.matrixGo mi t = some (matrix (metricOf mi) t) :=
  matrixGo_eq_matrix mi t hu

/-- … in particular it meets the Spec used as oracle (path sums, sorted rows). -/
theorem matrixGo_meets_spec (mi : Int) (t : T) (hu : t.tipNames.Nodup) :
    ∃ names mat, Go.matrixGo mi t = some (names, mat) ∧ matrixOK (metricOf mi) t names mat = true :=
  ⟨_, _, matrixGo_eq_matrix mi t hu, matrix_eq_pathsum (metricOf mi) t hu⟩

/-- The literal `AvgDistanceMatrix` on trees with unique tip names: the entrywise mean of
    `avg_is_mean` when the sorted names agree, the error otherwise, never a panic — now
    without any assumption on the statement-level matrices. -/
theorem avgGo_is_avg_uniq (mi : Int) (ts : List T) (hu : ∀ t ∈ ts, t.tipNames.Nodup) :
    Go.avgDistanceMatrix mi ts =
      match avgMatrix (metricOf mi) ts with
      | some r => .ok r
      | none => .err avgMsg :=
  avgGo_eq mi (metricOf mi) ts (fun t ht => matrixGo_eq_matrix mi t (hu t ht))

example : metricOf 0 = .brlen ∧ metricOf 1 = .boots ∧ metricOf 2 = .none ∧ metricOf 7 = .brlen ∧ metricOf (-1) = .brlen := by decide

/-- ★ `CutEdgesMaxLength` as the code writes it — `Edges()`, `SetId`, the `visited` slice, for
    every branch not yet visited either the two floods `cutEdgesMaxLengthRecur(bag, Left, Right)` /
    `(bag, Right, Left)` with `visited[b.Id()] = true` on every branch crossed, or the single-tip
    bags of a long branch, `TipBag` as a map by name with its duplicate test, `Tips()` sorted —
    run on the pointer graph of any rose tree with unique tip names succeeds, its bags are those
    of the rose-tree model `cut` up to the order of the bags and inside them, and they meet the
    Spec used as oracle: a partition of the tips in which two tips share a bag iff every branch
    between them is shorter than the threshold. -/
theorem cutGo_is_cut (thr : Rat) (t : T) (hu : t.tipNames.Nodup) :
    ∃ bags, Go.cutGo thr t = .ok bags ∧ LPerm bags (cut thr t) ∧ cutOK thr t bags = true := by
  obtain ⟨bags, h1, h2⟩ := cutGo_LPerm thr t hu
  exact ⟨bags, h1, h2, cutOK_of_LPerm thr t h2 (cutOK_holds thr t hu)⟩

/- kernel-evaluated instance: root on the tip D, threshold 2 -/
example : Go.cutGo 2 exTipRoot = .ok [["A", "D"], ["B"], ["C"]] := by decide +kernel

/-- `cutEdgesMaxLengthRecur` of the statement-level model, entering a subtree `t` (top node `n`)
    from its parent `p`: it returns without error, the bag grows by exactly the tips that the
    rose-tree model's `comp thr t` calls open (joined to the top node by branches shorter than
    the threshold), in that order, and exactly the branches crossed are marked visited —
    provided the names in the bag and below are distinct. -/
theorem cut_flood (g : Go.G) (thr : Rat) (t : T) (fuel n p : Nat) (bag : Go.Bag) (visited : Array Bool)
    (hf : t.size ≤ fuel) (hp : p < n) (hs : Sub g.nodes n (Go.flatT (some p) n t))
    (he : Sub g.edges n (Go.gedgesT n t)) (hb : ∃ b, g.edges[n - 1]? = some b)
    (hn : (bag.map (·.1) ++ (leafIdxT n t).map g.name).Nodup) :
    Go.cutRecur g thr fuel bag n p visited =
      .ok (bag ++ tipPairs g (openT thr n t), markAll visited (reachT thr n t)) ∧
    (tipPairs g (openT thr n t)).map (·.1) = (comp thr t).1 := by
  refine ⟨flood_down g thr t fuel n p bag visited hf hp hs he hb hn, ?_⟩
  rw [← openT_names g thr t n (some p) hs]
  simp [tipPairs, List.map_map, Function.comp]

/-- three tips / the first two of them -/
def exAbc : T := .node ⟨"", []⟩ 0 [(mkE 1 0, T.leaf "a"), (mkE 2 1, T.leaf "b"), (mkE 3 2, T.leaf "c")]
def exAb : T := .node ⟨"", []⟩ 0 [(mkE 1 0, T.leaf "a"), (mkE 2 1, T.leaf "b")]

/- the hypothesis of `avgGo_is_avg` holds on these (kernel-evaluated through both models is not
   possible: `matrix` sorts by well-founded `mergeSort`; the statement-level side is) -/
example : Go.matrixGo 0 exAb = some (["a", "b"], [[0, 3], [3, 0]]) := by decide +kernel
example : Go.avgDistanceMatrix 0 [exAb, exAb] = .ok (["a", "b"], [[0, 3], [3, 0]]) := by decide +kernel

/-- Regression witness for fix 55aaa9d (found in round 2): WITHOUT the test `len(tips2) !=
    len(tips)` (model variant `avgDistanceMatrixPinned`) the average of trees with another
    number of tips, the shorter sorted name list a prefix of the longer, indexes out of range
    in the name check (later tree shorter) or in the addition (later tree longer); with it,
    the outcome is the error. -/
theorem avg_pinned_fails :
    Go.avgDistanceMatrixPinned 0 [exAbc, exAb] = .panic (Go.oob 2 2) ∧
    Go.avgDistanceMatrixPinned 0 [exAb, exAbc] = .panic (Go.oob 2 2) ∧
    Go.avgDistanceMatrix 0 [exAbc, exAb] = .err avgMsg ∧
    Go.avgDistanceMatrix 0 [exAb, exAbc] = .err avgMsg := by decide +kernel

/- the statement-level (pointer graph) model on `exTipRoot` (root on the tip D; nodes in
   pre-order D=0, inner=1, inner=2, A=3, B=4, C=5), kernel-evaluated: `Tips()` lists the root
   first; the walk from A with ids by name order A,B,C,D writes the path sums of `exT`; the
   flood fill at threshold 2 puts the root tip D with A.  The driver checks the agreement of
   the two models with the code on every case. -/
example : Go.G.tips (Go.G.ofT exTipRoot) = [0, 3, 4, 5] := by decide +kernel
example : (Go.pathLengths (Go.G.ofT exTipRoot) #[3, 0, 0, 0, 1, 2] 0 7 3 none (Array.replicate 4 0) 0).map Array.toList
    = some [0, 3, 9/2, 5/2] := by decide +kernel
example : (row Metric.brlen.w exTipRoot "A").lookup "B" = some 3 ∧ (row Metric.brlen.w exTipRoot "A").lookup "C" = some (9/2) ∧
    (row Metric.brlen.w exTipRoot "A").lookup "D" = some (5/2) := by decide +kernel
example : (match Go.cutEdgesMaxLength (Go.G.ofT exTipRoot) 2 with | .ok b => b | _ => []) =
    [[("D", 0), ("A", 3)], [("B", 4)], [("C", 5)]] := by decide +kernel

/-! ## Round 3 -/

/- the branch weights are the documented defaults (`gotree matrix --help`: no length ↦ 0.0,
   no support ↦ 1.0, metric none ↦ 1 per branch) -/
example : Metric.brlen.w EdgeD.blank = 0 ∧ Metric.boots.w EdgeD.blank = 1 ∧ Metric.none.w EdgeD.blank = 1 ∧
    Metric.brlen.w (mkE (3/2) 0) = 3/2 ∧ Metric.none.w (mkE (3/2) 0) = 1 := by decide +kernel

/-- What the property says of the matrix, stated of the statement-level model (where a diagonal
    write or a wrong sort could really occur): rows are the tips in increasing name order, the
    matrix is symmetric with a zero diagonal, and it is the matrix the Spec describes. -/
theorem matrixGo_props (mi : Int) (t : T) (hu : t.tipNames.Nodup) :
    ∃ names M, Go.matrixGo mi t = some (names, M) ∧
      names = sortNames t.tipNames ∧ names.Pairwise (· ≤ ·) ∧ names.Perm t.tipNames ∧
      matrixOK (metricOf mi) t names M = true ∧
      (∀ i j : Nat, (M.getD i []).getD j 0 = (M.getD j []).getD i 0) ∧
      (∀ i : Nat, (M.getD i []).getD i 0 = 0) :=
  ⟨_, _, matrixGo_eq_matrix mi t hu, rfl, sortNames_sorted _, sortNames_perm _,
    matrix_eq_pathsum (metricOf mi) t hu, matrix_symmetric (metricOf mi) t hu, matrix_zero_diag (metricOf mi) t⟩

/-- The oracle of round 3 (`cutSpecOK`: partition, no empty bag, and the documented meaning of
    "shorter than the threshold", which leaves a branch WITHOUT length unspecified for
    thresholds ≤ 0 instead of reading the code's sentinel) holds of the rose-tree model … -/
theorem cut_meets_doc (thr : Rat) (t : T) (hu : t.tipNames.Nodup) : cutSpecOK thr t (cut thr t) = true :=
  cutSpecOK_of_cutOK thr t _ (cutOK_holds thr t hu)

/-- … and of the statement-level `CutEdgesMaxLength`. -/
theorem cutGo_meets_doc (thr : Rat) (t : T) (hu : t.tipNames.Nodup) :
    ∃ bags, Go.cutGo thr t = .ok bags ∧ cutSpecOK thr t bags = true := by
  obtain ⟨bags, h1, _, h3⟩ := cutGo_is_cut thr t hu
  exact ⟨bags, h1, cutSpecOK_of_cutOK thr t bags h3⟩

/-- two tips, no lengths / zero lengths -/
def exNoLen : T := .node ⟨"", []⟩ 0 [(EdgeD.blank, T.leaf "A"), (EdgeD.blank, T.leaf "B")]
def exZeroLen : T := .node ⟨"", []⟩ 0 [(mkE 0 0, T.leaf "A"), (mkE 0 1, T.leaf "B")]

/-- Where the documentation is silent and what the code (hence both models) does there: at a
    threshold ≤ 0 a branch without length is unspecified (`none`); the code joins the tips
    (−1 < 0), whereas it separates them when the lengths are written 0; for any threshold > 0
    both are documented as joined.  Recorded, not judged: at threshold 0 the oracle puts no
    constraint on the pair A, B of `exNoLen` (`none`), at threshold 1/8 it demands one bag. -/
theorem cut_absent_unspecified :
    pathShortDoc 0 exNoLen "A" "B" = none ∧ cut 0 exNoLen = [["A", "B"]] ∧
    pathShortDoc 0 exZeroLen "A" "B" = some false ∧ cut 0 exZeroLen = [["A"], ["B"]] ∧
    pathShortDoc (1/8) exNoLen "A" "B" = some true ∧ pathShortDoc (1/8) exZeroLen "A" "B" = some true ∧
    sameBag (cut (1/8) exNoLen) "A" "B" = true ∧ sameBag [["A"], ["B"]] "A" "B" = false := by decide +kernel

/-! ## Round 4 -/

/-- The average does not depend on the `Id` fields of the channel records: collections with the
    same trees in the same order and any Ids (unset, starting anywhere, with gaps, descending)
    have the same outcome — for unique names the mean over the NUMBER of trees of `avg_is_mean`. -/
theorem avg_ignores_ids (mi : Int) (items items' : List (Int × T)) (h : items.map (·.2) = items'.map (·.2)) :
    Go.avgDistanceMatrixIds mi items = Go.avgDistanceMatrixIds mi items' ∧
    ((∀ it ∈ items, it.2.tipNames.Nodup) →
      Go.avgDistanceMatrixIds mi items =
        match avgMatrix (metricOf mi) (items.map (·.2)) with
        | some r => .ok r
        | none => .err avgMsg) := by
  refine ⟨by unfold Go.avgDistanceMatrixIds; rw [h], fun hu => ?_⟩
  unfold Go.avgDistanceMatrixIds
  exact avgGo_is_avg_uniq mi _ (fun t ht => by
    obtain ⟨it, hit, rfl⟩ := List.mem_map.1 ht
    exact hu it hit)

/- two trees with the Ids 0,1 / 7,7: the mean divides by 2 -/
example : Go.avgDistanceMatrixIds 0 [(0, exAb), (1, exAb)] = .ok (["a", "b"], [[0, 3], [3, 0]]) ∧
    Go.avgDistanceMatrixIds 0 [(7, exAb), (7, exAb)] = .ok (["a", "b"], [[0, 3], [3, 0]]) := by decide +kernel

/-! ## Round 5 -/

/-- what the code does with a branch that has no length, read off the model: it is crossed by
    the flood iff `-1 < thr` -/
def lengthlessRule (thr : Rat) (t : T) (a b : String) : Bool :=
  t.splits.all fun s => !(s.sep a b) ||
    (if s.e.len == NIL then decide ((-1 : Rat) < thr) else decide (s.e.len < thr))

/-- The cut for EVERY threshold, thresholds ≤ 0 included, where the documentation is silent and
    the oracle judges nothing: two tips share a bag iff every branch between them has a length
    shorter than the threshold or has no length while `-1 < thr` — for the rose-tree model and,
    by `cutGo_is_cut`, for the statement-level `CutEdgesMaxLength`.  So at a threshold in (−1, 0]
    length-less branches join what zero-length branches separate (`cut_lengthless_witness`),
    whereas the matrix counts both as 0. -/
theorem cut_lengthless_rule (thr : Rat) (t : T) (hu : t.tipNames.Nodup) (a b : String)
    (ha : a ∈ t.tipNames) (hb : b ∈ t.tipNames) :
    sameBag (cut thr t) a b = lengthlessRule thr t a b ∧
    ∃ bags, Go.cutGo thr t = .ok bags ∧ sameBag bags a b = lengthlessRule thr t a b := by
  have hr : pathShort thr t a b = lengthlessRule thr t a b := by
    unfold pathShort lengthlessRule
    congr 1
    funext s
    by_cases h : s.e.len = NIL
    · simp [h, NIL]
    · have : (s.e.len == NIL) = false := by simpa using h
      simp [this]
  refine ⟨by rw [cut_components thr t hu a b ha hb, hr], ?_⟩
  obtain ⟨bags, h1, h2, _⟩ := cutGo_is_cut thr t hu
  exact ⟨bags, h1, by rw [sameBag_LPerm h2, cut_components thr t hu a b ha hb, hr]⟩

/-- `(a,b,(c:0,d:0):0);` — no length on a and b, zero lengths elsewhere -/
def exMixed : T :=
  .node ⟨"", []⟩ 0 [
    (EdgeD.blank, T.leaf "a"), (EdgeD.blank, T.leaf "b"),
    (mkE 0 2, .node ⟨"", []⟩ 0 [(mkE 0 3, T.leaf "c"), (mkE 0 4, T.leaf "d")])]

/-- the reproducer `echo "(a,b,(c:0,d:0):0);" | gotree brlen cut -l 0`: a and b together, c and d
    alone, although every pairwise distance of `gotree matrix` is 0 -/
theorem cut_lengthless_witness :
    cut 0 exMixed = [["a", "b"], ["c"], ["d"]] ∧ Go.cutGo 0 exMixed = .ok [["a", "b"], ["c"], ["d"]] ∧
    Go.matrixGo 0 exMixed = some (["a", "b", "c", "d"], [[0, 0, 0, 0], [0, 0, 0, 0], [0, 0, 0, 0], [0, 0, 0, 0]]) ∧
    pathShortDoc 0 exMixed "a" "b" = none ∧ pathShortDoc 0 exMixed "c" "d" = some false := by decide +kernel

/- the hypotheses of `cut_flood` on a concrete graph: the subtree ((A,B),C) below the tip root D
   of `exTipRoot` sits at node 1 of the pointer graph, its branches from index 1 on -/
example : Sub (Go.G.ofT exTipRoot).nodes 1 (Go.flatT (some 0) 1
    (.node ⟨"", []⟩ 0 [(mkE (1/2) 0, .node ⟨"", []⟩ 0 [(mkE 1 1, T.leaf "A"), (mkE 2 2, T.leaf "B")]), (mkE 3 3, T.leaf "C")])) :=
  ⟨[⟨"D", [(1, 0)]⟩], [], rfl, rfl⟩
example : ∃ b, (Go.G.ofT exTipRoot).edges[1 - 1]? = some b := ⟨_, rfl⟩

/-! ### round 7: `TipBag` as an API, what the measurements leave behind, facts regenerated from the source -/

/-- `AddTip` of a tip that is already in the bag: "If the same tip is already present: do nothing" -/
theorem tipbag_add_idem (g : Go.G) (b b' : Go.Bag) (t : Nat) (h : Go.addTip g b t = .ok b') :
    Go.addTip g b' t = .ok b' := addTip_idem g b b' t h

/-- whatever calls are made on a bag (`AddTip` of anything, `Clear`, `Size`, `Tips`), its names stay pairwise
    distinct: the association list of the model IS a map -/
theorem tipbag_keys_distinct (g : Go.G) (ops : List Go.BagOp) : (bagKeys (Go.bagAfter g ops [])).Nodup :=
  bagAfter_keys_nodup g ops [] (by simp [bagKeys])

/-- `Tips()` lists every name of the bag once, in increasing order, and `Size()` counts them -/
theorem tipbag_tips_sorted (b : Go.Bag) :
    (Go.bagNames b).Perm (bagKeys b) ∧ (Go.bagNames b).Pairwise (fun x y => x ≤ y) ∧ (Go.bagNames b).length = b.length :=
  ⟨bagNames_perm b, bagNames_sorted b, bagNames_length b⟩

/-- after `ToDistanceMatrix` the tip of row `j` carries the node id `j` (`tips[i].SetId(i)`): this is what
    `pathLengths` reads back through `lengths[cur.Id()]` -/
theorem matrix_leaves_rank_ids (t : T) (hu : t.tipNames.Nodup) (j : Nat)
    (hj : j < (Go.sortTips (Go.G.ofT t) (Go.G.ofT t).tips).length) :
    (Go.setIds (Go.G.ofT t).nodes.size (Go.sortTips (Go.G.ofT t) (Go.G.ofT t).tips)).getD
      ((Go.sortTips (Go.G.ofT t) (Go.G.ofT t).tips)[j]) 0 = j := ids_after_matrix t hu j hj

example : Go.tipIdsAfterMatrix (Go.G.ofT exTipRoot) = [3, 0, 1, 2] ∧ Go.edgeIdsAfterCut (Go.G.ofT exTipRoot) = [0, 1, 2, 3, 4] := by
  decide +kernel
example : Go.bagRun (Go.G.ofT exT) [.add (some 2), .add (some 2), .add (some 1), .add none, .size, .tips, .clear, .size] [] =
    [["ok"], ["ok"], ["err", "Internal node given to TipBag.AddTip"], ["err", "Nil node given to TipBag.AddTip"], ["1"], ["A"], [], ["0"]] := by
  decide +kernel

/-- the oracle of the op `C14.tipbag` holds on the model: whatever script of `AddTip` (nil, inner node, tip, the
    same tip again, another tip of the same name) / `Clear` / `Size` / `Tips` calls is run on a fresh bag, the
    results of `Go.bagRun` are what tree/tipbags.go documents (`Go.bagSpecOK`, which keeps no map) -/
theorem tipbag_meets_spec (g : Go.G) (ops : List Go.BagOp) : Go.bagSpecOK g ops (Go.bagRun g ops []) [] = true :=
  bagRun_spec g ops [] [] (BagInv.empty g)

/-- `gotree brlen cut -l inf | -inf | nan`: the rational that stands for the float in the model of one tree gives
    every test `Length() < maxlen` the float's truth value (all true for `+Inf`, also on the sentinel of an absent
    length; all false for `-Inf` and `NaN`) -/
theorem cut_threshold_special (t : T) (e : EdgeD) (he : e ∈ t.edges) :
    e.len < Cli.Thr.pinf.forTree t ∧ NIL < Cli.Thr.pinf.forTree t ∧
    ¬ (e.len < Cli.Thr.ninf.forTree t) ∧ ¬ (NIL < Cli.Thr.ninf.forTree t) ∧
    ¬ (e.len < Cli.Thr.nan.forTree t) ∧ ¬ (NIL < Cli.Thr.nan.forTree t) := Cli.forTree_special t e he

/-- the command model with the special values is the one of round 2 on every other spelling and on the
    omitted option -/
theorem cutCmdThr_conservative (s : String) (input : Except String (List Cli.InTree)) (h : Cli.parseSpecial s = none) :
    Cli.cutCmdThr (some s) input = Cli.cutCmd (some s) input ∧ Cli.cutCmdThr none input = Cli.cutCmd none input :=
  ⟨Cli.cutCmdThr_decimal s input h, Cli.cutCmdThr_omitted input⟩

example : Cli.parseSpecial "-Inf" = some .ninf ∧ Cli.parseSpecial "INFINITY" = some .pinf ∧ Cli.parseSpecial "nan" = some .nan ∧
    Cli.parseSpecial "+nan" = none ∧ Cli.parseSpecial "infin" = none ∧ Cli.parseSpecial "1e-3" = none := by decide +kernel
example : Cli.Thr.pinf.forTree exT = 4 ∧ Cli.Thr.nan.forTree exT = -2 ∧
    Go.cutGo (Cli.Thr.pinf.forTree exT) exT = .ok [["A", "B", "C", "D"]] ∧
    Go.cutGo (Cli.Thr.ninf.forTree exT) exT = .ok [["A"], ["B"], ["C"], ["D"]] := by decide +kernel

/-- round 7b: the reading of `-l` with hexadecimal floats and digit separators changes nothing on a text that has
    neither an underscore nor a `0x` prefix -/
theorem cutCmdThrX_conservative (s : String) (input : Except String (List Cli.InTree))
    (h1 : s.toList.contains '_' = false) (h2 : Cli.hasHexPrefix s.toList = false) :
    Cli.parseThrX s = Cli.parseThr s ∧ Cli.cutCmdThrX (some s) input = Cli.cutCmdThr (some s) input :=
  ⟨Cli.parseThrX_plain s h1 h2, Cli.cutCmdThrX_plain s input h1 h2⟩

example : Cli.parseThrX "0x1p-1" = some (.fin (1 / 2)) ∧ Cli.parseThrX "0X1.8P+1" = some (.fin 3) ∧
    Cli.parseThrX "0x_1p0" = some (.fin 1) ∧ Cli.parseThrX "-0x1p-2" = some (.fin (-1 / 4)) ∧
    Cli.parseThrX "0x1p" = none ∧ Cli.parseThrX "0x10" = none ∧ Cli.parseThrX "1__0" = none ∧ Cli.parseThrX "_1" = none ∧
    Cli.parseThrX "1_" = none ∧ Cli.parseThrX "1e_5" = none ∧ Cli.parseThrX "0_.5" = none ∧ Cli.parseThrX "in_f" = none := by
  decide +kernel
example : ("0.5".toList.contains '_' = false) ∧ Cli.hasHexPrefix "0.5".toList = false := by decide +kernel

end Gotree.C14
