/-
  C17 — the canonical presentation (`Spec/Splits.lean`): what the members of a canonical
  side are, when two canonical sides are equal, which sides are non-trivial, and what the
  members of `usplitSet` are.
-/
import Gotree.Lemmas.C05Splits
import Gotree.Spec.C17

namespace Gotree.C17
open Gotree

/-- members of the canonical side: the taxa on the side that does not hold the least taxon -/
theorem mem_canonSide {all X : List String} {m : String} (hm : minS all = some m) (z : String) :
    z ∈ canonSide all X ↔ z ∈ all ∧ (z ∈ X ↔ m ∉ X) := by
  have hmall : m ∈ all := (minS_spec hm).1
  unfold canonSide
  simp only [hm]
  by_cases hmX : m ∈ X
  · have h1 : (sortS (X.filter all.contains)).contains m = true := by
      simp [mem_sortS, hmX, hmall]
    simp only [h1, if_true, mem_sortS, complS, List.mem_filter, Bool.not_eq_true', List.contains_eq_mem,
      decide_eq_false_iff_not, decide_eq_true_eq]
    constructor
    · rintro ⟨h2, h3⟩
      exact ⟨h2, by simp [hmX]; intro hz; exact h3 ⟨hz, h2⟩⟩
    · rintro ⟨h2, h3⟩
      refine ⟨h2, fun h4 => ?_⟩
      have := h3.mp h4.1
      exact this hmX
  · have h1 : (sortS (X.filter all.contains)).contains m = false := by
      simp [mem_sortS, hmX]
    simp only [h1, Bool.false_eq_true, if_false, mem_sortS, List.mem_filter, List.contains_eq_mem, decide_eq_true_eq]
    constructor
    · rintro ⟨h2, h3⟩
      exact ⟨h3, by simp [hmX, h2]⟩
    · rintro ⟨h2, h3⟩
      exact ⟨h3.mpr hmX, h2⟩

/-- equal canonical sides: the same side or complementary sides -/
theorem canonSide_eq_cases {all X Y : List String} (hne : all ≠ []) (h : canonSide all X = canonSide all Y) :
    (∀ z ∈ all, z ∈ X ↔ z ∈ Y) ∨ (∀ z ∈ all, z ∈ X ↔ z ∉ Y) := by
  cases hm : minS all with
  | none => exact absurd (minS_eq_none.1 hm) hne
  | some m =>
    have key : ∀ z, z ∈ all → ((z ∈ X ↔ m ∉ X) ↔ (z ∈ Y ↔ m ∉ Y)) := by
      intro z hz
      have h1 := mem_canonSide (X := X) hm z
      have h2 := mem_canonSide (X := Y) hm z
      rw [h] at h1
      constructor
      · intro hx; exact (h2.mp (h1.mpr ⟨hz, hx⟩)).2
      · intro hy; exact (h1.mp (h2.mpr ⟨hz, hy⟩)).2
    by_cases hmX : m ∈ X <;> by_cases hmY : m ∈ Y
    · left; intro z hz; have := key z hz; grind
    · right; intro z hz; have := key z hz; grind
    · right; intro z hz; have := key z hz; grind
    · left; intro z hz; have := key z hz; grind

theorem two_le_length {α : Type} {l : List α} {a b : α} (ha : a ∈ l) (hb : b ∈ l) (hab : a ≠ b) : 2 ≤ l.length := by
  match l, ha, hb with
  | [], ha, _ => simp at ha
  | [x], ha, hb =>
    simp only [List.mem_singleton] at ha hb
    exact absurd (ha.trans hb.symm) hab
  | _ :: _ :: _, _, _ => simp

theorem sortS_nodup {l : List String} (h : l.Nodup) : (sortS l).Nodup :=
  (sortS_perm l).nodup_iff.mpr h

theorem canonSide_nodup {all X : List String} (ha : all.Nodup) (hx : X.Nodup) : (canonSide all X).Nodup := by
  unfold canonSide
  cases minS all with
  | none => exact sortS_nodup (hx.filter _)
  | some m =>
    simp only
    split
    · exact sortS_nodup (ha.filter _)
    · exact sortS_nodup (hx.filter _)

theorem length_split {all Y : List String} (ha : all.Nodup) (hy : Y.Nodup) (hsub : ∀ z ∈ Y, z ∈ all) :
    all.length = Y.length + (all.filter fun z => !Y.contains z).length := by
  have h1 : (all.filter fun z => Y.contains z).Perm Y := by
    apply (List.perm_ext_iff_of_nodup (ha.filter _) hy).2
    intro z
    simp only [List.mem_filter, List.contains_eq_mem, decide_eq_true_eq]
    exact ⟨fun h => h.2, fun h => ⟨hsub z h, h⟩⟩
  have h2 := List.filter_append_perm (fun z => Y.contains z) all
  have := h2.length_eq
  simp only [List.length_append] at this
  rw [← this, h1.length_eq]

/-- a side with two taxa on it and two taxa off it is non-trivial -/
theorem lightSize_canonSide {all X : List String} (ha : all.Nodup) (hx : X.Nodup)
    {a b p q : String} (ha1 : a ∈ all) (hb1 : b ∈ all) (hab : a ≠ b) (haX : a ∈ X) (hbX : b ∈ X)
    (hp1 : p ∈ all) (hq1 : q ∈ all) (hpq : p ≠ q) (hpX : p ∉ X) (hqX : q ∉ X) :
    2 ≤ lightSize all (canonSide all X) := by
  have hne : all ≠ [] := List.ne_nil_of_mem ha1
  cases hm : minS all with
  | none => exact absurd (minS_eq_none.1 hm) hne
  | some m =>
    have hmem := mem_canonSide (X := X) hm
    have hY := canonSide_nodup (X := X) ha hx
    have hsub : ∀ z ∈ canonSide all X, z ∈ all := fun z hz => ((hmem z).mp hz).1
    have hfil : (canonSide all X).filter all.contains = canonSide all X :=
      List.filter_eq_self.2 (fun z hz => by simpa using hsub z hz)
    have hlen := length_split ha hY hsub
    unfold lightSize
    rw [hfil]
    show 2 ≤ min (canonSide all X).length (all.length - (canonSide all X).length)
    by_cases hmX : m ∈ X
    · have hin : p ∈ canonSide all X ∧ q ∈ canonSide all X :=
        ⟨(hmem p).mpr ⟨hp1, by simp [hpX, hmX]⟩, (hmem q).mpr ⟨hq1, by simp [hqX, hmX]⟩⟩
      have hout : a ∈ (all.filter fun z => !(canonSide all X).contains z) ∧
          b ∈ (all.filter fun z => !(canonSide all X).contains z) := by
        simp only [List.mem_filter, Bool.not_eq_true', List.contains_eq_mem, decide_eq_false_iff_not, hmem]
        exact ⟨⟨ha1, by simp [haX, hmX]⟩, ⟨hb1, by simp [hbX, hmX]⟩⟩
      have l1 := two_le_length hin.1 hin.2 hpq
      have l2 := two_le_length hout.1 hout.2 hab
      omega
    · have hin : a ∈ canonSide all X ∧ b ∈ canonSide all X :=
        ⟨(hmem a).mpr ⟨ha1, by simp [haX, hmX]⟩, (hmem b).mpr ⟨hb1, by simp [hbX, hmX]⟩⟩
      have hout : p ∈ (all.filter fun z => !(canonSide all X).contains z) ∧
          q ∈ (all.filter fun z => !(canonSide all X).contains z) := by
        simp only [List.mem_filter, Bool.not_eq_true', List.contains_eq_mem, decide_eq_false_iff_not, hmem]
        exact ⟨⟨hp1, by simp [hpX, hmX]⟩, ⟨hq1, by simp [hqX, hmX]⟩⟩
      have l1 := two_le_length hin.1 hin.2 hab
      have l2 := two_le_length hout.1 hout.2 hpq
      omega

/- ## members of `usplitSet` -/

theorem mem_ufoldU_side : ∀ (l acc : List USplit) (a : List String),
    a ∈ (ufoldU l acc).map (·.side) ↔ a ∈ acc.map (·.side) ∨ a ∈ l.map (·.side)
  | [], acc, a => by simp [ufoldU_nil]
  | s :: l, acc, a => by
    rw [ufoldU_cons, mem_ufoldU_side l (insertU s acc) a, mem_insertU_side]
    simp only [List.map_cons, List.mem_cons]
    constructor
    · rintro ((h | h) | h)
      · exact Or.inl h
      · exact Or.inr (Or.inl h)
      · exact Or.inr (Or.inr h)
    · rintro (h | h | h)
      · exact Or.inl (Or.inl h)
      · exact Or.inl (Or.inr h)
      · exact Or.inr h

theorem ufoldU_sidesNodup : ∀ (l acc : List USplit), SidesNodup acc → SidesNodup (ufoldU l acc)
  | [], _, h => h
  | s :: l, acc, h => by
    rw [ufoldU_cons]
    exact ufoldU_sidesNodup l _ (insertU_sidesNodup s acc h)

/-- the members of the split set: canonical sides of the branches, the non-trivial ones -/
theorem mem_usplitSet (t : T) (a : List String) :
    a ∈ t.usplitSet ↔ (∃ s ∈ t.splits, canonSide t.tipNames s.below = a) ∧ 2 ≤ lightSize t.tipNames a := by
  unfold T.usplitSet T.usplits
  rw [T.usplitsAll_eq]
  simp only [List.mem_map, List.mem_filter, List.mem_mergeSort, decide_eq_true_eq]
  constructor
  · rintro ⟨u, ⟨hu, hl⟩, rfl⟩
    refine ⟨?_, hl⟩
    have : u.side ∈ (ufoldU (t.splits.map (toU t.tipNames)) []).map (·.side) := List.mem_map.2 ⟨u, hu, rfl⟩
    rw [mem_ufoldU_side] at this
    simp only [List.map_nil, List.not_mem_nil, false_or, List.map_map, List.mem_map, Function.comp] at this
    obtain ⟨s, hs, h⟩ := this
    exact ⟨s, hs, h⟩
  · rintro ⟨⟨s, hs, rfl⟩, hl⟩
    have : canonSide t.tipNames s.below ∈ (ufoldU (t.splits.map (toU t.tipNames)) []).map (·.side) := by
      rw [mem_ufoldU_side]
      right
      simp only [List.map_map, List.mem_map, Function.comp]
      exact ⟨s, hs, rfl⟩
    obtain ⟨u, hu, h⟩ := List.mem_map.1 this
    exact ⟨u, ⟨hu, by rw [h]; exact hl⟩, h⟩

theorem usplitSet_nodup (t : T) : t.usplitSet.Nodup := by
  unfold T.usplitSet T.usplits
  rw [T.usplitsAll_eq]
  have h1 : SidesNodup (ufoldU (t.splits.map (toU t.tipNames)) []) :=
    ufoldU_sidesNodup _ [] (by simp [SidesNodup])
  have h2 : ((ufoldU (t.splits.map (toU t.tipNames)) []).mergeSort uLe).map (·.side) |>.Nodup :=
    ((List.mergeSort_perm _ _).map _).nodup_iff.mpr h1
  exact h2.sublist (List.filter_sublist.map _)

end Gotree.C17
