// Package c04: branch split indexes, hashes, the split-keyed hash map, quartets.
//
// Ops (case lines):
//
//	C04.index   dump0 script | outcome dumpAfter ranks obs
//	C04.pairs   dump1 dump2  | outcome hc1 hc2 hashEqualsMatrix sameBipMatrix
//	C04.hm      cap lf mode ops | replies
//	C04.ei      dumps cap lf ops | outcome replies
//	C04.quartet q q2 cap lf | hashes1 hashes2 cmp11 cmp12 heq11 heq12 mapreplies
//	C04.splits  dump copies | outcome DumpBitSet-per-branch exit stdout-of-`gotree stats splits` (the tree `copies` times in the input)
package c04

import (
	"fmt"
	"math/rand"
	"os"
	"reflect"
	"sort"
	"strconv"
	"strings"
	"sync"
	"time"
	"unsafe"

	"verifharness/core"

	"github.com/evolbioinfo/gotree/hashmap"
	"github.com/evolbioinfo/gotree/tree"
)

// ---------------------------------------------------------------------------
// walking a Go tree in the order of the α dump

type edgeAt struct {
	e     *tree.Edge
	below *tree.Node
}

// walkEdges lists the branches in α pre-order (= order of the split list of the model).
func walkEdges(t *tree.Tree) []edgeAt {
	var out []edgeAt
	var rec func(cur, prev *tree.Node)
	rec = func(cur, prev *tree.Node) {
		for i, nb := range cur.Neigh() {
			if nb == prev {
				continue
			}
			out = append(out, edgeAt{cur.Edges()[i], nb})
			rec(nb, cur)
		}
	}
	rec(t.Root(), nil)
	return out
}

func bitString(e *tree.Edge, n int) string {
	if e.Bitset() == nil {
		return "nil"
	}
	var b strings.Builder
	if int(e.Bitset().Len()) != n {
		// a width that differs from the number of indexed tips is an observation of its own
		fmt.Fprintf(&b, "w%d_", e.Bitset().Len())
	}
	for i := 0; i < int(e.Bitset().Len()); i++ {
		if e.TipPresent(uint(i)) {
			b.WriteByte('1')
		} else {
			b.WriteByte('0')
		}
	}
	return b.String()
}

// ---------------------------------------------------------------------------
// trees

func treeOpts(g *core.G, quick bool) core.TreeOpts {
	o := core.DefaultOpts()
	o.Lengths = 2
	o.Supports = 2
	o.MinTips = 3
	if quick {
		o.MaxTips = 12
		if g.Chance(0.03) {
			o.MinTips, o.MaxTips = 60, 70 // crosses the 64-bit word of the bitset
		}
	} else {
		o.MaxTips = 12
		if g.Chance(0.1) {
			o.MaxTips = 70 // crosses the 64-bit word of the bitset
		}
	}
	if g.Chance(0.2) {
		o.Singles = 0.15
	}
	if g.Chance(0.15) {
		o.FunnyNames = true
	}
	if g.Chance(0.05) {
		o.MinTips, o.MaxTips = 2, 3 // the smallest trees (2 tips: below the property's range, indexed all the same)
	}
	return o
}

// rootTip puts a named tip at the root: the root has a single neighbour.
func rootTip(n *core.N, name string, g *core.G) *core.N {
	if n.E != nil {
		return n
	}
	n.E = core.NewE()
	n.E.Len = float64(g.Intn(9)) / 8
	return &core.N{Name: name, Kids: []*core.N{n}}
}

func genTree(c *core.Ctx) *core.N {
	g := c.G
	o := treeOpts(g, c.Quick())
	n, _ := g.Tree(o)
	if g.Chance(0.12) {
		n = rootTip(n, "rt", g)
	}
	if g.Chance(0.25) {
		lookAlikeNames(g, n)
	}
	core.NumberEdges(n)
	return n
}

// look-alike tip names: numbers, numbers with leading zeros or a sign, alphanumeric mixes — a comparator
// that is "numeric-aware" orders them differently from the bytewise order (or not consistently at all)
var lookAlikes = []string{"1", "2", "7", "07", "10", "010", "1a", "1e1", "2a", "02", "20", "9", "+5", "-3", "a1",
	"3", "03", "003", "11", "011", "1A", "100", "1e2", "0x10", "2 ", " 2"}

func lookAlikeNames(g *core.G, n *core.N) {
	perm := g.R.Perm(len(lookAlikes))
	i := 0
	used := map[string]bool{}
	for _, nm := range n.TipNames() {
		used[nm] = true
	}
	var rec func(x *core.N, isRoot bool)
	rec = func(x *core.N, isRoot bool) {
		if len(x.Kids) == 0 && !isRoot && i < len(perm) && g.Chance(0.8) {
			if !used[lookAlikes[perm[i]]] { // (the core generator's odd names include "1e1", "100" …)
				x.Name = lookAlikes[perm[i]]
				used[x.Name] = true
			}
			i++
		}
		for _, k := range x.Kids {
			rec(k, false)
		}
	}
	rec(n, true)
}

// ---------------------------------------------------------------------------
// C04.index

// applyScript runs an edit script on the real tree; unknown / failing steps are reported in the log.
func applyScript(t *tree.Tree, script []string) (log []string) {
	return applyScriptWatch(t, script, nil)
}

// applyScriptWatch calls watch(i) after step i.
func applyScriptWatch(t *tree.Tree, script []string, watch func(i int)) (log []string) {
	for si, st := range script {
		f := strings.Split(st, ":")
		res := "ok"
		p, msg := core.Safe(func() {
			switch f[0] {
			case "reinit":
				if err := t.ReinitIndexes(); err != nil {
					res = "err"
				}
			case "reroot":
				path := parsePath(f[1])
				n, _, err := core.NodeAt(t, path)
				if err != nil {
					res = "nopath"
					return
				}
				if err := t.Reroot(n); err != nil {
					res = "err"
				}
			case "rotate":
				s, _ := strconv.ParseInt(f[1], 10, 64)
				rand.Seed(s)
				t.RotateInternalNodes()
			case "shuffle":
				s, _ := strconv.ParseInt(f[1], 10, 64)
				rand.Seed(s)
				t.ShuffleTips()
			case "remove":
				name, _ := core.Unescape(f[1])
				if err := t.RemoveTips(false, name); err != nil {
					res = "err"
				}
			case "unroot":
				if t.Rooted() {
					t.UnRoot()
				} else {
					res = "skip"
				}
			case "collapse":
				l, _ := core.ParseRat(f[1])
				t.CollapseShortBranches(l, false, false)
			case "resolve":
				s, _ := strconv.ParseInt(f[1], 10, 64)
				rand.Seed(s)
				t.Resolve()
			case "rename":
				path := parsePath(f[1])
				n, _, err := core.NodeAt(t, path)
				if err != nil {
					res = "nopath"
					return
				}
				name, _ := core.Unescape(f[2])
				n.SetName(name)
			case "graft":
				path := parsePath(f[1])
				_, e, err := core.NodeAt(t, path)
				if err != nil || e == nil {
					res = "nopath"
					return
				}
				name, _ := core.Unescape(f[2])
				nn := t.NewNode()
				nn.SetName(name)
				if _, _, _, err := t.GraftTipOnEdge(nn, e); err != nil {
					res = "err"
				}
			case "singles":
				t.RemoveSingleNodes()
			case "midpoint":
				if err := t.RerootMidPoint(); err != nil {
					res = "err"
				}
			case "outgroup":
				var names []string
				for _, x := range strings.Split(f[1], ",") {
					if x != "" {
						nm, _ := core.Unescape(x)
						names = append(names, nm)
					}
				}
				if err := t.RerootOutGroup(false, false, names...); err != nil {
					res = "err"
				}
			case "clone":
				*t = *(t.Clone())
			case "internal":
				// marker read by doIndex
			default:
				res = "unknown"
			}
		})
		if p {
			res = "panic:" + core.Escape(msg)
		}
		log = append(log, res)
		if watch != nil {
			watch(si)
		}
	}
	return
}

func parsePath(s string) []int {
	var out []int
	for _, x := range strings.Split(s, ".") {
		if x == "" {
			continue
		}
		v, _ := strconv.Atoi(x)
		out = append(out, v)
	}
	return out
}

func showPath(p []int) string {
	var b strings.Builder
	for _, x := range p {
		fmt.Fprintf(&b, "%d.", x)
	}
	return b.String()
}

// genScript draws an edit history for the tree n (paths refer to the evolving tree, so they are
// drawn small and may fail to resolve: such steps are no-ops).
func genScript(c *core.Ctx, n *core.N) []string {
	g := c.G
	var s []string
	k := g.Intn(5)
	if g.Chance(0.7) {
		s = append(s, "reinit") // so that stale bitsets / counts / tip ids exist before the edits
	}
	paths := n.Paths()
	tips := n.TipNames()
	for i := 0; i < k; i++ {
		switch g.Intn(14) {
		case 10:
			s = append(s, "singles")
		case 11:
			s = append(s, "midpoint")
		case 12:
			// an outgroup of one or two tips (escaped names joined by commas inside the step)
			og := core.Escape(tips[g.Intn(len(tips))])
			if g.Chance(0.5) {
				og += "," + core.Escape(tips[g.Intn(len(tips))])
			}
			s = append(s, "outgroup:"+og)
		case 13:
			s = append(s, "clone")
		case 0, 1:
			p := paths[g.Intn(len(paths))]
			if len(p) > 2 {
				p = p[:2]
			}
			s = append(s, "reroot:"+showPath(p))
		case 2:
			s = append(s, fmt.Sprintf("rotate:%d", g.Intn(1000)))
		case 3:
			s = append(s, fmt.Sprintf("shuffle:%d", g.Intn(1000)))
		case 4:
			if len(tips) > 4 {
				j := g.Intn(len(tips))
				s = append(s, "remove:"+core.Escape(tips[j]))
				tips = append(tips[:j:j], tips[j+1:]...)
			}
		case 5:
			s = append(s, "unroot")
		case 6:
			s = append(s, "collapse:"+core.Rat(float64(g.Intn(12))/8))
		case 7:
			s = append(s, fmt.Sprintf("resolve:%d", g.Intn(1000)))
		case 8:
			p := paths[g.Intn(len(paths))]
			if len(p) > 2 {
				p = p[:2]
			}
			nm := fmt.Sprintf("zz%d", i)
			if g.Chance(0.3) {
				nm = fmt.Sprintf("A%d", i) // sorts before every generated name: all ranks shift
			} else if g.Chance(0.3) {
				nm = fmt.Sprintf("T%d", 5+i) // upper case: bytewise before t0.., after it when case is folded
			}
			s = append(s, "rename:"+showPath(p)+":"+core.Escape(nm))
		case 9:
			p := paths[g.Intn(len(paths))]
			if len(p) > 2 {
				p = p[:2]
			}
			s = append(s, "graft:"+showPath(p)+":"+core.Escape(fmt.Sprintf("g%d", i)))
		}
	}
	// only shape edits after a first ReinitIndexes: ReinitInternalIndexes must give the same indexes
	if len(s) > 1 && s[0] == "reinit" && g.Chance(0.5) {
		ok := true
		for _, st := range s[1:] {
			switch strings.SplitN(st, ":", 2)[0] {
			case "reroot", "rotate", "unroot", "collapse", "resolve", "singles", "midpoint":
			default:
				ok = false
			}
		}
		if ok {
			s = append(s, "internal")
		}
	}
	return s
}

// observeIndex reads what the indexes say right now: the tip names by rank and, per branch in alpha
// order, bitset / NumTipsLeft / NumTipsRight / TopoDepth / HashCode.
func observeIndex(t *tree.Tree) (string, string) {
	tips := t.Tips()
	ranks := make([]string, len(tips))
	okRanks := true
	for _, tp := range tips {
		i, err := t.TipIndex(tp.Name())
		if err != nil || i < 0 || i >= len(ranks) {
			okRanks = false
			break
		}
		ranks[i] = tp.Name()
	}
	rk := core.StrList(ranks)
	if !okRanks {
		rk = "BADRANKS,"
	}
	var b strings.Builder
	for _, ea := range walkEdges(t) {
		td, terr := ea.e.TopoDepth()
		tds := strconv.Itoa(td)
		if terr != nil {
			tds = "e"
		}
		fmt.Fprintf(&b, "%s:%d:%d:%s:%d;", bitString(ea.e, len(tips)), ea.e.NumTipsLeft(), ea.e.NumTipsRight(), tds, ea.e.HashCode())
	}
	return rk, b.String()
}

// observeDepths: Node.Depth() of every node in alpha pre-order (-1 = "has not been computed").
func observeDepths(t *tree.Tree) string {
	var b strings.Builder
	one := func(n *tree.Node) {
		d, err := n.Depth()
		if err != nil {
			d = -1
		}
		fmt.Fprintf(&b, "%d,", d)
	}
	one(t.Root())
	for _, ea := range walkEdges(t) {
		one(ea.below)
	}
	return b.String()
}

// ownRecompute: the last step of the history is an edit that recomputes the indexes by itself, it
// succeeded, and the tip index it relies on was current (computed by an earlier step, no rename / graft
// since).  Then what the tree says straight after it — before any explicit ReinitIndexes — is judged too.
func ownRecompute(script, log []string) bool {
	cur := false
	last := false
	for i, st := range script {
		op := strings.SplitN(st, ":", 2)[0]
		ok := i < len(log) && log[i] == "ok"
		last = false
		switch op {
		case "reinit":
			if ok {
				cur, last = true, true
			}
		case "shuffle", "unroot", "remove":
			// ReinitIndexes / UpdateTipIndex + ReinitInternalIndexes inside
			if ok {
				cur, last = true, true
			} else if op == "remove" {
				cur = false
			}
		case "reroot", "resolve", "collapse", "singles", "midpoint", "outgroup":
			// ReinitInternalIndexes inside: needs a current tip index
			if !ok && op != "reroot" {
				cur = false
			}
			last = ok && cur
		case "rotate", "internal":
		case "clone":
			cur = ok // Clone ends with UpdateTipIndex on the copy (tipIndex is never nil)
		default: // rename, graft, unknown
			cur = false
		}
	}
	return last
}

func doIndex(c *core.Ctx, n *core.N, script []string) {
	t, err := core.Build(n)
	if err != nil {
		panic(err)
	}
	// the heap is looked at after every step: the first step that leaves it malformed is reported
	firstBad := -1
	log := applyScriptWatch(t, script, func(i int) {
		if firstBad < 0 {
			if _, w := core.Alpha(t); !w.OK() && !orientationOnly(w) {
				firstBad = i
			}
		}
	})
	after, wf := core.Alpha(t)
	if !wf.OK() && !orientationOnly(wf) {
		// A heap whose only problem is the orientation of branches still has a tree shape: it goes on, and
		// the enumerations / indexes computed from it are judged against that shape.  Otherwise the driver
		// decides from the step that broke it: a step that returned an error is C03's business, a step that
		// reported success is judged here.
		c.Emit("C04.index", n.Dump(), core.StrList(script), "malformed", core.Escape(strings.Join(wf.Problems, "; ")), core.StrList(log), strconv.Itoa(firstBad), "", "", "", "", "", "")
		return
	}
	rk0, obs0 := "", ""
	if ownRecompute(script, log) {
		if p, _ := core.Safe(func() { rk0, obs0 = observeIndex(t) }); p {
			rk0, obs0 = "PANIC,", "panic"
		}
	}
	depths0 := observeDepths(t) // what the nodes carry before the final recompute (ComputeDepths fills only unset depths of an unrooted tree)
	var rerr error
	// a script ending with "internal" (tip set and names untouched since the last ReinitIndexes):
	// the indexes are recomputed with ReinitInternalIndexes, which keeps the tip index
	internal := len(script) > 0 && script[len(script)-1] == "internal"
	if p, msg := core.Safe(func() {
		if internal {
			t.ReinitInternalIndexes()
		} else {
			rerr = t.ReinitIndexes()
		}
	}); p {
		c.Emit("C04.index", n.Dump(), core.StrList(script), "panic:"+core.Escape(msg), after.Dump(), "", "", "", "", rk0, obs0, "", "")
		return
	}
	if rerr != nil {
		c.Emit("C04.index", n.Dump(), core.StrList(script), "err", after.Dump(), "", "", "", "", rk0, obs0, "", "")
		return
	}
	rk, obsStr := observeIndex(t)
	// the three enumerations as positions in the alpha walk (judged by the driver against the dump)
	walk := walkEdges(t)
	pos := map[*tree.Edge]int{}
	for i, ea := range walk {
		pos[ea.e] = i
	}
	list := func(tag string, got []*tree.Edge) string {
		var sb strings.Builder
		sb.WriteString(tag)
		for _, e := range got {
			if p, ok := pos[e]; ok {
				fmt.Fprintf(&sb, "%d,", p)
			} else {
				sb.WriteString("-1,")
			}
		}
		return sb.String()
	}
	enum := list("", t.Edges()) + ";" + list("", t.InternalEdges()) + ";" + list("", t.TipEdges()) + ";"
	// the tree itself must not have been changed by the re-indexing
	after2 := "malformed"
	if a2, wf2 := core.Alpha(t); wf2.OK() || orientationOnly(wf2) {
		after2 = a2.Dump()
	}
	c.Emit("C04.index", n.Dump(), core.StrList(script), "ok", after.Dump(), rk, obsStr, enum, after2, rk0, obs0, depths0, observeDepths(t))
}

// orientationOnly: every problem of the heap is a branch not oriented away from the root.
func orientationOnly(wf *core.WF) bool {
	for _, p := range wf.Problems {
		if !strings.Contains(p, "not oriented away from the root") {
			return false
		}
	}
	return len(wf.Problems) > 0
}

// rootTipRemoval: an edit history that removes a tip attached to the root (after re-rooting on
// the tip's parent when needed), optionally after the indexes have been computed once.
func rootTipRemoval(c *core.Ctx, n *core.N) []string {
	g := c.G
	var s []string
	if g.Chance(0.6) {
		s = append(s, "reinit")
	}
	// paths of the leaves, with the path of their parent
	var cands [][]int
	for _, p := range n.Paths() {
		if len(p) > 0 && len(n.At(p).Kids) == 0 {
			cands = append(cands, p)
		}
	}
	if len(cands) == 0 || len(n.TipNames()) < 4 {
		return s
	}
	p := cands[g.Intn(len(cands))]
	if len(p) > 1 {
		s = append(s, "reroot:"+showPath(p[:len(p)-1]))
	}
	s = append(s, "remove:"+core.Escape(n.At(p).Name))
	if g.Chance(0.3) {
		s = append(s, fmt.Sprintf("rotate:%d", g.Intn(1000)))
	}
	return s
}

func indexCase(c *core.Ctx) {
	n := genTree(c)
	if !c.Quick() && c.G.Chance(0.004) {
		// a few hundred tips (several words of the bitset, deep recursion)
		o := treeOpts(c.G, false)
		o.MinTips, o.MaxTips = 200, 300
		n, _ = c.G.Tree(o)
		core.NumberEdges(n)
	}
	dup := false
	if c.G.Chance(0.04) {
		// duplicate tip names: ReinitIndexes must refuse
		tn := n.TipNames()
		dupName(n, tn[0])
		dup = true
	}
	if c.G.Chance(0.2) {
		doIndex(c, n, rootTipRemoval(c, n))
		return
	}
	script := genScript(c, n)
	seen := map[string]bool{}
	for _, nm := range n.TipNames() {
		if seen[nm] {
			dup = true
		}
		seen[nm] = true
	}
	if dup && len(script) > 0 && script[len(script)-1] == "internal" {
		script = script[:len(script)-1] // ReinitInternalIndexes presupposes a usable tip index
	}
	doIndex(c, n, script)
}

// dupName renames the last leaf to the given name.
func dupName(n *core.N, name string) {
	cur := n
	for len(cur.Kids) > 0 {
		cur = cur.Kids[len(cur.Kids)-1]
	}
	cur.Name = name
}

// ---------------------------------------------------------------------------
// C04.pairs

func matrix(rows, cols []edgeAt, f func(a, b *tree.Edge) bool) string {
	var b strings.Builder
	for _, r := range rows {
		for _, cl := range cols {
			if f(r.e, cl.e) {
				b.WriteByte('1')
			} else {
				b.WriteByte('0')
			}
		}
		b.WriteByte(';')
	}
	return b.String()
}

func hashList(es []edgeAt) string {
	var b strings.Builder
	for _, e := range es {
		fmt.Fprintf(&b, "%d,", e.e.HashCode())
	}
	return b.String()
}

func doPairs(c *core.Ctx, n1, n2 *core.N) {
	t1, err := core.Build(n1)
	if err != nil {
		panic(err)
	}
	t2, err := core.Build(n2)
	if err != nil {
		panic(err)
	}
	var e1, e2 error
	var heq, sb, fe, ce string
	var es1, es2 []edgeAt
	if p, msg := core.Safe(func() {
		e1 = t1.ReinitIndexes()
		e2 = t2.ReinitIndexes()
		if e1 != nil || e2 != nil {
			return
		}
		es1, es2 = walkEdges(t1), walkEdges(t2)
		heq = matrix(es1, es2, func(a, b *tree.Edge) bool { return a.HashEquals(b) })
		sb = matrix(es1, es2, func(a, b *tree.Edge) bool { return a.SameBipartition(b) })
		// FindEdge of every branch of t1 among all the branches of t2
		others := make([]*tree.Edge, len(es2))
		for i, e := range es2 {
			others[i] = e.e
		}
		var b strings.Builder
		for _, e := range es1 {
			r, err := e.e.FindEdge(others)
			switch {
			case err != nil:
				b.WriteByte('e')
			case r != nil:
				b.WriteByte('1')
			default:
				b.WriteByte('0')
			}
		}
		fe = b.String()
		// CommonEdges, without and with the tip branches
		for _, te := range []bool{false, true} {
			t1o, cm, err := t1.CommonEdges(t2, te)
			if err != nil {
				ce += "err;"
			} else {
				ce += fmt.Sprintf("%d,%d;", t1o, cm)
			}
		}
	}); p {
		c.Emit("C04.pairs", n1.Dump(), n2.Dump(), "panic:"+core.Escape(msg), "", "", "", "", "", "")
		return
	}
	if e1 != nil || e2 != nil {
		c.Emit("C04.pairs", n1.Dump(), n2.Dump(), "err", "", "", "", "", "", "")
		return
	}
	c.Emit("C04.pairs", n1.Dump(), n2.Dump(), "ok", hashList(es1), hashList(es2), heq, sb, fe, ce)
}

// sameTaxaTree draws another tree on the tips of n.
func sameTaxaTree(c *core.Ctx, n *core.N) *core.N {
	g := c.G
	names := n.TipNames()
	o := treeOpts(g, c.Quick())
	o.FunnyNames = false
	o.MinTips, o.MaxTips = len(names), len(names)
	m, _ := g.Tree(o)
	// rename the leaves of m with a permutation of the names of n
	perm := g.R.Perm(len(names))
	i := 0
	var rec func(x *core.N)
	rec = func(x *core.N) {
		if len(x.Kids) == 0 {
			x.Name = names[perm[i]]
			i++
		}
		for _, k := range x.Kids {
			rec(k)
		}
	}
	rec(m)
	core.NumberEdges(m)
	return m
}

func pairsCase(c *core.Ctx) {
	g := c.G
	n1 := genTree(c)
	var n2 *core.N
	switch g.Intn(4) {
	case 0: // the same tree: every branch against every branch (both root branches of a rooted tree)
		n2 = n1.Clone()
	case 1: // a different tree on the same taxa
		if len(n1.Kids) == 1 {
			n2 = n1.Clone()
		} else {
			n2 = sameTaxaTree(c, n1)
		}
	default: // an edited copy: re-rooted, rotated, collapsed, resolved, unrooted
		t, err := core.Build(n1)
		if err != nil {
			panic(err)
		}
		paths := n1.Paths()
		var script []string
		for i := 0; i < 1+g.Intn(3); i++ {
			switch g.Intn(5) {
			case 0, 1:
				script = append(script, "reroot:"+showPath(paths[g.Intn(len(paths))]))
			case 2:
				script = append(script, fmt.Sprintf("rotate:%d", g.Intn(1000)))
			case 3:
				script = append(script, "collapse:"+core.Rat(float64(g.Intn(8))/8))
			case 4:
				script = append(script, "unroot")
			}
		}
		applyScript(t, script)
		a, wf := core.Alpha(t)
		if !wf.OK() {
			n2 = n1.Clone()
		} else {
			n2 = a
		}
	}
	if g.Chance(0.07) {
		// other taxa (CommonEdges must refuse; nothing else is judged): one tip renamed (same number of tips),
		// or one more tip in the second / in the first tree (the tips of one are a strict subset of the other's)
		switch g.Intn(3) {
		case 0:
			dupName(n2, "other")
		case 1:
			n2.Kids = append(n2.Kids, &core.N{Name: "extra", E: core.NewE()})
			core.NumberEdges(n2)
		default:
			n1.Kids = append(n1.Kids, &core.N{Name: "extra", E: core.NewE()})
			core.NumberEdges(n1)
		}
	}
	doPairs(c, n1, n2)
}

// heavyChild draws a tree with a node of degree d (3..7) one of whose children carries at least
// half of the tips (so that the *upper* side of that branch is the light one), at a random
// position among its siblings, the node being the root or nested below it.
func heavyChild(g *core.G) *core.N {
	d := 3 + g.Intn(5)
	o := core.DefaultOpts()
	o.Rooted = 1
	o.MinTips, o.MaxTips = 2, 5
	o.Multif = 0.4
	nested := g.Chance(0.6)
	nk := d
	if nested {
		nk = d - 1
	}
	x := &core.N{}
	heavyAt := g.Intn(nk)
	for i := 0; i < nk; i++ {
		if i == heavyAt {
			h, _ := g.Tree(o)
			x.Kids = append(x.Kids, h)
		} else {
			x.Kids = append(x.Kids, &core.N{})
		}
	}
	root := x
	if nested {
		root = &core.N{}
		k := 2 + g.Intn(2)
		at := g.Intn(k)
		for i := 0; i < k; i++ {
			if i == at {
				root.Kids = append(root.Kids, x)
			} else {
				root.Kids = append(root.Kids, &core.N{})
			}
		}
	}
	// fresh names and branch data everywhere
	i := 0
	var rec func(n *core.N, isRoot bool)
	rec = func(n *core.N, isRoot bool) {
		n.E = nil
		if !isRoot {
			n.E = core.NewE()
			if !g.Chance(0.15) {
				n.E.Len = float64(g.Intn(40)) / 8
			}
		}
		n.Name = ""
		if len(n.Kids) == 0 {
			n.Name = fmt.Sprintf("t%d", i)
			i++
		}
		for _, k := range n.Kids {
			rec(k, false)
		}
	}
	rec(root, true)
	return root
}

// rootingsCase compares a tree with every re-rooting of itself (one C04.pairs line per rooting):
// every split is then presented from both sides and through every node degree.
func rootingsCase(c *core.Ctx) {
	g := c.G
	o := treeOpts(g, true)
	o.MaxTips = 10
	o.Multif = 0.6
	o.MaxDeg = 6
	o.FunnyNames = false
	n1, _ := g.Tree(o)
	if g.Chance(0.5) {
		n1 = heavyChild(g)
	}
	core.NumberEdges(n1)
	for _, p := range n1.Paths() {
		x := n1.At(p)
		if len(p) == 0 || len(x.Kids) == 0 {
			continue
		}
		t, err := core.Build(n1)
		if err != nil {
			panic(err)
		}
		applyScript(t, []string{"reroot:" + showPath(p)})
		a, wf := core.Alpha(t)
		if !wf.OK() {
			continue
		}
		doPairs(c, n1, a)
	}
}

// ---------------------------------------------------------------------------
// C04.hm : hashmap.HashMap with keys whose hash collides

type key struct {
	a, b int
	mode int
}

func hashOf(mode, a int) uint64 {
	switch mode {
	case 0:
		return uint64(a)
	case 1:
		return 0
	case 2:
		return uint64(a % 3)
	case 3:
		return uint64(a) * 128
	case 4:
		return ^uint64(0) - uint64(a%2)
	default:
		return uint64(a) * 0x9E3779B97F4A7C15
	}
}

func (k *key) HashCode() uint64 { return hashOf(k.mode, k.a) }
func (k *key) HashEquals(h hashmap.Hasher) bool {
	return k.a == h.(*key).a
}

// 5 and 10: float64(capacity)*0.1 rounds to an integer there (10*0.1 == 1.0), so the rehash
// decision depends on the rounding of the product
var caps = []uint64{0, 1, 2, 3, 7, 128, 5, 10}
var lfs = []string{"0.1", "0.75", "1", "8"}

func doHM(c *core.Ctx, cp uint64, lf string, mode int, ops []string) {
	lff, _ := strconv.ParseFloat(lf, 64)
	var replies []string
	p, msg := core.Safe(func() {
		m := hashmap.NewHashMap(cp, lff)
		for _, op := range ops {
			switch op[0] {
			case 'p':
				f := strings.Split(op[1:], ".")
				a, _ := strconv.Atoi(f[0])
				b, _ := strconv.Atoi(f[1])
				v, _ := strconv.Atoi(f[2])
				m.PutValue(&key{a, b, mode}, v)
				replies = append(replies, "u")
			case 'g':
				f := strings.Split(op[1:], ".")
				a, _ := strconv.Atoi(f[0])
				b, _ := strconv.Atoi(f[1])
				v, ok := m.Value(&key{a, b, mode})
				if ok {
					replies = append(replies, fmt.Sprintf("v%d", v.(int)))
				} else {
					replies = append(replies, "n")
				}
			case 'k':
				var b strings.Builder
				b.WriteString("K")
				for _, kv := range m.KeyValues() {
					if kv == nil {
						b.WriteString("nil/")
						continue
					}
					k := kv.Key.(*key)
					fmt.Fprintf(&b, "%d.%d.%d/", k.a, k.b, kv.Value.(int))
				}
				replies = append(replies, b.String())
			case 'y':
				var b strings.Builder
				b.WriteString("Y")
				for _, h := range m.Keys() {
					if h == nil {
						b.WriteString("nil/")
						continue
					}
					k := h.(*key)
					fmt.Fprintf(&b, "%d.%d/", k.a, k.b)
				}
				replies = append(replies, b.String())
			}
		}
	})
	if p {
		replies = append(replies, "P"+core.Escape(msg))
	}
	c.Emit("C04.hm", strconv.FormatUint(cp, 10), core.Rat(lff), strconv.Itoa(mode), core.StrList(ops), core.StrList(replies))
}

func hmCase(c *core.Ctx, i int) {
	g := c.G
	cp := caps[i%len(caps)]
	lf := lfs[(i/len(caps))%len(lfs)]
	mode := g.Intn(6)
	nops := 5 + g.Intn(c.Scale(40, 120))
	nkeys := 1 + g.Intn(24)
	var ops []string
	for j := 0; j < nops; j++ {
		a := g.Intn(nkeys)
		switch r := g.Intn(10); {
		case r < 5:
			ops = append(ops, fmt.Sprintf("p%d.%d.%d", a, j, g.Intn(100)))
		case r < 9:
			ops = append(ops, fmt.Sprintf("g%d.%d", a, j))
		default:
			if g.Chance(0.5) {
				ops = append(ops, "k")
			} else {
				ops = append(ops, "y")
			}
		}
	}
	ops = append(ops, "y", "k")
	doHM(c, cp, lf, mode, ops)
}

// ---------------------------------------------------------------------------
// C04.ei : tree.EdgeIndex scripts over the branches of one or two trees on the same taxa

func doEI(c *core.Ctx, ns []*core.N, cp uint64, lf string, ops []string) {
	lff, _ := strconv.ParseFloat(lf, 64)
	var all [][]edgeAt
	ids := map[*tree.Edge]string{}
	for ti, n := range ns {
		t, err := core.Build(n)
		if err != nil {
			panic(err)
		}
		var rerr error
		if p, msg := core.Safe(func() { rerr = t.ReinitIndexes() }); p {
			c.Emit("C04.ei", core.Dumps(ns), strconv.FormatUint(cp, 10), core.Rat(lff), core.StrList(ops), "panic:"+core.Escape(msg), "")
			return
		}
		if rerr != nil {
			c.Emit("C04.ei", core.Dumps(ns), strconv.FormatUint(cp, 10), core.Rat(lff), core.StrList(ops), "err", "")
			return
		}
		es := walkEdges(t)
		for i, e := range es {
			ids[e.e] = fmt.Sprintf("%d.%d", ti, i)
		}
		all = append(all, es)
	}
	edge := func(s string) *tree.Edge {
		f := strings.Split(s, ".")
		ti, _ := strconv.Atoi(f[0])
		i, _ := strconv.Atoi(f[1])
		if ti >= len(all) || i >= len(all[ti]) {
			return nil
		}
		return all[ti][i].e
	}
	var replies []string
	p, msg := core.Safe(func() {
		ix := tree.NewEdgeIndex(cp, lff)
		for _, op := range ops {
			switch op[0] {
			case 'a':
				e := edge(op[1:])
				if e == nil {
					replies = append(replies, "x")
					continue
				}
				if err := ix.AddEdgeCount(e); err != nil {
					replies = append(replies, "err")
				} else {
					replies = append(replies, "u")
				}
			case 'p':
				f := strings.Split(op[1:], ".")
				e := edge(f[0] + "." + f[1])
				if e == nil {
					replies = append(replies, "x")
					continue
				}
				cnt, _ := strconv.Atoi(f[2])
				l, _ := core.ParseRat(f[3])
				if err := ix.PutEdgeValue(e, cnt, l); err != nil {
					replies = append(replies, "err")
				} else {
					replies = append(replies, "u")
				}
			case 'v':
				e := edge(op[1:])
				if e == nil {
					replies = append(replies, "x")
					continue
				}
				v, ok := ix.Value(e)
				if ok {
					replies = append(replies, fmt.Sprintf("v%d.%s", v.Count, core.Rat(v.Len)))
				} else {
					replies = append(replies, "n")
				}
			case 'u':
				// a branch of a tree that was never indexed: Bitset() is nil
				ut := tree.NewTree()
				a, b := ut.NewNode(), ut.NewNode()
				ue := ut.ConnectNodes(a, b)
				var err error
				if len(replies)%2 == 0 {
					err = ix.AddEdgeCount(ue)
				} else {
					err = ix.PutEdgeValue(ue, 3, 1)
				}
				if err != nil {
					replies = append(replies, "err")
				} else {
					replies = append(replies, "u")
				}
			case 'e':
				f := strings.Split(op[1:], ".")
				mn, _ := strconv.Atoi(f[0])
				mx, _ := strconv.Atoi(f[1])
				var b strings.Builder
				b.WriteString("E")
				// EdgeIndex.Edges returns values with unexported fields only: their number is the public
				// observation; the harness also reads the two pointers by reflection (key branch, record)
				kvs := ix.Edges(mn, mx)
				b.WriteString(strconv.Itoa(len(kvs)))
				var ents []string
				for _, kv := range kvs {
					rv := reflect.ValueOf(kv).Elem()
					e := (*tree.Edge)(unsafe.Pointer(rv.FieldByName("key").Pointer()))
					v := (*tree.EdgeIndexInfo)(unsafe.Pointer(rv.FieldByName("val").Pointer()))
					id, ok := ids[e]
					if !ok {
						id = "?"
					}
					ents = append(ents, fmt.Sprintf("%s_%d_%s", id, v.Count, core.Rat(v.Len)))
				}
				sort.Strings(ents)
				b.WriteString(":" + strings.Join(ents, "|"))
				replies = append(replies, b.String())
			}
		}
	})
	if p {
		replies = append(replies, "P"+core.Escape(msg))
	}
	c.Emit("C04.ei", core.Dumps(ns), strconv.FormatUint(cp, 10), core.Rat(lff), core.StrList(ops), "ok", core.StrList(replies))
}

func eiCase(c *core.Ctx, i int) {
	g := c.G
	n1 := genTree(c)
	ns := []*core.N{n1}
	if len(n1.Kids) != 1 {
		for k := g.Intn(3); k > 0; k-- {
			ns = append(ns, sameTaxaTree(c, n1))
		}
	}
	cp := caps[i%len(caps)]
	lf := lfs[(i/len(caps))%len(lfs)]
	counts := make([]int, len(ns))
	for ti, n := range ns {
		counts[ti] = n.NNodes() - 1
	}
	nops := 5 + g.Intn(c.Scale(40, 100))
	var ops []string
	for j := 0; j < nops; j++ {
		ti := g.Intn(len(ns))
		ei := g.Intn(counts[ti])
		switch r := g.Intn(10); {
		case r < 5:
			ops = append(ops, fmt.Sprintf("a%d.%d", ti, ei))
		case r < 6:
			ops = append(ops, fmt.Sprintf("p%d.%d.%d.%s", ti, ei, g.Intn(5), core.Rat(float64(g.Intn(16))/8)))
		case r < 9:
			ops = append(ops, fmt.Sprintf("v%d.%d", ti, ei))
		default:
			mn := g.Intn(3)
			ops = append(ops, fmt.Sprintf("e%d.%d", mn, mn+g.Intn(3)))
		}
		if g.Chance(0.03) {
			ops = append(ops, "u")
		}
	}
	// finally every branch of every tree is looked up
	for ti := range ns {
		for ei := 0; ei < counts[ti]; ei++ {
			ops = append(ops, fmt.Sprintf("v%d.%d", ti, ei))
		}
	}
	ops = append(ops, "e0.1000000")
	doEI(c, ns, cp, lf, ops)
}

// ---------------------------------------------------------------------------
// C04.quartet

var perms4 [][4]int

func init() {
	for a := 0; a < 4; a++ {
		for b := 0; b < 4; b++ {
			for cc := 0; cc < 4; cc++ {
				for d := 0; d < 4; d++ {
					if a != b && a != cc && a != d && b != cc && b != d && cc != d {
						perms4 = append(perms4, [4]int{a, b, cc, d})
					}
				}
			}
		}
	}
}

func presentations(q [4]uint) []*tree.Quartet {
	out := make([]*tree.Quartet, 0, 24)
	for _, p := range perms4 {
		out = append(out, &tree.Quartet{T1: q[p[0]], T2: q[p[1]], T3: q[p[2]], T4: q[p[3]]})
	}
	return out
}

func doQuartet(c *core.Ctx, q, q2 [4]uint, cp uint64, lf string) {
	lff, _ := strconv.ParseFloat(lf, 64)
	p1, p2 := presentations(q), presentations(q2)
	hs := func(ps []*tree.Quartet) string {
		var b strings.Builder
		for _, x := range ps {
			fmt.Fprintf(&b, "%d,", x.HashCode())
		}
		return b.String()
	}
	cmp := func(a, b []*tree.Quartet) string {
		var s strings.Builder
		for _, x := range a {
			for _, y := range b {
				fmt.Fprintf(&s, "%d", x.Compare(y))
			}
		}
		return s.String()
	}
	heq := func(a, b []*tree.Quartet) string {
		var s strings.Builder
		for _, x := range a {
			for _, y := range b {
				if x.HashEquals(y) {
					s.WriteByte('1')
				} else {
					s.WriteByte('0')
				}
			}
		}
		return s.String()
	}
	// the 48 presentations as keys of a map: value = position of the insertion
	var replies []string
	pn, msg := core.Safe(func() {
		m := hashmap.NewHashMap(cp, lff)
		all := append(append([]*tree.Quartet{}, p1...), p2...)
		for i, x := range all {
			m.PutValue(x, i)
		}
		replies = append(replies, fmt.Sprintf("K%d", len(m.KeyValues())))
		for _, x := range all {
			// a fresh object: the lookup must not depend on identity
			y := &tree.Quartet{T1: x.T1, T2: x.T2, T3: x.T3, T4: x.T4}
			v, ok := m.Value(y)
			if ok {
				replies = append(replies, fmt.Sprintf("v%d", v.(int)))
			} else {
				replies = append(replies, "n")
			}
		}
	})
	if pn {
		replies = append(replies, "P"+core.Escape(msg))
	}
	qs := func(x [4]uint) string { return fmt.Sprintf("%d,%d,%d,%d,", x[0], x[1], x[2], x[3]) }
	c.Emit("C04.quartet", qs(q), qs(q2), strconv.FormatUint(cp, 10), core.Rat(lff),
		hs(p1), hs(p2), cmp(p1, p1), cmp(p1, p2), heq(p1, p1), heq(p1, p2), core.StrList(replies))
}

func quartetCase(c *core.Ctx, i int) {
	g := c.G
	rng := 6
	if g.Chance(0.5) {
		rng = 200
	} else if g.Chance(0.3) {
		rng = 1000
	}
	var q [4]uint
	draw := func() [4]uint {
		var x [4]uint
		for {
			for j := range x {
				x[j] = uint(g.Intn(rng))
			}
			if x[0] != x[1] && x[0] != x[2] && x[0] != x[3] && x[1] != x[2] && x[1] != x[3] && x[2] != x[3] {
				return x
			}
		}
	}
	q = draw()
	q2 := draw()
	repeated := g.Chance(0.15)
	if repeated {
		// a repeated taxon (never produced by Tree.Quartets, but the functions are total)
		q2[g.Intn(4)] = q2[g.Intn(4)]
		if g.Chance(0.5) {
			q = q2
			q[0], q[3] = q[3], q[0]
		}
	}
	if repeated && g.Chance(0.6) {
		// kept as drawn
	} else if g.Chance(0.3) {
		// same taxa, another presentation
		p := perms4[g.Intn(24)]
		q2 = [4]uint{q[p[0]], q[p[1]], q[p[2]], q[p[3]]}
	} else if g.Chance(0.5) {
		// OTHER taxa with the SAME hash code: 31*(31*(31*(31+i1)+i2)+i3)+i4 over the sorted taxa is unchanged
		// by (i3, i4) -> (i3+1, i4-31), (i2, i3) -> (i2+1, i3-31), (i1, i2) -> (i1+1, i2-31), also combined
		a := uint(g.Intn(60))
		b := a + 1 + uint(g.Intn(40))
		cc := b + 34 + uint(g.Intn(40))
		d := cc + 34 + uint(g.Intn(60))
		q = [4]uint{a, b, cc, d}
		switch g.Intn(4) {
		case 0:
			q2 = [4]uint{a, b, cc + 1, d - 31}
		case 1:
			q2 = [4]uint{a, b + 1, cc - 31, d}
		case 2:
			q2 = [4]uint{a, b + 1, cc - 30, d - 31}                  // two steps: (i2+1, i3-31) then (i3+1, i4-31)
		default:
			q2 = [4]uint{a, b, cc + 2, d - 62}
		}
		// both in a random presentation
		p1, p2 := perms4[g.Intn(24)], perms4[g.Intn(24)]
		q = [4]uint{q[p1[0]], q[p1[1]], q[p1[2]], q[p1[3]]}
		q2 = [4]uint{q2[p2[0]], q2[p2[1]], q2[p2[2]], q2[p2[3]]}
	}
	doQuartet(c, q, q2, caps[i%len(caps)], lfs[(i/len(caps))%len(lfs)])
}

// ---------------------------------------------------------------------------
// C04.quartets : Tree.Quartets(specific, ·) and IndexQuartets

func doQuartets(c *core.Ctx, n *core.N, specific, withIndex bool) {
	sp := "0"
	if specific {
		sp = "1"
	}
	wi := "0"
	if withIndex {
		wi = "1"
	}
	t, err := core.Build(n)
	if err != nil {
		panic(err)
	}
	var rerr error
	var ql, ix strings.Builder
	ix.WriteString("-")
	p, msg := core.Safe(func() {
		if rerr = t.ReinitIndexes(); rerr != nil {
			return // Quartets calls os.Exit when the tip index is unusable
		}
		t.Quartets(specific, func(q *tree.Quartet) {
			fmt.Fprintf(&ql, "%d.%d.%d.%d,", q.T1, q.T2, q.T3, q.T4)
		})
		if withIndex {
			ix.Reset()
			m := t.IndexQuartets(specific)
			for _, kv := range m.KeyValues() {
				if kv == nil {
					ix.WriteString("nil,")
					continue
				}
				k, v := kv.Key.(*tree.Quartet), kv.Value.(*tree.Quartet)
				fmt.Fprintf(&ix, "%d.%d.%d.%d:%d.%d.%d.%d,", k.T1, k.T2, k.T3, k.T4, v.T1, v.T2, v.T3, v.T4)
			}
		}
	})
	switch {
	case p:
		c.Emit("C04.quartets", n.Dump(), sp, wi, "panic:"+core.Escape(msg), "", "")
	case rerr != nil:
		c.Emit("C04.quartets", n.Dump(), sp, wi, "err", "", "")
	default:
		c.Emit("C04.quartets", n.Dump(), sp, wi, "ok", ql.String(), ix.String())
	}
}

func quartetsCase(c *core.Ctx, i int) {
	g := c.G
	o := treeOpts(g, true)
	o.MinTips, o.MaxTips = 4, 9
	o.Multif = 0.4
	if g.Chance(0.5) {
		o.FunnyNames = false
	}
	n, _ := g.Tree(o)
	if g.Chance(0.3) {
		n = heavyChild(g)
	}
	if g.Chance(0.08) {
		n = rootTip(n, "rt", g)
	}
	core.NumberEdges(n)
	if g.Chance(0.4) {
		// re-rooted: the parent is no longer the first neighbour (the "left" lists change their order)
		t, err := core.Build(n)
		if err != nil {
			panic(err)
		}
		paths := n.Paths()
		applyScript(t, []string{"reroot:" + showPath(paths[g.Intn(len(paths))]), fmt.Sprintf("rotate:%d", g.Intn(1000))})
		if a, wf := core.Alpha(t); wf.OK() {
			n = a
		}
	}
	// IndexQuartets allocates 12 800 000 buckets: only now and then
	doQuartets(c, n, g.Chance(0.5), i%c.Scale(5, 40) == 0)
}

// bigQuartetsCase: more than 64 tips with a single branch carrying quartets (a polytomy of three tips
// t00, t01, t30 under a root polytomy): 5859 quartets over tip indexes up to 65, among them pairs over
// different taxa with the same hash code ((0,1|2,35) and (0,1|3,4) …), enumerated and put in IndexQuartets.
func bigQuartetsCase(c *core.Ctx) {
	g := c.G
	n := 66 + g.Intn(3)
	left := map[int]bool{0: true, 1: true, 30 + g.Intn(3): true}
	root := &core.N{}
	l := &core.N{E: core.NewE()}
	l.E.Len = 1
	var rest []*core.N
	for i := 0; i < n; i++ {
		x := &core.N{Name: fmt.Sprintf("t%02d", i), E: core.NewE()}
		x.E.Len = float64(g.Intn(16)) / 8
		if left[i] {
			l.Kids = append(l.Kids, x)
		} else {
			rest = append(rest, x)
		}
	}
	g.R.Shuffle(len(rest), func(i, j int) { rest[i], rest[j] = rest[j], rest[i] })
	at := g.Intn(len(rest))
	root.Kids = append(root.Kids, rest[:at]...)
	root.Kids = append(root.Kids, l)
	root.Kids = append(root.Kids, rest[at:]...)
	core.NumberEdges(root)
	doQuartets(c, root, false, true)
}

// ---------------------------------------------------------------------------
// C04.splits : Edge.DumpBitSet on every branch, and the command `gotree stats splits`

// splitsCase draws a tree with plain names (the text goes through the Newick reader of the command), a quarter of
// them around the 64-bit words of the bitset (63..66 and 127..130 tips).
func splitsCase(c *core.Ctx, i int) {
	g := c.G
	o := core.DefaultOpts()
	o.Lengths, o.Supports, o.InnerNames = 1, 0, 0
	o.MinTips, o.MaxTips = 3, 14
	switch {
	case i%4 == 1:
		o.MinTips, o.MaxTips = 64, 64 // the last width DumpBitSet prints in full (hypothesis of dumpBitSet_correct)
	case i%8 == 3:
		o.MinTips, o.MaxTips = 63, 66
	case i%8 == 7:
		o.MinTips, o.MaxTips = 127, 130
	case i%16 == 4:
		o.MinTips, o.MaxTips = 129, 131 // three 64-bit words
	case i%16 == 0:
		o.MinTips, o.MaxTips = 2, 3
	}
	n, _ := g.Tree(o)
	if g.Chance(0.15) {
		n = rootTip(n, "rt", g)
	}
	if i%16 == 8 {
		// duplicate names: the command must refuse
		tn := n.TipNames()
		var rec func(x *core.N)
		rec = func(x *core.N) {
			if len(x.Kids) == 0 && x.Name == tn[len(tn)-1] {
				x.Name = tn[0]
			}
			for _, k := range x.Kids {
				rec(k)
			}
		}
		rec(n)
	}
	core.NumberEdges(n)
	// a third of the inputs hold the tree two or three times: the command numbers the trees 0, 1, 2
	copies := 1
	if i%3 == 2 {
		copies = 2 + g.Intn(2)
	}
	doSplits(c, n, copies)
}

func doSplits(c *core.Ctx, n *core.N, copies int) {
	t, err := core.Build(n)
	if err != nil {
		panic(err)
	}
	nw := t.Newick()
	outcome := "ok"
	var dumps []string
	if p, msg := core.Safe(func() {
		if err := t.ReinitIndexes(); err != nil {
			outcome = "err"
			return
		}
		for _, ea := range walkEdges(t) {
			dumps = append(dumps, ea.e.DumpBitSet())
		}
	}); p {
		outcome = "panic:" + core.Escape(msg)
	}
	f := c.TmpFile(strings.Repeat(nw+"\n", copies))
	r := c.RunCLI("", 20*time.Second, "stats", "splits", "-i", f)
	os.Remove(f)
	exit := strconv.Itoa(r.Exit)
	if r.Timeout {
		exit = "timeout"
	}
	c.Emit("C04.splits", n.Dump(), strconv.Itoa(copies), outcome, core.StrList(dumps), exit, core.Escape(r.Stdout))
}

// ---------------------------------------------------------------------------

func parseDumps(s string) []*core.N {
	var ns []*core.N
	for _, d := range strings.Split(strings.TrimSuffix(s, "|"), "|") {
		n, err := core.ParseDump(d)
		if err != nil {
			panic(err)
		}
		ns = append(ns, n)
	}
	return ns
}

func unlist(s string) []string {
	var out []string
	for _, x := range strings.Split(strings.TrimSuffix(s, ","), ",") {
		if s == "" {
			break
		}
		u, err := core.Unescape(x)
		if err != nil {
			panic(err)
		}
		out = append(out, u)
	}
	return out
}

func ratToLF(s string) string {
	f, err := core.ParseRat(s)
	if err != nil {
		panic(err)
	}
	return strconv.FormatFloat(f, 'g', -1, 64)
}

func parseQ(s string) [4]uint {
	var q [4]uint
	f := strings.Split(s, ",")
	for i := 0; i < 4 && i < len(f); i++ {
		v, _ := strconv.ParseUint(f[i], 10, 64)
		q[i] = uint(v)
	}
	return q
}

// Replay re-executes request lines (recorded outputs are ignored).
func Replay(c *core.Ctx, lines []string) {
	for _, l := range lines {
		f := strings.Split(l, "\t")
		switch {
		case f[0] == "C04.index" && len(f) >= 3:
			n, err := core.ParseDump(f[1])
			if err != nil {
				panic(err)
			}
			doIndex(c, n, unlist(f[2]))
		case f[0] == "C04.pairs" && len(f) >= 3:
			n1, err := core.ParseDump(f[1])
			if err != nil {
				panic(err)
			}
			n2, err := core.ParseDump(f[2])
			if err != nil {
				panic(err)
			}
			doPairs(c, n1, n2)
		case f[0] == "C04.hm" && len(f) >= 5:
			cp, _ := strconv.ParseUint(f[1], 10, 64)
			mode, _ := strconv.Atoi(f[3])
			doHM(c, cp, ratToLF(f[2]), mode, unlist(f[4]))
		case f[0] == "C04.ei" && len(f) >= 5:
			cp, _ := strconv.ParseUint(f[2], 10, 64)
			doEI(c, parseDumps(f[1]), cp, ratToLF(f[3]), unlist(f[4]))
		case f[0] == "C04.quartets" && len(f) >= 4:
			n, err := core.ParseDump(f[1])
			if err != nil {
				panic(err)
			}
			doQuartets(c, n, f[2] == "1", f[3] == "1")
		case f[0] == "C04.quartet" && len(f) >= 5:
			cp, _ := strconv.ParseUint(f[3], 10, 64)
			doQuartet(c, parseQ(f[1]), parseQ(f[2]), cp, ratToLF(f[4]))
		case f[0] == "C04.splits" && len(f) >= 2:
			n, err := core.ParseDump(f[1])
			if err != nil {
				panic(err)
			}
			copies := 1
			if len(f) >= 3 {
				if v, err := strconv.Atoi(f[2]); err == nil && v >= 1 && v <= 16 {
					copies = v
				}
			}
			doSplits(c, n, copies)
		default:
			panic("C04: cannot replay " + f[0])
		}
	}
}

// raceCases: PutValue / Value / KeyValues / Keys from several goroutines on one map (binary built with -race in
// the thorough tier: a report of the race detector makes the harness exit with an error).  The keys are
// distinct, so the final content does not depend on the schedule: it is emitted as an ordinary C04.hm case.
func raceCases(c *core.Ctx, withKeyValues bool) {
	g := c.G
	for round := 0; round < 24; round++ {
		cp := caps[round%len(caps)]
		lf := lfs[(round/len(caps))%len(lfs)]
		lff, _ := strconv.ParseFloat(lf, 64)
		mode := g.Intn(6)
		const workers, per = 8, 40
		m := hashmap.NewHashMap(cp, lff)
		var wg sync.WaitGroup
		for w := 0; w < workers; w++ {
			wg.Add(1)
			go func(w int) {
				defer wg.Done()
				for i := 0; i < per; i++ {
					a := w*1000 + i
					m.PutValue(&key{a, 0, mode}, a+1)
					m.Value(&key{a, 1, mode})
					m.Value(&key{(w+1)%workers*1000 + i, 2, mode})
					if withKeyValues && i%16 == 0 {
						// KeyValues / Keys take the read lock since /repo ade4233 (finding of round 2)
						m.KeyValues()
						m.Keys()
					}
				}
			}(w)
		}
		wg.Wait()
		var ops, replies []string
		for w := 0; w < workers; w++ {
			for i := 0; i < per; i++ {
				ops = append(ops, fmt.Sprintf("p%d.0.%d", w*1000+i, w*1000+i+1))
				replies = append(replies, "u")
			}
		}
		for w := 0; w < workers; w++ {
			for i := 0; i < per; i += 7 {
				a := w*1000 + i
				ops = append(ops, fmt.Sprintf("g%d.3", a))
				if v, ok := m.Value(&key{a, 3, mode}); ok {
					replies = append(replies, fmt.Sprintf("v%d", v.(int)))
				} else {
					replies = append(replies, "n")
				}
			}
		}
		ops = append(ops, "k")
		var b strings.Builder
		b.WriteString("K")
		for _, kv := range m.KeyValues() {
			if kv == nil {
				b.WriteString("nil/")
				continue
			}
			k := kv.Key.(*key)
			fmt.Fprintf(&b, "%d.%d.%d/", k.a, k.b, kv.Value.(int))
		}
		replies = append(replies, b.String())
		c.Emit("C04.hm", strconv.FormatUint(cp, 10), core.Rat(lff), strconv.Itoa(mode), core.StrList(ops), core.StrList(replies))
	}
}

// Run generates the cases of C04.
func Run(c *core.Ctx) {
	if c.Arg == "race" || c.Arg == "race-nokv" {
		raceCases(c, c.Arg == "race")
		return
	}
	if c.Arg != "" {
		Replay(c, core.ReadRequests(c.Arg))
		return
	}
	nt := c.Scale(500, 12000)
	for i := 0; i < nt; i++ {
		if i%2 == 0 {
			indexCase(c)
		} else {
			pairsCase(c)
		}
	}
	for i, nr := 0, c.Scale(40, 1200); i < nr; i++ {
		rootingsCase(c)
	}
	for i, nq := 0, c.Scale(60, 1500); i < nq; i++ {
		quartetsCase(c, i)
	}
	for i, nb := 0, c.Scale(1, 4); i < nb; i++ {
		bigQuartetsCase(c)
	}
	for i, ns := 0, c.Scale(96, 1200); i < ns; i++ {
		splitsCase(c, i)
	}
	nm := c.Scale(300, 5000)
	for i := 0; i < nm; i++ {
		switch i % 3 {
		case 0:
			hmCase(c, i/3)
		case 1:
			eiCase(c, i/3)
		default:
			quartetCase(c, i/3)
		}
	}
}
