package c14

import (
	"fmt"
	"strconv"
	"strings"

	"verifharness/core"

	"github.com/evolbioinfo/gotree/tree"
)

// Round 7: the code the single-call ops never reached.
//
//	C14.seq     dump  metric1  thr1  metric2  thr2 | dumpAfter  tips1 mat1  res1 bags1  tips2 mat2  res2 bags2  tipIds  edgeIds
//	    ONE in-memory tree is measured four times (matrix, cut, matrix, cut).  Every measurement is judged on the
//	    tree as built; the alpha dump taken after the last one must be the tree as built (branch ids apart):
//	    a measurement that writes a default back, caches something or marks branches shows here.
//	    tipIds = Id() of the tips in Tips() order after the second matrix, edgeIds = Id() of the branches in
//	    Edges() order after the second cut (what SetId left behind: fidelity).
//	C14.tipbag  dump  script | results
//	    a script of calls on ONE tree.TipBag from outside CutEdgesMaxLength: add:<k> = AddTip(node of pre-order
//	    index k), nil = AddTip(nil), clear, size, tips.  results: one list per call (ok / err,msg / - / n / names).

// preorder lists the nodes as Model/C14Go.lean numbers them: a node, then what hangs below each neighbour
// that is not the one we came from, in neigh order.
func preorder(t *tree.Tree) []*tree.Node {
	var out []*tree.Node
	var rec func(cur, prev *tree.Node)
	rec = func(cur, prev *tree.Node) {
		out = append(out, cur)
		for _, n := range cur.Neigh() {
			if n != prev {
				rec(n, cur)
			}
		}
	}
	rec(t.Root(), nil)
	return out
}

func bagScript(g *core.G, nodes []*tree.Node) []string {
	var tips, inner []int
	byName := map[string][]int{}
	for i, n := range nodes {
		if n.Tip() {
			tips = append(tips, i)
			byName[n.Name()] = append(byName[n.Name()], i)
		} else {
			inner = append(inner, i)
		}
	}
	var script []string
	var added []int
	if len(tips) >= 2 && g.Chance(0.35) {
		// Tips()/Size() asked again after the content changed while the number of tips did not (or did):
		// add a, tips, size, clear, add b, tips, size — what a cached answer would get wrong
		a, b := tips[g.Intn(len(tips))], tips[g.Intn(len(tips))]
		script = append(script, fmt.Sprintf("add:%d", a), "tips", "size")
		if g.Chance(0.7) {
			script = append(script, "clear")
		} else {
			added = append(added, a)
		}
		script = append(script, fmt.Sprintf("add:%d", b), "tips", "size")
		added = append(added, b)
	}
	k := 3 + g.Intn(12)
	for i := 0; i < k; i++ {
		switch r := g.Intn(100); {
		case r < 40 && len(tips) > 0:
			x := tips[g.Intn(len(tips))]
			added = append(added, x)
			script = append(script, fmt.Sprintf("add:%d", x))
		case r < 52 && len(added) > 0: // the same tip again: "do nothing"
			script = append(script, fmt.Sprintf("add:%d", added[g.Intn(len(added))]))
		case r < 58 && len(added) > 0: // ANOTHER tip of the same name, when there is one
			x := added[g.Intn(len(added))]
			same := byName[nodes[x].Name()]
			y := same[g.Intn(len(same))]
			script = append(script, fmt.Sprintf("add:%d", y))
			added = append(added, y)
		case r < 64 && len(inner) > 0:
			script = append(script, fmt.Sprintf("add:%d", inner[g.Intn(len(inner))]))
		case r < 69:
			script = append(script, "nil")
		case r < 75:
			script = append(script, "clear")
			if g.Chance(0.7) {
				added = nil
			}
		case r < 88:
			script = append(script, "size")
		default:
			script = append(script, "tips")
		}
	}
	script = append(script, "size", "tips")
	return script
}

func tipbagCase(c *core.Ctx) {
	o := opts(c.G)
	if o.MaxTips > 12 {
		o.MinTips, o.MaxTips = 3, 12
	}
	n, _ := c.G.Tree(o)
	n = degenerate(c.G, n, false)
	if c.G.Chance(0.25) { // more duplicate names than the other ops draw: the "another tip" branch of AddTip
		lv := leavesOf(n)
		if len(lv) >= 2 {
			a, b := c.G.Intn(len(lv)), c.G.Intn(len(lv))
			if a != b {
				lv[a].Name = lv[b].Name
			}
		}
	}
	t, err := core.Build(n)
	if err != nil {
		panic(err)
	}
	doTipBag(c, n, bagScript(c.G, preorder(t)))
}

func doTipBag(c *core.Ctx, n *core.N, script []string) {
	t, err := core.Build(n)
	if err != nil {
		panic(err)
	}
	nodes := preorder(t)
	var res [][]string
	p, msg := core.Safe(func() {
		bag := tree.NewTipBag()
		for _, s := range script {
			switch {
			case s == "nil":
				if e := bag.AddTip(nil); e != nil {
					res = append(res, []string{"err", e.Error()})
				} else {
					res = append(res, []string{"ok"})
				}
			case s == "clear":
				bag.Clear()
				res = append(res, []string{})
			case s == "size":
				res = append(res, []string{strconv.Itoa(bag.Size())})
			case s == "tips":
				res = append(res, names(bag.Tips()))
			case strings.HasPrefix(s, "add:"):
				k, _ := strconv.Atoi(s[4:])
				if k < 0 || k >= len(nodes) {
					res = append(res, []string{"badindex"})
					continue
				}
				if e := bag.AddTip(nodes[k]); e != nil {
					res = append(res, []string{"err", e.Error()})
				} else {
					res = append(res, []string{"ok"})
				}
			}
		}
	})
	if p {
		res = append(res, []string{"panic", msg})
	}
	c.Emit("C14.tipbag", n.Dump(), core.StrList(script), core.StrLists(res))
}

func seqCase(c *core.Ctx) {
	o := opts(c.G)
	n, _ := c.G.Tree(o)
	n = degenerate(c.G, n, false)
	m1, m2 := c.G.Intn(3), c.G.Intn(3)
	doSeq(c, n, m1, drawThreshold(c.G, n, o), m2, drawThreshold(c.G, n, o))
}

func doSeq(c *core.Ctx, n *core.N, m1 int, thr1 float64, m2 int, thr2 float64) {
	t, err := core.Build(n)
	if err != nil {
		panic(err)
	}
	pre := []string{n.Dump(), metricName(m1), core.Rat(thr1), metricName(m2), core.Rat(thr2)}
	var out []string
	matrix := func(metric int) {
		var mat [][]float64
		var tips []*tree.Node
		if p, msg := core.Safe(func() { mat, tips = t.ToDistanceMatrix(metric) }); p {
			out = append(out, "PANIC,"+core.Escape(msg)+",", "")
			return
		}
		out = append(out, core.StrList(names(tips)), core.RatMatrix(mat))
	}
	cut := func(thr float64) {
		var bags []*tree.TipBag
		var err error
		if p, msg := core.Safe(func() { bags, err = t.CutEdgesMaxLength(thr) }); p {
			out = append(out, "panic:"+core.Escape(msg), "")
			return
		}
		if err != nil {
			out = append(out, "err", "")
			return
		}
		var bs [][]string
		for _, b := range bags {
			nm := names(b.Tips())
			if len(nm) != b.Size() {
				nm = append(nm, fmt.Sprintf("SIZE=%d", b.Size()))
			}
			bs = append(bs, nm)
		}
		out = append(out, "ok", core.StrLists(bs))
	}
	matrix(m1)
	cut(thr1)
	matrix(m2)
	var tipIds []int
	core.Safe(func() {
		for _, x := range t.Tips() {
			tipIds = append(tipIds, x.Id())
		}
	})
	cut(thr2)
	var edgeIds []int
	core.Safe(func() {
		for _, e := range t.Edges() {
			edgeIds = append(edgeIds, e.Id())
		}
	})
	after := "ILLFORMED"
	if n1, wf := core.Alpha(t); n1 != nil && wf.OK() {
		after = n1.Dump()
	}
	fields := append(append([]string{}, pre...), after)
	fields = append(fields, out...)
	fields = append(fields, core.IntList(tipIds), core.IntList(edgeIds))
	c.Emit("C14.seq", fields...)
}

// replayRound7 re-executes a request of one of the two ops; false when the line is not one of them
func replayRound7(c *core.Ctx, f []string) bool {
	switch {
	case f[0] == "C14.seq" && len(f) >= 6:
		n, err := core.ParseDump(f[1])
		if err != nil {
			panic(err)
		}
		thr1, _ := core.ParseRat(f[3])
		thr2, _ := core.ParseRat(f[5])
		doSeq(c, n, metricIndex(f[2]), thr1, metricIndex(f[4]), thr2)
		return true
	case f[0] == "C14.tipbag" && len(f) >= 3:
		n, err := core.ParseDump(f[1])
		if err != nil {
			panic(err)
		}
		var script []string
		for _, s := range strings.Split(strings.TrimSuffix(f[2], ","), ",") {
			if s == "" {
				continue
			}
			u, _ := core.Unescape(s)
			script = append(script, u)
		}
		doTipBag(c, n, script)
		return true
	}
	return false
}

func round7Cases(c *core.Ctx) {
	k := c.Scale(240, 2400)
	for i := 0; i < k; i++ {
		if i%2 == 0 {
			seqCase(c)
		} else {
			tipbagCase(c)
		}
	}
}
