/-
  C16 — every unrooted binary tree can be drawn from the node that joins three given tips, with the
  same set of splits (helper lemmas for the unrooted exhaustiveness).
-/
import Gotree.Lemmas.C16Surj2
import Gotree.Lemmas.C16Keys

namespace Gotree.C16
open Gotree

/-- `S` holds two of the three names -/
def TwoOf (a b c : String) (S : List String) : Prop := (a ∈ S ∧ b ∈ S) ∨ (a ∈ S ∧ c ∈ S) ∨ (b ∈ S ∧ c ∈ S)

theorem Q3_iff_twoOf (a b c : String) (A : List (List String)) : Q3 a b c A ↔ ∀ S ∈ A, ¬ TwoOf a b c S := by
  unfold Q3 TwoOf
  constructor
  · intro h S hS hh
    rcases hh with hh | hh | hh
    · exact (h S hS).1 hh
    · exact (h S hS).2.1 hh
    · exact (h S hS).2.2 hh
  · intro h S hS
    exact ⟨fun hh => h S hS (Or.inl hh), fun hh => h S hS (Or.inr (Or.inl hh)), fun hh => h S hS (Or.inr (Or.inr hh))⟩

theorem TwoOf.mono {a b c : String} {S S' : List String} (h : TwoOf a b c S) (hs : ∀ y ∈ S, y ∈ S') : TwoOf a b c S' := by
  rcases h with h | h | h
  · exact Or.inl ⟨hs _ h.1, hs _ h.2⟩
  · exact Or.inr (Or.inl ⟨hs _ h.1, hs _ h.2⟩)
  · exact Or.inr (Or.inr ⟨hs _ h.1, hs _ h.2⟩)

/-- it is enough to look at the children of the root -/
theorem Q3_of_root (a b c : String) : ∀ (ks : Kids), (∀ et ∈ ks, ¬ TwoOf a b c et.2.leaves) → Q3 a b c (belowsL ks) := by
  intro ks h
  rw [Q3_iff_twoOf]
  induction ks with
  | nil => intro S hS; simp [belowsL] at hS
  | cons k r ih =>
    obtain ⟨e, t⟩ := k
    intro S hS
    simp only [belowsL, List.mem_cons, List.mem_append] at hS
    rcases hS with rfl | hS | hS
    · exact h (e, t) (by simp)
    · exact fun hh => h (e, t) (by simp) (hh.mono (belowsT_sub t S hS))
    · exact ih (fun et het => h et (List.mem_cons_of_mem _ het)) S hS

/-! ### USame is an equivalence on families inside `all` -/

theorem uSame_of_famEq (all : List String) {A B : List (List String)} (h : FamEq A B) : USame all A B :=
  ⟨fun a ha => by obtain ⟨b, hb, hab⟩ := h.1 a ha; exact ⟨b, hb, Or.inl hab⟩,
   fun b hb => by obtain ⟨a, ha, hab⟩ := h.2 b hb; exact ⟨a, ha, Or.inl hab⟩⟩

theorem compEq_setEq {all a b c : List String} (h1 : CompEq all a b) (h2 : SetEq b c) : CompEq all a c :=
  fun y hy => (h1 y hy).trans (not_congr (h2 y))

theorem setEq_compEq {all a b c : List String} (h1 : SetEq a b) (h2 : CompEq all b c) : CompEq all a c :=
  fun y hy => (h1 y).trans (h2 y hy)

theorem compEq_compEq {all a b c : List String} (ha : ∀ y ∈ a, y ∈ all) (hc : ∀ y ∈ c, y ∈ all)
    (h1 : CompEq all a b) (h2 : CompEq all b c) : SetEq a c := by
  intro y
  constructor
  · intro hy
    have hall := ha y hy
    have hnb : y ∉ b := (h1 y hall).mp hy
    exact Classical.byContradiction fun hnc => hnb ((h2 y hall).mpr hnc)
  · intro hy
    have hall := hc y hy
    have hnb : y ∉ b := fun hb => ((h2 y hall).mp hb) hy
    exact Classical.byContradiction fun hna => hnb (Classical.byContradiction fun hnb' =>
      hna ((h1 y hall).mpr hnb'))

theorem USame.trans {all : List String} {A B C : List (List String)} (hA : FamIn all A) (hC : FamIn all C)
    (h1 : USame all A B) (h2 : USame all B C) : USame all A C := by
  constructor
  · intro a ha
    obtain ⟨b, hb, hab⟩ := h1.1 a ha
    obtain ⟨c, hc, hbc⟩ := h2.1 b hb
    refine ⟨c, hc, ?_⟩
    rcases hab with hab | hab <;> rcases hbc with hbc | hbc
    · exact Or.inl (hab.trans hbc)
    · exact Or.inr (setEq_compEq hab hbc)
    · exact Or.inr (compEq_setEq hab hbc)
    · exact Or.inl (compEq_compEq (hA a ha) (hC c hc) hab hbc)
  · intro c hc
    obtain ⟨b, hb, hbc⟩ := h2.2 c hc
    obtain ⟨a, ha, hab⟩ := h1.2 b hb
    refine ⟨a, ha, ?_⟩
    rcases hab with hab | hab <;> rcases hbc with hbc | hbc
    · exact Or.inl (hab.trans hbc)
    · exact Or.inr (setEq_compEq hab hbc)
    · exact Or.inr (compEq_setEq hab hbc)
    · exact Or.inl (compEq_compEq (hA a ha) (hC c hc) hab hbc)

/-- replacing one member by its complement -/
theorem uSame_cons_comp (all : List String) (x y : List String) (M : List (List String)) (h : CompEq all x y)
    (h' : CompEq all y x) : USame all (x :: M) (y :: M) := by
  constructor
  · intro a ha
    rcases List.mem_cons.mp ha with rfl | ha'
    · exact ⟨y, List.mem_cons_self, Or.inr h⟩
    · exact ⟨a, List.mem_cons_of_mem _ ha', Or.inl (SetEq.refl a)⟩
  · intro b hb
    rcases List.mem_cons.mp hb with rfl | hb'
    · exact ⟨x, List.mem_cons_self, Or.inr h⟩
    · exact ⟨b, List.mem_cons_of_mem _ hb', Or.inl (SetEq.refl b)⟩

theorem uSame_of_perm_right (all : List String) {A B B' : List (List String)} (h : USame all A B') (hp : B'.Perm B) :
    USame all A B :=
  ⟨fun a ha => by obtain ⟨b, hb, hab⟩ := h.1 a ha; exact ⟨b, hp.subset hb, hab⟩,
   fun b hb => h.2 b (hp.symm.subset hb)⟩

theorem uSame_refl (all : List String) (A : List (List String)) : USame all A A := uSame_of_famEq all (FamEq.refl A)

/-- a tree drawn from a node of degree three: binary below it, tips = `all` -/
structure U3 (all : List String) (t : T) : Prop where
  deg : t.kids.length = 3
  bin : binaryL t.kids = true
  leaves : (leavesL t.kids).Perm all

/-- moving the root into its first child (an inner node): same splits, the first child's leaf set is
    replaced by its complement -/
theorem rot0 (all : List String) (hall : all.Nodup) (d d0 : NodeD) (p p0 : Nat) (e0 ea eb e1 e2 : EdgeD) (x y t1 t2 : T)
    (h : U3 all (.node d p [(e0, .node d0 p0 [(ea, x), (eb, y)]), (e1, t1), (e2, t2)])) :
    U3 all (.node d0 0 [(ea, x), (eb, y), (e0, .node d 0 [(e1, t1), (e2, t2)])]) ∧
    USame all (belowsL (T.node d p [(e0, .node d0 p0 [(ea, x), (eb, y)]), (e1, t1), (e2, t2)]).kids)
      (belowsL (T.node d0 0 [(ea, x), (eb, y), (e0, .node d 0 [(e1, t1), (e2, t2)])]).kids) := by
  obtain ⟨_, hbin, hleaves⟩ := h
  simp only [T.kids_node, binaryL, T.binaryBelow, Bool.and_eq_true, Bool.and_true] at hbin
  simp only [T.kids_node, leavesL, leaves_node_cons, List.append_nil] at hleaves
  have hbx : x.binaryBelow = true := hbin.1.2.1
  have hby : y.binaryBelow = true := hbin.1.2.2
  have hb1 : t1.binaryBelow = true := hbin.2.1
  have hb2 : t2.binaryBelow = true := hbin.2.2
  have hnd : ((x.leaves ++ y.leaves) ++ (t1.leaves ++ t2.leaves)).Nodup := hleaves.nodup_iff.mpr hall
  refine ⟨⟨rfl, by simp [binaryL, T.binaryBelow, hbx, hby, hb1, hb2], ?_⟩, ?_⟩
  · simp only [T.kids_node, leavesL, leaves_node_cons, List.append_nil]
    refine List.Perm.trans ?_ hleaves
    simp [List.append_assoc]
  · -- the two families: same members, except the leaf set of the moved branch and its complement
    let P : List (List String) := x.leaves :: (belowsT x ++ y.leaves :: belowsT y)
    let Q : List (List String) := t1.leaves :: (belowsT t1 ++ t2.leaves :: belowsT t2)
    have hA : belowsL (T.node d p [(e0, .node d0 p0 [(ea, x), (eb, y)]), (e1, t1), (e2, t2)]).kids =
        (x.leaves ++ y.leaves) :: (P ++ Q) := by
      simp [P, Q, belowsL, belowsT, leaves_node_cons, leavesL]
    have hB : belowsL (T.node d0 0 [(ea, x), (eb, y), (e0, .node d 0 [(e1, t1), (e2, t2)])]).kids =
        P ++ (t1.leaves ++ t2.leaves) :: Q := by
      simp [P, Q, belowsL, belowsT, leaves_node_cons, leavesL]
    rw [hA, hB]
    have hc : CompEq all (x.leaves ++ y.leaves) (t1.leaves ++ t2.leaves) := by
      intro z hz
      have hz' := hleaves.symm.subset hz
      have hdis := nodup_append_disjoint hnd
      constructor
      · intro h1 h2; exact hdis z h1 h2
      · intro h2
        rcases List.mem_append.mp hz' with h1 | h1
        · exact h1
        · exact absurd h1 h2
    have hc' : CompEq all (t1.leaves ++ t2.leaves) (x.leaves ++ y.leaves) := by
      intro z hz
      have := hc z hz
      constructor
      · intro h1 h2; exact (this.mp h2) h1
      · intro h2; exact Classical.byContradiction fun h1 => h2 (this.mpr h1)
    exact uSame_of_perm_right all (uSame_cons_comp all _ _ (P ++ Q) hc hc') List.perm_middle.symm

theorem two_le_of_two_mem {l : List String} {u v : String} (h : u ≠ v) (hu : u ∈ l) (hv : v ∈ l) : 2 ≤ l.length := by
  match l, hu, hv with
  | [w], hu, hv =>
    exfalso
    rw [List.mem_singleton] at hu hv
    exact h (hu.trans hv.symm)
  | _ :: _ :: _, _, _ => simp

theorem famIn_of_U3 {all : List String} {t : T} (h : U3 all t) : FamIn all (belowsL t.kids) :=
  fun S hS y hy => h.leaves.subset (belowsL_sub t.kids S hS y hy)

theorem U3_of_isoL {all : List String} {t : T} (h : U3 all t) (d : NodeD) (p : Nat) (ks : Kids) (hi : IsoL t.kids ks)
    (hb : binaryL ks = true) : U3 all (.node d p ks) :=
  ⟨by simpa using (IsoL.length_eq hi).symm.trans h.deg, hb, (IsoL.leaves_perm hi).symm.trans h.leaves⟩

/-- the induction on the size of the child of the root that holds two of the three tips -/
theorem to_median (all : List String) (hall : all.Nodup) (a b c : String) (hab : a ≠ b) (hac : a ≠ c) (hbc : b ≠ c) :
    ∀ (m : Nat) (t : T), U3 all t → (∀ et ∈ t.kids, TwoOf a b c et.2.leaves → et.2.leaves.length ≤ m) →
      ∃ t₂, U3 all t₂ ∧ Q3 a b c (belowsL t₂.kids) ∧ USame all (belowsL t.kids) (belowsL t₂.kids)
  | m, t, h, hm => by
    by_cases hex : ∃ et ∈ t.kids, TwoOf a b c et.2.leaves
    · obtain ⟨et, het, htwo⟩ := hex
      -- bring that child to the front
      have front : ∃ e K k1 k2 d p, U3 all (.node d p [(e, K), k1, k2]) ∧ TwoOf a b c K.leaves ∧ K.leaves.length ≤ m ∧
          FamEq (belowsL t.kids) (belowsL [(e, K), k1, k2]) := by
        cases t with
        | node d p ks =>
          have hdeg := h.deg
          simp only [T.kids_node] at hdeg het
          match ks, hdeg, h, hm, het with
          | [k0, k1, k2], _, h, hm, het =>
            simp only [List.mem_cons, List.not_mem_nil, or_false] at het
            have hbin := h.bin
            simp only [T.kids_node] at hbin
            rcases het with rfl | rfl | rfl
            · exact ⟨et.1, et.2, k1, k2, d, p, h, htwo, hm et (by simp) htwo, FamEq.refl _⟩
            · have hi : IsoL [k0, et, k2] [et, k0, k2] := IsoL.swap _ _ _
              obtain ⟨e0, t0⟩ := k0
              obtain ⟨e2, t2⟩ := k2
              refine ⟨et.1, et.2, (e0, t0), (e2, t2), d, p, U3_of_isoL h d p _ hi ?_, htwo, hm et (by simp) htwo, IsoL.famEq hi⟩
              obtain ⟨ee, tt⟩ := et
              simp only [binaryL, Bool.and_eq_true, Bool.and_true] at hbin ⊢
              exact ⟨hbin.2.1, hbin.1, hbin.2.2⟩
            · obtain ⟨e0, t0⟩ := k0
              obtain ⟨e1, t1⟩ := k1
              have hi : IsoL [(e0, t0), (e1, t1), et] [et, (e0, t0), (e1, t1)] :=
                IsoL.trans _ _ _ (IsoL.cons _ _ _ _ _ _ (IsoT.refl t0) (IsoL.swap _ _ _)) (IsoL.swap _ _ _)
              refine ⟨et.1, et.2, (e0, t0), (e1, t1), d, p, U3_of_isoL h d p _ hi ?_, htwo, hm et (by simp) htwo, IsoL.famEq hi⟩
              obtain ⟨ee, tt⟩ := et
              simp only [binaryL, Bool.and_eq_true, Bool.and_true] at hbin ⊢
              exact ⟨hbin.2.2, hbin.1, hbin.2.1⟩
      obtain ⟨e0, K, k1, k2, d, p, hU, hK2, hKm, hfe⟩ := front
      obtain ⟨e1, t1⟩ := k1
      obtain ⟨e2, t2⟩ := k2
      -- that child is an inner node with two children
      have hKbin : K.binaryBelow = true := by
        have := hU.bin; simp only [T.kids_node, binaryL, Bool.and_eq_true] at this; exact this.1
      have hKlen : 2 ≤ K.leaves.length := by
        have hnd : (leavesL (T.node d p [(e0, K), (e1, t1), (e2, t2)]).kids).Nodup := hU.leaves.nodup_iff.mpr hall
        simp only [T.kids_node, leavesL] at hnd
        have hndK := (List.nodup_append.mp hnd).1
        rcases hK2 with ⟨h1, h2⟩ | ⟨h1, h2⟩ | ⟨h1, h2⟩
        · exact two_le_of_two_mem hab h1 h2
        · exact two_le_of_two_mem hac h1 h2
        · exact two_le_of_two_mem hbc h1 h2
      cases K with
      | node d0 p0 kk =>
        have hkk : kk.length = 2 := by
          simp only [T.binaryBelow, Bool.and_eq_true, Bool.or_eq_true, beq_iff_eq] at hKbin
          rcases hKbin.1 with h0 | h2
          · have : kk = [] := List.length_eq_zero_iff.mp h0
            subst this
            rw [leaves_of_leaf] at hKlen; simp at hKlen
          · exact h2
        match kk, hkk with
        | [(ea, x), (eb, y)], _ =>
          obtain ⟨hU1, hus⟩ := rot0 all hall d d0 p p0 e0 ea eb e1 e2 x y t1 t2 hU
          -- the leaves of all the tips, pairwise different
          have hnd : (leavesL (T.node d p [(e0, .node d0 p0 [(ea, x), (eb, y)]), (e1, t1), (e2, t2)]).kids).Nodup :=
            hU.leaves.nodup_iff.mpr hall
          simp only [T.kids_node, leavesL, leaves_node_cons, List.append_nil] at hnd
          have hdis := nodup_append_disjoint hnd
          rw [leaves_node_cons] at hK2 hKm hKlen
          simp only [leavesL, List.append_nil, List.length_append] at hKm hKlen
          have hx1 : 1 ≤ x.leaves.length := List.length_pos_iff.mpr (leaves_ne_nil x)
          have hy1 : 1 ≤ y.leaves.length := List.length_pos_iff.mpr (leaves_ne_nil y)
          simp only [leavesL, List.append_nil] at hK2
          -- the new third child holds at most one of the three names
          have hR : ¬ TwoOf a b c (T.node d 0 [(e1, t1), (e2, t2)]).leaves := by
            rw [leaves_node_cons]; simp only [leavesL, List.append_nil]
            intro hR
            rcases hK2 with ⟨k1', k2'⟩ | ⟨k1', k2'⟩ | ⟨k1', k2'⟩ <;> rcases hR with ⟨r1, r2⟩ | ⟨r1, r2⟩ | ⟨r1, r2⟩ <;>
              first
              | exact hdis _ k1' r1 | exact hdis _ k1' r2 | exact hdis _ k2' r1 | exact hdis _ k2' r2
          match m, hKm with
          | 0, hKm => omega
          | m' + 1, hKm =>
            have hbound : ∀ et ∈ (T.node d0 0 [(ea, x), (eb, y), (e0, .node d 0 [(e1, t1), (e2, t2)])]).kids,
                TwoOf a b c et.2.leaves → et.2.leaves.length ≤ m' := by
              intro et het htw
              simp only [T.kids_node, List.mem_cons, List.not_mem_nil, or_false] at het
              rcases het with rfl | rfl | rfl
              · show x.leaves.length ≤ m'; omega
              · show y.leaves.length ≤ m'; omega
              · exact absurd htw hR
            obtain ⟨t₂, hU2, hq2, hus2⟩ := to_median all hall a b c hab hac hbc m' _ hU1 hbound
            refine ⟨t₂, hU2, hq2, ?_⟩
            have s1 : USame all (belowsL t.kids) (belowsL (T.node d p [(e0, .node d0 p0 [(ea, x), (eb, y)]), (e1, t1), (e2, t2)]).kids) :=
              uSame_of_famEq all hfe
            exact USame.trans (famIn_of_U3 h) (famIn_of_U3 hU2)
              (USame.trans (famIn_of_U3 h) (famIn_of_U3 hU1) s1 hus) hus2
    · exact ⟨t, h, Q3_of_root a b c t.kids (fun et het hh => hex ⟨et, het, hh⟩), uSame_refl all _⟩
termination_by m => m

theorem kid_leaves_mem : ∀ (ks : Kids) (et : EdgeD × T), et ∈ ks → et.2.leaves ∈ belowsL ks
  | [], _, h => by simp at h
  | (e, t) :: r, et, h => by
    simp only [belowsL, List.mem_cons, List.mem_append]
    rcases List.mem_cons.mp h with hh | hh
    · left; rw [hh]
    · right; right; exact kid_leaves_mem r et hh

/-- every binary tree drawn from a node of degree three has a drawing from the node joining `a b c`
    with the same set of splits -/
theorem median_drawing (all : List String) (hall : all.Nodup) (a b c : String) (hab : a ≠ b) (hac : a ≠ c) (hbc : b ≠ c)
    (t : T) (h : U3 all t) :
    ∃ t₂, U3 all t₂ ∧ Q3 a b c (belowsL t₂.kids) ∧ USame all (belowsL t.kids) (belowsL t₂.kids) :=
  to_median all hall a b c hab hac hbc all.length t h (fun et het _ => by
    have hm := kid_leaves_mem t.kids et het
    have hnd : (leavesL t.kids).Nodup := h.leaves.nodup_iff.mpr hall
    have hsub : ∀ y ∈ et.2.leaves, y ∈ all := fun y hy => h.leaves.subset (belowsL_sub t.kids _ hm y hy)
    have hnde : et.2.leaves.Nodup := by
      rw [belowsL_eq] at hm
      obtain ⟨s, hs, he⟩ := List.mem_map.mp hm
      rw [← he]
      exact (C04.below_sublist_L t.kids s hs).nodup hnd
    exact hnde.length_le_of_subset hsub)

end Gotree.C16
