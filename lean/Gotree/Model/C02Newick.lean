/-
  C02 — total model of the Newick scanner and parser
  (io/newick/newick_lexer.go, newick_parser.go, newick_nodestack.go), as far as C02
  needs it: outcome class and delivered tree.

  * `scan ign cs` is `Scanner.Scan(ignoreSemiColumn)` on the remaining input.
  * The parser is the machine `stepTok` (one `case` of the `switch tok` of
    `parseIter` per equation) driven by `run`, which is defined by well-founded
    recursion on the length of the remaining input WITHOUT fuel: the
    `decreasing_by` obligation is "every scan consumes at least one character
    unless it returns EOF", and EOF is handled by the non-recursive `atEOF`
    (`case EOF: return`), i.e. every loop leaves on EOF.
  * Go's `node`/`edge` variables are always the head of the node stack (or nil when
    it is empty): the state keeps the stack only.  The bottom frame is the current
    root (pushed when `node == nil`), its `edge` is nil.
  * The tree is built functionally: a frame collects its finished children; a child
    is attached to its parent when it is popped.  Same child order as Go's
    attach-at-creation because pops and creations alternate.
-/
import Gotree.Model.C02
import Gotree.Model.C02Float

namespace Gotree.C02.Newick
open Gotree Gotree.C02

inductive Tok | eof | ws | ident | numeric | openpar | closepar | startlen | openbrack | closebrack | newsibling | eot
  deriving DecidableEq, Repr, Inhabited

def isWs (c : Char) : Bool := c == ' ' || c == '\t' || c == '\n' || c == '\r'

def isIdent (ign : Bool) (c : Char) : Bool :=
  c != '[' && c != ']' && c != '(' && c != ')' && c != ',' && c != ':' && (ign || c != ';')

structure Scanned where
  tok : Tok
  lit : List Char
  rest : List Char

def identOf (ign : Bool) (c : Char) (cs : List Char) : Scanned :=
  let lit := c :: cs.takeWhile (isIdent ign)
  ⟨if isFloat lit then .numeric else .ident, lit, cs.dropWhile (isIdent ign)⟩

/-- `Scanner.Scan(ignoreSemiColumn)` -/
def scan (ign : Bool) : List Char → Scanned
  | [] => ⟨.eof, [], []⟩
  | c :: cs =>
    if isWs c then ⟨.ws, c :: cs.takeWhile isWs, cs.dropWhile isWs⟩
    else if c == '(' then ⟨.openpar, [c], cs⟩
    else if c == ')' then ⟨.closepar, [c], cs⟩
    else if c == '[' then ⟨.openbrack, [c], cs⟩
    else if c == ']' then ⟨.closebrack, [c], cs⟩
    else if c == ',' then ⟨.newsibling, [c], cs⟩
    else if c == ';' && !ign then ⟨.eot, [c], cs⟩
    else if c == ':' then ⟨.startlen, [c], cs⟩
    else identOf ign c cs

/-- the scanner before fix 6ae5e49 (F1): `eof = rune(0)`, a NUL in the input reads as the end of the input -/
def scanNulPinned (ign : Bool) : List Char → Scanned
  | [] => ⟨.eof, [], []⟩
  | c :: cs => if c.toNat == 0 then ⟨.eof, [], cs⟩ else scan ign (c :: cs)

/-- `Parser.scanIgnoreWhitespace()`: skips ONE whitespace token -/
def scanIW (cs : List Char) : Scanned :=
  let s := scan false cs
  if s.tok = .ws then scan false s.rest else s

/- ## node stack -/

structure IFrame where
  d : NodeD
  e : EdgeD
  kids : Kids
  deriving Inhabited

structure RFrame where
  d : NodeD
  kids : Kids
  deriving Inhabited

inductive Mode
  | start            -- Parse: first token
  | startComment     -- Parse: inside the leading [comment]
  | start2           -- Parse: after the leading comment
  | iter             -- parseIter: loop head
  | comment (acc : List Char)  -- parseIter: consumeComment
  | afterColon       -- parseIter: case STARTLEN, the token after ':'
  deriving Inhabited

structure PSt where
  mode : Mode := .start
  stk : Option (RFrame × List IFrame) := none   -- inner frames: head = top of the stack
  level : Int := 0
  prev : Option Tok := none      -- prevTok (-1 = none)
  nedges : Nat := 0
  lastRoot : Option T := none    -- the root set by the last SetRoot whose frame has been popped
  stale : Bool := false          -- the named result `err` holds a ParseFloat error that nothing has overwritten yet
  nonfinite : Bool := false      -- some NaN/±Inf value was stored (its place holds 0 in the model tree)
  deriving Inhabited

def mkNode (d : NodeD) (kids : Kids) : T := .node d 0 kids

/-- `nodeStack.Pop()`; `none` = "cannot pop an empty stack" -/
def pop (st : PSt) : Option PSt :=
  match st.stk with
  | none => none
  | some (r, []) => some { st with stk := none, lastRoot := some (mkNode r.d r.kids) }
  | some (r, [f]) => some { st with stk := some ({ r with kids := r.kids ++ [(f.e, mkNode f.d f.kids)] }, []) }
  | some (r, f :: g :: rest) =>
    some { st with stk := some (r, { g with kids := g.kids ++ [(f.e, mkNode f.d f.kids)] } :: rest) }

def nodeNil (st : PSt) : Bool := st.stk.isNone
/-- Go's `edge == nil`: the stack is empty or its head is the root frame -/
def edgeNil (st : PSt) : Bool :=
  match st.stk with
  | some (_, _ :: _) => false
  | _ => true

def mapTopNode (st : PSt) (f : NodeD → NodeD) : PSt :=
  match st.stk with
  | none => st
  | some (r, []) => { st with stk := some ({ r with d := f r.d }, []) }
  | some (r, t :: rest) => { st with stk := some (r, { t with d := f t.d } :: rest) }

def mapTopEdge (st : PSt) (f : EdgeD → EdgeD) : PSt :=
  match st.stk with
  | some (r, t :: rest) => { st with stk := some (r, { t with e := f t.e } :: rest) }
  | _ => st

def topEdge (st : PSt) : Option EdgeD :=
  match st.stk with
  | some (_, t :: _) => some t.e
  | _ => none

def pushInner (st : PSt) (name : String) : PSt :=
  let fr : IFrame := ⟨⟨name, []⟩, { EdgeD.blank with id := st.nedges }, []⟩
  match st.stk with
  | none => st
  | some (r, inner) => { st with stk := some (r, fr :: inner), nedges := st.nedges + 1 }

/-- value stored for a parsed float -/
def fvalRat : FVal → Rat | .fin q => q | .nonfinite => 0
def fvalNonfin : FVal → Bool | .fin _ => false | .nonfinite => true

/-- `strings.Split(lit, "/")` -/
def splitSlash : List Char → List (List Char)
  | [] => [[]]
  | c :: r =>
    match splitSlash r with
    | [] => [[]]          -- unreachable: the result is never empty
    | p :: ps => if c == '/' then [] :: p :: ps else (c :: p) :: ps

/-- result of one step of the machine -/
inductive Step
  | cont (st : PSt)
  | fail (msg : String)
  | finished (st : PSt)     -- parseIter returned at EOT without error of its own
  deriving Inhabited

/-- what `parseIter` does with a comment that has just been closed -/
def closeComment (st : PSt) (comment : List Char) : Step :=
  let c := String.ofList comment
  let st := { st with stale := false, mode := .iter }
  if st.prev = some .startlen && !edgeNil st then
    .cont { mapTopEdge st (fun e => { e with comments := e.comments ++ [c] }) with prev := some .closebrack }
  else if st.prev = some .startlen && edgeNil st && !nodeNil st then
    .cont { mapTopNode st (fun d => { d with comments := d.comments ++ [c] }) with prev := some .closebrack }
  else if (st.prev = some .closepar || st.prev = some .ident || st.prev = some .numeric || st.prev = some .closebrack) && !nodeNil st then
    .cont { mapTopNode st (fun d => { d with comments := d.comments ++ [c] }) with prev := some .closebrack }
  else .fail "newick error: comment should not be located here"

/-- `case IDENT, NUMERIC` after `)`, NUMERIC: a support value -/
def supportLabel (st : PSt) (lit : List Char) : Step :=
  if st.level = 0 || edgeNil st then .cont st
  else
    match parseFloat lit with
    | none => .fail "support is not a float"
    | some v => .cont { mapTopEdge st (fun e => { e with sup := fvalRat v }) with stale := false, nonfinite := st.nonfinite || fvalNonfin v }

/-- "numeric/numeric" = support/pvalue; the two ParseFloat calls assign the named result `err`.
    Returns the state and `hasname`. -/
def slashLabel (st : PSt) (lit : List Char) : PSt × Bool :=
  match splitSlash lit with
  | [a, b] =>
    if edgeNil st then (st, true)
    else
      match parseFloat a with
      | none => ({ st with stale := true }, true)
      | some va =>
        match parseFloat b with
        | none => ({ st with stale := true }, true)
        | some vb =>
          ({ mapTopEdge st (fun e => { e with sup := fvalRat va, pval := fvalRat vb }) with
              stale := false, nonfinite := st.nonfinite || fvalNonfin va || fvalNonfin vb }, false)
  | _ => (st, true)

/-- `case IDENT, NUMERIC` after `)`, IDENT: support/pvalue or a node name -/
def nameLabel (st : PSt) (lit : List Char) : Step :=
  let r := slashLabel st lit
  if r.2 then
    if nodeNil r.1 then .fail "Newick Error: Cannot assign node name to nil node"
    else .cont (mapTopNode r.1 (fun d => { d with name := String.ofList lit }))
  else .cont r.1

/-- `case IDENT, NUMERIC` elsewhere: a new tip -/
def newTip (st : PSt) (tok : Tok) (lit : List Char) : Step :=
  if st.prev ≠ some .openpar && st.prev ≠ some .newsibling then .fail "Newick Error: There should not be a tip name in this context"
  else if nodeNil st then .fail "Cannot create a new tip with no parent"
  else .cont { pushInner st (String.ofList lit) with prev := some tok }

/-- one iteration of the `for` loop of `parseIter` (mode `iter`) for a token other than EOF -/
def stepIter (st : PSt) (tok : Tok) (lit : List Char) : Step :=
  match tok with
  | .openpar =>
    if nodeNil st then
      if st.level > 0 then .fail "nil node at depth > 0"
      else .cont { st with stk := some (⟨⟨"", []⟩, []⟩, []), level := st.level + 1, prev := some .openpar,
                             lastRoot := none }    -- t.SetRoot(node): the previous root is forgotten
    else
      if st.level = 0 then .fail "newick Error: An open parenthesis while the stack is empty"
      else .cont { pushInner st "" with level := st.level + 1, prev := some .openpar }
  | .closepar =>
    match pop { st with prev := some .closepar, level := st.level - 1 } with
    | none => .fail "newick Error: Closing parenthesis while the stack is already empty"
    | some st' => .cont { st' with stale := false }
  | .openbrack => .cont { st with mode := .comment [] }
  | .closebrack => .fail "newick error: mismatched ] here"
  | .startlen => .cont { st with mode := .afterColon }
  | .newsibling =>
    match pop st with
    | none => .fail "Newick Error: Stack is empty, a coma should not be located here"
    | some st' => .cont { st' with stale := false, prev := some .newsibling }
  | .numeric => if st.prev = some .closepar then supportLabel st lit else newTip st tok lit
  | .ident => if st.prev = some .closepar then nameLabel st lit else newTip st tok lit
  | .eot =>
    if st.level ≠ 0 then .fail "newick Error: Mismatched parenthesis at ;"
    else .finished { st with prev := some .eot }
  | .ws => .cont st     -- no `case` for WS in the switch
  | .eof => .cont st    -- handled by `atEOF`, never delivered here

/-- `case STARTLEN`, once the next token is known -/
def stepAfterColon (st : PSt) (tok : Tok) (lit : List Char) : Step :=
  let st := { st with mode := .iter }
  if tok ≠ .numeric then .fail "newick error: no numeric value after ':'"
  else if !nodeNil st && st.level ≠ 0 then
    match topEdge st with
    | none => .fail "Newick Error: Edge length should not be located here"
    | some e =>
      if e.len ≠ NIL then .fail "Newick Error: More than one length is given"
      else
        match parseFloat lit with
        | none => .fail "Newick Error: Length is not a float value"
        | some v => .cont { mapTopEdge st (fun e => { e with len := (if fvalNonfin v then 0 else fvalRat v) }) with
                              stale := false, prev := some .startlen, nonfinite := st.nonfinite || fvalNonfin v }
  else if st.level = 0 then .cont { st with prev := some .startlen }
  else .fail "Newick Error: Cannot assign length to nil node"

/-- a token (≠ EOF) outside comments -/
def stepTok (st : PSt) (tok : Tok) (lit : List Char) : Step :=
  match st.mode with
  | .start =>
    if tok = .openbrack then .cont { st with mode := .startComment }
    else if tok = .openpar then stepIter { st with mode := .iter } tok lit   -- unscan, then parseIter reads it again
    else .fail "found something else, expected ("
  | .start2 =>
    if tok = .openpar then stepIter { st with mode := .iter } tok lit
    else .fail "found something else, expected ("
  | .iter => stepIter st tok lit
  | .afterColon => stepAfterColon st tok lit
  | .startComment => .cont st
  | .comment _ => .cont st

/- ## after parseIter -/

/-- close every open frame: the bottom frame is the root -/
def closeAll (r : RFrame) : List IFrame → T
  | [] => mkNode r.d r.kids
  | [f] => mkNode r.d (r.kids ++ [(f.e, mkNode f.d f.kids)])
  | f :: g :: rest => closeAll r ({ g with kids := g.kids ++ [(f.e, mkNode f.d f.kids)] } :: rest)
termination_by l => l.length

/-- Go's `unicode.IsSpace` -/
def goIsSpace (c : Char) : Bool :=
  let n := c.toNat
  (9 ≤ n && n ≤ 13) || n == 32 || n == 0x85 || n == 0xA0 || n == 0x1680 || (0x2000 ≤ n && n ≤ 0x200A) ||
  n == 0x2028 || n == 0x2029 || n == 0x202F || n == 0x205F || n == 0x3000

def trimSpace (s : String) : String :=
  String.ofList ((s.toList.dropWhile goIsSpace).reverse.dropWhile goIsSpace).reverse

/- `for _, tip := range newtree.Tips() { tip.SetName(strings.TrimSpace(tip.Name())) }` -/
mutual
def trimTips : T → T
  | .node d p [] => .node { d with name := trimSpace d.name } p []
  | .node d p (k :: ks) => .node d p (trimTipsL (k :: ks))
def trimTipsL : Kids → Kids
  | [] => []
  | (e, t) :: r => (e, trimTips t) :: trimTipsL r
end

def trimRoot : T → T
  | .node d p [(e, t)] => .node { d with name := trimSpace d.name } p [(e, trimTips t)]
  | .node d p k => .node d p (trimTipsL k)

/-- delivered tree and whether it holds a non-finite number -/
structure Parsed where
  tree : T
  nonfinite : Bool
  /-- the input left after the `;` (where a further `Parse()` of the same `Parser` goes on, 3850fd2) -/
  rest : List Char := []

/-- the end of `Parse` once `parseIter` has returned at `;` with level 0 -/
def finish (st : PSt) : Res Parsed :=
  if st.stale then .err "stale ParseFloat error returned by parseIter"
  else
    -- newtree.Tips(): dereferences the root
    match st.stk, st.lastRoot with
    | some (r, inner), _ => .ok ⟨trimRoot (closeAll r inner), st.nonfinite, []⟩
    | none, some t => .ok ⟨trimRoot t, st.nonfinite, []⟩
    | none, none => .panic "nil root dereferenced by Tips()"

/-- EOF: `parseIter` returns; `Parse` then fails on the level or on the missing `;` -/
def atEOF (st : PSt) : Res Parsed :=
  match st.mode with
  | .start | .start2 => .err "found \"\", expected ("
  | .startComment | .comment _ => .err "unmatched bracket"
  | .afterColon => .err "newick error: no numeric value after ':'"
  | .iter => .err "found \"\", expected ;"

/- ## the scanner consumes input -/

theorem length_dropWhile_le' {α : Type} (p : α → Bool) : ∀ l : List α, (l.dropWhile p).length ≤ l.length
  | [] => by simp
  | a :: l => by
    have := length_dropWhile_le' p l
    simp only [List.dropWhile]
    split <;> simp <;> omega

theorem scan_rest_le (ign : Bool) (cs : List Char) : (scan ign cs).rest.length ≤ cs.length := by
  cases cs with
  | nil => simp [scan]
  | cons c cs =>
    have h1 := length_dropWhile_le' isWs cs
    have h2 := length_dropWhile_le' (isIdent ign) cs
    simp only [scan, identOf]
    repeat' split
    all_goals simp only [List.length_cons]
    all_goals omega

theorem scan_rest_lt (ign : Bool) (cs : List Char) (h : (scan ign cs).tok ≠ .eof) :
    (scan ign cs).rest.length < cs.length := by
  cases cs with
  | nil => simp [scan] at h
  | cons c cs =>
    have h1 := length_dropWhile_le' isWs cs
    have h2 := length_dropWhile_le' (isIdent ign) cs
    simp only [scan, identOf]
    repeat' split
    all_goals simp only [List.length_cons]
    all_goals omega

theorem scanIW_rest_lt (cs : List Char) (h : (scanIW cs).tok ≠ .eof) :
    (scanIW cs).rest.length < cs.length := by
  unfold scanIW at *
  by_cases hw : (scan false cs).tok = .ws
  · rw [if_pos hw] at h ⊢
    have a := scan_rest_lt false cs (by rw [hw]; decide)
    have b := scan_rest_le false (scan false cs).rest
    omega
  · rw [if_neg hw] at h ⊢
    exact scan_rest_lt false cs h

/- ## the driver loop: `Parse` -/

def inComment (m : Mode) : Bool :=
  match m with
  | .startComment | .comment _ => true
  | _ => false

/-- `Parser.Parse()` from state `st` on the remaining input.  No fuel. -/
def run (st : PSt) (cs : List Char) : Res Parsed :=
  if inComment st.mode then
    -- consumeComment: `p.scan(true)` until `]`
    let s := scan true cs
    if h : s.tok = .eof then atEOF st
    else if s.tok = .closebrack then
      match st.mode with
      | .comment acc =>
        match closeComment st acc with
        | .cont st' => run st' s.rest
        | .fail m => .err m
        | .finished _ => .err "unreachable"
      | _ => run { st with mode := .start2 } s.rest
    else
      match st.mode with
      | .comment acc => run { st with mode := .comment (acc ++ s.lit) } s.rest
      | _ => run st s.rest
  else
    let s := scanIW cs
    if h : s.tok = .eof then atEOF st
    else
      match stepTok st s.tok s.lit with
      | .cont st' => run st' s.rest
      | .fail m => .err m
      | .finished st' =>
        -- `Parse` consumes the `;` that `parseIter` had unscanned: the parser stands after it
        match finish st' with
        | .ok p => .ok { p with rest := s.rest }
        | .err m => .err m
        | .panic m => .panic m
termination_by cs.length
decreasing_by
  all_goals first
    | exact scan_rest_lt true cs h
    | exact scanIW_rest_lt cs h

/-- a successful `Parse` has consumed input: what is left is shorter (so a loop of `Parse` calls on one
    `Parser` ends) -/
theorem run_rest_lt (st : PSt) (cs : List Char) (p : Parsed) (h : run st cs = .ok p) : p.rest.length < cs.length := by
  fun_induction run st cs
  case case2 st cs hc s hne hcb acc hm st' hcc ih =>
    have h1 := ih h; have h2 : s.rest.length < cs.length := scan_rest_lt true cs hne; omega
  case case5 st cs hc s hne hcb hm ih =>
    have h1 := ih h; have h2 : s.rest.length < cs.length := scan_rest_lt true cs hne; omega
  case case6 st cs hc s hne hcb acc hm ih =>
    have h1 := ih h; have h2 : s.rest.length < cs.length := scan_rest_lt true cs hne; omega
  case case7 st cs hc s hne hcb hm ih =>
    have h1 := ih h; have h2 : s.rest.length < cs.length := scan_rest_lt true cs hne; omega
  case case9 st cs hc s hne st' hst ih =>
    have h1 := ih h; have h2 : s.rest.length < cs.length := scanIW_rest_lt cs hne; omega
  case case11 st cs hc s hne st' hst p' hf =>
    cases h
    exact scanIW_rest_lt cs hne
  all_goals first
    | (simp [atEOF] at h; done)
    | (unfold atEOF at h; split at h <;> cases h)
    | cases h

/-- `Parser.More()` (3850fd2): `scanIgnoreWhitespace` + `unscan`: is anything but white space left? -/
def more (cs : List Char) : Bool := decide ((scanIW cs).tok ≠ .eof)

/-- `newick.NewParser(r).Parse()` on the decoded input -/
def parseChars (cs : List Char) : Res Parsed := run {} cs

/-- … on bytes -/
def parse (b : List UInt8) : Res Parsed := parseChars (decodeLossy b)

end Gotree.C02.Newick
