/-
  C01 — the literal unscan buffer (Model/C01Buf.lean) and the positional model (Model/C01.lean) compute the same.
-/
import Gotree.Model.C01Buf
import Gotree.Lemmas.C01Sep

namespace Gotree.Newick.Buf
open Gotree Gotree.Newick Gotree.C01

/-- the Parser object `b` stands at input position `p` of the positional model: either nothing is buffered and the
    reader holds `p`, or a non-blank token is buffered and `p` is where that token began -/
def Agrees (C : Codec) (b : PBuf) (p : List Char) : Prop :=
  (b.n = false ∧ b.inp = p) ∨ (b.n = true ∧ b.tok ≠ .ws ∧ scan C false p = (b.tok, b.lit, b.inp))

theorem agrees_fresh (C : Codec) (inp : List Char) : Agrees C (fresh inp) inp := Or.inl ⟨rfl, rfl⟩

theorem scan_lit_rest (C : Codec) (ign : Bool) (p : List Char) : (scan C ign p).2.1 ++ (scan C ign p).2.2 = p := by
  cases p with
  | nil => simp [scan]
  | cons c r =>
    simp only [scan]
    repeat' split
    all_goals simp [List.takeWhile_append_dropWhile]

/-- the state `scanIgnoreWhitespace` leaves: the token in the buffer, flag cleared -/
def afterIW (C : Codec) (p : List Char) : PBuf := ⟨(scanIW C p).2.2, (scanIW C p).1, (scanIW C p).2.1, false⟩

theorem scanIWB_eq (C : Codec) (b : PBuf) (p : List Char) (h : Agrees C b p) :
    scanIWB C b = (((scanIW C p).1, (scanIW C p).2.1), afterIW C p) := by
  rcases h with ⟨hn, hi⟩ | ⟨hn, hws, hs⟩
  · cases b with
    | mk inp tok lit n =>
      simp only at hn hi
      subst hn; subst hi
      simp only [scanIWB, scanB, afterIW, scanIW, skipWs, Bool.false_eq_true, if_false]
      by_cases hw : (scan C false inp).1 = .ws <;> simp [hw]
  · cases b with
    | mk inp tok lit n =>
      simp only at hn hws hs
      subst hn
      have hk : skipWs C p = p := by simp [skipWs, hs, hws]
      simp [scanIWB, scanB, afterIW, scanIW, hk, hs, hws]

theorem agrees_afterIW (C : Codec) (p : List Char) : Agrees C (afterIW C p) (scanIW C p).2.2 := Or.inl ⟨rfl, rfl⟩

theorem dropWhile_head {α} (p : α → Bool) : ∀ (l : List α) (d : α) (r2 : List α), l.dropWhile p = d :: r2 → p d = false := by
  intro l
  induction l with
  | nil => intro d r2 h; simp at h
  | cons x l ih =>
    intro d r2 h
    by_cases hx : p x = true
    · rw [List.dropWhile_cons_of_pos hx] at h; exact ih d r2 h
    · rw [List.dropWhile_cons_of_neg hx] at h
      cases h
      simpa using hx

/-- `scanIgnoreWhitespace` never returns a WS token -/
theorem scanIW_not_ws (C : Codec) (p : List Char) : (scanIW C p).1 ≠ .ws := by
  unfold scanIW
  cases p with
  | nil => simp [skipWs, scan]
  | cons c r =>
    by_cases hc : isWhitespace c = true
    · have hk : skipWs C (c :: r) = r.dropWhile isWhitespace := by simp [skipWs, scan, hc]
      rw [hk]
      cases hd : r.dropWhile isWhitespace with
      | nil => simp [scan]
      | cons d r2 => exact scan_not_ws C false d r2 (dropWhile_head _ r d r2 hd)
    · have hc' : isWhitespace c = false := by simpa using hc
      have h1 := scan_not_ws C false c r hc'
      have hk : skipWs C (c :: r) = c :: r := by simp [skipWs, h1]
      rw [hk]; exact h1

/-- after `unscan` the Parser stands where the token it has just read began -/
theorem agrees_unscan (C : Codec) (p : List Char) : Agrees C (unscanB (afterIW C p)) (skipWs C p) :=
  Or.inr ⟨rfl, scanIW_not_ws C p, rfl⟩

/-- `consumeComment` through the Parser object (flag 0): the positional result, the reader after the `]` -/
theorem consumeCommentB_eq (C : Codec) : ∀ (fuel : Nat) (inp : List Char) (tok : Tok) (lit acc : List Char), inp.length < fuel →
    (match consumeComment C inp acc with
     | none => consumeCommentB C fuel ⟨inp, tok, lit, false⟩ acc = none
     | some (c, r) => ∃ b', consumeCommentB C fuel ⟨inp, tok, lit, false⟩ acc = some (c, b') ∧ b'.n = false ∧ b'.inp = r) := by
  intro fuel
  induction fuel with
  | zero => intro inp tok lit acc h; omega
  | succ fuel ih =>
    intro inp tok lit acc hlt
    rw [consumeComment]
    simp only [consumeCommentB, scanB, Bool.false_eq_true, if_false]
    by_cases h1 : (scan C true inp).1 = .closebrack
    · simp only [h1, if_true]
      exact ⟨_, rfl, rfl, rfl⟩
    · simp only [h1, if_false]
      by_cases h2 : (scan C true inp).1 = .eof ∨ (scan C true inp).1 = .illegal
      · simp only [h2, if_true, dite_true]
      · simp only [h2, if_false, dite_false]
        have hlt2 := scan_lt C true inp (fun h3 => h2 (Or.inl h3))
        exact ih _ _ _ _ (by omega)

theorem iter_ne_eot (C : Codec) (st : PState) (tok : Tok) (lit pos pos' rest : List Char) (h : tok ≠ .eot) :
    iter C st tok lit pos rest = iter C st tok lit pos' rest := by
  cases tok
  all_goals first
    | (exfalso; exact h rfl)
    | rfl

theorem iter_stop_ok (C : Codec) (st : PState) (tok : Tok) (lit pos rest : List Char) (st' : PState) (r : List Char)
    (h : iter C st tok lit pos rest = .stop (.ok (st', r))) : (tok = .eot ∧ r = pos) ∨ (tok = .eof ∧ r = rest) := by
  unfold iter at h
  split at h
  all_goals (try simp only [] at h)
  all_goals repeat' split at h
  all_goals first
    | (cases h; done)
    | (cases h; first | exact Or.inl ⟨rfl, rfl⟩ | exact Or.inr ⟨rfl, rfl⟩)
    | skip

theorem iter_eof_stop (C : Codec) (st : PState) (lit pos rest : List Char) (st' : PState) (r' : List Char) :
    iter C st .eof lit pos rest ≠ .cont st' r' := by
  intro h
  simp only [iter] at h
  split at h <;> cases h

/-- the outcomes of the two loops correspond: same state, the Parser standing at the position handed on -/
def RelO (C : Codec) : Outcome (PState × PBuf) → Outcome (PState × List Char) → Prop
  | .ok (s, b), .ok (s', r) => s = s' ∧ Agrees C b r
  | .err m, .err m' => m = m'
  | .panic m, .panic m' => m = m'
  | .unrep m, .unrep m' => m = m'
  | _, _ => False

/-- one turn of the positional loop, without the equation binder of its definition -/
theorem run_step (C : Codec) (st : PState) (p : List Char) :
    run C st p = (match iter C st (scanIW C p).1 (scanIW C p).2.1 (skipWs C p) (scanIW C p).2.2 with
      | .stop o => o
      | .cont st' r' => if (scanIW C p).1 = .eof then .err "unreachable: EOF always stops" else run C st' r') := by
  rw [run]
  split
  · rename_i o ho; rw [ho]
  · rename_i st' r' hi; rw [hi]; simp only []; split <;> rfl

theorem runBF_rel (C : Codec) : ∀ (fuel : Nat) (st : PState) (b : PBuf) (p : List Char), Agrees C b p → p.length < fuel →
    RelO C (runBF C fuel st b) (run C st p) := by
  intro fuel
  induction fuel with
  | zero => intro st b p _ h; omega
  | succ fuel ih =>
    intro st b p hag hlt
    have hs := scanIWB_eq C b p hag
    rw [run_step]
    simp only [runBF, hs, afterIW]
    by_cases heot : (scanIW C p).1 = .eot
    · -- `;`: both stop; the Parser unscans, the positional loop hands on the position of the `;`
      have e1 : ∀ pos, iter C st (scanIW C p).1 (scanIW C p).2.1 pos (scanIW C p).2.2 =
          (if st.level != 0 then .stop (.err "Mismatched parenthesis at ;")
           else if st.stale then .stop (.err "strconv.ParseFloat: invalid syntax")
           else .stop (.ok ({ st with prevTok := some .eot }, pos))) := by
        intro pos; rw [heot]; rfl
      simp only [e1]
      by_cases hl : (st.level != 0) = true
      · simp [hl, RelO]
      · by_cases hst : st.stale = true
        · simp [hl, hst, RelO]
        · have hu := agrees_unscan C p
          simp only [afterIW, heot] at hu
          simpa [hl, hst, heot, RelO] using hu
    · rw [iter_ne_eot C st _ _ [] (skipWs C p) _ heot]
      cases hi : iter C st (scanIW C p).1 (scanIW C p).2.1 (skipWs C p) (scanIW C p).2.2 with
      | stop o =>
        cases o with
        | ok sr =>
          obtain ⟨s2, r⟩ := sr
          rcases iter_stop_ok C st _ _ _ _ s2 r hi with ⟨h1, _⟩ | ⟨_, h2⟩
          · exact absurd h1 heot
          · simp only [heot, if_false, RelO, true_and]
            rw [h2]
            exact Or.inl ⟨rfl, rfl⟩
        | err m => simp [RelO]
        | panic m => simp [RelO]
        | unrep m => simp [RelO]
      | cont st2 r2 =>
        simp only []
        by_cases heof : (scanIW C p).1 = .eof
        · exfalso
          rw [heof] at hi
          exact iter_eof_stop C st _ _ _ st2 r2 hi
        · simp only [heof, if_false]
          have h1 := iter_le C st _ _ _ _ st2 r2 hi
          have h2 := scanIW_lt C p heof
          exact ih st2 _ r2 (Or.inl ⟨rfl, rfl⟩) (by omega)

/-! ### `Parse()` -/

/-- positional: where the token that must be `(` is looked for (after an optional leading comment) -/
def startR (C : Codec) (p : List Char) : Option (List Char) :=
  if (scanIW C p).1 = .openbrack then
    match consumeComment C (scanIW C p).2.2 [] with
    | none => none
    | some (_, r) => some r
  else some p

/-- positional: `Parse` from the token that must be `(` -/
def tailR (C : Codec) (inp1 : List Char) : Outcome (T × List Char) :=
  if (scanIW C inp1).1 ≠ .openpar then .err "found …, expected ("
  else
    match run C {} (skipWs C inp1) with
    | .err m => .err m
    | .panic m => .panic m
    | .unrep m => .unrep m
    | .ok (st, rest) =>
      if st.level != 0 then .err "mismatched parenthesis after parsing"
      else if (scanIW C rest).1 ≠ .eot then .err "found …, expected ;"
      else match st.result with
        | none => .panic "nil root in Tips()"
        | some t => .ok (trimTips t, (scanIW C rest).2.2)

theorem parseR_split (C : Codec) (p : List Char) :
    parseR C p = (match startR C p with | none => .err "unmatched bracket" | some inp1 => tailR C inp1) := rfl

def startB (C : Codec) (b : PBuf) : Option ((Tok × List Char) × PBuf) :=
  if (scanIWB C b).1.1 = .openbrack then
    match consumeCommentB C (fuelOf (scanIWB C b).2) (scanIWB C b).2 [] with
    | none => none
    | some (_, b1) => some (scanIWB C b1)
  else some (scanIWB C b)

def tailB (C : Codec) (s1 : (Tok × List Char) × PBuf) : Outcome T × PBuf :=
  if s1.1.1 ≠ .openpar then (.err "found …, expected (", s1.2)
  else
    match runBF C (fuelOf (unscanB s1.2)) {} (unscanB s1.2) with
    | .err m => (.err m, s1.2)
    | .panic m => (.panic m, s1.2)
    | .unrep m => (.unrep m, s1.2)
    | .ok (st, b2) =>
      if st.level != 0 then (.err "mismatched parenthesis after parsing", b2)
      else
        if (scanIWB C b2).1.1 ≠ .eot then (.err "found …, expected ;", (scanIWB C b2).2)
        else match st.result with
          | none => (.panic "nil root in Tips()", (scanIWB C b2).2)
          | some t => (.ok (trimTips t), (scanIWB C b2).2)

theorem parseB_split (C : Codec) (b : PBuf) :
    parseB C b = (match startB C b with | none => (.err "unmatched bracket", (scanIWB C b).2) | some s1 => tailB C s1) := rfl

theorem start_rel (C : Codec) (b : PBuf) (p : List Char) (h : Agrees C b p) :
    (match startR C p with
     | none => startB C b = none
     | some inp1 => startB C b = some (((scanIW C inp1).1, (scanIW C inp1).2.1), afterIW C inp1)) := by
  have hs := scanIWB_eq C b p h
  unfold startR startB
  simp only [hs]
  by_cases hb : (scanIW C p).1 = .openbrack
  · simp only [hb, if_true]
    have hc := consumeCommentB_eq C (fuelOf (afterIW C p)) (scanIW C p).2.2 (scanIW C p).1 (scanIW C p).2.1 []
      (by simp only [fuelOf, afterIW]; omega)
    cases hcc : consumeComment C (scanIW C p).2.2 [] with
    | none =>
      rw [hcc] at hc
      simp only [afterIW] at hc ⊢
      rw [hc]
    | some cr =>
      obtain ⟨c, r⟩ := cr
      rw [hcc] at hc
      obtain ⟨b', hb', hn, hi⟩ := hc
      simp only [afterIW] at hb' ⊢
      rw [hb']
      simp only []
      rw [scanIWB_eq C b' r (Or.inl ⟨hn, hi⟩)]
      rfl
  · simp only [hb, if_false]

theorem tail_rel (C : Codec) (inp1 : List Char) :
    (match tailR C inp1 with
     | .ok (t, r) => ∃ b', tailB C (((scanIW C inp1).1, (scanIW C inp1).2.1), afterIW C inp1) = (.ok t, b') ∧ Agrees C b' r
     | .err m => (tailB C (((scanIW C inp1).1, (scanIW C inp1).2.1), afterIW C inp1)).1 = .err m
     | .panic m => (tailB C (((scanIW C inp1).1, (scanIW C inp1).2.1), afterIW C inp1)).1 = .panic m
     | .unrep m => (tailB C (((scanIW C inp1).1, (scanIW C inp1).2.1), afterIW C inp1)).1 = .unrep m) := by
  unfold tailR tailB
  simp only []
  by_cases hop : (scanIW C inp1).1 = .openpar
  · simp only [hop, ne_eq, not_true_eq_false, if_false]
    have hfuel : (skipWs C inp1).length < fuelOf (unscanB (afterIW C inp1)) := by
      have := scan_lit_rest C false (skipWs C inp1)
      have h2 := congrArg List.length this
      simp only [List.length_append] at h2
      simp only [fuelOf, unscanB, afterIW, scanIW]
      omega
    have hrel := runBF_rel C (fuelOf (unscanB (afterIW C inp1))) {} (unscanB (afterIW C inp1)) (skipWs C inp1)
      (agrees_unscan C inp1) hfuel
    cases hr : run C {} (skipWs C inp1) with
    | ok sr =>
      obtain ⟨st, rest⟩ := sr
      cases hb : runBF C (fuelOf (unscanB (afterIW C inp1))) {} (unscanB (afterIW C inp1)) with
      | ok sb =>
        obtain ⟨st2, b2⟩ := sb
        rw [hr, hb] at hrel
        simp only [RelO] at hrel
        obtain ⟨hst, hag⟩ := hrel
        subst hst
        simp only []
        by_cases hl : (st2.level != 0) = true
        · simp only [hl, if_true]
        · simp only [hl, if_false]
          rw [scanIWB_eq C b2 rest hag]
          simp only []
          by_cases he : (scanIW C rest).1 = .eot
          · simp only [he, ne_eq, not_true_eq_false, if_false]
            cases st2.result with
            | none => simp
            | some t =>
              simp only [Bool.false_eq_true, if_false]
              exact ⟨_, rfl, agrees_afterIW C rest⟩
          · simp [he]
      | err m => rw [hr, hb] at hrel; simp [RelO] at hrel
      | panic m => rw [hr, hb] at hrel; simp [RelO] at hrel
      | unrep m => rw [hr, hb] at hrel; simp [RelO] at hrel
    | err m =>
      cases hb : runBF C (fuelOf (unscanB (afterIW C inp1))) {} (unscanB (afterIW C inp1)) with
      | err m2 => rw [hr, hb] at hrel; simp only [RelO] at hrel; subst hrel; rfl
      | ok sb => rw [hr, hb] at hrel; simp [RelO] at hrel
      | panic m2 => rw [hr, hb] at hrel; simp [RelO] at hrel
      | unrep m2 => rw [hr, hb] at hrel; simp [RelO] at hrel
    | panic m =>
      cases hb : runBF C (fuelOf (unscanB (afterIW C inp1))) {} (unscanB (afterIW C inp1)) with
      | panic m2 => rw [hr, hb] at hrel; simp only [RelO] at hrel; subst hrel; rfl
      | ok sb => rw [hr, hb] at hrel; simp [RelO] at hrel
      | err m2 => rw [hr, hb] at hrel; simp [RelO] at hrel
      | unrep m2 => rw [hr, hb] at hrel; simp [RelO] at hrel
    | unrep m =>
      cases hb : runBF C (fuelOf (unscanB (afterIW C inp1))) {} (unscanB (afterIW C inp1)) with
      | unrep m2 => rw [hr, hb] at hrel; simp only [RelO] at hrel; subst hrel; rfl
      | ok sb => rw [hr, hb] at hrel; simp [RelO] at hrel
      | err m2 => rw [hr, hb] at hrel; simp [RelO] at hrel
      | panic m2 => rw [hr, hb] at hrel; simp [RelO] at hrel
  · simp only [hop, ne_eq, not_false_eq_true, if_true]

/-- `Parse()` on the Parser object and the positional `parseR`: same outcome, and after a success the Parser
    stands at the position `parseR` hands on -/
theorem parseB_rel (C : Codec) (b : PBuf) (p : List Char) (h : Agrees C b p) :
    (match parseR C p with
     | .ok (t, r) => ∃ b', parseB C b = (.ok t, b') ∧ Agrees C b' r
     | .err m => (parseB C b).1 = .err m
     | .panic m => (parseB C b).1 = .panic m
     | .unrep m => (parseB C b).1 = .unrep m) := by
  rw [parseR_split, parseB_split]
  have hst := start_rel C b p h
  cases hsr : startR C p with
  | none => rw [hsr] at hst; rw [hst]
  | some inp1 => rw [hsr] at hst; rw [hst]; exact tail_rel C inp1

/-- `More()`: the positional answer, and the Parser stands at the first non-blank character -/
theorem moreB_rel (C : Codec) (b : PBuf) (p : List Char) (h : Agrees C b p) :
    (moreB C b).1 = more C p ∧ Agrees C (moreB C b).2 (skipWs C p) := by
  simp only [moreB, scanIWB_eq C b p h, more]
  exact ⟨by simp, agrees_unscan C p⟩

/-! ### the loop of ReadMultiTrees on one Parser object -/

theorem parseWhileMore_step (C : Codec) (p : List Char) :
    parseWhileMore C p = (match parseR C p with
      | .ok (t, r) => .ok t :: (if more C r then parseWhileMore C (skipWs C r) else [])
      | .err m => [.err m]
      | .panic m => [.panic m]
      | .unrep m => [.unrep m]) := by
  rw [parseWhileMore]
  split
  all_goals (rename_i h; rw [h])

theorem parseWhileMoreB_eq (C : Codec) : ∀ (fuel : Nat) (b : PBuf) (p : List Char), Agrees C b p → p.length < fuel →
    parseWhileMoreB C fuel b = parseWhileMore C p := by
  intro fuel
  induction fuel with
  | zero => intro b p _ h; omega
  | succ fuel ih =>
    intro b p hag hlt
    rw [parseWhileMore_step]
    simp only [parseWhileMoreB]
    have hp := parseB_rel C b p hag
    cases hr : parseR C p with
    | ok tr =>
      obtain ⟨t, r⟩ := tr
      rw [hr] at hp
      obtain ⟨b', hb', hag'⟩ := hp
      rw [hb']
      simp only []
      have hm := moreB_rel C b' r hag'
      rw [hm.1]
      by_cases hmore : more C r = true
      · simp only [hmore, if_true]
        have h1 := parseR_lt C p t r hr
        have h2 := skipWs_le C r
        rw [ih _ _ hm.2 (by omega)]
      · simp [hmore]
    | err m =>
      rw [hr] at hp
      cases hpb : parseB C b with
      | mk o b1 => rw [hpb] at hp; simp only at hp; subst hp; rfl
    | panic m =>
      rw [hr] at hp
      cases hpb : parseB C b with
      | mk o b1 => rw [hpb] at hp; simp only at hp; subst hp; rfl
    | unrep m =>
      rw [hr] at hp
      cases hpb : parseB C b with
      | mk o b1 => rw [hpb] at hp; simp only at hp; subst hp; rfl

end Gotree.Newick.Buf
