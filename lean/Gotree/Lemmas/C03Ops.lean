/-
  C03 — closure of the history invariant under the composed operation models:
  tip names are only permuted (or, for pruning, filtered) and "no single-child inner node"
  survives where the property's quantifier promises it.
-/
import Gotree.Model.C03Ops
import Gotree.Lemmas.C05
import Gotree.Proofs.C05
import Gotree.Proofs.C06
import Gotree.Proofs.C07
import Gotree.Lemmas.C15Graft
import Gotree.Lemmas.C15InsertAll
import Gotree.Lemmas.C15Single
import Gotree.Lemmas.C15Copy
import Gotree.Proofs.C17
import Gotree.Lemmas.C16

namespace Gotree.C03
open Gotree Gotree.C05

/- ## noSingle as `List.all` -/

theorem noSingleL_eq_all : ∀ (k : Kids), noSingleL k = k.all (fun x => x.2.noSingleBelow)
  | [] => rfl
  | (_, t) :: r => by simp [noSingleL, noSingleL_eq_all r]

theorem noSingleBelow_node (d : NodeD) (p : Nat) (k : Kids) :
    (T.node d p k).noSingleBelow = (k.length != 1 && noSingleL k) := by
  simp [T.noSingleBelow]

theorem noSingleL_perm {k₁ k₂ : Kids} (h : k₁.Perm k₂) : noSingleL k₁ = noSingleL k₂ := by
  rw [noSingleL_eq_all, noSingleL_eq_all]
  exact h.all_eq

theorem noSingleL_append (a b : Kids) : noSingleL (a ++ b) = (noSingleL a && noSingleL b) := by
  simp [noSingleL_eq_all]

theorem noSingleL_of_sublist {a b : Kids} (h : a.Sublist b) (hb : noSingleL b = true) : noSingleL a = true := by
  rw [noSingleL_eq_all] at *
  simp only [List.all_eq_true] at *
  exact fun x hx => hb x (h.subset hx)

theorem noSingleL_insertAt (k : Kids) (i : Nat) (x : EdgeD × T) :
    noSingleL (insertAt k i x) = (noSingleL k && x.2.noSingleBelow) := by
  have hp : (insertAt k i x).Perm (x :: k) := by
    unfold insertAt
    refine List.perm_middle.trans ?_
    simp
  rw [noSingleL_perm hp]
  simp [noSingleL_eq_all, Bool.and_comm]

/- ## Reroot -/

/-- the invariant of the fold of root moves: no single-child inner node AND the root of the
    moment is not bifurcating (so that leaving it does not create a single-child node) -/
def RootFree (t : T) : Prop := t.noSingle = true ∧ t.kids.length ≠ 2

theorem moveRoot_rootFree (t : T) (i : Nat) (h : RootFree t) : RootFree (moveRoot t i) := by
  obtain ⟨d, p, kids⟩ := t
  obtain ⟨hns, h2⟩ := h
  simp only [T.noSingle, T.kids_node] at hns h2
  unfold moveRoot
  cases hk : kids[i]? with
  | none => simpa [hk, RootFree, T.noSingle] using And.intro hns h2
  | some x =>
    obtain ⟨e, dc, pc, kc⟩ := x
    simp only [hk]
    have hi : i < kids.length := by
      rcases Nat.lt_or_ge i kids.length with h | h
      · exact h
      · rw [List.getElem?_eq_none h] at hk; cases hk
    have hmem : (e, T.node dc pc kc) ∈ kids := List.mem_of_getElem? hk
    have hc : (T.node dc pc kc).noSingleBelow = true := by
      rw [noSingleL_eq_all] at hns
      exact (List.all_eq_true.mp hns) _ hmem
    rw [noSingleBelow_node] at hc
    simp only [Bool.and_eq_true, bne_iff_ne, ne_eq] at hc
    have herase : noSingleL (kids.eraseIdx i) = true := noSingleL_of_sublist (List.eraseIdx_sublist _ _) hns
    have hlen : (kids.eraseIdx i).length = kids.length - 1 := List.length_eraseIdx_of_lt hi
    refine ⟨?_, ?_⟩
    · simp only [T.noSingle, T.kids_node]
      rw [noSingleL_insertAt, noSingleBelow_node]
      simp only [Bool.and_eq_true, bne_iff_ne, ne_eq]
      exact ⟨hc.2, by omega, herase⟩
    · simp only [T.kids_node]
      have : (insertAt kc pc (e, T.node d i (kids.eraseIdx i))).length = kc.length + 1 := by
        unfold insertAt
        simp only [List.length_append, List.length_take, List.length_cons, List.length_drop]
        omega
      omega

theorem rerootP_rootFree : ∀ (p : List Nat) (t : T) (adj : Option Nat) (back : List Nat),
    RootFree t → RootFree (rerootP t p adj back).1
  | [], t, adj, back, h => by simpa [rerootP] using h
  | i :: rest, t, adj, back, h => by
    unfold rerootP
    cases hk : t.kids[adjIdx adj i]? with
    | none => simpa [hk] using h
    | some x =>
      simp only [hk]
      exact rerootP_rootFree rest _ _ _ (moveRoot_rootFree t _ h)

theorem rerootP_tips : ∀ (p : List Nat) (t : T) (adj : Option Nat) (back : List Nat),
    (rerootP t p adj back).1.tipNames.Perm t.tipNames
  | [], t, adj, back => by simp [rerootP]
  | i :: rest, t, adj, back => by
    unfold rerootP
    cases hk : t.kids[adjIdx adj i]? with
    | none => simp [hk]
    | some x =>
      simp only [hk]
      exact (rerootP_tips rest _ _ _).trans (moveRoot_tips t _)

theorem reroot_ok {t t' : T} {p : List Nat} (h : reroot t p = .ok t') : t' = (rerootP t p none []).1 := by
  unfold reroot at h
  cases hn : nodeAt t p with
  | none => simp [hn] at h
  | some n =>
    simp only [hn] at h
    by_cases h2 : (if p.isEmpty then n.kids.length else n.kids.length + 1) < 2
    · rw [if_pos h2] at h; cases h
    · rw [if_neg h2] at h; cases h; rfl

/- ## UnRoot -/

theorem leaves_of_node (d : NodeD) (p : Nat) (k : Kids) :
    (T.node d p k).leaves = if k.isEmpty then [d.name] else leavesL k := by
  cases k <;> simp [T.leaves]

theorem unroot_tips (t : T) : (unroot t).tipNames.Perm t.tipNames := by
  unfold unroot
  split
  · rename_i d p e1 d1 p1 k1 e2 d2 p2 k2
    cases k1 with
    | nil =>
      cases k2 with
      | nil =>
        simp [T.tipNames, T.name, leavesL_cons, leaves_of_node, leavesL]
        exact List.Perm.swap _ _ _
      | cons a l =>
        simp only [List.isEmpty_nil, if_true, T.tipNames, T.kids_node, T.name, T.d_node, leavesL_append,
          leavesL_cons, leaves_of_node, List.length_append, List.length_cons, List.length_nil]
        simp only [leavesL, List.append_nil, List.isEmpty_nil, if_true, List.isEmpty_cons]
        simp
        have := List.perm_append_comm (l₁ := a.2.leaves ++ leavesL l) (l₂ := [d1.name])
        simpa using this
    | cons a l =>
      simp only [List.isEmpty_cons, Bool.false_eq_true, if_false, T.tipNames, T.kids_node, T.name, T.d_node,
        leavesL_append, leavesL_cons, leaves_of_node, List.length_append, List.length_cons, List.length_nil]
      simp [leavesL]
  · exact List.Perm.refl _

theorem unroot_noSingle (t : T) (h : t.noSingle = true) : (unroot t).noSingle = true := by
  unfold unroot
  split
  · rename_i d p e1 d1 p1 k1 e2 d2 p2 k2
    simp only [T.noSingle, T.kids_node, noSingleL, noSingleBelow_node, Bool.and_true, Bool.and_eq_true,
      bne_iff_ne, ne_eq] at h
    obtain ⟨⟨h11, h12⟩, h21, h22⟩ := h
    by_cases h1 : k1.isEmpty = true
    · simp only [h1, if_true, T.noSingle, T.kids_node, noSingleL_append, noSingleL, noSingleBelow_node,
        Bool.and_true, Bool.and_eq_true, bne_iff_ne, ne_eq]
      exact ⟨h22, h11, h12⟩
    · simp only [h1, Bool.false_eq_true, if_false, T.noSingle, T.kids_node, noSingleL_append, noSingleL,
        noSingleBelow_node, Bool.and_true, Bool.and_eq_true, bne_iff_ne, ne_eq]
      exact ⟨h12, h21, h22⟩
  · exact h

theorem leavesL_kids_sublist_leaves (c : T) : (leavesL c.kids).Sublist c.leaves := by
  obtain ⟨d, p, k⟩ := c
  cases k with
  | nil => simp [leavesL]
  | cons a l => simp [T.leaves]

theorem leaves_sublist_of_getElem : ∀ (k : Kids) (i : Nat) (e : EdgeD) (c : T), k[i]? = some (e, c) →
    c.leaves.Sublist (leavesL k)
  | [], i, e, c, h => by simp at h
  | (e', t) :: r, 0, e, c, h => by
    simp only [List.getElem?_cons_zero, Option.some.injEq, Prod.mk.injEq] at h
    obtain ⟨_, rfl⟩ := h
    simp only [leavesL]
    exact List.sublist_append_left _ _
  | (e', t) :: r, i + 1, e, c, h => by
    simp only [List.getElem?_cons_succ] at h
    simp only [leavesL]
    exact (leaves_sublist_of_getElem r i e c h).trans (List.sublist_append_right _ _)

theorem unroot_rootFree (t : T) (h : t.noSingle = true) : RootFree (unroot t) := by
  refine ⟨unroot_noSingle t h, ?_⟩
  unfold unroot
  split
  · rename_i d p e1 d1 p1 k1 e2 d2 p2 k2
    simp only [T.noSingle, T.kids_node, noSingleL, noSingleBelow_node, Bool.and_true, Bool.and_eq_true,
      bne_iff_ne, ne_eq] at h
    obtain ⟨⟨h11, _⟩, h21, _⟩ := h
    by_cases h1 : k1.isEmpty = true
    · simp only [h1, if_true, T.kids_node, List.length_append, List.length_cons, List.length_nil]
      omega
    · simp only [h1, Bool.false_eq_true, if_false, T.kids_node, List.length_append, List.length_cons,
        List.length_nil]
      omega
  · rename_i hne
    intro h2
    obtain ⟨d, p, k⟩ := t
    simp only [T.kids_node] at h2
    match k, h2 with
    | [(e1, .node d1 p1 k1), (e2, .node d2 p2 k2)], _ => exact hne d p e1 d1 p1 k1 e2 d2 p2 k2 rfl

/-- cutting the branch to kid `r` of a tree that satisfies the fold invariant -/
theorem cutAt_noSingle {tn t' : T} {r : Nat} {e : EdgeD} {c : T} {ea eb : EdgeD} {b : Bool}
    (hk : tn.kids[r]? = some (e, c)) (h : cutAt tn r ea eb b = some t') (hf : RootFree tn) :
    t'.noSingle = true := by
  rw [cutAt_eq tn r ea eb b e c hk] at h
  have := (Option.some.inj h).symm
  subst this
  obtain ⟨hns, h2⟩ := hf
  have hi : r < tn.kids.length := by
    rcases Nat.lt_or_ge r tn.kids.length with h | h
    · exact h
    · rw [List.getElem?_eq_none h] at hk; cases hk
  have hc : c.noSingleBelow = true := by
    simp only [T.noSingle] at hns
    rw [noSingleL_eq_all] at hns
    exact (List.all_eq_true.mp hns) _ (List.mem_of_getElem? hk)
  have hc' : (T.node c.d c.kids.length c.kids).noSingleBelow = true := by
    obtain ⟨dc, pc, kc⟩ := c
    simpa [noSingleBelow_node] using hc
  have ha : (T.node tn.d (tn.kids.length - 1) (tn.kids.eraseIdx r)).noSingleBelow = true := by
    rw [noSingleBelow_node]
    simp only [Bool.and_eq_true, bne_iff_ne, ne_eq]
    refine ⟨?_, noSingleL_of_sublist (List.eraseIdx_sublist _ _) hns⟩
    rw [List.length_eraseIdx_of_lt hi]; omega
  cases b <;> simp [T.noSingle, noSingleL, ha, hc']

/-- `RerootOutGroup`: what the model does once the plan is made -/
theorem outgroup_noSingle {t t' : T} {remove strict : Bool} {S : List String}
    (h : rerootOutGroup remove strict S t = .ok t') (hns : t.noSingle = true) : t'.noSingle = true := by
  unfold rerootOutGroup rerootOutGroupWith at h
  obtain ⟨pl, hpl, h⟩ := Res.bind_ok h
  obtain ⟨ec, hec, h⟩ := Res.bind_ok h
  obtain ⟨e, c⟩ := ec
  have hk := ofOption_ok_panic hec
  obtain ⟨spath, _, _, _, hts, _, _, _, htn, _⟩ := outgroupPlan_ok hpl
  have hf1 : RootFree pl.ts := by rw [hts]; exact rerootP_rootFree _ _ _ _ (unroot_rootFree t hns)
  have hf : RootFree pl.tn := by
    have : pl.tn = (rerootP pl.ts pl.f.p none (rerootP (unroot t) spath none []).2.2).1 := by rw [← htn]
    rw [this]; exact rerootP_rootFree _ _ _ _ hf1
  cases remove with
  | true =>
    simp only [if_true] at h
    split at h
    · cases h
    · simp only [Res.ok.injEq] at h
      subst h
      have hc : c.noSingleBelow = true := by
        have := hf.1
        simp only [T.noSingle] at this
        rw [noSingleL_eq_all] at this
        exact (List.all_eq_true.mp this) _ (List.mem_of_getElem? hk)
      obtain ⟨dc, pc, kc⟩ := c
      rw [noSingleBelow_node] at hc
      simp only [Bool.and_eq_true] at hc
      simpa [T.noSingle] using hc.2
  | false =>
    simp only [Bool.false_eq_true, if_false] at h
    exact cutAt_noSingle hk (ofOption_ok_panic h) hf

/-- with removal: the tips left are tips of the input, each once -/
theorem outgroup_remove_nodup {t t' : T} {strict : Bool} {S : List String}
    (h : rerootOutGroup true strict S t = .ok t') (hu : t.tipNames.Nodup) : t'.tipNames.Nodup := by
  unfold rerootOutGroup rerootOutGroupWith at h
  obtain ⟨pl, hpl, h⟩ := Res.bind_ok h
  obtain ⟨ec, hec, h⟩ := Res.bind_ok h
  obtain ⟨e, c⟩ := ec
  have hk := ofOption_ok_panic hec
  obtain ⟨spath, _, _, _, hts, _, _, _, htn, _⟩ := outgroupPlan_ok hpl
  have htips : pl.tn.tipNames.Perm t.tipNames := by
    have : pl.tn = (rerootP pl.ts pl.f.p none (rerootP (unroot t) spath none []).2.2).1 := by rw [← htn]
    rw [this, hts]
    exact ((rerootP_tips _ _ _ _).trans (rerootP_tips _ _ _ _)).trans (unroot_tips t)
  simp only [if_true] at h
  split at h
  · cases h
  · rename_i h2
    simp only [Res.ok.injEq] at h
    subst h
    have hlen : (c.kids.length == 1) = false := by simp; omega
    have h1 : (T.node c.d 0 c.kids).tipNames = leavesL c.kids := by
      simp [T.tipNames, hlen]
    rw [h1]
    have hsub : (leavesL c.kids).Sublist pl.tn.tipNames :=
      ((leavesL_kids_sublist_leaves c).trans (leaves_sublist_of_getElem _ _ e c hk)).trans
        (by unfold T.tipNames; exact List.sublist_append_right _ _)
    exact hsub.nodup (htips.nodup_iff.mpr hu)

/- ## RerootMidPoint keeps "no single-child node" -/

theorem cutAt_some {t u : T} {r : Nat} {ea eb : EdgeD} {b : Bool} (h : cutAt t r ea eb b = some u) :
    ∃ e c, t.kids[r]? = some (e, c) := by
  obtain ⟨d, p, kids⟩ := t
  simp only [cutAt] at h
  cases hk : kids[r]? with
  | none => simp [hk] at h
  | some x => exact ⟨x.1, x.2, by simpa using hk⟩

theorem bestCand_rootFree (t1 : T) (h1 : RootFree t1) : ∀ (ps : List (List Nat)) (best : Option Cand) (cur : Rat)
    (cand : Cand), (∀ b, best = some b → RootFree b.tT) → bestCand t1 ps best cur = some cand → RootFree cand.tT
  | [], best, cur, cand, hb, h => by
    simp only [bestCand] at h
    exact hb cand h
  | p :: ps, best, cur, cand, hb, h => by
    simp only [bestCand] at h
    split at h
    · refine bestCand_rootFree t1 h1 ps _ _ cand ?_ h
      intro b hbe
      simp only [Option.some.injEq] at hbe
      subst hbe
      exact rerootP_rootFree _ _ _ _ h1
    · exact bestCand_rootFree t1 h1 ps best cur cand hb h

theorem midpointCut_noSingle {cand : Cand} {u : T} (h : midpointCut true cand = .ok u)
    (hf : RootFree cand.tT) : u.noSingle = true := by
  unfold midpointCut at h
  simp only [Bool.not_true, Bool.false_and, Bool.false_eq_true, if_false] at h
  split at h
  · cases h
  · split at h
    · cases h
    · split at h
      · rename_i u' hc
        simp only [Res.ok.injEq] at h
        subst h
        obtain ⟨e, c, hk⟩ := cutAt_some hc
        exact cutAt_noSingle hk hc (rerootP_rootFree _ _ _ _ hf)
      · cases h

theorem midpoint_noSingle {t t' : T} (h : rerootMidPoint t = .ok t') (hns : t.noSingle = true) :
    t'.noSingle = true := by
  unfold rerootMidPoint rerootMidPointWith at h
  simp only [midpointFarEndFixedInRepo] at h
  split at h
  · cases h
  · split at h
    · simp at h
    · rename_i cand hb
      exact midpointCut_noSingle h
        (bestCand_rootFree _ (unroot_rootFree t hns) _ none 0 cand (fun b hbe => by cases hbe) hb)

/- ## SortNeighborsByTips -/

theorem tipNames_of (hname : (u : T).name = (t : T).name) (hlen : u.kids.length = t.kids.length)
    (hl : (leavesL u.kids).Perm (leavesL t.kids)) : u.tipNames.Perm t.tipNames := by
  unfold T.tipNames; rw [hname, hlen]; exact List.Perm.append_left _ hl

theorem sortT_tips (t : T) : (sortT t).tipNames.Perm t.tipNames := by
  obtain ⟨d, p, k⟩ := t
  obtain ⟨h1, _, h3⟩ := kidRel_lists (sortL_rel k)
  have hp := insSort_perm (sortL k)
  exact tipNames_of (by simp [sortT, T.name]) (by simp [sortT, hp.length_eq, h3])
    (by simpa [sortT] using (leavesL_perm hp).trans h1)

theorem sortL_length : ∀ (k : Kids), (sortL k).length = k.length
  | [] => rfl
  | (_, _) :: r => by simp [sortL, sortL_length r]

mutual
theorem sortT_noSingleBelow : ∀ (t : T), (sortT t).noSingleBelow = t.noSingleBelow
  | .node d p k => by
    have hp := insSort_perm (sortL k)
    simp only [sortT, noSingleBelow_node, noSingleL_perm hp, hp.length_eq, sortL_length, sortL_noSingle k]
theorem sortL_noSingle : ∀ (k : Kids), noSingleL (sortL k) = noSingleL k
  | [] => rfl
  | (e, t) :: r => by simp [sortL, noSingleL, sortT_noSingleBelow t, sortL_noSingle r]
end

theorem sortT_noSingle (t : T) : (sortT t).noSingle = t.noSingle := by
  obtain ⟨d, p, k⟩ := t
  have hp := insSort_perm (sortL k)
  simp [sortT, T.noSingle, noSingleL_perm hp, sortL_noSingle k]

/- ## RotateInternalNodes -/

theorem rotate_tips (t : T) (ds : List Nat) : (rotate t ds).tipNames.Perm t.tipNames := by
  obtain ⟨_, _, _, h4, h5, h6⟩ := rot_rel true t ds
  exact tipNames_of h5 h4 h6

theorem filterMap_shuf_perm (m : Nat) (l : List (Option (EdgeD × T))) (ds : List Nat) :
    ((shuf m 0 l ds).filterMap id).Perm (l.filterMap id) := (shuf_perm _ _ _ _).filterMap _

theorem rotL_length : ∀ (k : Kids) (ds : List Nat), (rotL k ds).1.length = k.length
  | [], _ => rfl
  | (_, _) :: r, ds => by simp [rotL, rotL_length r]

theorem rot_kids_perm (isRoot : Bool) (d : NodeD) (p : Nat) (k : Kids) (ds : List Nat) :
    (rot isRoot (.node d p k) ds).1.kids.Perm (rotL k (ds.drop (k.length + (if isRoot then 0 else 1)))).1 := by
  simp only [rot, T.kids_node]
  refine (filterMap_shuf_perm _ _ _).trans ?_
  cases isRoot
  · simp [filterMap_insertAt_none]
  · simp

mutual
theorem rot_noSingleBelow : ∀ (isRoot : Bool) (t : T) (ds : List Nat),
    (rot isRoot t ds).1.noSingleBelow = t.noSingleBelow
  | isRoot, .node d p k, ds => by
    have hp := rot_kids_perm isRoot d p k ds
    have hn : (rot isRoot (.node d p k) ds).1 =
        .node (rot isRoot (.node d p k) ds).1.d (rot isRoot (.node d p k) ds).1.ppos (rot isRoot (.node d p k) ds).1.kids := by
      cases (rot isRoot (.node d p k) ds).1; rfl
    rw [hn, noSingleBelow_node, noSingleBelow_node, noSingleL_perm hp, hp.length_eq, rotL_length,
      rotL_noSingle k _]
theorem rotL_noSingle : ∀ (k : Kids) (ds : List Nat), noSingleL (rotL k ds).1 = noSingleL k
  | [], _ => rfl
  | (e, t) :: r, ds => by
    simp [rotL, noSingleL, rot_noSingleBelow false t ds, rotL_noSingle r]
end

theorem rotate_noSingle (t : T) (ds : List Nat) : (rotate t ds).noSingle = t.noSingle := by
  obtain ⟨d, p, k⟩ := t
  have hp := rot_kids_perm true d p k ds
  simp only [rotate, T.noSingle, noSingleL_perm hp, rotL_noSingle, T.kids_node]

/- ## RemoveEdges and the collapse family (model and lemmas of C07) -/

/-- no tip is lost or invented by a contraction (root with at least two neighbours) -/
theorem removeEdges_tipNames_c03 (rr rt : Bool) (ids : List Int) (t : T) (h2 : 2 ≤ t.kids.length) :
    (Gotree.C07.removeEdges rr rt ids t).tipNames.Perm t.tipNames := by
  have hlen := Gotree.C07.removeEdges_kids_len rr rt ids t
  have hl := (Gotree.C07.removeEdges_leaves rr rt ids t).1
  have hne : t.kids ≠ [] := by intro h; rw [h] at h2; simp at h2
  have hne' : (Gotree.C07.removeEdges rr rt ids t).kids ≠ [] := by
    intro h; rw [h] at hlen; simp only [List.length_nil] at hlen; omega
  rw [Gotree.C07.leaves_eq_leavesL_kids _ hne, Gotree.C07.leaves_eq_leavesL_kids _ hne'] at hl
  have e1 : (t.kids.length == 1) = false := by simp; omega
  have e2 : ((Gotree.C07.removeEdges rr rt ids t).kids.length == 1) = false := by simp; omega
  simp only [T.tipNames, e1, e2, Bool.false_eq_true, if_false, List.nil_append]
  exact hl

theorem removeEdges_noSingle (rr rt : Bool) : ∀ (ids : List Int) (t : T), t.noSingle = true →
    (Gotree.C07.removeEdges rr rt ids t).noSingle = true
  | [], t, h => by simpa [Gotree.C07.removeEdges] using h
  | id :: ids, t, h => by
    rw [Gotree.C07.removeEdges_cons]
    apply removeEdges_noSingle rr rt ids
    obtain ⟨d, p, k⟩ := t
    simp only [T.noSingle, T.kids_node] at h
    simp only [T.noSingle, Gotree.C07.contractT_kids]
    exact (Gotree.C07.contractL_ns _ rt id _ k h).1

/- ## Clone (model and lemmas of C15: a clone is the tree with every parent position reset) -/

mutual
theorem zeroPpos_noSingleBelow : ∀ (t : T), (Gotree.C15.zeroPpos t).noSingleBelow = t.noSingleBelow
  | .node d p k => by
    simp only [Gotree.C15.zeroPpos, noSingleBelow_node, Gotree.C15.zeroPposL_length, zeroPposL_noSingle k]
theorem zeroPposL_noSingle : ∀ (k : Kids), noSingleL (Gotree.C15.zeroPposL k) = noSingleL k
  | [] => rfl
  | (e, t) :: r => by simp [Gotree.C15.zeroPposL, noSingleL, zeroPpos_noSingleBelow t, zeroPposL_noSingle r]
end

theorem zeroPpos_noSingle (t : T) : (Gotree.C15.zeroPpos t).noSingle = t.noSingle := by
  obtain ⟨d, p, k⟩ := t
  simp [Gotree.C15.zeroPpos, T.noSingle, zeroPposL_noSingle k]

/- ## Merge -/

theorem merge_noSingle {t t2 t' : T} (h : Gotree.C15.merge true true t t2 = .ok t')
    (h1 : t.noSingle = true) (h2 : t2.noSingle = true) : t'.noSingle = true := by
  obtain ⟨hr, hr2, _, ht'⟩ := Gotree.C15.merge_ok h
  subst ht'
  simp only [T.rooted, beq_iff_eq] at hr hr2
  simp only [T.noSingle] at h1 h2
  simp [T.noSingle, noSingleL, noSingleBelow_node, hr, hr2, h1, h2]

/- ## binary trees have no single-child node (Resolve, NNI) -/

mutual
theorem binaryBelow_noSingleBelow : ∀ (t : T), t.binaryBelow = true → t.noSingleBelow = true
  | .node d p k, h => by
    simp only [T.binaryBelow, Bool.and_eq_true, Bool.or_eq_true, beq_iff_eq] at h
    rw [noSingleBelow_node]
    simp only [Bool.and_eq_true, bne_iff_ne, ne_eq]
    exact ⟨by omega, binaryL_noSingleL k h.2⟩
theorem binaryL_noSingleL : ∀ (k : Kids), binaryL k = true → noSingleL k = true
  | [], _ => rfl
  | (e, t) :: r, h => by
    simp only [binaryL, Bool.and_eq_true] at h
    simp [noSingleL, binaryBelow_noSingleBelow t h.1, binaryL_noSingleL r h.2]
end

theorem binary_noSingle (t : T) (h : t.binary = true) : t.noSingle = true := by
  simp only [T.binary, Bool.and_eq_true] at h
  exact binaryL_noSingleL _ h.2

/- ## SubTree: the leaves below a node are a sublist of the leaves of the tree -/

theorem nodeAt_sublist : ∀ (p : List Nat) (t n : T), Gotree.C15.nodeAt t p = some n →
    (leavesL n.kids).Sublist (leavesL t.kids) ∧ (noSingleL t.kids = true → noSingleL n.kids = true)
  | [], t, n, h => by
    simp only [Gotree.C15.nodeAt, Option.some.injEq] at h
    subst h
    exact ⟨List.Sublist.refl _, id⟩
  | i :: q, t, n, h => by
    simp only [Gotree.C15.nodeAt] at h
    cases hk : t.kids[i]? with
    | none => simp [hk] at h
    | some x =>
      obtain ⟨e, c⟩ := x
      simp only [hk] at h
      obtain ⟨ih1, ih2⟩ := nodeAt_sublist q c n h
      refine ⟨(ih1.trans (leavesL_kids_sublist_leaves c)).trans (leaves_sublist_of_getElem _ i e c hk), fun hns => ?_⟩
      apply ih2
      have hc : c.noSingleBelow = true := by
        rw [noSingleL_eq_all] at hns
        exact (List.all_eq_true.mp hns) _ (List.mem_of_getElem? hk)
      obtain ⟨d, pp, kc⟩ := c
      rw [noSingleBelow_node] at hc
      simp only [Bool.and_eq_true] at hc
      exact hc.2

/- ## GraftTreeOnTip: the spliced tree has no single-child node when host and graft have none -/

mutual
theorem graftAt_ns {tip : String} {G : T} (hG : G.noSingleBelow = true) : ∀ (t t' : T),
    Gotree.C15.graftAt tip G t = some t' → t.noSingleBelow = true → t'.noSingleBelow = true
  | .node d p k, t', h, hns => by
    simp only [Gotree.C15.graftAt, Option.map_eq_some_iff] at h
    obtain ⟨k', hk, rfl⟩ := h
    rw [noSingleBelow_node] at hns ⊢
    simp only [Bool.and_eq_true, bne_iff_ne, ne_eq] at hns ⊢
    exact ⟨by rw [Gotree.C15.graftKids_length k k' hk]; exact hns.1, graftKids_ns hG k k' hk hns.2⟩
theorem graftKids_ns {tip : String} {G : T} (hG : G.noSingleBelow = true) : ∀ (k k' : Kids),
    Gotree.C15.graftKids tip G k = some k' → noSingleL k = true → noSingleL k' = true
  | [], _, h, _ => by simp [Gotree.C15.graftKids] at h
  | (e, t) :: r, k', h, hns => by
    simp only [noSingleL, Bool.and_eq_true] at hns
    rcases Gotree.C15.graftKids_cases h with ⟨_, _, rfl⟩ | ⟨_, t', ht, rfl⟩ | ⟨_, _, r', hr, rfl⟩
    · simp [noSingleL, hG, hns.2]
    · simp [noSingleL, graftAt_ns hG t t' ht hns.1, hns.2]
    · simp [noSingleL, hns.1, graftKids_ns hG r r' hr hns.2]
end

/- ## facts about C15's models derived from its lemma files (not from Proofs/C15, which also
   carries the table decisions regenerated from the repository under test) -/

theorem graft_tips_c03 {t g t' : T} {tip : String} (h : Gotree.C15.graft true t tip g = .ok t') :
    t'.tipNames.Perm (t.tipNames.erase tip ++ (Gotree.C15.asGraft g).leaves) := by
  obtain ⟨hroot, k', hk, rfl⟩ := Gotree.C15.graft_ok h
  have hp := Gotree.C15.graftKids_perm t.kids k' hk
  have hl := Gotree.C15.graftKids_length t.kids k' hk
  simp only [T.tipNames, T.kids_node, T.name, T.d_node, hl]
  by_cases h1 : t.kids.length = 1
  · have hne : t.d.name ≠ tip := fun h2 => hroot ⟨h1, h2⟩
    simp only [h1, beq_self_eq_true, if_true, List.singleton_append]
    rw [List.erase_cons_tail (by simpa using hne)]
    exact (hp.cons _)
  · simpa [h1] using hp

theorem insertIdentical_nodup_c03 {t t' : T} {groups : List (List String)}
    (h : Gotree.C15.insertIdentical true t groups = (t', none)) (hu : t.tipNames.Nodup)
    (hne : ∀ g ∈ groups, "" ∉ g) : t'.tipNames.Nodup := by
  have h0 : Gotree.C15.Inv t t t.tipNames groups.flatten [] :=
    ⟨hu, fun _ => Iff.rfl, fun _ _ _ _ => rfl, fun _ ha => ha, fun _ hx => Or.inl hx, fun g hg => by cases hg⟩
  obtain ⟨tips', hI⟩ := Gotree.C15.insertGroups_inv groups [] t t.tipNames t' h0 hne
    (fun g hg x hx => List.mem_flatten.mpr ⟨g, hg, hx⟩) (by simpa using Gotree.C15.insertIdentical_ok h)
  exact hI.nodup

theorem merge_nodup_c03 {t t2 t' : T} (h : Gotree.C15.merge true true t t2 = .ok t')
    (hu : t.tipNames.Nodup) (hu2 : t2.tipNames.Nodup) : t'.tipNames.Nodup := by
  obtain ⟨_, _, hd, _⟩ := Gotree.C15.merge_ok h
  rw [Gotree.C15.merge_tipNames h]
  refine List.nodup_append.mpr ⟨hu, hu2, fun a ha b hb hab => ?_⟩
  subst hab
  have := List.any_eq_false.mp hd a ha
  simp [hb] at this

/- ## InsertIdenticalTips keeps "no single-child node" -/

theorem noSingleBelow_leaf (n : String) : (T.leaf n).noSingleBelow = true := by
  simp [T.leaf, noSingleBelow_node, noSingleL]

mutual
theorem insAt_ns {old new : String} : ∀ (t t' : T),
    Gotree.C15.insAt old new t = some t' → t.noSingleBelow = true → t'.noSingleBelow = true
  | .node d p k, t', h, hns => by
    simp only [Gotree.C15.insAt, Option.map_eq_some_iff] at h
    obtain ⟨k', hk, rfl⟩ := h
    rw [noSingleBelow_node] at hns ⊢
    simp only [Bool.and_eq_true, bne_iff_ne, ne_eq] at hns ⊢
    obtain ⟨h1, h2, h3⟩ := insKids_ns false k k' hk hns.2
    exact ⟨by omega, h1⟩
theorem insKids_ns {old new : String} (lone : Bool) : ∀ (k k' : Kids),
    Gotree.C15.insKids lone old new k = some k' → noSingleL k = true →
      noSingleL k' = true ∧ k.length ≤ k'.length ∧ 1 ≤ k.length
  | [], _, h, _ => by simp [Gotree.C15.insKids] at h
  | (e, t) :: r, k', h, hns => by
    simp only [noSingleL, Bool.and_eq_true] at hns
    simp only [Gotree.C15.insKids] at h
    split at h
    · split at h
      · injection h with h; subst h
        simp [noSingleL_append, noSingleL, hns.1, hns.2, noSingleBelow_leaf]
      · injection h with h; subst h
        simp [noSingleL, noSingleBelow_node, hns.1, hns.2, noSingleBelow_leaf]
    · split at h
      · rename_i t' ht
        injection h with h; subst h
        simp [noSingleL, insAt_ns t t' ht hns.1, hns.2]
      · simp only [Option.map_eq_some_iff] at h
        obtain ⟨r', hr, rfl⟩ := h
        obtain ⟨h1, h2, _⟩ := insKids_ns lone r r' hr hns.2
        simp only [noSingleL, hns.1, h1, Bool.and_self, List.length_cons, true_and]
        omega
end

theorem insertOne_ns {t t' : T} {tips : List String} {old new : String}
    (h : Gotree.C15.insertOne t tips old new = .ok t') (hns : t.noSingle = true) : t'.noSingle = true := by
  unfold Gotree.C15.insertOne at h
  split at h
  · cases h
  · split at h
    · rename_i k hk
      injection h with h; subst h
      exact (insKids_ns _ _ _ hk hns).1
    · cases h

theorem insertNews_ns (old : String) : ∀ (news : List String) (t t' : T) (tips tips' : List String),
    Gotree.C15.insertNews old news t tips = (t', tips', none) → t.noSingle = true → t'.noSingle = true
  | [], t, t', tips, tips', h, hns => by
    simp only [Gotree.C15.insertNews, Prod.mk.injEq] at h
    rw [← h.1]; exact hns
  | new :: r, t, t', tips, tips', h, hns => by
    simp only [Gotree.C15.insertNews] at h
    cases ho : Gotree.C15.insertOne t tips old new with
    | error m => simp [ho] at h
    | ok t₁ =>
      simp only [ho] at h
      exact insertNews_ns old r t₁ t' _ tips' h (insertOne_ns ho hns)

theorem insertGroups_ns : ∀ (groups : List (List String)) (t t' : T) (tips : List String),
    Gotree.C15.insertGroups groups t tips = (t', none) → t.noSingle = true → t'.noSingle = true
  | [], t, t', tips, h, hns => by
    simp only [Gotree.C15.insertGroups, Prod.mk.injEq] at h
    rw [← h.1]; exact hns
  | g :: gs, t, t', tips, h, hns => by
    simp only [Gotree.C15.insertGroups] at h
    split at h
    · simp at h
    · cases hs : Gotree.C15.scanGroup tips g "" [] with
      | error m => simp [hs] at h
      | ok on =>
        obtain ⟨old, news⟩ := on
        simp only [hs] at h
        cases hn : Gotree.C15.insertNews old news t tips with
        | mk t₁ rest =>
          obtain ⟨tips₁, om⟩ := rest
          simp only [hn] at h
          cases om with
          | none => exact insertGroups_ns gs t₁ t' tips₁ h (insertNews_ns old news t t₁ tips tips₁ hn hns)
          | some m => simp at h

theorem insertIdentical_ns {t t' : T} {groups : List (List String)}
    (h : Gotree.C15.insertIdentical true t groups = (t', none)) (hns : t.noSingle = true) : t'.noSingle = true := by
  unfold Gotree.C15.insertIdentical at h
  split at h
  · simp at h
  · exact insertGroups_ns groups t t' _ h hns

/- ## GraftTipOnEdge (model of C16: `applyAt (graftF name) k`) -/

theorem graftF_leaves (name : String) (e : EdgeD) (t : T) :
    ((Gotree.C16.graftF name (e, t)).2.leaves).Perm (name :: t.leaves) := by
  simp [Gotree.C16.graftF, T.leaves, leavesL, T.leaf]

theorem graftF_ns (name : String) (e : EdgeD) (t : T) (h : t.noSingleBelow = true) :
    (Gotree.C16.graftF name (e, t)).2.noSingleBelow = true := by
  simp [Gotree.C16.graftF, noSingleBelow_node, noSingleL, noSingleBelow_leaf, h]

mutual
theorem applyAt_ns (f : EdgeD × T → EdgeD × T) (hf : ∀ e t, t.noSingleBelow = true → (f (e, t)).2.noSingleBelow = true) :
    ∀ (t : T) (k : Nat), t.noSingleBelow = true → (Gotree.C16.applyAt f k t).noSingleBelow = true
  | .node d p ks, k, h => by
    rw [noSingleBelow_node] at h
    simp only [Bool.and_eq_true, bne_iff_ne, ne_eq] at h
    simp only [Gotree.C16.applyAt, noSingleBelow_node, Gotree.C16.applyAtL_length, Bool.and_eq_true, bne_iff_ne, ne_eq]
    exact ⟨h.1, applyAtL_ns f hf ks k h.2⟩
theorem applyAtL_ns (f : EdgeD × T → EdgeD × T) (hf : ∀ e t, t.noSingleBelow = true → (f (e, t)).2.noSingleBelow = true) :
    ∀ (ks : Kids) (k : Nat), noSingleL ks = true → noSingleL (Gotree.C16.applyAtL f k ks) = true
  | [], _, _ => by simp [Gotree.C16.applyAtL, noSingleL]
  | (e, t) :: r, k, h => by
    simp only [noSingleL, Bool.and_eq_true] at h
    unfold Gotree.C16.applyAtL
    split
    · have := hf e t h.1
      cases hx : f (e, t) with
      | mk e' t' => rw [hx] at this; simp [noSingleL, this, h.2]
    · split
      · simp [noSingleL, applyAt_ns f hf t (k - 1) h.1, h.2]
      · simp [noSingleL, h.1, applyAtL_ns f hf r _ h.2]
end

/- ## Rename(map) -/

theorem hasDupS_false_nodup : ∀ (l : List String), hasDupS l = false → l.Nodup
  | [], _ => List.nodup_nil
  | a :: r, h => by
    simp only [hasDupS, Bool.or_eq_false_iff] at h
    exact List.nodup_cons.mpr ⟨by simpa using h.1, hasDupS_false_nodup r h.2⟩

theorem mapNamesL_length (f : String → String) : ∀ (k : Kids), (mapNamesL f k).length = k.length
  | [] => rfl
  | (_, _) :: r => by simp [mapNamesL, mapNamesL_length f r]

mutual
theorem mapNames_ns (f : String → String) : ∀ (t : T), (mapNames f t).noSingleBelow = t.noSingleBelow
  | .node d p k => by simp only [mapNames, noSingleBelow_node, mapNamesL_length, mapNamesL_ns f k]
theorem mapNamesL_ns (f : String → String) : ∀ (k : Kids), noSingleL (mapNamesL f k) = noSingleL k
  | [] => rfl
  | (e, t) :: r => by simp [mapNamesL, noSingleL, mapNames_ns f t, mapNamesL_ns f r]
end

theorem mapNames_noSingle (f : String → String) (t : T) : (mapNames f t).noSingle = t.noSingle := by
  obtain ⟨d, p, k⟩ := t
  simp [mapNames, T.noSingle, mapNamesL_ns f k]

/- ## relabelling keeps the shape -/

mutual
theorem setNames_ns : ∀ (ns : List String) (t : T), (setNames ns t).1.noSingleBelow = t.noSingleBelow
  | ns, .node d p k => by
    obtain ⟨h1, h2⟩ := setNamesL_ns ns.tail k
    simp only [setNames, noSingleBelow_node, h1, h2]
theorem setNamesL_ns : ∀ (ns : List String) (k : Kids),
    noSingleL (setNamesL ns k).1 = noSingleL k ∧ (setNamesL ns k).1.length = k.length
  | _, [] => by simp [setNamesL]
  | ns, (e, t) :: r => by
    obtain ⟨h1, h2⟩ := setNamesL_ns (setNames ns t).2 r
    simp [setNamesL, noSingleL, setNames_ns ns t, h1, h2]
end

theorem setNames_noSingle (ns : List String) (t : T) : (setNames ns t).1.noSingle = t.noSingle := by
  obtain ⟨d, p, k⟩ := t
  simp [setNames, T.noSingle, (setNamesL_ns ns.tail k).1]

/- ## AddQuotes / RemoveQuotes keep the shape -/

mutual
theorem mapSel_ns (sel : Bool → Bool) (f : String → String) : ∀ (hp : Bool) (t : T),
    (mapSel sel f hp t).noSingleBelow = t.noSingleBelow
  | hp, .node d p k => by
    obtain ⟨h1, h2⟩ := mapSelL_ns sel f k
    simp only [mapSel, noSingleBelow_node, h1, h2]
theorem mapSelL_ns (sel : Bool → Bool) (f : String → String) : ∀ (k : Kids),
    noSingleL (mapSelL sel f k) = noSingleL k ∧ (mapSelL sel f k).length = k.length
  | [] => by simp [mapSelL]
  | (e, t) :: r => by
    obtain ⟨h1, h2⟩ := mapSelL_ns sel f r
    simp [mapSelL, noSingleL, mapSel_ns sel f true t, h1, h2]
end

theorem mapSel_noSingle (sel : Bool → Bool) (f : String → String) (t : T) :
    (mapSel sel f false t).noSingle = t.noSingle := by
  obtain ⟨d, p, k⟩ := t
  simp [mapSel, T.noSingle, (mapSelL_ns sel f k).1]

/- ## the data edits keep names and shape -/

mutual
theorem mapData_shape (fn : NodeD → NodeD) (fe : Bool → EdgeD → EdgeD) (hn : ∀ d, (fn d).name = d.name) : ∀ (t : T),
    (mapData fn fe t).noSingleBelow = t.noSingleBelow ∧ (mapData fn fe t).leaves = t.leaves
  | .node d p k => by
    obtain ⟨h1, h2, h3⟩ := mapDataL_shape fn fe hn k
    refine ⟨by simp only [mapData, noSingleBelow_node, h1, h3], ?_⟩
    simp only [mapData, leaves_of_node, hn, h2]
    cases k <;> simp [mapDataL]
theorem mapDataL_shape (fn : NodeD → NodeD) (fe : Bool → EdgeD → EdgeD) (hn : ∀ d, (fn d).name = d.name) : ∀ (k : Kids),
    noSingleL (mapDataL fn fe k) = noSingleL k ∧ leavesL (mapDataL fn fe k) = leavesL k ∧ (mapDataL fn fe k).length = k.length
  | [] => by simp [mapDataL]
  | (e, t) :: r => by
    obtain ⟨h1, h2⟩ := mapData_shape fn fe hn t
    obtain ⟨g1, g2, g3⟩ := mapDataL_shape fn fe hn r
    simp [mapDataL, noSingleL, leavesL, h1, h2, g1, g2, g3]
end

theorem mapData_inv (fn : NodeD → NodeD) (fe : Bool → EdgeD → EdgeD) (hn : ∀ d, (fn d).name = d.name) (t : T) :
    (mapData fn fe t).tipNames = t.tipNames ∧ (mapData fn fe t).noSingle = t.noSingle := by
  obtain ⟨d, p, k⟩ := t
  obtain ⟨g1, g2, g3⟩ := mapDataL_shape fn fe hn k
  simp [mapData, T.tipNames, T.noSingle, T.name, hn, g1, g2, g3]

end Gotree.C03
