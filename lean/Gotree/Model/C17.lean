/-
  C17 — model of `tree/rearrange.go`: `NNIRearranger.Rearrange`, `newNNI`,
  `nni.Apply`, `nni.Undo` (and the `applied` flag) on the rose tree `T` with
  parent positions.

  How the Go heap is represented.  An NNI touches six nodes: the two ends
  `n1`, `n2` of the central branch and their four other neighbours
  `n1_1 n1_2 n2_1 n2_2` (called `a b c d` here).  `Heap` is exactly that
  six-node piece of the pointer graph: the two `neigh` slices (three entries
  each, entries are the six *identities* `Ref`), the orientation of the central
  branch, and what hangs behind each outer node (`Outer`: a subtree with the
  data of its branch, or `up` = the rest of the tree through the parent).
  `br` is parallel to `neigh`, hence implicit.  `applyH`/`undoH` are line by
  line transcriptions of `Apply`/`Undo` on that heap; `extract` reads the heap
  off the subtree of `T` rooted at the upper end (what `newNNI` and the
  remembered pointers denote), `rebuild` is the α walk of the piece.

  Core Lean only (linked into the driver).
-/
import Gotree.Model.Core

namespace Gotree.C17
open Gotree

/-- a slice of length three (`neigh` of a node with three neighbours) -/
abbrev Tri (α : Type) := α × α × α

def Tri.get {α} (t : Tri α) : Nat → α
  | 0 => t.1
  | 1 => t.2.1
  | _ => t.2.2

def Tri.set {α} (t : Tri α) (i : Nat) (v : α) : Tri α :=
  match i with
  | 0 => (v, t.2.1, t.2.2)
  | 1 => (t.1, v, t.2.2)
  | _ => (t.1, t.2.1, v)

/-- the six node identities an `nni` remembers -/
inductive Ref | n1 | n2 | a | b | c | d
  deriving DecidableEq, Repr

/-- `Node.NodeIndex` on a slice of three (`none` = "not in the neighbors") -/
def Tri.idx (t : Tri Ref) (x : Ref) : Option Nat :=
  if t.1 = x then some 0 else if t.2.1 = x then some 1 else if t.2.2 = x then some 2 else none

/-- what is behind an outer neighbour, seen from the centre -/
inductive Outer
  | up                          -- the parent side (the root is somewhere there)
  | sub (e : EdgeD) (t : T)     -- a subtree hanging by branch `e`
  deriving Inhabited

def Outer.isUp : Outer → Bool
  | .up => true
  | .sub _ _ => false

/-- the piece of the heap an NNI reads and writes -/
structure Heap where
  d1 : NodeD
  d2 : NodeD
  ng1 : Tri Ref          -- n1.neigh
  ng2 : Tri Ref          -- n2.neigh
  ec : EdgeD             -- the central branch n1 - n2
  left1 : Bool           -- `Left()` of the central branch is n1
  oa : Outer
  ob : Outer
  oc : Outer
  od : Outer
  p0 : Nat               -- recorded parent position of the upper end when it is the root (no meaning in Go)

def Heap.outer (h : Heap) : Ref → Outer
  | .a => h.oa
  | .b => h.ob
  | .c => h.oc
  | .d => h.od
  | _ => .up

/-- `nni.Apply` (rearrange.go:86-159), after the `applied` test.
    `e1 = n1.br[n12index]` joins n1 and n1_2 (`b`); `e1.Right() == n1` says `b` is the
    parent of n1, i.e. `ob = up`: then the central branch is inverted.  The writes to the
    `neigh` slices of the two outer nodes keep their slots, and `setLeft/setRight` keep
    the orientation of `e1`,`e2` relative to the outer nodes: nothing to record.
    `none` = one of the `NodeIndex` calls failed (error) or `Edges()[-1]` (panic). -/
def applyH (h : Heap) (cross : Bool) : Option Heap :=
  match h.ng1.idx .n2 with                       -- n1n2index
  | none => none
  | some _ =>
  match h.ng1.idx .b with                        -- n12index
  | none => none
  | some n12index =>
  let n22node : Ref := if cross then .c else .d
  match h.ng2.idx n22node with                   -- n22index
  | none => none
  | some n22index =>
    -- Inverse(): `e1.Right() == n1 || e2.Right() == n2` (48c858a): the root is behind n1_2, or
    -- (the tree having been re-rooted since `newNNI`) behind the neighbour of n2 that is swapped
    let left1 := if h.ob.isUp || (h.outer n22node).isUp then !h.left1 else h.left1
    some { h with ng1 := h.ng1.set n12index n22node, ng2 := h.ng2.set n22index .b, left1 := left1 }

/-- `nni.Undo` (rearrange.go:161-234), after the `applied` test.  `e2 = n2.br[n12index]`
    joins n2 and n1_2 (`b`); `e2.Right() == n2` says `b` is now the parent of n2. -/
def undoH (h : Heap) (cross : Bool) : Option Heap :=
  match h.ng1.idx .n2 with                       -- n1n2index
  | none => none
  | some _ =>
  match h.ng2.idx .b with                        -- n12index
  | none => none
  | some n12index =>
  let n11node : Ref := if cross then .c else .d
  match h.ng1.idx n11node with                   -- n11index
  | none => none
  | some n11index =>
    -- Inverse(): `e2.Right() == n2 || e1.Right() == n1` (48c858a)
    let left1 := if h.ob.isUp || (h.outer n11node).isUp then !h.left1 else h.left1
    some { h with ng1 := h.ng1.set n11index .b, ng2 := h.ng2.set n12index n11node, left1 := left1 }

/-- What an `nni` object remembers, as positions instead of pointers.
    `path` leads from the root to n1 (child indices) in the tree `newNNI` saw. -/
structure NNI where
  path : List Nat
  i1 : Nat        -- n2index   = n1.NodeIndex(n2)
  i2 : Nat        -- n1index   = n2.NodeIndex(n1)
  cross : Bool
  bUp : Bool      -- n1_2 (= n1.neigh[(i1+2)%3]) is the parent of n1
  deriving DecidableEq, Repr

/-- `(i+1)%3` and `(i+2)%3` for a slot `i < 3` (`newNNI`), written by cases so that they
    compute on open terms (`Lemmas.C17.rot1_eq`, `rot2_eq`) -/
def rot1 : Nat → Nat
  | 0 => 1
  | 1 => 2
  | _ => 0

def rot2 : Nat → Nat
  | 0 => 2
  | 1 => 0
  | _ => 1

/-- who sits in slot `s` of `n1.neigh` (`newNNI`: n1_1 at `(i1+1)%3`, n1_2 at `(i1+2)%3`;
    after `Apply` the latter slot holds n2_2, or n2_1 if `cross`) -/
def lab1 (r : NNI) (applied : Bool) (s : Nat) : Ref :=
  if s = r.i1 then .n2
  else if s = rot1 r.i1 then .a
  else if applied then (if r.cross then .c else .d) else .b

/-- who sits in slot `s` of `n2.neigh` -/
def lab2 (r : NNI) (applied : Bool) (s : Nat) : Ref :=
  if s = r.i2 then .n1
  else if s = rot1 r.i2 then (if applied && r.cross then .b else .c)
  else (if applied && !r.cross then .b else .d)

/-- the three neighbour slots of a node with three neighbours: `up` at the parent
    position for a non-root node (there `up` means "my parent") -/
def slots3 (isRoot : Bool) (p : Nat) (k : Kids) : Option (Tri Outer) :=
  match isRoot, k with
  | true, [x, y, z] => some (.sub x.1 x.2, .sub y.1 y.2, .sub z.1 z.2)
  | false, [x, y] =>
    match p with
    | 0 => some (.up, .sub x.1 x.2, .sub y.1 y.2)
    | 1 => some (.sub x.1 x.2, .up, .sub y.1 y.2)
    | 2 => some (.sub x.1 x.2, .sub y.1 y.2, .up)
    | _ => none
  | _, _ => none

/-- Read the six-node piece off the subtree `S` whose top is the upper one of n1/n2
    (n1, except after applying an NNI whose n1_2 was the parent of n1). -/
def extract (S : T) (isRoot : Bool) (r : NNI) (applied : Bool) : Option Heap :=
  let topIs1 := !(r.bUp && applied)
  let iTop := if topIs1 then r.i1 else r.i2
  let iLow := if topIs1 then r.i2 else r.i1
  match S with
  | .node dT pT kT =>
    match slots3 isRoot pT kT with
    | none => none
    | some sT =>
      match sT.get iTop with
      | .up => none
      | .sub ec (.node dL pL kL) =>
        if pL ≠ iLow then none else
        match slots3 false pL kL with
        | none => none
        | some sL =>
          let s1 := if topIs1 then sT else sL
          let s2 := if topIs1 then sL else sT
          let ng1 : Tri Ref := (lab1 r applied 0, lab1 r applied 1, lab1 r applied 2)
          let ng2 : Tri Ref := (lab2 r applied 0, lab2 r applied 1, lab2 r applied 2)
          let find (x : Ref) : Outer :=
            match ng1.idx x with
            | some s => s1.get s
            | none => match ng2.idx x with
              | some s => s2.get s
              | none => .up
          some { d1 := if topIs1 then dT else dL, d2 := if topIs1 then dL else dT,
                 ng1 := ng1, ng2 := ng2, ec := ec, left1 := topIs1,
                 oa := find .a, ob := find .b, oc := find .c, od := find .d, p0 := pT }

/-- children of a centre node: its `neigh` in order, the parent left out, the other
    centre node replaced by `centre` (or left out when it is the parent) -/
def kidsOf (h : Heap) (ng : Tri Ref) (other : Ref) (centre : Option (EdgeD × T)) : Kids :=
  [ng.1, ng.2.1, ng.2.2].filterMap fun x =>
    if x = other then centre else
    match h.outer x with
    | .up => none
    | .sub e t => some (e, t)

/-- slot of the parent among the outer neighbours of a centre node -/
def upIdx (h : Heap) (ng : Tri Ref) (other : Ref) : Option Nat :=
  if ng.1 ≠ other && (h.outer ng.1).isUp then some 0
  else if ng.2.1 ≠ other && (h.outer ng.2.1).isUp then some 1
  else if ng.2.2 ≠ other && (h.outer ng.2.2).isUp then some 2
  else none

/-- which of the two centre nodes is nearer to the root -/
def Heap.topIs1 (h : Heap) : Bool :=
  match upIdx h h.ng1 .n2, upIdx h h.ng2 .n1 with
  | none, some _ => false
  | _, _ => true

/-- the central branch is oriented away from the root (what the α walk checks) -/
def Heap.oriented (h : Heap) : Bool := h.left1 == h.topIs1

/-- the α walk of the piece: back to a subtree of `T` -/
def rebuild (h : Heap) : T :=
  let low1 : T := .node h.d1 ((h.ng1.idx .n2).getD 0) (kidsOf h h.ng1 .n2 none)
  let low2 : T := .node h.d2 ((h.ng2.idx .n1).getD 0) (kidsOf h h.ng2 .n1 none)
  match upIdx h h.ng1 .n2, upIdx h h.ng2 .n1 with
  | some p, _ => .node h.d1 p (kidsOf h h.ng1 .n2 (some (h.ec, low2)))
  | none, some p => .node h.d2 p (kidsOf h h.ng2 .n1 (some (h.ec, low1)))
  | none, none => .node h.d1 h.p0 (kidsOf h h.ng1 .n2 (some (h.ec, low2)))

/-- rewrite the subtree at a child-index path -/
def modAt : List Nat → (T → Option T) → T → Option T
  | [], f, t => f t
  | i :: p, f, .node d pp k =>
    match k[i]? with
    | none => none
    | some (e, c) =>
      match modAt p f c with
      | none => none
      | some c' => some (.node d pp (k.set i (e, c')))

def applyLocal (isRoot : Bool) (r : NNI) (S : T) : Option T :=
  match extract S isRoot r false with
  | none => none
  | some h =>
    match applyH h r.cross with
    | none => none
    | some h' => if h'.oriented then some (rebuild h') else none

def undoLocal (isRoot : Bool) (r : NNI) (S : T) : Option T :=
  match extract S isRoot r true with
  | none => none
  | some h =>
    match undoH h r.cross with
    | none => none
    | some h' => if h'.oriented then some (rebuild h') else none

/-- `r.Apply()` on the tree (`none`: error, panic, or a heap the α walk rejects) -/
def apply (t : T) (r : NNI) : Option T := modAt r.path (applyLocal r.path.isEmpty r) t

/-- `r.Undo()` on the tree in which `r` is applied -/
def undo (t : T) (r : NNI) : Option T := modAt r.path (undoLocal r.path.isEmpty r) t

/-- `newNNI(t, n1, n2, cross)` where n1 is the node at `path` (parent position `p1`)
    and n2 its child number `j` (parent position `p2`) -/
def newNNI (path : List Nat) (isRoot : Bool) (p1 j p2 : Nat) (cross : Bool) : NNI :=
  let i1 := if isRoot then j else if j < p1 then j else j + 1
  { path := path, i1 := i1, i2 := p2, cross := cross, bUp := !isRoot && rot2 i1 == p1 }

/- `Rearrange`: `t.Edges()` is the pre-order walk over the branches; a branch is kept when
   both ends have three neighbours (`Nneigh() == 3`: three children for the root, two for
   any other node); it yields the NNI with `cross = false`, then `cross = true`. -/
mutual
def enumT (isRoot : Bool) (path : List Nat) : T → List NNI
  | .node _ p k => enumL isRoot path p (if isRoot then k.length == 3 else k.length == 2) 0 k
def enumL (isRoot : Bool) (path : List Nat) (p1 : Nat) (par3 : Bool) (j : Nat) : Kids → List NNI
  | [] => []
  | (_, c) :: rest =>
    (if par3 && c.kids.length == 2 then
       [newNNI path isRoot p1 j c.ppos false, newNNI path isRoot p1 j c.ppos true]
     else [])
    ++ enumT false (path ++ [j]) c
    ++ enumL isRoot path p1 par3 (j + 1) rest
end

/-- the rearrangements `Rearrange` hands to its callback, in order -/
def rearrangements (t : T) : List NNI := enumT true [] t

/-- number of calls of the callback when it answers `false` at call number `stop`
    (counted from 1; `stop = 0`: never) -/
def callsUntil (t : T) (stop : Nat) : Nat :=
  let n := (rearrangements t).length
  if stop = 0 then n else min stop n

/- ## the `applied` flag -/

structure Obj where
  r : NNI
  applied : Bool

def Obj.apply (o : Obj) (t : T) : Option (T × Obj) :=
  if o.applied then some (t, o) else
  match C17.apply t o.r with
  | none => none
  | some t' => some (t', { o with applied := true })

def Obj.undo (o : Obj) (t : T) : Option (T × Obj) :=
  if !o.applied then some (t, o) else
  match C17.undo t o.r with
  | none => none
  | some t' => some (t', { o with applied := false })

/-- one turn of the loop of `cmd/nni.go` (and of the harness): apply, look, undo -/
def enumStep (acc : Option (List T × T)) (r : NNI) : Option (List T × T) :=
  match acc with
  | none => none
  | some (seen, cur) =>
    match apply cur r with
    | none => none
    | some t1 =>
      match undo t1 r with
      | none => none
      | some t2 => some (seen ++ [t1], t2)

/-- the whole loop: the neighbours seen, and the tree at the end -/
def enumerate (t : T) : Option (List T × T) :=
  (rearrangements t).foldl enumStep (some ([], t))

/- every non-root node's parent position is a position of its neighbour slice
   (true of every α image) -/
mutual
def pposOKBelow : T → Bool
  | .node _ p k => p ≤ k.length && pposOKL k
def pposOKL : Kids → Bool
  | [] => true
  | (_, t) :: r => pposOKBelow t && pposOKL r
end

def pposOK (t : T) : Bool := pposOKL t.kids

/- the variant of `Rearrange` that would repair F22 is NOT modelled: the code has none. -/

end Gotree.C17
