/-
  C03 — edit histories over the operation models of the other properties.

  The models of the individual operations are owned by C05 (root moves, reorderings),
  C06 (pruning), C07 (branch contraction), C15 (single-node removal, clone, merge), C17 (NNI) and C16 (`firstDeg3` of RerootFirst); this file only composes them: one `EditOp` per imported model, `applyOp`,
  and `runOps` (a history stops at the first operation that does not report success).
  Core Lean only (linked into the driver, which also uses `applyOp` for the exact-α tie).
-/
import Gotree.Model.C03
import Gotree.Model.C03More
import Gotree.Model.C05
import Gotree.Model.C06
import Gotree.Model.C07
import Gotree.Model.C15
import Gotree.Model.C16
import Gotree.Model.C17
import Gotree.Spec.Splits
import Gotree.Spec.C05
import Gotree.Spec.C15

namespace Gotree.C03
open Gotree

abbrev Res := Gotree.C05.Res

/- ### Rename(map) and ReinitIndexes (modelled here: tree/tree.go:1552, :597)

  `Rename`: `NewNodeIndex` refuses two nodes with the same non-empty name; then every node whose
  ORIGINAL name is a key of the map gets the mapped name (the index was built before any renaming,
  so Go's map iteration order is irrelevant; the empty name is never in the index); then
  `UpdateTipIndex` refuses duplicate tip names (the tree stays renamed, but the edit has failed). -/

def hasDupS : List String → Bool
  | [] => false
  | a :: r => r.contains a || hasDupS r

def lookupName (m : List (String × String)) (n : String) : String :=
  if n == "" then n else
  match m.find? (fun p => p.1 == n) with
  | some p => p.2
  | none => n

mutual
def mapNames (f : String → String) : T → T
  | .node d p k => .node { d with name := f d.name } p (mapNamesL f k)
def mapNamesL (f : String → String) : Kids → Kids
  | [] => []
  | (e, t) :: r => (e, mapNames f t) :: mapNamesL f r
end

def renameMap (m : List (String × String)) (t : T) : Gotree.C05.Res T :=
  if hasDupS (t.nodeNames.filter (· != "")) then .err "NewNodeIndex: several nodes with the same name"
  else
    let t' := mapNames (lookupName m) t
    if hasDupS t'.tipNames then .err "Cannot create a tip index when several tips have the same name" else .ok t'

/- ### every renaming (RenameAuto, RenameRegexp, AddQuotes, RemoveQuotes, ShuffleTips …) is a relabelling:
   the nodes, in `Nodes()` order, receive the names of a given list (a node beyond the end of the
   list keeps its name); nothing else changes; the tip index is then rebuilt and refuses duplicates. -/
mutual
def setNames : List String → T → T × List String
  | ns, .node d p k =>
    let r := setNamesL ns.tail k
    (.node { d with name := ns.headD d.name } p r.1, r.2)
def setNamesL : List String → Kids → Kids × List String
  | ns, [] => ([], ns)
  | ns, (e, t) :: r =>
    let a := setNames ns t
    let b := setNamesL a.2 r
    ((e, a.1) :: b.1, b.2)
end

def relabel (names : List String) (t : T) : Gotree.C05.Res T :=
  let t' := (setNames names t).1
  if hasDupS t'.tipNames then .err "Cannot create a tip index when several tips have the same name" else .ok t'

/- ### AddQuotes / RemoveQuotes (tree/tree.go:1656, :1698)

    for _, n := range t.Nodes() {
        if (tips && n.Tip()) || (internals && !n.Tip()) {
            name := n.Name(); if name == "" { continue }                       // since 763a2ae
            first := name[0]; last := name[len(name)-1]
            firstpos, lastpos := 0, len(name)
            if first == '\'' || first == '"' { firstpos = 1 }
            if last  == '\'' || last  == '"' { lastpos-- }
            newname := name[firstpos:lastpos]                                  // slice bounds out of range on "'"
            …SetName(newname) / SetName("'" + newname + "'")
    } }
    t.UpdateTipIndex()
-/

def isQuoteChar (c : Char) : Bool := c == '\'' || c == '"'

/-- the new name, or `none` where the code panics -/
def quoteName (add : Bool) (name : String) : Option String :=
  let cs := name.toList
  match cs.head?, cs.getLast? with
  | some first, some last =>
    let fp := if isQuoteChar first then 1 else 0
    let lp := cs.length - (if isQuoteChar last then 1 else 0)
    if fp > lp then none
    else
      let core := String.ofList ((cs.take lp).drop fp)
      some (if add then "'" ++ core ++ "'" else core)
  | _, _ => none

mutual
/-- rename the selected nodes (`sel isTip`) by `f`; `hasParent = false` for the root -/
def mapSel (sel : Bool → Bool) (f : String → String) (hasParent : Bool) : T → T
  | .node d p k =>
    .node (if sel (k.length + (if hasParent then 1 else 0) == 1) then { d with name := f d.name } else d) p (mapSelL sel f k)
def mapSelL (sel : Bool → Bool) (f : String → String) : Kids → Kids
  | [] => []
  | (e, t) :: r => (e, mapSel sel f true t) :: mapSelL sel f r
end

mutual
/-- names of the selected nodes, in `Nodes()` order -/
def selNames (sel : Bool → Bool) (hasParent : Bool) : T → List String
  | .node d _ k =>
    (if sel (k.length + (if hasParent then 1 else 0) == 1) then [d.name] else []) ++ selNamesL sel k
def selNamesL (sel : Bool → Bool) : Kids → List String
  | [] => []
  | (_, t) :: r => selNames sel true t ++ selNamesL sel r
end

def quotes (add internals tips : Bool) (t : T) : Gotree.C05.Res T :=
  let sel := fun (isTip : Bool) => (tips && isTip) || (internals && !isTip)
  -- nodes without a name are skipped (763a2ae); a name that is a single quote character still slices [1:0]
  if (selNames sel false t).any (fun n => n != "" && (quoteName add n).isNone) then .panic "slice bounds out of range"
  else
    let t' := mapSel sel (fun n => if n == "" then n else (quoteName add n).getD n) false t
    if hasDupS t'.tipNames then .err "Cannot create a tip index when several tips have the same name" else .ok t'

/- ### ShuffleTips (tree/tree.go:1027)

    tips := t.Tips(); names := t.AllTipNames(); permutation := rand.Perm(len(names))
    for i, p := range permutation { tips[i].SetName(names[p]) }
    t.ReinitIndexes()        // its error is dropped

  `Tips()` and `AllTipNames()` walk in the same order (since 9642e30 also below a root that is a tip).
  The result is expressed as a relabelling of all nodes: non-tips keep their names. -/
mutual
/-- (name, is a tip) of every node in `Nodes()` order -/
def nodeFlags (hasParent : Bool) : T → List (String × Bool)
  | .node d _ k => (d.name, k.length + (if hasParent then 1 else 0) == 1) :: nodeFlagsL k
def nodeFlagsL : Kids → List (String × Bool)
  | [] => []
  | (_, t) :: r => nodeFlags true t ++ nodeFlagsL r
end

/-- tip number `i` (in walk order) receives `names[perm[i]]` -/
def shuffledNames (perm : List Nat) (names : List String) : List (String × Bool) → Nat → List String
  | [], _ => []
  | (n, tip) :: r, i =>
    if tip then (names.getD (perm.getD i i) n) :: shuffledNames perm names r (i + 1)
    else n :: shuffledNames perm names r i

/-- `ShuffleTips()` with the draws of `rand.Perm` (`Intn(1) … Intn(n)`, n = number of tips).  The
    code drops the error of the final `ReinitIndexes`; the model reports duplicate tip names as an
    error, which cannot happen from unique names (the driver's tie would show it otherwise). -/
def shuffle (draws : List Nat) (t : T) : Gotree.C05.Res T :=
  let fl := nodeFlags false t
  let names := (fl.filter (·.2)).map (·.1)
  if draws.length != names.length then .err "draws: not the draw script of rand.Perm" else
  match Gotree.C07.goPerm draws with
  | none => .err "draws: out of range"
  | some perm => relabel (shuffledNames perm names fl 0) t

/- ### RenameAuto (tree/tree.go:1584) with `*curid = 1` and an empty name map, as the harness calls it

    for i, n := range t.Nodes() { if selected {
        prefix := 'T'; if !n.Tip() { prefix = 'N'; if n.Name() == "" { n.SetName(strconv.Itoa(i)) } }
        newname, ok := namemap[n.Name()]
        if !ok { newname = Sprintf("%c%0*d", prefix, length-1, *curid); if len(newname) != length { return err }
                 namemap[n.Name()] = newname; *curid++ }
        n.SetName(newname) } }
    t.UpdateTipIndex()
-/

def zeroPad (w : Nat) (n : Nat) : String :=
  let ds := toString n
  String.ofList (List.replicate (w - ds.length) '0') ++ ds

/-- the new names of all nodes in `Nodes()` order; `none` = "Id length … does not allow …" -/
def autoNames (internals tips : Bool) (length : Nat) :
    List (String × Bool) → Nat → Nat → List (String × String) → Option (List String)
  | [], _, _, _ => some []
  | (name, isTip) :: r, i, curid, m =>
    if (tips && isTip) || (internals && !isTip) then
      let key := if !isTip && name == "" then toString i else name
      match m.find? (fun p => p.1 == key) with
      | some p => (autoNames internals tips length r (i + 1) curid m).map (p.2 :: ·)
      | none =>
        let newname := (if isTip then "T" else "N") ++ zeroPad (length - 1) curid
        if newname.length != length then none
        else (autoNames internals tips length r (i + 1) (curid + 1) ((key, newname) :: m)).map (newname :: ·)
    else (autoNames internals tips length r (i + 1) curid m).map (name :: ·)

def renameAuto (internals tips : Bool) (length : Nat) (t : T) : Gotree.C05.Res T :=
  match autoNames internals tips length (nodeFlags false t) 0 1 [] with
  | none => .err "Id length does not allow to generate as much ids"
  | some names => relabel names t

/- ### RenameRegexp (tree/tree.go:1627): the selected nodes get `r.ReplaceAllString(name, repl)`, then
   `UpdateTipIndex()`.  Go's regexp engine is not modelled; the harness draws from a fixed table of
   (pattern, replacement) pairs whose effect on a name is written out here. -/

def stripTrailingDigits (s : String) : String :=
  String.ofList (s.toList.reverse.dropWhile Char.isDigit).reverse

/-- `none` = the pattern does not compile (the call reports an error); `some none` = not in the table -/
def regexTable (pat repl : String) : Option (Option (String → String)) :=
  if pat == "t" && repl == "T" then some (some fun s => String.ofList (s.toList.map fun c => if c == 't' then 'T' else c))
  else if pat == "^(.)" && repl == "x$1" then some (some fun s => if s == "" then s else "x" ++ s)
  else if pat == "[0-9]+$" && repl == "" then some (some stripTrailingDigits)
  else if pat == "x" && repl == "yy" then some (some fun s => String.ofList (s.toList.flatMap fun c => if c == 'x' then ['y', 'y'] else [c]))
  else if pat == "(" then none
  else some none

def renameSel (internals tips : Bool) (f : String → String) (t : T) : Gotree.C05.Res T :=
  let t' := mapSel (fun isTip => (tips && isTip) || (internals && !isTip)) f false t
  if hasDupS t'.tipNames then .err "Cannot create a tip index when several tips have the same name" else .ok t'

/- ### the data edits (tree/tree.go: ClearLengths, ClearSupports, ClearComments, ScaleLengths, RoundLengths):
   a function applied to the data of every node / branch; `e.right.Tip()` = the lower node has no child -/
mutual
def mapData (fn : NodeD → NodeD) (fe : Bool → EdgeD → EdgeD) : T → T
  | .node d p k => .node (fn d) p (mapDataL fn fe k)
def mapDataL (fn : NodeD → NodeD) (fe : Bool → EdgeD → EdgeD) : Kids → Kids
  | [] => []
  | (e, t) :: r => (fe t.kids.isEmpty e, mapData fn fe t) :: mapDataL fn fe r
end

def selEdge (internal external tip : Bool) : Bool := (tip && external) || (!tip && internal)

def clearLengths (internal external : Bool) (t : T) : T :=
  mapData id (fun tip e => if selEdge internal external tip then { e with len := NIL } else e) t

def clearSupports (t : T) : T := mapData id (fun _ e => { e with sup := NIL, pval := NIL }) t

def clearComments (t : T) : T := mapData (fun d => { d with comments := [] }) (fun _ e => { e with comments := [] }) t

def scaleLengths (x : Rat) (internal external : Bool) (t : T) : T :=
  mapData id (fun tip e => if e.len != NIL && selEdge internal external tip then { e with len := e.len * x } else e) t

/-- `math.Round`: half away from zero -/
def roundRat (q : Rat) : Rat := if q ≥ 0 then ((q + 1/2).floor : Int) else -(((-q + 1/2).floor : Int) : Rat)

/-- `RoundLengths(0, …)` -/
def roundLengths0 (internal external : Bool) (t : T) : T :=
  mapData id (fun tip e => if e.len != NIL && selEdge internal external tip then { e with len := roundRat e.len } else e) t

/- ### more data edits (round 7): AddLength, ClearPvalues, ClearNodeComments, ClearEdgeComments,
   ClearTerminalEdgeComments, ScaleSupports, RoundSupports(0) (tree/tree.go:1365-1414, :1941-1996) -/

/-- `AddLength(brlen, internal, external)`: a selected branch without a length gets `brlen` -/
def addLength (x : Rat) (internal external : Bool) (t : T) : T :=
  mapData id (fun tip e => if selEdge internal external tip then { e with len := if e.len != NIL then e.len + x else x } else e) t

def clearPvalues (t : T) : T := mapData id (fun _ e => { e with pval := NIL }) t

def clearNodeComments (t : T) : T := mapData (fun d => { d with comments := [] }) (fun _ e => e) t

def clearEdgeComments (t : T) : T := mapData id (fun _ e => { e with comments := [] }) t

/-- `ClearTerminalEdgeComments()`: the branches with `e.Right().Tip()` -/
def clearTermEdgeComments (t : T) : T := mapData id (fun tip e => if tip then { e with comments := [] } else e) t

/-- Go's `int(x)` for a float: truncation towards zero -/
def truncRat (q : Rat) : Rat := if q ≥ 0 then ((q.floor : Int) : Rat) else -(((-q).floor : Int) : Rat)

/-- `ScaleSupports(factor)`: `float64(int(1000000*(s*factor))) / 1000000` on every branch with a support.
    Exact on the values the harness offers (`s*factor` a multiple of 1/64: then 1000000*s*factor is an
    integer and the quotient a dyadic number). -/
def scaleSupports (x : Rat) (t : T) : T :=
  mapData id (fun _ e => if e.sup != NIL then { e with sup := truncRat (1000000 * (e.sup * x)) / 1000000 } else e) t

/-- `RoundSupports(0)` -/
def roundSupports0 (t : T) : T :=
  mapData id (fun _ e => if e.sup != NIL then { e with sup := roundRat e.sup } else e) t

/- ### ResolveNamedInternalNodes (tree/tree.go:1235): post-order, every named node that is not a tip
   gets one more child, a tip carrying its name on a fresh branch of length 0 (appended last) -/
mutual
def resolveNamed (hasParent : Bool) : T → T
  | .node d p k =>
    let k' := resolveNamedL k
    let isTip := k.length + (if hasParent then 1 else 0) == 1
    .node d p (if !isTip && d.name != "" then k' ++ [(⟨0, NIL, NIL, [], -1⟩, T.leaf d.name)] else k')
def resolveNamedL : Kids → Kids
  | [] => []
  | (e, t) :: r => (e, resolveNamed true t) :: resolveNamedL r
end

/-! ### CollapseClade (tree/algo.go:415) with LeastCommonAncestorRooted / LeastCommonAncestorRecur (:89, :123) -/

structure LcaRes where
  found : Option (List Nat)   -- path of the node at which all the wanted tips were counted
  com : Nat                   -- wanted tips met
  diff : Nat                  -- other tips met (below children holding a wanted tip only, once found)

/- `LeastCommonAncestorRecur(current, prev, tipIndex)`: `F` the wanted names that exist in the tree;
   `.error` = `current.NodeIndex(prev)` fails (a wanted tip that is the root: prev is nil) -/
mutual
def lcaT (F : List String) (hasParent : Bool) (path : List Nat) : T → Except Unit LcaRes
  | .node d _ k =>
    let isTip := k.length + (if hasParent then 1 else 0) == 1
    let inF := isTip && F.contains d.name
    if inF && !hasParent then .error () else
    match lcaL F path 0 k with
    | .error e => .error e
    | .ok (some r, _, _, _) => .ok r
    | .ok (none, com, diff, tmp) =>
      let common := (if inF then 1 else 0) + com
      let different := (if isTip && !inF then 1 else 0) + diff
      if common == F.length then .ok ⟨some path, common, different⟩ else .ok ⟨none, common, different + tmp⟩
def lcaL (F : List String) (path : List Nat) : Nat → Kids → Except Unit (Option LcaRes × Nat × Nat × Nat)
  | _, [] => .ok (none, 0, 0, 0)
  | i, (_, t) :: r =>
    match lcaT F true (path ++ [i]) t with
    | .error e => .error e
    | .ok res =>
      if res.found.isSome then .ok (some res, 0, 0, 0) else
      match lcaL F path (i + 1) r with
      | .error e => .error e
      | .ok (some x, a, b, c) => .ok (some x, a, b, c)
      | .ok (none, com, diff, tmp) =>
        if res.com > 0 then .ok (none, com + res.com, diff + res.diff, tmp) else .ok (none, com, diff, tmp + res.diff)
end

/-- `CollapseClade(strict, name, tips...)`: the node found is replaced, in place, by a new tip `name` on the
    same branch; the history goes on with the host tree (the clade is returned and dropped) -/
def collapseClade (strict : Bool) (name : String) (tips : List String) (t : T) : Res T :=
  if hasDupS (t.nodeNames.filter (· != "")) then .err "NewNodeIndex: several nodes with the same name" else
  let F := (tips.filter fun x => x != "" && t.nodeNames.contains x).eraseDups
  if F.isEmpty then .err "none of the given tips are present in the tree" else
  match lcaT F false [] t with
  | .error _ => .err "The Node is not in the neighbors of node"
  | .ok r =>
    match r.found with
    | none => .err "no common ancestor found for the given tips (names must be current tip names)"   -- since b687409 (F97); before: nil dereference
    | some p =>
      if r.diff != 0 && strict then .err "the given outgroup is not monophyletic, cannot reroot"
      else if p.isEmpty then .err "The node has no parent : May be the root?"
      else .ok (modAt (fun _ _ => T.leaf name) true p t)

/-! ### Annotate (tree/tree.go:1521)

    nodeindex, err := NewNodeIndex(t)                       // ONCE, before the loop: look-ups are by the ORIGINAL names
    for _, line := range names {
        if len(line) < 2 { return error }
        else if len(line) == 2 { if node, found := nodeindex.GetNode(line[1]); found { AddComment / SetName (line[0]) } }
        else { n, _, _, err := t.LeastCommonAncestorRooted(nodeindex, line[1:]...); if err != nil { return err }
               if n == nil { return error }                   // since b687409 (F97): no node holds all names as tips
               n.AddComment / n.SetName (line[0]) }
    }

  `LeastCommonAncestorRecur` compares the CURRENT name of a tip with the given names, the index answers
  for the ORIGINAL ones: after a line has renamed a tip, a later line whose list names that tip finds
  no ancestor; since b687409 (F97) the call then reports an error (before: nil dereference); the lines
  already applied stay applied. -/

def addCommentNode (c : String) : Bool → T → T :=
  fun _ t => .node { t.d with comments := t.d.comments ++ [c] } t.ppos t.kids

def setNameNode (nm : String) : Bool → T → T :=
  fun _ t => .node { t.d with name := nm } t.ppos t.kids

/- path of the first node (Nodes() order) carrying the name -/
mutual
def findName (x : String) (path : List Nat) : T → Option (List Nat)
  | .node d _ k => if d.name == x then some path else findNameL x path 0 k
def findNameL (x : String) (path : List Nat) : Nat → Kids → Option (List Nat)
  | _, [] => none
  | i, (_, t) :: r =>
    match findName x (path ++ [i]) t with
    | some p => some p
    | none => findNameL x path (i + 1) r
end

/-- one line of the loop -/
def annotateStep (comment : Bool) (orig : T) (line : List String) (cur : T) : Res T :=
  let f := fun (nw : String) => if comment then addCommentNode nw else setNameNode nw
  match line with
  | [] => .err "Error in tree annotation: Wrongly formatted annotation slice"
  | [_] => .err "Error in tree annotation: Wrongly formatted annotation slice"
  | [nw, old] =>
    match (if old == "" then none else findName old [] orig) with
    | some p => .ok (modAt (f nw) true p cur)
    | none => .ok cur
  | nw :: names =>
    let F := (names.filter fun x => x != "" && orig.nodeNames.contains x).eraseDups
    if F.isEmpty then .err "none of the given tips are present in the tree" else
    match lcaT F false [] cur with
    | .error _ => .err "The Node is not in the neighbors of node"
    | .ok r =>
      match r.found with
      | none => .err "no common ancestor found for the given tips (names must be current tip names)"   -- since b687409 (F97); before: nil dereference
      | some p => .ok (modAt (f nw) true p cur)

def annotateLoop (comment : Bool) (orig : T) : List (List String) → T → Res T
  | [], cur => .ok cur
  | line :: rest, cur =>
    match annotateStep comment orig line cur with
    | .ok c => annotateLoop comment orig rest c
    | .err m => .err m
    | .panic m => .panic m

/-- `Annotate(names, comment)` -/
def annotate (comment : Bool) (lines : List (List String)) (t : T) : Res T :=
  if hasDupS (t.nodeNames.filter (· != "")) then .err "NewNodeIndex: several nodes with the same name"
  else annotateLoop comment t lines t

/-- `ReinitIndexes()` does not touch the tree; it fails without tips or with duplicate tip names -/
def reinit (t : T) : Gotree.C05.Res T :=
  if hasDupS t.tipNames then .err "Cannot create a tip index when several tips have the same name"
  else if t.tipNames.isEmpty then .err "No tips in the index, tip name index is not initialized"
  else .ok t

/-- the public editing operations whose models are composed here -/
inductive EditOp where
  | reroot (path : List Nat)             -- Tree.Reroot(n), n named by its child-index path
  | unroot                               -- Tree.UnRoot()
  | sortTips                             -- Tree.SortNeighborsByTips()
  | rotate (draws : List Nat)            -- Tree.RotateInternalNodes(), the draws of rand.Intn given
  | prune (revert : Bool) (names : List String)   -- Tree.RemoveTips(revert, names...)
  | rerootFirst                          -- Tree.RerootFirst(): Reroot on the first node (Nodes() order) with 3 neighbours
  | removeEdges (removeRoot removeTips : Bool) (ids : List Int)   -- Tree.RemoveEdges, branches named by their ids
  | collapseLen (l : Rat) (removeRoot removeTips : Bool)          -- Tree.CollapseShortBranches
  | collapseSup (s : Rat) (removeRoot : Bool)                     -- Tree.CollapseLowSupport
  | removeSingle                         -- Tree.RemoveSingleNodes()
  | clone                                -- Tree.Clone(), the history goes on with the copy
  | merge (t2 : T)                       -- Tree.Merge(t2), both tip indexes initialised
  | resolve (draws : List Nat)           -- Tree.Resolve(), the draws of rand.Perm given
  | nni (k : Nat) (undo : Bool)          -- the k-th rearrangement of NNIRearranger.Rearrange: Apply(), then Undo() if asked
  | collapseDepth (mn mx : Int) (removeRoot removeTips : Bool)    -- Tree.CollapseTopoDepth, subtree sizes up to date
  | subTree (path : List Nat)            -- Tree.SubTree(n), the history goes on with the subtree
  | graftTree (tip : String) (g : T)     -- Tree.GraftTreeOnTip(tip, g), tip index up to date
  | insertIdentical (groups : List (List String))   -- Tree.InsertIdenticalTips(groups), tip index up to date
  | outgroup (remove strict : Bool) (tips : List String)   -- Tree.RerootOutGroup(removeoutgroup, strict, tips...)
  | midpoint                             -- Tree.RerootMidPoint()
  | graftEdge (name : String) (k : Nat)  -- Tree.GraftTipOnEdge(new node `name`, the k-th branch in Edges() order)
  | rename (m : List (String × String))  -- Tree.Rename(map), keys pairwise distinct
  | reinit                               -- Tree.ReinitIndexes() (not an edit: offered between edits)
  | relabel (names : List String)        -- any renaming: RenameAuto, RenameRegexp, ShuffleTips
  | quotes (add internals tips : Bool)   -- Tree.AddQuotes / Tree.RemoveQuotes (nodes without a name are skipped)
  | shuffle (draws : List Nat)           -- Tree.ShuffleTips(), the draws of rand.Perm given
  | renameAuto (internals tips : Bool) (length : Nat)   -- Tree.RenameAuto(internals, tips, length, &1, {})
  | clearLengths (internal external : Bool)             -- Tree.ClearLengths
  | clearSupports                                       -- Tree.ClearSupports
  | clearComments                                       -- Tree.ClearComments
  | scaleLengths (x : Rat) (internal external : Bool)   -- Tree.ScaleLengths
  | roundLengths0 (internal external : Bool)            -- Tree.RoundLengths(0, …)
  | rotateOne (path : List Nat) (draws : List Nat)      -- Node.RotateNeighbors() on the node at `path`, the draws of rand.Intn given
  | addLength (x : Rat) (internal external : Bool)      -- Tree.AddLength
  | clearPvalues                                        -- Tree.ClearPvalues
  | clearNodeComments                                   -- Tree.ClearNodeComments
  | clearEdgeComments                                   -- Tree.ClearEdgeComments
  | clearTermEdgeComments                               -- Tree.ClearTerminalEdgeComments
  | scaleSupports (x : Rat)                             -- Tree.ScaleSupports
  | roundSupports0                                      -- Tree.RoundSupports(0)
  | collapseClade (strict : Bool) (name : String) (tips : List String)   -- Tree.CollapseClade (the clade is dropped)
  | annotate (comment : Bool) (lines : List (List String))              -- Tree.Annotate
  | addBip (path : List Nat) (slots : List Nat) (len sup : Rat)         -- Tree.AddBipartition(node at path, n.br[slots], len, sup)
  deriving Repr

def applyOp : EditOp → T → Res T
  | .reroot p, t => Gotree.C05.reroot t p
  | .unroot, t => .ok (Gotree.C05.unroot t)
  | .sortTips, t => .ok (Gotree.C05.sortT t)
  | .rotate ds, t => .ok (Gotree.C05.rotate t ds)
  | .prune rev names, t =>
    match Gotree.C06.removeTips rev names t with
    | .ok (t', _) => .ok t'
    | .error _ => .err "prune"
  | .rerootFirst, t =>
    match Gotree.C16.firstDeg3 0 t with
    | none => .err "No nodes with 3 neighors have been found for rerooting"
    | some p => Gotree.C05.reroot t p
  | .removeEdges rr rt ids, t => .ok (Gotree.C07.removeEdges rr rt ids t)
  | .collapseLen l rr rt, t => .ok (Gotree.C07.collapseLen l rr rt t)
  | .collapseSup x rr, t => .ok (Gotree.C07.collapseSup x rr t)
  | .removeSingle, t => .ok (Gotree.C15.removeSingle t)
  -- a clone is the tree with every parent position reset (C15 proves its table-driven `clone` equal to this)
  | .clone, t => .ok (Gotree.C15.zeroPpos t)
  | .merge t2, t =>
    match Gotree.C15.merge true true t t2 with
    | .ok t' => .ok t'
    | .error m => .err m
  | .resolve ds, t =>
    match Gotree.C07.resolve t ds with
    | some t' => .ok t'
    | none => .err "the draws are not those of the draw script"
  | .nni k undo, t =>
    let rs := Gotree.C17.rearrangements t
    if rs.isEmpty then .ok t else
    match rs[k % rs.length]? with
    | none => .err "no rearrangement"
    | some r =>
      match Gotree.C17.apply t r with
      | none => .err "apply"
      | some t1 =>
        if undo then
          match Gotree.C17.undo t1 r with
          | some t2 => .ok t2
          | none => .err "undo"
        else .ok t1
  | .collapseDepth mn mx rr rt, t =>
    match Gotree.C07.collapseDepth mn mx rr rt t with
    | some t' => .ok t'
    | none => .err "Cannot compute topodepth"
  | .subTree p, t =>
    match Gotree.C15.nodeAt t p with
    | some n => .ok (Gotree.C15.zeroPpos n)
    | none => .err "no such node"
  | .graftTree tip g, t =>
    match Gotree.C15.graft true t tip g with
    | .ok t' => .ok t'
    | .error m => .err m
  | .insertIdentical groups, t =>
    match Gotree.C15.insertIdentical true t groups with
    | (t', none) => .ok t'
    | (_, some m) => .err m
  | .outgroup remove strict tips, t => Gotree.C05.rerootOutGroup remove strict tips t
  | .midpoint, t => Gotree.C05.rerootMidPoint t
  | .graftEdge name k, t =>
    if k < Gotree.C16.numEdges t then .ok (Gotree.C16.applyAt (Gotree.C16.graftF name) k t)
    else .err "no such branch"
  | .rename m, t => renameMap m t
  | .reinit, t => reinit t
  | .relabel names, t => relabel names t
  | .quotes add internals tips, t => quotes add internals tips t
  | .shuffle draws, t => shuffle draws t
  | .renameAuto internals tips length, t => renameAuto internals tips length t
  | .clearLengths i x, t => .ok (clearLengths i x t)
  | .clearSupports, t => .ok (clearSupports t)
  | .clearComments, t => .ok (clearComments t)
  | .scaleLengths q i x, t => .ok (scaleLengths q i x t)
  | .roundLengths0 i x, t => .ok (roundLengths0 i x t)
  | .rotateOne p ds, t => .ok (rotateOne p ds t)
  | .addLength q i x, t => .ok (addLength q i x t)
  | .clearPvalues, t => .ok (clearPvalues t)
  | .clearNodeComments, t => .ok (clearNodeComments t)
  | .clearEdgeComments, t => .ok (clearEdgeComments t)
  | .clearTermEdgeComments, t => .ok (clearTermEdgeComments t)
  | .scaleSupports q, t => .ok (scaleSupports q t)
  | .roundSupports0, t => .ok (roundSupports0 t)
  | .collapseClade strict name tips, t => collapseClade strict name tips t
  | .annotate comment lines, t => annotate comment lines t
  | .addBip p S l sp, t =>
    match addBipAt S l sp p t with
    | some t' => .ok t'
    | none => .err "we cannot add the bipartition, it already exists"

/-- a history: stops at the first operation that does not report success -/
def runOps : T → List EditOp → Res T
  | t, [] => .ok t
  | t, op :: r =>
    match applyOp op t with
    | .ok t' => runOps t' r
    | .err m => .err m
    | .panic m => .panic m

/-- unique tip names -/
def uniqueTipsB (t : T) : Bool := decide t.tipNames.Nodup

/-- tips kept by a pruning -/
def keptTips (t : T) (names : List String) (rev : Bool) : List String :=
  t.tipNames.filter fun n => names.contains n == rev

/-- Is "no single-child inner node" still promised after the operation?  The property's
    quantifier: every edit keeps it except re-rooting a ROOTED tree at an inner node (the
    old root is left with one child); pruning restores nothing and needs it. -/
def promised (ns : Bool) : EditOp → T → Bool
  | .reroot _, t => ns && !t.rooted
  | .rerootFirst, t => ns && !t.rooted
  | .removeSingle, _ => true
  | _, _ => ns

/-- What an operation may assume (the property's quantifier): pruning only has to cope with
    trees free of single-child inner nodes whose root is not a tip, and is only specified
    when at least three tips are kept (below that the code refuses or leaves a stub). -/
def opPre (ns : Bool) : EditOp → T → Bool
  | .prune rev names, t => ns && t.kids.length != 1 && decide (3 ≤ (keptTips t names rev).length)
  -- contraction: the root is not itself a tip (RemoveEdges looks at `e.Right()` only)
  | .removeEdges _ _ _, t => decide (2 ≤ t.kids.length)
  | .collapseLen _ _ _, t => decide (2 ≤ t.kids.length)
  | .collapseSup _ _, t => decide (2 ≤ t.kids.length)
  -- the second tree of a merge is a tree of the same kind
  | .merge t2, _ => decide t2.tipNames.Nodup && (!ns || t2.noSingle)
  | .resolve _, t => !ns || decide (2 ≤ t.kids.length)
  | .nni _ _, t => Gotree.C17.pposOK t
  | .collapseDepth _ _ _ _, t => decide (2 ≤ t.kids.length)
  -- the copy of a single-child node would be a root-tip whose name joins the tip names
  | .subTree p, t =>
    match Gotree.C15.nodeAt t p with
    | some n => n.kids.length != 1
    | none => true
  -- the graft brings new, unique names (and is itself free of single-child nodes where promised)
  | .graftTree _ g, t =>
    decide (Gotree.C15.asGraft g).leaves.Nodup && (Gotree.C15.asGraft g).leaves.all (fun x => !t.tipNames.contains x) &&
      (!ns || (g.noSingle && g.kids.length != 1))
  -- hypothesis of C15's insertion theorem: no empty name in a group
  | .insertIdentical groups, _ => groups.all (fun g => !g.contains "")
  -- hypotheses of C05's preservation theorems: lengths and supports absent or non-negative
  | .outgroup remove _ _, t => remove || (Gotree.C05.lensOK t && Gotree.C05.supsOK t)
  | .midpoint, t => Gotree.C05.lensOK t && Gotree.C05.supsOK t
  | .graftEdge name _, t => !t.tipNames.contains name
  -- the tip that replaces the clade carries a new name
  | .collapseClade _ name _, t => !t.tipNames.contains name
  -- renaming mode may give two tips the same name (Annotate does not look): the closure is stated for comment mode
  | .annotate comment _, _ => comment
  -- the branches are given by distinct slots
  | .addBip _ S _ _, _ => decide S.Nodup
  | _, _ => true

/-- the preconditions hold all along the history (evaluated by the driver as a tag) -/
def preAll : Bool → T → List EditOp → Bool
  | _, _, [] => true
  | ns, t, op :: r =>
    opPre ns op t &&
    match applyOp op t with
    | .ok t' => preAll (promised ns op t) t' r
    | _ => true

/-- the promise at the end of a history -/
def promisedAfter : Bool → T → List EditOp → Bool
  | ns, _, [] => ns
  | ns, t, op :: r =>
    match applyOp op t with
    | .ok t' => promisedAfter (promised ns op t) t' r
    | _ => ns

/-- the invariant of histories: unique tip names, and no single-child inner node where promised -/
def InvB (ns : Bool) (t : T) : Bool := uniqueTipsB t && (!ns || t.noSingle)

end Gotree.C03
