/-
  C07 — `RemoveEdges` with `removeRoot` on a rooted tree: what happens to the root when one (or both)
  of its two branches is contracted.
-/
import Gotree.Lemmas.C07Proof

namespace Gotree.C07
open Gotree

theorem nNone_map_some (k : Kids) (p : Nat) : nNone ((k.map some).take p) = 0 := by
  unfold nNone
  rw [List.length_eq_zero_iff, List.filter_eq_nil_iff]
  intro x hx
  have := List.mem_of_mem_take hx
  obtain ⟨y, _, rfl⟩ := List.mem_map.mp this
  simp

theorem stayKids_map_some (k : Kids) : stayKids (k.map some) = k := by
  induction k with
  | nil => rfl
  | cons x r ih => simp [ih]

/- a branch id that does not occur leaves everything as it is -/
mutual
theorem contractT_absent (rr rt : Bool) (id : Int) (isRoot : Bool) :
    ∀ c : T, id ∉ c.splitsBelow.map (·.e.id) → contractT rr rt id isRoot c = c
  | .node d p k => by
    intro h
    have hk := contractL_absent (rr || !isRoot) rt id (k.length + (if isRoot then 0 else 1)) k (by simpa [T.splitsBelow] using h)
    rw [contractT_node, hk]
    simp [nNone_map_some, stayKids_map_some]
theorem contractL_absent (rr rt : Bool) (id : Int) (deg : Nat) :
    ∀ k : Kids, id ∉ (splitsL k).map (·.e.id) → contractL rr rt id deg k = (k.map some, [])
  | [] => by intro _; simp [contractL]
  | (e, c) :: r => by
    intro h
    simp only [splitsL, List.map_cons, List.map_append, List.mem_cons, List.mem_append, not_or] at h
    have h1 := contractT_absent rr rt id false c h.2.1
    have h2 := contractL_absent rr rt id deg r h.2.2
    have hne : (e.id == id) = false := by
      have : e.id ≠ id := fun hh => h.1 hh.symm
      simpa using this
    rw [contractL_cons, hne, h1, h2]
    simp
end

/-- ids of a rooted tree, spelled out -/
theorem rooted_ids (d : NodeD) (p : Nat) (e1 e2 : EdgeD) (c1 c2 : T) :
    (T.node d p [(e1, c1), (e2, c2)]).splits.map (·.e.id) =
      e1.id :: (c1.splitsBelow.map (·.e.id) ++ e2.id :: (c2.splitsBelow.map (·.e.id))) := by
  simp [T.splits, splitsL]

/-- First root branch contracted (`removeRoot`, the node below is inner): the root stays, loses that
    child and receives its children at the END of its neighbour slice. -/
theorem root_first_contracted (rt : Bool) (d : NodeD) (p : Nat) (e1 e2 : EdgeD) (c1 c2 : T)
    (hid : uniqueIds (.node d p [(e1, c1), (e2, c2)]) = true) (hinner : c1.isLeaf = false) :
    contractT true rt e1.id true (.node d p [(e1, c1), (e2, c2)]) =
      .node d (p - nNone ([none, some (e2, c2)].take p)) ((e2, c2) :: c1.kids) := by
  have hnd : ((T.node d p [(e1, c1), (e2, c2)]).splits.map (·.e.id)).Nodup := by simpa [uniqueIds] using hid
  rw [rooted_ids] at hnd
  rw [List.nodup_cons] at hnd
  obtain ⟨hnot, hrest⟩ := hnd
  simp only [List.mem_append, List.mem_cons, not_or] at hnot
  have a1 := contractT_absent true rt e1.id false c1 hnot.1
  have a2 := contractT_absent true rt e1.id false c2 hnot.2.2
  have hne : (e2.id == e1.id) = false := by
    have : e2.id ≠ e1.id := fun hh => hnot.2.1 hh.symm
    simpa using this
  rw [contractT_node]
  simp only [Bool.not_true, Bool.or_false]
  simp only [contractL, a1, a2, hne, hinner, beq_self_eq_true, if_true, Bool.false_or,
    List.length_cons, List.length_nil, Bool.not_true, Bool.false_and, Bool.false_eq_true, if_false]
  have : ((0 + 1 + 1 + 0 : Nat) == 1) = false := rfl
  simp [this, stayKids]

/-- Second root branch contracted. -/
theorem root_second_contracted (rt : Bool) (d : NodeD) (p : Nat) (e1 e2 : EdgeD) (c1 c2 : T)
    (hid : uniqueIds (.node d p [(e1, c1), (e2, c2)]) = true) (hinner : c2.isLeaf = false) :
    contractT true rt e2.id true (.node d p [(e1, c1), (e2, c2)]) =
      .node d (p - nNone ([some (e1, c1), none].take p)) ((e1, c1) :: c2.kids) := by
  have hnd : ((T.node d p [(e1, c1), (e2, c2)]).splits.map (·.e.id)).Nodup := by simpa [uniqueIds] using hid
  rw [rooted_ids] at hnd
  have hne : (e1.id == e2.id) = false := by
    have : e1.id ≠ e2.id := by
      intro hh
      rw [List.nodup_cons] at hnd
      exact hnd.1 (by simp [hh])
    simpa using this
  have hn1 : e2.id ∉ c1.splitsBelow.map (·.e.id) := by
    intro hm
    have := (List.nodup_cons.mp hnd).2
    rw [List.nodup_append] at this
    exact this.2.2 _ hm _ (by simp) rfl
  have hn2 : e2.id ∉ c2.splitsBelow.map (·.e.id) := by
    intro hm
    have := (List.nodup_cons.mp hnd).2
    rw [List.nodup_append] at this
    exact (List.nodup_cons.mp this.2.1).1 hm
  have a1 := contractT_absent true rt e2.id false c1 hn1
  have a2 := contractT_absent true rt e2.id false c2 hn2
  rw [contractT_node]
  simp only [Bool.not_true, Bool.or_false]
  simp only [contractL, a1, a2, hne, hinner, beq_self_eq_true, if_true, Bool.false_or,
    List.length_cons, List.length_nil, Bool.not_true, Bool.false_and, Bool.false_eq_true, if_false]
  have : ((0 + 1 + 1 + 0 : Nat) == 1) = false := rfl
  simp [this, stayKids]

/-- Both root branches contracted, one after the other: the root absorbs the children of both. -/
theorem root_both_contracted (rt : Bool) (d : NodeD) (p : Nat) (e1 e2 : EdgeD) (c1 c2 : T)
    (hid : uniqueIds (.node d p [(e1, c1), (e2, c2)]) = true) (h1 : c1.isLeaf = false) (h2 : c2.isLeaf = false) :
    ∃ p', removeEdges true rt [e1.id, e2.id] (.node d p [(e1, c1), (e2, c2)]) = .node d p' (c1.kids ++ c2.kids) := by
  have hnd : ((T.node d p [(e1, c1), (e2, c2)]).splits.map (·.e.id)).Nodup := by simpa [uniqueIds] using hid
  rw [rooted_ids] at hnd
  have hn1 : e2.id ∉ (splitsL c1.kids).map (·.e.id) := by
    rw [← splitsBelow_eq]
    intro hm
    have := (List.nodup_cons.mp hnd).2
    rw [List.nodup_append] at this
    exact this.2.2 _ hm _ (by simp) rfl
  have hn2 : e2.id ∉ c2.splitsBelow.map (·.e.id) := by
    intro hm
    have := (List.nodup_cons.mp hnd).2
    rw [List.nodup_append] at this
    exact (List.nodup_cons.mp this.2.1).1 hm
  have hk1 : c1.kids.length ≥ 1 := by
    cases hh : c1.kids with
    | nil => simp [T.isLeaf, hh] at h1
    | cons _ _ => simp
  have a2 := contractT_absent true rt e2.id false c2 hn2
  have key : ∀ q, contractT true rt e2.id true (.node d q ((e2, c2) :: c1.kids)) =
      .node d (q - nNone ((none :: c1.kids.map some).take q)) (c1.kids ++ c2.kids) := by
    intro q
    rw [contractT_node]
    generalize hg : ((e2, c2) :: c1.kids).length + (if true = true then 0 else 1) = deg
    simp only [Bool.not_true, Bool.or_false]
    have hdeg : (deg == 1) = false := by
      have : deg = c1.kids.length + 1 := by rw [← hg]; simp
      have h3 : deg ≠ 1 := by omega
      simpa using h3
    have a1 := contractL_absent true rt e2.id deg c1.kids hn1
    rw [contractL_cons]
    simp only [beq_self_eq_true, if_true, h2, hdeg, Bool.or_self, Bool.false_eq_true, if_false, Bool.not_true,
      Bool.false_and, a1, a2, stayKids_none, stayKids_map_some, List.append_nil]
  rw [removeEdges_cons, root_first_contracted rt d p e1 e2 c1 c2 hid h1, removeEdges_cons, key]
  exact ⟨_, rfl⟩

end Gotree.C07

namespace Gotree.C07
open Gotree

/- ## stored subtree sizes -/

theorem find_fresh (l : List SplitE) (total : Nat) (hnd : (l.map (·.e.id)).Nodup) (s : SplitE) (hs : s ∈ l) :
    (l.map fun x => (x.e.id, total - x.below.length, x.below.length)).find? (fun x => x.1 == s.e.id) =
      some (s.e.id, total - s.below.length, s.below.length) := by
  induction l with
  | nil => cases hs
  | cons a r ih =>
    simp only [List.map_cons, List.nodup_cons] at hnd
    rcases List.mem_cons.mp hs with rfl | hs'
    · simp
    · have hne : a.e.id ≠ s.e.id := by
        intro h
        exact hnd.1 (by rw [h]; exact List.mem_map.mpr ⟨s, hs', rfl⟩)
      have : (a.e.id == s.e.id) = false := by simpa using hne
      simp only [List.map_cons, List.find?_cons, this]
      exact ih hnd.2 hs'

theorem storedSizes_fresh (t : T) (hid : uniqueIds t = true) (s : SplitE) (hs : s ∈ t.splits) :
    storedSizes (freshSizes t) s.e.id = (t.tipNames.length - s.below.length, s.below.length) := by
  have hnd : (t.splits.map (·.e.id)).Nodup := by simpa [uniqueIds] using hid
  unfold storedSizes freshSizes
  rw [find_fresh t.splits _ hnd s hs]

end Gotree.C07
