/-
  C08 — the glue of `gotree compare trees` (cmd/comparetrees.go RunE and init) and the call
  protocol of `tree.Compare` / `tree.CompareWeighted` around the loop body of Model/C08.lean
  (nil reference, `cpus < 1 → 1`, an item of the channel that already carries an error).

  The command is modelled as an interpreter of a TABLE of facts about its source
  (`Glue`): the flags declared in `init()`, and — in source order — every call of a
  `tree.*` function, every `fmt.Printf`, every assignment to a map cell, each with the
  path of flag tests (`comparetreeweighted`, `comparetreeidentical`, `comparetreerf`)
  under which it is reached.  `expectedGlue` is the table this model was written from;
  `harness/c08/extract.go` regenerates the same table from the working tree
  (`Gotree.Gen.C08Glue.glue`) and theorem `glue_check` of Proofs/C08.lean re-decides that
  they are equal.  The option priorities, the function called, its arguments, the header
  and the row formats of the model are all read from the table.  Core Lean only.
-/
import Gotree.Model.C08
import Gotree.Model.C08Zero

namespace Gotree.C08
open Gotree

/- ## the table -/

/-- a flag declared in `init()`: name, shorthand, package variable, default -/
structure FlagRow where
  name : String
  short : String
  var : String
  dflt : String
  deriving Repr, BEq, DecidableEq

/-- an argument expression: a sum of identifiers / field selections (`st.Tree1 + st.Tree2`), a cell
    of a map (`rfs[id]` ↦ `cell "rfs"`), or anything else (kept as text) -/
inductive Arg where
  | sum (l : List String)
  | cell (m : String)
  | other (s : String)
  deriving Repr, BEq, DecidableEq

/-- a piece of a `Printf` format: literal text, or a verb (`%d` ↦ `verb 'd'`) -/
inductive Piece where
  | lit (s : String)
  | verb (c : Char)
  deriving Repr, BEq, DecidableEq

/-- one event of `RunE`, in source order.  `kind`: `call` (a function of package tree; `text`
    = its name), `printf` (`text` = the format, `fmt` = the same cut into pieces), `assign`
    (`text` = the map written).  `path`: the flag tests on the way (variable, value it must have). -/
structure Event where
  path : List (String × Bool)
  kind : String
  text : String
  fmt : List Piece
  args : List Arg
  deriving Repr, BEq, DecidableEq

/-- facts about the library functions the model of Model/C08.lean follows: comparison
    operators (function, expression), calls with constant arguments (function, callee,
    arguments), the stats records sent (function, field := expression), constants -/
structure LibFacts where
  comparisons : List (String × String)
  calls : List (String × String × List String)
  records : List (String × List (String × String))
  consts : List (String × String)
  deriving Repr, BEq, DecidableEq

structure Glue where
  flags : List FlagRow
  events : List Event
  lib : LibFacts
  deriving Repr, BEq, DecidableEq

def cmpArgs : List Arg :=
  [.sum ["refTree"], .sum ["treechan"], .sum ["compareTips"], .sum ["comparetreeidentical"], .sum ["rootCpus"]]

def pW : String × Bool := ("comparetreeweighted", true)
def pNW : String × Bool := ("comparetreeweighted", false)
def pB : String × Bool := ("comparetreeidentical", true)
def pNB : String × Bool := ("comparetreeidentical", false)
def pRF : String × Bool := ("comparetreerf", true)
def pNRF : String × Bool := ("comparetreerf", false)

def fmtBinary : List Piece := [.verb 'd', .lit "\t", .verb 'v', .lit "\n"]
def fmtPlain : List Piece := [.verb 'd', .lit "\t", .verb 'd', .lit "\t", .verb 'd', .lit "\t", .verb 'd', .lit "\n"]

/-- the table the model was written from (cmd/comparetrees.go, tree/algo.go, tree/tree.go,
    tree/edge.go as of /repo 6a194b0) -/
def expectedGlue : Glue where
  flags := [⟨"tips", "l", "compareTips", "false"⟩, ⟨"binary", "", "comparetreeidentical", "false"⟩,
            ⟨"rf", "", "comparetreerf", "false"⟩, ⟨"weighted", "", "comparetreeweighted", "false"⟩]
  events := [
    ⟨[pW], "call", "CompareWeighted", [], cmpArgs⟩,
    ⟨[pW, pB], "printf", "tree\tidentical\n", [.lit "tree\tidentical\n"], []⟩,
    ⟨[pW, pNB], "printf", "tree\tweighted_RF\tKF\n", [.lit "tree\tweighted_RF\tKF\n"], []⟩,
    ⟨[pW, pB], "printf", "%d\t%v\n", fmtBinary, [.sum ["st.Id"], .sum ["st.Sametree"]]⟩,
    ⟨[pW, pNB], "printf", "%d\t%E\t%E\n", [.verb 'd', .lit "\t", .verb 'E', .lit "\t", .verb 'E', .lit "\n"],
      [.sum ["st.Id"], .sum ["wrf"], .other "math.Sqrt(kf)"]⟩,
    ⟨[pNW], "call", "Compare", [], cmpArgs⟩,
    ⟨[pNW, pB], "printf", "tree\tidentical\n", [.lit "tree\tidentical\n"], []⟩,
    ⟨[pNW, pB], "printf", "%d\t%v\n", fmtBinary, [.sum ["st.Id"], .sum ["st.Sametree"]]⟩,
    ⟨[pNW, pNB, pRF], "assign", "rfs", [], [.sum ["st.Tree1", "st.Tree2"]]⟩,
    ⟨[pNW, pNB, pRF], "printf", "%d\n", [.verb 'd', .lit "\n"], [.cell "rfs"]⟩,
    ⟨[pNW, pNB, pNRF], "printf", "tree\treference\tcommon\tcompared\n", [.lit "tree\treference\tcommon\tcompared\n"], []⟩,
    ⟨[pNW, pNB, pNRF], "printf", "%d\t%d\t%d\t%d\n", fmtPlain,
      [.sum ["st.Id"], .sum ["st.Tree1"], .sum ["st.Common"], .sum ["st.Tree2"]]⟩]
  lib := {
    comparisons := [
      ("Compare", "cpus < 1"), ("Compare", "cpu < cpus"), ("Compare", "total2 != total"),
      ("lengthOrZero", "e.Length() == NIL_LENGTH"),
      ("CompareWeighted", "cpus < 1"), ("CompareWeighted", "cpu < cpus"), ("CompareWeighted", "refLen != compLen"),
      ("CompareTipIndexes", "len(t.tipIndex) == 0"), ("CompareTipIndexes", "len(t2.tipIndex) == 0"),
      ("CompareTipIndexes", "len(t.tipIndex) != len(t2.tipIndex)"),
      ("FindEdge", "e.Right().Tip() != e2.Right().Tip()"), ("FindEdge", "e.HashCode() != e2.HashCode()")]
    calls := [
      ("Compare", "NewEdgeIndex", ["0.75"]),
      ("Compare", "PutEdgeValue", ["e", "i", "e.Length()"]),
      ("Compare", "Value", ["e2"]),
      ("CompareWeighted", "NewEdgeIndex", ["0.75"]),
      ("CompareWeighted", "PutEdgeValue", ["e", "i", "lengthOrZero(e)"]),
      ("CompareWeighted", "NewEdgeIndex", ["0.75"]),
      ("CompareWeighted", "PutEdgeValue", ["e", "i", "lengthOrZero(e)"]),
      ("CompareWeighted", "Value", ["compEdge"]),
      ("CompareWeighted", "Value", ["refEdge"])]
    records := [
      ("Compare", [("Id", "treeV.Id"), ("Tree1", "total - common"), ("Tree2", "total2 - common"),
                   ("Common", "common"), ("Sametree", "sametree"), ("Err", "inerr")]),
      ("CompareWeighted", [("Id", "treeV.Id"), ("Tree1", "Ref"), ("Tree2", "Comp"),
                           ("Common", "Common"), ("Sametree", "sametree"), ("Err", "inerr")])]
    consts := [("NIL_LENGTH", "-1.0")] }

/- ## the interpreter -/

/-- the values of the four flags after parsing -/
structure Flags where
  tips : Bool
  binary : Bool
  rf : Bool
  weighted : Bool
  deriving Repr, BEq, DecidableEq

/-- value of a package-level flag variable -/
def Flags.var (f : Flags) (v : String) : Option Bool :=
  if v == "compareTips" then some f.tips
  else if v == "comparetreeidentical" then some f.binary
  else if v == "comparetreerf" then some f.rf
  else if v == "comparetreeweighted" then some f.weighted
  else none

/-- is the event reached under these flags -/
def active (f : Flags) (e : Event) : Bool := e.path.all fun p => f.var p.1 == some p.2

def reached (g : Glue) (f : Flags) : List Event := g.events.filter (active f)

/-- the library call made: (function, tips argument, identical-only argument); `none` when the
    table does not determine one -/
def libCall (g : Glue) (f : Flags) : Option (String × Bool × Bool) :=
  match (reached g f).filter (·.kind == "call") with
  | [e] =>
    (match e.args with
     | [_, _, .sum [a], .sum [b], _] =>
       (match f.var a, f.var b with
        | some x, some y => some (e.text, x, y)
        | _, _ => none)
     | _ => none)
  | _ => none

/-- the header printed before the rows (a `printf` without argument), if any -/
def headerOf (g : Glue) (f : Flags) : List String :=
  ((reached g f).filter fun e => e.kind == "printf" && e.args.isEmpty).map (·.text)

/-- the `printf` of a row (the one with arguments) -/
def rowEvent (g : Glue) (f : Flags) : Option Event :=
  ((reached g f).filter fun e => e.kind == "printf" && !e.args.isEmpty).head?

/-- are the rows printed after the loop over the records (through a map filled by an
    `assign`): then nothing is printed when some record carries an error -/
def deferred (g : Glue) (f : Flags) : Bool := (reached g f).any (·.kind == "assign")

/-- a printable value -/
inductive Val where
  | int (i : Int)
  | bool (b : Bool)
  deriving Repr, BEq, DecidableEq

/-- an unweighted record with its id -/
structure Rec where
  id : Nat
  tree1 : Int
  tree2 : Int
  common : Int
  same : Bool
  deriving Repr, BEq, DecidableEq

def atom (r : Rec) (a : String) : Option Int :=
  if a == "st.Id" then some r.id
  else if a == "st.Tree1" then some r.tree1
  else if a == "st.Tree2" then some r.tree2
  else if a == "st.Common" then some r.common
  else none

def sumAtoms (r : Rec) (l : List String) : Option Val := (l.mapM (atom r)).map fun x => .int x.sum

/-- value of an argument expression of a row: a field of the record, a sum of fields, or a map
    cell written by an `assign` event reached under the same flags -/
def evalArg (evs : List Event) (r : Rec) : Arg → Option Val
  | .sum ["st.Sametree"] => some (.bool r.same)
  | .sum l => sumAtoms r l
  | .cell m =>
    (match evs.find? fun e => e.kind == "assign" && e.text == m with
     | some e => (match e.args with | [.sum l] => sumAtoms r l | _ => none)
     | none => none)
  | .other _ => none

/-- `fmt.Sprintf` for the verbs `%d` and `%v` (anything else: `none`), as the list of its pieces -/
def sprintfP : List Piece → List Val → Option (List String)
  | [], [] => some []
  | [], _ :: _ => none
  | .lit s :: ps, vs => (sprintfP ps vs).map (s :: ·)
  | .verb _ :: _, [] => none
  | .verb c :: ps, v :: vs =>
    match (if c == 'd' then (match v with | .int i => some (toString i) | _ => none)
           else if c == 'v' then (match v with | .int i => some (toString i) | .bool b => some (toString b))
           else none) with
    | some s => (sprintfP ps vs).map (s :: ·)
    | none => none

def sprintf (ps : List Piece) (vs : List Val) : Option String := (sprintfP ps vs).map String.join

/-- the text of one row for an (unweighted-shaped) record; `none`: the row has a float verb -/
def rowText (g : Glue) (f : Flags) (r : Rec) : Option String :=
  match rowEvent g f with
  | some e => (e.args.mapM (evalArg (reached g f) r)).bind (sprintf e.fmt)
  | none => none

/-- the record of the compared tree number `id`, as the library call selected by the table
    delivers it (`compareWeighted0` for the weighted flag: only `Sametree` is printable) -/
def recOf (g : Glue) (f : Flags) (r c : T) (id : Nat) : Option (Res Rec) :=
  match libCall g f with
  | some (fn, tips, sc) =>
    if fn == "Compare" then
      some (match compare r c tips sc with
        | .ok s => .ok ⟨id, s.tree1, s.tree2, s.common, s.same⟩
        | .err => .err
        | .refErr => .refErr)
    else if fn == "CompareWeighted" then
      some (match compareWeighted0 r c tips sc with
        | .ok w => .ok ⟨id, 0, 0, 0, w.same⟩
        | .err => .err
        | .refErr => .refErr)
    else none
  | none => none

/-- rows of the records up to the first one that carries an error: (rows, failed) -/
def rowsUntilErr (g : Glue) (f : Flags) (r : T) : List T → Nat → Option (List String × Bool)
  | [], _ => some ([], false)
  | c :: cs, id =>
    match recOf g f r c id with
    | some (.ok rc) =>
      (match rowText g f rc, rowsUntilErr g f r cs (id + 1) with
       | some t, some (ts, failed) => some (t :: ts, failed)
       | _, _ => none)
    | some _ => some ([], true)
    | none => none

/-- What `gotree compare trees -t 1` writes on its standard output, and whether it fails:
    the header, then one row per compared tree in file order up to the first tree that is
    rejected; with rows deferred to the end (`--rf`) an error leaves the header alone.
    `none`: the mode prints floats (`--weighted` without `--binary`), not modelled as text. -/
def cliOutput (g : Glue) (f : Flags) (r : T) (cs : List T) : Option (String × Bool) :=
  match rowsUntilErr g f r cs 0 with
  | some (rows, failed) =>
    let rows := if failed && deferred g f then [] else rows
    some (String.join (headerOf g f ++ rows), failed)
  | none => none

/-- the whole of RunE: `if intree2file == "none"` (no `-c`) the command fails before reading
    anything; otherwise `cliOutput` on the trees read -/
def cliRun (g : Glue) (f : Flags) (r : T) (compared : Option (List T)) : Option (String × Bool) :=
  match compared with
  | none => some ("", true)
  | some cs => cliOutput g f r cs

/- ## what the Spec prescribes for the text (used by the theorems and the driver) -/

/-- the record the Spec prescribes for the compared tree number `id` -/
def specRec (r c : T) (tips : Bool) (id : Nat) : Rec :=
  ⟨id, (diffL (S tips r) (S tips c)).length, (diffL (S tips c) (S tips r)).length,
   (interL (S tips r) (S tips c)).length, sameSplits r c tips⟩

/-- `id⇥reference⇥common⇥compared` -/
def plainLine (rc : Rec) : String :=
  String.join [toString (rc.id : Int), "\t", toString rc.tree1, "\t", toString rc.common, "\t", toString rc.tree2, "\n"]

/-- the Robinson-Foulds distance alone -/
def rfLine (rc : Rec) : String := String.join [toString (rc.tree1 + rc.tree2), "\n"]

/-- `id⇥true|false` (`--binary`) -/
def binaryLine (rc : Rec) : String := String.join [toString (rc.id : Int), "\t", toString rc.same, "\n"]

/-- rows of the Spec for the trees `cs` numbered from `id` on -/
def specRows (line : Rec → String) (r : T) (tips : Bool) : List T → Nat → List String
  | [], _ => []
  | c :: cs, id => line (specRec r c tips id) :: specRows line r tips cs (id + 1)

/-- rows of the Spec for `--weighted --binary`: the weighted identity (absent length = 0) -/
def specRowsW (r : T) (tips : Bool) : List T → Nat → List String
  | [], _ => []
  | c :: cs, id => binaryLine ⟨id, 0, 0, 0, wSame0 r c tips⟩ :: specRowsW r tips cs (id + 1)

/-- no flag but possibly `--tips` -/
def plainF (tips : Bool) : Flags := ⟨tips, false, false, false⟩
/-- `--rf` -/
def rfF (tips : Bool) : Flags := ⟨tips, false, true, false⟩

/-- the mode the documentation of the command gives for a combination of flags: `--binary`
    (alone or with `--weighted`) first, then `--weighted`, then `--rf` -/
def docMode (f : Flags) : String :=
  if f.binary then (if f.weighted then "wbinary" else "binary")
  else if f.weighted then "weighted" else if f.rf then "rf" else "plain"

/- ## the call protocol of `Compare` / `CompareWeighted` -/

/-- number of worker goroutines started: `if cpus < 1 { cpus = 1 }` -/
def workersOf (cpus : Int) : Nat := if cpus < 1 then 1 else cpus.toNat

/-- an item of the input channel: a tree, or the error of the reader (`Trees.Err`, no tree) -/
inductive Item where
  | tree (t : T)
  | readErr
  deriving Repr

/-- the loop body of `Compare` for one item: `inerr = treeV.Err; if inerr == nil { … }`, the
    record of a failed item carrying `total - 0, 0 - 0, 0, false` -/
def compareItem (r : T) (it : Item) (tips sc : Bool) : Res Stats :=
  match it with
  | .readErr => if !reinitOk r then .refErr else .err
  | .tree c => compare r c tips sc

def compareWeightedItem (r : T) (it : Item) (tips sc : Bool) : Res WStats :=
  match it with
  | .readErr => if !reinitOk r then .refErr else .err
  | .tree c => compareWeighted0 r c tips sc

/-- `Compare(refTree, items, tips, sc, cpus)` as far as a caller that drains the channel can
    tell (the schedules are C11's): `none` = the function returned an error (nil or
    unindexable reference), otherwise one record per item, whatever `cpus` -/
def compareCall (ref : Option T) (items : List Item) (tips sc : Bool) (cpus : Int) : Option (List (Res Stats)) :=
  match ref with
  | none => none
  | some r =>
    if !reinitOk r then none
    else if workersOf cpus == 0 then some [] else some (items.map fun it => compareItem r it tips sc)

end Gotree.C08
