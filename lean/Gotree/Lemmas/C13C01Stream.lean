/-
  C13 ∘ C01 — the two STREAM laws of `NewickStreamLaws` for C01's parser model (`Gotree.Newick.parse`):
  the parser stops at the first ';' (what follows is not looked at), and skips white space that comes
  right after a delimiter.
-/
import Gotree.Lemmas.C13C01

namespace Gotree.C13
open Gotree
open Gotree.Newick

/-- `x` and `y` are the same text up to and including a first ';' (no '[' before it); `x` goes on with
    `rest`, `y` ends there -/
def PR (rest x y : List Char) : Prop :=
  ∃ r, (∀ c ∈ r, c ≠ ';' ∧ c ≠ '[') ∧ x = r ++ ';' :: rest ∧ y = r ++ [';']

theorem takeWhile_semi (p : Char → Bool) (hp : p ';' = false) (r : List Char) (hr : ∀ c ∈ r, c ≠ ';' ∧ c ≠ '[')
    (tl : List Char) :
    ∃ r', (∀ c ∈ r', c ≠ ';' ∧ c ≠ '[') ∧ (r ++ ';' :: tl).takeWhile p = r.takeWhile p ∧
      (r ++ ';' :: tl).dropWhile p = r' ++ ';' :: tl ∧ r.dropWhile p = r' := by
  induction r with
  | nil => exact ⟨[], by simp, by simp [hp], by simp [hp], rfl⟩
  | cons c r ih =>
    obtain ⟨r', h1, h2, h3, h4⟩ := ih (fun x hx => hr x (by simp [hx]))
    by_cases hc : p c = true
    · exact ⟨r', h1, by simp [List.takeWhile_cons, hc, h2], by simp [List.dropWhile_cons, hc, h3],
        by simp [List.dropWhile_cons, hc, h4]⟩
    · have hc' : p c = false := by simpa using hc
      exact ⟨c :: r, hr, by simp [List.takeWhile_cons, hc'], by simp [List.dropWhile_cons, hc'],
        by simp [List.dropWhile_cons, hc']⟩

/-- one `scan` on related inputs: same token and literal; the remainders are related, or the token was
    the ';' itself -/
theorem scan_PR (C : Codec) (rest x y : List Char) (h : PR rest x y) :
    (scan C false x).1 = (scan C false y).1 ∧ (scan C false x).2.1 = (scan C false y).2.1 ∧
    (((scan C false x).1 = .eot ∧ (scan C false x).2.2 = rest ∧ (scan C false y).2.2 = []) ∨
     ((scan C false x).1 ≠ .eot ∧ (scan C false x).1 ≠ .eof ∧ (scan C false x).1 ≠ .openbrack ∧
       PR rest (scan C false x).2.2 (scan C false y).2.2)) := by
  obtain ⟨r, hr, rfl, rfl⟩ := h
  cases r with
  | nil => simp [scan, isWhitespace]
  | cons c r =>
    have hc := hr c (by simp)
    have hr' : ∀ x ∈ r, x ≠ ';' ∧ x ≠ '[' := fun x hx => hr x (by simp [hx])
    obtain ⟨w1, hw1, hw2, hw3, hw4⟩ := takeWhile_semi isWhitespace (by decide) r hr' rest
    obtain ⟨v1, hv1, hv2, hv3, hv4⟩ := takeWhile_semi isWhitespace (by decide) r hr' []
    obtain ⟨i1, hi1, hi2, hi3, hi4⟩ := takeWhile_semi (isIdent false) (by decide) r hr' rest
    obtain ⟨j1, hj1, hj2, hj3, hj4⟩ := takeWhile_semi (isIdent false) (by decide) r hr' []
    have e1 : (c == ';') = false := by simpa using hc.1
    have e2 : (c == '[') = false := by simpa using hc.2
    simp only [List.cons_append, scan, e1, e2, Bool.false_and, Bool.false_eq_true, if_false, hw2, hw3, hv2, hv3,
      hi2, hi3, hj2, hj3]
    have pw : PR rest (w1 ++ ';' :: rest) (v1 ++ [';']) := ⟨w1, hw1, rfl, by rw [← hv4, hw4]⟩
    have pi : PR rest (i1 ++ ';' :: rest) (j1 ++ [';']) := ⟨i1, hi1, rfl, by rw [← hj4, hi4]⟩
    have pr : PR rest (r ++ ';' :: rest) (r ++ [';']) := ⟨r, hr', rfl, rfl⟩
    split
    · exact ⟨rfl, rfl, Or.inr ⟨by simp, by simp, by simp, pw⟩⟩
    · repeat' split
      all_goals first
        | exact ⟨rfl, rfl, Or.inr ⟨by simp, by simp, by simp, pr⟩⟩
        | exact ⟨rfl, rfl, Or.inr ⟨by simp, by simp, by simp, pi⟩⟩
        | (refine ⟨rfl, rfl, Or.inr ⟨?_, ?_, ?_, pi⟩⟩ <;> split <;> simp)

theorem skipWs_PR (C : Codec) (rest x y : List Char) (h : PR rest x y) : PR rest (skipWs C x) (skipWs C y) := by
  obtain ⟨h1, _, h3⟩ := scan_PR C rest x y h
  unfold skipWs
  rw [← h1]
  split
  · rename_i hw
    rcases h3 with ⟨he, _, _⟩ | ⟨_, _, _, hp⟩
    · rw [hw] at he; cases he
    · exact hp
  · exact h

theorem scanIW_PR (C : Codec) (rest x y : List Char) (h : PR rest x y) :
    (scanIW C x).1 = (scanIW C y).1 ∧ (scanIW C x).2.1 = (scanIW C y).2.1 ∧
    (((scanIW C x).1 = .eot ∧ (scanIW C x).2.2 = rest ∧ (scanIW C y).2.2 = []) ∨
     ((scanIW C x).1 ≠ .eot ∧ (scanIW C x).1 ≠ .eof ∧ (scanIW C x).1 ≠ .openbrack ∧
       PR rest (scanIW C x).2.2 (scanIW C y).2.2)) :=
  scan_PR C rest _ _ (skipWs_PR C rest x y h)

/-- for the tokens that do not look at the input, one turn of the loop does the same on any two inputs -/
theorem iter_indep (C : Codec) (st : PState) (tok : Tok) (lit p1 r1 p2 r2 : List Char)
    (h1 : tok ≠ .startlen) (h2 : tok ≠ .openbrack) (h3 : tok ≠ .eot) (h4 : tok ≠ .eof) :
    (∃ st', iter C st tok lit p1 r1 = .cont st' r1 ∧ iter C st tok lit p2 r2 = .cont st' r2) ∨
    (∃ o, iter C st tok lit p1 r1 = .stop o ∧ iter C st tok lit p2 r2 = .stop o ∧ ∀ q, o ≠ .ok q) := by
  cases tok with
  | startlen => exact absurd rfl h1
  | openbrack => exact absurd rfl h2
  | eot => exact absurd rfl h3
  | eof => exact absurd rfl h4
  | openpar =>
    simp only [iter]
    split
    · split
      · exact Or.inr ⟨_, rfl, rfl, by intro q; simp⟩
      · exact Or.inl ⟨_, rfl, rfl⟩
    · split
      · exact Or.inr ⟨_, rfl, rfl, by intro q; simp⟩
      · exact Or.inl ⟨_, rfl, rfl⟩
  | closepar =>
    simp only [iter]
    split
    · exact Or.inr ⟨_, rfl, rfl, by intro q; simp⟩
    · exact Or.inl ⟨_, rfl, rfl⟩
  | closebrack => exact Or.inr ⟨_, rfl, rfl, by intro q; simp⟩
  | newsibling =>
    simp only [iter]
    split
    · exact Or.inr ⟨_, rfl, rfl, by intro q; simp⟩
    · exact Or.inl ⟨_, rfl, rfl⟩
  | ws => exact Or.inl ⟨_, rfl, rfl⟩
  | illegal => exact Or.inl ⟨_, rfl, rfl⟩
  | ident =>
    simp only [iter]
    repeat' split
    all_goals first
      | exact Or.inl ⟨_, rfl, rfl⟩
      | exact Or.inr ⟨_, rfl, rfl, by intro q; simp⟩
  | numeric =>
    simp only [iter]
    repeat' split
    all_goals first
      | exact Or.inl ⟨_, rfl, rfl⟩
      | exact Or.inr ⟨_, rfl, rfl, by intro q; simp⟩

theorem iter_startlen_PR (C : Codec) (st : PState) (lit p1 p2 rest rx ry : List Char) (h : PR rest rx ry) :
    (∃ st' rx' ry', iter C st .startlen lit p1 rx = .cont st' rx' ∧ iter C st .startlen lit p2 ry = .cont st' ry' ∧
        PR rest rx' ry') ∨
    (∃ o, iter C st .startlen lit p1 rx = .stop o ∧ iter C st .startlen lit p2 ry = .stop o ∧ ∀ q, o ≠ .ok q) := by
  obtain ⟨e1, e2, e3⟩ := scanIW_PR C rest rx ry h
  simp only [iter]
  rw [← e1, ← e2]
  by_cases hn : (scanIW C rx).1 = .numeric
  · have hp : PR rest (scanIW C rx).2.2 (scanIW C ry).2.2 := by
      rcases e3 with ⟨he, _, _⟩ | ⟨_, _, _, hp⟩
      · rw [hn] at he; cases he
      · exact hp
    simp only [hn, ne_eq, not_true_eq_false, if_false]
    repeat' split
    all_goals first
      | exact Or.inl ⟨_, _, _, rfl, rfl, hp⟩
      | exact Or.inr ⟨_, rfl, rfl, by intro q; simp⟩
  · simp only [ne_eq, hn, not_false_eq_true, if_true]
    exact Or.inr ⟨_, rfl, rfl, by intro q; simp⟩

/-- outcomes of the loop on related inputs: the same failure, or the same state at related positions -/
def OR (rest : List Char) (ox oy : Outcome (PState × List Char)) : Prop :=
  (ox = oy ∧ ∀ q, ox ≠ .ok q) ∨ ∃ st' px py, ox = .ok (st', px) ∧ oy = .ok (st', py) ∧ PR rest px py

theorem run_PR (C : Codec) (rest : List Char) : ∀ (n : Nat) (x y : List Char) (st : PState),
    x.length ≤ n → PR rest x y → OR rest (run C st x) (run C st y) := by
  intro n
  induction n with
  | zero =>
    intro x y st hlen h
    obtain ⟨r, _, rfl, _⟩ := h
    simp at hlen
  | succ n ih =>
    intro x y st hlen h
    obtain ⟨e1, e2, e3⟩ := scanIW_PR C rest x y h
    have hsk := skipWs_PR C rest x y h
    rcases e3 with ⟨he, _, _⟩ | ⟨hne, hnf, hnb, hp⟩
    · -- the ';' itself: the loop stops
      have hx : iter C st (scanIW C x).1 (scanIW C x).2.1 (skipWs C x) (scanIW C x).2.2 =
          iter C st .eot (scanIW C x).2.1 (skipWs C x) (scanIW C x).2.2 := by rw [he]
      have hy : iter C st (scanIW C y).1 (scanIW C y).2.1 (skipWs C y) (scanIW C y).2.2 =
          iter C st .eot (scanIW C y).2.1 (skipWs C y) (scanIW C y).2.2 := by rw [← e1, he]
      have hE : ∀ lit pos r, iter C st .eot lit pos r =
          (if st.level != 0 then Iter.stop (.err "Mismatched parenthesis at ;")
           else if st.stale then Iter.stop (.err "strconv.ParseFloat: invalid syntax")
           else Iter.stop (.ok ({ st with prevTok := some .eot }, pos))) := by
        intro lit pos r; simp only [iter]
      rw [hE] at hx hy
      by_cases hl : (st.level != 0) = true
      · simp only [hl, if_true] at hx hy
        rw [run_stop C st x _ hx, run_stop C st y _ hy]
        exact Or.inl ⟨rfl, by intro q; simp⟩
      · by_cases hs : st.stale = true
        · simp only [hl, hs, if_true, Bool.false_eq_true, if_false] at hx hy
          rw [run_stop C st x _ hx, run_stop C st y _ hy]
          exact Or.inl ⟨rfl, by intro q; simp⟩
        · simp only [hl, hs, Bool.false_eq_true, if_false] at hx hy
          rw [run_stop C st x _ hx, run_stop C st y _ hy]
          exact Or.inr ⟨_, _, _, rfl, rfl, hsk⟩
    · -- another token
      have hlt := scanIW_lt C x hnf
      by_cases hsl : (scanIW C x).1 = .startlen
      · rcases iter_startlen_PR C st (scanIW C x).2.1 (skipWs C x) (skipWs C y) rest _ _ hp with
          ⟨st', rx', ry', h1, h2, hp'⟩ | ⟨o, h1, h2, ho⟩
        · have hx : iter C st (scanIW C x).1 (scanIW C x).2.1 (skipWs C x) (scanIW C x).2.2 = .cont st' rx' := by
            rw [hsl]; exact h1
          have hy : iter C st (scanIW C y).1 (scanIW C y).2.1 (skipWs C y) (scanIW C y).2.2 = .cont st' ry' := by
            rw [← e1, ← e2, hsl]; exact h2
          rw [run_cont C st x st' rx' hx hnf, run_cont C st y st' ry' hy (by rw [← e1]; exact hnf)]
          have hle := iter_le C st _ _ _ _ st' rx' hx
          exact ih rx' ry' st' (by omega) hp'
        · have hx : iter C st (scanIW C x).1 (scanIW C x).2.1 (skipWs C x) (scanIW C x).2.2 = .stop o := by
            rw [hsl]; exact h1
          have hy : iter C st (scanIW C y).1 (scanIW C y).2.1 (skipWs C y) (scanIW C y).2.2 = .stop o := by
            rw [← e1, ← e2, hsl]; exact h2
          rw [run_stop C st x _ hx, run_stop C st y _ hy]
          exact Or.inl ⟨rfl, ho⟩
      · rcases iter_indep C st (scanIW C x).1 (scanIW C x).2.1 (skipWs C x) (scanIW C x).2.2 (skipWs C y)
            (scanIW C y).2.2 hsl hnb hne hnf with ⟨st', h1, h2⟩ | ⟨o, h1, h2, ho⟩
        · have hy : iter C st (scanIW C y).1 (scanIW C y).2.1 (skipWs C y) (scanIW C y).2.2 = .cont st' (scanIW C y).2.2 := by
            rw [← e1, ← e2]; exact h2
          rw [run_cont C st x st' _ h1 hnf, run_cont C st y st' _ hy (by rw [← e1]; exact hnf)]
          exact ih _ _ st' (by omega) hp
        · have hy : iter C st (scanIW C y).1 (scanIW C y).2.1 (skipWs C y) (scanIW C y).2.2 = .stop o := by
            rw [← e1, ← e2]; exact h2
          rw [run_stop C st x _ h1, run_stop C st y _ hy]
          exact Or.inl ⟨rfl, ho⟩

/-- STREAM LAW 1 for C01's parser: it stops at the first ';' (no comment before it) -/
theorem c01_parse_prefix (C : Codec) (a rest : List Char) (ha : ∀ c ∈ a, c ≠ ';' ∧ c ≠ '[') :
    Newick.parse C (a ++ ';' :: rest) = Newick.parse C (a ++ [';']) := by
  have h : PR rest (a ++ ';' :: rest) (a ++ [';']) := ⟨a, ha, rfl, rfl⟩
  obtain ⟨e1, _, e3⟩ := scanIW_PR C rest _ _ h
  have hnb : (scanIW C (a ++ ';' :: rest)).1 ≠ .openbrack := by
    rcases e3 with ⟨he, _, _⟩ | ⟨_, _, hb, _⟩
    · rw [he]; simp
    · exact hb
  have hnb' : (scanIW C (a ++ [';'])).1 ≠ .openbrack := by rw [← e1]; exact hnb
  have hsk := skipWs_PR C rest _ _ h
  have hrun := run_PR C rest _ _ _ {} (Nat.le_refl _) hsk
  unfold Newick.parse
  simp only [hnb, hnb', if_false, e1]
  split
  · rfl
  · rcases hrun with ⟨heq, hno⟩ | ⟨st', px, py, hx, hy, hp⟩
    · rw [← heq]
    · rw [hx, hy]
      obtain ⟨f1, _, _⟩ := scanIW_PR C rest px py hp
      simp only [f1]

/- ## STREAM LAW 2: white space after a delimiter -/

theorem skipWs_eq_dropWhile (C : Codec) (x : List Char) : skipWs C x = x.dropWhile isWhitespace := by
  cases x with
  | nil => simp [skipWs, scan]
  | cons c r =>
    by_cases hc : isWhitespace c = true
    · simp [skipWs, scan, hc, List.dropWhile_cons]
    · have hc' : isWhitespace c = false := by simpa using hc
      have : (scan C false (c :: r)).1 ≠ .ws := by
        simp only [scan, hc', Bool.false_eq_true, if_false]
        repeat' split
        all_goals simp
      simp [skipWs, this, List.dropWhile_cons, hc']

theorem dropWhile_allws (W b : List Char) (h : ∀ c ∈ W, isWhitespace c = true) :
    (W ++ b).dropWhile isWhitespace = b.dropWhile isWhitespace := by
  induction W with
  | nil => rfl
  | cons c W ih => simp [List.dropWhile_cons, h c (by simp), ih (fun x hx => h x (by simp [hx]))]

/-- same text, up to the white space in front -/
def Term (b x y : List Char) : Prop :=
  ∃ W V, (∀ c ∈ W, isWhitespace c = true) ∧ (∀ c ∈ V, isWhitespace c = true) ∧ x = W ++ b ∧ y = V ++ b

theorem term_skipWs (C : Codec) (b x y : List Char) (h : Term b x y) : skipWs C x = skipWs C y := by
  obtain ⟨W, V, hW, hV, rfl, rfl⟩ := h
  rw [skipWs_eq_dropWhile, skipWs_eq_dropWhile, dropWhile_allws W b hW, dropWhile_allws V b hV]

theorem scanIW_congr (C : Codec) (x y : List Char) (h : skipWs C x = skipWs C y) : scanIW C x = scanIW C y := by
  simp only [scanIW, h]

theorem run_congr (C : Codec) (st : PState) (x y : List Char) (h : skipWs C x = skipWs C y) :
    run C st x = run C st y := by
  have hs := scanIW_congr C x y h
  cases hi : iter C st (scanIW C x).1 (scanIW C x).2.1 (skipWs C x) (scanIW C x).2.2 with
  | stop o =>
    rw [run_stop C st x o hi, run_stop C st y o (by rw [← hs, ← h]; exact hi)]
  | cont st' r' =>
    by_cases hne : (scanIW C x).1 = .eof
    · rw [hne] at hi
      simp only [iter] at hi
      split at hi <;> cases hi
    · rw [run_cont C st x st' r' hi hne, run_cont C st y st' r' (by rw [← hs, ← h]; exact hi) (by rw [← hs]; exact hne)]

def isDelimC (d : Char) : Bool := d == '(' || d == ')' || d == ',' || d == ':'

/-- `x` and `y` agree up to a delimiter `d`, after which they have different amounts of white space and
    then the same text `b` -/
def WR (d : Char) (W V b x y : List Char) : Prop :=
  ∃ pre, (∀ c ∈ pre, c ≠ ';' ∧ c ≠ '[') ∧ x = pre ++ d :: (W ++ b) ∧ y = pre ++ d :: (V ++ b)

theorem takeWhile_stop (p : Char → Bool) (d : Char) (hp : p d = false) (r : List Char) (tl : List Char) :
    ∃ r', (∀ c ∈ r', c ∈ r) ∧ (r ++ d :: tl).takeWhile p = r.takeWhile p ∧
      (r ++ d :: tl).dropWhile p = r' ++ d :: tl ∧ r.dropWhile p = r' := by
  induction r with
  | nil => exact ⟨[], by simp, by simp [hp], by simp [hp], rfl⟩
  | cons c r ih =>
    obtain ⟨r', h1, h2, h3, h4⟩ := ih
    by_cases hc : p c = true
    · exact ⟨r', fun x hx => by simp [h1 x hx], by simp [hc, h2], by simp [hc, h3], by simp [hc, h4]⟩
    · have hc' : p c = false := by simpa using hc
      exact ⟨c :: r, fun x hx => hx, by simp [hc'], by simp [hc'], by simp [hc']⟩

theorem scan_WR (C : Codec) (d : Char) (hd : isDelimC d = true) (W V b x y : List Char)
    (hW : ∀ c ∈ W, isWhitespace c = true) (hV : ∀ c ∈ V, isWhitespace c = true) (h : WR d W V b x y) :
    (scan C false x).1 = (scan C false y).1 ∧ (scan C false x).2.1 = (scan C false y).2.1 ∧
    (scan C false x).1 ≠ .eot ∧ (scan C false x).1 ≠ .eof ∧ (scan C false x).1 ≠ .openbrack ∧
    (WR d W V b (scan C false x).2.2 (scan C false y).2.2 ∨ Term b (scan C false x).2.2 (scan C false y).2.2) := by
  obtain ⟨pre, hpre, rfl, rfl⟩ := h
  have hdw : isWhitespace d = false := by
    simp only [isDelimC, Bool.or_eq_true, beq_iff_eq] at hd
    rcases hd with ((h | h) | h) | h <;> (rw [h]; decide)
  have hdi : isIdent false d = false := by
    simp only [isDelimC, Bool.or_eq_true, beq_iff_eq] at hd
    rcases hd with ((h | h) | h) | h <;> (rw [h]; decide)
  cases pre with
  | nil =>
    simp only [isDelimC, Bool.or_eq_true, beq_iff_eq] at hd
    have ht : Term b (W ++ b) (V ++ b) := ⟨W, V, hW, hV, rfl, rfl⟩
    rcases hd with ((h | h) | h) | h <;> (subst h; simp [scan, isWhitespace, ht])
  | cons c r =>
    have hc := hpre c (by simp)
    have hr' : ∀ x ∈ r, x ≠ ';' ∧ x ≠ '[' := fun x hx => hpre x (by simp [hx])
    obtain ⟨w1, hw1, hw2, hw3, hw4⟩ := takeWhile_stop isWhitespace d hdw r (W ++ b)
    obtain ⟨v1, hv1, hv2, hv3, hv4⟩ := takeWhile_stop isWhitespace d hdw r (V ++ b)
    obtain ⟨i1, hi1, hi2, hi3, hi4⟩ := takeWhile_stop (isIdent false) d hdi r (W ++ b)
    obtain ⟨j1, hj1, hj2, hj3, hj4⟩ := takeWhile_stop (isIdent false) d hdi r (V ++ b)
    have e1 : (c == ';') = false := by simpa using hc.1
    have e2 : (c == '[') = false := by simpa using hc.2
    simp only [List.cons_append, scan, e1, e2, Bool.false_and, Bool.false_eq_true, if_false, hw2, hw3, hv2, hv3,
      hi2, hi3, hj2, hj3]
    have pw : WR d W V b (w1 ++ d :: (W ++ b)) (v1 ++ d :: (V ++ b)) :=
      ⟨w1, fun x hx => hr' x (hw1 x hx), rfl, by rw [← hv4, hw4]⟩
    have pi : WR d W V b (i1 ++ d :: (W ++ b)) (j1 ++ d :: (V ++ b)) :=
      ⟨i1, fun x hx => hr' x (hi1 x hx), rfl, by rw [← hj4, hi4]⟩
    have pr : WR d W V b (r ++ d :: (W ++ b)) (r ++ d :: (V ++ b)) := ⟨r, hr', rfl, rfl⟩
    split
    · exact ⟨rfl, rfl, by simp, by simp, by simp, Or.inl pw⟩
    · repeat' split
      all_goals first
        | exact ⟨rfl, rfl, by simp, by simp, by simp, Or.inl pr⟩
        | exact ⟨rfl, rfl, by simp, by simp, by simp, Or.inl pi⟩
        | (refine ⟨rfl, rfl, ?_, ?_, ?_, Or.inl pi⟩ <;> split <;> simp)

theorem skipWs_WR (C : Codec) (d : Char) (hd : isDelimC d = true) (W V b x y : List Char) (h : WR d W V b x y) :
    WR d W V b (skipWs C x) (skipWs C y) := by
  obtain ⟨pre, hpre, rfl, rfl⟩ := h
  have hdw : isWhitespace d = false := by
    simp only [isDelimC, Bool.or_eq_true, beq_iff_eq] at hd
    rcases hd with ((h | h) | h) | h <;> (rw [h]; decide)
  obtain ⟨w1, hw1, _, hw3, hw4⟩ := takeWhile_stop isWhitespace d hdw pre (W ++ b)
  obtain ⟨v1, _, _, hv3, hv4⟩ := takeWhile_stop isWhitespace d hdw pre (V ++ b)
  rw [skipWs_eq_dropWhile, skipWs_eq_dropWhile, hw3, hv3]
  exact ⟨w1, fun c hc => hpre c (hw1 c hc), rfl, by rw [← hv4, hw4]⟩

/-- the `:` turn of the loop only looks at the input through `scanIW` -/
theorem iter_startlen_gen (C : Codec) (st : PState) (lit p1 p2 rx ry : List Char)
    (e1 : (scanIW C rx).1 = (scanIW C ry).1) (e2 : (scanIW C rx).2.1 = (scanIW C ry).2.1) :
    (∃ st', iter C st .startlen lit p1 rx = .cont st' (scanIW C rx).2.2 ∧
        iter C st .startlen lit p2 ry = .cont st' (scanIW C ry).2.2) ∨
    (∃ o, iter C st .startlen lit p1 rx = .stop o ∧ iter C st .startlen lit p2 ry = .stop o) := by
  simp only [iter]
  rw [← e1, ← e2]
  repeat' split
  all_goals first
    | exact Or.inl ⟨_, rfl, rfl⟩
    | exact Or.inr ⟨_, rfl, rfl⟩

theorem run_WR (C : Codec) (d : Char) (hd : isDelimC d = true) (W V b : List Char)
    (hW : ∀ c ∈ W, isWhitespace c = true) (hV : ∀ c ∈ V, isWhitespace c = true) :
    ∀ (n : Nat) (x y : List Char) (st : PState), x.length ≤ n → WR d W V b x y → run C st x = run C st y := by
  intro n
  induction n with
  | zero =>
    intro x y st hlen h
    obtain ⟨pre, _, rfl, _⟩ := h
    simp at hlen
  | succ n ih =>
    intro x y st hlen h
    have hsk := skipWs_WR C d hd W V b x y h
    obtain ⟨e1, e2, hne, hnf, hnb, hrel⟩ := scan_WR C d hd W V b _ _ hW hV hsk
    -- `scanIW C x = scan C false (skipWs C x)`
    have e1' : (scanIW C x).1 = (scanIW C y).1 := e1
    have e2' : (scanIW C x).2.1 = (scanIW C y).2.1 := e2
    have hlt := scanIW_lt C x hnf
    -- the continuation on the remainders
    have hcont : ∀ st', run C st' (scanIW C x).2.2 = run C st' (scanIW C y).2.2 := by
      intro st'
      rcases hrel with hw | ht
      · exact ih _ _ st' (by omega) hw
      · exact run_congr C st' _ _ (term_skipWs C b _ _ ht)
    by_cases hsl : (scanIW C x).1 = .startlen
    · -- the ':' looks one token further
      have hrest : (scanIW C (scanIW C x).2.2).1 = (scanIW C (scanIW C y).2.2).1 ∧
          (scanIW C (scanIW C x).2.2).2.1 = (scanIW C (scanIW C y).2.2).2.1 ∧
          (∀ st', run C st' (scanIW C (scanIW C x).2.2).2.2 = run C st' (scanIW C (scanIW C y).2.2).2.2) := by
        rcases hrel with hw | ht
        · have hsk2 := skipWs_WR C d hd W V b _ _ hw
          obtain ⟨f1, f2, _, gnf, _, grel⟩ := scan_WR C d hd W V b _ _ hW hV hsk2
          refine ⟨f1, f2, fun st' => ?_⟩
          have hlt2 := scanIW_lt C (scanIW C x).2.2 gnf
          rcases grel with gw | gt
          · exact ih _ _ st' (by omega) gw
          · exact run_congr C st' _ _ (term_skipWs C b _ _ gt)
        · have this : scanIW C (scanIW C x).2.2 = scanIW C (scanIW C y).2.2 :=
            scanIW_congr C _ _ (term_skipWs C b _ _ ht)
          exact ⟨by rw [this], by rw [this], fun st' => by rw [this]⟩
      rcases iter_startlen_gen C st (scanIW C x).2.1 (skipWs C x) (skipWs C y) _ _ hrest.1 hrest.2.1 with
        ⟨st', h1, h2⟩ | ⟨o, h1, h2⟩
      · have hx : iter C st (scanIW C x).1 (scanIW C x).2.1 (skipWs C x) (scanIW C x).2.2 =
            .cont st' (scanIW C (scanIW C x).2.2).2.2 := by
          rw [hsl]; exact h1
        have hy : iter C st (scanIW C y).1 (scanIW C y).2.1 (skipWs C y) (scanIW C y).2.2 =
            .cont st' (scanIW C (scanIW C y).2.2).2.2 := by
          rw [← e1', ← e2', hsl]; exact h2
        rw [run_cont C st x st' _ hx hnf, run_cont C st y st' _ hy (by rw [← e1']; exact hnf)]
        exact hrest.2.2 st'
      · have hx : iter C st (scanIW C x).1 (scanIW C x).2.1 (skipWs C x) (scanIW C x).2.2 = .stop o := by
          rw [hsl]; exact h1
        have hy : iter C st (scanIW C y).1 (scanIW C y).2.1 (skipWs C y) (scanIW C y).2.2 = .stop o := by
          rw [← e1', ← e2', hsl]; exact h2
        rw [run_stop C st x _ hx, run_stop C st y _ hy]
    · rcases iter_indep C st (scanIW C x).1 (scanIW C x).2.1 (skipWs C x) (scanIW C x).2.2 (skipWs C y)
          (scanIW C y).2.2 hsl hnb hne hnf with ⟨st', h1, h2⟩ | ⟨o, h1, h2, _⟩
      · have hy : iter C st (scanIW C y).1 (scanIW C y).2.1 (skipWs C y) (scanIW C y).2.2 = .cont st' (scanIW C y).2.2 := by
          rw [← e1', ← e2']; exact h2
        rw [run_cont C st x st' _ h1 hnf, run_cont C st y st' _ hy (by rw [← e1']; exact hnf)]
        exact hcont st'
      · have hy : iter C st (scanIW C y).1 (scanIW C y).2.1 (skipWs C y) (scanIW C y).2.2 = .stop o := by
          rw [← e1', ← e2']; exact h2
        rw [run_stop C st x _ h1, run_stop C st y _ hy]

theorem parse_of_skipWs_eq (C : Codec) (x y : List Char) (h : skipWs C x = skipWs C y) :
    Newick.parse C x = Newick.parse C y := by
  have hs := scanIW_congr C x y h
  unfold Newick.parse
  by_cases hb : (scanIW C x).1 = .openbrack
  · have hb' : (scanIW C y).1 = .openbrack := by rw [← hs]; exact hb
    simp only [hb, hb', if_true, hs]
  · have hb' : ¬ (scanIW C y).1 = .openbrack := by rw [← hs]; exact hb
    simp only [hb, hb', if_false, hs, h]

theorem parse_WR (C : Codec) (d : Char) (hd : isDelimC d = true) (W V b x y : List Char)
    (hW : ∀ c ∈ W, isWhitespace c = true) (hV : ∀ c ∈ V, isWhitespace c = true) (h : WR d W V b x y) :
    Newick.parse C x = Newick.parse C y := by
  have hsk := skipWs_WR C d hd W V b x y h
  obtain ⟨e1, _, _, _, hnb, _⟩ := scan_WR C d hd W V b _ _ hW hV hsk
  have e1' : (scanIW C x).1 = (scanIW C y).1 := e1
  have hb : ¬ (scanIW C x).1 = .openbrack := hnb
  have hb' : ¬ (scanIW C y).1 = .openbrack := by rw [← e1']; exact hb
  have hrun := run_WR C d hd W V b hW hV _ _ _ {} (Nat.le_refl _) hsk
  unfold Newick.parse
  simp only [hb, hb', if_false, e1', hrun]

theorem allws_or_decomp (a : List Char) (h : breakSafe a = true) :
    (∀ c ∈ a, isWhitespace c = true) ∨
    ∃ pre d tl, a = pre ++ d :: tl ∧ isDelimC d = true ∧ ∀ c ∈ tl, isWhitespace c = true := by
  unfold breakSafe at h
  generalize hl : a.reverse = l at h
  induction l generalizing a with
  | nil =>
    have : a = [] := by simpa using hl
    subst this; exact Or.inl (by simp)
  | cons c r ih =>
    have ha : a = r.reverse ++ [c] := by
      have := congrArg List.reverse hl
      simpa using this
    simp only [breakSafeRev] at h
    by_cases hc : isNewickWs c = true
    · simp only [hc, if_true] at h
      rcases ih r.reverse (by simp) h with hall | ⟨pre, d, tl, e, hd, htl⟩
      · left
        intro x hx
        rw [ha] at hx
        rcases List.mem_append.1 hx with h1 | h1
        · exact hall x h1
        · simp at h1; rw [h1]; exact hc
      · right
        refine ⟨pre, d, tl ++ [c], by rw [ha, e]; simp, hd, ?_⟩
        intro x hx
        rcases List.mem_append.1 hx with h1 | h1
        · exact htl x h1
        · simp at h1; rw [h1]; exact hc
    · have hc' : isNewickWs c = false := by simpa using hc
      simp only [hc', Bool.false_eq_true, if_false] at h
      right
      exact ⟨r.reverse, c, [], ha, h, by simp⟩

/-- STREAM LAW 2 for C01's parser: white space right after a delimiter `( ) , :` (or in front of the
    tree) is skipped -/
theorem c01_parse_ws_skip (C : Codec) (a ws b : List Char) (ha : ∀ c ∈ a, c ≠ ';' ∧ c ≠ '[')
    (hs : breakSafe a = true) (hws : ∀ c ∈ ws, isNewickWs c = true) :
    Newick.parse C (a ++ ws ++ b) = Newick.parse C (a ++ b) := by
  rcases allws_or_decomp a hs with hall | ⟨pre, d, tl, e, hd, htl⟩
  · apply parse_of_skipWs_eq
    apply term_skipWs C b
    exact ⟨a ++ ws, a, by
      intro c hc
      rcases List.mem_append.1 hc with h | h
      · exact hall c h
      · exact hws c h, hall, rfl, rfl⟩
  · subst e
    apply parse_WR C d hd (tl ++ ws) tl b
    · intro c hc
      rcases List.mem_append.1 hc with h | h
      · exact htl c h
      · exact hws c h
    · exact htl
    · exact ⟨pre, fun c hc => ha c (by simp [hc]), by simp, by simp⟩

/-- C01's codec satisfies ALL the laws: `first_eq_head` holds for it without assumption on the parser -/
def c01StreamLaws (F : Newick.FloatCodec) : NewickStreamLaws (c01Codec F) where
  toNewickLaws := c01Laws F
  parse_prefix := by
    intro a rest ha
    show (match Newick.parse F.toCodec (a ++ ';' :: rest) with | .ok t => some t | _ => none) =
      (match Newick.parse F.toCodec (a ++ [';']) with | .ok t => some t | _ => none)
    rw [c01_parse_prefix F.toCodec a rest ha]
  parse_ws_skip := by
    intro a ws b ha hs hws
    show (match Newick.parse F.toCodec (a ++ ws ++ b) with | .ok t => some t | _ => none) =
      (match Newick.parse F.toCodec (a ++ b) with | .ok t => some t | _ => none)
    rw [c01_parse_ws_skip F.toCodec a ws b ha hs hws]

end Gotree.C13
