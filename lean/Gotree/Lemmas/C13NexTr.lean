/-
  C13 — Nexus with a translate table: scanning the TRANSLATE command, parsing it, translating back.
-/
import Gotree.Lemmas.C13NexState

namespace Gotree.C13
open Gotree
open Nex

/- ## the TRANSLATE command: text and tokens -/

theorem translateLine_eq (m : List (String × String)) (tip : String) :
    translateLine m tip = lit3sp ++ ((idxOf m tip).toList ++ ' ' :: (tip.toList ++ ['\n'])) := by
  unfold translateLine idxOf
  cases lookup m tip <;> rfl

def trLineToks (m : List (String × String)) (tip : String) : List Tok :=
  [classify (idxOf m tip), classify tip, .eol]

theorem scan_trLines (m : List (String × String)) (ls : List String)
    (h : ∀ l ∈ ls, tokLabel l ∧ tokLabel (idxOf m l)) (rest : Txt) :
    scanGo (joinMap (translateLine m) ls ++ rest) none = ls.flatMap (trLineToks m) ++ scanGo rest none := by
  induction ls with
  | nil => simp [joinMap]
  | cons l ls ih =>
    obtain ⟨h1, h2⟩ := h l (by simp)
    simp only [joinMap, List.append_assoc, translateLine_eq, List.cons_append, List.nil_append, List.flatMap_cons]
    rw [scanGo_lit lit3sp _ (by decide), scanGo_word _ h2.1 ' ' (by decide), scanGo_word _ h1.1 '\n' (by decide),
      ih (fun x hx => h x (by simp [hx]))]
    have k : scanGo lit3sp none = [] := by decide
    simp [k, trLineToks, sepToks, isWs]

theorem classify_cases (s : String) (h : keywordOf s = none) : classify s = .numeric s ∨ classify s = .ident s := by
  unfold classify
  split
  · exact Or.inl rfl
  · simp [h]

theorem parseTransl_lines (m : List (String × String)) (ls : List String)
    (h : ∀ l ∈ ls, keywordOf l = none ∧ keywordOf (idxOf m l) = none) (acc : List (String × String)) (rest : List Tok) :
    parseTransl (ls.flatMap (trLineToks m) ++ .endcmd :: rest) acc = .ok (tableOf m ls acc, rest) := by
  induction ls generalizing acc with
  | nil => simp [parseTransl, tableOf]
  | cons l ls ih =>
    obtain ⟨h1, h2⟩ := h l (by simp)
    have ih' := ih (fun x hx => h x (by simp [hx]))
    simp only [List.flatMap_cons, trLineToks, List.cons_append, List.nil_append, tableOf, List.foldl_cons]
    rcases classify_cases _ h2 with e2 | e2 <;> rcases classify_cases _ h1 with e1 | e1 <;>
      (rw [e1, e2]; simp only [parseTransl, Tok.name?]; exact ih' _)

/- ## renaming and what the formats keep -/

mutual
theorem allNames_strip : ∀ t : T, allNames (strip t) = allNames t
  | .node d p k => by simp only [strip, allNames]; rw [allNamesL_strip k]
theorem allNamesL_strip : ∀ k : Kids, allNamesL (stripL k) = allNamesL k
  | [] => rfl
  | (e, t) :: r => by simp only [stripL, allNamesL]; rw [allNames_strip t, allNamesL_strip r]
end

mutual
theorem strip_renameT (m : List (String × String)) : ∀ t : T, strip (renameT m t) = renameT m (strip t)
  | .node d p k => by simp only [renameT, strip]; rw [stripL_renameL m k]
theorem stripL_renameL (m : List (String × String)) : ∀ k : Kids, stripL (renameL m k) = renameL m (stripL k)
  | [] => rfl
  | (e, t) :: r => by simp only [renameL, stripL]; rw [strip_renameT m t, stripL_renameL m r]
end

/-- `renameChecked` depends only on what the formats keep, and so does its result -/
theorem renameChecked_of_strip_eq (m : List (String × String)) (a b : T) (h : strip a = strip b)
    (hb : (renameChecked m b).isSome = true) :
    renameChecked m a = some (renameT m a) ∧ strip (renameT m a) = strip (renameT m b) ∧
      renameChecked m b = some (renameT m b) := by
  have hn : allNames a = allNames b := by rw [← allNames_strip a, h, allNames_strip]
  have hs : strip (renameT m a) = strip (renameT m b) := by rw [strip_renameT, strip_renameT, h]
  have ht : (renameT m a).tipNames = (renameT m b).tipNames := tipNames_of_strip_eq _ _ hs
  simp only [renameChecked, hn, ht] at hb ⊢
  by_cases h1 : hasDup (List.filter (fun x => x != "") (allNames b)) = true
  · simp [h1] at hb
  · by_cases h2 : hasDup (renameT m b).tipNames = true
    · simp [h1, h2] at hb
    · simp [h1, h2, hs]

/- ## the writer's loop with translation -/

theorem writeLoop_tr_snd (C : NewickCodec) (its : List (Nat × T)) (s : WState) (buf : Txt) :
    (writeNexusLoop C true its s buf).2 = buf ++ plainLines C (writtenList its s) := by
  induction its generalizing s buf with
  | nil => simp [writeNexusLoop, plainLines, writtenList]
  | cons it r ih =>
    simp only [writeNexusLoop, writeNexusStep, plainLines, writtenList]
    rw [ih]
    simp

theorem writeNexus_tr_eq (C : NewickCodec) (its : List (Nat × T)) :
    writeNexus C true its =
      lit1 ++ (natTxt (stateLoop its {}).map.length ++ ';' :: (lit2a ++ (litTaxlabels ++
        (labelsText (stateLoop its {}).slice ++ ';' :: (lit3a ++ (litTranslate ++
          (joinMap (translateLine (stateLoop its {}).map) (stateLoop its {}).slice ++
            (litTrEnd ++ (plainLines C (writtenList its {}) ++ lit4))))))))) := by
  have h1 := writeLoop_fst C true its {} []
  have h2 := writeLoop_tr_snd C its {} []
  unfold writeNexus
  simp only [h1, h2, if_true, List.nil_append, List.append_assoc]

/-- the tokens of the document after `#NEXUS`, with a translate table -/
def docToksTr (nS : String) (labels : List String) (m : List (String × String)) (cs : List Cmd) : List Tok :=
  [.eol, .kw .begin_ "BEGIN", .kw .taxa "TAXA", .endcmd] ++ taxaToks nS labels ++
  [.eol, .kw .begin_ "BEGIN", .kw .trees "TREES", .endcmd, .eol, .kw .translate "TRANSLATE", .eol] ++
  labels.flatMap (trLineToks m) ++ [.endcmd, .eol] ++ cmdsToks cs ++ [.kw .end_ "END", .endcmd, .eol]

theorem scan_doc_tr (C : NewickCodec) (its : List (Nat × T))
    (hn : (stateLoop its {}).map.length ≤ 9223372036854775807)
    (hl : ∀ l ∈ (stateLoop its {}).slice, tokLabel l ∧ tokLabel (idxOf (stateLoop its {}).map l))
    (h : ∀ it ∈ writtenList its {}, ∃ body, C.write it.2 = body ++ [';'] ∧ ∀ c ∈ body, c ≠ '\r') :
    scan (writeNexus C true its) =
      .kw .nexus "#NEXUS" :: docToksTr (toString (stateLoop its {}).map.length) (stateLoop its {}).slice
        (stateLoop its {}).map ((writtenList its {}).map (cmdOf C)) := by
  unfold scan
  rw [writeNexus_tr_eq, scanGo_lit lit1 _ (by decide),
    scanGo_word _ (natTxt_word _) ';' (by decide), classify_natTxt _ hn,
    scanGo_lit lit2a _ (by decide), scan_taxlabels _ (fun l hl' => (hl l hl').1), scanGo_lit lit3a _ (by decide),
    scanGo_lit litTranslate _ (by decide), scan_trLines _ _ hl, scanGo_lit litTrEnd _ (by decide),
    scan_lines C _ h]
  have k1 : scanGo lit1 none = [.kw .nexus "#NEXUS", .eol, .kw .begin_ "BEGIN", .kw .taxa "TAXA", .endcmd, .eol,
      .kw .dimensions "DIMENSIONS", .kw .ntax "NTAX", .equal] := by decide
  have k2 : scanGo lit2a none = [.eol] := by decide
  have k3 : scanGo lit3a none = [.eol, .kw .end_ "END", .endcmd, .eol, .kw .begin_ "BEGIN", .kw .trees "TREES", .endcmd, .eol] := by decide
  have k4 : scanGo lit4 none = [.kw .end_ "END", .endcmd, .eol] := by decide
  have k5 : scanGo litTranslate none = [.kw .translate "TRANSLATE", .eol] := by decide
  have k6 : scanGo litTrEnd none = [.endcmd, .eol] := by decide
  rw [k1, k2, k3, k4, k5, k6]
  simp [docToksTr, taxaToks, sepToks, isWs]

/- ## parsing -/

theorem parseTrees_block_tr (m : List (String × String)) (labels : List String)
    (hl : ∀ l ∈ labels, keywordOf l = none ∧ keywordOf (idxOf m l) = none)
    (cs : List Cmd) (h : ∀ c ∈ cs, c.ok) (f : Nat) (hf : 2 * cs.length + 4 ≤ f)
    (rest : List Tok) (a : TreesAcc) :
    parseTrees f (.eol :: .kw .translate "TRANSLATE" :: .eol :: (labels.flatMap (trLineToks m) ++
        .endcmd :: .eol :: (cmdsToks cs ++ .kw .end_ "END" :: .endcmd :: rest))) a =
      .ok ({ trees := a.trees ++ cs.map fun c => (c.name, c.body), transl := some (tableOf m labels []) }, rest) := by
  obtain ⟨g, rfl⟩ : ∃ g, f = (((g + 1 + 2 * cs.length) + 1) + 1) + 1 := ⟨f - (2 * cs.length + 4), by omega⟩
  rw [parseTrees, parseTrees]
  simp only [parseTransl]
  rw [parseTransl_lines m labels hl]
  simp only []
  rw [parseTrees]
  rw [parseTrees_cmds cs h (g + 1)]
  rw [parseTrees]

theorem parseLoop_doc_tr (nS : String) (labels : List String) (m : List (String × String)) (cs : List Cmd)
    (hl : ∀ l ∈ labels, keywordOf l = none ∧ keywordOf (idxOf m l) = none) (hc : ∀ c ∈ cs, c.ok)
    (f : Nat) (hf : 2 * cs.length + 12 ≤ f) :
    parseLoop f (docToksTr nS labels m cs) {} =
      .ok { ntax := intVal nS, taxlabels := some (labels.foldl insertLabel []),
            trees := some (cs.map fun c => (c.name, c.body)), transl := some (tableOf m labels []) } := by
  obtain ⟨g, rfl⟩ : ∃ g, f = g + 2 * cs.length + 12 := ⟨f - (2 * cs.length + 12), by omega⟩
  simp only [docToksTr, List.cons_append, List.nil_append, List.append_assoc]
  rw [parseLoop, parseLoop]
  simp only []
  have e1 : g + 2 * cs.length + 10 = (g + 2 * cs.length + 4) + 6 := by omega
  rw [e1, parseTaxa_block _ nS labels (fun l h => (hl l h).1)]
  simp only []
  rw [parseLoop, parseLoop]
  simp only []
  rw [parseTrees_block_tr m labels hl cs hc _ (by omega)]
  simp only [List.nil_append]
  rw [parseLoop, parseLoop]
  simp

theorem buildTrees_tr (C : NewickCodec) (L : NewickLaws C) (table : List (String × String)) (labs : List String)
    (W : List (Nat × T)) (ts : List T) (i : Nat)
    (hw : ∀ w ∈ W, L.wf w.2 = true) (hb : backOK table labs ts W = true) :
    ∃ d, buildTrees C (some table) (some labs) ((W.map (cmdOf C)).map fun c => (c.name, c.body)) = some d ∧
      recsAre ts (recsOfTrees (d.map (·.2)) i) i = true := by
  induction W generalizing ts i with
  | nil =>
    cases ts with
    | nil => exact ⟨[], rfl, rfl⟩
    | cons _ _ => simp [backOK] at hb
  | cons w ws ih =>
    cases ts with
    | nil => simp [backOK] at hb
    | cons t ts =>
      simp only [backOK, Bool.and_eq_true] at hb
      have h1 := hw w (by simp)
      obtain ⟨body, hbd, _⟩ := L.write_shape w.2 h1
      have hp : C.parse ((C.write w.2).dropLast ++ [';']) = some (L.norm w.2) := by
        rw [hbd]; simp only [List.dropLast_concat]; rw [← hbd]; exact L.parse_write w.2 h1
      cases hrc : renameChecked table w.2 with
      | none => rw [hrc] at hb; simp at hb
      | some b =>
        rw [hrc] at hb
        simp only [Bool.and_eq_true] at hb
        obtain ⟨e1, e2, e3⟩ := renameChecked_of_strip_eq table (L.norm w.2) w.2 (L.norm_strip w.2 h1) (by rw [hrc]; rfl)
        have hbb : b = renameT table w.2 := by rw [hrc] at e3; injection e3
        have htn : (renameT table (L.norm w.2)).tipNames = b.tipNames := by
          rw [hbb]; exact tipNames_of_strip_eq _ _ e2
        have hok : okTaxa labs (renameT table (L.norm w.2)) = true := by
          have := hb.1.2
          simp only [okTaxa] at this ⊢
          rw [htn]; exact this
        obtain ⟨d, hd, hr⟩ := ih ts (i + 1) (fun x hx => hw x (by simp [hx])) hb.2
        refine ⟨("tree" ++ toString w.1, renameT table (L.norm w.2)) :: d, ?_, ?_⟩
        · show buildTrees C (some table) (some labs) (("tree" ++ toString w.1, (C.write w.2).dropLast) ::
            ((ws.map (cmdOf C)).map fun c => (c.name, c.body))) = _
          simp only [okTaxa] at hok
          simp only [buildTrees, hp, e1, hok, Bool.not_true, Bool.false_eq_true, if_false, hd]
        · simp only [List.map_cons, recsOfTrees, recsAre, Out.keptEq, beq_self_eq_true, Bool.true_and, Bool.and_eq_true]
          refine ⟨?_, hr⟩
          apply (sameKept_iff _ _).2
          rw [e2, ← hbb]
          exact (sameKept_iff _ _).1 hb.1.1

/-- `Nex.parse` on the document written WITH a translate table, in terms of the writer's label state -/
theorem parse_tr (C : NewickCodec) (L : NewickLaws C) (its : List (Nat × T)) (ts : List T)
    (hn : (stateLoop its {}).map.length ≤ 9223372036854775807)
    (hlen : (stateLoop its {}).map.length = (stateLoop its {}).slice.length)
    (hl : ∀ l ∈ (stateLoop its {}).slice, tokLabel l ∧ tokLabel (idxOf (stateLoop its {}).map l))
    (hnd : hasDup (stateLoop its {}).slice = false)
    (hw : ∀ w ∈ writtenList its {}, L.wf w.2 = true)
    (hs : ∀ w ∈ writtenList its {}, treeTextOK (C.write w.2) = true)
    (hb : backOK (tableOf (stateLoop its {}).map (stateLoop its {}).slice []) (stateLoop its {}).slice ts (writtenList its {}) = true) :
    ∃ d, Nex.parse C (writeNexus C true its) = .ok d ∧ recsAre ts (recsOfTrees (d.map (·.2)) 0) 0 = true := by
  have hbody : ∀ it ∈ writtenList its {}, ∃ body, C.write it.2 = body ++ [';'] ∧ ∀ c ∈ body, c ≠ '\r' := by
    intro it hit
    obtain ⟨body, hb', hc⟩ := L.write_shape it.2 (hw it hit)
    exact ⟨body, hb', fun c hc' => (hc c hc').2.1⟩
  have hcs : ∀ c ∈ (writtenList its {}).map (cmdOf C), c.ok := by
    intro c hc
    obtain ⟨it, hit, rfl⟩ := List.mem_map.1 hc
    exact cmdOf_ok C it (hs it hit)
  have hkw : ∀ l ∈ (stateLoop its {}).slice, keywordOf l = none ∧ keywordOf (idxOf (stateLoop its {}).map l) = none :=
    fun l hl' => ⟨(hl l hl').1.2, (hl l hl').2.2⟩
  have hscan := scan_doc_tr C its hn hl hbody
  have hnocr : (scan (writeNexus C true its)).contains .loneCR = false := by
    rw [hscan]
    rw [List.contains_eq_mem, decide_eq_false_iff_not]
    intro hm
    simp only [docToksTr, taxaToks, trLineToks, List.mem_cons, List.mem_append, List.mem_map, List.mem_flatMap,
      List.not_mem_nil, reduceCtorEq, false_or, or_false] at hm
    rcases hm with (⟨l, _, h⟩ | ⟨l, _, h⟩) | hm
    · exact classify_ne_loneCR l h
    · rcases h with h | h
      · exact classify_ne_loneCR _ h.symm
      · exact classify_ne_loneCR _ h.symm
    · simp only [cmdsToks, List.mem_flatMap] at hm
      obtain ⟨c, hc, hm⟩ := hm
      have hok := hcs c hc
      simp only [treeCmdToks, List.mem_append, List.mem_cons, List.not_mem_nil, or_false, reduceCtorEq, false_or] at hm
      rcases hm with h | h
      · exact classify_ne_loneCR _ h.symm
      · exact parseTreeStr_noCR _ _ _ _ hok.2.1 (by simp) h
  have hfold : (stateLoop its {}).slice.foldl insertLabel [] = (stateLoop its {}).slice := by
    rw [foldl_insertLabel _ [] (by simpa using hnd)]; simp
  obtain ⟨d, hd, hr⟩ := buildTrees_tr C L _ _ (writtenList its {}) ts 0 hw hb
  refine ⟨d, ?_, hr⟩
  unfold Nex.parse
  rw [hscan] at hnocr
  simp only [hscan, hnocr, Bool.false_eq_true, if_false]
  rw [parseLoop_doc_tr _ _ _ _ hkw hcs _ (by
    have := cmdsToks_length ((writtenList its {}).map (cmdOf C))
    simp only [docToksTr, taxaToks, List.length_append, List.length_cons, List.length_nil, List.length_map] at this ⊢
    omega)]
  simp only [intVal_natStr, hfold, Option.getD_some, hlen]
  simp only [bne_self_eq_false, Bool.and_false, Bool.false_eq_true, if_false, hd]

end Gotree.C13
