/-
  C09 — the vocabulary of the facts regenerated from the Go source (round 7).

  `harness/c09/extract.go` (run by `vh gen-tables`) reads tree/algo.go, tree/edgeindex.go and
  cmd/consensus.go with go/ast and writes `Gotree/Gen/C09Facts.lean`: the conditions, constants and
  call sequences that the hand-written model `Model/C09.lean` silently assumes, as terms of the small
  expression type `E` below.  `Proofs/C09.lean` re-decides them (`sourceFactsCheck`) and proves that the
  two selection predicates, *interpreted* (`evalB`, `evalBN`), are the model's own (`range_facts_model`,
  `keep_facts_model`).  Core Lean only.
-/
namespace Gotree.C09F

/-- a Go expression, as far as the extractor understands it (`other` = its source text) -/
inductive E where
  | v (name : String)                 -- identifier or selector chain `a.b.c`
  | lit (num den : Nat)               -- numeric literal, exact
  | str (s : String)                  -- string literal
  | bin (op : String) (a b : E)
  | not (a : E)
  | neg (a : E)
  | call0 (f : String)
  | call1 (f : String) (a : E)
  | call2 (f : String) (a b : E)
  | call3 (f : String) (a b c : E)
  | other (s : String)
  deriving Repr, BEq, Inhabited

/-- what the extractor found -/
structure Facts where
  /-- condition of the first `if` of `tree.Consensus` (its body returns the range error) -/
  rangeCond : E
  /-- message of that error -/
  rangeMsg : String
  /-- arguments of `NewEdgeIndex(size, loadfactor)` in `Consensus` -/
  indexSize : E
  loadFactor : E
  /-- the methods called on `curtree.Tree` inside the loop that change the tree (re-rooting, single-child
      removal, unrooting, re-indexing …), in source order.  (The expressions of the values given to the
      branches and the statement that writes the result are NOT tabled: harmless rewrites of them are
      frequent, and the oracle sees their effect on every case.) -/
  perTreeCalls : List String
  /-- right-hand side of `minCount := …` and the `if` that follows it (condition, body) -/
  minCountInit : E
  minCountFixCond : E
  minCountFixBody : String
  /-- arguments of `edgeindex.Edges(…)` in `Consensus` -/
  edgesArgs : List E
  /-- the filter of `EdgeIndex.Edges` (parameters `minCount`, `maxCount`) -/
  keepCond : E
  keepParams : List String
  /-- refusal test of `AddBipartition` -/
  addBipRefuse : E
  /-- cmd/consensus.go: `Float64VarP(&var, long, short, default, …)` -/
  flagVar : String
  flagLong : String
  flagShort : String
  flagDefault : E
  /-- cmd/consensus.go: arguments of `tree.Consensus(…)` -/
  consensusArgs : List E
  deriving Repr, BEq, Inhabited

/-! ## interpretation of the comparison fragment -/

def cmpR (op : String) (x y : Rat) : Option Bool :=
  if op == "<" then some (decide (x < y))
  else if op == "<=" then some (decide (x ≤ y))
  else if op == ">" then some (decide (y < x))
  else if op == ">=" then some (decide (y ≤ x))
  else if op == "==" then some (decide (x = y))
  else if op == "!=" then some (!decide (x = y))
  else none

def evalR (env : List (String × Rat)) : E → Option Rat
  | .v n => env.lookup n
  | .lit a b => some ((a : Rat) / (b : Rat))
  | .neg a => (evalR env a).map (fun x => -x)
  | _ => none

/-- a Boolean Go expression over float64 variables holding the rationals `env` -/
def evalB (env : List (String × Rat)) : E → Option Bool
  | .not a => (evalB env a).map (!·)
  | .bin op a b =>
    if op == "&&" then
      match evalB env a, evalB env b with
      | some x, some y => some (x && y)
      | _, _ => none
    else if op == "||" then
      match evalB env a, evalB env b with
      | some x, some y => some (x || y)
      | _, _ => none
    else
      match evalR env a, evalR env b with
      | some x, some y => cmpR op x y
      | _, _ => none
  | _ => none

def cmpN (op : String) (x y : Nat) : Option Bool :=
  if op == "<" then some (decide (x < y))
  else if op == "<=" then some (decide (x ≤ y))
  else if op == ">" then some (decide (y < x))
  else if op == ">=" then some (decide (y ≤ x))
  else if op == "==" then some (x == y)
  else if op == "!=" then some (x != y)
  else none

def evalN (env : List (String × Nat)) : E → Option Nat
  | .v n => env.lookup n
  | .lit a b => if b == 1 then some a else none
  | _ => none

/-- a Boolean Go expression over non-negative `int` variables -/
def evalBN (env : List (String × Nat)) : E → Option Bool
  | .not a => (evalBN env a).map (!·)
  | .bin op a b =>
    if op == "&&" then
      match evalBN env a, evalBN env b with
      | some x, some y => some (x && y)
      | _, _ => none
    else if op == "||" then
      match evalBN env a, evalBN env b with
      | some x, some y => some (x || y)
      | _, _ => none
    else
      match evalN env a, evalN env b with
      | some x, some y => cmpN op x y
      | _, _ => none
  | _ => none

/-! ## what the model assumes (the reviewed values) -/

def expectedRange : E :=
  .not (.bin "&&" (.bin ">=" (.v "cutoff") (.lit 1 2)) (.bin "<=" (.v "cutoff") (.lit 1 1)))

def expectedKeep : E :=
  .bin "||" (.bin "&&" (.bin ">" (.v "v.Count") (.v "minCount")) (.bin "<=" (.v "v.Count") (.v "maxCount")))
    (.bin "==" (.v "v.Count") (.v "maxCount"))

def expected : Facts where
  rangeCond := expectedRange
  rangeMsg := "min frequency for bipartition must be >=0.5 and <=1"
  indexSize := .lit 128 1
  loadFactor := .lit 3 4
  perTreeCalls := ["Reroot", "RemoveSingleNodes", "UnRoot", "ReinitIndexes"]
  minCountInit := .call1 "int" (.bin "*" (.v "cutoff") (.call1 "float64" (.v "nbtrees")))
  minCountFixCond := .bin "<" (.call3 "math.FMA" (.v "cutoff") (.call1 "float64" (.v "nbtrees"))
    (.neg (.call1 "float64" (.v "minCount")))) (.lit 0 1)
  minCountFixBody := "minCount--"
  edgesArgs := [.v "minCount", .v "nbtrees"]
  keepCond := expectedKeep
  keepParams := ["minCount", "maxCount"]
  addBipRefuse := .bin "||" (.bin "<=" (.call1 "len" (.v "edges")) (.lit 1 1))
    (.bin ">=" (.call1 "len" (.v "edges")) (.bin "-" (.call1 "len" (.v "n.br")) (.lit 1 1)))
  flagVar := "consensusCutoff"
  flagLong := "freq-min"
  flagShort := "f"
  flagDefault := .lit 1 2
  consensusArgs := [.v "treechan", .v "consensusCutoff"]

end Gotree.C09F
