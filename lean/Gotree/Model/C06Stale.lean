/-
  C06 — model of the edits of the histories `C06.stale` (harness/c06/stale.go): operations of the library that
  change the tip set or a tip name WITHOUT maintaining the tip index, applied between the building of the
  index and `RemoveTips`:

  * `rename a b` : `Node.SetName(b)` on the tip named `a`;
  * `swap a b`   : the tips named `a` and `b` exchange their names;
  * `graft a b`  : `GraftTipOnEdge(new tip a, the branch of the tip named b)` — `C16.graftF` at that branch
                   (model of C16, imported read-only); refused by the harness when that branch has no length;
  * `prune a`    : an earlier `RemoveTips(false, a)` on a tree of at least 6 tips.

  Tips are addressed by name (unique names: what the harness guarantees for these histories).  The model tree
  carries no index: `RemoveTips` after a history is `removeTips` on the edited tree, which is the point.
  Core Lean only.
-/
import Gotree.Model.C06
import Gotree.Model.C16

namespace Gotree.C06
open Gotree

inductive Edit where
  | rename (a b : String)
  | swap (a b : String)
  | graft (a b : String)
  | prune (a : String)
  deriving Repr

mutual
def mapLeaf (f : String → String) : T → T
  | .node d p [] => .node { d with name := f d.name } p []
  | .node d p (k :: ks) => .node d p (mapLeafL f (k :: ks))
def mapLeafL (f : String → String) : Kids → Kids
  | [] => []
  | (e, t) :: r => (e, mapLeaf f t) :: mapLeafL f r
end

/-- `SetName(f name)` on every tip (`Tips()`: the leaves, and the root when it has exactly one neighbour) -/
def mapTips (f : String → String) : T → T
  | .node d p [k] => .node { d with name := f d.name } p (mapLeafL f [k])
  | .node d p ks => .node d p (mapLeafL f ks)

/- index, in `Edges()` order, of the branch above the first leaf named `x` -/
mutual
def leafEdge (x : String) : T → Option Nat
  | .node _ _ k => leafEdgeL x k
def leafEdgeL (x : String) : Kids → Option Nat
  | [] => none
  | (_, t) :: r =>
    if t.isLeaf && t.name == x then some 0
    else match leafEdge x t with
      | some i => some (1 + i)
      | none => (leafEdgeL x r).map (· + 1 + C16.numEdges t)
end

/-- the only branch of the tip named `x`: a tip root has the first branch -/
def tipEdge (x : String) (t : T) : Option Nat :=
  if t.kids.length == 1 && t.name == x then some 0 else leafEdge x t

/-- one edit; `none` when it does not apply (the harness lists only the edits it applied) -/
def applyEdit (t : T) : Edit → Option T
  | .rename a b => if t.tipNames.contains a then some (mapTips (fun n => if n == a then b else n) t) else none
  | .swap a b =>
    if t.tipNames.contains a && t.tipNames.contains b && a != b then
      some (mapTips (fun n => if n == a then b else if n == b then a else n) t)
    else none
  | .graft a b =>
    match tipEdge b t with
    | none => none
    | some k =>
      match t.edges[k]? with
      | none => none
      | some e => if e.len == NIL then none else some (C16.applyAt (C16.graftF a) k t)
  | .prune a =>
    if t.tipNames.contains a && t.tipNames.length ≥ 6 then
      match removeTips false [a] t with
      | .ok (t', _) => some t'
      | .error _ => none
    else none

def applyEdits : List Edit → T → Option T
  | [], t => some t
  | e :: r, t => (applyEdit t e).bind (applyEdits r)

/-- a whole history: the edits, then `RemoveTips` on what they leave — whatever index was built before -/
def staleRemove (edits : List Edit) (rev : Bool) (names : List String) (t : T) : Option (Except Err (T × Index)) :=
  (applyEdits edits t).map (removeTips rev names)

end Gotree.C06
