/-
  C09 — round 7b: the TEXT that `cmd/consensus.go` writes (`consensus.Newick() + "\n"`), tied to the
  literal model (`C09L.consensusLit`): `Tree.Newick` / `Node.Newick` (tree/tree.go:420, tree/node.go:232)
  as they apply to a consensus tree — parentheses around the children in neighbour order, a child's
  text, its name, the support of its branch when the child has no name (`strconv.FormatFloat(…,'f',-1,64)`),
  `:` and the length when there is one; no comments (a consensus tree has none), root name last, `;`.

  Numbers: Go prints the shortest decimal that reads back as the same float64; the model has the exact
  rational.  The text's number is read exactly (`parseCutoff`: plain decimal syntax) and must lie within
  2^-51 (relative) of the exact value — one rounding for the division, half an ulp for the printing.
  Everything else (structure, child order, names, which numbers are present) is compared literally.
-/
import Gotree.Model.C09Lit

namespace Gotree.C09L
open Gotree Gotree.C09

inductive Tok where
  | lp | rp | comma | semi
  | name (s : String)
  | sup (r : Rat)
  | len (r : Rat)
  | junk (s : String)
  deriving Repr, BEq

/- `Node.Newick` on the model's tree: `nwT t` = the text of the node `t` (children, then its name);
   `nwK` = its children with what follows each of them (support, length). -/
mutual
def nwT : T → List Tok
  | .node d _ k =>
    (if k.isEmpty then [] else [Tok.lp] ++ nwK true k ++ [Tok.rp]) ++ (if d.name.isEmpty then [] else [Tok.name d.name])
def nwK (first : Bool) : Kids → List Tok
  | [] => []
  | (e, t) :: r =>
    (if first then [] else [Tok.comma]) ++ nwT t ++
    (if e.sup != NIL && t.name.isEmpty then [Tok.sup e.sup] else []) ++
    (if e.len != NIL then [Tok.len e.len] else []) ++ nwK false r
end

/-- `Tree.Newick` -/
def newickToks (t : T) : List Tok := nwT t ++ [Tok.semi]

def isPunct (c : Char) : Bool := c == '(' || c == ')' || c == ',' || c == ';' || c == ':'

/-- the tokens of a Newick text without quotes and comments: a run of other characters is a length
    after `:`, a support after `)`, a name elsewhere -/
def lexAux : Nat → List Char → Char → List Tok
  | 0, _, _ => [Tok.junk "fuel"]
  | _, [], _ => []
  | fuel + 1, c :: r, prev =>
    if c == '(' then Tok.lp :: lexAux fuel r c
    else if c == ')' then Tok.rp :: lexAux fuel r c
    else if c == ',' then Tok.comma :: lexAux fuel r c
    else if c == ';' then Tok.semi :: lexAux fuel r c
    else if c == ':' then lexAux fuel r c
    else
      let run := (c :: r).takeWhile (fun x => !isPunct x)
      let rest := (c :: r).dropWhile (fun x => !isPunct x)
      let s := String.ofList run
      let tok :=
        if prev == ':' then (match parseCutoff s with | some v => Tok.len v | none => Tok.junk s)
        else if prev == ')' then (match parseCutoff s with | some v => Tok.sup v | none => Tok.name s)
        else Tok.name s
      -- `rest` is shorter than `c :: r`; the fuel (length of the text) only makes the recursion structural
      tok :: lexAux fuel rest 'x'

def lexNewick (s : String) : List Tok := lexAux (s.length + 1) s.toList ' '

def approxT (a b : Rat) : Bool :=
  (if a ≥ b then a - b else b - a) * (2251799813685248 : Rat) ≤ (if b ≥ 0 then b else -b)

def tokAgree : Tok → Tok → Bool
  | .lp, .lp | .rp, .rp | .comma, .comma | .semi, .semi => true
  | .name a, .name b => a == b
  | .sup a, .sup b => approxT a b
  | .len a, .len b => approxT a b
  | _, _ => false

/-- the text (first argument) is the Newick text of the model's tree -/
def textAgrees (text : String) (m : T) : Bool :=
  let a := lexNewick text
  let b := newickToks m
  a.length == b.length && (List.zipWith tokAgree a b).all id

/-- digits of a non-negative rational with a finite decimal expansion (used for the witnesses only:
    dyadic values); other values are written as `num/den`, which the lexer does not read as a number -/
def showDec (r : Rat) : String :=
  let n := r.num.toNat
  let d := r.den
  -- multiply by 10 until the denominator divides
  let rec go (fuel : Nat) (k : Nat) : Option Nat :=
    match fuel with
    | 0 => none
    | fuel + 1 => if (n * 10 ^ k) % d == 0 then some k else go fuel (k + 1)
  match go 60 0 with
  | some 0 => toString (n / d)
  | some k =>
    let v := n * 10 ^ k / d
    let ip := v / 10 ^ k
    let fp := toString (v % 10 ^ k)
    toString ip ++ "." ++ String.ofList (List.replicate (k - fp.length) '0') ++ fp
  | none => toString n ++ "/" ++ toString d

/-- the text of a token list (inverse of the lexer on the writer's output) -/
def showToks : List Tok → String
  | [] => ""
  | .lp :: r => "(" ++ showToks r
  | .rp :: r => ")" ++ showToks r
  | .comma :: r => "," ++ showToks r
  | .semi :: r => ";" ++ showToks r
  | .name s :: r => s ++ showToks r
  | .sup v :: r => showDec v ++ showToks r
  | .len v :: r => ":" ++ showDec v ++ showToks r
  | .junk s :: r => s ++ showToks r

end Gotree.C09L
