/-
  C07 — lemmas about the command loops of Model/C07Cmd.lean.
-/
import Gotree.Model.C07Cmd
import Gotree.Lemmas.C07Resolve

namespace Gotree.C07
open Gotree

/-- the records before the first one in error -/
def goodRecs : List Rec → List T
  | some t :: r => t :: goodRecs r
  | _ => []

/-- is some record in error -/
def hasErrRec : List Rec → Bool
  | [] => false
  | none :: _ => true
  | some _ :: r => hasErrRec r

theorem runEach_total (g : T → T) : ∀ recs : List Rec,
    runEach (fun t => some (g t)) recs = ((goodRecs recs).map g, !hasErrRec recs)
  | [] => rfl
  | none :: r => rfl
  | some t :: r => by
    have ih := runEach_total g r
    simp only [runEach, ih, goodRecs, hasErrRec, List.map_cons]

theorem cmdResolve_ok : ∀ (recs : List Rec) (ds : List Nat), okDraws (cmdResolveScript recs) ds = true →
    ∃ o, cmdResolve recs ds = some o ∧ o.1.length = (goodRecs recs).length ∧ o.2 = !hasErrRec recs
  | [], [], _ => ⟨([], true), rfl, rfl, rfl⟩
  | [], _ :: _, h => by simp [cmdResolveScript, okDraws] at h
  | none :: r, ds, _ => ⟨([], false), by cases ds <;> rfl, rfl, rfl⟩
  | some t :: r, ds, h => by
    rw [cmdResolveScript] at h
    obtain ⟨d1, d2, he, h1, h2⟩ := okDraws_append _ _ ds h
    subst he
    obtain ⟨t', ht⟩ := resolveT_ok true t d1 d2 h1
    obtain ⟨o, ho, hlen, hok⟩ := cmdResolve_ok r d2 h2
    refine ⟨(t' :: o.1, o.2), ?_, by simp [goodRecs, hlen], by simpa [hasErrRec] using hok⟩
    cases hd : d1 ++ d2 with
    | nil =>
      rw [hd] at ht
      simp only [cmdResolve, ht, ho]
    | cons x xs =>
      rw [hd] at ht
      simp only [cmdResolve, ht, ho]

end Gotree.C07
