/-
  C16 — node depths: basic facts about the Spec functions (helper lemmas).
-/
import Gotree.Spec.C16Depth

namespace Gotree.C16
open Gotree

theorem minO_le_left (a : Nat) (b : Option Nat) : ∃ m, minO (some a) b = some m ∧ m ≤ a := by
  cases b with
  | none => exact ⟨a, rfl, Nat.le_refl a⟩
  | some b => exact ⟨min a b, rfl, Nat.min_le_left a b⟩

/-- the least `downDepth` among the children: a lower bound that is attained -/
theorem downMin_spec : ∀ (ks : Kids), ks ≠ [] →
    ∃ m, downMin ks = some m ∧ (∀ et ∈ ks, m ≤ downDepth et.2) ∧ ∃ et ∈ ks, downDepth et.2 = m
  | [], h => absurd rfl h
  | [(e, t)], _ => ⟨downDepth t, by simp [downMin, minO], by simp, ⟨(e, t), by simp, rfl⟩⟩
  | (e, t) :: k2 :: r, _ => by
    obtain ⟨m, hm, hle, ⟨w, hw, hwm⟩⟩ := downMin_spec (k2 :: r) (by simp)
    refine ⟨min (downDepth t) m, by rw [downMin, hm]; rfl, ?_, ?_⟩
    · intro et het
      rcases List.mem_cons.mp het with rfl | h
      · exact Nat.min_le_left _ _
      · exact Nat.le_trans (Nat.min_le_right _ _) (hle et h)
    · by_cases hc : downDepth t ≤ m
      · exact ⟨(e, t), by simp, by simp [Nat.min_eq_left hc]⟩
      · exact ⟨w, List.mem_cons_of_mem _ hw, by rw [hwm]; exact (Nat.min_eq_right (by omega)).symm⟩

mutual
theorem depthsR_length : ∀ (t : T), (depthsR t).length = t.size
  | .node d p ks => by simp only [depthsR, T.size, List.length_cons, depthsRL_length ks]; omega
theorem depthsRL_length : ∀ (ks : Kids), (depthsRL ks).length = T.sizeL ks
  | [] => rfl
  | (e, t) :: r => by simp only [depthsRL, T.sizeL, List.length_append, depthsR_length t, depthsRL_length r]
end

mutual
theorem depthsU_length : ∀ (up : Option Nat) (t : T), (depthsU up t).length = t.size
  | up, .node d p ks => by simp only [depthsU, T.size, List.length_cons, depthsUL_length up ks ks 0]; omega
theorem depthsUL_length : ∀ (up : Option Nat) (all ks : Kids) (i : Nat), (depthsUL up all ks i).length = T.sizeL ks
  | _, _, [], _ => rfl
  | up, all, (e, t) :: r, i => by
    simp only [depthsUL, T.sizeL, List.length_append, depthsU_length _ t, depthsUL_length up all r (i + 1)]
end

end Gotree.C16
