/-
  C06 — lengths and supports of the induced subtree at the level of the whole tree:
  the unrooted split map (side ↦ length, support) of the pruned tree is the fused
  restriction of the original one (`Spec.restrictU`).  Uses the fold lemmas of
  `Gotree.Lemmas.C05Splits`.  Core Lean only.
-/
import Gotree.Lemmas.C06Canon

namespace Gotree.C06
open Gotree

/-! ## equivalence of lists of unrooted splits under the fusing fold -/

theorem ufoldU_append (A B acc : List USplit) : ufoldU (A ++ B) acc = ufoldU B (ufoldU A acc) := by
  simp [ufoldU, List.foldl_append]

theorem ufoldU_sidesNodup : ∀ (l acc : List USplit), SidesNodup acc → SidesNodup (ufoldU l acc)
  | [], _, h => h
  | s :: l, acc, h => ufoldU_sidesNodup l _ (insertU_sidesNodup s acc h)

theorem ufoldU_good : ∀ (l acc : List USplit), GoodU l → GoodU acc → GoodU (ufoldU l acc)
  | [], _, _, h => h
  | s :: l, acc, hl, h =>
    ufoldU_good l _ (fun w hw => hl w (by simp [hw])) (insertU_good s (hl s (by simp)) acc h)

/-- same result of the fold, whatever was accumulated before -/
def UEq (A B : List USplit) : Prop :=
  ∀ acc, SidesNodup acc → GoodU acc → (ufoldU A acc).Perm (ufoldU B acc)

theorem UEq.refl (A : List USplit) : UEq A A := fun _ _ _ => List.Perm.refl _

theorem UEq.trans {A B C : List USplit} (h : UEq A B) (g : UEq B C) : UEq A C :=
  fun acc hn hg => (h acc hn hg).trans (g acc hn hg)

theorem UEq.append {A A' B B' : List USplit} (gA : GoodU A) (gA' : GoodU A') (h : UEq A A') (g : UEq B B') :
    UEq (A ++ B) (A' ++ B') := by
  intro acc hn hg
  rw [ufoldU_append, ufoldU_append]
  have p1 := h acc hn hg
  have s1 := ufoldU_sidesNodup A acc hn
  have s2 := ufoldU_sidesNodup A' acc hn
  have g2 := ufoldU_good A' acc gA' hg
  exact (ufoldU_perm_acc B p1 s1).trans (g _ s2 g2)

theorem UEq.swap {A B : List USplit} (gA : GoodU A) (gB : GoodU B) : UEq (A ++ B) (B ++ A) := by
  intro acc hn hg
  exact ufoldU_perm List.perm_append_comm
    (fun w hw => (List.mem_append.1 hw).elim (gA w) (gB w)) acc hn hg

theorem UEq.fuse (x y : USplit) (h : x.side = y.side) (gx : GoodL x.len) (gy : GoodL y.len) :
    UEq [x, y] [fuseU x y] := by
  intro acc _ hg
  rw [ufoldU_fuse x y [] acc h gx gy hg]

/-! ## branches as unrooted splits over the kept taxa `K` -/

/-- the restriction of the branch to `K` has both sides non-empty (what `restrictU` keeps) -/
def nd (K : List String) (s : SplitE) : Bool :=
  !((s.below.filter K.contains).isEmpty || (s.below.filter K.contains).length == K.length)

/-- the branch as an unrooted split over `K`; the support of a trivial split is not observed -/
def tu (K : List String) (s : SplitE) : USplit :=
  ⟨canonSide K s.below, s.e.len, if 2 ≤ lightSize K (canonSide K s.below) then s.e.sup else NIL⟩

def UL (K : List String) (L : List SplitE) : List USplit := (L.filter (nd K)).map (tu K)

theorem UL_append (K : List String) (A B : List SplitE) : UL K (A ++ B) = UL K A ++ UL K B := by
  simp [UL]

theorem UL_good (K : List String) {L : List SplitE} (h : LensGood L) : GoodU (UL K L) := by
  intro u hu
  obtain ⟨s, hs, rfl⟩ := List.mem_map.1 hu
  exact h s (List.mem_filter.1 hs).1

theorem restr_len_of_sameSplit {K A B : List String} (hK : K.Nodup) (hA : A.Nodup) (hB : B.Nodup)
    (h : sameSplit K A B) :
    (A.filter K.contains).length = (B.filter K.contains).length ∨
    (A.filter K.contains).length + (B.filter K.contains).length = K.length := by
  rcases h with h | h
  · left
    apply List.Perm.length_eq
    apply perm_of_nodup_mem (hA.filter _) (hB.filter _)
    intro x
    simp only [List.mem_filter, List.contains_eq_mem, decide_eq_true_eq]
    constructor
    · rintro ⟨h1, h2⟩; exact ⟨(h x h2).1 h1, h2⟩
    · rintro ⟨h1, h2⟩; exact ⟨(h x h2).2 h1, h2⟩
  · right
    have := (compl_perm hK hA hB h).length_eq
    simpa using this

theorem restr_len_le {K A : List String} (hK : K.Nodup) (hA : A.Nodup) :
    (A.filter K.contains).length ≤ K.length := by
  rw [count_swap hK hA]; exact List.length_filter_le _ _

theorem nd_eq (K : List String) (s : SplitE) :
    nd K s = decide ((s.below.filter K.contains).length ≠ 0 ∧ (s.below.filter K.contains).length ≠ K.length) := by
  unfold nd
  cases h : s.below.filter K.contains with
  | nil => simp
  | cons a r =>
    simp only [List.isEmpty_cons, Bool.false_or, List.length_cons, ne_eq, Nat.add_eq_zero_iff, Nat.succ_ne_self,
      and_false, not_false_eq_true, true_and]
    by_cases e : r.length + 1 = K.length <;> simp [e]

theorem nd_of_sameSplit {K : List String} {s s' : SplitE} (hK : K.Nodup) (hs : s.below.Nodup)
    (hs' : s'.below.Nodup) (h : sameSplit K s.below s'.below) : nd K s = nd K s' := by
  have l1 := restr_len_le hK hs
  have l2 := restr_len_le hK hs'
  rw [nd_eq, nd_eq]
  rcases restr_len_of_sameSplit hK hs hs' h with e | e
  · rw [e]
  · apply decide_eq_decide.2
    constructor <;> intro h' <;> omega

theorem tu_side_of_sameSplit {K : List String} {s s' : SplitE} (hK : K.Nodup) (hs : s.below.Nodup)
    (hs' : s'.below.Nodup) (h : sameSplit K s.below s'.below) : (tu K s).side = (tu K s').side :=
  canonSide_of_sameSplit hK hs hs' h

theorem rmax0_of_good {l : Rat} (h : GoodL l) : rmax 0 l = if l = NIL then 0 else l := by
  rcases h with h | h
  · simp [h, rmax0_nil]
  · have : l ≠ NIL := by intro h'; rw [h'] at h; exact absurd h (by decide)
    simp [this, rmax0_nonneg h]

theorem fuseLen_eq_fuseEdge {e1 e2 : EdgeD} (h1 : GoodL e1.len) (h2 : GoodL e2.len) (b : Bool) :
    fuseLen e1.len e2.len = (fuseEdge e1 e2 b).len := by
  unfold fuseLen fuseEdge
  simp only [rmax0_of_good h1, rmax0_of_good h2]
  by_cases a1 : e1.len = NIL <;> by_cases a2 : e2.len = NIL <;> simp [a1, a2]

theorem fuseSup_eq_fuseEdge (e1 e2 : EdgeD) :
    fuseSup e1.sup e2.sup = (fuseEdge e1 e2 true).sup := by
  unfold fuseSup fuseEdge rmax
  by_cases a1 : e1.sup = NIL <;> by_cases a2 : e2.sup = NIL <;> simp_all

/-- The effect of pruning on the split list, seen from the kept taxa `K`, with the
    branch data: generated by exactly the steps `removeTip` performs. -/
inductive Ind (K : List String) : List SplitE → List SplitE → Prop
  | refl (L : List SplitE) : Ind K L L
  | trans {L L' L'' : List SplitE} : Ind K L L' → Ind K L' L'' → Ind K L L''
  | append {A A' B B' : List SplitE} : Ind K A A' → Ind K B B' → Ind K (A ++ B) (A' ++ B')
  | swap (A B : List SplitE) : Ind K (A ++ B) (B ++ A)
  | single (s s' : SplitE) (hs : s.below.Nodup) (hs' : s'.below.Nodup)
      (h : ∀ a ∈ K, (a ∈ s.below ↔ a ∈ s'.below)) (he : s'.e = s.e) : Ind K [s] [s']
  | drop (A : List SplitE) (h : ∀ s ∈ A, ∀ a ∈ K, a ∉ s.below) : Ind K A []
  | dropTop (hc : SplitE) (hn : hc.below.Nodup) (h : ∀ a ∈ K, a ∈ hc.below) : Ind K [hc] []
  | fuse (s1 s2 s' : SplitE) (n1 : s1.below.Nodup) (n2 : s2.below.Nodup) (n' : s'.below.Nodup)
      (h1 : sameSplit K s1.below s'.below) (h2 : sameSplit K s2.below s'.below) (b : Bool)
      (hb : 2 ≤ lightSize K s'.below → b = true)
      (he : s'.e = fuseEdge s1.e s2.e b ∨ s'.e = fuseEdge s2.e s1.e b) : Ind K [s1, s2] [s']

theorem tu_fuse {K : List String} (hK : K.Nodup) {s1 s2 s' : SplitE} (n1 : s1.below.Nodup) (n2 : s2.below.Nodup)
    (n' : s'.below.Nodup) (h1 : sameSplit K s1.below s'.below) (h2 : sameSplit K s2.below s'.below) (b : Bool)
    (hb : 2 ≤ lightSize K s'.below → b = true) (g1 : GoodL s1.e.len) (g2 : GoodL s2.e.len)
    (he : s'.e = fuseEdge s1.e s2.e b) : fuseU (tu K s1) (tu K s2) = tu K s' := by
  have c1 : canonSide K s1.below = canonSide K s'.below := canonSide_of_sameSplit hK n1 n' h1
  have c2 : canonSide K s2.below = canonSide K s'.below := canonSide_of_sameSplit hK n2 n' h2
  have hl : lightSize K (canonSide K s'.below) = lightSize K s'.below := lightSize_canonSide hK n'
  unfold fuseU tu
  simp only [c1, c2, he, hl]
  congr 1
  · exact fuseLen_eq_fuseEdge g1 g2 b
  · by_cases hnt : 2 ≤ lightSize K s'.below
    · have := hb hnt
      subst this
      simp only [hnt, if_true]
      exact fuseSup_eq_fuseEdge _ _
    · simp only [hnt, if_false]
      unfold fuseSup; simp

theorem ind_ueq {K : List String} (hK : K.Nodup) {L L' : List SplitE} (h : Ind K L L') :
    LensGood L → UEq (UL K L) (UL K L') ∧ LensGood L' := by
  induction h with
  | refl L => exact fun hg => ⟨UEq.refl _, hg⟩
  | trans _ _ ih1 ih2 =>
    intro hg
    obtain ⟨a1, a2⟩ := ih1 hg
    obtain ⟨b1, b2⟩ := ih2 a2
    exact ⟨a1.trans b1, b2⟩
  | @append A A' B B' _ _ ih1 ih2 =>
    intro hg
    have gA : LensGood A := fun s hs => hg s (List.mem_append_left _ hs)
    have gB : LensGood B := fun s hs => hg s (List.mem_append_right _ hs)
    obtain ⟨a1, a2⟩ := ih1 gA
    obtain ⟨b1, b2⟩ := ih2 gB
    rw [UL_append, UL_append]
    exact ⟨UEq.append (UL_good K gA) (UL_good K a2) a1 b1,
      fun s hs => (List.mem_append.1 hs).elim (a2 s) (b2 s)⟩
  | swap A B =>
    intro hg
    have gA : LensGood A := fun s hs => hg s (List.mem_append_left _ hs)
    have gB : LensGood B := fun s hs => hg s (List.mem_append_right _ hs)
    rw [UL_append, UL_append]
    exact ⟨UEq.swap (UL_good K gA) (UL_good K gB), fun s hs => hg s (List.mem_append.2 (List.mem_append.1 hs).symm)⟩
  | single s s' hs hs' h he =>
    intro hg
    have hsame : sameSplit K s.below s'.below := Or.inl h
    have e1 : nd K s = nd K s' := nd_of_sameSplit hK hs hs' hsame
    have e2 : tu K s = tu K s' := by
      have c := canonSide_of_sameSplit hK hs hs' hsame
      unfold tu; rw [c, he]
    refine ⟨?_, fun t ht => by simp at ht; subst ht; rw [he]; exact hg s (by simp)⟩
    have : UL K [s] = UL K [s'] := by
      unfold UL
      by_cases hn : nd K s' = true
      · simp [e1, hn, e2]
      · simp [e1, hn]
    rw [this]; exact UEq.refl _
  | drop A h =>
    intro _
    refine ⟨?_, fun t ht => by cases ht⟩
    have : UL K A = [] := by
      unfold UL
      rw [List.filter_eq_nil_iff.2]; · rfl
      intro s hs
      have : s.below.filter K.contains = [] := by
        rw [List.filter_eq_nil_iff]
        intro a ha hc
        exact h s hs a (by simpa using hc) ha
      simp [nd, this]
    rw [this]; exact UEq.refl _
  | dropTop hc hn h =>
    intro _
    refine ⟨?_, fun t ht => by cases ht⟩
    have hl : (hc.below.filter K.contains).length = K.length := by
      apply List.Perm.length_eq
      apply perm_of_nodup_mem (hn.filter _) hK
      intro x
      simp only [List.mem_filter, List.contains_eq_mem, decide_eq_true_eq]
      exact ⟨fun h' => h'.2, fun h' => ⟨h x h', h'⟩⟩
    have : UL K [hc] = [] := by
      unfold UL
      have : nd K hc = false := by simp [nd, hl]
      simp [this]
    rw [this]; exact UEq.refl _
  | fuse s1 s2 s' n1 n2 n' h1 h2 b hb he =>
    intro hg
    have g1 := hg s1 (by simp)
    have g2 := hg s2 (by simp)
    refine ⟨?_, fun t ht => by
      simp at ht; subst ht
      rcases he with he | he <;> rw [he] <;> exact fuse_lenOK _ _ _⟩
    have d1 : nd K s1 = nd K s' := nd_of_sameSplit hK n1 n' h1
    have d2 : nd K s2 = nd K s' := nd_of_sameSplit hK n2 n' h2
    by_cases hn : nd K s' = true
    · have u1 : UL K [s1, s2] = [tu K s1, tu K s2] := by simp [UL, d1, d2, hn]
      have u2 : UL K [s'] = [tu K s'] := by simp [UL, hn]
      rw [u1, u2]
      have hside : (tu K s1).side = (tu K s2).side :=
        (tu_side_of_sameSplit hK n1 n' h1).trans (tu_side_of_sameSplit hK n2 n' h2).symm
      rcases he with he | he
      · rw [← tu_fuse hK n1 n2 n' h1 h2 b hb g1 g2 he]
        exact UEq.fuse _ _ hside g1 g2
      · rw [← tu_fuse hK n2 n1 n' h2 h1 b hb g2 g1 he]
        have sw : UEq [tu K s1, tu K s2] [tu K s2, tu K s1] :=
          UEq.swap (A := [tu K s1]) (B := [tu K s2]) (fun w hw => by simp at hw; subst hw; exact g1)
            (fun w hw => by simp at hw; subst hw; exact g2)
        exact sw.trans (UEq.fuse _ _ hside.symm g2 g1)
    · have u1 : UL K [s1, s2] = [] := by simp [UL, d1, d2, hn]
      have u2 : UL K [s'] = [] := by simp [UL, hn]
      rw [u1, u2]; exact UEq.refl _

end Gotree.C06
