/-
  C04 — the two-pass index equals the direct definition (`specIdx`), and what follows
  for hash codes and equality of branches.  Core Lean only.
-/
import Gotree.Spec.C04

namespace Gotree.C04
open Gotree

/-! ## sums of name hashes -/

theorem sumH_append (H : String → UInt64) (a b : List String) : sumH H (a ++ b) = sumH H a + sumH H b := by
  induction a with
  | nil => simp [sumH]
  | cons x r ih => simp only [List.cons_append, sumH, ih, UInt64.add_assoc]

theorem sumH_perm (H : String → UInt64) {a b : List String} (p : a.Perm b) : sumH H a = sumH H b := by
  induction p with
  | nil => rfl
  | cons x _ ih => simp only [sumH, ih]
  | swap x y l => simp only [sumH]; rw [← UInt64.add_assoc, ← UInt64.add_assoc, UInt64.add_comm (H y)]
  | trans _ _ ih1 ih2 => exact ih1.trans ih2

/-! ## the right pass -/

mutual
theorem rightT_eq (H : String → UInt64) : ∀ t : T, rightT H t = (sumH H t.leaves, t.leaves.length)
  | .node d _ [] => by simp [rightT, T.leaves, sumH]
  | .node _ _ (k :: ks) => by
    rw [rightT, T.leaves]; exact rightL_eq H (k :: ks)
theorem rightL_eq (H : String → UInt64) : ∀ k : Kids, rightL H k = (sumH H (leavesL k), (leavesL k).length)
  | [] => by simp [rightL, leavesL, sumH]
  | (_, t) :: r => by
    rw [rightL, leavesL, rightT_eq H t, rightL_eq H r, sumH_append, List.length_append]
end

/-! ## complement of a contiguous segment -/

theorem compl_mid {pre below post : List String} (hn : (pre ++ below ++ post).Nodup) :
    compl (pre ++ below ++ post) below = pre ++ post := by
  have h1 : ∀ x ∈ pre, x ∉ below := by
    intro x hx hb
    have := (List.nodup_append.mp (List.nodup_append.mp hn).1).2.2 x hx x hb
    exact this rfl
  have h2 : ∀ x ∈ post, x ∉ below := by
    intro x hx hb
    have := (List.nodup_append.mp hn).2.2 x (List.mem_append_right _ hb) x hx
    exact this rfl
  unfold compl
  rw [List.filter_append, List.filter_append]
  have e1 : pre.filter (fun x => !below.contains x) = pre := by
    apply List.filter_eq_self.mpr; intro x hx; simp [h1 x hx]
  have e2 : below.filter (fun x => !below.contains x) = [] := by
    apply List.filter_eq_nil_iff.mpr; intro x hx; simp [hx]
  have e3 : post.filter (fun x => !below.contains x) = post := by
    apply List.filter_eq_self.mpr; intro x hx; simp [h2 x hx]
  rw [e1, e2, e3, List.append_nil]

/-! ## bitsets -/

theorem mkBits_eq {sorted below : List String} (hn : sorted.Nodup) (hs : ∀ x ∈ below, x ∈ sorted) :
    mkBits sorted.length (below.map fun x => sorted.idxOf x) = sorted.map fun x => below.contains x := by
  apply List.ext_getElem
  · simp [mkBits]
  · intro i h1 h2
    have hi : i < sorted.length := by simpa [mkBits] using h1
    simp only [mkBits, List.getElem_map, List.getElem_range]
    cases hc : below.contains sorted[i] with
    | true =>
      have hm : sorted[i] ∈ below := by simpa using hc
      rw [List.contains_iff_mem]
      exact List.mem_map.mpr ⟨sorted[i], hm, hn.idxOf_getElem i hi⟩
    | false =>
      cases hd : (below.map fun x => sorted.idxOf x).contains i with
      | false => rfl
      | true =>
        have hm : i ∈ below.map fun x => sorted.idxOf x := by simpa using hd
        obtain ⟨x, hx, e⟩ := List.mem_map.mp hm
        have hlt : sorted.idxOf x < sorted.length := List.idxOf_lt_length_of_mem (hs x hx)
        have : sorted[sorted.idxOf x] = x := List.getElem_idxOf hlt
        have e' : sorted[i] = x := by
          have : sorted[i]'hi = sorted[sorted.idxOf x]'hlt := by congr 1; exact e.symm
          rw [this]; assumption
        rw [e'] at hc
        have : below.contains x = true := by simpa using hx
        rw [this] at hc; exact absurd hc (by decide)

/-! ## the left pass: the model's list is the map of `specIdx` over the split list -/

section
variable (H : String → UInt64) (tips : List String)

/-- the parameters `reinit` passes down -/
abbrev rk : String → Nat := fun x => (sortNames tips).idxOf x

theorem sortNames_perm (l : List String) : (sortNames l).Perm l := List.mergeSort_perm _ _

theorem head_entry (hn : tips.Nodup) {pre below post : List String} (ht : tips = pre ++ below ++ post)
    (hl : Nat) (hh hr : UInt64) (nr : Nat)
    (e1 : hh = sumH H pre + sumH H post) (e2 : hl = pre.length + post.length)
    (e3 : hr = sumH H below) (e4 : nr = below.length) :
    ({ bits := mkBits (sortNames tips).length (below.map (rk tips)), nleft := hl, nright := nr, hleft := hh, hright := hr } : EdgeIdx)
      = specIdx H tips below := by
  have hs : (sortNames tips).Nodup := (sortNames_perm tips).nodup_iff.mpr hn
  have hsub : ∀ x ∈ below, x ∈ sortNames tips := by
    intro x hx
    apply (sortNames_perm tips).mem_iff.mpr
    rw [ht]; exact List.mem_append_left _ (List.mem_append_right _ hx)
  have hc : compl tips below = pre ++ post := by rw [ht]; exact compl_mid (ht ▸ hn)
  unfold specIdx
  rw [hc, sumH_append, List.length_append, mkBits_eq hs hsub, e1, e2, e3, e4]

mutual
theorem idxT_eq (hn : tips.Nodup) : ∀ (t : T) (pre post : List String) (up : UInt64 × Nat),
    tips = pre ++ t.leaves ++ post → up.1 = sumH H pre + sumH H post → up.2 = pre.length + post.length →
    idxT H (rk tips) (sortNames tips).length up t = t.splitsBelow.map fun s => specIdx H tips s.below
  | .node _ _ [], _, _, _, _, _, _ => by simp [idxT, idxL, T.splitsBelow, splitsL]
  | .node _ _ (k :: ks), pre, post, up, ht, h1, h2 => by
    rw [idxT, T.splitsBelow]
    rw [T.leaves] at ht
    exact idxL_eq hn (k :: ks) pre post up (0, 0) ht (by simpa using h1) (by simpa using h2)
theorem idxL_eq (hn : tips.Nodup) : ∀ (k : Kids) (pre post : List String) (up acc : UInt64 × Nat),
    tips = pre ++ leavesL k ++ post → up.1 + acc.1 = sumH H pre + sumH H post → up.2 + acc.2 = pre.length + post.length →
    idxL H (rk tips) (sortNames tips).length up acc k = (splitsL k).map fun s => specIdx H tips s.below
  | [], _, _, _, _, _, _, _ => by simp [idxL, splitsL]
  | (e, t) :: r, pre, post, up, acc, ht, h1, h2 => by
    rw [leavesL] at ht
    have ht1 : tips = pre ++ t.leaves ++ (leavesL r ++ post) := by rw [ht]; simp [List.append_assoc]
    have ht2 : tips = (pre ++ t.leaves) ++ leavesL r ++ post := by rw [ht]; simp [List.append_assoc]
    have hR := rightL_eq H r
    have hT := rightT_eq H t
    have eh : up.1 + acc.1 + (rightL H r).1 = sumH H pre + sumH H (leavesL r ++ post) := by
      rw [hR, h1, sumH_append]
      simp only [UInt64.add_assoc]
      rw [UInt64.add_comm (sumH H post)]
    have en : up.2 + acc.2 + (rightL H r).2 = pre.length + (leavesL r ++ post).length := by
      rw [hR, h2, List.length_append]; simp only; omega
    rw [idxL, splitsL, List.map_cons, List.map_append]
    congr 1
    · exact head_entry H tips hn ht1 _ _ _ _ eh en (by rw [hT]) (by rw [hT])
    · congr 1
      · exact idxT_eq hn t pre (leavesL r ++ post) _ ht1 eh en
      · refine idxL_eq hn r (pre ++ t.leaves) post up _ ht2 ?_ ?_
        · show up.1 + (acc.1 + (rightT H t).1) = _
          rw [hT, ← UInt64.add_assoc, h1, sumH_append]
          simp only [UInt64.add_assoc]
          rw [UInt64.add_comm (sumH H post)]
        · show up.2 + (acc.2 + (rightT H t).2) = _
          rw [hT, List.length_append]; simp only; omega
end

end

/-- `ReinitIndexes` on a tree with unique tip names and at least one tip: the ranks are the
    sorted names, and every branch carries `specIdx` of its split. -/
theorem reinit_eq (H : String → UInt64) (t : T) (hn : t.tipNames.Nodup) (hne : t.tipNames ≠ []) :
    reinit H t = .ok (sortNames t.tipNames, t.splits.map fun s => specIdx H t.tipNames s.below) := by
  have hs : (sortNames t.tipNames).Nodup := (sortNames_perm _).nodup_iff.mpr hn
  have hl : (sortNames t.tipNames).length ≠ 0 := by
    rw [(sortNames_perm _).length_eq]; exact fun h => hne (List.length_eq_zero_iff.mp h)
  unfold reinit
  simp only [hs, decide_true, Bool.not_true, Bool.false_eq_true, if_false, beq_iff_eq, hl]
  congr 2
  have ht : t.tipNames = (if t.kids.length == 1 then [t.name] else []) ++ leavesL t.kids ++ [] := by
    simp [T.tipNames]
  have := idxL_eq H t.tipNames hn t.kids (if t.kids.length == 1 then [t.name] else []) [] (rootUp H t) (0, 0) ht
    (by unfold rootUp; split <;> simp [sumH]) (by unfold rootUp; split <;> simp)
  exact this

/-! ## splits of a tree -/

mutual
theorem below_sublist_T : ∀ (t : T) (s : SplitE), s ∈ t.splitsBelow → s.below.Sublist t.leaves
  | .node _ _ [], s, h => by simp [T.splitsBelow, splitsL] at h
  | .node _ _ (k :: ks), s, h => by
    rw [T.splitsBelow] at h; rw [T.leaves]; exact below_sublist_L (k :: ks) s h
theorem below_sublist_L : ∀ (k : Kids) (s : SplitE), s ∈ splitsL k → s.below.Sublist (leavesL k)
  | [], s, h => by simp [splitsL] at h
  | (e, t) :: r, s, h => by
    rw [splitsL] at h
    rw [leavesL]
    cases List.mem_cons.mp h with
    | inl e' => subst e'; exact List.sublist_append_left _ _
    | inr h' =>
      cases List.mem_append.mp h' with
      | inl h1 => exact (below_sublist_T t s h1).trans (List.sublist_append_left _ _)
      | inr h2 => exact (below_sublist_L r s h2).trans (List.sublist_append_right _ _)
end

theorem below_sublist (t : T) (s : SplitE) (h : s ∈ t.splits) : s.below.Sublist t.tipNames := by
  unfold T.tipNames
  exact (below_sublist_L t.kids s h).trans (List.sublist_append_right _ _)

/-! ## same split ⇒ same hash code, and `equals` ⇔ same split -/

theorem contains_eq_of_mem_iff {a b : List String} (h : ∀ x, x ∈ a ↔ x ∈ b) (x : String) :
    a.contains x = b.contains x := by
  cases ha : a.contains x <;> cases hb : b.contains x <;> simp_all

theorem sortNames_eq_of_perm {a b : List String} (p : a.Perm b) : sortNames a = sortNames b := by
  have hp : (sortNames a).Perm (sortNames b) := ((sortNames_perm a).trans p).trans (sortNames_perm b).symm
  have tr : ∀ (x y z : String), decide (x ≤ y) = true → decide (y ≤ z) = true → decide (x ≤ z) = true := by
    intro x y z h1 h2; simp only [decide_eq_true_eq] at *; exact String.le_trans h1 h2
  have tot : ∀ (x y : String), (decide (x ≤ y) || decide (y ≤ x)) = true := by
    intro x y; cases String.le_total x y with
    | inl h => simp [h]
    | inr h => simp [h]
  refine List.Perm.eq_of_pairwise (le := fun x y => decide (x ≤ y) = true) ?_ (List.pairwise_mergeSort tr tot a) (List.pairwise_mergeSort tr tot b) hp
  intro x y _ _ h1 h2
  simp only [decide_eq_true_eq] at h1 h2
  exact String.le_antisymm h1 h2

theorem hashCode_swap (b1 b2 : List Bool) (nl nr : Nat) (hl hr : UInt64) :
    EdgeIdx.hashCode ⟨b1, nl, nr, hl, hr⟩ = EdgeIdx.hashCode ⟨b2, nr, nl, hr, hl⟩ := by
  unfold EdgeIdx.hashCode
  simp only [beq_iff_eq]
  by_cases h1 : nl = nr
  · subst h1; simp [UInt64.mul_comm]
  · have h1' : ¬ nr = nl := fun h => h1 h.symm
    simp only [h1, h1', if_false]
    by_cases h2 : nl < nr
    · have : ¬ nr < nl := by omega
      simp [h2, this]
    · have : nr < nl := by omega
      simp [h2, this]

theorem compl_nodup {all side : List String} (h : all.Nodup) : (compl all side).Nodup :=
  (List.filter_sublist).nodup h

theorem mem_compl {all side : List String} {x : String} : x ∈ compl all side ↔ x ∈ all ∧ x ∉ side := by
  simp [compl]

/-- the facts about two sides used below -/
structure Sides (tips₁ tips₂ b₁ b₂ : List String) : Prop where
  n1 : tips₁.Nodup
  n2 : tips₂.Nodup
  p : tips₁.Perm tips₂
  s1 : b₁.Sublist tips₁
  s2 : b₂.Sublist tips₂

theorem spec_sameSide (H : String → UInt64) {tips₁ tips₂ b₁ b₂ : List String} (S : Sides tips₁ tips₂ b₁ b₂)
    (h : sameSide tips₁ b₁ b₂ = true) : specIdx H tips₁ b₁ = specIdx H tips₂ b₂ := by
  have hm : ∀ x, x ∈ b₁ ↔ x ∈ b₂ := by
    intro x
    simp only [sameSide, List.all_eq_true, beq_iff_eq] at h
    constructor
    · intro hx
      have := h x (S.s1.subset hx)
      rw [List.contains_iff_mem.mpr hx] at this
      exact List.contains_iff_mem.mp this.symm
    · intro hx
      have := h x (S.p.mem_iff.mpr (S.s2.subset hx))
      rw [List.contains_iff_mem.mpr hx] at this
      exact List.contains_iff_mem.mp this
  have hc := contains_eq_of_mem_iff hm
  have pb : b₁.Perm b₂ := (List.perm_ext_iff_of_nodup (S.s1.nodup S.n1) (S.s2.nodup S.n2)).mpr hm
  have pc : (compl tips₁ b₁).Perm (compl tips₂ b₂) := by
    unfold compl
    have : (fun x => !b₁.contains x) = (fun x => !b₂.contains x) := by funext x; rw [hc x]
    rw [this]; exact S.p.filter _
  unfold specIdx
  rw [sortNames_eq_of_perm S.p, sumH_perm H pb, sumH_perm H pc, pb.length_eq, pc.length_eq]
  congr 1
  apply List.map_congr_left
  intro x _; exact hc x

theorem spec_complSide_perm {tips₁ tips₂ b₁ b₂ : List String} (S : Sides tips₁ tips₂ b₁ b₂)
    (h : complSide tips₁ b₁ b₂ = true) :
    b₁.Perm (compl tips₂ b₂) ∧ (compl tips₁ b₁).Perm b₂ := by
  simp only [complSide, List.all_eq_true, bne_iff_ne, ne_eq] at h
  constructor
  · refine (List.perm_ext_iff_of_nodup (S.s1.nodup S.n1) (compl_nodup S.n2)).mpr ?_
    intro x; rw [mem_compl]
    constructor
    · intro hx
      refine ⟨S.p.mem_iff.mp (S.s1.subset hx), ?_⟩
      intro hx2
      exact h x (S.s1.subset hx) (by rw [List.contains_iff_mem.mpr hx, List.contains_iff_mem.mpr hx2])
    · rintro ⟨hx, hx2⟩
      have := h x (S.p.mem_iff.mpr hx)
      have h2 : b₂.contains x = false := by simpa using hx2
      rw [h2] at this
      cases hb : b₁.contains x with
      | true => exact List.contains_iff_mem.mp hb
      | false => exact absurd hb this
  · refine (List.perm_ext_iff_of_nodup (compl_nodup S.n1) (S.s2.nodup S.n2)).mpr ?_
    intro x; rw [mem_compl]
    constructor
    · rintro ⟨hx, hx1⟩
      have := h x hx
      have h1 : b₁.contains x = false := by simpa using hx1
      rw [h1] at this
      cases hb : b₂.contains x with
      | true => exact List.contains_iff_mem.mp hb
      | false => exact absurd hb.symm this
    · intro hx
      have hx' := S.p.mem_iff.mpr (S.s2.subset hx)
      refine ⟨hx', ?_⟩
      intro hx1
      exact h x hx' (by rw [List.contains_iff_mem.mpr hx, List.contains_iff_mem.mpr hx1])

theorem spec_hashCode_of_sameSplit (H : String → UInt64) {tips₁ tips₂ b₁ b₂ : List String} (S : Sides tips₁ tips₂ b₁ b₂)
    (h : sameSplit tips₁ b₁ b₂ = true) :
    (specIdx H tips₁ b₁).hashCode = (specIdx H tips₂ b₂).hashCode := by
  simp only [sameSplit, Bool.or_eq_true] at h
  cases h with
  | inl h => rw [spec_sameSide H S h]
  | inr h =>
    obtain ⟨p1, p2⟩ := spec_complSide_perm S h
    unfold specIdx
    rw [sumH_perm H p1, p1.length_eq, ← sumH_perm H p2, ← p2.length_eq]
    exact hashCode_swap _ _ _ _ _ _

theorem spec_equals_iff_sameSplit (H : String → UInt64) {tips₁ tips₂ b₁ b₂ : List String} (S : Sides tips₁ tips₂ b₁ b₂) :
    (specIdx H tips₁ b₁).equals (specIdx H tips₂ b₂) = sameSplit tips₁ b₁ b₂ := by
  have hs : sortNames tips₂ = sortNames tips₁ := (sortNames_eq_of_perm S.p).symm
  have hmem : ∀ x, x ∈ sortNames tips₁ ↔ x ∈ tips₁ := fun x => (sortNames_perm tips₁).mem_iff
  unfold EdgeIdx.equals bitsEqualOrComplement sameSplit specIdx
  simp only [hs, List.map_map]
  congr 1
  · -- equal bitsets ⇔ same side
    rw [Bool.eq_iff_iff]
    simp only [beq_iff_eq, List.map_inj_left, sameSide, List.all_eq_true]
    constructor
    · intro h x hx; exact h x ((hmem x).mpr hx)
    · intro h x hx; exact h x ((hmem x).mp hx)
  · rw [Bool.eq_iff_iff]
    simp only [beq_iff_eq, List.map_inj_left, complSide, List.all_eq_true, Function.comp, bne_iff_ne, ne_eq]
    constructor
    · intro h x hx
      have := h x ((hmem x).mpr hx)
      intro e; rw [e] at this; simp at this
    · intro h x hx
      have hne := h x ((hmem x).mp hx)
      cases h1 : b₁.contains x <;> cases h2 : b₂.contains x <;> rw [h1, h2] at hne <;>
        first | rfl | exact absurd rfl hne

/-! ## sizes of the two sides -/

theorem leaves_ne_nil (t : T) : t.leaves ≠ [] := by
  induction t using T.induct with
  | h d p k ih =>
    cases k with
    | nil => simp [T.leaves]
    | cons x ks =>
      obtain ⟨e, t'⟩ := x
      rw [T.leaves, leavesL]
      intro h
      exact ih (e, t') (List.mem_cons_self ..) (List.append_eq_nil_iff.mp h).1

theorem leaves_pos (t : T) : 0 < t.leaves.length := List.length_pos_iff.mpr (leaves_ne_nil t)

mutual
theorem below_pos_T : ∀ (t : T) (s : SplitE), s ∈ t.splitsBelow → 0 < s.below.length
  | .node _ _ [], s, h => by simp [T.splitsBelow, splitsL] at h
  | .node _ _ (k :: ks), s, h => by rw [T.splitsBelow] at h; exact below_pos_L (k :: ks) s h
theorem below_pos_L : ∀ (k : Kids) (s : SplitE), s ∈ splitsL k → 0 < s.below.length
  | [], s, h => by simp [splitsL] at h
  | (e, t) :: r, s, h => by
    rw [splitsL] at h
    cases List.mem_cons.mp h with
    | inl e' => subst e'; exact leaves_pos t
    | inr h' =>
      cases List.mem_append.mp h' with
      | inl h1 => exact below_pos_T t s h1
      | inr h2 => exact below_pos_L r s h2
end

theorem mem_splitsL (k : Kids) (s : SplitE) (h : s ∈ splitsL k) : ∃ et ∈ k, s.below.Sublist et.2.leaves := by
  induction k with
  | nil => simp [splitsL] at h
  | cons x r ih =>
    obtain ⟨e, t⟩ := x
    rw [splitsL] at h
    cases List.mem_cons.mp h with
    | inl e' => subst e'; exact ⟨(e, t), List.mem_cons_self .., List.Sublist.refl _⟩
    | inr h' =>
      cases List.mem_append.mp h' with
      | inl h1 => exact ⟨(e, t), List.mem_cons_self .., below_sublist_T t s h1⟩
      | inr h2 =>
        obtain ⟨et, hm, hs⟩ := ih h2
        exact ⟨et, List.mem_cons_of_mem _ hm, hs⟩

theorem leavesL_pos (k : Kids) (h : 1 ≤ k.length) : 0 < (leavesL k).length := by
  cases k with
  | nil => simp at h
  | cons x r => obtain ⟨e, t⟩ := x; rw [leavesL, List.length_append]; have := leaves_pos t; omega

theorem leaves_lt_of_mem (k : Kids) (et : EdgeD × T) (hm : et ∈ k) (h2 : 2 ≤ k.length) :
    et.2.leaves.length < (leavesL k).length := by
  induction k with
  | nil => cases hm
  | cons x r ih =>
    obtain ⟨e, t⟩ := x
    rw [leavesL, List.length_append]
    have hr : 1 ≤ r.length := by simp at h2; omega
    cases List.mem_cons.mp hm with
    | inl e' => subst e'; have := leavesL_pos r hr; simp only; omega
    | inr h' =>
      have hp := leaves_pos t
      by_cases h3 : 2 ≤ r.length
      · have := ih h' h3; omega
      · -- r has exactly one element, which is `et`
        cases r with
        | nil => cases h'
        | cons y r' =>
          cases r' with
          | nil =>
            cases List.mem_cons.mp h' with
            | inl e' => subst e'; obtain ⟨e₂, t₂⟩ := et; simp [leavesL] <;> omega
            | inr h'' => cases h''
          | cons z r'' => exact absurd (by simp) h3

/-- the side below a branch is never empty and never everything -/
theorem below_proper (t : T) (s : SplitE) (h : s ∈ t.splits) :
    0 < s.below.length ∧ s.below.length < t.tipNames.length := by
  refine ⟨below_pos_L t.kids s h, ?_⟩
  unfold T.tipNames
  rw [List.length_append]
  by_cases h1 : t.kids.length = 1
  · have := (below_sublist_L t.kids s h).length_le
    simp [h1]; omega
  · obtain ⟨et, hm, hs⟩ := mem_splitsL t.kids s h
    have hle := hs.length_le
    have h2 : 2 ≤ t.kids.length := by
      have : t.kids.length ≠ 0 := by intro h0; rw [List.length_eq_zero_iff.mp h0] at hm; cases hm
      omega
    have := leaves_lt_of_mem t.kids et hm h2
    simp [h1]; omega

theorem sameSplit_eq_vec (all a b : List String) :
    sameSplit all a b = sameSplitV (memVec all a) (memVec all b) := by
  unfold sameSplit sameSplitV memVec
  congr 1
  · rw [Bool.eq_iff_iff]
    simp only [sameSide, List.all_eq_true, beq_iff_eq, List.map_inj_left]
  · rw [Bool.eq_iff_iff]
    simp only [complSide, List.all_eq_true, beq_iff_eq, List.map_map, List.map_inj_left, Function.comp, bne_iff_ne, ne_eq]
    constructor
    · intro h x hx
      have := h x hx
      cases h1 : a.contains x <;> cases h2 : b.contains x <;> rw [h1, h2] at this <;>
        first | rfl | exact absurd rfl this
    · intro h x hx e
      have := h x hx
      rw [e] at this; simp at this

theorem sameSplit_iff (all a b : List String) : sameSplit all a b = true ↔
    (∀ x ∈ all, a.contains x = b.contains x) ∨ (∀ x ∈ all, a.contains x = !b.contains x) := by
  simp only [sameSplit, sameSide, complSide, Bool.or_eq_true, List.all_eq_true, beq_iff_eq, bne_iff_ne, ne_eq]
  constructor
  · rintro (h | h)
    · exact Or.inl h
    · refine Or.inr fun x hx => ?_
      have := h x hx
      cases h1 : a.contains x <;> cases h2 : b.contains x <;> rw [h1, h2] at this <;>
        first | rfl | exact absurd rfl this
  · rintro (h | h)
    · exact Or.inl h
    · refine Or.inr fun x hx e => ?_
      have := h x hx
      rw [e] at this; simp at this

theorem sameSplit_refl (all a : List String) : sameSplit all a a = true :=
  (sameSplit_iff all a a).mpr (Or.inl fun _ _ => rfl)

theorem sameSplit_symm {all a b : List String} (h : sameSplit all a b = true) : sameSplit all b a = true := by
  rw [sameSplit_iff] at h ⊢
  cases h with
  | inl h => exact Or.inl fun x hx => (h x hx).symm
  | inr h => refine Or.inr fun x hx => ?_; rw [h x hx]; simp

theorem sameSplit_trans {all a b c : List String} (h1 : sameSplit all a b = true) (h2 : sameSplit all b c = true) :
    sameSplit all a c = true := by
  rw [sameSplit_iff] at h1 h2 ⊢
  rcases h1 with h1 | h1 <;> rcases h2 with h2 | h2
  · exact Or.inl fun x hx => (h1 x hx).trans (h2 x hx)
  · exact Or.inr fun x hx => (h1 x hx).trans (h2 x hx)
  · refine Or.inr fun x hx => ?_; rw [h1 x hx, h2 x hx]
  · refine Or.inl fun x hx => ?_; rw [h1 x hx, h2 x hx]; simp

theorem filter_not_add (p : String → Bool) (l : List String) :
    (l.filter fun x => !p x).length + (l.filter p).length = l.length := by
  induction l with
  | nil => rfl
  | cons a r ih =>
    simp only [List.filter_cons]
    cases p a <;> simp <;> omega

theorem compl_length {all side : List String} (ha : all.Nodup) (hs : side.Sublist all) :
    (compl all side).length + side.length = all.length := by
  have hp : (all.filter fun x => side.contains x).Perm side := by
    refine (List.perm_ext_iff_of_nodup ((List.filter_sublist).nodup ha) (hs.nodup ha)).mpr ?_
    intro x; simp only [List.mem_filter, List.contains_iff_mem]
    exact ⟨fun h => h.2, fun h => ⟨hs.subset h, h⟩⟩
  rw [← hp.length_eq]
  exact filter_not_add (fun x => side.contains x) all

/-! ## FindEdge -/

theorem spec_bits_not_all_zero (H : String → UInt64) {tips below : List String}
    (hs : below.Sublist tips) (hp : 0 < below.length) : (specIdx H tips below).bits.all (!·) = false := by
  obtain ⟨x, hx⟩ := List.exists_mem_of_length_pos hp
  have hx' : x ∈ sortNames tips := (sortNames_perm tips).mem_iff.mpr (hs.subset hx)
  rw [Bool.eq_false_iff]
  intro h
  simp only [specIdx, List.all_eq_true, List.mem_map] at h
  have := h (below.contains x) ⟨x, hx', rfl⟩
  rw [List.contains_iff_mem.mpr hx] at this
  exact absurd this (by decide)

theorem findEdge_go_spec (H : String → UInt64) {tips₁ tips₂ b : List String} (tip : Bool)
    (n1 : tips₁.Nodup) (n2 : tips₂.Nodup) (p : tips₁.Perm tips₂) (hb : b.Sublist tips₁)
    (l : List SplitE) (hl : ∀ s ∈ l, s.below.Sublist tips₂ ∧ 0 < s.below.length) :
    findEdge.go (specIdx H tips₁ b) tip (l.map fun s => (specIdx H tips₂ s.below, s.tip)) =
      some (specFindEdge tips₁ b tip l) := by
  induction l with
  | nil => rfl
  | cons s r ih =>
    have ih' := ih fun s' hs' => hl s' (List.mem_cons_of_mem _ hs')
    obtain ⟨hs, hpos⟩ := hl s (List.mem_cons_self ..)
    have S : Sides tips₁ tips₂ b s.below := ⟨n1, n2, p, hb, hs⟩
    simp only [List.map_cons, findEdge.go, specFindEdge, List.any_cons]
    cases ht : tip == s.tip with
    | false =>
      have : (tip != s.tip) = true := by simp [bne, ht]
      simp only [this, if_true, Bool.false_and, Bool.false_or]
      exact ih'
    | true =>
      have : (tip != s.tip) = false := by simp [bne, ht]
      simp only [this, Bool.false_eq_true, if_false, Bool.true_and]
      have he := spec_equals_iff_sameSplit H S
      unfold EdgeIdx.equals at he
      cases hss : sameSplit tips₁ b s.below with
      | true =>
        have hh := spec_hashCode_of_sameSplit H S hss
        have : ((specIdx H tips₁ b).hashCode != (specIdx H tips₂ s.below).hashCode) = false := by simp [bne, hh]
        simp only [this, Bool.false_eq_true, if_false, he, hss, if_true, spec_bits_not_all_zero H hs hpos, Bool.true_or]
      | false =>
        simp only [he, hss, Bool.false_eq_true, if_false, Bool.false_or]
        split
        · exact ih'
        · exact ih'

/-- `FindEdge` of a spec record among the spec records of another tree on the same taxa -/
theorem findEdge_spec_level (H : String → UInt64) (t₂ : T) {tips₁ b : List String} (tip : Bool)
    (n1 : tips₁.Nodup) (n2 : t₂.tipNames.Nodup) (p : tips₁.Perm t₂.tipNames) (hb : b.Sublist tips₁) (hpos : 0 < b.length) :
    findEdge (specIdx H tips₁ b) tip (t₂.splits.map fun s => (specIdx H t₂.tipNames s.below, s.tip)) =
      some (specFindEdge tips₁ b tip t₂.splits) := by
  unfold findEdge
  rw [spec_bits_not_all_zero H hb hpos]
  simp only [Bool.false_eq_true, if_false]
  exact findEdge_go_spec H tip n1 n2 p hb t₂.splits
    fun s hs => ⟨below_sublist t₂ s hs, (below_proper t₂ s hs).1⟩

theorem commonEdgesLoop_spec (H : String → UInt64) (t₂ : T) {tips₁ : List String} (tipEdges : Bool)
    (n1 : tips₁.Nodup) (n2 : t₂.tipNames.Nodup) (p : tips₁.Perm t₂.tipNames)
    (l : List SplitE) (hl : ∀ s ∈ l, s.below.Sublist tips₁ ∧ 0 < s.below.length) (tree1 common : Nat) :
    commonEdgesLoop tipEdges (t₂.splits.map fun s => (specIdx H t₂.tipNames s.below, s.tip))
        (l.map fun s => (specIdx H tips₁ s.below, s.tip)) (tree1 : Int) (common : Int) =
      some ((((tree1 + (l.filter fun s => tipEdges || !s.tip).length : Nat) : Int) -
             ((common + ((l.filter fun s => tipEdges || !s.tip).filter fun s => specFindEdge tips₁ s.below s.tip t₂.splits).length : Nat) : Int)),
            ((common + ((l.filter fun s => tipEdges || !s.tip).filter fun s => specFindEdge tips₁ s.below s.tip t₂.splits).length : Nat) : Int)) := by
  induction l generalizing tree1 common with
  | nil => simp [commonEdgesLoop]
  | cons s r ih =>
    have ih' := ih fun s' hs' => hl s' (List.mem_cons_of_mem _ hs')
    obtain ⟨hs, hpos⟩ := hl s (List.mem_cons_self ..)
    simp only [List.map_cons, commonEdgesLoop]
    cases hc : (tipEdges || !s.tip) with
    | false =>
      simp only [Bool.false_eq_true, if_false, List.filter_cons, hc]
      exact ih' tree1 common
    | true =>
      simp only [if_true, findEdge_spec_level H t₂ s.tip n1 n2 p hs hpos, List.filter_cons, hc]
      cases hf : specFindEdge tips₁ s.below s.tip t₂.splits with
      | false =>
        simp only [Bool.false_eq_true, if_false]
        have := ih' (tree1 + 1) common
        simp only [Int.natCast_add, Int.natCast_one] at this ⊢
        rw [this]
        simp only [List.length_cons, Int.natCast_add, Int.natCast_one]
        congr 2
        omega
      | true =>
        simp only [if_true]
        have := ih' (tree1 + 1) (common + 1)
        simp only [Int.natCast_add, Int.natCast_one] at this ⊢
        rw [this]
        simp only [List.length_cons, Int.natCast_add, Int.natCast_one]
        congr 2 <;> omega

/-! ## keys from several trees on the same taxa -/

/-- `sameSplit` looks at `all` only as a set -/
theorem sameSplit_perm {all all' : List String} (p : all.Perm all') (a b : List String) :
    sameSplit all a b = sameSplit all' a b := by
  rw [Bool.eq_iff_iff, sameSplit_iff, sameSplit_iff]
  constructor
  · rintro (h | h)
    · exact Or.inl fun x hx => h x (p.mem_iff.mpr hx)
    · exact Or.inr fun x hx => h x (p.mem_iff.mpr hx)
  · rintro (h | h)
    · exact Or.inl fun x hx => h x (p.mem_iff.mp hx)
    · exact Or.inr fun x hx => h x (p.mem_iff.mp hx)

/-- A branch of some tree on the taxa `tips`: the tip order of its tree (any permutation of `tips`)
    and the leaves below the branch in that order. -/
structure TreeKey (tips : List String) where
  order : List String
  below : List String
  perm : order.Perm tips
  sub : below.Sublist order

/-- the index record `ReinitIndexes` leaves on that branch (theorem `indexOf_eq`) -/
def TreeKey.idx (H : String → UInt64) {tips : List String} (k : TreeKey tips) : EdgeIdx :=
  specIdx H k.order k.below

theorem TreeKey.sides {tips : List String} (hn : tips.Nodup) (a b : TreeKey tips) :
    Sides a.order b.order a.below b.below :=
  ⟨a.perm.nodup_iff.mpr hn, b.perm.nodup_iff.mpr hn, a.perm.trans b.perm.symm, a.sub, b.sub⟩

theorem TreeKey.equals_eq (H : String → UInt64) {tips : List String} (hn : tips.Nodup) (a b : TreeKey tips) :
    (a.idx H).equals (b.idx H) = sameSplit tips a.below b.below := by
  unfold TreeKey.idx
  rw [spec_equals_iff_sameSplit H (TreeKey.sides hn a b), sameSplit_perm a.perm]

end Gotree.C04
