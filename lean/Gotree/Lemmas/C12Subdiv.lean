/-
  C12 — a node with one child inserted on a branch changes neither the Sankoff vectors above it nor the
  minimum: the vectors `gv` are 1-Lipschitz, so looking at them through one more branch changes nothing.
-/
import Gotree.Lemmas.C12Cli

namespace Gotree.C12
open Gotree

theorem subdivideL_length : ∀ (ks : Kids) (i : Nat) (q : List Nat), (subdivideL ks i q).length = ks.length
  | [], _, _ => by simp [subdivideL]
  | (e, c) :: r, 0, [] => by simp [subdivideL]
  | (e, c) :: r, 0, j :: q => by simp [subdivideL]
  | x :: r, i + 1, q => by
    obtain ⟨e, c⟩ := x
    simp [subdivideL, subdivideL_length r i q]

section subdiv
variable (k : Nat) (tv : String → Vec)

theorem gv_node_cons (d : NodeD) (p : Nat) (x : EdgeD × T) (xs : Kids) :
    gv k tv (.node d p (x :: xs)) = through k (fL k tv (x :: xs)) := by
  simp only [gv]

/-- `gv c s ≤ gv c t + 1` -/
theorem gv_lipschitz (hk : 0 < k) (c : T) (s t : Nat) (hs : s < k) (ht : t < k) :
    (gv k tv c).at s ≤ (gv k tv c).at t + 1 := by
  match c with
  | .node d p [] =>
    simp only [gv, at_tab, hs, ht, if_true]
    split <;> split <;> omega
  | .node d p (x :: xs) =>
    simp only [gv, through, at_tab, hs, ht, if_true]
    obtain ⟨u, hu, he⟩ := minOver_attained k hk (fun u => (fL k tv (x :: xs)).at u + (if t = u then 0 else 1))
    have h1 := minOver_le k (fun u => (fL k tv (x :: xs)).at u + (if s = u then 0 else 1)) u hu
    rw [← he]
    split at h1 <;> split <;> omega

/-- the vector of a node with the single child `c` is the vector of `c` -/
theorem gv_single (hk : 0 < k) (d : NodeD) (p : Nat) (e : EdgeD) (c : T) (s : Nat) (hs : s < k) :
    (gv k tv (.node d p [(e, c)])).at s = (gv k tv c).at s := by
  simp only [gv, through, at_tab, hs, if_true]
  have hfl : ∀ t, t < k → (fL k tv [(e, c)]).at t = (gv k tv c).at t := by
    intro t ht; simp only [fL, at_vadd, at_vzero, ht, if_true]; omega
  apply Nat.le_antisymm
  · have h := minOver_le k (fun t => (fL k tv [(e, c)]).at t + (if s = t then 0 else 1)) s hs
    rw [hfl s hs] at h
    simpa using h
  · obtain ⟨t, ht, he⟩ := minOver_attained k hk (fun t => (fL k tv [(e, c)]).at t + (if s = t then 0 else 1))
    rw [← he, hfl t ht]
    have hl := gv_lipschitz k tv hk c s t hs ht
    by_cases hst : s = t
    · subst hst; simp
    · simp [hst]; omega

/-- pointwise equal below `k` -/
def EqK (a b : Vec) : Prop := ∀ s, s < k → a.at s = b.at s

theorem gv_congr (hk : 0 < k) (d d' : NodeD) (p p' : Nat) (x y : EdgeD × T) (xs ys : Kids)
    (h : EqK k (fL k tv (x :: xs)) (fL k tv (y :: ys))) :
    EqK k (gv k tv (.node d p (x :: xs))) (gv k tv (.node d' p' (y :: ys))) := by
  intro s _
  rw [gv_node_cons, gv_node_cons]
  exact through_congr k hk _ _ h s

mutual
theorem gv_subdivide (hk : 0 < k) : ∀ (t : T) (q : List Nat), EqK k (gv k tv (subdivide t q)) (gv k tv t)
  | t, [] => by intro s _; simp [subdivide]
  | .node d p [], i :: q => by intro s _; simp [subdivide, subdivideL]
  | .node d p (x :: xs), i :: q => by
    have hf := fL_subdivide hk (x :: xs) i q
    simp only [subdivide]
    match hsd : subdivideL (x :: xs) i q, hf with
    | [], hf =>
      -- impossible: the list keeps its length
      exfalso
      have := subdivideL_length (x :: xs) i q
      rw [hsd] at this; simp at this
    | y :: ys, hf => exact gv_congr k tv hk d d p p y x ys xs hf
theorem fL_subdivide (hk : 0 < k) : ∀ (ks : Kids) (i : Nat) (q : List Nat),
    EqK k (fL k tv (subdivideL ks i q)) (fL k tv ks)
  | [], _, _ => by intro s _; simp [subdivideL]
  | (e, c) :: r, 0, [] => by
    intro s hs
    simp only [subdivideL, fL, at_vadd, hs, if_true]
    rw [gv_single k tv hk _ _ _ c s hs]
  | (e, c) :: r, 0, j :: q => by
    intro s hs
    simp only [subdivideL, fL, at_vadd, hs, if_true]
    rw [gv_subdivide hk c (j :: q) s hs]
  | x :: r, i + 1, q => by
    intro s hs
    obtain ⟨e, c⟩ := x
    simp only [subdivideL, fL, at_vadd, hs, if_true]
    rw [fL_subdivide hk r i q s hs]
end

theorem minCost_subdivide (hk : 0 < k) (t : T) (q : List Nat) :
    minCost k tv (subdivide t q) = minCost k tv t := by
  match t, q with
  | t, [] => simp [subdivide]
  | .node d p ks, i :: q =>
    simp only [subdivide, minCost, T.kids_node]
    exact minOver_congr k hk _ _ (fL_subdivide k tv hk ks i q)

/- the leaves are the same -/
mutual
theorem leaves_subdivide : ∀ (t : T) (q : List Nat), (subdivide t q).leaves = t.leaves
  | t, [] => by simp [subdivide]
  | .node d p [], i :: q => by simp [subdivide, subdivideL]
  | .node d p (x :: xs), i :: q => by
    simp only [subdivide]
    have hl := leavesL_subdivide (x :: xs) i q
    match hsd : subdivideL (x :: xs) i q, hl with
    | [], _ =>
      exfalso
      have := subdivideL_length (x :: xs) i q
      rw [hsd] at this; simp at this
    | y :: ys, hl => rw [leaves_node_cons, leaves_node_cons]; exact hl
theorem leavesL_subdivide : ∀ (ks : Kids) (i : Nat) (q : List Nat), leavesL (subdivideL ks i q) = leavesL ks
  | [], _, _ => by simp [subdivideL]
  | (e, c) :: r, 0, [] => by
    simp only [subdivideL, leavesL]
    rw [leaves_node_cons]; simp [leavesL]
  | (e, c) :: r, 0, j :: q => by
    simp only [subdivideL, leavesL]
    rw [leaves_subdivide c (j :: q)]
  | x :: r, i + 1, q => by
    obtain ⟨e, c⟩ := x
    simp only [subdivideL, leavesL]
    rw [leavesL_subdivide r i q]
end

end subdiv

end Gotree.C12
