/-
  C09 — the float64 product of the threshold (Model/C09Float.lean): the repaired cut is the exact
  floor for every monotone rounding that fixes the integers; the witness collection of the defect.
-/
import Gotree.Lemmas.C09
import Gotree.Model.C09Float

namespace Gotree.C09
open Gotree

/-- The repaired cut is the exact floor for every rounding of the product that is monotone and
    leaves the integers where they are (round-to-nearest of float64 below 2^53 is such a rounding). -/
theorem fmaCutG_eq_floorCut (rnd : Rat → Rat) (hmono : ∀ a b : Rat, a ≤ b → rnd a ≤ rnd b)
    (hint : ∀ k : Int, rnd (k : Rat) = (k : Rat)) (c : Rat) (n : Nat) (hc : 0 ≤ c) :
    fmaCutG rnd c n = floorCut c n := by
  unfold fmaCutG floatCutG floorCut
  generalize hq : c * (n : Rat) = q
  have h0 : (0 : Rat) ≤ q := by rw [← hq]; exact Rat.mul_nonneg hc (by exact_mod_cast Nat.zero_le n)
  have hF0 : 0 ≤ q.floor := Rat.le_floor_iff.2 (by simpa using h0)
  have hFq : ((q.floor : Int) : Rat) ≤ q := Rat.le_floor_iff.1 (Int.le_refl _)
  have hqF : q < ((q.floor + 1 : Int) : Rat) := Rat.floor_lt_iff.1 (by omega)
  have h1 : q.floor ≤ (rnd q).floor := by
    apply Rat.le_floor_iff.2
    have := hmono _ _ hFq
    rwa [hint] at this
  have h2 : (rnd q).floor ≤ q.floor + 1 := by
    have : (rnd q).floor < q.floor + 2 := by
      apply Rat.floor_lt_iff.2
      have h := hmono _ _ (Rat.le_of_lt hqF)
      rw [hint] at h
      have : ((q.floor + 1 : Int) : Rat) < ((q.floor + 2 : Int) : Rat) := by exact_mod_cast (by omega : q.floor + 1 < q.floor + 2)
      grind
    omega
  have hM0 : 0 ≤ (rnd q).floor := by omega
  have hcast : (((rnd q).floor.toNat : Nat) : Rat) = (((rnd q).floor : Int) : Rat) := by
    have : (((rnd q).floor.toNat : Nat) : Int) = (rnd q).floor := Int.toNat_of_nonneg hM0
    exact_mod_cast this
  show (if q - (((rnd q).floor.toNat : Nat) : Rat) < 0 then (rnd q).floor.toNat - 1 else (rnd q).floor.toNat) = q.floor.toNat
  rw [hcast]
  by_cases hcase : (rnd q).floor = q.floor
  · rw [hcase]
    have : ¬ (q - ((q.floor : Int) : Rat) < 0) := by grind
    rw [if_neg this]
  · have hM : (rnd q).floor = q.floor + 1 := by omega
    rw [hM]
    have : q - ((q.floor + 1 : Int) : Rat) < 0 := by grind
    rw [if_pos this]
    omega
/-- `fl(2/3)`: the float64 nearest to 2/3, which is below 2/3 -/
def exFloatC : Rat := 6004799503160661/9007199254740992
/-- ab|cde is in two of the three trees: frequency 2/3 > `exFloatC` -/
def exFloat : List T :=
  [exRoot [exInner 1 [exTip "a" 1, exTip "b" 1], exTip "c" 1, exInner 1 [exTip "d" 1, exTip "e" 1]],
   exRoot [exInner 1 [exTip "a" 1, exTip "b" 1], exTip "c" 1, exInner 1 [exTip "d" 1, exTip "e" 1]],
   exRoot [exInner 1 [exTip "a" 1, exTip "c" 1], exTip "b" 1, exInner 1 [exTip "d" 1, exTip "e" 1]]]

/-- `((a:1,b:1):1,c:1,d:1);` -/
def exNaN : T := exRoot [exInner 1 [exTip "a" 1, exTip "b" 1], exTip "c" 1, exTip "d" 1]

theorem lengthsOK_whereDefined (ts : List T) (r : T) (h : C09S.lengthsOK ts r = true) :
    C09S.lengthsOKWhereDefined ts r = true := by
  unfold C09S.lengthsOKWhereDefined
  unfold C09S.lengthsOK at h
  rw [List.all_eq_true] at h ⊢
  intro u hu
  rw [h u hu, Bool.or_true]

/-! ## the float64 rounding of the driver does not cross the integers below 2^53 -/

theorem rne_cases (s : Rat) : rne s = s.floor ∨ (rne s = s.floor + 1 ∧ (s.floor : Rat) < s) := by
  unfold rne
  by_cases h : (decide (s - (s.floor : Rat) > 1/2) || (s - (s.floor : Rat) == 1/2 && s.floor % 2 == 1)) = true
  · right
    simp only [h, if_true, true_and]
    have : (0 : Rat) < s - (s.floor : Rat) := by
      rw [Bool.or_eq_true] at h
      rcases h with h1 | h1
      · have := of_decide_eq_true h1; grind
      · rw [Bool.and_eq_true] at h1
        have := eq_of_beq h1.1; rw [this]; decide +kernel
    grind
  · left
    simp only [h]
    rfl

/-- rounding half to even does not cross an integer: from below … -/
theorem rne_ge (s : Rat) (K : Int) (h : (K : Rat) ≤ s) : K ≤ rne s := by
  have h1 : K ≤ s.floor := Rat.le_floor_iff.2 h
  rcases rne_cases s with e | ⟨e, _⟩ <;> omega

/-- … and from above -/
theorem rne_le (s : Rat) (K : Int) (h : s ≤ (K : Rat)) : rne s ≤ K := by
  have hf : (s.floor : Rat) ≤ s := Rat.floor_le s
  rcases rne_cases s with e | ⟨e, hlt⟩
  · have : (s.floor : Rat) ≤ (K : Rat) := by grind
    have := Rat.intCast_le_intCast.1 this
    omega
  · have : (s.floor : Rat) < (K : Rat) := by grind
    have := Rat.intCast_lt_intCast.1 this
    omega

theorem two_pow_pos_rat (n : Nat) : (0 : Rat) < ((2 ^ n : Nat) : Rat) :=
  Rat.natCast_pos.2 (Nat.two_pow_pos n)

theorem roundAt_ge_nat (q : Rat) (e : Int) (k : Nat) (hk : k < 9007199254740992) (h : (k : Rat) ≤ q) :
    (k : Rat) ≤ roundAt q e := by
  unfold roundAt
  by_cases he : e ≤ 0
  · rw [if_pos he]
    generalize (-e).toNat = n
    have hQ := two_pow_pos_rat n
    have h1 : (((k * 2 ^ n : Nat) : Int) : Rat) ≤ q * ((2 ^ n : Nat) : Rat) := by
      rw [Rat.intCast_natCast, Rat.natCast_mul]
      exact Rat.mul_le_mul_of_nonneg_right h (Rat.le_of_lt hQ)
    have h2 := rne_ge _ _ h1
    have h3 : (((k * 2 ^ n : Nat) : Int) : Rat) ≤ ((rne (q * ((2 ^ n : Nat) : Rat)) : Int) : Rat) :=
      Rat.intCast_le_intCast.2 h2
    rw [Rat.intCast_natCast, Rat.natCast_mul] at h3
    apply Rat.not_lt.1
    intro hlt
    have := (Rat.div_lt_iff hQ).1 hlt
    exact absurd h3 (Rat.not_le.2 this)
  · rw [if_neg he]
    by_cases hg : (4503599627370496 : Rat) ≤ q / ((2 ^ e.toNat : Nat) : Rat)
    · rw [if_pos hg]
      obtain ⟨m, hm⟩ : ∃ m, e.toNat = m + 1 := ⟨e.toNat - 1, by omega⟩
      rw [hm] at hg ⊢
      have hP : (2 : Rat) ≤ ((2 ^ (m + 1) : Nat) : Rat) := by
        have : 2 ≤ 2 ^ (m + 1) := by
          have := Nat.two_pow_pos m
          rw [Nat.pow_succ]; omega
        exact_mod_cast Rat.natCast_le_natCast.2 this
      have hR : ((4503599627370496 : Int) : Rat) ≤ ((rne (q / ((2 ^ (m + 1) : Nat) : Rat)) : Int) : Rat) :=
        Rat.intCast_le_intCast.2 (rne_ge _ 4503599627370496 (by rw [Rat.intCast_ofNat]; exact hg))
      have hR0 : (0 : Rat) ≤ ((rne (q / ((2 ^ (m + 1) : Nat) : Rat)) : Int) : Rat) := by
        have : (0 : Rat) ≤ ((4503599627370496 : Int) : Rat) := by decide +kernel
        exact Rat.le_trans this hR
      have s1 : ((4503599627370496 : Int) : Rat) * 2 ≤ ((rne (q / ((2 ^ (m + 1) : Nat) : Rat)) : Int) : Rat) * 2 :=
        Rat.mul_le_mul_of_nonneg_right hR (by decide +kernel)
      have s2 := Rat.mul_le_mul_of_nonneg_left hP hR0
      have hk' : (k : Rat) < ((9007199254740992 : Nat) : Rat) := Rat.natCast_lt_natCast.2 hk
      have e1 : ((4503599627370496 : Int) : Rat) * 2 = ((9007199254740992 : Nat) : Rat) := by decide +kernel
      grind
    · rw [if_neg hg]; exact h

theorem roundAt_le_nat (q : Rat) (e : Int) (k : Nat) (hk : k < 9007199254740992) (h : q ≤ (k : Rat)) :
    roundAt q e ≤ (k : Rat) := by
  unfold roundAt
  by_cases he : e ≤ 0
  · rw [if_pos he]
    generalize (-e).toNat = n
    have hQ := two_pow_pos_rat n
    have h1 : q * ((2 ^ n : Nat) : Rat) ≤ (((k * 2 ^ n : Nat) : Int) : Rat) := by
      rw [Rat.intCast_natCast, Rat.natCast_mul]
      exact Rat.mul_le_mul_of_nonneg_right h (Rat.le_of_lt hQ)
    have h2 := rne_le _ _ h1
    have h3 : ((rne (q * ((2 ^ n : Nat) : Rat)) : Int) : Rat) ≤ (((k * 2 ^ n : Nat) : Int) : Rat) :=
      Rat.intCast_le_intCast.2 h2
    rw [Rat.intCast_natCast, Rat.natCast_mul] at h3
    apply Rat.not_lt.1
    intro hlt
    have := (Rat.lt_div_iff hQ).1 hlt
    exact absurd h3 (Rat.not_le.2 this)
  · rw [if_neg he]
    by_cases hg : (4503599627370496 : Rat) ≤ q / ((2 ^ e.toNat : Nat) : Rat)
    · exfalso
      obtain ⟨m, hm⟩ : ∃ m, e.toNat = m + 1 := ⟨e.toNat - 1, by omega⟩
      rw [hm] at hg
      have hQ := two_pow_pos_rat (m + 1)
      have hP : (2 : Rat) ≤ ((2 ^ (m + 1) : Nat) : Rat) := by
        have : 2 ≤ 2 ^ (m + 1) := by
          have := Nat.two_pow_pos m
          rw [Nat.pow_succ]; omega
        exact_mod_cast Rat.natCast_le_natCast.2 this
      have h1 : ¬ q / ((2 ^ (m + 1) : Nat) : Rat) < 4503599627370496 := Rat.not_lt.2 hg
      rw [Rat.div_lt_iff hQ] at h1
      have h2 : (4503599627370496 : Rat) * 2 ≤ 4503599627370496 * ((2 ^ (m + 1) : Nat) : Rat) :=
        Rat.mul_le_mul_of_nonneg_left hP (by decide +kernel)
      have hk' : (k : Rat) < ((9007199254740992 : Nat) : Rat) := Rat.natCast_lt_natCast.2 hk
      have e1 : (4503599627370496 : Rat) * 2 = ((9007199254740992 : Nat) : Rat) := by decide +kernel
      grind
    · rw [if_neg hg]; exact h

/-- float64 rounding does not cross an integer below 2^53: from below … -/
theorem roundF64_ge_nat (q : Rat) (k : Nat) (hk : k < 9007199254740992) (h : (k : Rat) ≤ q) :
    (k : Rat) ≤ roundF64 q := by
  unfold roundF64
  by_cases hq : q ≤ 0
  · rw [if_pos hq]; exact Rat.le_trans h hq
  · rw [if_neg hq]; exact roundAt_ge_nat q _ k hk h

/-- … and from above -/
theorem roundF64_le_nat (q : Rat) (k : Nat) (hk : k < 9007199254740992) (h : q ≤ (k : Rat)) :
    roundF64 q ≤ (k : Rat) := by
  unfold roundF64
  by_cases hq : q ≤ 0
  · rw [if_pos hq]; exact_mod_cast Rat.natCast_nonneg
  · rw [if_neg hq]; exact roundAt_le_nat q _ k hk h

/-- `fmaCutG_eq_floorCut` with the two facts about the rounding it really uses: at the product `c·n`
    the rounding does not cross the integers `⌊c·n⌋` (from below) and `⌊c·n⌋ + 1` (from above). -/
theorem fmaCutG_eq_floorCut_of (rnd : Rat → Rat) (c : Rat) (n : Nat) (hc : 0 ≤ c)
    (h1 : (floorCut c n : Rat) ≤ c * (n : Rat) → (floorCut c n : Rat) ≤ rnd (c * (n : Rat)))
    (h2 : c * (n : Rat) ≤ ((floorCut c n + 1 : Nat) : Rat) → rnd (c * (n : Rat)) ≤ ((floorCut c n + 1 : Nat) : Rat)) :
    fmaCutG rnd c n = floorCut c n := by
  unfold fmaCutG floatCutG
  unfold floorCut at *
  generalize hq : c * (n : Rat) = q at *
  have h0 : (0 : Rat) ≤ q := by rw [← hq]; exact Rat.mul_nonneg hc (by exact_mod_cast Nat.zero_le n)
  have hF0 : 0 ≤ q.floor := Rat.le_floor_iff.2 (by simpa using h0)
  have hFq : ((q.floor : Int) : Rat) ≤ q := Rat.le_floor_iff.1 (Int.le_refl _)
  have hqF : q < ((q.floor + 1 : Int) : Rat) := Rat.floor_lt_iff.1 (by omega)
  have hnat : ((q.floor.toNat : Nat) : Int) = q.floor := Int.toNat_of_nonneg hF0
  have hcastF : ((q.floor.toNat : Nat) : Rat) = ((q.floor : Int) : Rat) := by
    rw [← Rat.intCast_natCast, hnat]
  have hcastF1 : ((q.floor.toNat + 1 : Nat) : Rat) = ((q.floor + 1 : Int) : Rat) := by
    rw [← Rat.intCast_natCast]; congr 1; omega
  rw [hcastF] at h1
  rw [hcastF1] at h2
  have h1' := h1 hFq
  have h2' := h2 (Rat.le_of_lt hqF)
  have hlo : q.floor ≤ (rnd q).floor := Rat.le_floor_iff.2 h1'
  have hhi : (rnd q).floor ≤ q.floor + 1 := by
    have : (rnd q).floor < q.floor + 2 := by
      apply Rat.floor_lt_iff.2
      have : ((q.floor + 1 : Int) : Rat) < ((q.floor + 2 : Int) : Rat) := Rat.intCast_lt_intCast.2 (by omega)
      grind
    omega
  have hM0 : 0 ≤ (rnd q).floor := by omega
  have hcast : (((rnd q).floor.toNat : Nat) : Rat) = (((rnd q).floor : Int) : Rat) := by
    rw [← Rat.intCast_natCast, Int.toNat_of_nonneg hM0]
  show (if q - (((rnd q).floor.toNat : Nat) : Rat) < 0 then (rnd q).floor.toNat - 1 else (rnd q).floor.toNat) = q.floor.toNat
  rw [hcast]
  by_cases hcase : (rnd q).floor = q.floor
  · rw [hcase]
    have : ¬ (q - ((q.floor : Int) : Rat) < 0) := by grind
    rw [if_neg this]
  · have hM : (rnd q).floor = q.floor + 1 := by omega
    rw [hM]
    have : q - ((q.floor + 1 : Int) : Rat) < 0 := by grind
    rw [if_pos this]
    omega

theorem floorCut_le (c : Rat) (n : Nat) (hc0 : 0 ≤ c) (hc1 : c ≤ 1) : floorCut c n ≤ n := by
  have : ¬ (n < floorCut c n) := by
    intro h
    have : ¬ (c * (n : Rat) < (floorCut c n : Rat)) := fun hh =>
      Nat.lt_irrefl _ ((floorCut_lt_iff c n (floorCut c n) hc0).2 hh)
    have h2 : (n : Rat) < (floorCut c n : Rat) := Rat.natCast_lt_natCast.2 h
    have h3 : c * (n : Rat) ≤ 1 * (n : Rat) := Rat.mul_le_mul_of_nonneg_right hc1 (by exact_mod_cast Nat.zero_le n)
    grind
  omega

/-- The cut of the code as it is (`cutNow = fmaCut`: float64 product rounded to nearest-even by
    `roundF64`, truncated, corrected with the exact sign of `c·n - m`) is the exact `⌊c·n⌋` for
    every threshold in `[0, 1]` and fewer than 2^52 trees. -/
theorem fmaCut_eq_floorCut (c : Rat) (n : Nat) (hc0 : 0 ≤ c) (hc1 : c ≤ 1) (hn : n < 4503599627370496) :
    fmaCut c n = floorCut c n := by
  have hle := floorCut_le c n hc0 hc1
  exact fmaCutG_eq_floorCut_of roundF64 c n hc0
    (roundF64_ge_nat _ _ (by omega)) (roundF64_le_nat _ _ (by omega))

end Gotree.C09
