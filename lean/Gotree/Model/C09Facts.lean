/-
  C09 — the vocabulary of the facts regenerated from the Go source (round 7).

  `harness/c09/extract.go` (run by `vh gen-tables`) reads tree/algo.go, tree/edgeindex.go and
  cmd/consensus.go with go/ast and writes `Gotree/Gen/C09Facts.lean`: the conditions, constants and
  call sequences that the hand-written model `Model/C09.lean` silently assumes, as terms of the small
  expression type `E` below.  `Proofs/C09.lean` re-decides them (`sourceFactsCheck`) and proves that the
  two selection predicates, *interpreted* (`evalB`, `evalBN`), are the model's own (`range_facts_model`,
  `keep_facts_model`).  Core Lean only.
-/
namespace Gotree.C09F

/-- a Go expression, as far as the extractor understands it (`other` = its source text) -/
inductive E where
  | v (name : String)                 -- identifier or selector chain `a.b.c`
  | lit (num den : Nat)               -- numeric literal, exact
  | str (s : String)                  -- string literal
  | bin (op : String) (a b : E)
  | not (a : E)
  | neg (a : E)
  | call0 (f : String)
  | call1 (f : String) (a : E)
  | call2 (f : String) (a b : E)
  | call3 (f : String) (a b c : E)
  | other (s : String)
  deriving Repr, BEq, Inhabited

/-- what the extractor found -/
structure Facts where
  /-- condition of the first `if` of `tree.Consensus` (its body returns the range error) -/
  rangeCond : E
  /-- message of that error -/
  rangeMsg : String
  /-- arguments of `NewEdgeIndex(size, loadfactor)` in `Consensus` -/
  indexSize : E
  loadFactor : E
  /-- the methods called on `curtree.Tree` inside the loop that change the tree (re-rooting, single-child
      removal, unrooting, re-indexing …), in source order.  (The expressions of the values given to the
      branches and the statement that writes the result are NOT tabled: harmless rewrites of them are
      frequent, and the oracle sees their effect on every case.) -/
  perTreeCalls : List String
  /-- right-hand side of `minCount := …` and the `if` that follows it (condition, body) -/
  minCountInit : E
  minCountFixCond : E
  minCountFixBody : String
  /-- arguments of `edgeindex.Edges(…)` in `Consensus` -/
  edgesArgs : List E
  /-- the filter of `EdgeIndex.Edges` (parameters `minCount`, `maxCount`) -/
  keepCond : E
  keepParams : List String
  /-- refusal test of `AddBipartition` -/
  addBipRefuse : E
  /-- cmd/consensus.go: `Float64VarP(&var, long, short, default, …)` -/
  flagVar : String
  flagLong : String
  flagShort : String
  flagDefault : E
  /-- cmd/consensus.go: arguments of `tree.Consensus(…)` -/
  consensusArgs : List E
  deriving Repr, BEq, Inhabited

/-! ## interpretation of the comparison fragment -/

def cmpR (op : String) (x y : Rat) : Option Bool :=
  if op == "<" then some (decide (x < y))
  else if op == "<=" then some (decide (x ≤ y))
  else if op == ">" then some (decide (y < x))
  else if op == ">=" then some (decide (y ≤ x))
  else if op == "==" then some (decide (x = y))
  else if op == "!=" then some (!decide (x = y))
  else none

def evalR (env : List (String × Rat)) : E → Option Rat
  | .v n => env.lookup n
  | .lit a b => some ((a : Rat) / (b : Rat))
  | .neg a => (evalR env a).map (fun x => -x)
  | _ => none

/-- a Boolean Go expression over float64 variables holding the rationals `env` -/
def evalB (env : List (String × Rat)) : E → Option Bool
  | .not a => (evalB env a).map (!·)
  | .bin op a b =>
    if op == "&&" then
      match evalB env a, evalB env b with
      | some x, some y => some (x && y)
      | _, _ => none
    else if op == "||" then
      match evalB env a, evalB env b with
      | some x, some y => some (x || y)
      | _, _ => none
    else
      match evalR env a, evalR env b with
      | some x, some y => cmpR op x y
      | _, _ => none
  | _ => none

def cmpN (op : String) (x y : Nat) : Option Bool :=
  if op == "<" then some (decide (x < y))
  else if op == "<=" then some (decide (x ≤ y))
  else if op == ">" then some (decide (y < x))
  else if op == ">=" then some (decide (y ≤ x))
  else if op == "==" then some (x == y)
  else if op == "!=" then some (x != y)
  else none

def evalN (env : List (String × Nat)) : E → Option Nat
  | .v n => env.lookup n
  | .lit a b => if b == 1 then some a else none
  | _ => none

/-- a Boolean Go expression over non-negative `int` variables -/
def evalBN (env : List (String × Nat)) : E → Option Bool
  | .not a => (evalBN env a).map (!·)
  | .bin op a b =>
    if op == "&&" then
      match evalBN env a, evalBN env b with
      | some x, some y => some (x && y)
      | _, _ => none
    else if op == "||" then
      match evalBN env a, evalBN env b with
      | some x, some y => some (x || y)
      | _, _ => none
    else
      match evalN env a, evalN env b with
      | some x, some y => cmpN op x y
      | _, _ => none
  | _ => none

/-! ## what the model assumes (the reviewed values) -/

def expectedRange : E :=
  .not (.bin "&&" (.bin ">=" (.v "cutoff") (.lit 1 2)) (.bin "<=" (.v "cutoff") (.lit 1 1)))

def expectedKeep : E :=
  .bin "||" (.bin "&&" (.bin ">" (.v "v.Count") (.v "minCount")) (.bin "<=" (.v "v.Count") (.v "maxCount")))
    (.bin "==" (.v "v.Count") (.v "maxCount"))

def expected : Facts where
  rangeCond := expectedRange
  rangeMsg := "min frequency for bipartition must be >=0.5 and <=1"
  indexSize := .lit 128 1
  loadFactor := .lit 3 4
  perTreeCalls := ["Reroot", "RemoveSingleNodes", "UnRoot", "ReinitIndexes"]
  minCountInit := .call1 "int" (.bin "*" (.v "cutoff") (.call1 "float64" (.v "nbtrees")))
  minCountFixCond := .bin "<" (.call3 "math.FMA" (.v "cutoff") (.call1 "float64" (.v "nbtrees"))
    (.neg (.call1 "float64" (.v "minCount")))) (.lit 0 1)
  minCountFixBody := "minCount--"
  edgesArgs := [.v "minCount", .v "nbtrees"]
  keepCond := expectedKeep
  keepParams := ["minCount", "maxCount"]
  addBipRefuse := .bin "||" (.bin "<=" (.call1 "len" (.v "edges")) (.lit 1 1))
    (.bin ">=" (.call1 "len" (.v "edges")) (.bin "-" (.call1 "len" (.v "n.br")) (.lit 1 1)))
  flagVar := "consensusCutoff"
  flagLong := "freq-min"
  flagShort := "f"
  flagDefault := .lit 1 2
  consensusArgs := [.v "treechan", .v "consensusCutoff"]

/-! ## round 7b: semantic rows — the extracted conditions are *evaluated on probes*, so that an equivalent
    rewrite of the source (other operand order, De Morgan, …) keeps the check green and a rewrite that
    changes the behaviour on a probe does not -/

/-- a float64 value as far as comparisons are concerned: a rational, or NaN (`none`) -/
abbrev FV := Option Rat

/-- Go's comparison of float64 values: every ordered comparison with a NaN is false, `!=` is true -/
def cmpF (op : String) (x y : FV) : Option Bool :=
  match x, y with
  | some a, some b => cmpR op a b
  | _, _ => if op == "!=" then some true
            else if op == "<" || op == "<=" || op == ">" || op == ">=" || op == "==" then some false else none

def evalF (env : List (String × FV)) : E → Option FV
  | .v n => env.lookup n
  | .lit a b => some (some ((a : Rat) / (b : Rat)))
  | .neg a => (evalF env a).map (fun x => x.map (fun r => -r))
  | _ => none

/-- a Boolean Go expression over float64 variables that may hold NaN -/
def evalBF (env : List (String × FV)) : E → Option Bool
  | .not a => (evalBF env a).map (!·)
  | .bin op a b =>
    if op == "&&" then
      match evalBF env a, evalBF env b with
      | some x, some y => some (x && y)
      | _, _ => none
    else if op == "||" then
      match evalBF env a, evalBF env b with
      | some x, some y => some (x || y)
      | _, _ => none
    else
      match evalF env a, evalF env b with
      | some x, some y => cmpF op x y
      | _, _ => none
  | _ => none

def cmpZ (op : String) (x y : Int) : Option Bool :=
  if op == "<" then some (decide (x < y))
  else if op == "<=" then some (decide (x ≤ y))
  else if op == ">" then some (decide (y < x))
  else if op == ">=" then some (decide (y ≤ x))
  else if op == "==" then some (x == y)
  else if op == "!=" then some (x != y)
  else none

/-- an `int` Go expression; `len(x)` is the variable `len(x)` of the environment -/
def evalZ (env : List (String × Int)) : E → Option Int
  | .v n => env.lookup n
  | .lit a b => if b == 1 then some (a : Int) else none
  | .neg a => (evalZ env a).map (fun x => -x)
  | .call1 f (.v x) => if f == "len" then env.lookup ("len(" ++ x ++ ")") else none
  | .bin op a b =>
    match evalZ env a, evalZ env b with
    | some x, some y => if op == "+" then some (x + y) else if op == "-" then some (x - y) else none
    | _, _ => none
  | _ => none

def evalBZ (env : List (String × Int)) : E → Option Bool
  | .not a => (evalBZ env a).map (!·)
  | .bin op a b =>
    if op == "&&" then
      match evalBZ env a, evalBZ env b with
      | some x, some y => some (x && y)
      | _, _ => none
    else if op == "||" then
      match evalBZ env a, evalBZ env b with
      | some x, some y => some (x || y)
      | _, _ => none
    else
      match evalZ env a, evalZ env b with
      | some x, some y => cmpZ op x y
      | _, _ => none
  | _ => none

/-- thresholds probed: both ends of the range, their float64 neighbours, inside, outside, zero, negative, NaN -/
def rangeProbes : List FV :=
  [some (1/2), some 1, some (3/4), some (4503599627370495/9007199254740992), some (4503599627370497/9007199254740992),
   some (9007199254740991/9007199254740992), some (4503599627370497/4503599627370496), some (49/100), some (101/100),
   some 0, some (-1), some 2, some (1/4), none]

/-- the range test of the source rejects exactly what the reviewed one rejects, on every probe -/
def rangeRowOK (cond : E) : Bool :=
  rangeProbes.all fun c => evalBF [("cutoff", c)] cond == evalBF [("cutoff", c)] expectedRange &&
    (evalBF [("cutoff", c)] cond).isSome

/-- the filter of `EdgeIndex.Edges` on every (count, min, max) in 0..5 (parameter names as extracted) -/
def keepRowOK (cond : E) (params : List String) : Bool :=
  match params with
  | [pmin, pmax] =>
    (List.range 6).all fun x => (List.range 6).all fun m => (List.range 6).all fun n =>
      evalBN [("v.Count", x), (pmin, m), (pmax, n)] cond ==
        some ((decide (x > m) && decide (x ≤ n)) || x == n)
  | _ => false

/-- the refusal test of `AddBipartition` on every (len(edges), len(n.br)) in 0..7 × 1..8 -/
def refuseRowOK (cond : E) : Bool :=
  (List.range 8).all fun a => (List.range 8).all fun b0 =>
    let b := b0 + 1
    evalBZ [("len(edges)", (a : Int)), ("len(n.br)", (b : Int))] cond ==
      some (decide (a ≤ 1) || decide ((a : Int) ≥ (b : Int) - 1))

/-- the order of the tree-changing steps, as far as it matters: nothing else than these four is called,
    each at least once, `UnRoot` after `RemoveSingleNodes` (a single-child root child would become a
    degree-2 root: seeded change C09-2) and after the tip-root `Reroot`, `ReinitIndexes` after all of
    them.  The relative order of `Reroot` (tip root moved to its neighbour) and `RemoveSingleNodes` is
    free: both orders give the same unrooted tree (round-7 own breakage "tip-root move after
    RemoveSingleNodes": equivalent on every case). -/
def prepOrderOK (calls : List String) : Bool :=
  let idx (s : String) := calls.idxOf s
  calls.all (fun s => ["Reroot", "RemoveSingleNodes", "UnRoot", "ReinitIndexes"].contains s) &&
  ["Reroot", "RemoveSingleNodes", "UnRoot", "ReinitIndexes"].all calls.contains &&
  calls.length == 4 &&
  decide (idx "RemoveSingleNodes" < idx "UnRoot") && decide (idx "Reroot" < idx "UnRoot") &&
  decide (idx "UnRoot" < idx "ReinitIndexes")

/-- the rows compared literally (constants, names, the float64 cut and its correction) -/
def literalRowsOK (f : Facts) : Bool :=
  f.rangeMsg == expected.rangeMsg && f.indexSize == expected.indexSize && f.loadFactor == expected.loadFactor &&
  f.minCountInit == expected.minCountInit && f.minCountFixCond == expected.minCountFixCond &&
  f.minCountFixBody == expected.minCountFixBody && f.edgesArgs == expected.edgesArgs &&
  f.flagVar == expected.flagVar && f.flagLong == expected.flagLong && f.flagShort == expected.flagShort &&
  f.flagDefault == expected.flagDefault && f.consensusArgs == expected.consensusArgs

def factsOK (f : Facts) : Bool :=
  rangeRowOK f.rangeCond && keepRowOK f.keepCond f.keepParams && refuseRowOK f.addBipRefuse &&
  prepOrderOK f.perTreeCalls && literalRowsOK f

end Gotree.C09F
