/-
  The canonical α dump of a tree (DESIGN.md Appendix A) and its reader/printer.
  A dump is a list of blank-separated tokens:

    ( n<name> c<comment>* p<ppos> [ e<len>,<sup>,<pval>,<id> k<comment>* ] KID* )

  the `e…`/`k…` tokens (data of the branch joining the node to its parent) are
  present for every node except the root.  Strings are percent-escaped outside
  `[A-Za-z0-9_.-]`; numbers are exact rationals `p/q` (or `p`).
-/
import Gotree.Model.Core

namespace Gotree

/- ## strings -/

def hexDigit (n : Nat) : Char :=
  if n < 10 then Char.ofNat (48 + n) else Char.ofNat (55 + n)

def hexVal (c : Char) : Option Nat :=
  if '0' ≤ c ∧ c ≤ '9' then some (c.toNat - 48)
  else if 'A' ≤ c ∧ c ≤ 'F' then some (c.toNat - 55)
  else if 'a' ≤ c ∧ c ≤ 'f' then some (c.toNat - 87)
  else none

def rawChar (c : Char) : Bool :=
  c.isAlphanum || c == '_' || c == '.' || c == '-'

def escape (s : String) : String :=
  s.toUTF8.foldl (init := "") fun acc b =>
    let c := Char.ofNat b.toNat
    if b < 128 && rawChar c then acc.push c
    else (acc.push '%').push (hexDigit (b.toNat / 16)) |>.push (hexDigit (b.toNat % 16))

def unescapeBytes : List Char → ByteArray → Option ByteArray
  | [], acc => some acc
  | '%' :: a :: b :: r, acc =>
    match hexVal a, hexVal b with
    | some x, some y => unescapeBytes r (acc.push (UInt8.ofNat (16 * x + y)))
    | _, _ => none
  | '%' :: _, _ => none
  | c :: r, acc => unescapeBytes r (acc.push (UInt8.ofNat c.toNat))

def unescape (s : String) : Option String :=
  match unescapeBytes s.toList ByteArray.empty with
  | some b => String.fromUTF8? b
  | none => none

def dropFirst (s : String) : String := String.ofList (s.toList.drop 1)

/- ## numbers -/

def parseInt? (s : String) : Option Int := s.toInt?

def parseRat? (s : String) : Option Rat :=
  match s.splitOn "/" with
  | [a] => (parseInt? a).map fun n => (n : Rat)
  | [a, b] =>
    match parseInt? a, b.toNat? with
    | some n, some d => if d == 0 then none else some (mkRat n d)
    | _, _ => none
  | _ => none

def showRat (q : Rat) : String :=
  if q.den == 1 then toString q.num else toString q.num ++ "/" ++ toString q.den

/- ## printing -/

mutual
def T.dumpToks : Option EdgeD → T → List String
  | oe, .node d p k =>
    ["(", "n" ++ escape d.name] ++ d.comments.map (fun c => "c" ++ escape c) ++ ["p" ++ toString p] ++
    (match oe with
     | none => []
     | some e =>
       ["e" ++ showRat e.len ++ "," ++ showRat e.sup ++ "," ++ showRat e.pval ++ "," ++ toString e.id] ++
       e.comments.map (fun c => "k" ++ escape c)) ++
    dumpToksL k ++ [")"]
def dumpToksL : Kids → List String
  | [] => []
  | (e, t) :: r => T.dumpToks (some e) t ++ dumpToksL r
end

def T.dump (t : T) : String := " ".intercalate (T.dumpToks none t)

/- ## reading (fuel = number of tokens; every step consumes one) -/

def takePrefixed (pre : Char) : List String → List String → Option (List String × List String)
  | tok :: r, acc =>
    if tok.front == pre && tok.length ≥ 1 then
      match unescape (dropFirst tok) with
      | some s => takePrefixed pre r (s :: acc)
      | none => none
    else some (acc.reverse, tok :: r)
  | [], acc => some (acc.reverse, [])

def parseEdgeTok (tok : String) : Option EdgeD :=
  match (dropFirst tok).splitOn "," with
  | [a, b, c, i] =>
    match parseRat? a, parseRat? b, parseRat? c, parseInt? i with
    | some l, some s, some p, some id => some ⟨l, s, p, [], id⟩
    | _, _, _, _ => none
  | _ => none

mutual
/-- parse one node starting at "(" ; returns the node, its edge data, and the rest -/
def parseNode : Nat → List String → Option ((Option EdgeD × T) × List String)
  | 0, _ => none
  | fuel + 1, "(" :: nameTok :: r =>
    if nameTok.front != 'n' then none else
    match unescape (dropFirst nameTok) with
    | none => none
    | some name =>
    match takePrefixed 'c' r [] with
    | none => none
    | some (_, []) => none
    | some (ncs, pTok :: r2) =>
      if pTok.front != 'p' then none else
      match (dropFirst pTok).toNat? with
      | none => none
      | some pp =>
        let (oe, r3) : Option EdgeD × List String :=
          match r2 with
          | eTok :: r' =>
            if eTok.front == 'e' then
              match parseEdgeTok eTok with
              | some e => (some e, r')
              | none => (none, r2)
            else (none, r2)
          | [] => (none, r2)
        match takePrefixed 'k' r3 [] with
        | none => none
        | some (ecs, r4) =>
          let oe := oe.map fun e => { e with comments := ecs }
          match parseKids fuel r4 [] with
          | none => none
          | some (ks, r5) => some ((oe, .node ⟨name, ncs⟩ pp ks), r5)
  | _ + 1, _ => none
def parseKids : Nat → List String → Kids → Option (Kids × List String)
  | 0, _, _ => none
  | _ + 1, ")" :: r, acc => some (acc.reverse, r)
  | fuel + 1, toks, acc =>
    match parseNode fuel toks with
    | some ((some e, t), r) => parseKids fuel r ((e, t) :: acc)
    | _ => none
end

def splitToks (s : String) : List String := (s.splitOn " ").filter (· ≠ "")

/-- Read a dump. -/
def T.undump (s : String) : Option T :=
  let toks := splitToks s
  match parseNode (toks.length + 1) toks with
  | some ((none, t), []) => some t
  | _ => none

end Gotree
