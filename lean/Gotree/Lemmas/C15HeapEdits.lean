/-
  C15 — the heap programs of `Model/C15HeapEdits.lean` are local (as every heap program is).
  Core Lean only.
-/
import Gotree.Lemmas.C15HeapCopy
import Gotree.Model.C15HeapEdits

namespace Gotree.C15.Heap

/-- all of them — and any other program — are local -/
theorem edits_local (r : Addr) (p : H → List Op) : Local r (runProg r p) ∧ KeepsAlloc r (runProg r p) :=
  runProg_local r p

end Gotree.C15.Heap
