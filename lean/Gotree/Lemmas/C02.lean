/-
  C02 — helper lemmas.
-/
import Gotree.Spec.C02

namespace Gotree.C02
open Gotree

mutual
theorem hashRight_false_ok (root : Bool) : ∀ t : T, hashRight false root t = .ok
  | .node d p k => by
    unfold hashRight
    by_cases hr : root = true
    · subst hr
      simp [hashRightL_false_ok k]
    · have : root = false := by cases root <;> simp_all
      subst this
      by_cases hk : k.isEmpty = true
      · simp [hk]
      · simp [hk, hashRightL_false_ok k]
theorem hashRightL_false_ok : ∀ k : Kids, hashRightL false k = .ok
  | [] => by unfold hashRightL; rfl
  | (e, t) :: r => by
    unfold hashRightL
    rw [hashRight_false_ok false t]
    exact hashRightL_false_ok r
end

mutual
theorem edges_nodes : ∀ t : T, nEdges t + 1 = nNodes t
  | .node d p k => by
    unfold nEdges nNodes
    have := edges_nodesL k
    omega
theorem edges_nodesL : ∀ k : Kids, nEdgesL k = nNodesL k
  | [] => by unfold nEdgesL nNodesL; rfl
  | (e, t) :: r => by
    unfold nEdgesL nNodesL
    have := edges_nodes t
    have := edges_nodesL r
    omega
end

end Gotree.C02

namespace Gotree.C02
open Gotree

mutual
theorem leaves_le_nodes : ∀ t : T, t.leaves.length ≤ nNodes t
  | .node d p [] => by unfold T.leaves nNodes; simp
  | .node d p (k :: ks) => by
    unfold T.leaves nNodes
    have := leavesL_le_nodes (k :: ks)
    omega
theorem leavesL_le_nodes : ∀ k : Kids, (leavesL k).length ≤ nNodesL k
  | [] => by unfold leavesL nNodesL; simp
  | (e, t) :: r => by
    unfold leavesL nNodesL
    have := leaves_le_nodes t
    have := leavesL_le_nodes r
    simp only [List.length_append]; omega
end

theorem tipNames_le_nodes (t : T) : t.tipNames.length ≤ nNodes t := by
  cases t with
  | node d p k =>
    have h := leavesL_le_nodes k
    have h1 : ∀ (c : Prop) [Decidable c] (x : String), (if c then [x] else ([] : List String)).length ≤ 1 := by
      intro c _ x; split <;> simp
    have h2 := h1 (((T.node d p k).kids.length == 1) = true) (T.node d p k).name
    unfold T.tipNames nNodes
    rw [List.length_append]
    have h3 : (leavesL (T.node d p k).kids).length ≤ nNodesL k := h
    omega

theorem walkAll_ok (t : T) : walkAll t = .ok := by
  unfold walkAll
  have h1 := edges_nodes t
  have h2 := tipNames_le_nodes t
  simp [h1, h2]

end Gotree.C02

namespace Gotree.C02
open Gotree

theorem reinit_ok_iff (t : T) : reinit t = .ok ↔ (hasDup t.tipNames = false ∧ t.tipNames.length ≠ 0) := by
  unfold reinit reinitWith
  rw [hashRight_false_ok]
  constructor
  · intro h
    split at h
    · cases h
    · split at h
      · cases h
      · rename_i h1 h2
        exact ⟨by simpa using h1, by simpa using h2⟩
  · intro ⟨h1, h2⟩
    simp [h1, h2]


end Gotree.C02
