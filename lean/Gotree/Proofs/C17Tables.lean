/-
  C17 — the table theorems: decisions about modules regenerated from the source (`Gen/C17Code.lean`).
  Kept apart from `Proofs/C17.lean` (which other properties import) so that a broken table stops this
  file only.  Nothing outside C17 may import this module.
-/
import Gotree.Proofs.C17
import Gotree.Model.C17Code
import Gotree.Gen.C17Code

namespace Gotree.C17
open Gotree

/-- TABLE (round 7): the facts about tree/rearrange.go and cmd/nni.go the models were transcribed from,
    re-read from the source by `harness/c17/extract.go` on every run, are the expected ones. -/
theorem code_facts_check : Gotree.Gen.C17.facts = expected := by decide

end Gotree.C17
