// Package c10: bootstrap supports (FBP, TBE) against their definitions.
//
// Every case runs the REAL support.FBP and support.TBE (1, 2, 4 or 16 threads) on a
// reference tree and a collection of bootstrap trees, through the library or
// through `gotree compute support fbp|tbe`, and emits the α dumps before and
// after.  A second run on a permuted collection of re-rooted / rotated copies
// gives the invariance cases (C10.inv).
package c10

import (
	"bufio"
	"fmt"
	"io"
	"math"
	"math/big"
	"os"
	"os/exec"
	"strings"
	"time"

	"verifharness/core"

	"github.com/evolbioinfo/gotree/io/newick"
	"github.com/evolbioinfo/gotree/support"
	"github.com/evolbioinfo/gotree/tree"
)

// ---------------------------------------------------------------------------
// harness-side tree surgery (on *core.N; never on the code under test)

func resetPPos(n *core.N) {
	n.PPos = 0
	for _, k := range n.Kids {
		resetPPos(k)
	}
}

// inner non-root nodes with their parents
func innerNodes(root *core.N) (nodes, parents []*core.N) {
	var rec func(x *core.N)
	rec = func(x *core.N) {
		for _, k := range x.Kids {
			if len(k.Kids) > 0 {
				nodes = append(nodes, k)
				parents = append(parents, x)
			}
			rec(k)
		}
	}
	rec(root)
	return
}

func leavesOf(root *core.N) []*core.N {
	var out []*core.N
	var rec func(x *core.N)
	rec = func(x *core.N) {
		if len(x.Kids) == 0 {
			out = append(out, x)
		}
		for _, k := range x.Kids {
			rec(k)
		}
	}
	rec(root)
	return out
}

func indexOf(l []*core.N, x *core.N) int {
	for i, y := range l {
		if y == x {
			return i
		}
	}
	return -1
}

// nni swaps a child of an inner node with one of its siblings.
func nni(g *core.G, root *core.N) bool {
	nodes, parents := innerNodes(root)
	if len(nodes) == 0 {
		return false
	}
	i := g.Intn(len(nodes))
	v, u := nodes[i], parents[i]
	if len(u.Kids) < 2 {
		return false
	}
	vi := indexOf(u.Kids, v)
	wi := g.Intn(len(u.Kids) - 1)
	if wi >= vi {
		wi++
	}
	ci := g.Intn(len(v.Kids))
	u.Kids[wi], v.Kids[ci] = v.Kids[ci], u.Kids[wi]
	return true
}

// contract removes an inner branch (its children go to the parent).
func contract(g *core.G, root *core.N) bool {
	nodes, parents := innerNodes(root)
	if len(nodes) == 0 {
		return false
	}
	i := g.Intn(len(nodes))
	v, u := nodes[i], parents[i]
	vi := indexOf(u.Kids, v)
	var kids []*core.N
	kids = append(kids, u.Kids[:vi]...)
	kids = append(kids, v.Kids...)
	kids = append(kids, u.Kids[vi+1:]...)
	u.Kids = kids
	return true
}

func addLen(a, b float64) float64 {
	if a < 0 && b < 0 {
		return -1
	}
	return math.Max(a, 0) + math.Max(b, 0)
}

// unroot merges the two root branches of a rooted tree (root with two children,
// one of them inner).  Returns false when nothing can be done.
func unroot(root *core.N) bool {
	if len(root.Kids) != 2 {
		return false
	}
	a, b := root.Kids[0], root.Kids[1]
	if len(a.Kids) == 0 {
		a, b = b, a
	}
	if len(a.Kids) == 0 {
		return false
	}
	// a is inner: its children become children of the root; b's branch absorbs a's
	b.E.Len = addLen(a.E.Len, b.E.Len)
	if a.E.Sup > b.E.Sup && len(b.Kids) > 0 {
		b.E.Sup = a.E.Sup
	}
	root.Kids = append(append([]*core.N{}, a.Kids...), b)
	return true
}

// moveRoot makes the inner child number i of the root the new root (the root must
// have at least three children).  Returns the new root.
func moveRoot(root *core.N, i int) *core.N {
	c := root.Kids[i]
	if len(c.Kids) == 0 || len(root.Kids) < 3 {
		return root
	}
	root.Kids = append(append([]*core.N{}, root.Kids[:i]...), root.Kids[i+1:]...)
	root.E = c.E
	c.E = nil
	c.Kids = append(c.Kids, root)
	return c
}

// rootOn puts a new root in the middle of the branch above child i.
func rootOn(root *core.N, i int) *core.N {
	if len(root.Kids) < 3 {
		return root
	}
	c := root.Kids[i]
	root.Kids = append(append([]*core.N{}, root.Kids[:i]...), root.Kids[i+1:]...)
	e := core.NewE()
	e.Len, e.Sup = -1, c.E.Sup
	if c.E.Len >= 0 {
		e.Len = c.E.Len / 2
		c.E.Len = c.E.Len / 2
	}
	if len(c.Kids) == 0 {
		e.Sup = -1
	}
	root.E = e
	root.Name = ""
	return &core.N{Kids: []*core.N{c, root}}
}

func rotate(g *core.G, n *core.N) {
	g.R.Shuffle(len(n.Kids), func(i, j int) { n.Kids[i], n.Kids[j] = n.Kids[j], n.Kids[i] })
	for _, k := range n.Kids {
		rotate(g, k)
	}
}

// represent draws another presentation of the same unrooted tree: re-rooted or
// unrooted or rooted elsewhere, children rotated.
func represent(g *core.G, t *core.N, mayRoot bool) *core.N {
	t = t.Clone()
	if len(t.Kids) == 2 {
		if g.Chance(0.7) {
			unroot(t)
		}
	}
	if len(t.Kids) >= 3 {
		for s := g.Intn(4); s > 0; s-- {
			t = moveRoot(t, g.Intn(len(t.Kids)))
		}
		if mayRoot && g.Chance(0.3) {
			t = rootOn(t, g.Intn(len(t.Kids)))
		}
	}
	rotate(g, t)
	resetPPos(t)
	return t
}

func stripSupports(n *core.N) {
	if n.E != nil {
		n.E.Sup = -1
	}
	for _, k := range n.Kids {
		stripSupports(k)
	}
}

// ---------------------------------------------------------------------------
// generators

// smallFirst: the first cases of a run are small, so that the first violations reported
// (bin/check keeps the first five) are already near-minimal.
var smallFirst = false
var manyTaxa = false

func refTree(c *core.Ctx) *core.N {
	g := c.G
	o := core.DefaultOpts()
	o.MinTips, o.MaxTips = 4, c.Scale(11, 16)
	if smallFirst {
		o.MaxTips = 6
	} else if manyTaxa {
		// more taxa than one 64-bit word of the bitsets holds
		o.MinTips, o.MaxTips = 66, 72
	} else if !c.Quick() && g.Chance(0.03) {
		o.MaxTips = 40
	}
	if g.Chance(0.1) {
		// look-alike and awkward tip names (library mode keeps them as they are)
		o.FunnyNames = funnyOK
	}
	o.InnerNames = 0
	// branch lengths: all present and positive, or with absent ones, exact zeros (internal branches too), or none
	o.Lengths = []int{1, 1, 2, 3, 3, 0}[g.Intn(6)]
	o.Supports = 2
	if g.Chance(0.5) {
		o.Multif = 0
	}
	switch g.Intn(4) {
	case 0:
		o.Rooted = 1
	case 1:
		o.Rooted = 0
	default:
		o.Rooted = 2
	}
	if g.Chance(0.25) {
		// internal node names (blanked by both functions) instead of some supports
		o.InnerNames = 0.4
	}
	t, _ := g.Tree(o)
	if g.Chance(0.15) {
		lookAlikeNames(g, t)
	}
	if g.Chance(0.2) {
		// a rooted reference with a tip child of the root
		if len(t.Kids) == 2 {
			unroot(t)
		}
		if len(t.Kids) >= 3 {
			sub := t
			sub.E = core.NewE()
			sub.E.Len = g.Length(&o)
			sub.E.Sup = g.Support(&o)
			nm := fmt.Sprintf("t%d", len(t.TipNames()))
			for _, x := range t.TipNames() {
				if x == nm {
					nm = "new_" + nm
				}
			}
			leaf := &core.N{Name: nm, E: core.NewE()}
			leaf.E.Len = g.Length(&o)
			if g.Chance(0.5) {
				t = &core.N{Kids: []*core.N{leaf, sub}}
			} else {
				t = &core.N{Kids: []*core.N{sub, leaf}}
			}
		}
	}
	// tip branches carry no support (no Newick text can give them one) — except, through the library only,
	// in one reference out of ten: FBP must leave it, TBE must clear it
	tipSups := funnyOKLib && g.Chance(0.1)
	for _, l := range leavesOf(t) {
		l.E.Sup = -1
		if tipSups && g.Chance(0.4) {
			l.E.Sup = g.Support(&o)
		}
	}
	resetPPos(t)
	core.NumberEdges(t)
	if funnyOKLib && g.Chance(0.15) {
		// branch ids permuted: what a caller has after Reroot or an edit followed by a re-numbering
		var es []*core.E
		var rec func(x *core.N)
		rec = func(x *core.N) {
			for _, k := range x.Kids {
				es = append(es, k.E)
				rec(k)
			}
		}
		rec(t)
		for i, j := range g.R.Perm(len(es)) {
			es[i].Id = j
		}
	}
	return t
}

// lookAlikes: names that an index built with anything but the exact string order may confuse - equal up to
// zero padding of a digit run, to case, to a numeric reading, to separators; all of them plain Newick labels.
var lookAlikes = [][]string{
	{"t1", "t01", "t001", "t10", "t2"},
	{"1", "01", "001", "1.0", "10", "2"},
	{"s7", "s07", "s007", "S7", "s70"},
	{"a", "A", "aa", "aA", "Aa"},
	{"x1", "x_1", "x.1", "X1", "x01"},
	{"Tip2", "Tip10", "Tip02", "tip2", "TIP2"},
}

// lookAlikesLib: only where no Newick text is in the way (blanks at the ends, equal under TrimSpace)
var lookAlikesLib = []string{" a", "a ", " t1", "t1 ", "t 1"}

// lookAlikeNames renames some (or all) tips of the tree with look-alike names, pairwise distinct as strings.
func lookAlikeNames(g *core.G, t *core.N) {
	var pool []string
	for _, i := range g.R.Perm(len(lookAlikes))[:2+g.Intn(2)] {
		pool = append(pool, lookAlikes[i]...)
	}
	if funnyOK {
		pool = append(pool, lookAlikesLib...)
	}
	ls := leavesOf(t)
	used := map[string]bool{}
	for _, l := range ls {
		used[l.Name] = true
	}
	perm := g.R.Perm(len(pool))
	k := 0
	for _, i := range g.R.Perm(len(ls)) {
		if k >= len(perm) || (k >= 2 && g.Chance(0.2)) {
			break
		}
		nm := pool[perm[k]]
		k++
		if used[nm] {
			continue
		}
		delete(used, ls[i].Name)
		ls[i].Name = nm
		used[nm] = true
	}
}

func relabel(g *core.G, t *core.N) {
	ls := leavesOf(t)
	names := make([]string, len(ls))
	for i, l := range ls {
		names[i] = l.Name
	}
	p := g.R.Perm(len(ls))
	for i, l := range ls {
		l.Name = names[p[i]]
	}
}

// bootTree derives one bootstrap tree from the reference.
func bootTree(c *core.Ctx, ref *core.N) *core.N {
	g := c.G
	b := ref.Clone()
	if g.Chance(0.7) {
		stripSupports(b) // otherwise the bootstrap tree carries supports and internal names of its own
	}
	switch r := g.Intn(10); {
	case r == 0: // identical topology
	case r == 1: // unrelated: same shape, taxa shuffled, then scrambled
		relabel(g, b)
		for i := 0; i < 6; i++ {
			nni(g, b)
		}
	default:
		for m := g.Intn(4) + 1; m > 0; m-- {
			if g.Chance(0.6) {
				nni(g, b)
			} else {
				contract(g, b)
			}
		}
	}
	if g.Chance(0.4) {
		// lengths of its own on the internal branches: exactly 0 (a branch of length 0 is still a branch), absent, others
		nodes, _ := innerNodes(b)
		for _, v := range nodes {
			switch r := g.Intn(10); {
			case r < 4:
				v.E.Len = 0
			case r < 6:
				v.E.Len = -1
			case r < 8:
				v.E.Len = float64(1+g.Intn(40)) / 8
			}
		}
	}
	b = represent(g, b, true)
	core.NumberEdges(b)
	return b
}

// spoilTaxa makes the taxa of a bootstrap tree differ from the reference's.
func spoilTaxa(g *core.G, b *core.N) {
	ls := leavesOf(b)
	switch g.Intn(3) {
	case 0: // same number, one other name
		ls[g.Intn(len(ls))].Name = "zz"
	case 1: // one more
		extra := &core.N{Name: "zz", E: core.NewE()}
		extra.E.Len = 0.5
		b.Kids = append(b.Kids, extra)
	default: // one fewer, where that leaves no single-child node
		_, parents := innerNodes(b)
		parents = append(parents, b)
		for _, u := range parents {
			if len(u.Kids) >= 4 || (u != b && len(u.Kids) >= 3) {
				for i, k := range u.Kids {
					if len(k.Kids) == 0 {
						u.Kids = append(append([]*core.N{}, u.Kids[:i]...), u.Kids[i+1:]...)
						core.NumberEdges(b)
						return
					}
				}
			}
		}
		ls[g.Intn(len(ls))].Name = "zz"
	}
	core.NumberEdges(b)
}

// ---------------------------------------------------------------------------
// running the real code

type result struct {
	out   string // ok | err | nan | panic:… | timeout | clifail:…
	after string // α dump of the annotated reference
}

func build(n *core.N) *tree.Tree {
	t, err := core.Build(n)
	if err != nil {
		panic(err)
	}
	return t
}

func channel(boots []*core.N) chan tree.Trees {
	ch := make(chan tree.Trees, len(boots)+1)
	for i, b := range boots {
		ch <- tree.Trees{Tree: build(b), Id: i}
	}
	close(ch)
	return ch
}

// errClass tells the taxon-set error of CompareTipIndexes (tree/tree.go:755) from any other.
func errClass(msg string) string {
	if strings.Contains(msg, "do not have the same tip names") || strings.Contains(msg, "do not have the same number of tips") {
		return "err:taxa"
	}
	return "err:other"
}

// guarded runs f with a watchdog; a panic in the calling goroutine is caught.
func guarded(f func() error) (string, bool) {
	type res struct {
		out string
	}
	done := make(chan res, 1)
	go func() {
		var err error
		if p, msg := core.Safe(func() { err = f() }); p {
			done <- res{"panic:" + core.Escape(msg)}
			return
		}
		if err != nil {
			done <- res{errClass(err.Error())}
			return
		}
		done <- res{"ok"}
	}()
	select {
	case r := <-done:
		return r.out, true
	case <-time.After(20 * time.Second):
		return "timeout", false
	}
}

func afterDump(t *tree.Tree) (string, bool) {
	a, wf := core.Alpha(t)
	if !wf.OK() {
		return "", false
	}
	nan := false
	var rec func(x *core.N)
	rec = func(x *core.N) {
		if x.E != nil && (math.IsNaN(x.E.Sup) || math.IsInf(x.E.Sup, 0)) {
			nan = true
		}
		for _, k := range x.Kids {
			rec(k)
		}
	}
	rec(a)
	if nan {
		return "nan", true
	}
	return a.Dump(), true
}

func finish(out string, t *tree.Tree) result {
	if out != "ok" {
		return result{out: out}
	}
	d, ok := afterDump(t)
	if !ok {
		return result{out: "panic:malformed-reference"}
	}
	if d == "nan" {
		return result{out: "nan"}
	}
	return result{out: "ok", after: d}
}

func inprocFBP(ref *core.N, boots []*core.N, threads int) result {
	t := build(ref)
	ch := channel(boots)
	out, _ := guarded(func() error { return support.FBP(t, ch, threads, nil) })
	return finish(out, t)
}

func inprocTBE(ref *core.N, boots []*core.N, threads int) result {
	t := build(ref)
	ch := channel(boots)
	out, _ := guarded(func() error {
		// as cmd/booster.go does before calling TBE
		if err := t.ReinitIndexes(); err != nil {
			return err
		}
		_, err := support.TBE(t, ch, threads, false, false, false, 0.3, nil, nil)
		return err
	})
	return finish(out, t)
}

// ---------------------------------------------------------------------------
// child executor: FBP and TBE start goroutines; a panic there cannot be
// recovered and a lost wg.Done() hangs.  The library calls therefore run in a
// child process (this binary, `-arg @child`) fed one request per line; when it
// dies or stays silent the outcome is `panic:child-died` / `timeout` and a new
// child is started.

type childProc struct {
	cmd   *exec.Cmd
	in    io.WriteCloser
	out   *bufio.Reader
	lines chan string
}

var child *childProc
var useChild = true

// timeouts counts the calls that never returned; after maxTimeouts the run stops
// generating (the hang is reported by the cases already emitted)
var timeouts int

const maxTimeouts = 3

func startChild() *childProc {
	cmd := exec.Command(os.Args[0], "C10", "-arg", "@child")
	cmd.Stderr = io.Discard
	in, err := cmd.StdinPipe()
	if err != nil {
		panic(err)
	}
	out, err := cmd.StdoutPipe()
	if err != nil {
		panic(err)
	}
	if err := cmd.Start(); err != nil {
		panic(err)
	}
	cp := &childProc{cmd: cmd, in: in, out: bufio.NewReaderSize(out, 1<<20), lines: make(chan string, 1)}
	go func() {
		for {
			l, err := cp.out.ReadString('\n')
			if err != nil {
				close(cp.lines)
				return
			}
			cp.lines <- strings.TrimRight(l, "\n")
		}
	}()
	return cp
}

func (cp *childProc) kill() {
	cp.in.Close()
	cp.cmd.Process.Kill()
	cp.cmd.Wait()
}

func stopChild() {
	if child != nil {
		child.kill()
		child = nil
	}
}

func callChild(kind string, threads int, ref *core.N, boots []*core.N) result {
	return callChildArg(kind, fmt.Sprint(threads), ref, boots)
}

// childRoundTrip sends one request line and returns the reply line; on a dead or silent child
// the outcome to report ("panic:child-died" / "timeout") and false.
func childRoundTrip(req string) (string, bool) {
	if child == nil {
		child = startChild()
	}
	if _, err := io.WriteString(child.in, req); err != nil {
		stopChild()
		return "panic:child-died", false
	}
	select {
	case l, ok := <-child.lines:
		if !ok {
			stopChild()
			return "panic:child-died", false
		}
		return l, true
	case <-time.After(60 * time.Second):
		stopChild()
		timeouts++
		return "timeout", false
	}
}

func callChildArg(kind string, arg string, ref *core.N, boots []*core.N) result {
	if child == nil {
		child = startChild()
	}
	req := fmt.Sprintf("%s\t%s\t%s\t%s\n", kind, arg, ref.Dump(), core.Dumps(boots))
	if _, err := io.WriteString(child.in, req); err != nil {
		stopChild()
		return result{out: "panic:child-died"}
	}
	select {
	case l, ok := <-child.lines:
		if !ok {
			stopChild()
			return result{out: "panic:child-died"}
		}
		f := strings.SplitN(l, "\t", 2)
		r := result{out: f[0]}
		if r.out == "timeout" {
			// the goroutines of the call are still blocked in that child: start afresh
			stopChild()
			timeouts++
		}
		if len(f) > 1 {
			r.after = f[1]
		}
		return r
	case <-time.After(30 * time.Second):
		stopChild()
		timeouts++
		return result{out: "timeout"}
	}
}

func childLoop() {
	rd := bufio.NewReaderSize(os.Stdin, 1<<20)
	w := bufio.NewWriter(os.Stdout)
	for {
		l, err := rd.ReadString('\n')
		if err != nil {
			return
		}
		f := strings.Split(strings.TrimRight(l, "\n"), "\t")
		if len(f) == 2 && f[0] == "SESSION" {
			s, ok := decodeSession(f[1])
			if !ok {
				return
			}
			w.WriteString(sessionReply(s) + "\n")
			w.Flush()
			continue
		}
		if len(f) < 4 {
			return
		}
		threads := 1
		fmt.Sscanf(f[1], "%d", &threads)
		ref, err := core.ParseDump(f[2])
		if err != nil {
			return
		}
		boots := parseDumps(f[3])
		var r result
		switch f[0] {
		case "FBP":
			r = inprocFBP(ref, boots, threads)
		case "CANCEL":
			r = inprocCancel(parseCancelArg(f[1], ref, boots))
		case "LOG":
			a := strings.SplitN(f[1], "@", 3)
			cutoff, _ := core.ParseRat(a[0])
			th := 1
			if len(a) > 1 {
				fmt.Sscanf(a[1], "%d", &th)
			}
			opts := "abr"
			if len(a) > 2 {
				opts = a[2]
			}
			r = inprocLog(ref, boots, cutoff, th, opts)
		default:
			r = inprocTBE(ref, boots, threads)
		}
		w.WriteString(r.out + "\t" + r.after + "\n")
		w.Flush()
	}
}

func libFBPn(ref *core.N, boots []*core.N, threads int) result {
	if !useChild {
		return inprocFBP(ref, boots, threads)
	}
	return callChild("FBP", threads, ref, boots)
}

func libTBEn(ref *core.N, boots []*core.N, threads int) result {
	if !useChild {
		return inprocTBE(ref, boots, threads)
	}
	return callChild("TBE", threads, ref, boots)
}

func libFBP(ref *core.N, boots []*core.N) result { return libFBPn(ref, boots, 1) }
func libTBE(ref *core.N, boots []*core.N) result { return libTBEn(ref, boots, 1) }

func parseNewick(s string) (*core.N, error) {
	t, err := newick.NewParser(strings.NewReader(s)).Parse()
	if err != nil {
		return nil, err
	}
	a, wf := core.Alpha(t)
	if !wf.OK() {
		return nil, fmt.Errorf("malformed")
	}
	return a, nil
}

func cliRun(c *core.Ctx, which, refFile, bootFile string, threads int) result {
	args := []string{"compute", "support", which, "-i", refFile, "-b", bootFile, "-t", fmt.Sprint(threads)}
	outFile := ""
	if c.G.Chance(0.4) {
		// result and log to files instead of stdout / stderr (cmd/computesupport.go)
		outFile = c.TmpFile("")
		args = append(args, "-o", outFile, "-l", c.TmpFile(""))
	}
	r := c.RunCLI("", 20*time.Second, args...)
	if outFile != "" && r.Exit == 0 && !r.Timeout {
		b, _ := os.ReadFile(outFile)
		r.Stdout = string(b)
	}
	if r.Timeout {
		timeouts++
		return result{out: "timeout"}
	}
	if r.Exit != 0 {
		if r.Exit == 1 {
			return result{out: errClass(r.Stderr)}
		}
		return result{out: fmt.Sprintf("panic:exit%d", r.Exit)}
	}
	txt := strings.TrimSpace(r.Stdout)
	if strings.Contains(txt, "NaN") {
		return result{out: "nan"}
	}
	a, err := parseNewick(txt)
	if err != nil {
		return result{out: "clifail:" + core.Escape(err.Error())}
	}
	d := a.Dump()
	if strings.Contains(d, "nan") || strings.Contains(d, "inf") {
		// a support that is not a number (written as NaN / +Inf / -Inf)
		for _, tok := range strings.Fields(d) {
			if strings.HasPrefix(tok, "e") && (strings.Contains(tok, "nan") || strings.Contains(tok, "inf")) {
				return result{out: "nan"}
			}
		}
	}
	return result{out: "ok", after: d}
}

// doSup runs both functions on one input and emits the C10.sup line.
func doSup(c *core.Ctx, mode string, ref *core.N, boots []*core.N) (result, result) {
	return doSupN(c, mode, 1, ref, boots)
}

// emitSup writes the case line: C10.sup for one thread (the format of the corpus), C10.supt otherwise.
func emitSup(c *core.Ctx, mode string, threads int, ref string, boots string, f, t result) {
	if threads == 1 {
		c.Emit("C10.sup", mode, ref, boots, f.out, f.after, t.out, t.after)
	} else {
		c.Emit("C10.supt", mode, fmt.Sprint(threads), ref, boots, f.out, f.after, t.out, t.after)
	}
}

// doSupN runs both functions with the given number of threads.
func doSupN(c *core.Ctx, mode string, threads int, ref *core.N, boots []*core.N) (result, result) {
	if mode == "cli" {
		refTxt := build(ref).Newick() + "\n"
		var sb strings.Builder
		for _, b := range boots {
			sb.WriteString(build(b).Newick() + "\n")
		}
		// what the binary will see: the trees as its own parser reads them
		pref, err := parseNewick(refTxt)
		if err != nil {
			panic(err)
		}
		var pboots []*core.N
		for _, l := range strings.Split(strings.TrimSpace(sb.String()), "\n") {
			if l == "" {
				continue
			}
			pb, err := parseNewick(l)
			if err != nil {
				panic(err)
			}
			pboots = append(pboots, pb)
		}
		rf := c.TmpFile(refTxt)
		bf := c.TmpFile(sb.String())
		// the hidden aliases `classical` / `booster` are commands of their own (cmd/classical.go, cmd/booster.go)
		fcmd, tcmd := "fbp", "tbe"
		if c.G.Chance(0.3) {
			fcmd, tcmd = "classical", "booster"
		}
		f := cliRun(c, fcmd, rf, bf, threads)
		t := cliRun(c, tcmd, rf, bf, threads)
		emitSup(c, mode, threads, pref.Dump(), core.Dumps(pboots), f, t)
		return f, t
	}
	f := libFBPn(ref, boots, threads)
	t := libTBEn(ref, boots, threads)
	emitSup(c, mode, threads, ref.Dump(), core.Dumps(boots), f, t)
	return f, t
}

// probeSup runs both functions without emitting anything (library mode only; "err","err" otherwise).
func probeSup(c *core.Ctx, mode string, threads int, ref *core.N, boots []*core.N) (string, string) {
	if mode != "lib" {
		return "probe", "probe"
	}
	return libFBPn(ref, boots, threads).out, libTBEn(ref, boots, threads).out
}

// inprocLog runs TBE with the options of `opts` (a = --moved-taxa, b = --per-branches, r = --out-raw) and
// returns what it wrote: "raw\ttaxa\tbranches\tafterDump" (see doLog).
func inprocLog(ref *core.N, boots []*core.N, cutoff float64, threads int, opts string) result {
	t := build(ref)
	ch := channel(boots)
	logf, err := os.CreateTemp("", "c10log")
	if err != nil {
		panic(err)
	}
	defer os.Remove(logf.Name())
	var raw *tree.Tree
	out, _ := guarded(func() error {
		if err := t.ReinitIndexes(); err != nil {
			return err
		}
		var err error
		raw, err = support.TBE(t, ch, threads, strings.Contains(opts, "r"), strings.Contains(opts, "a"), strings.Contains(opts, "b"), cutoff, logf, nil)
		return err
	})
	logf.Close()
	if out != "ok" {
		return result{out: out}
	}
	data, _ := os.ReadFile(logf.Name())
	res := parseLogOutputs(raw, string(data))
	if res.out != "ok" {
		return res
	}
	if raw == nil && strings.Contains(opts, "r") {
		return result{out: "clifail:no-raw-tree"}
	}
	fin := finish("ok", t)
	if fin.out != "ok" {
		return result{out: fin.out}
	}
	res.after += "\t" + fin.after
	return res
}

// parseLogOutputs reads the raw tree and the log file of TBE.
func parseLogOutputs(raw *tree.Tree, data string) result {
	var rawItems, taxa, branches []string
	bad := false
	var rawEdges []*tree.Edge
	if raw != nil {
		rawEdges = raw.Edges()
	}
	for _, e := range rawEdges {
		nm := e.Right().Name()
		if !e.Right().Tip() && strings.Count(nm, "|") == 2 {
			f := strings.Split(nm, "|")
			v, ok := new(big.Rat).SetString(f[1])
			if !ok {
				bad = true
				continue
			}
			rawItems = append(rawItems, f[0]+":"+v.RatString()+":"+f[2])
		}
	}
	section := ""
	for _, l := range strings.Split(data, "\n") {
		switch {
		case strings.HasPrefix(l, "Taxon\ttIndex"):
			section = "taxa"
		case strings.HasPrefix(l, "Edge\tLength"):
			section = "branches"
		case strings.HasPrefix(l, "End "):
			section = "" // the closing line cmd/booster.go writes to the same log
		case l == "":
		case section == "taxa":
			f := strings.Split(l, "\t")
			v, ok := new(big.Rat).SetString(f[len(f)-1])
			if len(f) != 2 || !ok {
				bad = true
				continue
			}
			taxa = append(taxa, core.Escape(f[0])+":"+v.RatString())
		case section == "branches":
			f := strings.Split(l, "\t")
			if len(f) < 5 {
				bad = true
				continue
			}
			var vals []string
			for _, x := range f[4:] {
				v, ok := new(big.Rat).SetString(x)
				if !ok {
					bad = true
					continue
				}
				vals = append(vals, v.RatString())
			}
			branches = append(branches, f[0]+":"+f[2]+":"+vals[0]+":"+strings.Join(vals[1:], ";"))
		}
	}
	if bad {
		return result{out: "clifail:unreadable-log"}
	}
	join := func(l []string) string {
		if len(l) == 0 {
			return ""
		}
		return strings.Join(l, ",") + ","
	}
	return result{out: "ok", after: join(rawItems) + "\t" + join(taxa) + "\t" + join(branches)}
}

// cliLog: the same through `gotree compute support tbe --moved-taxa --per-branches -r … -l …`.
func cliLog(c *core.Ctx, ref *core.N, boots []*core.N, cutoff float64) {
	refTxt := build(ref).Newick() + "\n"
	pref, err := parseNewick(refTxt)
	if err != nil {
		panic(err)
	}
	var sb strings.Builder
	var pboots []*core.N
	for _, b := range boots {
		l := build(b).Newick() + "\n"
		sb.WriteString(l)
		pb, err := parseNewick(l)
		if err != nil {
			panic(err)
		}
		pboots = append(pboots, pb)
	}
	rf, bf := c.TmpFile(refTxt), c.TmpFile(sb.String())
	lf, rawf, of := c.TmpFile(""), c.TmpFile(""), c.TmpFile("")
	opts := logOpts(c.G)
	args := []string{"compute", "support", "tbe", "-i", rf, "-b", bf, "-t", "1", "--dist-cutoff", fmt.Sprint(cutoff), "-l", lf, "-o", of}
	if strings.Contains(opts, "a") {
		args = append(args, "--moved-taxa")
	}
	if strings.Contains(opts, "b") {
		args = append(args, "--per-branches")
	}
	if strings.Contains(opts, "r") {
		args = append(args, "-r", rawf)
	}
	r := c.RunCLI("", 20*time.Second, args...)
	res := result{out: "ok"}
	switch {
	case r.Timeout:
		timeouts++
		res.out = "timeout"
	case r.Exit == 1:
		res.out = errClass(r.Stderr)
	case r.Exit != 0:
		res.out = fmt.Sprintf("panic:exit%d", r.Exit)
	default:
		rawTxt, _ := os.ReadFile(rawf)
		data, _ := os.ReadFile(lf)
		var raw *tree.Tree
		if strings.Contains(opts, "r") {
			var err error
			raw, err = newick.NewParser(strings.NewReader(string(rawTxt))).Parse()
			if err != nil {
				res.out = "clifail:raw-tree"
			}
		} else if len(strings.TrimSpace(string(rawTxt))) != 0 {
			res.out = "clifail:raw-tree-not-asked-for"
		}
		if res.out == "ok" {
			res = parseLogOutputs(raw, string(data))
		}
		if res.out == "ok" {
			outTxt, _ := os.ReadFile(of)
			a, err := parseNewick(strings.TrimSpace(string(outTxt)))
			if err != nil {
				res = result{out: "clifail:" + core.Escape(err.Error())}
			} else {
				res.after += "\t" + a.Dump()
			}
		}
	}
	parts := strings.Split(res.after, "\t")
	for len(parts) < 4 {
		parts = append(parts, "")
	}
	c.Emit("C10.logx", "cli", opts, pref.Dump(), core.Dumps(pboots), core.Rat(cutoff), res.out, parts[0], parts[1], parts[2], parts[3])
}

// logOpts draws which of --moved-taxa (a), --per-branches (b), --out-raw (r) are given
func logOpts(g *core.G) string {
	if g.Chance(0.4) {
		return "abr"
	}
	return []string{"a", "b", "r", "ab", "ar", "br", ""}[g.Intn(7)]
}

var logCutoffs = []float64{0.5, 0.25, 0.75, 1.0}

// doLog: the moved-taxa / per-branch / raw-tree outputs of TBE against the model (correspondence).
func doLog(c *core.Ctx, ref *core.N, boots []*core.N, cutoff float64) {
	doLogX(c, ref, boots, cutoff, logOpts(c.G))
}

func doLogX(c *core.Ctx, ref *core.N, boots []*core.N, cutoff float64, opts string) {
	var r result
	// the accumulators of the log are shared by the workers (one mutex): same tables with any number of threads
	threads := 1
	if c.G.Chance(0.3) {
		threads = threadChoices[c.G.Intn(len(threadChoices))]
	}
	if useChild {
		r = callChildArg("LOG", fmt.Sprintf("%s@%d@%s", core.Rat(cutoff), threads, opts), ref, boots)
	} else {
		r = inprocLog(ref, boots, cutoff, threads, opts)
	}
	parts := strings.Split(r.after, "\t")
	for len(parts) < 4 {
		parts = append(parts, "")
	}
	c.Emit("C10.logx", "lib", opts, ref.Dump(), core.Dumps(boots), core.Rat(cutoff), r.out, parts[0], parts[1], parts[2], parts[3])
}

// doMtd calls support.MinTransferDist directly (no goroutine there) on every
// non-trivial branch of the reference against one bootstrap tree, with and
// without the `absent` shortcut, and emits the distances.
func doMtd(c *core.Ctx, ref, boot *core.N) {
	var items []string
	out := "ok"
	p, msg := core.Safe(func() {
		t := build(ref)
		b := build(boot)
		if err := t.ReinitIndexes(); err != nil {
			out = "err"
			return
		}
		if err := b.ReinitIndexes(); err != nil {
			out = "err"
			return
		}
		if err := t.CompareTipIndexes(b); err != nil {
			out = "err"
			return
		}
		bootedges := b.Edges()
		for i, e := range bootedges {
			e.SetId(i) // as TBE does
		}
		ntips := len(t.Tips())
		for i, e := range t.Edges() {
			if d, _ := e.TopoDepth(); d > 1 {
				for _, absent := range []bool{false, true} {
					dist, _, _, _ := support.MinTransferDist(e, t, b, ntips, bootedges, absent)
					a := 0
					if absent {
						a = 1
					}
					items = append(items, fmt.Sprintf("%d:%d:%d", i, a, dist))
				}
			}
		}
	})
	if p {
		out = "panic:" + core.Escape(msg)
	}
	res := ""
	if len(items) > 0 {
		res = strings.Join(items, ",") + ","
	}
	c.Emit("C10.mtd", ref.Dump(), boot.Dump(), out, res)
}

// doInv: the same trees presented otherwise must give the same supports per split.
func doInv(c *core.Ctx, ref1 *core.N, boots1 []*core.N, ref2 *core.N, boots2 []*core.N) {
	f1, t1 := libFBP(ref1, boots1), libTBE(ref1, boots1)
	f2, t2 := libFBP(ref2, boots2), libTBE(ref2, boots2)
	if f1.out != "ok" || t1.out != "ok" || f2.out != "ok" || t2.out != "ok" {
		// reported by the C10.sup lines of the two inputs
		c.Emit("C10.sup", "lib", ref1.Dump(), core.Dumps(boots1), f1.out, f1.after, t1.out, t1.after)
		c.Emit("C10.sup", "lib", ref2.Dump(), core.Dumps(boots2), f2.out, f2.after, t2.out, t2.after)
		return
	}
	c.Emit("C10.inv", ref1.Dump(), core.Dumps(boots1), f1.after, t1.after, ref2.Dump(), core.Dumps(boots2), f2.after, t2.after)
}

// ---------------------------------------------------------------------------

// ---------------------------------------------------------------------------
// the files as the binary reads them (cmd/root.go readTree / readTrees)

type fileItem struct {
	kind string    // "T" tree, "B" blank line, "J" unterminated text, "L" several trees on one line
	tree *core.N   // for "T": the tree as gotree's parser reads the line
	more []*core.N // for "L": the other trees of the line
	text string
}

func itemsField(items []fileItem) string {
	var b strings.Builder
	for _, it := range items {
		if it.kind == "T" {
			b.WriteString(it.tree.Dump())
		} else if it.kind == "L" {
			b.WriteString("L" + it.tree.Dump())
			for _, m := range it.more {
				b.WriteString("^" + m.Dump())
			}
		} else {
			b.WriteString(it.kind)
		}
		b.WriteByte('|')
	}
	return b.String()
}

func fileText(items []fileItem) string {
	var b strings.Builder
	for _, it := range items {
		b.WriteString(it.text)
	}
	return b.String()
}

func treeItem(n *core.N) fileItem {
	txt := build(n).Newick() + "\n"
	p, err := parseNewick(txt)
	if err != nil {
		panic(err)
	}
	return fileItem{kind: "T", tree: p, text: txt}
}

func blankItem(g *core.G) fileItem {
	return fileItem{kind: "B", text: []string{"\n", "  \n", "\t\n"}[g.Intn(3)]}
}

func doCliFiles(c *core.Ctx, threads int, refItems, bootItems []fileItem) {
	rf := c.TmpFile(fileText(refItems))
	bf := c.TmpFile(fileText(bootItems))
	f := cliRun(c, "fbp", rf, bf, threads)
	t := cliRun(c, "tbe", rf, bf, threads)
	c.Emit("C10.cli", fmt.Sprint(threads), itemsField(refItems), itemsField(bootItems), f.out, f.after, t.out, t.after)
}

func parseItemsField(s string) []fileItem {
	var out []fileItem
	for _, x := range strings.Split(s, "|") {
		switch {
		case x == "":
		case x == "B":
			out = append(out, fileItem{kind: "B", text: "\n"})
		case x == "J":
			out = append(out, fileItem{kind: "J", text: "(a,b\n"})
		case strings.HasPrefix(x, "L"):
			var it fileItem
			for i, d := range strings.Split(x[1:], "^") {
				n, err := core.ParseDump(d)
				if err != nil {
					panic(err)
				}
				one := treeItem(n)
				if i == 0 {
					it = one
					it.kind = "L"
				} else {
					it.more = append(it.more, one.tree)
					it.text = strings.TrimSuffix(it.text, "\n") + " " + one.text
				}
			}
			out = append(out, it)
		default:
			n, err := core.ParseDump(x)
			if err != nil {
				panic(err)
			}
			out = append(out, treeItem(n))
		}
	}
	return out
}

func cliFilesCase(c *core.Ctx) {
	g := c.G
	ref := refTree(c)
	k := 1 + g.Intn(4)
	var boots []*core.N
	for i := 0; i < k; i++ {
		boots = append(boots, bootTree(c, ref))
	}
	if g.Chance(0.1) {
		spoilTaxa(g, boots[g.Intn(k)])
	}
	var refItems, bootItems []fileItem
	for n := g.Intn(3); n > 0; n-- {
		refItems = append(refItems, blankItem(g))
	}
	refItems = append(refItems, treeItem(ref))
	for n := g.Intn(3); n > 0; n-- {
		if g.Chance(0.5) {
			refItems = append(refItems, blankItem(g))
		} else {
			// a decoy: only the first tree of the file is the reference
			refItems = append(refItems, treeItem(boots[g.Intn(k)]))
		}
	}
	switch sp := g.Intn(20); {
	case sp == 0: // no tree at all
		for n := g.Intn(3); n > 0; n-- {
			bootItems = append(bootItems, blankItem(g))
		}
	default:
		for _, b := range boots {
			for g.Chance(0.4) {
				bootItems = append(bootItems, blankItem(g))
			}
			it := treeItem(b)
			if g.Chance(0.08) {
				// more trees on the same line: all read (since 3850fd2)
				it.kind = "L"
				for n := 1 + g.Intn(2); n > 0; n-- {
					other := treeItem(boots[g.Intn(k)])
					it.more = append(it.more, other.tree)
					it.text = strings.TrimSuffix(it.text, "\n") + " " + other.text
				}
			}
			bootItems = append(bootItems, it)
		}
		for g.Chance(0.4) {
			bootItems = append(bootItems, blankItem(g))
		}
		if sp == 1 {
			bootItems = append(bootItems, fileItem{kind: "J", text: "(a,b\n"})
		}
		if sp == 2 && len(bootItems) > 0 {
			// unterminated text in the middle: it spoils the next tree, the reader stops there
			at := g.Intn(len(bootItems))
			bootItems = append(bootItems[:at], append([]fileItem{{kind: "J", text: "(a,b\n"}}, bootItems[at:]...)...)
		}
	}
	threads := 1
	if g.Chance(0.3) {
		threads = threadChoices[g.Intn(len(threadChoices))]
	}
	doCliFiles(c, threads, refItems, bootItems)
}

func parseDumps(s string) []*core.N {
	var out []*core.N
	for _, d := range strings.Split(s, "|") {
		if strings.TrimSpace(d) == "" {
			continue
		}
		n, err := core.ParseDump(d)
		if err != nil {
			panic(err)
		}
		out = append(out, n)
	}
	return out
}

// Replay re-executes the requests of a corpus / replay file on the real code.
var replayedSessions = map[string]bool{}

func Replay(c *core.Ctx, lines []string) {
	for _, l := range lines {
		if timeouts >= maxTimeouts {
			return
		}
		f := strings.Split(l, "\t")
		switch {
		case f[0] == "C10.sup" && len(f) >= 4:
			ref, err := core.ParseDump(f[2])
			if err != nil {
				panic(err)
			}
			mode := f[1]
			if mode == "cli" && c.Gotree == "" {
				mode = "lib"
			}
			if mode == "lib" && os.Getenv("C10_SHRINK") != "" {
				c.W.WriteString(shrinkSup(c, supReq{threads: 1, ref: ref, boots: parseDumps(f[3])}))
				continue
			}
			doSup(c, mode, ref, parseDumps(f[3]))
		case f[0] == "C10.supt" && len(f) >= 5:
			ref, err := core.ParseDump(f[3])
			if err != nil {
				panic(err)
			}
			mode := f[1]
			if mode == "cli" && c.Gotree == "" {
				mode = "lib"
			}
			threads := 1
			fmt.Sscanf(f[2], "%d", &threads)
			if mode == "lib" && os.Getenv("C10_SHRINK") != "" {
				c.W.WriteString(shrinkSup(c, supReq{threads: threads, ref: ref, boots: parseDumps(f[4])}))
				continue
			}
			// a race does not show on every run: repeat until the outcome is not the expected one (at most 20 times)
			for rep := 0; rep < 20; rep++ {
				fo, to := probeSup(c, mode, threads, ref, parseDumps(f[4]))
				if rep == 19 || !strings.HasPrefix(fo, "err") || !strings.HasPrefix(to, "err") {
					doSupN(c, mode, threads, ref, parseDumps(f[4]))
					break
				}
			}
		case f[0] == "C10.cli" && len(f) >= 4:
			if c.Gotree == "" {
				continue
			}
			threads := 1
			fmt.Sscanf(f[1], "%d", &threads)
			doCliFiles(c, threads, parseItemsField(f[2]), parseItemsField(f[3]))
		case f[0] == "C10.step" && len(f) >= 10:
			if ss, ok := decodeSession(f[9]); ok {
				key := f[9]
				if replayedSessions[key] {
					continue
				}
				replayedSessions[key] = true
				// a race does not show on every run: up to 10 times while every call is accepted as expected
				doSession(c, ss)
			}
		case f[0] == "C10.cancel" && len(f) >= 7:
			r1, err := core.ParseDump(f[5])
			if err != nil {
				panic(err)
			}
			doCancel(c, parseCancelArg(strings.Join(f[1:5], ";"), r1, parseDumps(f[6])))
		case f[0] == "C10.out" && len(f) >= 8:
			if c.Gotree == "" {
				continue
			}
			r1, err := core.ParseDump(f[6])
			if err != nil {
				panic(err)
			}
			q := outReq{which: f[1], outSel: f[2], rawSel: f[3], logSel: f[4], threads: 1, ref: r1, boots: parseDumps(f[7])}
			fmt.Sscanf(f[5], "%d", &q.threads)
			doCliOut(c, q)
		case f[0] == "C10.logx" && len(f) >= 6:
			r1, err := core.ParseDump(f[3])
			if err != nil {
				panic(err)
			}
			cutoff, _ := core.ParseRat(f[5])
			doLogX(c, r1, parseDumps(f[4]), cutoff, f[2])
		case f[0] == "C10.log" && len(f) >= 4:
			r1, err := core.ParseDump(f[1])
			if err != nil {
				panic(err)
			}
			cutoff, _ := core.ParseRat(f[3])
			doLogX(c, r1, parseDumps(f[2]), cutoff, "abr")
		case f[0] == "C10.mtd" && len(f) >= 3:
			r1, err := core.ParseDump(f[1])
			if err != nil {
				panic(err)
			}
			b1, err := core.ParseDump(f[2])
			if err != nil {
				panic(err)
			}
			doMtd(c, r1, b1)
		case f[0] == "C10.inv" && len(f) >= 7:
			r1, err := core.ParseDump(f[1])
			if err != nil {
				panic(err)
			}
			r2, err := core.ParseDump(f[5])
			if err != nil {
				panic(err)
			}
			doInv(c, r1, parseDumps(f[2]), r2, parseDumps(f[6]))
		}
	}
}

var threadChoices = []int{2, 4, 16}

// funnyOK: tip names with blanks, quotes, slashes … only where no Newick text is in the way
var funnyOK = false

// funnyOKLib: the reference is for the library only (branch ids, tip supports of its own are possible)
var funnyOKLib = false

// rejectionSeries: the rejection clause holds for every collection and every
// configuration: the tree on other taxa is put at every position of the
// collection (lengthened with copies of its valid trees) and both functions run
// with 2, 4 and 16 threads.
func rejectionSeries(c *core.Ctx, mode string, ref *core.N, boots []*core.N) {
	g := c.G
	bad := -1
	refNames := map[string]bool{}
	for _, n := range ref.TipNames() {
		refNames[n] = true
	}
	for i, b := range boots {
		names := b.TipNames()
		same := len(names) == len(refNames)
		for _, n := range names {
			if !refNames[n] {
				same = false
			}
		}
		if !same {
			bad = i
		}
	}
	if bad < 0 {
		return
	}
	var valid []*core.N
	for i, b := range boots {
		if i != bad {
			valid = append(valid, b)
		}
	}
	if len(valid) == 0 {
		v := ref.Clone()
		stripSupports(v)
		valid = append(valid, v)
	}
	want := 3 + g.Intn(6)
	for len(valid) < want {
		valid = append(valid, represent(g, valid[g.Intn(len(valid))], true))
	}
	for _, v := range valid {
		core.NumberEdges(v)
	}
	positions := []int{0, len(valid)}
	if mode == "lib" {
		// every position
		positions = positions[:0]
		for p := 0; p <= len(valid); p++ {
			positions = append(positions, p)
		}
	}
	for _, pos := range positions {
		coll := append(append(append([]*core.N{}, valid[:pos]...), boots[bad]), valid[pos:]...)
		for _, th := range threadChoices {
			if timeouts >= maxTimeouts {
				return
			}
			if mode == "cli" && th != threadChoices[g.Intn(len(threadChoices))] {
				continue
			}
			doSupN(c, mode, th, ref, coll)
		}
	}
}

func genCase(c *core.Ctx, mode string) {
	g := c.G
	funnyOK = mode == "lib"
	funnyOKLib = mode == "lib"
	ref := refTree(c)
	funnyOK, funnyOKLib = false, false
	k := 1 + g.Intn(c.Scale(5, 8))
	if smallFirst || manyTaxa {
		k = 1 + g.Intn(2)
	} else if !c.Quick() && mode == "lib" && g.Chance(0.02) {
		k = 15 + g.Intn(15)
	}
	if mode == "lib" && g.Chance(0.02) {
		k = 0
	}
	var boots []*core.N
	for i := 0; i < k; i++ {
		boots = append(boots, bootTree(c, ref))
	}
	mismatch := k > 0 && g.Chance(0.12)
	if mismatch {
		spoilTaxa(g, boots[g.Intn(len(boots))])
	}
	// outside the property's quantifier (correspondence only): repeated tip names,
	// branch ids no parser assigns, single-child nodes
	special := false
	if mode == "lib" && k > 0 && !mismatch {
		switch sp := g.Intn(100) / 2; { // round 7: twice as often (each of these model branches in > 1 % of the cases)
		case sp < 2:
			t := ref
			if g.Chance(0.6) {
				t = boots[g.Intn(k)]
			}
			ls := leavesOf(t)
			ls[0].Name = ls[len(ls)-1].Name
			special = true
		case sp < 4:
			shift := -1
			if g.Chance(0.5) {
				shift = 1000
			}
			var rec func(x *core.N)
			rec = func(x *core.N) {
				for _, kid := range x.Kids {
					if shift < 0 {
						kid.E.Id = -1
					} else {
						kid.E.Id += shift
					}
					rec(kid)
				}
			}
			rec(ref)
			special = true
		case sp >= 7 && sp < 9:
			// a root that is a tip (one neighbour): the reference, or a bootstrap tree
			t := g.Intn(k + 1)
			var x *core.N
			if t == k {
				x = ref
			} else {
				x = boots[t]
			}
			if len(x.Kids) >= 3 {
				for i, kid := range x.Kids {
					if len(kid.Kids) == 0 {
						// the tip becomes the root, the old root its only child
						rest := &core.N{Kids: append(append([]*core.N{}, x.Kids[:i]...), x.Kids[i+1:]...), E: kid.E}
						nx := &core.N{Name: kid.Name, Kids: []*core.N{rest}}
						*x = *nx
						core.NumberEdges(x)
						special = true
						break
					}
				}
			}
		case sp < 7:
			b := boots[g.Intn(k)]
			nodes, parents := innerNodes(b)
			if len(nodes) > 0 {
				i := g.Intn(len(nodes))
				v, u := nodes[i], parents[i]
				mid := &core.N{E: core.NewE(), Kids: []*core.N{v}}
				mid.E.Len = 0.25
				u.Kids[indexOf(u.Kids, v)] = mid
				core.NumberEdges(b)
				special = true
			}
		}
	}
	threads := 1
	if !special && k > 0 && g.Chance(0.2) {
		threads = threadChoices[g.Intn(len(threadChoices))]
		if g.Chance(0.15) {
			// a count below 1 means one thread (4aac0a9; regression corpus/C10-nonpositive-threads.txt)
			threads = -g.Intn(2)
		}
	}
	f, t := doSupN(c, mode, threads, ref, boots)
	if mismatch && !special {
		rejectionSeries(c, mode, ref, boots)
	}
	if mode != "lib" || mismatch || special || k == 0 || f.out != "ok" || t.out != "ok" {
		return
	}
	doMtd(c, ref, boots[g.Intn(len(boots))])
	if threads == 1 && g.Chance(0.5) {
		doLog(c, ref, boots, logCutoffs[g.Intn(len(logCutoffs))])
	}
	// the same input presented otherwise
	ref2 := represent(g, ref, false)
	core.NumberEdges(ref2)
	boots2 := make([]*core.N, len(boots))
	for i, j := range g.R.Perm(len(boots)) {
		boots2[i] = represent(g, boots[j], true)
		core.NumberEdges(boots2[i])
	}
	doSup(c, "lib", ref2, boots2)
	doInv(c, ref, boots, ref2, boots2)
}

// Run generates the cases of C10.
func Run(c *core.Ctx) {
	if c.Arg == "@child" {
		childLoop()
		return
	}
	defer stopChild()
	if c.Arg != "" {
		Replay(c, core.ReadRequests(c.Arg))
		return
	}
	n := c.Scale(400, 2500)
	for i := 0; i < n && timeouts < maxTimeouts; i++ {
		smallFirst = i < n/8
		manyTaxa = !smallFirst && (i%(n/3) == n/6 || (!c.Quick() && c.G.Chance(0.004))) // three inputs per run, more in the thorough tier
		genCase(c, "lib")
	}
	smallFirst, manyTaxa = false, false
	for i := 0; i < c.Scale(40, 400) && timeouts < maxTimeouts; i++ {
		sessionCase(c)
	}
	for i := 0; i < c.Scale(10, 30) && timeouts < maxTimeouts; i++ {
		manyTreesCase(c)
	}
	for i := 0; i < c.Scale(60, 300) && timeouts < maxTimeouts; i++ {
		cancelCase(c)
	}
	for i := 0; i < c.Scale(40, 150) && timeouts < maxTimeouts; i++ {
		cancelAsyncCase(c)
	}
	if c.Gotree != "" {
		m := c.Scale(25, 200)
		for i := 0; i < m && timeouts < maxTimeouts; i++ {
			genCase(c, "cli")
		}
		for i := 0; i < c.Scale(50, 200) && timeouts < maxTimeouts; i++ {
			cliFilesCase(c)
		}
		for i := 0; i < c.Scale(50, 200) && timeouts < maxTimeouts; i++ {
			cliOutCase(c)
		}
		for i := 0; i < m/2 && timeouts < maxTimeouts; i++ {
			ref := refTree(c)
			var boots []*core.N
			for k := 1 + c.G.Intn(4); k > 0; k-- {
				boots = append(boots, bootTree(c, ref))
			}
			cliLog(c, ref, boots, logCutoffs[c.G.Intn(len(logCutoffs))])
		}
	}
}
