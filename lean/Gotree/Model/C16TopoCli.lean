/-
  C16 — the RunE of `gotree generate topologies` (cmd/topologies.go:24-62): with `-i` the first tree of
  the input file is read (a read error or an error record ends the run with that error), its tip names
  are taken and their number replaces `-l`; `tree.AllTopologies` is called (error: logged and
  returned); only then the output is opened with `openWriteFile` (error: logged and returned, nothing
  written); all trees are written.  Core Lean only.
-/
import Gotree.Model.C16CliRun

namespace Gotree.C16
open Gotree

/-- what `-i` brought: no option, a file that cannot be read as a tree, or the tip names of its first tree -/
inductive TopoInput where
  | absent
  | unreadable
  | names (l : List String)
  deriving Repr

/-- the number of tips and the names `AllTopologies` is called with -/
def TopoInput.args (inp : TopoInput) (n : Int) : Int × List String :=
  match inp with
  | .names l => ((l.length : Int), l)
  | _ => (n, [])

def topoCli (n : Int) (rooted : Bool) (inp : TopoInput) (creatable : Bool) : CliOut :=
  match inp with
  | .unreadable => ⟨1, true, []⟩
  | _ =>
    match allTopologies (inp.args n).1 rooted (inp.args n).2 with
    | .ok ts => if creatable then ⟨0, false, ts⟩ else ⟨1, true, []⟩
    | _ => ⟨1, true, []⟩

end Gotree.C16
