import Driver.Proto
import Gotree.Spec.C10
import Gotree.Model.C10Cancel
import Gotree.Model.C10Opts

/-
  C10 driver.  Case lines (harness/c10):

  C10.sup  mode  refDump  bootDumps|  fbpOut  fbpAfterDump  tbeOut  tbeAfterDump
      mode = lib | cli ; out = ok | err | nan | panic:… | clifail:… ; the after dumps
      are the α dumps of the annotated reference ("" unless ok).
  C10.inv  refDump₁ boots₁ fbpAfter₁ tbeAfter₁  refDump₂ boots₂ fbpAfter₂ tbeAfter₂
      the second run is the first with the collection permuted and every tree
      (reference included) re-rooted / its children rotated.

  obs_P (DESIGN §4.2): outcome class; support per branch of the reference; none on tips.
-/
namespace Gotree.Driver.C10
open Gotree Gotree.Driver Gotree.C10

def parseDumps (s : String) : Option (List T) := (splitTerm "|" s).mapM T.undump

def supsOf (t : T) : List Rat := t.splits.map (·.e.sup)

/-- same branches in the same order: what lets the supports of the two dumps be aligned (lengths,
    names, ids … are compared by the correspondence, `fidelityDiff`, not by the oracle) -/
def sameShape (a b : T) : Bool :=
  a.splits.map (fun s => (s.below, s.tip)) == b.splits.map (fun s => (s.below, s.tip))

def outClass (s : String) : String :=
  if s.startsWith "panic" then "panic" else if s.startsWith "clifail" then "clifail"
  else if s.startsWith "err" then "err" else s

/-- the error is the one about the taxa (`CompareTipIndexes`: other names / another number of tips) -/
def taxaError (s : String) : Bool := s == "err:taxa"

def modelClass : Out (List Rat) → String
  | .ok _ => "ok" | .err => "err" | .panic => "panic" | .nan => "nan"

def between (x : Rat) : Bool := decide (0 < x) && decide (x < 1)

/-- the branch ids are pairwise distinct (each branch has its own cell in the arrays TBE indexes by id) -/
def distinctIds (t : T) : Bool := decide (t.splits.map (·.e.id)).Nodup

/-- branch ids as the Newick parser assigns them: 0,1,2,… in `Edges()` order -/
def parserIds (t : T) : Bool :=
  (t.splits.map (·.e.id)) == (List.range t.splits.length).map (fun (i : Nat) => ((i : Nat) : Int))

/-- two distinct tip names that a sloppy comparison takes for one: equal once lower-cased, their zeros,
    blanks and separators dropped (`t1`/`t01`, `a`/`A`, `x1`/`x_1`, `1`/`1.0` …) -/
def lookAlike (names : List String) : Bool :=
  let norm (s : String) : String :=
    String.ofList ((s.toList.map Char.toLower).filter fun c => c.isAlphanum && c != '0')
  !decide ((names.map norm).Nodup) && decide names.Nodup

def treeTags (r : T) (bs : List T) : List String :=
  tagIf (lookAlike r.tipNames) "look-alike-tip-names" ++
  tagIf (bs.any fun b => b.splits.any fun s => !s.tip && s.e.len == 0) "boot-inner-zero-length" ++
  tagIf (bs.any fun b => b.splits.any fun s => !s.tip && s.e.len == NIL) "boot-inner-no-length" ++
  tagIf (r.splits.any fun s => !s.tip && s.e.len == 0) "ref-inner-zero-length" ++
  tagIf r.rooted "ref-rooted" ++ tagIf (!r.rooted) "ref-unrooted" ++
  tagIf (r.kids.any (·.2.isLeaf)) "ref-roottip" ++
  tagIf (r.rooted && r.kids.any (·.2.isLeaf)) "ref-rooted-roottip" ++
  tagIf (!r.binary) "ref-multif" ++
  tagIf (bs.any (·.binary)) "boot-binary" ++ tagIf (bs.any (!·.binary)) "boot-multif" ++
  tagIf (bs.any (·.rooted)) "boot-rooted" ++ tagIf (bs.any (!·.rooted)) "boot-unrooted" ++
  tagIf (bs.any (fun b => b.usplitSet == r.usplitSet)) "boot-identical" ++
  tagIf (bs.length ≥ 2) "boots>=2"

/-- oracle for one of the two functions on an accepted input: (ok?, message) -/
def checkOne (name : String) (okP : T → List T → List Rat → Bool) (r : T) (bs : List T)
    (out : String) (after : Option T) : Option String :=
  match outClass out, after with
  | "ok", some a =>
    if !sameShape r a then some (name ++ ": the reference changed shape")
    else if !okP r bs (supsOf a) then some (name ++ ": supports differ from the definition")
    else none
  | "ok", none => some (name ++ ": no result")
  | c, _ => some (name ++ ": outcome " ++ c ++ " on trees with the same taxa")

def tieOne (name : String) (m : Out (List Rat)) (out : String) (after : Option T)
    (eq : Rat → Rat → Bool) : Option String :=
  if modelClass m != outClass out then some (name ++ ": model outcome " ++ modelClass m) else
  match m, after with
  | .ok ms, some a =>
    if zipAll eq (supsOf a) ms then none else some (name ++ ": model supports " ++ showRatList ms)
  | _, _ => none

def parseTriples (s : String) : Option (List (Nat × Nat × Int)) :=
  (splitTerm "," s).mapM fun it =>
    match it.splitOn ":" with
    | [a, b, c] =>
      match a.toNat?, b.toNat?, c.toInt? with
      | some x, some y, some z => some (x, y, z)
      | _, _, _ => none
    | _ => none

/-- fidelity figure (decides nothing): beyond obs_P, is the annotated reference exactly what the
    model says — internal names blanked, everything else (names of tips, comments, lengths,
    p-values, ids, parent positions) untouched, supports where the implementation put them -/
def fidelity (name : String) (r : T) (after : Option T) : List String :=
  match after with
  | none => []
  | some a =>
    [name ++ (if a.nodeNames == (blankNames r).nodeNames then "-names-as-model" else "-names-DIFFER"),
     name ++ (if annotated r (supsOf a) == a then "-tree-as-model" else "-tree-DIFFERS")]

/-- the annotated reference differs from the model's (`names_irrelevant`, `annotated_tree` are about
    `blankNames` / `annotated`): a broken correspondence -/
def fidelityDiff (r : T) (after : Option T) : Bool :=
  match after with
  | none => false
  | some a => annotated r (supsOf a) != a

/-- some node that both functions blank carries a name -/
def innerNamed (r : T) : Bool := r.nodeNames != (blankNames r).nodeNames

def approxRelOrEq (a b : Rat) : Bool := a == b || approxRel a b

/-- one run of FBP and TBE on (reference, collection) with `th` threads -/
def supCase (mode th rd bds fo fa to ta : String) : Verdict :=
  match T.undump rd, parseDumps bds with
  | some r, some bs =>
    let fa? := if fa == "" then none else T.undump fa
    let ta? := if ta == "" then none else T.undump ta
    if (fa != "" && fa?.isNone) || (ta != "" && ta?.isNone) then bad "C10.sup after dumps" else
    let uniq := specUniq r && bs.all specUniq
    let wf := specWf r && bs.all specWf
    let mismatch := bs.any fun b => !sameTaxa r b
    let ids := idsInRange r  -- the hypothesis of the TBE theorems (any numbering inside 0..#branches-1)
    let hyp := inputsOK r bs
    let thN : Int := th.toInt?.getD 1
    let nt := r.tipNames.length
    let allSups := (fa?.map supsOf).getD [] ++ (ta?.map supsOf).getD []
    let tags := [mode, "threads=" ++ th] ++ tagIf (th != "1" && mismatch) "rejection-with-threads" ++ tagIf (thN ≤ 0) "threads<=0" ++ treeTags r bs ++ tagIf (allSups.any between) "nontrivial" ++
      tagIf uniq "uniq" ++ tagIf wf "wf" ++ tagIf mismatch "mismatch" ++ tagIf hyp "hyp-inputsOK" ++
      tagIf (hypOK r bs) "hyp-hypOK" ++ tagIf (hypOK r bs && idsInRange r) "hyp-hypOK+idsInRange" ++
      tagIf (treeOK r && bs.all treeOK && idsInRange r && mismatch) "hyp-different_taxa" ++
      tagIf (!parserIds r) "ids-not-parser" ++ tagIf (!idsInRange r) "ids-out-of-range" ++
      tagIf (idsInRange r && !parserIds r) "ids-permuted" ++
      tagIf (r.splits.any fun s => s.tip && s.e.sup != NIL) "ref-tip-has-support" ++
      tagIf (uniq && !wf) "single-child-node" ++ tagIf (outClass to == "panic") "panic-outcome" ++ tagIf bs.isEmpty "empty" ++
      tagIf (nt < 4) "lt4tips" ++ fidelity "fbp" r fa? ++ fidelity "tbe" r ta? ++
      tagIf (r.splits.any fun s => !s.tip && s.e.sup != NIL) "ref-has-supports" ++
      tagIf (r.splits.any fun s => !s.tip && depth r.tipNames s.below ≤ 1 && s.e.sup != NIL) "ref-root-twin-has-support" ++
      tagIf (innerNamed r) "ref-inner-names" ++
      tagIf (r.kids.length == 1 || bs.any (·.kids.length == 1)) "root-is-a-tip" ++
      tagIf (r.tipNames.any fun x => x.toList.any fun ch => !(ch.isAlphanum)) "awkward-tip-names" ++
      tagIf (nt > 16) "more-than-16-tips"
    -- oracle: the FBP half and the rejection clause never depend on the branch ids; the TBE half
    -- has the ids of the reference as a precondition (`sumNbClosestBranches[e.Id()]`)
    let gate := uniq && wf && !bs.isEmpty
    let orc : Option String :=
      if !gate then none
      else if mismatch then
        (if !taxaError fo then some ("FBP: bootstrap tree on other taxa not rejected as such (outcome " ++ fo ++ ")")
         else if ids && !taxaError to then some ("TBE: bootstrap tree on other taxa not rejected as such (outcome " ++ to ++ ")")
         else none)
      else
        match checkOne "FBP" fbpOK r bs fo fa?, (if ids then checkOne "TBE" tbeOK r bs to ta? else none) with
        | some m, _ => some m
        | _, some m => some m
        | none, none =>
          match ids, fa?, ta? with
          | true, some a, some b =>
            if fbpLeTbeOK r (supsOf a) (supsOf b) then none else some "FBP support above TBE support"
          | _, _, _ => none
    match orc with
    | some m => ⟨.oracle, tags ++ tagIf (gate && !ids) "oracle-fbp-half-only", m⟩
    | none =>
      match tieOne "FBP" (fbpCfg thN r bs) fo fa? approxRelOrEq, tieOne "TBE" (tbeCfg thN r bs) to ta? approxAbs with
      | some m, _ => ⟨.tie, tags, m⟩
      | _, some m => ⟨.tie, tags, m⟩
      | none, none =>
        if fidelityDiff r fa? then ⟨.tie, tags, "FBP: the annotated reference is not the model's (names blanked, supports written, nothing else touched)"⟩
        else if fidelityDiff r ta? then ⟨.tie, tags, "TBE: the annotated reference is not the model's (names blanked, supports written, nothing else touched)"⟩
        else ⟨.pass, tags ++ tagIf (gate && !ids) "oracle-fbp-half-only", ""⟩
  | _, _ => bad "C10.sup dumps"


/-- one call of ONE function inside a session (several calls in one process sharing a `Supporter`
    and/or the reference tree object): `rd` is the α dump of the reference just before this call —
    it may carry the names blanked and the supports written by the previous call.  The result must
    be what the definitions give for (that reference, this collection): no state of an earlier call
    may leak.  `kind` = fbp | tbe, `pos` = position of the call in the session, `share` = what is shared. -/
def stepCase (kind th pos share rd bds out after : String) : Verdict :=
  match T.undump rd, parseDumps bds with
  | some r, some bs =>
    let a? := if after == "" then none else T.undump after
    if after != "" && a?.isNone then bad "C10.step after dump" else
    let uniq := specUniq r && bs.all specUniq
    let wf := specWf r && bs.all specWf
    let mismatch := bs.any fun b => !sameTaxa r b
    let ids := idsInRange r  -- the hypothesis of the TBE theorems (any numbering inside 0..#branches-1)
    let thN : Int := th.toInt?.getD 1
    let isF := kind == "fbp"
    if kind == "tbe-noindex" then
      -- outside the precondition of TBE: correspondence with the model of that misuse only
      (match tieOne "TBE (reference never indexed)" (tbeNotIndexed r bs) out a? approxAbs with
       | some m => ⟨.tie, ["session", "session-tbe-noindex"], m⟩
       | none => ⟨.pass, ["session", "session-tbe-noindex"], ""⟩) else
    let tags := ["session", "session-" ++ kind, "threads=" ++ th, "session-call-" ++ pos, "session-share-" ++ share] ++
      tagIf (((a?.map supsOf).getD []).any between) "nontrivial" ++ tagIf mismatch "mismatch" ++
      tagIf (r.splits.any fun s => !s.tip && s.e.sup != NIL) "ref-has-supports" ++
      tagIf (hypOK r bs && idsInRange r) "hyp-hypOK+idsInRange" ++
      tagIf (idsInRange r && !parserIds r) "ids-permuted" ++
      tagIf (r.splits.any fun s => s.tip && s.e.sup != NIL) "ref-tip-has-support"
    let gate := uniq && wf && !bs.isEmpty && (isF || ids)
    let orc : Option String :=
      if !gate then none
      else if mismatch then
        (if !taxaError out then some (kind ++ " (call " ++ pos ++ " of a session): bootstrap tree on other taxa not rejected as such (outcome " ++ out ++ ")") else none)
      else if isF then checkOne ("FBP (call " ++ pos ++ " of a session sharing " ++ share ++ ")") fbpOK r bs out a?
      else checkOne ("TBE (call " ++ pos ++ " of a session sharing " ++ share ++ ")") tbeOK r bs out a?
    match orc with
    | some m => ⟨.oracle, tags, m⟩
    | none =>
      let t := if isF then tieOne "FBP" (fbpCfg thN r bs) out a? approxRelOrEq else tieOne "TBE" (tbeCfg thN r bs) out a? approxAbs
      match t with
      | some m => ⟨.tie, tags, m⟩
      | none =>
        if fidelityDiff r a? then ⟨.tie, tags, kind ++ ": the annotated reference is not the model's"⟩
        else ⟨.pass, tags, ""⟩
  | _, _ => bad "C10.step dumps"

/-- one call with a `*support.Supporter` whose counter holds `p0`, cancelled as soon as `k` bootstrap
    trees of this call are finished (harness/c10/cancel.go).  What the definitions give for the FIRST
    `k` trees is what the call must return (oracle, when that prefix is inside the quantifier);
    outcome, supports, annotated tree and `Progress()` afterwards against `fbpS` / `tbeS`. -/
def cancelCase (kind th ks p0s rd bds out after progs : String) : Verdict :=
  -- `async<µs>`: Cancel() arrived at an unknown moment (also in the middle of a tree); the call is judged on
  -- the number of trees it reports as finished itself, `Progress() - p0`
  let async := ks.startsWith "async"
  match T.undump rd, parseDumps bds, (if async then some 0 else ks.toNat?), p0s.toNat?, progs.toInt? with
  | some r, some bs, some k0, some p0, some prog =>
    let a? := if after == "" then none else T.undump after
    if after != "" && a?.isNone then bad "C10.cancel after dump" else
    if async && (prog < (p0 : Int) || prog > ((p0 + bs.length : Nat) : Int)) then
      ⟨.tie, ["cancel", "cancel-async"], "Progress() is " ++ progs ++ " after a call on " ++ toString bs.length ++ " trees that started at " ++ p0s⟩ else
    let k := if async then (prog - (p0 : Int)).toNat else k0
    let ks := if async then toString k ++ " (asynchronously)" else ks
    let pre := bs.take k
    let uniq := specUniq r && pre.all specUniq
    let wf := specWf r && pre.all specWf
    let mismatch := pre.any fun b => !sameTaxa r b
    let ids := idsInRange r
    let thN : Int := th.toInt?.getD 1
    let isF := kind == "fbp"
    let tags := ["cancel", "cancel-" ++ kind, "threads=" ++ th] ++ tagIf async "cancel-async" ++
      tagIf (k == 0) "cancel-before-start" ++ tagIf (0 < k && k < bs.length) "cancel-mid-run" ++
      tagIf (bs.length ≤ k) "never-cancelled" ++ tagIf (p0 > 0) "supporter-reused" ++
      tagIf (((a?.map supsOf).getD []).any between) "nontrivial" ++ tagIf mismatch "mismatch" ++
      tagIf ((bs.drop k).any fun b => !sameTaxa r b) "other-taxa-after-cancel" ++
      tagIf (hypOK r pre) "hyp-hypOK" ++ tagIf (hypOK r pre && ids) "hyp-hypOK+idsInRange"
    let gate := uniq && wf && !pre.isEmpty && (isF || ids)
    let name := (if isF then "FBP" else "TBE") ++ " cancelled after " ++ ks ++ " of " ++ toString bs.length ++ " trees"
    let orc : Option String :=
      if !gate then none
      else if mismatch then
        (if !taxaError out then some (name ++ ": bootstrap tree on other taxa not rejected as such (outcome " ++ out ++ ")") else none)
      else if isF then checkOne name fbpOK r pre out a?
      else checkOne name tbeOK r pre out a?
    match orc with
    | some m => ⟨.oracle, tags, m⟩
    | none =>
      let m := if isF then fbpS r bs p0 (p0 + k) else tbeS r bs p0 (p0 + k)
      match tieOne name m.1 out a? (if isF then approxRelOrEq else approxAbs) with
      | some msg => ⟨.tie, tags, msg⟩
      | none =>
        if fidelityDiff r a? then ⟨.tie, tags, name ++ ": the annotated reference is not the model's"⟩
        -- with several FBP workers and a refused tree the counter depends on the schedule
        else if (thN ≤ 1 || !isF || !mismatch) && prog != ((m.2 : Nat) : Int) then
          ⟨.tie, tags, name ++ ": Progress() is " ++ progs ++ ", model " ++ toString m.2 ++ " (was " ++ p0s ++ " before the call)"⟩
        else ⟨.pass, tags, ""⟩
  | _, _, _, _, _ => bad "C10.cancel fields"

def parseItems (s : String) : List (Item String) :=
  (splitTerm "|" s).map fun x =>
    if x == "B" then .blank else if x == "J" then .junk
    else if x.startsWith "L" then .treeLine ((String.ofList (x.toList.drop 1)).splitOn "^") else .tree x

def isTreeItem : Item String → Bool
  | .tree _ => true
  | .treePlus _ => true
  | .treeLine _ => true
  | _ => false

/-- the files given to `gotree compute support`: the model of the readers picks the trees,
    then the case is an ordinary one -/
def cliCase (th refItems bootItems fo fa to ta : String) : Verdict :=
  let ri := parseItems refItems
  let bi := parseItems bootItems
  let tags0 := ["cli-files"] ++ tagIf ((ri.filter isTreeItem).length ≥ 2) "ref-file-more-trees" ++
    tagIf (ri.head?.map isTreeItem == some false) "ref-file-leading-blank" ++
    tagIf (bi.any fun x => match x with | .blank => true | _ => false) "boot-file-blank-lines" ++
    tagIf (bi.any fun x => match x with | .junk => true | _ => false) "boot-file-unterminated" ++
    tagIf (!bi.any isTreeItem) "boot-file-no-tree" ++
    tagIf (bi.any fun x => match x with | .treeLine _ => true | _ => false) "boot-file-several-trees-on-a-line"
  let expectErr (why : String) : Verdict :=
    if outClass fo == "err" && outClass to == "err" then ⟨.pass, tags0 ++ ["cli-reader-error"], ""⟩
    else ⟨.tie, tags0, "model of the readers: " ++ why ++ "; outcomes " ++ outClass fo ++ "/" ++ outClass to⟩
  match cliReference ri with
  | none => expectErr "no reference tree"
  | some rd =>
    let st := cliStream bi
    if st.any Option.isNone then expectErr "erroneous item in the bootstrap stream"
    else
      let v := supCase "cli" th rd (joinTerm "|" (st.filterMap id)) fo fa to ta
      { v with tags := tags0 ++ v.tags }

/-- printed with `%f` / `%.6f`: six decimals -/
def approxLog (a b : Rat) : Bool := absR (a - b) * 1000000 ≤ 1

def parseRaw (s : String) : Option (List (Nat × Rat × Int)) :=
  (splitTerm "," s).mapM fun it =>
    match it.splitOn ":" with
    | [a, b, c] =>
      match a.toNat?, parseRat? b, c.toInt? with
      | some x, some y, some z => some (x, y, z)
      | _, _, _ => none
    | _ => none

def parseTaxa (s : String) : Option (List (String × Rat)) :=
  (splitTerm "," s).mapM fun it =>
    match it.splitOn ":" with
    | [a, b] =>
      match unescape a, parseRat? b with
      | some x, some y => some (x, y)
      | _, _ => none
    | _ => none

def parseBranches (s : String) : Option (List (Int × Int × Rat × List Rat)) :=
  (splitTerm "," s).mapM fun it =>
    match it.splitOn ":" with
    | [a, b, c, d] =>
      match a.toInt?, b.toInt?, parseRat? c, (if d == "" then some [] else (d.splitOn ";").mapM parseRat?) with
      | some x, some y, some z, some l => some (x, y, z, l)
      | _, _, _, _ => none
    | _ => none

/-- TBE's other outputs (raw tree, moved taxa, per branch) against the model: correspondence;
    the average transfer distance of the raw tree is also checked against the definition -/
def logCase (mode opts rd bds cs out raws taxas brs : String) (after : Option String) : Verdict :=
  match T.undump rd, parseDumps bds, parseRat? cs, parseRaw raws, parseTaxa taxas, parseBranches brs with
  | some r, some bs, some cutoff, some raw, some taxa, some branches =>
    let a? := after.bind fun x => if x == "" then none else T.undump x
    if after.isSome && out == "ok" && a?.isNone then bad "C10.logx after dump" else
    let optA := opts.contains 'a'
    let optB := opts.contains 'b'
    let optR := opts.contains 'r'
    let ok := hypOK r bs && idsInRange r && distinctIds r
    let tags := ["log", "log-" ++ mode, "log-opts=" ++ opts] ++ tagIf (opts != "abr") "log-option-subset" ++ tagIf ok "hyp-log" ++ tagIf (ok && !parserIds r) "ids-permuted" ++ tagIf (taxa.any fun x => x.2 != 0) "nontrivial" ++
      tagIf (taxa.any fun x => x.2 != 0) "moved-taxa-nonzero" ++
      tagIf (branches.any fun x => decide (x.2.2.1 > 1)) "several-closest-branches"
    if !ok then ⟨.pass, "skip" :: tags, ""⟩
    else if out != "ok" then ⟨.oracle, tags, "TBE with the log options '" ++ opts ++ "': outcome " ++ outClass out⟩
    else if modelClass (tbeOpts optA optB r bs) != "ok" then
      ⟨.tie, tags, "TBE with the log options '" ++ opts ++ "': model outcome " ++ modelClass (tbeOpts optA optB r bs)⟩
    else
      -- oracle: whatever is logged, the supports written on the reference are the definition's
      let gate := specUniq r && bs.all specUniq && specWf r && bs.all specWf
      match (if after.isSome && gate then checkOne ("TBE with the log options '" ++ opts ++ "'") tbeOK r bs out a? else none) with
      | some m => ⟨.oracle, tags, m⟩
      | none =>
      match (if after.isSome then tieOne ("TBE with the log options '" ++ opts ++ "'") (tbe r bs) out a? approxAbs else none) with
      | some m => ⟨.tie, tags, m⟩
      | none =>
      if after.isSome && mode == "lib" && fidelityDiff r a? then ⟨.tie, tags, "TBE with the log options: the annotated reference is not the model's"⟩ else
      -- a table / the raw tree that was not asked for is not written
      if (!optR && !raw.isEmpty) || (!optA && !taxa.isEmpty) || (!optB && !branches.isEmpty) then
        ⟨.tie, tags, "an output that was not asked for was written (options '" ++ opts ++ "')"⟩ else
      -- oracle: the raw tree carries the mean least transfer distance of the definition
      let n := ntips r
      let rawDef : List (Nat × Rat × Int) := (List.zip (List.range r.splits.length) r.splits).filterMap fun x =>
        if 2 ≤ depth r.tipNames x.2.below then
          let L := lightSide r.tipNames x.2.below
          some (x.1, (((bs.map (minTransferPure L n)).sum : Nat) : Rat) / ((bs.length : Nat) : Rat),
                ((depth r.tipNames x.2.below : Nat) : Int))
        else none
      let eqRaw (a b : List (Nat × Rat × Int)) : Bool :=
        zipAll (fun x y => x.1 == y.1 && approxLog x.2.1 y.2.1 && x.2.2 == y.2.2) a b
      if optR && !eqRaw raw rawDef then ⟨.oracle, tags, "raw tree: average transfer distances differ from the definition"⟩
      else
        let m0 := tbeLog r bs cutoff
        -- the three outputs are independent of each other: an option that is not given removes its output only
        let m : LogOut := { raw := if optR then m0.raw else [], taxa := if optA then m0.taxa else [], branches := if optB then m0.branches else [] }
        if !eqRaw raw m.raw then ⟨.tie, tags, "model raw tree"⟩
        else if !zipAll (fun x y => x.1 == y.1 && approxLog x.2 y.2) taxa m.taxa then
          ⟨.tie, tags, "model moved taxa " ++ showRatList (m.taxa.map (·.2))⟩
        else if !zipAll (fun (x y : Int × Int × Rat × List Rat) => x.1 == y.1 && x.2.1 == y.2.1 && approxLog x.2.2.1 y.2.2.1 &&
              zipAll approxLog x.2.2.2 y.2.2.2) branches m.branches then
          ⟨.tie, tags, "model per-branch table " ++ showRatMatrix (m.branches.map fun x => x.2.2.1 :: x.2.2.2)⟩
        else
          -- consistency of the implementation's own tables: the taxa moved around a branch add up to
          -- its average transfer distance (each closest branch is reached by moving `dist` taxa)
          let rowsOK := branches.all fun x =>
            if x.2.1 > 1 then
              -- the raw tree numbers the branches by position, the table prints the branch id
              match m0.raw.find? (fun y => ((r.splits.map (·.e.id)).getD y.1 (-1)) == x.1) with
              | some y => decide (absR (x.2.2.2.sum - y.2.1) * 1000000 ≤ ((x.2.2.2.length + 1 : Nat) : Rat))
              | none => x.2.2.2.all (· == 0)
            else true
          if !rowsOK then ⟨.tie, tags, "per-branch table: the moved taxa do not add up to the average transfer distance"⟩
          else ⟨.pass, "log-rows-sum-to-distance" :: tags, ""⟩
  | _, _, _, _, _, _ => bad "C10.log fields"

/-- the mean least transfer distance of the definition, per inner branch (position, mean, depth) -/
def rawDefOf (r : T) (bs : List T) : List (Nat × Rat × Int) :=
  let n := ntips r
  (List.zip (List.range r.splits.length) r.splits).filterMap fun x =>
    if 2 ≤ depth r.tipNames x.2.below then
      let L := lightSide r.tipNames x.2.below
      some (x.1, (((bs.map (minTransferPure L n)).sum : Nat) : Rat) / ((bs.length : Nat) : Rat),
            ((depth r.tipNames x.2.below : Nat) : Int))
    else none

def eqRawL (a b : List (Nat × Rat × Int)) : Bool :=
  zipAll (fun x y => x.1 == y.1 && approxLog x.2.1 y.2.1 && x.2.2 == y.2.2) a b

def parseOutItems (s : String) : Option (List (String × String)) :=
  (splitTerm "@@" s).mapM fun it =>
    match it.splitOn "=" with
    | k :: rest => some (k, "=".intercalate rest)
    | [] => none

/-- one run of `gotree compute support fbp|classical|tbe|booster` with -o / -r / -l given as a file,
    `stdout`, `-` or left out (harness/c10/cliout.go): every tree that was written, wherever it went,
    carries the definition's supports / mean distances (oracle); where it went, in which order, and the
    head of the log are the model's (`stdoutItems` …, `logHeaderOK`). -/
def outCase (which outSel rawSel logSel th rd bds inP bootP outP exit so fo ro logs mids : String) : Verdict :=
  match T.undump rd, parseDumps bds, parseOutItems so, parseOutItems fo, parseOutItems ro, parseStrList logs,
        unescape inP, unescape bootP, unescape outP, parseStrList mids with
  | some r, some bs, some sOut, some fOut, some rOut, some logLines, some inPath, some bootPath, some outArg, some midLines =>
    let isT := which == "tbe" || which == "booster"
    let thN : Int := th.toInt?.getD 1
    let tags := ["cli-out", "cli-out-" ++ which, "out=" ++ outSel, "log=" ++ logSel] ++ tagIf isT ("raw=" ++ rawSel) ++
      tagIf (isT && toStdout outSel && rawSel != "none" && toStdout rawSel) "raw-and-supports-on-stdout"
    -- a reference without any non-trivial branch has a raw tree that looks like the annotated one: not judged
    let ok := hypOK r bs && idsInRange r && specUniq r && bs.all specUniq && specWf r && bs.all specWf && !(rawDefOf r bs).isEmpty
    if !ok then ⟨.pass, "skip" :: tags, ""⟩
    else if exit != "ok" then ⟨.oracle, tags, "gotree compute support " ++ which ++ ": outcome " ++ outClass exit ++ " on trees with the same taxa"⟩
    else
      let all := sOut ++ fOut ++ rOut
      -- oracle: whatever was written carries the definition's values
      let judge (it : String × String) : Option (Bool × String) :=
        if it.1 == "sup" then
          match T.undump it.2 with
          | none => some (false, "unreadable tree")
          | some a =>
            match checkOne (which ++ " (-o " ++ outSel ++ ")") (if isT then tbeOK else fbpOK) r bs "ok" (some a) with
            | some m => some (true, m)
            | none =>
              (tieOne which (if isT then tbeCfg thN r bs else fbpCfg thN r bs) "ok" (some a) (if isT then approxAbs else approxRelOrEq)).map fun m => (false, m)
        else if it.1 == "raw" then
          match parseRaw it.2 with
          | none => some (false, "unreadable raw tree")
          | some raw =>
            if !eqRawL raw (rawDefOf r bs) then some (true, "raw tree (-r " ++ rawSel ++ "): average transfer distances differ from the definition")
            else if !eqRawL raw (tbeLog r bs (3/10)).raw then some (false, "model raw tree") else none
        else some (false, "a line that is not a tree was written")
      match all.filterMap judge with
      | x :: xs =>
        (match (x :: xs).find? (·.1) with
         | some (_, m) => ⟨.oracle, tags, m⟩
         | none => ⟨.tie, tags, x.2⟩)
      | [] =>
        if sOut.map (·.1) != stdoutItems isT outSel rawSel then
          ⟨.tie, tags, "standard output holds " ++ toString (sOut.map (·.1)) ++ ", model " ++ toString (stdoutItems isT outSel rawSel)⟩
        else if fOut.map (·.1) != outFileItems outSel then
          ⟨.tie, tags, "-o file holds " ++ toString (fOut.map (·.1)) ++ ", model " ++ toString (outFileItems outSel)⟩
        else if rOut.map (·.1) != rawFileItems isT rawSel then
          ⟨.tie, tags, "-r file holds " ++ toString (rOut.map (·.1)) ++ ", model " ++ toString (rawFileItems isT rawSel)⟩
        else if !logHeaderOK isT inPath bootPath outArg thN logLines then
          ⟨.tie, tags, "log (" ++ logSel ++ "): " ++ toString logLines⟩
        else if midLines != progressLines isT logSel thN bs.length then
          ⟨.tie, tags, "log (" ++ logSel ++ ") between its head and its last line: " ++ toString midLines ++ ", model " ++ toString (progressLines isT logSel thN bs.length)⟩
        else ⟨.pass, tags ++ tagIf (all.any fun it => it.1 == "sup" && ((T.undump it.2).map (fun a => (supsOf a).any between)).getD false) "nontrivial", ""⟩
  | _, _, _, _, _, _, _, _, _, _ => bad "C10.out fields"

def handle (op : String) (f : List String) : Verdict :=
  match op, f with
  | "log", [rd, bds, cs, out, raws, taxas, brs] => logCase "lib" "abr" rd bds cs out raws taxas brs none
  | "logx", [mode, opts, rd, bds, cs, out, raws, taxas, brs, after] => logCase mode opts rd bds cs out raws taxas brs (some after)
  | "out", [which, outSel, rawSel, logSel, th, rd, bds, inP, bootP, outP, exit, so, fo, ro, logs, mids] =>
    outCase which outSel rawSel logSel th rd bds inP bootP outP exit so fo ro logs mids
  | "cancel", [kind, th, ks, p0s, rd, bds, out, after, progs] => cancelCase kind th ks p0s rd bds out after progs
  | "step", [kind, th, pos, share, rd, bds, out, after, _session] => stepCase kind th pos share rd bds out after
  | "cli", [th, refItems, bootItems, fo, fa, to, ta] => cliCase th refItems bootItems fo fa to ta
  | "sup", [mode, rd, bds, fo, fa, to, ta] => supCase mode "1" rd bds fo fa to ta
  | "supt", [mode, th, rd, bds, fo, fa, to, ta] => supCase mode th rd bds fo fa to ta
  | "mtd", [rd, bd, out, res] =>
    match T.undump rd, T.undump bd, parseTriples res with
    | some r, some b, some items =>
      let n := ntips r
      let ok := treeOK r && treeOK b && sameTaxa r b
      let tags := ["mtd"] ++ tagIf ok "hyp-mtd_correct" ++ tagIf (items.any fun x => decide (x.2.2 ≥ 2)) "nontrivial" ++
        tagIf (items.any fun x => x.2.1 == 1 && decide (x.2.2 == 1)) "early-stop-taken"
      if out != "ok" then
        (if ok then ⟨.oracle, tags, "MinTransferDist: outcome " ++ outClass out⟩ else ⟨.pass, "skip" :: tags, ""⟩)
      else
      -- every item: (branch index, absent, distance returned)
      let check (x : Nat × Nat × Int) : Option (Bool × String) :=
        match r.splits[x.1]? with
        | none => some (false, "no such branch")
        | some s =>
          let absent := x.2.1 == 1
          let p := topoDepth n s
          let L := lightSide r.tipNames s.below
          let present := containsSplit r.tipNames s.below b
          -- oracle: the definition, wherever the shortcut may legitimately be asked for
          if ok && (!absent || !present) && x.2.2 != ((minTransferPure L n b : Nat) : Int) then
            some (true, "MinTransferDist " ++ toString x.2.2 ++ " is not the least transfer distance " ++
              toString (minTransferPure L n b) ++ " (branch " ++ toString x.1 ++ ")")
          else if x.2.2 != minTransferDist (lightOf n s) p n absent b then
            some (false, "model distance " ++ toString (minTransferDist (lightOf n s) p n absent b) ++
              " (branch " ++ toString x.1 ++ ", absent " ++ toString absent ++ ")")
          else none
      match items.filterMap check with
      | [] => ⟨.pass, tags, ""⟩
      | l =>
        match l.find? (·.1) with
        | some (_, m) => ⟨.oracle, tags, m⟩
        | none => ⟨.tie, tags, (l.headD (false, "")).2⟩
    | _, _, _ => bad "C10.mtd fields"
  | "inv", [rd1, bd1, fa1, ta1, rd2, bd2, fa2, ta2] =>
    match T.undump rd1, parseDumps bd1, T.undump fa1, T.undump ta1,
          T.undump rd2, parseDumps bd2, T.undump fa2, T.undump ta2 with
    | some r1, some b1, some f1, some t1, some r2, some b2, some f2, some t2 =>
      let key (t : T) : String := showStrLists t.usplitSet
      let sane := sortStrings r1.tipNames == sortStrings r2.tipNames && r1.usplitSet == r2.usplitSet &&
        sortStrings (b1.map key) == sortStrings (b2.map key) &&
        sameShape r1 f1 && sameShape r1 t1 && sameShape r2 f2 && sameShape r2 t2
      let tags := tagIf ((supMap f1 ++ supMap t1).any (fun x => between x.2)) "nontrivial" ++
        tagIf (r1.rooted != r2.rooted) "inv-rooting-changed" ++
        tagIf (b1.map key != b2.map key) "inv-order-changed" ++ ["inv"] ++
        tagIf (b1.length == b2.length && b1.all (fun b => b2.any (fun b' => splitsEquiv r1.tipNames b b')) &&
               b2.all (fun b' => b1.any (fun b => splitsEquiv r1.tipNames b b')) &&
               hypOK r1 b1 && hypOK r1 b2) "hyp-bootstrap_presentation" ++
        tagIf (hypOK r1 b1 && treeOK r2 && sameTaxa r1 r2 && idsInRange r1 && idsInRange r2 &&
               r1.splits.all (fun s => r2.splits.any (fun s' => sameSplit r1.tipNames s.below s'.below)))
          "hyp-reference_presentation"
      if !sane then bad "C10.inv: the two runs are not presentations of the same trees" else
      if !(specUniq r1 && b1.all specUniq) then ⟨.pass, "skip-dupnames" :: tags, ""⟩ else
      if !supMapEq (supMap f1) (supMap f2) then ⟨.oracle, tags, "FBP depends on the order / rooting / child order of the trees"⟩
      else if !supMapEq (supMap t1) (supMap t2) then ⟨.oracle, tags, "TBE depends on the order / rooting / child order of the trees"⟩
      else ⟨.pass, tags, ""⟩
    | _, _, _, _, _, _, _, _ => bad "C10.inv dumps"
  | _, _ => bad ("C10: unknown op " ++ op)

end Gotree.Driver.C10
