/-
  C01 — what the property means.  Bool-valued, core Lean only.

  `sameTree a b`       same rooted shape and child order, same names, lengths, supports, p-values,
                       node comments and branch comments (branch ids and parent positions are not part
                       of the statement)
  `roundTripOK …`      the oracle: the re-read tree is `sameTree` as the original and the two texts are equal
  `WF01 isFloat dom t` the quantifier of the property, transcribed
  `decodeLossy`        what `bufio.ReadRune` delivers for a byte string (invalid byte ↦ U+FFFD), used to
                       recognise defect F2 and nothing else
-/
import Gotree.Model.C01

namespace Gotree.C01
open Gotree Gotree.Newick

/-- branch data up to the id -/
def sameEdge (a b : EdgeD) : Bool :=
  decide (a.len = b.len) && decide (a.sup = b.sup) && decide (a.pval = b.pval) && decide (a.comments = b.comments)

mutual
def sameTree : T → T → Bool
  | .node d₁ _ k₁, .node d₂ _ k₂ => decide (d₁ = d₂) && sameKids k₁ k₂
def sameKids : Kids → Kids → Bool
  | [], [] => true
  | (e₁, t₁) :: r₁, (e₂, t₂) :: r₂ => sameEdge e₁ e₂ && sameTree t₁ t₂ && sameKids r₁ r₂
  | _, _ => false
end

/-- The oracle of C01 on the implementation's own output. -/
def roundTripOK (orig reread : T) (text1 text2 : String) : Bool :=
  sameTree orig reread && text1 == text2

/-- the same oracle on the model's own round trip (used for the negative witnesses) -/
def roundTripModel (C : Codec) (t : T) : Bool :=
  match Newick.parse C (Newick.write C t) with
  | .ok t' => roundTripOK t t' (Newick.writeStr C t) (Newick.writeStr C t')
  | _ => false

/- ## The quantifier -/

def isMeta (c : Char) : Bool :=
  c == '(' || c == ')' || c == '[' || c == ']' || c == ',' || c == ':' || c == ';'

/-- no Newick metacharacter -/
def noMeta (s : List Char) : Bool := s.all (fun c => !isMeta c)

/-- tip name: non-empty, no metacharacter, no surrounding blanks -/
def tipNameOK (s : String) : Bool :=
  let l := s.toList
  !l.isEmpty && noMeta l && trimSpace s == s

/-- "not numeric-looking": not a float, not float/float -/
def notNumeric (isFloat : List Char → Bool) (l : List Char) : Bool :=
  !isFloat l &&
  (match splitSlash l with
   | [a, b] => !(isFloat a && isFloat b)
   | _ => true)

/-- name of an inner node or of the root: no metacharacter, no leading blank of the lexer, not numeric-looking -/
def innerNameOK (isFloat : List Char → Bool) (s : String) : Bool :=
  let l := s.toList
  noMeta l && (match l with | [] => true | c :: _ => !isWhitespace c) && (l.isEmpty || notNumeric isFloat l)

def commentOK (c : String) : Bool := c.toList.all (· != ']')

/-- a present value must be one the codec represents (finite float64 for Go) -/
def valOK (dom : Rat → Bool) (v : Rat) : Bool := v == NIL || dom v

/-- branch data above a tip: no support, no p-value (the writer prints a support only next to an
    unnamed node), values representable, at most one comment and only with a length -/
def tipEdgeOK (dom : Rat → Bool) (e : EdgeD) : Bool :=
  e.sup == NIL && e.pval == NIL && valOK dom e.len &&
  e.comments.all commentOK && (e.comments.length == 0 || (e.comments.length == 1 && e.len != NIL))

/-- branch data above an inner node named `name` -/
def innerEdgeOK (dom : Rat → Bool) (name : String) (e : EdgeD) : Bool :=
  valOK dom e.len && valOK dom e.sup && valOK dom e.pval &&
  (name == "" || (e.sup == NIL && e.pval == NIL)) &&       -- a name or a support
  (e.pval == NIL || e.sup != NIL) &&                        -- p-value only with a support
  e.comments.all commentOK && (e.comments.length == 0 || (e.comments.length == 1 && e.len != NIL))

mutual
/-- a non-root node with the branch above it -/
def wfNode (isFloat : List Char → Bool) (dom : Rat → Bool) : EdgeD → T → Bool
  | e, .node d _ [] => tipNameOK d.name && d.comments.all commentOK && tipEdgeOK dom e
  | e, .node d _ (k :: ks) =>
    innerNameOK isFloat d.name && d.comments.all commentOK && innerEdgeOK dom d.name e && wfKids isFloat dom (k :: ks)
def wfKids (isFloat : List Char → Bool) (dom : Rat → Bool) : Kids → Bool
  | [] => true
  | (e, t) :: r => wfNode isFloat dom e t && wfKids isFloat dom r
end

/-- All well-formed trees of the property's quantifier: root with ≥ 2 children (hence ≥ 2 tips), any
    degree, name alphabets, values, comments as stated. -/
def WF01 (isFloat : List Char → Bool) (dom : Rat → Bool) : T → Bool
  | .node d _ k =>
    decide (k.length ≥ 2) && innerNameOK isFloat d.name && d.comments.all commentOK && wfKids isFloat dom k

/-- WF01 with the clause "the root has ≥ 2 children" weakened to "≥ 1": a root with a single neighbour is
    a tip for the parser (its name is trimmed), so its name must be free of surrounding blanks.  The round
    trip of such trees rests on fix 331c4ae of the writer ("(child)root;"). -/
def WF01r (isFloat : List Char → Bool) (dom : Rat → Bool) : T → Bool
  | .node d _ k =>
    decide (k.length ≥ 1) && (k.length != 1 || trimSpace d.name == d.name) &&
    innerNameOK isFloat d.name && d.comments.all commentOK && wfKids isFloat dom k

/- ## bufio.ReadRune on arbitrary bytes (for the classification of F2) -/

def isCont (b : UInt8) (lo hi : UInt8) : Bool := lo ≤ b && b ≤ hi

/-- one valid multi-byte sequence starting with `b0`: the rune and the number of continuation bytes -/
def decodeOne (b0 : UInt8) (r : List UInt8) : Option (Char × Nat) :=
  if b0 < 0x80 then some (Char.ofNat b0.toNat, 0)
  else if 0xC2 ≤ b0 && b0 ≤ 0xDF then
    match r with
    | b1 :: _ =>
      if isCont b1 0x80 0xBF then some (Char.ofNat ((b0.toNat - 0xC0) * 64 + (b1.toNat - 0x80)), 1) else none
    | [] => none
  else if 0xE0 ≤ b0 && b0 ≤ 0xEF then
    let lo : UInt8 := if b0 == 0xE0 then 0xA0 else 0x80
    let hi : UInt8 := if b0 == 0xED then 0x9F else 0xBF
    match r with
    | b1 :: b2 :: _ =>
      if isCont b1 lo hi && isCont b2 0x80 0xBF then
        some (Char.ofNat ((b0.toNat - 0xE0) * 4096 + (b1.toNat - 0x80) * 64 + (b2.toNat - 0x80)), 2)
      else none
    | _ => none
  else if 0xF0 ≤ b0 && b0 ≤ 0xF4 then
    let lo : UInt8 := if b0 == 0xF0 then 0x90 else 0x80
    let hi : UInt8 := if b0 == 0xF4 then 0x8F else 0xBF
    match r with
    | b1 :: b2 :: b3 :: _ =>
      if isCont b1 lo hi && isCont b2 0x80 0xBF && isCont b3 0x80 0xBF then
        some (Char.ofNat ((b0.toNat - 0xF0) * 262144 + (b1.toNat - 0x80) * 4096 + (b2.toNat - 0x80) * 64 + (b3.toNat - 0x80)), 3)
      else none
    | _ => none
  else none

/-- `utf8.DecodeRune` repeated: an invalid or truncated sequence yields U+FFFD and consumes ONE byte. -/
def decodeLossy : List UInt8 → List Char
  | [] => []
  | b0 :: r =>
    match decodeOne b0 r with
    | some (c, n) => c :: decodeLossy (r.drop n)
    | none => Char.ofNat 0xFFFD :: decodeLossy r
termination_by l => l.length
decreasing_by
  all_goals simp only [List.length_cons, List.length_drop]
  all_goals omega

end Gotree.C01

/-- The values the executable codec prints and reads back exactly: a decidable check, evaluated by the
    driver on every value of every case (every finite float64 is expected to pass; tag `godom`).  On this
    domain `goCodec` is a lawful `FloatCodec` (`Gotree.Newick.goFloatCodec`, Lemmas/C01GoCodec.lean). -/
def Gotree.Newick.goDom (x : Rat) : Bool :=
  Gotree.Newick.goCodec.isFloat (Gotree.Newick.goCodec.fmt x) &&
  Gotree.Newick.goCodec.parse (Gotree.Newick.goCodec.fmt x) == some x

/-- The structural version of `goDom` (no reading back): the shortest-digit search for `|x|` ended on a
    candidate `n · 10^p` that it CHECKED to round to `|x|`, with a decimal magnitude inside the window the
    reader does not cut off.  Every finite float64 is expected to pass (driver tag `godom`);
    `Gotree.Newick.goDomS_goDom` (Lemmas/C01GoRead.lean) proves that the executable codec then writes a
    text that it reads back as `x` — the second and third codec law, for the codec the driver runs. -/
def Gotree.Newick.goDomS (x : Rat) : Bool :=
  x == 0 ||
  (let a := if x < 0 then -x else x
   let np := Gotree.Newick.shortest a
   decide (0 < np.1) && decide (np.1 < 10 ^ 400) &&
   decide (-330 ≤ (Gotree.Newick.numDecDigits np.1 : Int) + np.2) && decide ((Gotree.Newick.numDecDigits np.1 : Int) + np.2 ≤ 311) &&
   Gotree.Newick.roundF64 (Gotree.Newick.scale10 ((np.1 : Nat) : Rat) np.2) == some a)
