/-
  C12 — the ACR entry point meets the hypotheses of the theorems by construction: the alphabet
  (sorted distinct states of the map) contains the state of every tip, so every tip slice is a
  singleton set inside the alphabet.
-/
import Gotree.Lemmas.C12Embed

namespace Gotree.C12
open Gotree

theorem mem_insertSorted (s x : String) : ∀ l : List String, x ∈ insertSorted s l ↔ x = s ∨ x ∈ l
  | [] => by simp [insertSorted]
  | y :: r => by
    have ih := mem_insertSorted s x r
    unfold insertSorted
    split
    · simp
    · split
      · rename_i h; subst h; simp
      · simp only [List.mem_cons, ih]
        constructor
        · rintro (h | h | h) <;> simp [h]
        · rintro (h | h | h) <;> simp [h]

theorem mem_foldl_insert (x : String) : ∀ (vals acc : List String),
    x ∈ vals.foldl (fun acc s => insertSorted s acc) acc ↔ x ∈ vals ∨ x ∈ acc
  | [], acc => by simp
  | v :: r, acc => by
    simp only [List.foldl_cons, mem_foldl_insert x r, mem_insertSorted, List.mem_cons]
    constructor
    · rintro (h | h | h) <;> simp [h]
    · rintro ((h | h) | h) <;> simp [h]

theorem mem_alphabet (x : String) (vals : List String) : x ∈ alphabet vals ↔ x ∈ vals := by
  unfold alphabet; rw [mem_foldl_insert]; simp

theorem lookup_mem (m : List (String × String)) (n st : String) (h : lookup m n = some st) :
    st ∈ m.map (·.2) := by
  unfold lookup at h
  cases hf : m.find? (·.1 == n) with
  | none => simp [hf] at h
  | some kv =>
    simp only [hf, Option.map_some, Option.some.injEq] at h
    subst h
    exact List.mem_map_of_mem (List.mem_of_find?_eq_some hf)

theorem indexOf_lt (a : List String) (s : String) (h : s ∈ a) : indexOf a s < a.length := by
  unfold indexOf
  apply List.findIdx_lt_length_of_exists
  exact ⟨s, h, by simp⟩

theorem every_tree_has_leaf : ∀ c : T, c.leaves ≠ [] := by
  intro c
  induction c using T.induct with
  | h d p ks ih =>
    match ks, ih with
    | [], _ => simp [T.leaves]
    | (e, c) :: r, ih =>
      rw [leaves_node_cons]
      simp only [leavesL]
      have := ih (e, c) (List.mem_cons_self ..)
      intro h
      simp only [List.append_eq_nil_iff] at h
      exact this h.1

/-- the ACR entry point: as soon as `acr` accepts (every tip has a state), the alphabet is not
    empty and every tip slice is a non-empty 0/1 slice -/
theorem acr_hyps (t : T) (m : List (String × String)) (hr : rootOk t = true)
    (hall : (t.tipNames.all fun n => (lookup m n).isSome) = true) :
    0 < (alphabet (m.map (·.2))).length ∧
    tipsOk (alphabet (m.map (·.2))).length (acrTipVec m (alphabet (m.map (·.2)))) t = true := by
  have hlen : ¬ t.kids.length = 1 := by
    simp only [rootOk, decide_eq_true_eq] at hr; omega
  have hnames : t.tipNames = leavesL t.kids := by
    simp [T.tipNames, hlen]
  rw [hnames] at hall
  simp only [List.all_eq_true] at hall
  have hvec : ∀ n ∈ leavesL t.kids, ∃ st, lookup m n = some st ∧
      indexOf (alphabet (m.map (·.2))) st < (alphabet (m.map (·.2))).length := by
    intro n hn
    have := hall n hn
    cases hl : lookup m n with
    | none => simp [hl] at this
    | some st =>
      exact ⟨st, rfl, indexOf_lt _ st ((mem_alphabet st _).mpr (lookup_mem m n st hl))⟩
  have hne : t.kids ≠ [] := by
    intro h; simp [rootOk, h] at hr
  have hk : 0 < (alphabet (m.map (·.2))).length := by
    match t, hne, hvec with
    | .node d p ((e, c) :: r), _, hvec =>
      have hleaf := every_tree_has_leaf c
      cases hlv : c.leaves with
      | nil => exact absurd hlv hleaf
      | cons n _ =>
        obtain ⟨st, _, hlt⟩ := hvec n (by simp [leavesL, hlv])
        omega
  refine ⟨hk, ?_⟩
  simp only [tipsOk, List.all_eq_true, Bool.and_eq_true, List.any_eq_true, decide_eq_true_eq, List.mem_range]
  intro n hn
  obtain ⟨st, hl, hlt⟩ := hvec n hn
  constructor
  · intro i hi
    simp only [acrTipVec, hl, at_tab, hi, if_true]
    split <;> omega
  · refine ⟨_, hlt, ?_⟩
    simp [acrTipVec, hl, at_tab, hlt]

end Gotree.C12
