/-
  C14 round 2 — the statement-level `pathLengths` / `ToDistanceMatrix` on the pointer graph
  of a rose tree computes the rose-tree model's `matrix` (unique tip names).
  Part 1: generic facts (size preservation, pointwise reading of a write list, the
  insertion sort).  Core Lean only.
-/
import Gotree.Lemmas.C14Graph

namespace Gotree.C14
open Gotree Gotree.C14.Go

/-! ## `pathLengths` never changes the size of `lengths` -/

theorem foldlM_size {α : Type} (f : Array Rat → α → Option (Array Rat)) :
    ∀ (l : List α) (s r : Array Rat), (∀ s r x, x ∈ l → f s x = some r → r.size = s.size) →
    l.foldlM f s = some r → r.size = s.size
  | [], s, r, _, h => by simp at h; rw [h]
  | x :: l, s, r, hf, h => by
    rw [List.foldlM_cons] at h
    cases hx : f s x with
    | none => rw [hx] at h; simp at h
    | some s' =>
      rw [hx] at h
      have h1 := hf s s' x (by simp) hx
      have h2 := foldlM_size f l s' r (fun s r y hy => hf s r y (by simp [hy])) h
      omega

theorem pathLengths_size (g : G) (ids : Array Nat) (metric : Int) : ∀ (fuel cur : Nat) (prev : Option Nat)
    (L : Array Rat) (acc : Rat) (R : Array Rat), pathLengths g ids metric fuel cur prev L acc = some R → R.size = L.size
  | 0, _, _, _, _, _, h => by simp [pathLengths] at h
  | fuel + 1, cur, prev, L, acc, R, h => by
    rw [pathLengths] at h
    cases hn : g.nodes[cur]? with
    | none => simp [hn] at h
    | some nd =>
      simp only [hn] at h
      split at h
      · split at h
        · simp only [Option.some.injEq] at h; rw [← h]; simp
        · simp at h
      · refine foldlM_size _ nd.neigh L R (fun s r cb _ hcb => ?_) h
        split at hcb
        · cases he : g.edges[cb.2]? with
          | none => simp [he] at hcb
          | some e =>
            simp only [he] at hcb
            exact pathLengths_size g ids metric fuel cb.1 (some cur) s _ r hcb
        · simp only [Option.some.injEq] at hcb; rw [← hcb]

/-! ## reading a write list pointwise -/

theorem applyW_cons (ids : Array Nat) (L : Array Rat) (iv : Nat × Rat) (ws : List (Nat × Rat)) :
    applyW ids L (iv :: ws) = applyW ids (L.set! (ids.getD iv.1 0) iv.2) ws := rfl

/-- positions nobody writes keep their value -/
theorem applyW_other (ids : Array Nat) : ∀ (ws : List (Nat × Rat)) (L : Array Rat) (j : Nat),
    (∀ iv ∈ ws, ids.getD iv.1 0 ≠ j) → (applyW ids L ws).getD j 0 = L.getD j 0
  | [], _, _, _ => rfl
  | iv :: ws, L, j, h => by
    rw [applyW_cons, applyW_other ids ws _ j (fun x hx => h x (by simp [hx]))]
    have hk : ids.getD iv.1 0 ≠ j := h iv (by simp)
    generalize ids.getD iv.1 0 = k at hk
    simp [Array.getD_eq_getD_getElem?, Array.set!_eq_setIfInBounds, Array.getElem?_setIfInBounds, hk]

/-- with distinct targets every write is there at the end -/
theorem applyW_mem (ids : Array Nat) : ∀ (ws : List (Nat × Rat)) (L : Array Rat),
    (ws.map fun iv => ids.getD iv.1 0).Nodup → (∀ iv ∈ ws, ids.getD iv.1 0 < L.size) →
    ∀ iv ∈ ws, (applyW ids L ws).getD (ids.getD iv.1 0) 0 = iv.2
  | [], _, _, _, _, h => by cases h
  | x :: ws, L, hn, hr, iv, hm => by
    simp only [List.map_cons, List.nodup_cons, List.mem_map, not_exists, not_and] at hn
    rw [applyW_cons]
    rcases List.mem_cons.1 hm with rfl | hm
    · rw [applyW_other ids ws _ _ (fun y hy => fun e => hn.1 y hy e)]
      have hk := hr iv (by simp)
      generalize ids.getD iv.1 0 = k at hk
      simp [Array.getD_eq_getD_getElem?, Array.set!_eq_setIfInBounds, Array.getElem?_setIfInBounds, hk]
    · exact applyW_mem ids ws _ hn.2 (fun y hy => by simpa using hr y (by simp [hy])) iv hm

/-! ## the insertion sort of `sort.Slice` on at most 12 elements -/

theorem insertLt_perm {α : Type} (lt : α → α → Bool) (x : α) : ∀ (l : List α), (insertLt lt x l).Perm (x :: l)
  | [] => List.Perm.refl _
  | y :: r => by
    unfold insertLt
    split
    · exact List.Perm.refl _
    · exact (List.Perm.cons y (insertLt_perm lt x r)).trans (List.Perm.swap x y r)

theorem insSort_perm {α : Type} (lt : α → α → Bool) (l : List α) : (insSort lt l).Perm l := by
  unfold insSort
  suffices h : ∀ (l acc : List α), (l.foldl (fun acc x => insertLt lt x acc) acc).Perm (acc ++ l) by
    simpa using h l []
  intro l
  induction l with
  | nil => intro acc; simp
  | cons x l ih =>
    intro acc
    simp only [List.foldl_cons]
    refine (ih _).trans ?_
    refine (List.Perm.append_right l (insertLt_perm lt x acc)).trans ?_
    simp only [List.cons_append]
    exact List.perm_middle.symm

theorem str_le_of_lt {a b : String} (h : a < b) : a ≤ b := by
  rcases String.le_total a b with h' | h'
  · exact h'
  · exact absurd h (String.not_lt.2 h')

/-- inserting into a list sorted by the key keeps it sorted -/
theorem insertLt_sorted {α : Type} (key : α → String) (x : α) : ∀ (l : List α),
    l.Pairwise (fun a b => key a ≤ key b) →
    (insertLt (fun a b => decide (key a < key b)) x l).Pairwise (fun a b => key a ≤ key b)
  | [], _ => by simp [insertLt]
  | y :: r, h => by
    unfold insertLt
    have hy := List.pairwise_cons.1 h
    by_cases hxy : key x < key y
    · simp only [hxy, decide_true, if_true]
      refine List.pairwise_cons.2 ⟨fun z hz => ?_, h⟩
      rcases List.mem_cons.1 hz with rfl | hz
      · exact str_le_of_lt hxy
      · exact String.le_trans (str_le_of_lt hxy) (hy.1 z hz)
    · simp only [hxy, decide_false, Bool.false_eq_true, if_false]
      refine List.pairwise_cons.2 ⟨fun z hz => ?_, insertLt_sorted key x r hy.2⟩
      rcases List.mem_cons.1 ((insertLt_perm _ x r).mem_iff.1 hz) with rfl | hz
      · exact String.not_lt.1 hxy
      · exact hy.1 z hz

theorem insSort_sorted {α : Type} (key : α → String) (l : List α) :
    (insSort (fun a b => decide (key a < key b)) l).Pairwise (fun a b => key a ≤ key b) := by
  unfold insSort
  suffices h : ∀ (l acc : List α), acc.Pairwise (fun a b => key a ≤ key b) →
      (l.foldl (fun acc x => insertLt (fun a b => decide (key a < key b)) x acc) acc).Pairwise (fun a b => key a ≤ key b) by
    exact h l [] List.Pairwise.nil
  intro l
  induction l with
  | nil => intro acc h; exact h
  | cons x l ih => intro acc h; exact ih _ (insertLt_sorted key x acc h)

/-- the names of the sorted tips are `sortNames` of the names -/
theorem insSort_names {α : Type} (key : α → String) (l : List α) :
    (insSort (fun a b => decide (key a < key b)) l).map key = sortNames (l.map key) := by
  have hp : ((insSort (fun a b => decide (key a < key b)) l).map key).Perm (sortNames (l.map key)) :=
    ((insSort_perm _ l).map key).trans (sortNames_perm _).symm
  refine List.Perm.eq_of_pairwise (le := (· ≤ ·)) (fun _ _ _ _ h1 h2 => String.le_antisymm h1 h2) ?_
    (sortNames_sorted _) hp
  exact List.pairwise_map.2 (insSort_sorted key l)

end Gotree.C14
