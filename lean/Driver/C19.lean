import Driver.Proto
import Gotree.Spec.C19
import Gotree.Gen.C19Flags
import Gotree.Model.C19Rename
import Gotree.Model.C19PreRun
import Gotree.Model.C19Glue
import Gotree.Gen.C19Writes
import Gotree.Gen.C19Changed
import Gotree.Model.C19IO
import Gotree.Gen.C19Sentinels

/-
  Driver of C19.  Case lines (harness/c19):
    C19.row    path flag short persistent var type DefValue current usageClaim peers
               (peers: the other rows bound to the same variable, encoded as in C19.table)
    C19.table  rows ("path,flag,short,persistent,var,type,DefValue,current," each followed by ";")
    C19.row …  shadowed: the inherited persistent flags of the same name this flag hides (same encoding)
    C19.reads  readerPath goVariable position registrars   (a command body reading an option variable it binds to no option)
    C19.order  orderedRows unplacedRows problems   (rows in the order their registrations ran, harness/c19/initorder.go)
    C19.e2e    path flag type DefValue template argsOmitted argsExplicit outcomeOmitted outcomeExplicit fixedInputs
               (fixedInputs = true: the hand-written inputs on which every template is a valid
                invocation and must succeed; false: drawn trees, on which an invocation naming
                tips may legitimately be refused — only omitted = explicit is required;
                fails: an invocation of a network command that an argument check refuses offline;
                minus: a template from which the compared option was removed — may be refused, alike in both runs)
               flag "*" (type "all"): every option the template omits spelled out at once
    C19.changed rows            table (f): tests of whether an option was GIVEN (harness changed.go)
    C19.writes rows             table (e): assignments to option variables after parsing (harness writes.go)
    C19.sentinels rows problems   table (g): literals the shared option glue compares option values with (harness sentinels.go)
    C19.io     kind name path flag runs   what "stdout" / "stdin" mean (Model/C19IO), see harness io.go
    C19.fname  name path runs   the same text under input file names with various suffixes: --format omitted vs --format=newick (harness io.go)
    C19.console name path first second after fresh   two commands in one console session vs the second alone (harness console.go)
    C19.env    names problems runs   environment variables the command layer reads, set vs unset (harness env.go)
    C19.glue   set extra runs   option glue of the anchored commands (Model/C19Glue), see harness glueCases
    C19.format / C19.seed / C19.threads   the global options after parsing (Model/C19PreRun), see harness preRunCases
    C19.effect path template baseTemplate args baseArgs outcome baseOutcome
    C19.roundtrip path flag type DefValue error after      (Value.Set(DefValue) then Value.String())
    C19.help   path exit helpText flags rowSets                   (`gotree <path> --help` of the built binary)
  obs_C19 = table (a) itself (implementation only): the oracle is the Spec on the dumped state and on
  the observations of the built binary (help text, outcomes of runs); the tie compares (i) what the
  model predicts every flag reads (`finalValue`; in `C19.order` with the registrations in the order
  they really ran, which must reproduce the dumped values even when there are conflicts) with the
  value dumped from the live flag, (ii) the table this run dumped with the table the theorems
  `table_noConflict` / `table_current_is_default` were decided on (Gen/C19Flags.lean), (iii) pflag's
  Set/String round trip the textual model relies on, (iv) the option cascade of `gotree rename`
  (Model/C19Rename) with the error class of the real runs.
-/
namespace Gotree.Driver.C19
open Gotree Gotree.Driver Gotree.C19

def parseBool : String → Option Bool
  | "true" => some true | "false" => some false | _ => none

def parseRow (s : String) : Option Row :=
  match parseStrList s with
  | some [path, flag, short, pers, var, typ, dflt, cur] =>
    match parseBool pers, var.toNat? with
    | some p, some v => some ⟨path, flag, short, p, v, typ, dflt, cur⟩
    | _, _ => none
  | _ => none

def parseRows (s : String) : Option (List Row) := (splitTerm ";" s).mapM parseRow

def showPair (p : Row × Row) : String :=
  "{" ++ p.1.show ++ " <> " ++ p.2.show ++ "}"

def clip (n : Nat) (s : String) : String :=
  if s.length ≤ n then s else String.ofList (s.toList.take n) ++ "…"

def typeTag (t : String) : String := "type-" ++ t

/-- substring test -/
def contains (s sub : String) : Bool := (s.splitOn sub).length > 1

/-- recorded finding `RenameRegexpGiven`: cmd/rename.go asks pflag whether --regexp was *given*
    (`Flags().Changed`) instead of reading its value, so passing the documented default "none"
    explicitly is refused.  As narrow as the finding: end-to-end case of `gotree rename`, flag
    `regexp`, and the explicit run (only) stops with that very message. -/
def knownClass (path flag o0 o1 : String) (a0 a1 : List String := []) : String :=
  if path == "gotree rename" && flag == "regexp" &&
     contains o1 "--replace must be given with --regexp" && !(contains o0 "--replace must be given with --regexp")
  then "class=RenameRegexpGiven "
  -- the same finding in any other context (every omitted option spelled out at once; --regexp or
  -- --replace removed from a template that gave it): the documented default "none" of --regexp /
  -- --replace is what the explicit run adds, and the model of rename's cascade attributes the
  -- difference to `Changed` — the cascade as coded takes another branch, the cascade that reads
  -- the values does not
  else if path == "gotree rename" && (flag == "*" || flag == "regexp" || flag == "replace") &&
     ((a1.contains "--regexp=none" && !(a0.contains "--regexp=none")) || (a1.contains "--replace=none" && !(a0.contains "--replace=none"))) &&
     (match Rename.parseArgs a0, Rename.parseArgs a1 with
      | some c0, some c1 => Rename.renameMode c0 != Rename.renameMode c1 && Rename.renameModeByValue c0 == Rename.renameModeByValue c1
      | _, _ => false)
  then "class=RenameRegexpGiven "
  -- open finding F55: `brlen setrand` draws the mean in [min-mean, max-mean] only when BOTH options were
  -- *given* (cmd/randbrlen.go:59 Flags().Changed): their documented defaults passed together are not "omitted"
  else if path == "gotree brlen setrand" && (flag == "*" || flag == "min-mean" || flag == "max-mean") &&
     -- BOTH options are on the explicit command line, and at least one of them is a documented default the explicit run added
     (a1.any (·.startsWith "--min-mean")) && (a1.any (·.startsWith "--max-mean")) &&
     ((a1.contains "--min-mean=0.001" && !(a0.contains "--min-mean=0.001")) || (a1.contains "--max-mean=0.05" && !(a0.contains "--max-mean=0.05"))) &&
     -- the model of the cascade attributes the difference to the interval being selected by `Changed`, and to nothing else
     (match (Setrand.parseArgs a0).bind Setrand.behaviour, (Setrand.parseArgs a1).bind Setrand.behaviour with
      | some b0, some b1 => b0.range == none && b1.range.isSome &&
                            b0.minLen == b1.minLen && b0.maxLen == b1.maxLen && b0.external == b1.external && b0.internal == b1.internal && b0.seed == b1.seed
      | _, _ => false)
  then "class=SetrandMeanRangeGiven "
  else ""

/-- recorded finding `HelpShowsInheritedFlag`: `download itol --format` (default "pdf") has the name of
    the root's persistent `--format` (default "newick"); cobra 1.5.0 lists the root's line in the help
    of the sub-command.  As narrow as the finding: that command, that flag. -/
def itolClass (path flag : String) (own : String := "pdf") (hidden : List String := ["newick"]) : String :=
  if path == "gotree download itol" && flag == "format" && own == "pdf" && hidden == ["newick"]
  then "class=HelpShowsInheritedFlag " else ""

/-- recorded finding `FormatAliasOverrides` (F87): `--input-format` (`-f`) of the `reformat` commands is bound to
    the variable of the root's persistent `--format`; the documented default of one of them given
    after a non-default value of the other overrides it.  Table level: that pair, under `gotree reformat`. -/
def aliasClass (path flag : String) (aliasFlags : List String) : String :=
  if (path == "gotree reformat" || path.startsWith "gotree reformat ") &&
     ((flag == "input-format" && aliasFlags == ["format"]) || (flag == "format" && aliasFlags == ["input-format"]))
  then "class=FormatAliasOverrides " else ""

/-- … end to end: a `reformat` command, the compared flag is one of the two, the template gives the
    OTHER one a value that is not the default, and the explicit run adds the documented default "newick" -/
def aliasClassE2E (path flag : String) (a0 a1 : List String) : String :=
  let one (fl : String) : Bool :=
    let givesOther : Bool :=
      if fl == "input-format" then a0.any fun x => x == "--format" || (x.startsWith "--format=" && x != "--format=newick")
      else a0.any fun x => x == "-f" || x == "--input-format" || (x.startsWith "--input-format=" && x != "--input-format=newick")
    givesOther && a1.contains ("--" ++ fl ++ "=newick") && !(a0.contains ("--" ++ fl ++ "=newick"))
  if (path == "gotree reformat" || path.startsWith "gotree reformat ") &&
     ((flag == "input-format" && one "input-format") || (flag == "format" && one "format") ||
      (flag == "*" && (one "input-format" || one "format")))   -- every omitted option spelled out at once
  then "class=FormatAliasOverrides " else ""

/-- `gotree rename`: does the model of its option handling (Model/C19Rename) predict the error class
    seen in the outcome?  `none` = the arguments were not understood by the little parser. -/
def renameAgrees (args : List String) (outcome : String) : Option Bool :=
  (Rename.parseArgs args).map fun cl => (Rename.renameMode cl).errClass == Rename.observedClass outcome

/-- the models of the option cascades against a pair of runs: `some true` = agree, `some false` =
    disagree, `none` = not one of the modelled commands / arguments not understood.
    rename: the error class of both runs is the predicted one, and equal behaviour (branch of the
    cascade + the values it reads) gives equal outcomes.  brlen setrand: outcomes are equal
    whenever the behaviour is, and differ when it differs and some branch is redrawn. -/
def cascadeTie (path : String) (a0 a1 : List String) (o0 o1 : String) (strict : Bool := true) : Option Bool :=
  if path == "gotree rename" then
    match Rename.parseArgs a0, Rename.parseArgs a1 with
    | some c0, some c1 =>
      some ((Rename.renameMode c0).errClass == Rename.observedClass o0 && (Rename.renameMode c1).errClass == Rename.observedClass o1 &&
            (Rename.behaviour c0 != Rename.behaviour c1 || o0 == o1))
    | _, _ => none
  else if path == "gotree repopulate" then
    -- refused ("must be provided") exactly when the value of --id-groups is the sentinel "none"
    let valueIn (a : List String) : String := (Repopulate.groupsOf a).getD Repopulate.defaultGroups
    let givenIn (a : List String) : Bool := (Repopulate.groupsOf a).isSome
    let refused (o : String) : Bool := contains o "File with groups of identical tips must be provided"
    some (Repopulate.accepts (givenIn a0) (valueIn a0) == !(refused o0) && Repopulate.accepts (givenIn a1) (valueIn a1) == !(refused o1))
  else if path == "gotree brlen setrand" then
    match (Setrand.parseArgs a0).bind Setrand.behaviour, (Setrand.parseArgs a1).bind Setrand.behaviour with
    | some b0, some b1 =>
      -- a seed taken from the clock makes every pair of runs differ
      -- equal behaviour ⇒ equal outcome, always.  The converse (another mean ⇒ other lengths) needs
      -- a branch that is redrawn: claimed on the fixed inputs (`strict`) when no length window is set.
      let redraws := strict && b0.minLen == some (-1) && b0.maxLen == some (-1) && b1.minLen == some (-1) && b1.maxLen == some (-1)
      if b0.seed == "-1" || b1.seed == "-1" then some (!redraws || o0 != o1)
      else if b0 == b1 then some (o0 == o1)
      else some (!redraws || o0 != o1)
    | _, _ => none
  else none

def handle (op : String) (f : List String) : Verdict :=
  match op, f with
  | "row", [path, flag, short, pers, var, typ, dflt, cur, claim, peers, shadowed] =>
    match unescape path, unescape flag, unescape short, parseBool pers, var.toNat?, unescape typ,
          unescape dflt, unescape cur, unescape claim, parseRows peers, parseRows shadowed with
    | some path, some flag, some short, some p, some v, some typ, some dflt, some cur, some claim, some ps, some sh =>
      let r : Row := ⟨path, flag, short, p, v, typ, dflt, cur⟩
      -- non-trivial: the row could go wrong through the registrations alone — its variable is shared, it hides an
      -- inherited flag, or its default is not the zero value the variable would hold anyway
      let zero := isZeroDefault typ dflt
      let tags := tagIf (!zero || !ps.isEmpty || !sh.isEmpty) "nontrivial" ++ [typeTag typ] ++ tagIf p "persistent" ++ tagIf (!p) "local" ++
        tagIf (!ps.isEmpty) "shared-variable" ++ tagIf (!(peersOK r ps)) "peer-conflict" ++ tagIf (!((aliasesOf (ps ++ [r]) r).isEmpty)) "alias-in-command" ++ tagIf (short != "") "shorthand" ++
        tagIf (claim != "") "usage-claims-default" ++ tagIf (!sh.isEmpty) "shadows-inherited" ++ tagIf (!(shadowOK r sh)) "shadow-default-differs" ++
        tagIf (dflt == "" || dflt == "false" || dflt == "0" || dflt == "[]") "zero-default"
      if !(rowOK r) then
        ⟨.oracle, tags, "omitted option does not take its documented default: " ++ r.show ++
          (if ps.isEmpty then "" else "; variable shared with " ++ "; ".intercalate (ps.map Reg.show))⟩
      else if !(peersOK r ps) && (ps.filter fun q => q.default != r.default).all rowOK then
        -- a conflict in which nobody reads a wrong default cannot exist when the rows of one variable
        -- report the same current value; reported here if the dump ever says otherwise.  The ordinary
        -- conflict is reported once on the row that reads the wrong default (above) and, with all
        -- the pairs, by the C19.table case; the innocent rows of the variable carry the tag only.
        ⟨.oracle, tags, "variable bound with another default elsewhere: " ++ r.show ++ " vs " ++
          "; ".intercalate ((ps.filter fun q => q.default != r.default).map Reg.show)⟩
      else if !((aliasesOf (ps ++ [r]) r).isEmpty) then
        -- the command sees another option that writes the same variable: given first with another value, it is
        -- overridden by the documented default of this one (the model says so: `atRun` with the alias before the default)
        let al := aliasesOf (ps ++ [r]) r
        let q := al.headD r
        let overridden := reads (atRun (ps ++ [r]) [(q, dflt ++ "'"), (r, dflt)]) v != reads (atRun (ps ++ [r]) [(q, dflt ++ "'")]) v
        ⟨.oracle, tags, aliasClass path flag (al.map (·.flag)) ++ path ++ " accepts two options that write one variable: " ++ r.show ++ " and " ++
          "; ".intercalate (al.map Reg.show) ++ " — the documented default of --" ++ flag ++ " given after another value of --" ++ q.flag ++
          " overrides it" ++ (if overridden then " (model: the variable then differs from the run without it)" else "")⟩
      else if !(shadowOK r sh) then
        ⟨.oracle, tags, itolClass path flag dflt (sh.map (·.default)) ++ "the help of " ++ path ++ " lists, for --" ++ flag ++ ", the inherited option of the same name (cobra 1.5 LocalFlags/InheritedFlags), which documents another default: " ++
          r.show ++ " is hidden behind " ++ "; ".intercalate (sh.map Reg.show)⟩
      else if !(usageOK r claim) then
        ⟨.oracle, tags, "help sentence claims default " ++ claim.quote ++ " but pflag documents and uses: " ++ r.show⟩
      else if predicted (ps ++ [r]) r != some cur then
        ⟨.tie, tags, "model predicts " ++ toString (predicted (ps ++ [r]) r)⟩
      else if !(explicitSame (ps ++ [r]) r [] [v]) ||
              -- … and with other options on the command line after it (the peers of the variable, given a value)
              !(explicitSame (ps ++ [r]) r (ps.map fun q => (q, "given")) (v :: ps.map (·.var))) then
        ⟨.tie, tags, "model: passing the documented default explicitly changes variable " ++ toString v⟩
      else ⟨.pass, tags, ""⟩
    | _, _, _, _, _, _, _, _, _, _, _ => bad "C19.row fields"
  | "table", [rows] =>
    match parseRows rows with
    | some t =>
      let tags := ["nontrivial", "rows-" ++ toString t.length] ++
        tagIf (t.any fun r => t.any fun s => r.var == s.var && (r.path != s.path || r.flag != s.flag)) "has-shared-variables" ++
        tagIf (t == Gen.C19Flags.table) "same-as-proved-table"
      if !(tableOK t) then
        let cs := conflicts t
        let st := stale t
        let iso := (commands t).filter fun c => !(isolatedFrom t c)
        ⟨.oracle, tags, clip 3000 ("table violates the property: " ++ toString st.length ++ " stale rows [" ++
          "; ".intercalate (st.map Reg.show) ++ "], " ++ toString cs.length ++ " conflicting pairs [" ++
          "; ".intercalate (cs.map showPair) ++ "], commands whose registration changes another command: [" ++
          ", ".intercalate iso ++ "]")⟩
      else if !(noAliasInCommand t) then
        let off := t.filter fun r => !((aliasesOf t r).isEmpty)
        let cls := if off.all fun r => aliasClass r.path r.flag ((aliasesOf t r).map (·.flag)) != "" then "class=FormatAliasOverrides " else ""
        ⟨.oracle, tags, clip 3000 (cls ++ "commands that accept two options writing one variable (the documented default of one overrides a value given through the other): [" ++
          "; ".intercalate (off.map fun r => r.show ++ " ~ " ++ "; ".intercalate ((aliasesOf t r).map Reg.show)) ++ "]")⟩
      else if !(shadowAgree t) then
        let sc := shadowConflicts t
        let cls := match sc with
          | [p] => itolClass p.1.path p.1.flag p.1.default [p.2.default]
          | _ => ""
        ⟨.oracle, tags, clip 3000 (cls ++ "flags that hide an inherited flag documenting another default (the help lists the inherited one): [" ++
          "; ".intercalate (sc.map showPair) ++ "]")⟩
      else if !(noConflict t) then ⟨.tie, tags, "model noConflict false while Spec holds"⟩
      else
        match t.filter fun r => predicted t r != some r.current with
        | r :: _ => ⟨.tie, tags, "model predicts " ++ toString (predicted t r) ++ " for " ++ r.show⟩
        | [] =>
          if t != Gen.C19Flags.table then
            ⟨.tie, tags, "the table dumped at run time differs from Gen/C19Flags.lean on which the theorems were decided (" ++
              toString t.length ++ " vs " ++ toString Gen.C19Flags.table.length ++ " rows)"⟩
          else ⟨.pass, tags, ""⟩
    | none => bad "C19.table rows"
  | "reads", [path, gv, pos, regs] =>
    match unescape path, unescape gv, unescape pos, parseRows regs with
    | some path, some gv, some pos, some rs =>
      let tags := ["nontrivial", "registrars-" ++ toString (commands rs).length] ++ tagIf (rs.isEmpty) "registrars-not-found"
      if !(readIsolated rs path) then
        ⟨.oracle, tags, clip 1200 (path ++ " (" ++ pos ++ ") reads the option variable `" ++ gv ++ "`, which it binds to none of its options; " ++
          "it is registered only by [" ++ "; ".intercalate (rs.map Reg.show) ++ "]: whether that command is registered changes what " ++ path ++ " finds there (" ++
          (match rs with | r :: _ => (seenBy rs r.var r.typ).quote ++ " vs the zero value " ++ (zeroOf r.typ).quote | [] => "") ++ ")")⟩
      else
        -- tie: the model's reading function agrees with the Spec's on the registrars
        match rs with
        | r :: _ => if finalValue rs r.var != some (seenBy rs r.var r.typ) then ⟨.tie, tags, "model finalValue differs"⟩ else ⟨.pass, tags, ""⟩
        | [] => ⟨.pass, tags, ""⟩
    | _, _, _, _ => bad "C19.reads fields"
  | "order", [ordered, unplaced, problems] =>
    -- the model run in the order the init() functions ran must arrive at the dumped values, conflict or not
    match parseRows ordered, parseRows unplaced, parseStrList problems with
    | some o, some u, some pr =>
      let excluded := u.map (·.var)
      let cmp := o.filter fun r => !(excluded.contains r.var)
      let wrong := cmp.filter fun r => finalValue o r.var != some r.current
      let tags := tagIf (!o.isEmpty) "nontrivial" ++ ["ordered-" ++ toString o.length, "unplaced-" ++ toString u.length] ++
        tagIf (!(noConflict o)) "conflict-present" ++ tagIf (!pr.isEmpty) "order-pass-problems" ++
        tagIf (cmp.length == o.length && u.isEmpty) "all-rows-compared"
      match wrong with
      | r :: _ =>
        ⟨.tie, tags, clip 1500 ("model (registrations run in source order) predicts " ++ toString (finalValue o r.var) ++ " for " ++ r.show ++
          "; " ++ toString wrong.length ++ " rows differ; notes: " ++ "; ".intercalate pr)⟩
      | [] => ⟨.pass, tags, clip 600 ("; ".intercalate pr)⟩
    | _, _, _ => bad "C19.order fields"
  | "e2e", [path, flag, typ, dflt, tmpl, a0, a1, o0, o1, fixed] =>
    match unescape path, unescape flag, unescape dflt, parseStrList a0, parseStrList a1, unescape o0, unescape o1 with
    | some path, some flag, some dflt, some a0, some a1, some o0, some o1 =>
      if o0.startsWith "exit=-2\n" || o1.startsWith "exit=-2\n" then bad "C19.e2e: the gotree binary could not be started" else
      let ran := o0.startsWith "exit=0\n"
      let renameTie : Option Bool := cascadeTie path a0 a1 o0 o1 (fixed == "true")
      let tags := tagIf ((ran || fixed == "fails" || fixed == "minus") && o0.length > 12) "nontrivial" ++
        tagIf (!ran && fixed != "fails" && fixed != "minus") "template-failed" ++ tagIf (!ran && fixed == "minus") "refused-without-the-option" ++
        tagIf (renameTie == some true) "cascade-model-agrees" ++
        tagIf ((path == "gotree rename" || path == "gotree brlen setrand" || path == "gotree repopulate") && renameTie == none) "cascade-args-not-modelled" ++
        ["tmpl-" ++ tmpl, typeTag typ] ++ tagIf (fixed == "false") "drawn-inputs" ++ tagIf (fixed == "fails") "refused-before-network" ++ tagIf (fixed == "minus") "template-option-removed"
      if fixed == "true" && !(runsOK o0) then
        ⟨.oracle, tags, clip 1500 (path ++ " fails when run with its documented defaults (template " ++ tmpl ++ ", args " ++
          " ".intercalate a0 ++ "): " ++ (clip 600 o0).quote)⟩
      else if !(e2eOK o0 o1) then
        ⟨.oracle, tags, clip 1500 (knownClass path flag o0 o1 a0 a1 ++ aliasClassE2E path flag a0 a1 ++ path ++ " --" ++ flag ++ ": omitted differs from explicit default " ++ dflt.quote ++
          "; args " ++ " ".intercalate a0 ++ " | " ++ " ".intercalate a1 ++
          "; omitted → " ++ (clip 300 o0).quote ++ "; explicit → " ++ (clip 300 o1).quote)⟩
      else if renameTie == some false then
        ⟨.tie, tags, "model of the option cascade of " ++ path ++ " (Model/C19Rename) disagrees with the pair of runs: args " ++ " ".intercalate a0 ++ " | " ++ " ".intercalate a1⟩
      else ⟨.pass, tags, ""⟩
    | _, _, _, _, _, _, _ => bad "C19.e2e fields"
  | "effect", [path, tmpl, base, argsT, argsB, ot, ob] =>
    match unescape path, parseStrList argsT, parseStrList argsB, unescape ot, unescape ob with
    | some path, some argsT, some argsB, some ot, some ob =>
      let tags := ["nontrivial", "effect-" ++ tmpl]
      if !(effectOK ot ob) then
        -- NOT a violation of the property (which does not say that options have an effect): it is the
        -- assumption of the parse model — the command reads the variable its option writes — that
        -- fails, so that "omitted = explicit default" says nothing about this option.  Verdict TIE.
        ⟨.tie, tags, clip 1200 (path ++ ": the options [" ++ " ".intercalate argsT ++ "] (template " ++ tmpl ++ ") give the same outcome as [" ++
          " ".intercalate argsB ++ "] (template " ++ base ++ "), or a run fails: the command does not read what the option sets; with → " ++
          (clip 250 ot).quote ++ "; without → " ++ (clip 250 ob).quote)⟩
      else if cascadeTie path argsB argsT ob ot == some false then
        ⟨.tie, tags, "model of the option cascade of " ++ path ++ " disagrees with the pair of runs " ++ tmpl ++ " / " ++ base⟩
      else ⟨.pass, tags ++ tagIf (cascadeTie path argsB argsT ob ot == some true) "cascade-model-agrees", ""⟩
    | _, _, _, _, _ => bad "C19.effect fields"
  | "changed", [cs] =>
    -- table (f): tests of whether an option was given, "path,flag,file," each followed by ";"
    match (splitTerm ";" cs).mapM parseStrList with
    | some l =>
      let parsed : List Glue.ChangedSite := l.filterMap fun x => match x with
        | [p, f, file] => some ⟨p, f, file⟩
        | _ => none
      if parsed.length != l.length then bad "C19.changed rows" else
      let tags := tagIf (!parsed.isEmpty) "nontrivial" ++ ["changed-sites-" ++ toString parsed.length] ++ tagIf (parsed == Gen.C19Changed.sites) "same-as-proved-table"
      match parsed.filter fun c => !(Glue.isAccounted c) with
      | c :: _ => ⟨.tie, tags, c.path ++ " asks whether --" ++ c.flag ++ " was GIVEN (Changed, cmd/" ++ c.file ++
          ") and no model or recorded finding accounts for it: omitted and the documented default spelled out may differ there"⟩
      | [] => if parsed != Gen.C19Changed.sites then ⟨.tie, tags, "table (f) dumped at run time differs from Gen/C19Changed.lean"⟩ else ⟨.pass, tags, ""⟩
    | none => bad "C19.changed fields"
  | "writes", [ws] =>
    -- table (e): assignments to option variables after parsing, "path,var,file,rhs," each followed by ";"
    match (splitTerm ";" ws).mapM parseStrList with
    | some l =>
      let parsed : List Glue.OptWrite := l.filterMap fun x => match x with
        | [p, v, f, r] => some ⟨p, v, f, r⟩
        | _ => none
      if parsed.length != l.length then bad "C19.writes rows" else
      let tags := ["nontrivial", "writes-" ++ toString parsed.length] ++ tagIf (parsed == Gen.C19Writes.writes) "same-as-proved-table"
      match parsed.filter fun w => !(Glue.isModelled w) with
      | w :: _ => ⟨.tie, tags, "an option variable is assigned after parsing at a place no model accounts for: " ++ w.path ++ " sets " ++ w.var ++ " " ++ w.rhs ++ " (cmd/" ++ w.file ++ ")"⟩
      | [] => if parsed != Gen.C19Writes.writes then ⟨.tie, tags, "table (e) dumped at run time differs from Gen/C19Writes.lean"⟩ else ⟨.pass, tags, ""⟩
    | none => bad "C19.writes fields"
  | "glue", [set, extra, runs] =>
    -- runs: [value ("" = option omitted), outcome]
    match (splitTerm ";" runs).mapM parseStrList with
    | some rs =>
      let parsed := rs.filterMap fun x => match x with
        | [v, o] => some (v, o)
        | _ => none
      if parsed.length != rs.length || parsed.isEmpty then bad "C19.glue runs" else
      let tags := ["nontrivial", "glue-" ++ set]
      let outcomeOf (v : String) : Option String := (parsed.find? (·.1 == v)).map (·.2)
      -- oracle shared by all the sets: option omitted = documented default spelled out
      let dflt := match set with
        | "consensus" => "0.5" | "divide" => Glue.defaultPrefix | "annotate" => "stdin" | "setmin" => "0" | "merge" => "stdin"
        | "comment-clear" => "false,false" | "rename-length" => "10" | "topologies" => "10" | _ => ""
      match outcomeOf "", outcomeOf dflt with
      | some o0, some o1 =>
        if o0 != o1 then ⟨.oracle, tags, clip 900 (set ++ ": option omitted differs from the documented default " ++ dflt.quote ++ ": " ++ (clip 300 o0).quote ++ " vs " ++ (clip 300 o1).quote)⟩
        else if !(runsOK o0) then ⟨.oracle, tags, clip 600 (set ++ " fails with its documented defaults: " ++ (clip 300 o0).quote)⟩
        else
          -- ties with the glue model
          let wrong : List String :=
            match set with
            | "consensus" => (parsed.filter fun (v, o) =>
                match Setrand.parseDec (if v == "" then dflt else v) with
                | some q => Glue.consensusAccepts q != runsOK o
                | none => true).map (·.1)
            | "divide" => (parsed.filter fun (v, o) =>
                Glue.filesOf o != Glue.divideNames (if v == "" then Glue.defaultPrefix else v) (extra.toNat?.getD 0)).map (·.1)
            | "annotate" => (parsed.filter fun (v, o) =>
                -- same source in the model ⇒ same outcome; "-" is another name of stdin for the reader (utils.GetReader)
                Glue.annotateSource "none" (if v == "" then dflt else if v == "-" then "stdin" else v) == Glue.annotateSource "none" dflt && o != o0).map (·.1)
            | "setmin" => (parsed.filter fun (v, o) =>
                -- lengths of the fixed input are non-negative: no branch changes for a cut-off ≤ 0, the output is the input rewritten
                (match Setrand.parseDec (if v == "" || v == "reformat" then "0" else v) with
                 | some q => decide (q ≤ 0) && o != o0
                 | none => true)).map (·.1)
            | "comment-clear" =>
              let tg (v : String) : Bool × Bool := match (if v == "" then dflt else v).splitOn "," with
                | [e, n] => Glue.commentTargets (e == "true") (n == "true")
                | _ => (false, false)
              -- the input has comments of both kinds: equal targets ⇔ equal outcome
              (parsed.filter fun (v, o) => parsed.any fun (v', o') => (tg v == tg v') != (o == o')).map (·.1)
            | "rename-length" =>
              let ln (v : String) : Int := Glue.autoLength ((if v == "" then dflt else v).toInt?.getD 0)
              (parsed.filter fun (v, o) => parsed.any fun (v', o') => (ln v == ln v') != (o == o')).map (·.1)
            | "topologies" =>
              -- an input tree is given in every run: --nbtips is not read
              (parsed.filter fun (v, o) =>
                Glue.topologiesNbTips ((if v == "" then dflt else v).toInt?.getD 0) (some 4) == Glue.topologiesNbTips 10 (some 4) && o != o0).map (·.1)
            | "merge" => (parsed.filter fun (v, o) => Glue.readTreeAccepts (if v == "" then dflt else v) != runsOK o).map (·.1)
            | _ => ["unknown set"]
          (match wrong with
           | [] => ⟨.pass, tags, ""⟩
           | w => ⟨.tie, tags, "glue model (Model/C19Glue) of " ++ set ++ " disagrees with the runs for the option values " ++ toString w⟩)
      | _, _ => bad "C19.glue: runs for the omitted option and for the documented default are needed"
    | none => bad "C19.glue fields"
  | "format", [path, set, runs] =>
    -- runs: [args, formatValue ("" = omitted), inputKind, outcome]
    match unescape path, (splitTerm ";" runs).mapM parseStrList with
    | some path, some rs =>
      let parsed := rs.filterMap fun x => match x with
        | [a, fv, kind, o] => some (a, fv, kind, o)
        | _ => none
      if parsed.length != rs.length || parsed.isEmpty then bad "C19.format runs" else
      let tags := ["nontrivial", "format-" ++ set]
      let fvOf (fv : String) : String := if fv == "" then PreRun.defaultFormat else fv
      -- oracle (the property): omitted = the documented default spelled out, on the same input
      let omitted := parsed.filter fun (_, fv, _, _) => fv == ""
      let explicit := parsed.filter fun (_, fv, _, _) => fv == PreRun.defaultFormat
      let bad1 := omitted.filter fun (_, _, k, o) => explicit.any fun (_, _, k', o') => k == k' && o != o'
      match bad1 with
      | (a, _, k, o) :: _ =>
        ⟨.oracle, tags, clip 900 (path ++ " [" ++ a ++ "] on " ++ k ++ " input differs from the run with the documented default format spelled out: " ++ (clip 300 o).quote)⟩
      | [] =>
        -- an option that is given must be honoured (cf. `effectOK`; again the parse model's assumption, verdict TIE):
        -- input written in format K read with --format=K
        match parsed.filter fun (_, fv, k, o) => fv == k && !(runsOK o) with
        | (a, _, k, o) :: _ =>
          ⟨.tie, tags, clip 900 (path ++ " [" ++ a ++ "] refuses " ++ k ++ " input although that format is requested: the option is not honoured (PersistentPreRun not run?): " ++ (clip 300 o).quote)⟩
        | [] =>
        -- tie: the model of PersistentPreRun predicts which runs can read their input, and all of those print the same
        let wrong := parsed.filter fun (_, fv, k, o) => PreRun.readable (fvOf fv) k != runsOK o
        let oks := parsed.filter fun (_, _, _, o) => runsOK o
        let differ := match oks with
          | [] => false
          | (_, _, _, o0) :: rest => rest.any fun (_, _, _, o) => o != o0
        (match wrong with
         | (a, fv, k, o) :: _ =>
           ⟨.tie, tags, clip 700 ("model of PersistentPreRun: " ++ path ++ " [" ++ a ++ "] (format " ++ (fvOf fv).quote ++ ") on " ++ k ++ " input predicted " ++
             (if PreRun.readable (fvOf fv) k then "readable" else "refused") ++ "; outcome " ++ (clip 200 o).quote)⟩
         | [] => if differ then ⟨.tie, tags, "runs that read the same tree in different formats print different results"⟩
                 else ⟨.pass, tags ++ tagIf (oks.length < parsed.length) "some-refused", ""⟩)
    | _, _ => bad "C19.format fields"
  | "seed", [path, set, runs] =>
    match unescape path, (splitTerm ";" runs).mapM parseStrList with
    | some path, some rs =>
      let parsed := rs.filterMap fun x => match x with
        | [sv, o1, o2] => (if sv == "" then some PreRun.defaultSeed else sv.toInt?).map fun n => (sv, n, o1, o2)
        | _ => none
      if parsed.length != rs.length || parsed.isEmpty then bad "C19.seed runs" else
      let tags := ["nontrivial", "seed-" ++ set]
      let failed := parsed.filter fun (_, _, o1, o2) => !(runsOK o1 && runsOK o2)
      if !failed.isEmpty then ⟨.oracle, tags, path ++ " fails with --seed " ++ (failed.map (·.1)).toString⟩ else
      -- oracle: omitted and the documented default spelled out are of the same kind (both repeat, or both do not)
      let kindOf (x : String × Int × String × String) : Bool := x.2.2.1 == x.2.2.2
      let om := parsed.filter fun x => x.1 == ""
      let ex := parsed.filter fun x => x.1 != "" && x.2.1 == PreRun.defaultSeed
      if om.any fun x => ex.any fun y => kindOf x != kindOf y then
        ⟨.oracle, tags, path ++ ": with --seed omitted two runs " ++ (if (om.headD ("", 0, "", "")).2.2.1 == (om.headD ("", 0, "", "")).2.2.2 then "agree" else "differ") ++
          " while with the documented default --seed=-1 they do the opposite"⟩
      else
        -- tie: reproducible exactly when the seed is not taken from the clock
        match parsed.filter fun x => PreRun.reproducible x.2.1 != kindOf x with
        | (sv, _, _, _) :: _ => ⟨.tie, tags, "model of PersistentPreRun: --seed " ++ sv.quote ++ " predicted " ++
            (if PreRun.reproducible ((parsed.find? (·.1 == sv)).map (·.2.1) |>.getD 0) then "reproducible" else "clock-seeded") ++ ", runs say otherwise"⟩
        | [] => ⟨.pass, tags, ""⟩
    | _, _ => bad "C19.seed fields"
  | "threads", [path, set, maxcpus, runs] =>
    match unescape path, maxcpus.toInt?, (splitTerm ";" runs).mapM parseStrList with
    | some path, some mx, some rs =>
      let parsed := rs.filterMap fun x => match x with
        | [tv, o] => (if tv == "" then some PreRun.defaultThreads else tv.toInt?).map fun n => (tv, n, o)
        | _ => none
      if parsed.length != rs.length || parsed.isEmpty then bad "C19.threads runs" else
      let tags := ["nontrivial", "threads-" ++ set] ++ tagIf (parsed.any fun (_, n, _) => PreRun.clampThreads n mx != n) "clamped"
      let canon (o : String) : List String := sortStrings (o.splitOn "\n")
      let om := parsed.filter fun x => x.1 == ""
      let ex := parsed.filter fun x => x.1 != "" && x.2.1 == PreRun.defaultThreads
      if om.any fun x => ex.any fun y => x.2.2 != y.2.2 then
        ⟨.oracle, tags, path ++ ": --threads omitted differs from the documented default --threads=1"⟩
      else match parsed.filter fun (_, _, o) => !(runsOK o) with
        | (tv, _, o) :: _ => ⟨.oracle, tags, clip 600 (path ++ " fails with --threads " ++ tv.quote ++ ": " ++ (clip 300 o).quote)⟩
        | [] =>
          match parsed with
          | (_, _, o0) :: rest =>
            if rest.any fun (_, _, o) => canon o != canon o0 then ⟨.tie, tags, "the number of threads changes the result (as a multiset of lines)"⟩
            else ⟨.pass, tags, ""⟩
          | [] => ⟨.pass, tags, ""⟩
    | _, _, _ => bad "C19.threads fields"
  | "sentinels", [rs, problems] =>
    -- table (g): "site,op,literal," each followed by ";"
    match (splitTerm ";" rs).mapM parseStrList, parseStrList problems with
    | some l, some probs =>
      let parsed : List IO.SentinelRow := l.filterMap fun x => match x with
        | [s, o, v] => some ⟨s, o, v⟩
        | _ => none
      if parsed.length != l.length then bad "C19.sentinels rows" else
      let tags := ["nontrivial", "sentinels-" ++ toString parsed.length] ++ tagIf (parsed == Gen.C19Sentinels.rows) "same-as-proved-table"
      if !probs.isEmpty then ⟨.tie, tags, "table (g): " ++ "; ".intercalate probs⟩ else
      match parsed.filter fun r => !(IO.expectedRows.contains r), IO.expectedRows.filter fun r => !(parsed.contains r) with
      | r :: _, _ => ⟨.tie, tags, "the shared option glue compares an option value in a way the models do not know: " ++ r.site ++ " " ++ r.op ++ " " ++ r.lit.quote ++
          " (Model/C19IO, Model/C19PreRun are built from other literals)"⟩
      | [], r :: _ => ⟨.tie, tags, "the shared option glue no longer makes the comparison the models are built from: " ++ r.site ++ " " ++ r.op ++ " " ++ r.lit.quote⟩
      | [], [] => if parsed != Gen.C19Sentinels.rows then ⟨.tie, tags, "table (g) dumped at run time differs from Gen/C19Sentinels.lean"⟩ else ⟨.pass, tags, ""⟩
    | _, _ => bad "C19.sentinels fields"
  | "io", [kind, name, path, flag, runs] =>
    -- runs: [value label, outcome]; out: "" stdout - out.txt; in: "" stdin - = file
    match unescape path, (splitTerm ";" runs).mapM parseStrList with
    | some path, some rs =>
      let parsed := rs.filterMap fun x => match x with
        | [v, o] => some (v, o)
        | _ => none
      if parsed.length != rs.length || parsed.isEmpty then bad "C19.io runs" else
      let tags := ["nontrivial", "io-" ++ kind, "io-" ++ kind ++ "-" ++ name]
      let outcomeOf (v : String) : Option String := (parsed.find? (·.1 == v)).map (·.2)
      let dflt := if kind == "out" then IO.defaultOutput else IO.defaultInput
      match outcomeOf "", outcomeOf dflt with
      | some o0, some o1 =>
        -- oracle (the property): option omitted = documented default spelled out; the defaults give a valid invocation
        if o0 != o1 then ⟨.oracle, tags, clip 900 (path ++ ": " ++ flag ++ " omitted differs from the documented default " ++ dflt.quote ++ ": " ++ (clip 300 o0).quote ++ " vs " ++ (clip 300 o1).quote)⟩
        else if !(runsOK o0) then ⟨.oracle, tags, clip 600 (path ++ " fails with " ++ flag ++ " left at its documented default: " ++ (clip 300 o0).quote)⟩
        else if kind == "out" then
          -- tie: the model of openWriteFile predicts every run from what the omitted run printed
          match IO.stdoutOnly o0 with
          | none => ⟨.tie, tags, clip 600 ("model of openWriteFile: with " ++ flag ++ " omitted (documented default \"stdout\") " ++ path ++ " does not only print to the standard output: " ++ (clip 300 o0).quote)⟩
          | some printed =>
            (match parsed.filter fun (v, o) => o != IO.predictOutput (if v == "" then dflt else v) printed with
             | [] => ⟨.pass, tags ++ tagIf (parsed.any fun (v, _) => IO.openWriteTarget v != .stdout && v != "") "to-file", ""⟩
             | (v, o) :: _ => ⟨.tie, tags, clip 900 ("model of openWriteFile: " ++ path ++ " " ++ flag ++ "=" ++ v ++ " predicted " ++
                 (clip 300 (IO.predictOutput (if v == "" then dflt else v) printed)).quote ++ ", outcome " ++ (clip 300 o).quote)⟩)
        else
          -- tie: the model of OpenFile says which values mean the standard input; the file holds the same text, so
          -- every run gives the outcome of the omitted one
          (match parsed.filter fun (_, o) => o != o0 with
           | [] => ⟨.pass, tags ++ tagIf (parsed.any fun (v, _) => v == "file") "from-file", ""⟩
           | (v, o) :: _ => ⟨.tie, tags, clip 900 ("model of utils.OpenFile: " ++ path ++ " with " ++ flag ++ " " ++ (if v == "=" then "\"\"" else v) ++ " (source " ++
               (if v == "file" then "the file" else if IO.openReadSource (if v == "=" then "" else v) == .stdin then "stdin" else "a file") ++
               " with the same text) differs from the run with the option omitted: " ++ (clip 300 o).quote)⟩)
      | _, _ => bad "C19.io: runs for the omitted option and for the documented default are needed"
    | _, _ => bad "C19.io fields"
  | "fname", [name, path, runs] =>
    -- runs: [file name, kind of text, outcome with --format omitted, outcome with the documented default --format=newick]
    match unescape path, (splitTerm ";" runs).mapM parseStrList with
    | some path, some rs =>
      let parsed := rs.filterMap fun x => match x with
        | [f, k, o0, o1] => some (f, k, o0, o1)
        | _ => none
      if parsed.length != rs.length || parsed.isEmpty then bad "C19.fname runs" else
      let tags := ["nontrivial", "fname-" ++ name, "fname-names-" ++ toString parsed.length]
      -- oracle (the property): under EVERY file name, --format omitted = the documented default spelled out
      match parsed.filter fun (_, _, o0, o1) => o0 != o1 with
      | (f, k, o0, o1) :: more =>
        ⟨.oracle, tags, clip 1000 (path ++ " on the " ++ k ++ " text in a file named " ++ f.quote ++ ": --format omitted differs from the documented default --format=" ++
          PreRun.defaultFormat ++ " spelled out: " ++ (clip 300 o0).quote ++ " vs " ++ (clip 300 o1).quote ++
          (if more.isEmpty then "" else "; likewise for " ++ toString (more.map (·.1))))⟩
      | [] =>
        -- a text in the documented default format is a valid input whatever the file is called
        match parsed.filter fun (_, k, o0, _) => PreRun.readable PreRun.defaultFormat k && !(runsOK o0) with
        | (f, _, o0, _) :: _ => ⟨.oracle, tags, clip 700 (path ++ " with its documented default format fails on a Newick text in a file named " ++ f.quote ++ ": " ++ (clip 300 o0).quote)⟩
        | [] =>
          -- tie: the model (PersistentPreRun + readTrees/readTree) knows no dependence on the file NAME:
          -- readable texts give one outcome, the others are refused
          let first := (parsed.headD ("", "", "", "")).2.2.1
          (match parsed.filter fun (_, k, o0, _) => if PreRun.readable PreRun.defaultFormat k then o0 != first else runsOK o0 with
           | [] => ⟨.pass, tags, ""⟩
           | (f, _, o0, _) :: _ => ⟨.tie, tags, clip 700 ("model of the readers: the outcome of " ++ path ++ " depends on the NAME of the input file (" ++ f.quote ++ "): " ++ (clip 300 o0).quote)⟩)
    | _, _ => bad "C19.fname fields"
  | "console", [name, path, first, second, after, fresh] =>
    -- a history of two commands in ONE console session (cobrashell): what the second did vs the second alone
    match unescape path, unescape first, unescape second, unescape after, unescape fresh with
    | some path, some first, some second, some after, some fresh =>
      let tags := ["nontrivial", "console-" ++ name]
      if after == fresh then
        (if fresh == "stdout:\n" then ⟨.tie, tags, "console: the second command of the history " ++ name ++ " printed nothing and wrote no file"⟩ else ⟨.pass, tags, ""⟩)
      else
        -- known findings seen through the console: cobrashell resets the VALUES of the flags, `Changed` survives, and the
        -- cascades of rename / brlen setrand ask `Changed`.  persisted = the flags the first command gave, at their defaults.
        let w1 := (first.splitOn " ").filter (· != "")
        let w2 := (second.splitOn " ").filter (· != "")
        let cls : String :=
          if path == "gotree rename" then
            match Rename.parseArgs (w1.drop 1), Rename.parseArgs (w2.drop 1) with
            | some c1, some c2 =>
              let persisted : Rename.CmdLine := c1.map fun (f, _) => (f, Rename.defaultOf f)
              if Rename.changed c1 "regexp" && !(Rename.changed c2 "regexp") &&
                 Rename.renameMode (persisted ++ c2) != Rename.renameMode c2 &&
                 Rename.renameModeByValue (persisted ++ c2) == Rename.renameModeByValue c2
              then "class=RenameRegexpGiven " else ""
            | _, _ => ""
          else if path == "gotree brlen setrand" then
            match Setrand.parseArgs (w1.drop 2), Setrand.parseArgs (w2.drop 2) with
            | some c1, some c2 =>
              let persisted : Rename.CmdLine := c1.map fun (f, _) => (f, (Setrand.flagDefaults.lookup f).getD "")
              match Setrand.behaviour (persisted ++ c2), Setrand.behaviour c2 with
              | some b12, some b2 =>
                if Rename.changed c1 "min-mean" && Rename.changed c1 "max-mean" && !(Rename.changed c2 "min-mean") && !(Rename.changed c2 "max-mean") &&
                   b12.range.isSome && b2.range == none && b12.minLen == b2.minLen && b12.maxLen == b2.maxLen && b12.seed == b2.seed
                then "class=SetrandMeanRangeGiven " else ""
              | _, _ => ""
            | _, _ => ""
          else ""
        ⟨.oracle, tags, clip 1200 (cls ++ "console: after `" ++ first ++ "`, `" ++ second ++ "` (options omitted = documented defaults) does not do what it does in a session of its own: " ++
          (clip 400 after).quote ++ " vs " ++ (clip 400 fresh).quote)⟩
    | _, _, _, _, _ => bad "C19.console fields"
  | "env", [names, problems, runs] =>
    -- environment variables the command layer reads; runs: [variable, value, invocation, outcome unset, outcome set]
    match parseStrList names, parseStrList problems, (splitTerm ";" runs).mapM parseStrList with
    | some ns, some probs, some rs =>
      let parsed := rs.filterMap fun x => match x with
        | [n, v, l, o0, o1] => some (n, v, l, o0, o1)
        | _ => none
      if parsed.length != rs.length then bad "C19.env runs" else
      let tags := ["env-reads-" ++ toString ns.length] ++ tagIf (!ns.isEmpty) "nontrivial"
      -- oracle (the property): with every option omitted a command uses the documented defaults, whatever the environment holds
      match parsed.filter fun (_, _, _, o0, o1) => o0 != o1 with
      | (n, v, l, o0, o1) :: _ =>
        ⟨.oracle, tags, clip 1000 ("the environment variable " ++ n ++ "=" ++ v ++ " changes what the invocation `" ++ l ++ "` does with its options omitted — an omitted option does not mean its documented default: " ++
          (clip 300 o0).quote ++ " (unset) vs " ++ (clip 300 o1).quote)⟩
      | [] =>
        if !probs.isEmpty then ⟨.tie, tags, "environment reads that cannot be named: " ++ "; ".intercalate probs⟩
        else if !ns.isEmpty then
          ⟨.tie, tags, "the command layer reads the environment (" ++ ", ".intercalate ns ++ "); the assumption 'no environment variable feeds an option' (checks/C19.json) no longer holds by construction; no invocation tried depends on it"⟩
        else ⟨.pass, tags, ""⟩
    | _, _, _ => bad "C19.env fields"
  | "roundtrip", [path, flag, typ, dflt, err, after] =>
    -- the model keeps values as the text Value.String() prints: Set(DefValue) must give DefValue back
    match unescape path, unescape flag, unescape dflt, unescape err, unescape after with
    | some path, some flag, some dflt, some err, some after =>
      let tags := tagIf (!(isZeroDefault typ dflt)) "nontrivial" ++ [typeTag typ]
      if err != "" then ⟨.tie, tags, path ++ " --" ++ flag ++ ": Value.Set(DefValue) fails: " ++ err⟩
      else if after != dflt then
        ⟨.tie, tags, path ++ " --" ++ flag ++ ": Value.Set(" ++ dflt.quote ++ ").String() = " ++ after.quote⟩
      else ⟨.pass, tags, ""⟩
    | _, _, _, _, _ => bad "C19.roundtrip fields"
  | "help", [path, exit, help, flags, rowsets] =>
    -- flags: "flag,type,current,ownerPath,usage,usage…," each followed by ";" (usages: of the flag, and of the
    -- inherited flags of the same name it hides — cobra's help lists the ancestor's line for those)
    match unescape path, unescape help, (splitTerm ";" flags).mapM parseStrList, (splitTerm "|" rowsets).mapM parseRows with
    | some path, some help, some fl, some rss =>
      let tags := tagIf (fl.any fun x => match x with | _ :: typ :: cur :: _ => !(isZeroDefault typ cur) | _ => false) "nontrivial" ++
        ["flags-" ++ toString fl.length]
      if exit != "0" then ⟨.oracle, tags, path ++ " --help exits with " ++ exit⟩ else
      let badOnes := fl.filter fun x =>
        match x with
        | flag :: typ :: cur :: _ :: usages => !(helpOK help flag typ cur usages)
        | _ => true
      match badOnes with
      | [] =>
        -- tie: the model of cobra's resolution (Model `effective` / `shown`) names the flag the command line
        -- sets and the flag whose default the help prints
        let wrong := (fl.zip rss).filter fun (x, rs) =>
          match x with
          | flag :: _ :: cur :: _ :: usages =>
            match effective rs path flag, shown rs path flag, helpBlock help flag with
            | some e, some s, some b =>
              !(e.current == cur && usages.any fun u => (noWS b).endsWith (noWS (u ++ shownDefault s.typ s.default)))
            | _, _, _ => true
          | _ => true
        (match wrong with
         | [] => if fl.length == rss.length then ⟨.pass, tags, ""⟩ else bad "C19.help: flags and row sets differ in number"
         | (x, _) :: _ => ⟨.tie, tags, "model of cobra's flag resolution disagrees with the help text for --" ++ (x.headD "?")⟩)
      | x :: _ =>
        match x with
        | flag :: typ :: cur :: owner :: usages =>
          ⟨.oracle, tags, clip 1200 ((if badOnes.length == 1 && owner == path && contains ((helpBlock help flag).getD "") "Input tree format"
              then itolClass path flag else "") ++
            path ++ " --help: the text for --" ++ flag ++ " (registered by " ++ owner ++
            ") does not show the value the command uses (" ++ cur.quote ++ ", expected to end with " ++
            (shownDefault typ cur).quote ++ " after one of the sentences " ++ toString usages ++ "); help says: " ++
            ((helpBlock help flag).getD "<flag not listed>").quote ++
            (if badOnes.length > 1 then "; and " ++ toString (badOnes.length - 1) ++ " more" else ""))⟩
        | _ => bad "C19.help flag fields"
    | _, _, _, _ => bad "C19.help fields"
  | _, _ => bad ("C19: unknown op " ++ op)

end Gotree.Driver.C19
