/-
  C07 — fidelity of the model of `rand.Perm` and of `togroup[perm[nb]] = …` (not needed by the
  property theorems; it justifies reading the model's "children sorted by perm[nb]" as the
  scatter loop of the Go code).
-/
import Gotree.Lemmas.C07Resolve

namespace Gotree.C07
open Gotree

theorem goPerm_step_perm (m : List Nat) (j : Nat) (hj : j ≤ m.length) (hm : m.Perm (List.range m.length)) :
    ((m ++ [m.getD j m.length]).set j m.length).Perm (List.range (m.length + 1)) := by
  rw [List.range_succ]
  by_cases hlt : j < m.length
  · have hg : m.getD j m.length = m[j] := by simp [List.getD, hlt]
    rw [hg, List.set_append, if_pos hlt, List.set_eq_take_append_cons_drop, if_pos hlt]
    have hsplit : m = List.take j m ++ m[j] :: List.drop (j + 1) m := by
      rw [List.getElem_cons_drop hlt, List.take_append_drop]
    -- both sides: the elements of m plus the new value
    have h1 : (List.take j m ++ m.length :: List.drop (j + 1) m ++ [m[j]]).Perm (m.length :: m) := by
      have : (List.take j m ++ m.length :: List.drop (j + 1) m ++ [m[j]]).Perm
          (m.length :: (List.take j m ++ m[j] :: List.drop (j + 1) m)) := by
        rw [List.append_assoc]
        refine List.perm_middle.trans (List.Perm.cons _ ?_)
        refine List.Perm.append_left _ ?_
        exact (List.perm_append_singleton _ _)
      rwa [← hsplit] at this
    exact h1.trans ((hm.cons _).trans (List.perm_append_singleton _ _).symm)
  · have hje : j = m.length := by omega
    subst hje
    have hg : m.getD m.length m.length = m.length := by simp [List.getD]
    rw [hg, List.set_append, if_neg (Nat.lt_irrefl _)]
    simp only [Nat.sub_self, List.set_cons_zero]
    exact hm.append (List.Perm.refl _)

theorem goPermAux_perm : ∀ (ds m r : List Nat), goPermAux ds m = some r → m.Perm (List.range m.length) →
    r.Perm (List.range (m.length + ds.length))
  | [], m, r, h, hm => by simp [goPermAux] at h; subst h; simpa using hm
  | j :: ds, m, r, h, hm => by
    unfold goPermAux at h
    split at h
    · rename_i hj
      have hstep := goPerm_step_perm m j hj hm
      have hlen : ((m ++ [m.getD j m.length]).set j m.length).length = m.length + 1 := by simp
      have := goPermAux_perm ds _ r h (by rw [hlen]; exact hstep)
      rw [hlen] at this
      simpa [Nat.add_assoc, Nat.add_comm 1] using this
    · cases h

/-- `rand.Perm(n)` as modelled is a permutation of `0 … n−1`, whatever the draws -/
theorem goPerm_perm (ds r : List Nat) (h : goPerm ds = some r) : r.Perm (List.range ds.length) := by
  have := goPermAux_perm ds [] r h (by simp)
  simpa using this

end Gotree.C07

namespace Gotree.C07
open Gotree

theorem insK_sorted {α : Type} (x : Nat × α) : ∀ l : List (Nat × α), l.Pairwise (fun a b => a.1 ≤ b.1) →
    (insK x l).Pairwise (fun a b => a.1 ≤ b.1)
  | [], _ => by simp [insK]
  | y :: r, h => by
    unfold insK
    rw [List.pairwise_cons] at h
    split
    · rename_i hlt
      rw [List.pairwise_cons]
      refine ⟨?_, List.pairwise_cons.mpr h⟩
      intro z hz
      rcases List.mem_cons.mp hz with rfl | hz
      · exact Nat.le_of_lt hlt
      · exact Nat.le_trans (Nat.le_of_lt hlt) (h.1 z hz)
    · rename_i hge
      rw [List.pairwise_cons]
      refine ⟨?_, insK_sorted x r h.2⟩
      intro z hz
      have := (insK_perm x r).mem_iff.mp hz
      rcases List.mem_cons.mp this with rfl | hz'
      · omega
      · exact h.1 z hz'

theorem sortK_sorted {α : Type} : ∀ l : List (Nat × α), (sortK l).Pairwise (fun a b => a.1 ≤ b.1)
  | [] => by simp [sortK]
  | x :: r => by
    show (insK x (sortK r)).Pairwise _
    exact insK_sorted x _ (sortK_sorted r)

/-- `togroup[perm[nb]] = branch of the nb-th child`: at every position `p`, the model's `togroup`
    (children sorted by `perm[nb]`) holds the child number `nb` with `perm[nb] = p`. -/
theorem togroup_scatter (ds perm : List Nat) (k : Kids) (h : goPerm ds = some perm) (hl : ds.length = k.length) :
    ∀ p, p < k.length → ∃ nb, ∃ (hnb : nb < k.length),
      ((sortK (perm.zip ((List.range k.length).zip k))).map (·.2))[p]? = some (nb, k[nb]) ∧ perm[nb]? = some p := by
  intro p hp
  have hpl : perm.length = k.length := by rw [goPerm_length _ _ h, hl]
  have hpp : perm.Perm (List.range k.length) := by rw [← hl]; exact goPerm_perm ds perm h
  let Z := perm.zip ((List.range k.length).zip k)
  have hZlen : Z.length = k.length := by simp [Z, List.length_zip, hpl]
  have hkeysZ : Z.map Prod.fst = perm := by
    apply List.map_fst_zip; simp [hpl]
  have hS := sortK_perm Z
  have hkeys : (sortK Z).map Prod.fst = List.range k.length := by
    apply List.Perm.eq_of_pairwise (le := fun a b => a ≤ b)
    · intro a b _ _ h1 h2; exact Nat.le_antisymm h1 h2
    · have := sortK_sorted Z
      exact List.pairwise_map.mpr this
    · exact List.pairwise_lt_range.imp (fun h => Nat.le_of_lt h)
    · exact (hS.map Prod.fst).trans (by rw [hkeysZ]; exact hpp)
  have hSlen : (sortK Z).length = k.length := by rw [hS.length_eq, hZlen]
  have hpS : p < (sortK Z).length := by omega
  have hkey : ((sortK Z)[p]).1 = p := by
    have : ((sortK Z).map Prod.fst)[p]'(by simpa using hpS) = (List.range k.length)[p]'(by simpa using hp) := by
      simp only [hkeys]
    simpa using this
  have hmem : (sortK Z)[p] ∈ Z := hS.mem_iff.mp (List.getElem_mem hpS)
  obtain ⟨i, hi, hzi⟩ := List.mem_iff_getElem.mp hmem
  have hik : i < k.length := by omega
  have hzi' : Z[i] = (perm[i]'(by omega), ((List.range k.length)[i]'(by simpa using hik), k[i])) := by
    simp only [Z, List.getElem_zip]
  rw [List.getElem_range] at hzi'
  refine ⟨i, hik, ?_, ?_⟩
  · rw [List.getElem?_map, List.getElem?_eq_getElem hpS, ← hzi, hzi']
    rfl
  · rw [List.getElem?_eq_getElem (by omega)]
    have : ((sortK Z)[p]).1 = perm[i]'(by omega) := by rw [← hzi, hzi']
    rw [← this, hkey]

end Gotree.C07
