/-
  C06 — what the model of `UpdateBitSet` computes: the row of every branch is the characteristic
  vector, over the tip index, of the tips below the branch.
-/
import Gotree.Model.C06Index
import Gotree.Spec.C06
import Gotree.Lemmas.C05Splits

namespace Gotree.C06
open Gotree

/-- the row a branch must carry: bit `tipid(q)` is set iff `q` is below the branch -/
def rowOf (ix : Index) (below : List String) : List Bool := ix.map fun q => below.contains q

theorem map_all_false {α : Type} (r : List α) (f : α → Bool) (h : ∀ q ∈ r, f q = false) :
    r.map f = List.replicate r.length false := by
  induction r with
  | nil => rfl
  | cons a r ih =>
    have h1 : f a = false := h a (by simp)
    have h2 := ih (fun q hq => h q (by simp [hq]))
    simp [List.replicate_succ, h1, h2]

theorem rowOf_nil (ix : Index) : rowOf ix [] = zeroRow ix := by
  unfold rowOf zeroRow
  exact map_all_false ix _ (fun q _ => by simp)

theorem rowOf_append (ix : Index) (a b : List String) :
    orRow (rowOf ix a) (rowOf ix b) = rowOf ix (a ++ b) := by
  unfold rowOf orRow
  induction ix with
  | nil => rfl
  | cons q r ih => simp [ih]

theorem tipRow_eq (ix : Index) (n : String) (hnd : ix.Nodup) (hn : n ∈ ix) :
    tipRow ix n = rowOf ix [n] := by
  unfold tipRow rowOf zeroRow
  induction ix with
  | nil => cases hn
  | cons a r ih =>
    have hnd' := List.nodup_cons.1 hnd
    by_cases h : a = n
    · subst h
      have hz : r.map (fun q => [a].contains q) = List.replicate r.length false :=
        map_all_false r _ (fun q hq => by
          have : q ≠ a := fun e => hnd'.1 (e ▸ hq)
          simp [this])
      rw [List.map_cons, hz]
      simp [List.idxOf_cons, List.replicate_succ]
    · have hn' : n ∈ r := by
        rcases List.mem_cons.1 hn with e | e
        · exact absurd e.symm h
        · exact e
      have ih' := ih hnd'.2 hn'
      have han : (a == n) = false := by simp [h]
      rw [List.map_cons, ← ih']
      simp [List.idxOf_cons, han, List.replicate_succ, h]

mutual
theorem fillT_spec (ix : Index) (hnd : ix.Nodup) : ∀ (t : T), (∀ n ∈ t.leaves, n ∈ ix) →
    fillT ix t = some (rowOf ix t.leaves, t.splitsBelow.map fun s => rowOf ix s.below)
  | .node d p [], h => by
    have hn : d.name ∈ ix := h _ (by simp [T.leaves_node])
    simp [fillT, hn, T.leaves_node, T.splitsBelow_node, splitsL, tipRow_eq ix d.name hnd hn]
  | .node d p (k :: ks), h => by
    have := fillK_spec ix hnd (k :: ks) (by simpa [T.leaves_node] using h)
    simp [fillT, this, T.leaves_node, T.splitsBelow_node]
theorem fillK_spec (ix : Index) (hnd : ix.Nodup) : ∀ (k : Kids), (∀ n ∈ leavesL k, n ∈ ix) →
    fillK ix k = some (rowOf ix (leavesL k), (splitsL k).map fun s => rowOf ix s.below)
  | [], _ => by simp [fillK, leavesL, splitsL, rowOf_nil]
  | (e, t) :: r, h => by
    have h1 := fillT_spec ix hnd t (fun n hn => h n (by simp [leavesL_cons, hn]))
    have h2 := fillK_spec ix hnd r (fun n hn => h n (by simp [leavesL_cons, hn]))
    simp [fillK, h1, h2, leavesL_cons, splitsL_cons, rowOf_append]
end

theorem zip_map_all {α β : Type} (l : List α) (g : α → β) (F : α × β → Bool) :
    (List.zip l (l.map g)).all F = l.all (fun s => F (s, g s)) := by
  induction l with
  | nil => rfl
  | cons a r ih => simp [ih]

theorem row_bits_ok (ix : Index) (f : String → Bool) :
    (List.zip ix ((List.range ix.length).map fun (i : Nat) => Int.ofNat i)).all
      (fun qi => decide (qi.2 ≥ 0) && (ix.map f)[qi.2.toNat]? == some (f qi.1)) = true := by
  rw [List.all_eq_true]
  rintro ⟨q, i⟩ h
  obtain ⟨k, hk, e⟩ := List.mem_iff_getElem.1 h
  simp at hk
  simp [List.getElem_zip] at e
  obtain ⟨rfl, rfl⟩ := e
  simp [hk]

/-- the rows in closed form satisfy the oracle predicate `bitsetsOK` -/
theorem rows_bitsetsOK (t' : T) (ix : Index) (hlen : ix.length = t'.tipNames.length) :
    bitsetsOK t' ix ((List.range ix.length).map fun (i : Nat) => Int.ofNat i)
      ((t'.splits.map fun s => rowOf ix s.below).map some) = true := by
  unfold bitsetsOK
  simp only [List.map_map, List.length_map, beq_self_eq_true, Bool.true_and]
  rw [zip_map_all]
  rw [List.all_eq_true]
  intro s _
  simp only [Function.comp]
  have := row_bits_ok ix (fun q => s.below.contains q)
  have hl : (rowOf ix s.below).length = t'.tipNames.length := by simp [rowOf, hlen]
  simp only [hl, beq_self_eq_true, Bool.true_and]
  unfold rowOf
  exact this


end Gotree.C06
