/-
  C16 — the numeric canonical form identifies exactly the topologies (helper lemmas).
-/
import Gotree.Spec.C16Keys
import Gotree.Lemmas.C16Nodup
import Gotree.Lemmas.C16Oracle

namespace Gotree.C16
open Gotree

/-! ### bit sets -/

theorem testBit_bitsOf : ∀ (l : List Nat) (i : Nat), (bitsOf l).testBit i = decide (i ∈ l)
  | [], i => by simp [bitsOf]
  | a :: r, i => by
    have ih := testBit_bitsOf r i
    unfold bitsOf at ih ⊢
    simp only [List.foldr_cons, Nat.testBit_or, ih, Nat.testBit_two_pow, List.mem_cons]
    by_cases h1 : i ∈ r <;> by_cases h2 : a = i <;> simp [h1, h2, eq_comm]

theorem bitsOf_eq_iff (l1 l2 : List Nat) : bitsOf l1 = bitsOf l2 ↔ ∀ i, i ∈ l1 ↔ i ∈ l2 := by
  constructor
  · intro h i
    have := congrArg (fun x => x.testBit i) h
    simp only [testBit_bitsOf] at this
    simpa using this
  · intro h
    apply Nat.eq_of_testBit_eq
    intro i
    rw [testBit_bitsOf, testBit_bitsOf]
    simp [h i]

/-! ### sorting numbers -/

theorem adjDistinctN_of_nodup : ∀ (l : List Nat), l.Nodup → adjDistinctN l = true
  | [], _ => rfl
  | [_], _ => rfl
  | a :: b :: r, h => by
    have h1 := List.nodup_cons.mp h
    simp only [adjDistinctN, Bool.and_eq_true, bne_iff_ne, ne_eq]
    exact ⟨fun e => h1.1 (e ▸ List.mem_cons_self), adjDistinctN_of_nodup (b :: r) h1.2⟩

theorem nodup_of_sorted_adj : ∀ (l : List Nat), l.Pairwise (· ≤ ·) → adjDistinctN l = true → l.Nodup
  | [], _, _ => List.nodup_nil
  | [_], _, _ => by simp
  | a :: b :: r, hs, hd => by
    simp only [adjDistinctN, Bool.and_eq_true, bne_iff_ne, ne_eq] at hd
    have hs' := List.pairwise_cons.mp hs
    have ih := nodup_of_sorted_adj (b :: r) hs'.2 hd.2
    refine List.nodup_cons.mpr ⟨?_, ih⟩
    intro hm
    -- a ≤ b ≤ every later element, a ≠ b: a cannot reappear
    have hab : a ≤ b := hs'.1 b List.mem_cons_self
    rcases List.mem_cons.mp hm with e | hm'
    · exact hd.1 e
    · have hba : b ≤ a := (List.pairwise_cons.mp hs'.2).1 a hm'
      exact hd.1 (Nat.le_antisymm hab hba)

theorem distinctNat_iff (l : List Nat) : distinctNat l = true ↔ l.Nodup := by
  unfold distinctNat
  have hp := List.mergeSort_perm l (fun a b => decide (a ≤ b))
  constructor
  · intro h
    have hs : (l.mergeSort (fun a b => decide (a ≤ b))).Pairwise (· ≤ ·) := by
      have := List.pairwise_mergeSort (le := fun (a b : Nat) => decide (a ≤ b))
        (fun a b c h1 h2 => by simp only [decide_eq_true_eq] at *; omega)
        (fun a b => by simp only [Bool.or_eq_true, decide_eq_true_eq]; omega) l
      exact this.imp (by intro a b hab; simpa using hab)
    exact hp.nodup_iff.mp (nodup_of_sorted_adj _ hs h)
  · intro h
    exact adjDistinctN_of_nodup _ (hp.nodup_iff.mpr h)

/-! ### leaf sets as numbers -/

theorem idxOf_inj_of_mem (all : List String) (x y : String) (hx : x ∈ all) (h : all.idxOf x = all.idxOf y) : x = y := by
  have hlt : all.idxOf x < all.length := List.idxOf_lt_length_of_mem hx
  have h1 : all[all.idxOf x] = x := List.getElem_idxOf hlt
  have hlt2 : all.idxOf y < all.length := h ▸ hlt
  have h2 : all[all.idxOf y] = y := List.getElem_idxOf hlt2
  rw [← h1, ← h2]; congr 1

theorem maskOf_eq_iff (all S S' : List String) (hS : ∀ x ∈ S, x ∈ all) (hS' : ∀ x ∈ S', x ∈ all) :
    maskOf all S = maskOf all S' ↔ SetEq S S' := by
  unfold maskOf
  rw [bitsOf_eq_iff]
  constructor
  · intro h x
    constructor
    · intro hx
      obtain ⟨y, hy, he⟩ := List.mem_map.mp ((h _).mp (List.mem_map.mpr ⟨x, hx, rfl⟩))
      rw [idxOf_inj_of_mem all x y (hS x hx) he.symm]; exact hy
    · intro hx
      obtain ⟨y, hy, he⟩ := List.mem_map.mp ((h _).mpr (List.mem_map.mpr ⟨x, hx, rfl⟩))
      rw [idxOf_inj_of_mem all x y (hS' x hx) he.symm]; exact hy
  · intro h i
    simp only [List.mem_map]
    constructor
    · rintro ⟨x, hx, rfl⟩; exact ⟨x, (h x).mp hx, rfl⟩
    · rintro ⟨x, hx, rfl⟩; exact ⟨x, (h x).mpr hx, rfl⟩

/-- members of both families lie in the reference list -/
def FamIn (all : List String) (A : List (List String)) : Prop := ∀ S ∈ A, ∀ x ∈ S, x ∈ all

theorem keys_eq_iff (f : List String → Nat) (A B : List (List String)) :
    bitsOf (A.map f) = bitsOf (B.map f) ↔
      (∀ a ∈ A, ∃ b ∈ B, f a = f b) ∧ (∀ b ∈ B, ∃ a ∈ A, f a = f b) := by
  rw [bitsOf_eq_iff]
  constructor
  · intro h
    refine ⟨fun a ha => ?_, fun b hb => ?_⟩
    · obtain ⟨b, hb, he⟩ := List.mem_map.mp ((h _).mp (List.mem_map.mpr ⟨a, ha, rfl⟩))
      exact ⟨b, hb, he.symm⟩
    · obtain ⟨a, ha, he⟩ := List.mem_map.mp ((h _).mpr (List.mem_map.mpr ⟨b, hb, rfl⟩))
      exact ⟨a, ha, he⟩
  · intro h i
    simp only [List.mem_map]
    constructor
    · rintro ⟨a, ha, rfl⟩; obtain ⟨b, hb, he⟩ := h.1 a ha; exact ⟨b, hb, he.symm⟩
    · rintro ⟨b, hb, rfl⟩; obtain ⟨a, ha, he⟩ := h.2 b hb; exact ⟨a, ha, he⟩

/-- rooted: same numeric key exactly when the families of clades are the same sets of sets -/
theorem topoKeyN_rooted_iff (all : List String) (a b : T) (ha : FamIn all (belowFam a)) (hb : FamIn all (belowFam b)) :
    topoKeyN all true a = topoKeyN all true b ↔ FamEq (belowFam a) (belowFam b) := by
  unfold topoKeyN
  simp only [if_true]
  rw [keys_eq_iff]
  constructor
  · intro h
    refine ⟨fun x hx => ?_, fun y hy => ?_⟩
    · obtain ⟨y, hy, he⟩ := h.1 x hx
      exact ⟨y, hy, (maskOf_eq_iff all x y (ha x hx) (hb y hy)).mp he⟩
    · obtain ⟨x, hx, he⟩ := h.2 y hy
      exact ⟨x, hx, (maskOf_eq_iff all x y (ha x hx) (hb y hy)).mp he⟩
  · intro h
    refine ⟨fun x hx => ?_, fun y hy => ?_⟩
    · obtain ⟨y, hy, he⟩ := h.1 x hx
      exact ⟨y, hy, (maskOf_eq_iff all x y (ha x hx) (hb y hy)).mpr he⟩
    · obtain ⟨x, hx, he⟩ := h.2 y hy
      exact ⟨x, hx, (maskOf_eq_iff all x y (ha x hx) (hb y hy)).mpr he⟩

/-! ### unrooted: a split is a leaf set or its complement -/

/-- is the `i`-th reference tip in `S` -/
def memAt (all S : List String) (i : Nat) : Bool :=
  match all[i]? with
  | some x => decide (x ∈ S)
  | none => false

theorem memAt_idxOf (all S : List String) (y : String) (hy : y ∈ all) : memAt all S (all.idxOf y) = decide (y ∈ S) := by
  have hlt : all.idxOf y < all.length := List.idxOf_lt_length_of_mem hy
  unfold memAt
  rw [List.getElem?_eq_getElem hlt, List.getElem_idxOf hlt]

theorem memAt_of_ge (all S : List String) (i : Nat) (h : all.length ≤ i) : memAt all S i = false := by
  unfold memAt
  rw [List.getElem?_eq_none h]

theorem testBit_maskOf (all S : List String) (hS : ∀ x ∈ S, x ∈ all) (hn : all.Nodup) (i : Nat) :
    (maskOf all S).testBit i = memAt all S i := by
  unfold maskOf
  rw [testBit_bitsOf]
  by_cases hi : i < all.length
  · have hget : all[i]? = some all[i] := List.getElem?_eq_getElem hi
    unfold memAt
    rw [hget]
    simp only
    congr 1
    apply propext
    simp only [List.mem_map]
    constructor
    · rintro ⟨x, hx, he⟩
      have hlt : all.idxOf x < all.length := List.idxOf_lt_length_of_mem (hS x hx)
      have h1 : all[all.idxOf x] = x := List.getElem_idxOf hlt
      have : all[i] = x := by rw [← h1]; congr 1; exact he.symm
      rw [this]; exact hx
    · intro hx
      exact ⟨all[i], hx, hn.idxOf_getElem i hi⟩
  · rw [memAt_of_ge all S i (by omega)]
    simp only [decide_eq_false_iff_not, List.mem_map, not_exists, not_and]
    intro x hx he
    have := List.idxOf_lt_length_of_mem (hS x hx)
    omega

theorem setEq_of_memAt (all S S' : List String) (hS : ∀ x ∈ S, x ∈ all) (hS' : ∀ x ∈ S', x ∈ all)
    (h : ∀ i, i < all.length → memAt all S i = memAt all S' i) : SetEq S S' := by
  intro x
  constructor
  · intro hx
    have hy := hS x hx
    have := h _ (List.idxOf_lt_length_of_mem hy)
    rw [memAt_idxOf all S x hy, memAt_idxOf all S' x hy] at this
    simpa [hx] using this
  · intro hx
    have hy := hS' x hx
    have := h _ (List.idxOf_lt_length_of_mem hy)
    rw [memAt_idxOf all S x hy, memAt_idxOf all S' x hy] at this
    simpa [hx] using this

theorem compEq_iff_memAt (all S S' : List String) (hn : all.Nodup) :
    CompEq all S S' ↔ ∀ i, i < all.length → memAt all S i = !memAt all S' i := by
  constructor
  · intro h i hi
    have hm : all[i] ∈ all := List.getElem_mem hi
    have := h _ hm
    have e : all.idxOf all[i] = i := hn.idxOf_getElem i hi
    rw [← e, memAt_idxOf all S _ hm, memAt_idxOf all S' _ hm]
    by_cases h1 : all[i] ∈ S <;> by_cases h2 : all[i] ∈ S' <;> simp_all
  · intro h y hy
    have := h _ (List.idxOf_lt_length_of_mem hy)
    rw [memAt_idxOf all S y hy, memAt_idxOf all S' y hy] at this
    by_cases h1 : y ∈ S <;> by_cases h2 : y ∈ S' <;> simp_all

/-- the binary digits of the canonical side -/
theorem testBit_canonMask (all S : List String) (hS : ∀ x ∈ S, x ∈ all) (hn : all.Nodup) (i : Nat) :
    (canonMask all (maskOf all S)).testBit i =
      (if memAt all S 0 then (decide (i < all.length) != memAt all S i) else memAt all S i) := by
  unfold canonMask fullMask
  rw [testBit_maskOf all S hS hn 0]
  split
  · rw [Nat.testBit_xor, Nat.testBit_two_pow_sub_one, testBit_maskOf all S hS hn i]
  · exact testBit_maskOf all S hS hn i

theorem canonMask_eq_iff (all S S' : List String) (hS : ∀ x ∈ S, x ∈ all) (hS' : ∀ x ∈ S', x ∈ all) (hn : all.Nodup) :
    canonMask all (maskOf all S) = canonMask all (maskOf all S') ↔ (SetEq S S' ∨ CompEq all S S') := by
  constructor
  · intro h
    have hb : ∀ i, (if memAt all S 0 then (decide (i < all.length) != memAt all S i) else memAt all S i) =
        (if memAt all S' 0 then (decide (i < all.length) != memAt all S' i) else memAt all S' i) := by
      intro i
      rw [← testBit_canonMask all S hS hn i, ← testBit_canonMask all S' hS' hn i, h]
    cases c : memAt all S 0 <;> cases c' : memAt all S' 0
    · left
      exact setEq_of_memAt all S S' hS hS' (fun i _ => by have := hb i; simpa [c, c'] using this)
    · right
      rw [compEq_iff_memAt all S S' hn]
      intro i hi
      have := hb i
      simp only [c, c', hi, decide_true, Bool.false_eq_true, if_false, if_true] at this
      rw [this]; cases memAt all S' i <;> rfl
    · right
      rw [compEq_iff_memAt all S S' hn]
      intro i hi
      have := hb i
      simp only [c, c', hi, decide_true, Bool.false_eq_true, if_false, if_true] at this
      rw [← this]; cases memAt all S i <;> rfl
    · left
      refine setEq_of_memAt all S S' hS hS' (fun i hi => ?_)
      have := hb i
      simp only [c, c', hi, decide_true, if_true] at this
      cases h1 : memAt all S i <;> cases h2 : memAt all S' i <;> simp_all
  · rintro (h | h)
    · rw [(maskOf_eq_iff all S S' hS hS').mpr h]
    · apply Nat.eq_of_testBit_eq
      intro i
      rw [testBit_canonMask all S hS hn i, testBit_canonMask all S' hS' hn i]
      have hm := (compEq_iff_memAt all S S' hn).mp h
      by_cases hi : i < all.length
      · have h0 := hm 0 (by omega)
        have hi' := hm i hi
        rw [h0, hi']
        simp only [hi, decide_true]
        cases memAt all S' 0 <;> cases memAt all S' i <;> rfl
      · rw [memAt_of_ge all S i (by omega), memAt_of_ge all S' i (by omega)]
        have : decide (i < all.length) = false := by simp [hi]
        rw [this]
        cases memAt all S 0 <;> cases memAt all S' 0 <;> rfl

/-- unrooted: same numeric key exactly when the trees have the same set of splits -/
theorem topoKeyN_unrooted_iff (all : List String) (hn : all.Nodup) (a b : T)
    (ha : FamIn all (belowFam a)) (hb : FamIn all (belowFam b)) :
    topoKeyN all false a = topoKeyN all false b ↔ USame all (belowFam a) (belowFam b) := by
  unfold topoKeyN
  simp only [Bool.false_eq_true, if_false]
  rw [keys_eq_iff (fun S => canonMask all (maskOf all S))]
  constructor
  · intro h
    refine ⟨fun x hx => ?_, fun y hy => ?_⟩
    · obtain ⟨y, hy, he⟩ := h.1 x hx
      exact ⟨y, hy, (canonMask_eq_iff all x y (ha x hx) (hb y hy) hn).mp he⟩
    · obtain ⟨x, hx, he⟩ := h.2 y hy
      exact ⟨x, hx, (canonMask_eq_iff all x y (ha x hx) (hb y hy) hn).mp he⟩
  · intro h
    refine ⟨fun x hx => ?_, fun y hy => ?_⟩
    · obtain ⟨y, hy, he⟩ := h.1 x hx
      exact ⟨y, hy, (canonMask_eq_iff all x y (ha x hx) (hb y hy) hn).mpr he⟩
    · obtain ⟨x, hx, he⟩ := h.2 y hy
      exact ⟨x, hx, (canonMask_eq_iff all x y (ha x hx) (hb y hy) hn).mpr he⟩

/-! ### from the oracle's verdict to the mathematical claim, and back -/

theorem perm_of_sameNames (a b : List String) (h : sameNames a b = true) : a.Perm b := by
  unfold sameNames at h
  rw [beq_iff_eq] at h
  exact (sortNames_perm a).symm.trans (h ▸ sortNames_perm b)

theorem famIn_of_tips (all : List String) (t : T) (h : t.tipNames.Perm all) : FamIn all (belowFam t) := by
  intro S hS x hx
  rw [belowFam_eq] at hS
  have h1 : x ∈ leavesL t.kids := belowsL_sub t.kids S hS x hx
  have h2 : x ∈ t.tipNames := by unfold T.tipNames; exact List.mem_append_right _ h1
  exact h.subset h2

theorem famIn_of_treeOK (n : Nat) (rooted : Bool) (names : List String) (t : T)
    (h : topoTreeOK n rooted t names = true) : FamIn (topoNames names n) (belowFam t) := by
  unfold topoTreeOK at h
  simp only [Bool.and_eq_true] at h
  exact famIn_of_tips _ t (perm_of_sameNames _ _ h.1.1)

theorem nodup_map_iff_pairwise {α β : Type} (f : α → β) (l : List α) :
    (l.map f).Nodup ↔ l.Pairwise (fun a b => f a ≠ f b) := by
  unfold List.Nodup; rw [List.pairwise_map]

/-- SOUNDNESS of the enumeration oracle, rooted: when `topoOKN` accepts a list of trees (whatever
    produced it), no two of them have the same set of clades -/
theorem topoOKN_sound_rooted (n : Nat) (names : List String) (ts : List T) (h : topoOKN n true ts names = true) :
    ts.Pairwise (fun a b => ¬ FamEq (belowFam a) (belowFam b)) := by
  unfold topoOKN at h
  simp only [Bool.and_eq_true, List.all_eq_true] at h
  obtain ⟨⟨_, hall⟩, hd⟩ := h
  rw [distinctNat_iff, nodup_map_iff_pairwise] at hd
  refine List.Pairwise.imp_of_mem ?_ hd
  intro a b ha hb hne hfe
  exact hne ((topoKeyN_rooted_iff _ a b (famIn_of_treeOK n true names a (hall a ha))
    (famIn_of_treeOK n true names b (hall b hb))).mpr hfe)

/-- SOUNDNESS, unrooted: no two accepted trees have the same set of splits -/
theorem topoOKN_sound_unrooted (n : Nat) (names : List String) (hn : (topoNames names n).Nodup) (ts : List T)
    (h : topoOKN n false ts names = true) :
    ts.Pairwise (fun a b => ¬ USame (topoNames names n) (belowFam a) (belowFam b)) := by
  unfold topoOKN at h
  simp only [Bool.and_eq_true, List.all_eq_true] at h
  obtain ⟨⟨_, hall⟩, hd⟩ := h
  rw [distinctNat_iff, nodup_map_iff_pairwise] at hd
  refine List.Pairwise.imp_of_mem ?_ hd
  intro a b ha hb hne hfe
  exact hne ((topoKeyN_unrooted_iff _ hn a b (famIn_of_treeOK n false names a (hall a ha))
    (famIn_of_treeOK n false names b (hall b hb))).mpr hfe)

/-- COMPLETENESS direction used for the model: pairwise different topologies get pairwise different keys -/
theorem distinctNat_of_pairwise (all : List String) (rooted : Bool) (hn : all.Nodup) (ts : List T)
    (hin : ∀ t ∈ ts, FamIn all (belowFam t))
    (hp : ts.Pairwise (fun a b => if rooted then ¬ FamEq (belowFam a) (belowFam b)
      else ¬ USame all (belowFam a) (belowFam b))) :
    distinctNat (ts.map (topoKeyN all rooted)) = true := by
  rw [distinctNat_iff, nodup_map_iff_pairwise]
  refine List.Pairwise.imp_of_mem ?_ hp
  intro a b ha hb hne he
  cases rooted with
  | true => exact hne ((topoKeyN_rooted_iff all a b (hin a ha) (hin b hb)).mp he)
  | false => exact hne ((topoKeyN_unrooted_iff all hn a b (hin a ha) (hin b hb)).mp he)

end Gotree.C16
