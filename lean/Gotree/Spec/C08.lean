/-
  C08 — what the property means: set algebra on the unrooted split sets of
  Spec/Splits.lean (`T.usplitsAll`, `T.usplitSet`).  Nothing here looks at the
  model of the code.  Core Lean only.
-/
import Gotree.Spec.Splits

namespace Gotree.C08
open Gotree

/-- the splits that count: all branches with `tips`, the non-trivial ones otherwise -/
def U (tips : Bool) (t : T) : List USplit :=
  if tips then t.usplitsAll else t.usplits

/-- the split set (canonical sides) -/
def S (tips : Bool) (t : T) : List (List String) := (U tips t).map (·.side)

def diffL (a b : List (List String)) : List (List String) := a.filter fun x => !b.contains x
def interL (a b : List (List String)) : List (List String) := a.filter fun x => b.contains x

/-- same taxa: the tip names of the two trees are the same set -/
def sameTaxa (r c : T) : Bool :=
  r.tipNames.all (fun x => c.tipNames.contains x) && c.tipNames.all (fun x => r.tipNames.contains x)

/-- the trees of the property: unique tip names, root of degree ≥ 3, no single-child node -/
def unrootedOK (t : T) : Bool := t.uniqueTips && t.noSingle && decide (3 ≤ t.kids.length)

/-- (|R \ C|, |R ∩ C|, |C \ R|) -/
def counts (r c : T) (tips : Bool) : Nat × Nat × Nat :=
  ((diffL (S tips r) (S tips c)).length, (interL (S tips r) (S tips c)).length,
   (diffL (S tips c) (S tips r)).length)

/-- R = C as sets -/
def sameSplits (r c : T) (tips : Bool) : Bool :=
  (diffL (S tips r) (S tips c)).isEmpty && (diffL (S tips c) (S tips r)).isEmpty

/-- length of the split with canonical side `k` -/
def lenOf (u : List USplit) (k : List String) : Option Rat := (u.find? (·.side == k)).map (·.len)

/-- lengths of the splits of `a` that are not in `b` -/
def onlyLens (a b : List USplit) : List Rat :=
  (a.filter fun s => !(b.map (·.side)).contains s.side).map (·.len)

/-- for the shared splits: length in `a` minus length in `b` -/
def commonDiffs (a b : List USplit) : List Rat :=
  a.filterMap fun s => (lenOf b s.side).map fun l => s.len - l

def sortR (l : List Rat) : List Rat := l.mergeSort (fun a b => decide (a ≤ b))

/-- same multiset of rationals -/
def sameMS (a b : List Rat) : Bool := sortR a == sortR b

def absQ (q : Rat) : Rat := if q < 0 then -q else q

/-- every branch that counts has a length (no `NIL` sentinel): the weighted clause of the
    property speaks of lengths -/
def lensPresent (tips : Bool) (t : T) : Bool := (U tips t).all fun s => s.len != NIL

/-- Spec of the weighted record (as multisets): lengths of the splits specific to the
    reference, of those specific to the compared tree, and the length differences
    (reference - compared) on the shared splits. -/
def wTermsOK (r c : T) (tips : Bool) (ref comp common : List Rat) : Bool :=
  sameMS ref (onlyLens (U tips r) (U tips c)) &&
  sameMS comp (onlyLens (U tips c) (U tips r)) &&
  sameMS common (commonDiffs (U tips r) (U tips c))

/-- weighted identity: same splits, same lengths -/
def wSame (r c : T) (tips : Bool) : Bool :=
  sameSplits r c tips && (commonDiffs (U tips r) (U tips c)).all (· == 0)

/- ## A branch without length has no length: it counts 0

  The code keeps "no length" as the marker -1 (`NIL_LENGTH`).  The property speaks of lengths
  and length differences; the Spec therefore reads the weighted terms on the trees in which an
  absent length has been replaced by 0 (the documented default of the distance matrix,
  `EdgeD.lenOr0`), never on the marker. -/

mutual
def _root_.Gotree.T.zeroLens : T → T
  | .node d p k => .node d p (zeroLensL k)
def _root_.Gotree.zeroLensL : Kids → Kids
  | [] => []
  | (e, t) :: r => ({ e with len := e.lenOr0 }, t.zeroLens) :: zeroLensL r
end

/-- Spec of the weighted record, absent length = 0 -/
def wTermsOK0 (r c : T) (tips : Bool) (ref comp common : List Rat) : Bool :=
  wTermsOK r.zeroLens c.zeroLens tips ref comp common

/-- weighted identity, absent length = 0 -/
def wSame0 (r c : T) (tips : Bool) : Bool := wSame r.zeroLens c.zeroLens tips

/-- some branch that counts has no length -/
def lensAbsent (tips : Bool) (t : T) : Bool := !lensPresent tips t

/- ## The hypotheses in semantic form

  `good t` says of the split list what `unrootedOK t` says of the shape (the
  implication `unrootedOK t → good t` is a theorem of Proofs/C08.lean); the
  driver evaluates both. -/

/-- the unrooted split a branch stands for -/
def usOf (all : List String) (s : SplitE) : USplit := ⟨canonSide all s.below, s.e.len, s.e.sup⟩

/-- no two branches define the same split -/
def keysNodup (t : T) : Bool := decide ((t.splits.map fun s => canonSide t.tipNames s.below).Nodup)

/-- tip branches, and only they, define trivial splits -/
def classOK (t : T) : Bool :=
  t.splits.all fun s => s.tip == decide (lightSize t.tipNames (canonSide t.tipNames s.below) ≤ 1)

/-- the tip branches are exactly the branches `{x} | rest` for the tip names `x` -/
def tipSplitsOK (t : T) : Bool :=
  (t.tipNames.all fun x => t.splits.any fun s => s.tip && s.below == [x]) &&
  (t.splits.all fun s => !s.tip || (match s.below with | [x] => t.tipNames.contains x | _ => false))

def good (t : T) : Bool := t.uniqueTips && !t.tipNames.isEmpty && keysNodup t && classOK t && tipSplitsOK t

end Gotree.C08
