/-
  C09 — the branches of the consensus do not depend on the presentation of the
  collection (order of the trees, child order, rooting): helper lemmas.
-/
import Gotree.Lemmas.C09NoRepeat
import Gotree.Lemmas.C09Rooting

namespace Gotree.C09
open Gotree

theorem SameSide.symm' {tips X P : List String} (h : SameSide tips X P) : SameSide tips P X := by
  rcases h with h | h
  · exact Or.inl fun a ha => (h a ha).symm
  · refine Or.inr fun a ha => ⟨fun hp hx => (h a ha).1 hx hp, fun hnx => ?_⟩
    apply Classical.byContradiction
    intro hnp
    exact hnx ((h a ha).2 hnp)

theorem SameSide.trans' {tips X Y Z : List String} (h1 : SameSide tips X Y) (h2 : SameSide tips Y Z) :
    SameSide tips X Z := by
  rcases h1 with h1 | h1 <;> rcases h2 with h2 | h2
  · exact Or.inl fun a ha => (h1 a ha).trans (h2 a ha)
  · exact Or.inr fun a ha => (h1 a ha).trans (h2 a ha)
  · exact Or.inr fun a ha => (h1 a ha).trans (not_congr (h2 a ha))
  · refine Or.inl fun a ha => (h1 a ha).trans ⟨fun hny => ?_, fun hz hy => (h2 a ha).1 hy hz⟩
    apply Classical.byContradiction
    intro hnz
    exact hny ((h2 a ha).2 hnz)

theorem SameSide.of_mem_iff {tips tips' X P : List String} (hm : ∀ a, a ∈ tips ↔ a ∈ tips')
    (h : SameSide tips X P) : SameSide tips' X P := by
  rcases h with h | h
  · exact Or.inl fun a ha => h a ((hm a).2 ha)
  · exact Or.inr fun a ha => h a ((hm a).2 ha)

/-- sizes of the two presentations of a side -/
theorem sameSide_length {tips X Y : List String} (hT : tips.Nodup) (hX : X.Nodup) (hY : Y.Nodup)
    (hXT : SubS X tips) (hYT : SubS Y tips) (h : SameSide tips Y X) :
    Y.length = X.length ∨ Y.length + X.length = tips.length := by
  rcases h with h | h
  · left
    apply List.Perm.length_eq
    rw [List.perm_ext_iff_of_nodup hY hX]
    intro a
    exact ⟨fun ha => (h a (hYT a ha)).1 ha, fun ha => (h a (hXT a ha)).2 ha⟩
  · right
    have h1 := length_filter_not X.contains tips
    have h2 : (tips.filter X.contains).length = X.length := length_filter_of_sub hX hT hXT
    have h3 : Y.length = (tips.filter (fun a => !X.contains a)).length := by
      apply List.Perm.length_eq
      rw [List.perm_ext_iff_of_nodup hY (hT.filter _)]
      intro a
      rw [List.mem_filter]
      simp only [Bool.not_eq_true', List.contains_eq_mem, decide_eq_false_iff_not]
      exact ⟨fun ha => ⟨hYT a ha, (h a (hYT a ha)).1 ha⟩, fun ⟨ha, hn⟩ => (h a ha).2 hn⟩
    omega

/-- rows with the same bipartition have names on the same bipartition -/
theorem rowNames_sameSide {univ tips : List String} (hut : ∀ a, a ∈ univ ↔ a ∈ tips) (x y : Entry)
    (h : Eqc univ y.key x.key) :
    SameSide tips (rowNames tips y) (rowNames tips x) := by
  have mem : ∀ (k : List String) (a : String), a ∈ tips → (a ∈ rowNames tips ⟨k, 0, 0⟩ ↔ a ∈ k) := by
    intro k a ha
    unfold rowNames
    rw [List.mem_filter]
    simp only [List.contains_eq_mem, decide_eq_true_eq]
    exact ⟨fun h => h.2, fun h => ⟨ha, h⟩⟩
  have mx : ∀ a ∈ tips, (a ∈ rowNames tips x ↔ a ∈ x.key) := fun a ha => mem x.key a ha
  have my : ∀ a ∈ tips, (a ∈ rowNames tips y ↔ a ∈ y.key) := fun a ha => mem y.key a ha
  rcases h with h | h
  · exact Or.inl fun a ha => by rw [mx a ha, my a ha, h]
  · refine Or.inr fun a ha => ?_
    rw [mx a ha, my a ha, h, mem_compl, hut]
    exact ⟨fun h1 => h1.2, fun h1 => ⟨ha, h1⟩⟩

theorem F2.length_eq {α β : Type} {R : α → β → Prop} {l : List α} {l' : List β} (h : F2 R l l') :
    l.length = l'.length := by
  induction h with
  | nil => rfl
  | cons _ _ ih => simp [ih]

theorem rowNames_perm {tips tips' : List String} (h : tips.Perm tips') (x : Entry) :
    (rowNames tips x).Perm (rowNames tips' x) := h.filter _

/-! ## the sorted tip index only depends on the set of tips -/

theorem mem_insertS {a x : String} : ∀ {l : List String}, x ∈ insertS a l ↔ x = a ∨ x ∈ l
  | [] => by simp [insertS]
  | b :: r => by
    unfold insertS
    split
    · simp
    · simp only [List.mem_cons, mem_insertS (l := r)]
      constructor
      · rintro (h | h | h)
        · exact Or.inr (Or.inl h)
        · exact Or.inl h
        · exact Or.inr (Or.inr h)
      · rintro (h | h | h)
        · exact Or.inr (Or.inl h)
        · exact Or.inl h
        · exact Or.inr (Or.inr h)

theorem insertS_sorted (a : String) : ∀ l : List String, l.Pairwise (· ≤ ·) → (insertS a l).Pairwise (· ≤ ·)
  | [], _ => by simp [insertS]
  | b :: r, h => by
    rw [List.pairwise_cons] at h
    unfold insertS
    split
    · rename_i hab
      refine List.Pairwise.cons ?_ (List.Pairwise.cons h.1 h.2)
      intro x hx
      rcases List.mem_cons.1 hx with rfl | hx
      · exact hab
      · exact String.le_trans hab (h.1 x hx)
    · rename_i hab
      have hba : b ≤ a := by
        rcases String.le_total a b with h' | h'
        · exact absurd h' hab
        · exact h'
      refine List.Pairwise.cons ?_ (insertS_sorted a r h.2)
      intro x hx
      rcases mem_insertS.1 hx with rfl | hx
      · exact hba
      · exact h.1 x hx

theorem sortN_sorted : ∀ l : List String, (sortN l).Pairwise (· ≤ ·)
  | [] => List.Pairwise.nil
  | a :: l => insertS_sorted a (sortN l) (sortN_sorted l)

theorem sortN_eq_of_perm {a b : List String} (h : a.Perm b) : sortN a = sortN b := by
  apply List.Perm.eq_of_pairwise (le := (· ≤ ·)) _ (sortN_sorted a) (sortN_sorted b)
    ((sortN_perm a).trans (h.trans (sortN_perm b).symm))
  intro x y _ _ h1 h2
  exact String.le_antisymm h1 h2

end Gotree.C09
