/-
  C03 — the theorems that depend on the table regenerated from the source (Gotree/Gen/C03Source.lean).
  Kept apart from Proofs/C03.lean (ROUND7B item 1): nothing may import this module, so a changed or stale
  table can only fail here.
-/
import Gotree.Proofs.C03
import Gotree.Gen.C03Source
import Gotree.Lemmas.C03Source

namespace Gotree.C03
open Gotree

/-! ### facts about the SOURCE the models assume, regenerated on every run (harness/c03/extract.go) -/

/-- The table regenerated from tree/*.go of the working tree (calls, assigned fields, degree tests of 51
    functions: enumerations, degree predicates, pointer helpers, anchored edits) is the reviewed one. -/
theorem source_facts_check : Gotree.Gen.C03.facts = reviewedFacts := by decide

/-- What the models take from it: the observers (five enumerations, `Tip`, `Nneigh`, `Rooted`, the two
    Newick writers) assign no field of the tree — observing a step does not change it —; each
    enumeration goes through its own recursion only (F8 was `internalEdgesRecur` continuing through
    `edgesRecur`); the degree constants are those of `isTipAt`, `T.rooted`, `firstDeg3`, `resolve`,
    `removeSingle` and of the transliterated branch recursions. -/
theorem source_observers_check :
    observersPure Gotree.Gen.C03.facts = true ∧ recursionsClosed Gotree.Gen.C03.facts = true ∧
      degreeConstants Gotree.Gen.C03.facts = true := by decide

/-- the three predicates are not vacuous: the pinned `internalEdgesRecur` (calling `edgesRecur`), an
    enumeration that stores, and a `Tip` that tests `<= 1` are each refused -/
example :
    recursionsClosed [⟨"Tree.internalEdgesRecur", true, ["edgesRecur"], [], [(">=", 2)]⟩] = false ∧
    observersPure [⟨"Tree.Edges", true, ["edgesRecur"], ["br"], []⟩] = false ∧
    degreeConstants [⟨"Node.Tip", true, [], [], [("<=", 1)]⟩] = false := by decide

end Gotree.C03
