/-
  C12 — when ACCTRAN reports exactly one state at every node, the labelling it spells out
  is most parsimonious (Fitch trace-back: given the parent's state `p`, the reported state of
  the child is an optimal completion of the child's subtree).
-/
import Gotree.Lemmas.C12Acc

namespace Gotree.C12
open Gotree

/-- the single reported state of a slice (first member) -/
def hd (k : Nat) (v : Vec) : Nat := (members k v).headD 0

/-- every slice of the list is a singleton -/
def allSingle (k : Nat) (l : List Vec) : Bool := l.all fun v => (members k v).length == 1

theorem single_spec (k : Nat) (v : Vec) (h : (members k v).length = 1) :
    hd k v < k ∧ v.at (hd k v) ≠ 0 ∧ ∀ i, i < k → v.at i ≠ 0 → i = hd k v := by
  unfold hd
  match hm : members k v, h with
  | [x], _ =>
    have hx : x ∈ members k v := by rw [hm]; simp
    simp only [members, List.mem_filter, List.mem_range, decide_eq_true_eq] at hx
    refine ⟨by simpa using hx.1, by simpa using hx.2, ?_⟩
    intro i hi hne
    have : i ∈ members k v := by
      simp only [members, List.mem_filter, List.mem_range, decide_eq_true_eq]; exact ⟨hi, hne⟩
    rw [hm] at this
    simpa using this

section unamb
variable (k : Nat) (tv : String → Vec)

/-- `pv` is exactly the singleton `{p}` -/
def IsSingle (pv : Vec) (p : Nat) : Prop := p < k ∧ ∀ i, i < k → (pv.at i ≠ 0 ↔ i = p)

theorem isSingle_of (v : Vec) (h : (members k v).length = 1) : IsSingle k v (hd k v) := by
  obtain ⟨h1, h2, h3⟩ := single_spec k v h
  exact ⟨h1, fun i hi => ⟨fun hne => h3 i hi hne, fun e => e ▸ h2⟩⟩

/-- the state ACCTRAN writes at a node, given the singleton `{p}` reported at its parent:
    `p` itself when the node's up-pass set `s` contains it, otherwise the set `s` unchanged -/
theorem inter_single (s pv : Vec) (p : Nat) (hp : IsSingle k pv p) (hs01 : Set01 k s) (hpv01 : Set01 k pv)
    (x : Nat) (hx : IsSingle k (inter k s pv) x) :
    (s.at p ≠ 0 → x = p) ∧ (s.at p = 0 → s.at x ≠ 0 ∧ x ≠ p) := by
  rcases inter_cases k s pv with ⟨⟨i0, hi0, hgt0⟩, heq⟩ | ⟨hle, heq⟩
  · -- the intersection is non-empty: it is {p}
    have hi0p : i0 = p := by
      have := hs01 i0 hi0
      exact (hp.2 i0 hi0).mp (by omega)
    subst hi0p
    have hxat := (hx.2 x hx.1).mpr rfl
    rw [heq, at_tab] at hxat
    simp only [hx.1, if_true, at_vadd] at hxat
    have hxp : x = i0 := by
      have h1 := hs01 x hx.1
      have h2 := hpv01 x hx.1
      apply (hp.2 x hx.1).mp
      split at hxat
      · omega
      · simp at hxat
    refine ⟨fun _ => hxp, fun h0 => ?_⟩
    have := hpv01 i0 hi0
    omega
  · -- empty: the set is kept
    rw [heq] at hx
    have hpp := (hp.2 p hp.1).mpr rfl
    have := hle p hp.1
    have hsp : s.at p = 0 := by omega
    refine ⟨fun h => absurd hsp h, fun _ => ⟨(hx.2 x hx.1).mpr rfl, ?_⟩⟩
    intro e
    subst e
    exact ((hx.2 x hx.1).mpr rfl) hsp

def QU (c : T) : Prop :=
  ∀ (pv : Vec) (p : Nat) (rest : List Nat), IsSingle k pv p → Set01 k pv →
    (∀ n ∈ c.leaves, leaf01 k tv n) →
    allSingle k (acctran k (some pv) (upA k tv c)).flat = true →
    (labelOf c ((acctran k (some pv) (upA k tv c)).flat.map (hd k) ++ rest)).2 = rest ∧
    fits k tv c (labelOf c ((acctran k (some pv) (upA k tv c)).flat.map (hd k) ++ rest)).1 = true ∧
    (if (labelOf c ((acctran k (some pv) (upA k tv c)).flat.map (hd k) ++ rest)).1.s = p then 0 else 1) +
      (labelOf c ((acctran k (some pv) (upA k tv c)).flat.map (hd k) ++ rest)).1.changes = (gv k tv c).at p

theorem unamb_list : ∀ (ks : Kids), (∀ et ∈ ks, QU k tv et.2) →
    (∀ n ∈ leavesL ks, leaf01 k tv n) →
    ∀ (S : Vec) (x : Nat) (rest : List Nat), IsSingle k S x → Set01 k S →
    allSingle k (A.flatL (acctranL k (some S) (upAL k tv ks))) = true →
    (labelOfL ks ((A.flatL (acctranL k (some S) (upAL k tv ks))).map (hd k) ++ rest)).2 = rest ∧
    fitsL k tv ks (labelOfL ks ((A.flatL (acctranL k (some S) (upAL k tv ks))).map (hd k) ++ rest)).1 = true ∧
    LT.changesL x (labelOfL ks ((A.flatL (acctranL k (some S) (upAL k tv ks))).map (hd k) ++ rest)).1
      = (fL k tv ks).at x
  | [], _, _, S, x, rest, hS, _, _ => by
    simp [upAL, acctranL, A.flatL, labelOfL, LT.changesL, fL, at_vzero, fitsL]
  | (e, c) :: r, ih, hl, S, x, rest, hS, hS01, hall => by
    simp only [upAL, acctranL, A.flatL, allSingle, List.all_append, Bool.and_eq_true] at hall
    have hc := ih (e, c) (List.mem_cons_self ..) S x
      ((A.flatL (acctranL k (some S) (upAL k tv r))).map (hd k) ++ rest) hS hS01
      (fun n hn => hl n (by simp only [leavesL, List.mem_append]; exact Or.inl hn)) hall.1
    have hr := unamb_list r (fun et het => ih et (List.mem_cons_of_mem _ het))
      (fun n hn => hl n (by simp only [leavesL, List.mem_append]; exact Or.inr hn)) S x rest hS hS01 hall.2
    simp only [upAL, acctranL, A.flatL, List.map_append, List.append_assoc, labelOfL]
    simp only [] at hc
    rw [hc.1]
    refine ⟨hr.1, by simp only [fitsL, hc.2.1, hr.2.1, Bool.and_self], ?_⟩
    simp only [LT.changesL, fL, at_vadd, hS.1, if_true]
    have := hc.2.2
    rw [hr.2.2]
    omega

theorem unamb_tree (hk : 0 < k) : ∀ c : T, QU k tv c := by
  intro c
  induction c using T.induct with
  | h d pp ks ih =>
    intro pv p rest hp hpv01 hl hall
    match ks, ih, hl, hall with
    | [], _, hl, hall =>
      -- a leaf keeps its tip slice (fix a20daad): a one-state tip {x}
      simp only [upA, upAL, upS, acctran, A.flat, A.flatL, allSingle, List.all_cons, List.all_nil,
        Bool.and_true, beq_iff_eq] at hall
      obtain ⟨hx1, hx2, hx3⟩ := single_spec k _ hall
      simp only [upA, upAL, upS, acctran, A.flat, A.flatL, List.map_cons, List.map_nil,
        List.cons_append, List.nil_append, labelOf, labelOfL, List.headD_cons, List.drop_succ_cons, List.drop_zero,
        LT.s_node, LT.changes, LT.changesL, gv, at_tab, hp.1, if_true]
      refine ⟨trivial, by simp [fits, hx1, hx2], ?_⟩
      by_cases h0 : (tv d.name).at p = 0
      · have : ¬ hd k (tv d.name) = p := fun e => hx2 (e ▸ h0)
        simp [h0, this]
      · have hph := hx3 p hp.1 h0
        simp [h0, ← hph]
    | x :: xs, ih, hl, hall =>
      rw [leaves_node_cons] at hl
      rw [acctran_upA_cons] at hall ⊢
      simp only [A.flat, allSingle, List.all_cons, Bool.and_eq_true, beq_iff_eq] at hall
      obtain ⟨hS1, hrest⟩ := hall
      have hlc : ∀ n ∈ (T.node d pp (x :: xs)).leaves, leaf01 k tv n := by
        intro n hn; rw [leaves_node_cons] at hn; exact hl n hn
      have hVU01 : Set01 k (upS k tv (.node d pp (x :: xs))) := fun i hi => upS_le_one k tv _ hlc i hi
      have hS := isSingle_of k _ hS1
      have hS01 : Set01 k (inter k (upS k tv (.node d pp (x :: xs))) pv) := inter_01 k _ _ hVU01
      obtain ⟨h1, h2⟩ := inter_single k _ pv p hp hVU01 hpv01 _ hS
      have hlist := unamb_list k tv (x :: xs) ih hl _ _ rest hS hS01 hrest
      -- facts about the node
      have hl' : ∀ et ∈ x :: xs, ∀ n ∈ et.2.leaves, leaf01 k tv n :=
        fun et het n hn => hl n (leaves_mem_kids (x :: xs) et het n hn)
      obtain ⟨hm, hiff⟩ := node_min k tv hk (x :: xs)
        (fun et het i hi => upS_le_one k tv et.2 (hl' et het) i hi)
        (fun et het s hs => key k tv hk et.2 (hl' et het) s hs)
      have hkey := key k tv hk (.node d pp (x :: xs)) hlc p hp.1
      have hupN : upN k tv (.node d pp (x :: xs)) = minOver k (fL k tv (x :: xs)).at := by
        simp only [upN]; omega
      have hVUat : ∀ s, s < k → ((upS k tv (.node d pp (x :: xs))).at s ≠ 0 →
          (fL k tv (x :: xs)).at s = minOver k (fL k tv (x :: xs)).at) := by
        intro s hs hne
        apply (hiff s hs).mp
        simp only [upS, cp, at_tab, hs, if_true] at hne
        split at hne <;> simp_all
      simp only [A.flat, List.map_cons, List.cons_append, labelOf, List.headD_cons,
        List.drop_succ_cons, List.drop_zero, LT.s_node, LT.changes]
      refine ⟨hlist.1, by simp [fits, hS.1, hlist.2.1], ?_⟩
      rw [hlist.2.2, hkey, hupN]
      by_cases h0 : (upS k tv (.node d pp (x :: xs))).at p = 0
      · obtain ⟨hx1, hx2⟩ := h2 h0
        have := hVUat _ hS.1 hx1
        simp [h0, hx2]; omega
      · have hxp := h1 h0
        have := hVUat p hp.1 h0
        rw [hxp]
        simp [h0]; omega

end unamb

end Gotree.C12
