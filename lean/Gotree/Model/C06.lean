/-
  C06 — model of `Tree.removeTip` (tree/tree.go:294), `Tree.RemoveTips`
  (tree/tree.go:259, with the index refresh of a345ca7) and of the option
  handling of `cmd/prune.go` (`specificTips`, priority of -f / -c / --random /
  arguments, -r).

  Go works on a pointer graph; here a node is a rose-tree node whose `neigh`
  slice is `kids` with the parent inserted at position `ppos`.  What the code
  does to `neigh`/`br` becomes:

  * `delNeighbor` of child `i`      : erase kid `i`; `ppos` drops by one when `i < ppos`;
  * `ConnectNodes(parent, child)`   : the child is appended at the END of the
                                      parent's kids, and the parent at the end of
                                      the child's `neigh` (child `ppos` = number of its kids);
  * a new root has `ppos` 0.

  Tips are addressed by name (first leaf of that name in `Tips()` order); this
  is what `RemoveTips` does for trees with unique tip names, which is a
  hypothesis of every theorem and is checked by the driver.
  Core Lean only.
-/
import Gotree.Model.Core

namespace Gotree.C06
open Gotree

/-- `math.Max` on the exact values -/
def rmax (a b : Rat) : Rat := if a ≥ b then a else b

/-- The branch made by `ConnectNodes` in case 2 of `removeTip`, after
    `SetLength`/`SetSupport` (tree.go:402-409): `NewEdge()` (everything absent,
    id -1, no comment), length `max(0,l1)+max(0,l2)` unless both absent, support
    `max(s1,s2)` unless both absent or one end is a tip. -/
def fuseEdge (e1 e2 : EdgeD) (bothInner : Bool) : EdgeD :=
  { len := if e1.len != NIL || e2.len != NIL then rmax 0 e1.len + rmax 0 e2.len else NIL,
    sup := if (e1.sup != NIL || e2.sup != NIL) && bothInner then rmax e1.sup e2.sup else NIL,
    pval := NIL, comments := [], id := -1 }

/-- `n.neigh` loses the parent and gets it back at the end (`delNeighbor` + `addChild`). -/
def reattach : T → T
  | .node d _ k => .node d k.length k

/-- `ppos` after `delNeighbor` of kid `i` -/
def pposDel (p i : Nat) : Nat := if i < p then p - 1 else p

/-- What happened to a non-root node while looking for the tip `x` below it. -/
inductive Out where
  | notFound                      -- no leaf named `x` here
  | repl (t : T)                  -- the node stays (case 3, or the change is deeper)
  | gone                          -- the node is deleted from its parent: it is the tip itself,
                                  -- or an inner node left with its parent only (chain of case 1)
  | splice (e : EdgeD) (c : T)    -- the node is left with its parent and one child `c` (branch `e`):
                                  -- case 2, the parent re-connects `c`
  deriving Inhabited

/-- Result of the search in a list of kids. -/
inductive KOut where
  | notFound
  | set (ks : Kids)                                   -- one kid replaced in place
  | del (i : Nat) (ks : Kids)                         -- kid `i` deleted, `ks` = the others
  | spl (i : Nat) (ks : Kids) (ei e : EdgeD) (c : T)  -- kid `i` (branch `ei`) deleted, `ks` = the others;
                                                      -- `c` (branch `e` below kid `i`) is to be appended
  deriving Inhabited

/-- What a non-root node `node d p _` does once the search in its kids is over. -/
def finishNode (d : NodeD) (p : Nat) : KOut → Out
  | .notFound => .notFound
  | .set ks => .repl (.node d p ks)
  | .spl i ks ei e c =>
    -- this node keeps ≥ 2 neighbours (its parent and `c`): `c` is a tip iff it has no kids
    .repl (.node d (pposDel p i) (ks ++ [(fuseEdge ei e (!c.isLeaf), c)]))
  | .del i ks =>
    match ks with
    | [] => .gone
    | [(e, c)] => .splice e (reattach c)
    | _ => .repl (.node d (pposDel p i) ks)

mutual
def rmNode (x : String) : T → Out
  | .node d _ [] => if d.name == x then .gone else .notFound
  | .node d p (k :: ks) => finishNode d p (rmKids x (k :: ks))
def rmKids (x : String) : Kids → KOut
  | [] => .notFound
  | (e, t) :: r =>
    match rmNode x t with
    | .repl t' => .set ((e, t') :: r)
    | .gone => .del 0 r
    | .splice e' c => .spl 0 r e e' c
    | .notFound =>
      match rmKids x r with
      | .notFound => .notFound
      | .set ks => .set ((e, t) :: ks)
      | .del i ks => .del (i + 1) ((e, t) :: ks)
      | .spl i ks ei e' c => .spl (i + 1) ((e, t) :: ks) ei e' c
end

inductive Err where
  | notATip          -- "Cannot remove node, it is not a tip" / "The node named … is not a tip"
  | rootTip          -- the root itself is the tip: `internal.delNeighbor(tip)` fails (tip.neigh was set to nil)
  | noNewRoot        -- case 2/3): both neighbours of the root are tips or single nodes
  | dupIndex         -- `UpdateTipIndex`: several tips have the same name
  deriving DecidableEq, Repr

/-- cases 1b, 2/3) and 3 of `removeTip` for a root left with the kids `ks` -/
def rootAfterLoss (d : NodeD) (p : Nat) : Kids → Except Err T
  | [(_, c)] => .ok (.node c.d 0 c.kids)
  | [(e0, k0), (e1, k1)] =>
    if k0.kids.length > 1 then
      .ok (.node k0.d 0 (k0.kids ++ [(fuseEdge e0 e1 (!k1.isLeaf), reattach k1)]))
    else if k1.kids.length > 1 then
      .ok (.node k1.d 0 (k1.kids ++ [(fuseEdge e0 e1 (!k0.isLeaf), reattach k0)]))
    else .error .noNewRoot
  | ks => .ok (.node d p ks)

/-- `removeTip` for the first tip named `x`; `ok t` unchanged when there is none.
    When the tip is the root itself (one neighbour), that neighbour takes its place
    (0cfc52b: `internal = tip.br[0].right; t.root = internal`) and is then handled by the
    three cases like any node that lost a neighbour. -/
def removeTip (x : String) : T → Except Err T
  | .node d p kids =>
    if kids.length == 1 && d.name == x then
      match kids with
      | [(_, c)] => rootAfterLoss c.d 0 c.kids
      | _ => .error .rootTip
    else
    match rmKids x kids with
    | .notFound => .ok (.node d p kids)
    | .set ks => .ok (.node d p ks)
    | .spl _ ks ei e c =>
      -- the root has `ks.length + 1` neighbours afterwards
      .ok (.node d p (ks ++ [(fuseEdge ei e (decide (ks.length + 1 > 1) && !c.isLeaf), c)]))
    | .del _ ks =>
      match ks with
      | [(_, c)] => .ok (.node c.d 0 c.kids)                      -- case 1b: the only child is the new root
      | [(e0, k0), (e1, k1)] =>                                   -- case 2, 3): the root is suppressed
        if k0.kids.length > 1 then
          .ok (.node k0.d 0 (k0.kids ++ [(fuseEdge e0 e1 (!k1.isLeaf), reattach k1)]))
        else if k1.kids.length > 1 then
          .ok (.node k1.d 0 (k1.kids ++ [(fuseEdge e0 e1 (!k0.isLeaf), reattach k0)]))
        else .error .noNewRoot
      | _ => .ok (.node d p ks)

/-- `removeTip` before 0cfc52b: a tip that is the root cannot be removed
    (`internal.delNeighbor(tip)` searched the tip in its own emptied neighbour list). -/
def removeTipPinnedRootTip (x : String) (t : T) : Except Err T :=
  if t.kids.length == 1 && t.name == x then .error .rootTip else removeTip x t

/-- The loop of `RemoveTips` over the tip list computed once: every listed tip,
    removed or not, must still have exactly one neighbour when its turn comes
    (tree.go:267: the test comes before the look-up of the name). -/
def removeLoop : List (String × Bool) → T → Except Err T
  | [], t => .ok t
  | (n, rm) :: r, t =>
    if !(t.tipNames.contains n) then .error .notATip else
    if rm then
      match removeTip n t with
      | .ok t' => removeLoop r t'
      | .error e => .error e
    else removeLoop r t

/-- `removeTip(tip, rooted)` since 50ed682: `rooted` is `Tree.Rooted()` of the tree `RemoveTips`
    was called on; the only difference with `removeTip` (= `rooted` false) is that a root left with two
    neighbours is kept (`len(internal.neigh) == 2 && !(rooted && internal == t.Root())`), so the root
    of a rooted input is never suppressed. -/
def removeTipR (rooted : Bool) (x : String) (t : T) : Except Err T :=
  if !rooted then removeTip x t else
  match t with
  | .node d p kids =>
    if kids.length == 1 && d.name == x then
      match kids with
      | [(_, c)] =>
        (match c.kids with
         | [a, b] => .ok (.node c.d 0 [a, b])
         | ks => rootAfterLoss c.d 0 ks)
      | _ => .error .rootTip
    else
      match rmKids x kids with
      | .del _ [a, b] => .ok (.node d p [a, b])
      | _ => removeTip x (.node d p kids)

/-- `removeTip` before 50ed682 (no `rooted` argument): a trifurcating node that had become the root
    of a rooted input was suppressed when it lost a child -/
def removeTipPinnedUnrootedOnly (x : String) (t : T) : Except Err T := removeTip x t

/-- the loop of `RemoveTips` with the flag computed once before the loop -/
def removeLoopR (rooted : Bool) : List (String × Bool) → T → Except Err T
  | [], t => .ok t
  | (n, rm) :: r, t =>
    if !(t.tipNames.contains n) then .error .notATip else
    if rm then
      match removeTipR rooted n t with
      | .ok t' => removeLoopR rooted r t'
      | .error e => .error e
    else removeLoopR rooted r t

/-- which tips `RemoveTips(revert, names…)` removes, in `Tips()` order -/
def toRemove (t : T) (names : List String) (rev : Bool) : List String :=
  t.tipNames.filter fun n => names.contains n != rev

/-- the tip list with the decision taken for each tip -/
def workList (t : T) (names : List String) (rev : Bool) : List (String × Bool) :=
  t.tipNames.map fun n => (n, names.contains n != rev)

def sortNames (l : List String) : List String := l.mergeSort (fun a b => decide (a ≤ b))

/-- The tip index (`Tree.tipIndex`) as the list of its keys in `tipid` order. -/
abbrev Index := List String

def hasDup : List String → Bool
  | [] => false
  | a :: r => r.contains a || hasDup r

/-- `UpdateTipIndex` -/
def updateTipIndex (t : T) : Except Err Index :=
  if hasDup t.tipNames then .error .dupIndex else .ok (sortNames t.tipNames)

/-- `RemoveTips` (current code: the index is refreshed; `rooted := t.Rooted()` before the loop). -/
def removeTips (rev : Bool) (names : List String) (t : T) : Except Err (T × Index) :=
  match removeLoopR t.rooted (workList t names rev) t with
  | .error e => .error e
  | .ok t' =>
    match updateTipIndex t' with
    | .error e => .error e
    | .ok ix => .ok (t', ix)

/-- `RemoveTips` before a345ca7 (F12): the index is left as it was. -/
def removeTipsPinned (rev : Bool) (names : List String) (t : T) (ix : Index) : Except Err (T × Index) :=
  match removeLoop (workList t names rev) t with
  | .error e => .error e
  | .ok t' => .ok (t', ix)

/- ## index look-ups -/

def existsTip (ix : Index) (name : String) : Option Bool :=
  if ix.isEmpty then none else some (ix.contains name)

def nbTips (ix : Index) : Option Nat := if ix.isEmpty then none else some ix.length

def tipIndexOf (ix : Index) (name : String) : Option Nat :=
  if ix.contains name then some (ix.idxOf name) else none

/- ## cmd/prune.go -/

/-- names of the nodes with one neighbour, in `Nodes()` order -/
def nodeTipNames (t : T) : List String := t.tipNames

/-- `specificTips(ref, comp)`: tips of `ref` whose name is no tip name of `comp`. -/
def specificTips (ref comp : T) : List String :=
  (nodeTipNames ref).filter fun n => !(nodeTipNames comp).contains n

/-- The flags of `gotree prune` that decide which names go to `RemoveTips`. -/
structure PruneFlags where
  tipfile : Option (List String)   -- `-f`: the names read from the file
  comp : Option T                  -- `-c`
  random : Int                     -- `--random`
  args : List String
  revert : Bool

/-- which source of names wins (`RunE`, prune.go:130-140) -/
inductive Source | file | comp | random | args
  deriving DecidableEq, Repr

def PruneFlags.source (f : PruneFlags) : Source :=
  if f.tipfile.isSome then .file
  else if f.comp.isSome then .comp
  else if f.random > 0 then .random
  else .args

/-- the names handed to `RemoveTips`; `sampled` is what `randomTips` returned -/
def PruneFlags.names (f : PruneFlags) (ref : T) (sampled : List String) : List String :=
  match f.tipfile, f.comp with
  | some l, _ => l
  | none, some c => specificTips ref c
  | none, none => if f.random > 0 then sampled else f.args

def prune (f : PruneFlags) (ref : T) (sampled : List String) : Except Err (T × Index) :=
  removeTips f.revert (f.names ref sampled) ref

/-- `RunE` over the trees of the input (file or stdin), prune.go:125-147: the trees are pruned
    in order with the same flags (the file of `-f` and the tree of `-c` are read once, the names
    of `-c` and `--random` are recomputed for every tree), each result is written (`-o` file or
    stdout, one Newick line per tree) before the next tree is looked at; the first failure stops
    the command with a non-zero exit code and the results already written stay.
    `samples` = what `randomTips` returned for each tree. -/
def pruneAll (f : PruneFlags) : List T → List (List String) → List T × Option Err
  | [], _ => ([], none)
  | ref :: rest, samples =>
    match prune f ref (samples.headD []) with
    | .error e => ([], some e)
    | .ok (t', _) =>
      let r := pruneAll f rest samples.tail
      (t' :: r.1, r.2)

/- ## the tip file of `-f` (cmd/root.go:182 `parseStringFile`, :146 `Readln`) -/

/-- `bufio.Reader.ReadLine` drops the "\r" of a "\r\n" line end -/
def stripCR (l : String) : String :=
  match l.toList.reverse with
  | '\r' :: r => String.ofList r.reverse
  | _ => l

/-- The names `parseTipsFile` delivers: the lines of the file (a last line without line end
    counts, an empty one does not), each split at ','; nothing is trimmed, an empty line gives
    the empty name. -/
def tipFileNames (content : String) : List String :=
  let pieces := content.splitOn "\n"
  let lines := pieces.dropLast.map stripCR ++ (match pieces.getLast? with
    | some "" => []
    | some l => [l]
    | none => [])
  lines.flatMap fun l => l.splitOn ","

end Gotree.C06
