/-
  C12 — ACCTRAN with random resolution is sound: the parent hands down a non-empty set of optimal
  states (`ParOK`), resolution keeps a non-empty subset of it, and `acc_step` does the rest.
-/
import Gotree.Lemmas.C12R

namespace Gotree.C12
open Gotree

section accr
variable (k : Nat) (tv : String → Vec)

theorem parOK_resolve (MIN : Nat) (S totc : Vec) (st : List Nat) (h : ParOK k MIN S totc) :
    ParOK k MIN (resolve k S st).1 totc :=
  ⟨resolve_01 k S st h.h01, resolve_nz k S st h.hne,
   fun p hp hne => h.hopt p hp (resolve_sub k S st p hp hne), h.hmin⟩

def PAR (MIN : Nat) (c : T) : Prop :=
  ∀ (pv totv R U : Vec) (st : List Nat), ParOK k MIN pv totv →
    (∀ s, s < k → U.at s = (through k R).at s) →
    (∀ t, t < k → R.at t + (gv k tv c).at t = totv.at t) →
    (∀ n ∈ c.leaves, leaf01 k tv n) →
    ∀ (p : List Nat) (vec tot : Vec), (acctranR k (some pv) (upA k tv c) st).1.get p = some vec →
      (totA k tv U c).get p = some tot → innerAt c p = true →
      ∀ s, s < k → vec.at s ≠ 0 → tot.at s = MIN

theorem accR_list (MIN : Nat) : ∀ (ks : Kids), (∀ et ∈ ks, PAR k tv MIN et.2) →
    (∀ n ∈ leavesL ks, leaf01 k tv n) →
    ∀ (Uv pre S totv : Vec) (st : List Nat), ParOK k MIN S totv →
    (∀ t, t < k → totv.at t = Uv.at t + pre.at t + (fL k tv ks).at t) →
    ∀ (i : Nat) (q : List Nat) (vec tot : Vec),
      A.getL (acctranRL k (some S) (upAL k tv ks) st).1 i q = some vec →
      A.getL (totL k tv Uv pre ks) i q = some tot → innerOpt (subL ks i q) = true →
      ∀ s, s < k → vec.at s ≠ 0 → tot.at s = MIN
  | [], _, _, _, _, _, _, _, _, _, _, _, _, _, h, _, _ => by simp [upAL, acctranRL, A.getL] at h
  | (e, c) :: rest, ih, hl, Uv, pre, S, totv, st, hpar, hinv, 0, q, vec, tot, h, hg, hin => by
    simp only [upAL, acctranRL, A.getL] at h
    simp only [totL, A.getL] at hg
    simp only [subL] at hin
    refine ih (e, c) (List.mem_cons_self ..) S totv (vadd k Uv (vadd k pre (fL k tv rest))) _ st hpar
      (fun s _ => rfl) ?_ (fun n hn => hl n (by simp only [leavesL, List.mem_append]; exact Or.inl hn))
      q vec tot h hg (by simpa [innerAt] using hin)
    intro t ht
    have := hinv t ht
    simp only [fL, at_vadd, ht, if_true] at this ⊢
    omega
  | (e, c) :: rest, ih, hl, Uv, pre, S, totv, st, hpar, hinv, i + 1, q, vec, tot, h, hg, hin => by
    simp only [upAL, acctranRL, A.getL] at h
    simp only [totL, A.getL] at hg
    simp only [subL] at hin
    refine accR_list MIN rest (fun et het => ih et (List.mem_cons_of_mem _ het))
      (fun n hn => hl n (by simp only [leavesL, List.mem_append]; exact Or.inr hn))
      Uv (vadd k pre (gv k tv c)) S totv _ hpar ?_ i q vec tot h hg hin
    intro t ht
    have := hinv t ht
    simp only [fL, at_vadd, ht, if_true] at this ⊢
    omega

theorem accR_tree (hk : 0 < k) (MIN : Nat) : ∀ c : T, PAR k tv MIN c := by
  intro c
  induction c using T.induct with
  | h d pp ks ih =>
    intro pv totv R U st hpar hU hR hl p vec tot h hg hin
    match ks, ih, hR, hl, p, h, hg, hin with
    | [], _, _, _, [], _, _, hin => simp [innerAt, innerOpt, sub] at hin
    | [], _, _, _, i :: q, _, _, hin => simp [innerAt, innerOpt, sub, subL] at hin
    | (e0, c0) :: xs, ih, hR, hl, p, h, hg, hin =>
      rw [leaves_node_cons] at hl
      have hstep := acc_step k tv hk d pp (e0, c0) xs hl MIN pv totv R U hpar hU hR
      have hres := parOK_resolve k MIN _ _ st hstep
      match p, h, hg, hin with
      | [], h, hg, _ =>
        simp only [upA, upAL, acctranR, A.get, Option.some.injEq] at h
        simp only [totA, A.get, Option.some.injEq] at hg
        subst h; subst hg
        exact fun s hs hne => hres.hopt s hs hne
      | i :: q, h, hg, hin =>
        simp only [upA, upAL, acctranR, A.get] at h
        simp only [totA, A.get] at hg
        refine accR_list k tv MIN ((e0, c0) :: xs) ih hl U (vzero k) _ _ _ hres ?_ i q vec tot
          (by simpa only [upAL] using h) hg (by simpa [innerAt, sub] using hin)
        intro t ht
        simp only [at_vadd, at_vzero, ht, if_true]
        omega

end accr

end Gotree.C12
