package c15

import (
	"bytes"
	"compress/gzip"
	"fmt"
	"os"
	"strings"
	"time"

	"verifharness/core"
)

// Whole-input command cases (round 7): `gotree repopulate` with its group file as raw text (plain,
// CRLF, no final newline, blank lines, a line with a single name), with `-g` absent or naming a file
// that does not exist, and — like `collapse single` and `subtree` — on an input file of SEVERAL trees.
// Lean side: Model/C15Cmd.lean (readGroupFile, cliRepopulateFile, cliCollapseSingleAll, cliSubtreeAll),
// ops C15.repop and C15.gluem.  Oracle of C15.repop (no model needed): groups with exactly one existing
// member in EVERY tree of the input are accepted for every tree and each printed tree has exactly the
// requested tips at distance 0 from their models, all other distances unchanged.

// runMulti runs the binary; returns the outcome class and the α dumps of the printed trees ("|"-terminated).
func runMulti(c *core.Ctx, args ...string) (string, string) {
	r := c.RunCLI("", 20*time.Second, args...)
	if r.Timeout {
		return "panic:timeout", ""
	}
	if strings.Contains(r.Stderr, "panic:") || strings.Contains(r.Stderr, "goroutine ") {
		return "panic:" + core.Escape(firstLine(r.Stderr)), ""
	}
	oc := "ok"
	if r.Exit != 0 {
		oc = "err"
	}
	var b strings.Builder
	for _, l := range strings.Split(r.Stdout, "\n") {
		l = strings.TrimSpace(l)
		if l == "" {
			continue
		}
		if r.Exit != 0 && !(strings.HasPrefix(l, "(") && strings.HasSuffix(l, ";")) {
			break // cobra prints the error and the usage on stdout after the trees printed so far
		}
		t, err := parseNewick(l)
		if err != nil || t == nil {
			return "panic:" + core.Escape("unreadable output: "+firstLine(l)), ""
		}
		d, wf := read(t)
		if wf != "" {
			return "panic:" + core.Escape(wf), ""
		}
		b.WriteString(d + "|")
	}
	return oc, b.String()
}

// asReadAll writes the trees one per line; returns the file content and the "|"-terminated α dumps as read.
func asReadAll(ns []*core.N) (string, string, []*core.N, bool) {
	var txt, dumps strings.Builder
	var back []*core.N
	for _, n := range ns {
		t, m, ok := asRead(n)
		if !ok {
			return "", "", nil, false
		}
		txt.WriteString(t + "\n")
		dumps.WriteString(m.Dump() + "|")
		back = append(back, m)
	}
	return txt.String(), dumps.String(), back, true
}

func doRepop(c *core.Ctx, gmode, gtext, intended string, ns []*core.N) {
	txt, dumps, _, ok := asReadAll(ns)
	if !ok {
		return
	}
	args := []string{"repopulate", "-i", c.TmpFile(txt)}
	switch gmode {
	case "file":
		args = append(args, "-g", c.TmpFile(gtext))
	case "missing":
		args = append(args, "-g", c.TmpFile("")+".does-not-exist")
	case "gz": // the .gz branch of readIdenticalGroupFile: gtext is what the file holds once decompressed
		var buf bytes.Buffer
		w := gzip.NewWriter(&buf)
		w.Write([]byte(gtext))
		w.Close()
		path := c.TmpFile("") + ".gz"
		if err := os.WriteFile(path, buf.Bytes(), 0644); err != nil {
			panic(err)
		}
		args = append(args, "-g", path)
	case "fakegz": // a .gz name on plain text: gzip.NewReader fails, the error is overwritten like os.Open's
		path := c.TmpFile("") + ".gz"
		if err := os.WriteFile(path, []byte(gtext), 0644); err != nil {
			panic(err)
		}
		args = append(args, "-g", path)
	}
	oc, outs := runMulti(c, args...)
	c.Emit("C15.repop", gmode, core.Escape(gtext), intended, dumps, oc, outs)
}

func doGlueMulti(c *core.Ctx, cmd, arg string, ns []*core.N) {
	txt, dumps, _, ok := asReadAll(ns)
	if !ok {
		return
	}
	var oc, outs string
	switch cmd {
	case "collapsesingle":
		oc, outs = runMulti(c, "collapse", "single", "-i", c.TmpFile(txt))
	case "subtree":
		oc, outs = runMulti(c, "subtree", "-i", c.TmpFile(txt), "-n", "^"+arg+"$")
	default:
		panic("C15.gluem: " + cmd)
	}
	c.Emit("C15.gluem", cmd, core.Escape(arg), dumps, oc, outs)
}

func common(ns []*core.N) []string {
	count := map[string]int{}
	for _, n := range ns {
		for _, s := range n.TipNames() {
			count[s]++
		}
	}
	var out []string
	for _, s := range ns[0].TipNames() {
		if count[s] == len(ns) {
			out = append(out, s)
		}
	}
	return out
}

func cmdCases(c *core.Ctx) {
	g := c.G
	nt := 1 + g.Intn(3)
	var ns []*core.N
	for i := 0; i < nt; i++ {
		n := cliOpts(g, "t", 2)
		ns = append(ns, n)
	}
	switch k := g.Intn(10); {
	case k < 7: // repopulate
		_, _, back, ok := asReadAll(ns)
		if !ok {
			return
		}
		tips := common(back)
		if len(tips) == 0 {
			return
		}
		perm := g.R.Perm(len(tips))
		var groups [][]string
		fresh := 0
		for i := 0; i < 1+g.Intn(3) && i < len(tips); i++ {
			grp := []string{tips[perm[i]]}
			for j := 0; j < g.Intn(4); j++ { // 0 new names: a line with the existing member only
				grp = append(grp, fmt.Sprintf("n%d", fresh))
				fresh++
			}
			if g.Chance(0.3) && len(grp) > 1 { // the existing member is not the first of its line
				grp[0], grp[len(grp)-1] = grp[len(grp)-1], grp[0]
			}
			groups = append(groups, grp)
		}
		gmode, intended := "file", ""
		switch g.Intn(12) {
		case 0:
			gmode = "none"
		case 1:
			gmode = "missing"
		case 2:
			if len(tips) >= 2 {
				groups[0] = append(groups[0], tips[perm[len(tips)-1]]) // two existing members
			}
		case 3:
			groups = append(groups, []string{"z1", "z2"}) // no existing member
		case 5, 6:
			// the existing member of the last group is a tip of the FIRST tree only: the earlier trees are
			// printed, then the command fails
			if len(back) >= 2 {
				in := map[string]bool{}
				for _, s := range back[len(back)-1].TipNames() {
					in[s] = true
				}
				for _, s := range back[0].TipNames() {
					if !in[s] {
						groups = append(groups, []string{s, "q0"})
						break
					}
				}
			}
		case 4:
			if len(groups) >= 1 && len(groups[0]) >= 2 { // a later group names a tip inserted by an earlier one
				for _, nm := range groups[0] {
					if strings.HasPrefix(nm, "n") {
						groups = append(groups, []string{nm, "m0"})
						break
					}
				}
			}
		}
		// a line longer than bufio's 4096-byte buffer (Readln's isPrefix loop), lengths around the boundary
		// included: the last new name of some group is padded
		fullLast := false // aim at the unterminated last line that fills bufio's buffer exactly (finding of round 7b)
		if g.Chance(0.15) {
			for gi, grp := range groups {
				last := len(grp) - 1
				if len(grp) >= 2 && strings.HasPrefix(grp[last], "n") {
					target := []int{4095, 4096, 4097, 6000, 8192, 8193}[g.Intn(6)]
					if pad := target - len(strings.Join(grp, ",")); pad > 0 {
						groups[gi][last] = grp[last] + strings.Repeat("x", pad)
					}
					if target%4096 == 0 && g.Chance(0.6) {
						groups[gi], groups[len(groups)-1] = groups[len(groups)-1], groups[gi]
						fullLast = true
					}
					break
				}
			}
		}
		var lines []string
		for _, grp := range groups {
			lines = append(lines, strings.Join(grp, ","))
		}
		gtext := strings.Join(lines, "\n") + "\n"
		intended = core.StrLists(groups)
		spell := g.Intn(10)
		if fullLast {
			spell = 2
		}
		switch spell {
		case 0, 1:
			gtext = strings.Join(lines, "\r\n") + "\r\n"
		case 2, 3:
			gtext = strings.Join(lines, "\n") // no final newline
		case 4:
			gtext += "\n" // a blank last line: the group [""]
			intended = "-"
		case 5:
			if len(lines) >= 2 {
				gtext = lines[0] + "\n\n" + strings.Join(lines[1:], "\n") + "\n"
				intended = "-"
			}
		case 6:
			if g.Chance(0.3) {
				gtext = "" // an empty file: no group
				intended = core.StrLists(nil)
			}
		}
		if gmode != "file" {
			gtext, intended = "", "-"
		} else if k := g.Intn(10); k <= 1 {
			gmode = "gz"
		} else if k == 2 {
			gmode, intended = "fakegz", "-"
		}
		doRepop(c, gmode, gtext, intended, ns)
	case k < 9: // collapse single on several trees
		for _, n := range ns {
			o := opts(g)
			addSingles(g, &o, n, 0.25)
			stripComments(n)
			core.NumberEdges(n)
		}
		doGlueMulti(c, "collapsesingle", "", ns)
	default: // subtree on several trees: some with one inner match, some with none, some with two
		for _, n := range ns {
			var inner [][]int
			for _, q := range n.Paths() {
				if len(q) > 0 && len(n.At(q).Kids) > 0 {
					inner = append(inner, q)
				}
			}
			switch r := g.Intn(4); {
			case r == 0 || len(inner) == 0:
			case r == 1 && len(inner) >= 2:
				n.At(inner[0]).Name = "SUBX"
				n.At(inner[len(inner)-1]).Name = "SUBX"
			default:
				n.At(inner[g.Intn(len(inner))]).Name = "SUBX"
			}
		}
		doGlueMulti(c, "subtree", "SUBX", ns)
	}
}

func replayCmd(c *core.Ctx, f []string) bool {
	dumps := func(s string) []*core.N {
		var ns []*core.N
		for _, d := range strings.Split(s, "|") {
			if d != "" {
				ns = append(ns, mustDump(d))
			}
		}
		return ns
	}
	switch {
	case f[0] == "C15.repop" && len(f) >= 5:
		gtext, _ := core.Unescape(f[2])
		doRepop(c, f[1], gtext, f[3], dumps(f[4]))
		return true
	case f[0] == "C15.gluem" && len(f) >= 4:
		arg, _ := core.Unescape(f[2])
		doGlueMulti(c, f[1], arg, dumps(f[3]))
		return true
	}
	return false
}

// replayGlue re-runs a recorded C15.glue case (cmd, a, b, c) on the binary and emits a fresh case line.
func replayGlue(c *core.Ctx, f []string) bool {
	if f[0] != "C15.glue" || len(f) < 5 {
		return false
	}
	txt, a, ok := asRead(mustDump(f[2]))
	if !ok {
		return true
	}
	switch f[1] {
	case "graft":
		tip, _ := core.Unescape(f[3])
		gtxt, gr, ok2 := asRead(mustDump(f[4]))
		if !ok2 {
			return true
		}
		oc, out := runGlue(c, "graft", "-i", c.TmpFile(txt+"\n"), "-c", c.TmpFile(gtxt+"\n"), "-l", tip)
		c.Emit("C15.glue", "graft", a.Dump(), core.Escape(tip), gr.Dump(), oc, out)
	case "merge":
		t2, b, ok2 := asRead(mustDump(f[3]))
		if !ok2 {
			return true
		}
		oc, out := runGlue(c, "merge", "-i", c.TmpFile(txt+"\n"), "-c", c.TmpFile(t2+"\n"))
		c.Emit("C15.glue", "merge", a.Dump(), b.Dump(), "", oc, out)
	case "repopulate":
		groups := parseStrLists(f[3])
		var lines []string
		for _, grp := range groups {
			lines = append(lines, strings.Join(grp, ","))
		}
		oc, out := runGlue(c, "repopulate", "-i", c.TmpFile(txt+"\n"), "-g", c.TmpFile(strings.Join(lines, "\n")+"\n"))
		c.Emit("C15.glue", "repopulate", a.Dump(), core.StrLists(groups), "", oc, out)
	case "collapsesingle":
		oc, out := runGlue(c, "collapse", "single", "-i", c.TmpFile(txt+"\n"))
		c.Emit("C15.glue", "collapsesingle", a.Dump(), "", "", oc, out)
	case "subtree":
		name, _ := core.Unescape(f[3])
		oc, out := runGlue(c, "subtree", "-i", c.TmpFile(txt+"\n"), "-n", "^"+name+"$")
		c.Emit("C15.glue", "subtree", a.Dump(), core.Escape(name), "", oc, out)
	default:
		return false
	}
	return true
}
