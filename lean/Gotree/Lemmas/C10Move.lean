/-
  C10 lemmas, part G: a concrete family for the presentation hypotheses — the
  one-edge root move (what `Reroot` does one step away; same function as
  `C05.moveRoot`, restated here so that C10 depends on no other property) and a
  reordering of the root's children give a tree with the same set of splits.
-/
import Gotree.Lemmas.C10Oracle

namespace Gotree.C10
open Gotree

/-- child `i` of the root becomes the root; the old root becomes its child at position `pc` -/
def rootMove : T → Nat → T
  | .node d p kids, i =>
    match kids[i]? with
    | none => .node d p kids
    | some (e, .node dc pc kc) =>
      .node dc 0 (kc.take pc ++ (e, .node d i (kids.eraseIdx i)) :: kc.drop pc)

theorem splitsL_append : ∀ (a b : Kids), splitsL (a ++ b) = splitsL a ++ splitsL b
  | [], _ => rfl
  | (e, t) :: a, b => by simp [splitsL, splitsL_append a b]

theorem leavesL_append : ∀ (a b : Kids), leavesL (a ++ b) = leavesL a ++ leavesL b
  | [], _ => rfl
  | (e, t) :: a, b => by simp [leavesL, leavesL_append a b]

theorem leaves_of_kids (d : NodeD) (p : Nat) (k : Kids) (h : k ≠ []) : (T.node d p k).leaves = leavesL k := by
  cases k with
  | nil => exact absurd rfl h
  | cons a b => rfl

theorem sameSplit_refl (all a : List String) : sameSplit all a a = true := by
  rw [sameSplit_iff]; left; intro x; exact Iff.rfl

theorem splitsEquiv_of {all : List String} {b b' : T}
    (h1 : ∀ s ∈ b.splits, ∃ s' ∈ b'.splits, sameSplit all s.below s'.below = true)
    (h2 : ∀ s' ∈ b'.splits, ∃ s ∈ b.splits, sameSplit all s'.below s.below = true) :
    splitsEquiv all b b' = true := by
  simp only [splitsEquiv, Bool.and_eq_true, List.all_eq_true, List.any_eq_true]
  exact ⟨h1, h2⟩

/-- a list split around position `i` -/
theorem split_at {α : Type} (l : List α) (i : Nat) (x : α) (h : l[i]? = some x) :
    l = l.take i ++ x :: l.drop (i + 1) ∧ l.eraseIdx i = l.take i ++ l.drop (i + 1) := by
  induction l generalizing i with
  | nil => simp at h
  | cons a l ih =>
    cases i with
    | zero => simp at h; simp [h]
    | succ j =>
      have := ih j (by simpa using h)
      simp only [List.take_succ_cons, List.drop_succ_cons, List.cons_append, List.eraseIdx_cons_succ]
      exact ⟨by rw [← this.1], by rw [this.2]⟩

/-- ★ the one-edge root move keeps the set of splits -/
theorem rootMove_splitsEquiv (d : NodeD) (p : Nat) (kids : Kids) (i : Nat) (e : EdgeD) (dc : NodeD)
    (pc : Nat) (kc : Kids) (hi : kids[i]? = some (e, .node dc pc kc)) (hkc : kc ≠ [])
    (hk : kids.length ≠ 1) (hn : (leavesL kids).Nodup) :
    splitsEquiv (leavesL kids) (.node d p kids) (rootMove (.node d p kids) i) = true := by
  obtain ⟨hsplit, herase⟩ := split_at kids i _ hi
  -- the other children of the old root
  have hK' : kids.eraseIdx i ≠ [] := by
    intro h0
    have : (kids.eraseIdx i).length = 0 := by rw [h0]; rfl
    rw [List.length_eraseIdx] at this
    have hlt : i < kids.length := by
      rcases Nat.lt_or_ge i kids.length with h | h
      · exact h
      · rw [List.getElem?_eq_none h] at hi; cases hi
    simp [hlt] at this; omega
  have hnew : rootMove (.node d p kids) i =
      .node dc 0 (kc.take pc ++ (e, .node d i (kids.eraseIdx i)) :: kc.drop pc) := by
    simp [rootMove, hi]
  rw [hnew]
  -- leaves
  have hall : leavesL kids = leavesL (kids.take i) ++ (leavesL kc ++ leavesL (kids.drop (i + 1))) := by
    conv => lhs; rw [hsplit]
    rw [leavesL_append]
    simp [leavesL, leaves_of_kids dc pc kc hkc]
  have hRl : (T.node d i (kids.eraseIdx i)).leaves =
      leavesL (kids.take i) ++ leavesL (kids.drop (i + 1)) := by
    rw [leaves_of_kids _ _ _ hK', herase, leavesL_append]
  have hCl : (T.node dc pc kc).leaves = leavesL kc := leaves_of_kids dc pc kc hkc
  -- the two special entries are complementary
  rw [hall] at hn
  have hcompl : sameSplit (leavesL kids) (leavesL kc)
      (leavesL (kids.take i) ++ leavesL (kids.drop (i + 1))) = true := by
    rw [sameSplit_iff]; right
    intro x
    rw [hall]
    simp only [List.mem_append]
    rw [List.nodup_append] at hn
    obtain ⟨_, hn2, hd1⟩ := hn
    rw [List.nodup_append] at hn2
    obtain ⟨_, _, hd2⟩ := hn2
    constructor
    · intro hx
      refine ⟨Or.inr (Or.inl hx), ?_⟩
      rintro (h | h)
      · exact hd1 x h x (List.mem_append.2 (Or.inl hx)) rfl
      · exact hd2 x hx x h rfl
    · rintro ⟨h | h | h, hnot⟩
      · exact absurd (Or.inl h) hnot
      · exact h
      · exact absurd (Or.inr h) hnot
  have hsub2 : ∀ x ∈ leavesL (kids.take i) ++ leavesL (kids.drop (i + 1)), x ∈ leavesL kids := by
    intro x hx; rw [hall]
    rcases List.mem_append.1 hx with h | h
    · exact List.mem_append.2 (Or.inl h)
    · exact List.mem_append.2 (Or.inr (List.mem_append.2 (Or.inr h)))
  -- membership in the two split lists
  have hold : ∀ s, s ∈ (T.node d p kids).splits ↔
      (s ∈ splitsL (kids.take i) ∨ s ∈ splitsL (kids.drop (i + 1))) ∨
      s = ⟨leavesL kc, e, (T.node dc pc kc).isLeaf⟩ ∨ s ∈ splitsL kc := by
    intro s
    have : (T.node d p kids).splits = splitsL (kids.take i) ++
        (⟨(T.node dc pc kc).leaves, e, (T.node dc pc kc).isLeaf⟩ :: (splitsL kc ++ splitsL (kids.drop (i + 1)))) := by
      unfold T.splits
      simp only [T.kids_node]
      conv => lhs; rw [hsplit]
      rw [splitsL_append]
      simp [splitsL, T.splitsBelow]
    rw [this, hCl]
    simp only [List.mem_append, List.mem_cons]
    constructor
    · rintro (h | h | h | h)
      · exact Or.inl (Or.inl h)
      · exact Or.inr (Or.inl h)
      · exact Or.inr (Or.inr h)
      · exact Or.inl (Or.inr h)
    · rintro ((h | h) | h | h)
      · exact Or.inl h
      · exact Or.inr (Or.inr (Or.inr h))
      · exact Or.inr (Or.inl h)
      · exact Or.inr (Or.inr (Or.inl h))
  have hnewm : ∀ s, s ∈ (T.node dc 0 (kc.take pc ++ (e, .node d i (kids.eraseIdx i)) :: kc.drop pc)).splits ↔
      (s ∈ splitsL (kids.take i) ∨ s ∈ splitsL (kids.drop (i + 1))) ∨
      s = ⟨leavesL (kids.take i) ++ leavesL (kids.drop (i + 1)), e, (T.node d i (kids.eraseIdx i)).isLeaf⟩ ∨
      s ∈ splitsL kc := by
    intro s
    have hkc' : splitsL kc = splitsL (kc.take pc) ++ splitsL (kc.drop pc) := by
      rw [← splitsL_append, List.take_append_drop]
    have hRl' := hRl
    rw [herase] at hRl'
    unfold T.splits
    simp only [T.kids_node]
    rw [splitsL_append, hkc']
    simp only [splitsL, T.splitsBelow, herase, hRl', splitsL_append, List.mem_append, List.mem_cons]
    constructor
    · rintro (h | h | (h | h) | h)
      · exact Or.inr (Or.inr (Or.inl h))
      · exact Or.inr (Or.inl h)
      · exact Or.inl (Or.inl h)
      · exact Or.inl (Or.inr h)
      · exact Or.inr (Or.inr (Or.inr h))
    · rintro ((h | h) | h | h | h)
      · exact Or.inr (Or.inr (Or.inl (Or.inl h)))
      · exact Or.inr (Or.inr (Or.inl (Or.inr h)))
      · exact Or.inr (Or.inl h)
      · exact Or.inl h
      · exact Or.inr (Or.inr (Or.inr h))
  apply splitsEquiv_of
  · intro s hs
    rcases (hold s).1 hs with h | h | h
    · exact ⟨s, (hnewm s).2 (Or.inl h), sameSplit_refl _ _⟩
    · refine ⟨_, (hnewm _).2 (Or.inr (Or.inl rfl)), ?_⟩
      rw [h]; exact hcompl
    · exact ⟨s, (hnewm s).2 (Or.inr (Or.inr h)), sameSplit_refl _ _⟩
  · intro s hs
    rcases (hnewm s).1 hs with h | h | h
    · exact ⟨s, (hold s).2 (Or.inl h), sameSplit_refl _ _⟩
    · refine ⟨_, (hold _).2 (Or.inr (Or.inl rfl)), ?_⟩
      rw [h]; exact sameSplit_symm hsub2 hcompl
    · exact ⟨s, (hold s).2 (Or.inr (Or.inr h)), sameSplit_refl _ _⟩

theorem splitsEquiv_congr_all {all all' : List String} (b b' : T) (h : ∀ x, x ∈ all ↔ x ∈ all') :
    splitsEquiv all b b' = splitsEquiv all' b b' := by
  unfold splitsEquiv
  simp only [sameSplit_congr_all h]

theorem splitsEquiv_refl (all : List String) (b : T) : splitsEquiv all b b = true :=
  splitsEquiv_of (fun s hs => ⟨s, hs, sameSplit_refl _ _⟩) (fun s hs => ⟨s, hs, sameSplit_refl _ _⟩)

theorem repres_refl (all : List String) : ∀ (bs : List T), Repres all bs bs
  | [] => trivial
  | b :: bs => ⟨splitsEquiv_refl all b, repres_refl all bs⟩

/-- the tips of the moved tree are the tips of the tree, in another order -/
theorem rootMove_leaves (d : NodeD) (p : Nat) (kids : Kids) (i : Nat) (e : EdgeD) (dc : NodeD)
    (pc : Nat) (kc : Kids) (hi : kids[i]? = some (e, .node dc pc kc)) (hkc : kc ≠ [])
    (hk : kids.length ≠ 1) :
    (rootMove (.node d p kids) i).kids.length ≠ 1 ∧
    (leavesL (rootMove (.node d p kids) i).kids).Perm (leavesL kids) := by
  obtain ⟨hsplit, herase⟩ := split_at kids i _ hi
  have hK' : kids.eraseIdx i ≠ [] := by
    intro h0
    have : (kids.eraseIdx i).length = 0 := by rw [h0]; rfl
    rw [List.length_eraseIdx] at this
    have hlt : i < kids.length := by
      rcases Nat.lt_or_ge i kids.length with h | h
      · exact h
      · rw [List.getElem?_eq_none h] at hi; cases hi
    simp [hlt] at this; omega
  have hnew : rootMove (.node d p kids) i =
      .node dc 0 (kc.take pc ++ (e, .node d i (kids.eraseIdx i)) :: kc.drop pc) := by
    simp [rootMove, hi]
  rw [hnew]
  simp only [T.kids_node]
  constructor
  · have hpos : 0 < kc.length := List.length_pos_iff.2 hkc
    simp only [List.length_append, List.length_cons, List.length_take, List.length_drop]
    omega
  · have hold : leavesL kids = leavesL (kids.take i) ++ (leavesL kc ++ leavesL (kids.drop (i + 1))) := by
      conv => lhs; rw [hsplit]
      rw [leavesL_append]
      simp [leavesL, leaves_of_kids dc pc kc hkc]
    have hkc' : leavesL kc = leavesL (kc.take pc) ++ leavesL (kc.drop pc) := by
      rw [← leavesL_append, List.take_append_drop]
    rw [hold, hkc', leavesL_append]
    have hK'' : kids.take i ++ kids.drop (i + 1) ≠ [] := by rw [← herase]; exact hK'
    simp only [leavesL, herase, leaves_of_kids _ _ _ hK'', leavesL_append, List.append_nil]
    -- B1 ++ ((A ++ C) ++ B2)  ~  A ++ ((B1 ++ B2) ++ C)
    generalize leavesL (kids.take i) = A
    generalize leavesL (kids.drop (i + 1)) = C
    generalize leavesL (kc.take pc) = B1
    generalize leavesL (kc.drop pc) = B2
    have s1 : (B1 ++ ((A ++ C) ++ B2)).Perm (B1 ++ (B2 ++ (A ++ C))) :=
      List.Perm.append_left _ List.perm_append_comm
    have s2 : (B1 ++ (B2 ++ (A ++ C))).Perm ((A ++ C) ++ (B1 ++ B2)) := by
      rw [← List.append_assoc]; exact List.perm_append_comm
    have s3 : ((A ++ C) ++ (B1 ++ B2)).Perm (A ++ ((B1 ++ B2) ++ C)) := by
      rw [List.append_assoc]
      exact List.Perm.append_left _ List.perm_append_comm
    exact (s1.trans s2).trans s3

/-- the moved tree is a well-formed presentation of the same tree -/
theorem rootMove_ok (t : T) (i : Nat) (e : EdgeD) (dc : NodeD) (pc : Nat) (kc : Kids)
    (ht : treeOK t = true) (hi : t.kids[i]? = some (e, .node dc pc kc)) (hkc : kc ≠ []) :
    treeOK (rootMove t i) = true ∧ sameTaxa t (rootMove t i) = true ∧
    splitsEquiv t.tipNames t (rootMove t i) = true := by
  obtain ⟨hn, htl, hk, _⟩ := treeOK_facts t ht
  cases t with
  | node d p kids =>
    simp only [T.kids_node] at hi hk htl
    obtain ⟨hk', hperm⟩ := rootMove_leaves d p kids i e dc pc kc hi hkc hk
    have hk'' : ((rootMove (.node d p kids) i).kids.length != 1) = true := by simpa using hk'
    have htl' := tipNames_of_rootNotTip _ hk''
    have hn' : (rootMove (.node d p kids) i).tipNames.Nodup := by
      rw [htl', hperm.nodup_iff, ← htl]; exact hn
    have hne : (rootMove (.node d p kids) i).tipNames ≠ [] := by
      intro h0
      have := hperm.length_eq
      rw [← htl', h0, ← htl] at this
      simp only [treeOK, reinitOk, Bool.and_eq_true, Bool.not_eq_true', List.isEmpty_eq_false_iff] at ht
      exact ht.1.2 (List.eq_nil_of_length_eq_zero this.symm)
    refine ⟨?_, ?_, ?_⟩
    · simp [treeOK, reinitOk, hn', hne, hk']
    · rw [sameTaxa_iff]
      intro x
      rw [htl, htl']
      exact hperm.mem_iff.symm
    · rw [htl]
      rw [htl] at hn
      exact rootMove_splitsEquiv d p kids i e dc pc kc hi hkc hk hn

end Gotree.C10
