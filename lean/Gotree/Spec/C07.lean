/-
  C07 — what "collapse removes exactly the targeted branches" and "resolve only refines"
  mean, as Bool-valued predicates over the tree BEFORE and the tree AFTER (both read
  from α dumps of the implementation), built on the unrooted vocabulary of
  Spec/Splits.lean (`canonSide`, `lightSize`, `distMatrix`, `binary`, `noSingle`).
  Nothing here mentions the model of the operation.  Core Lean only.
-/
import Gotree.Spec.Splits

namespace Gotree.C07
open Gotree

/-- A branch as the property sees it: the split (canonical side over the taxa of the
    tree before), length, support, whether it is a tip branch, the name of the node
    below it, whether it hangs off the root, and the topological depth. -/
structure Ent where
  side : List String
  len : Rat
  sup : Rat
  tip : Bool
  name : String
  root : Bool
  depth : Nat
  id : Int
  /-- PROTECTED: the branch hangs off a root that has exactly two neighbours (a root branch of a rooted
      tree) -/
  prot : Bool
  deriving Repr, BEq

/- `upTip`: the node above is a tip (only possible for the root, when it has a single
   neighbour): the branch is then a tip branch whatever is below.
   `pdeg2`: the node above is the root and has exactly two neighbours. -/
mutual
def entsT (all : List String) : T → List Ent
  | .node _ _ k => entsL all false false false k
def entsL (all : List String) (top upTip pdeg2 : Bool) : Kids → List Ent
  | [] => []
  | (e, c) :: r =>
    ⟨canonSide all c.leaves, e.len, e.sup, c.isLeaf || upTip, c.name, top, lightSize all c.leaves, e.id,
      pdeg2⟩ ::
      (entsT all c ++ entsL all top upTip pdeg2 r)
end

def ents (all : List String) (t : T) : List Ent :=
  entsL all true (t.kids.length == 1) (t.kids.length == 2) t.kids

/-- The documented criteria. -/
inductive Crit
  | len (l : Rat)            -- length <= l        (an absent length is the sentinel -1)
  | sup (s : Rat)            -- support present and < s
  | depth (mn mx : Int)      -- mn <= topological depth <= mx
  | ids (l : List Int)       -- RemoveEdges called directly: the branch is one of those given

def Crit.holds : Crit → Ent → Bool
  | .len l, e => decide (e.len ≤ l)
  | .sup s, e => e.sup != NIL && decide (e.sup < s)
  | .depth mn mx, e => decide (mn ≤ (e.depth : Int)) && decide ((e.depth : Int) ≤ mx)
  | .ids l, e => l.contains e.id

/-- what is compared: split, length, support, name of the node below -/
abbrev Key := List String × Rat × Rat × String

def Ent.key (e : Ent) : Key := (e.side, e.len, e.sup, e.name)

/-- multiset inclusion / difference on lists -/
def msub {α : Type} [BEq α] : List α → List α → Bool
  | [], _ => true
  | x :: r, l => l.contains x && msub r (l.erase x)

def mdiff {α : Type} [BEq α] (l : List α) : List α → List α
  | [] => l
  | x :: r => mdiff (l.erase x) r

def meq {α : Type} [BEq α] (a b : List α) : Bool := a.length == b.length && msub a b

/-- Is the branch in the region where the property makes its exact-set claim?
    Not for the two root branches of a rooted tree. -/
def exactRegion (b : T) (e : Ent) : Bool := !(b.rooted && e.root)

/- The DOCUMENTED criteria and the sentinel.
   `gotree collapse length`: "All internal branches with length <= threshold are removed";
   `CollapseShortBranches`: "Collapses (removes) the branches having length <= length threshold".
   Neither says what a branch WITHOUT a length is.  (For supports the documentation is explicit:
   "support < support threshold && support != NIL_SUPPORT (exists)"; depth and explicit branch lists have
   no absent value.)  The code compares the stored sentinel −1, so a length-less branch counts as short
   for every l ≥ −1 (model: `selLen`, theorem `absent_length_counts_as_short`).  The oracle does NOT
   promote that reading to the specification: it accepts both.
   * `definite`: the criterion holds under every reading (a PRESENT length ≤ l; the other criteria);
   * `ambiguous`: it holds only under the sentinel reading (absent length and −1 ≤ l).
   `Crit.holds` (the code's reading) is their disjunction (`holds_eq_definite_or_ambiguous`). -/
def Crit.definite : Crit → Ent → Bool
  | .len l, e => e.len != NIL && decide (e.len ≤ l)
  | c, e => c.holds e

def Crit.ambiguous : Crit → Ent → Bool
  | .len l, e => e.len == NIL && decide (NIL ≤ l)
  | _, _ => false

/-- key of a tip branch whose length was set to 0 by `--tips` -/
def Ent.key0 (e : Ent) : Key := ({ e with len := 0 } : Ent).key

/-- MANDATORY after the operation under ONE reading `sel` of the criterion, for one branch of the tree
    before: a tip branch (length 0 if selected and `--tips`), an inner branch that is not selected. -/
def mandKeyR (sel : Ent → Bool) (rt : Bool) (e : Ent) : Option Key :=
  if e.tip then some (if rt && sel e then e.key0 else e.key)
  else if sel e then none else some e.key

/-- OPTIONAL under that reading: a selected root branch of a rooted tree (PROTECTED) when `--root` /
    `removeRoot` is NOT given — the property makes no claim there and the code keeps it.  With `--root` the
    documentation says the criterion "applies also to internal branches connected to the root": nothing
    is optional then. -/
def optKeysR (sel : Ent → Bool) (rr : Bool) (e : Ent) : List Key :=
  if !e.tip && sel e && e.prot && !rr then [e.key] else []

/-- the collapse post-condition under one reading of the criterion -/
def collapseUnder (sel : Ent → Bool) (rt rr : Bool) (b a : T) : Bool :=
  let all := b.tipNames
  let eb := ents all b
  let ea := ents all a
  let mand := eb.filterMap (mandKeyR sel rt)
  let opt := eb.flatMap (optKeysR sel rr)
  sortS a.tipNames == sortS all
    && a.name == b.name
    && msub mand (ea.map Ent.key)
    && msub (mdiff (ea.map Ent.key) mand) opt

/-- The collapse post-condition.  `rt` = `--tips` (a selected tip branch gets length 0, nothing else
    happens to it), `rr` = `--root` / `removeRoot`.
    * no tip lost, none invented, root node untouched;
    * every tip branch and every inner branch that is not selected is still there with its length,
      support and node name;
    * every selected inner branch is gone — also in trees with single-child inner nodes, and also the
      root branches of a rooted tree when `rr` is set; without `rr` a selected root branch may stay or go;
    * nothing else exists afterwards;
    all this under ONE reading of an absent length for the whole call: either the sentinel reading of the
    code (`Crit.holds`: absent = −1) or "a branch without length is never selected" (`Crit.definite`) —
    the documentation does not choose, but the criterion cannot tell two length-less branches apart, so
    they share one fate. -/
def collapseOKr (crit : Crit) (rt rr : Bool) (b a : T) : Bool :=
  collapseUnder crit.holds rt rr b a || collapseUnder crit.definite rt rr b a

/-- the same without the `--root` clause (root branches of a rooted tree always optional): the form the
    earlier theorems are stated with -/
def collapseOK (crit : Crit) (rt : Bool) (b a : T) : Bool := collapseOKr crit rt false b a

/-- does some verdict rest on the sentinel reading: an inner branch (or, with `--tips`, a tip branch)
    without length that the code's reading selects -/
def usesAmbiguity (crit : Crit) (rt : Bool) (b : T) : Bool :=
  (ents b.tipNames b).any fun e => crit.ambiguous e && (!e.tip || rt)

/-- Which sub-clause fails (for the detail string; judged under the code's reading). -/
def collapseWhy (crit : Crit) (rt rr : Bool) (b a : T) : String :=
  let all := b.tipNames
  let eb := ents all b
  let ea := ents all a
  let mand := eb.filterMap (mandKeyR crit.holds rt)
  if sortS a.tipNames != sortS all then "tip set changed"
  else if a.name != b.name then "root node changed"
  else if !(msub mand (ea.map Ent.key)) then "a branch that must stay (tip, or criterion not met) is missing or changed"
  else if rr then "a branch that meets the criterion survived (with --root also a root branch must go), or a branch was invented"
  else "a branch that meets the criterion survived, or a branch was invented"

/- at most two children below the root -/
mutual
def deg3Below : T → Bool
  | .node _ _ k => decide (k.length ≤ 2) && deg3L k
def deg3L : Kids → Bool
  | [] => true
  | (_, t) :: r => deg3Below t && deg3L r
end

/-- no node with more than three neighbours -/
def deg3 (t : T) : Bool := decide (t.kids.length ≤ 3) && deg3L t.kids

/-- The resolve post-condition:
    same tips, same root; every branch before is a branch after (split, length, support,
    node name); what was added are inner branches of length 0 without support (the property says
    nothing about the names of the new nodes: not demanded here; the model tie compares them);
    all tip-to-tip distances equal; and the result is binary whenever the
    input had no single-child node and a root of degree ≥ 2 (below a root that is itself a tip: every
    node binary); in every case (single-child nodes
    included) no node is left with more than three neighbours. -/
def resolveOK (b a : T) : Bool :=
  let all := b.tipNames
  let kb := (ents all b).map Ent.key
  let ka := (ents all a).map Ent.key
  sortS a.tipNames == sortS all
    && a.name == b.name
    && msub kb ka
    && ((mdiff ((ents all a).map fun e => (e.key, e.tip)) ((ents all b).map fun e => (e.key, e.tip))).all
          fun x => x.1.2.1 == 0 && x.1.2.2.1 == NIL && !x.2)
    && a.distMatrix == b.distMatrix
    && (!(b.noSingle && 2 ≤ b.kids.length) || a.binary)
    && (!(b.noSingle && b.kids.length == 1) || binaryL a.kids)
    && deg3 a

def resolveWhy (b a : T) : String :=
  let all := b.tipNames
  let kb := (ents all b).map Ent.key
  let ka := (ents all a).map Ent.key
  if sortS a.tipNames != sortS all then "tip set changed"
  else if a.name != b.name then "root node changed"
  else if !(msub kb ka) then "an original branch is missing or changed"
  else if a.distMatrix != b.distMatrix then "a tip-to-tip distance changed"
  else if (b.noSingle && 2 ≤ b.kids.length) && !a.binary then "result is not binary"
  else if (b.noSingle && b.kids.length == 1) && !(binaryL a.kids) then "result is not binary below the tip-root"
  else if !(deg3 a) then "a node is left with more than three neighbours"
  else "an added branch is not (inner, length 0, no support)"

/-- obs_C07 (DESIGN §4.2): split map with lengths/supports/node names, multiset of node
    names, distance matrix, binary?  Two trees are compared through this only. -/
def obsEq (x y : T) : Bool :=
  let all := x.tipNames
  sortS x.tipNames == sortS y.tipNames
    && meq ((ents all x).map Ent.key) ((ents all y).map Ent.key)
    && sortS x.nodeNames == sortS y.nodeNames
    && x.distMatrix == y.distMatrix
    && x.binary == y.binary

end Gotree.C07
