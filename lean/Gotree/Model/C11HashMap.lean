/-
  C11 — `hashmap.HashMap` (hashmap/hashmap.go), the RWMutex-protected map the worker pools share
  (the `EdgeIndex` of the reference tree), statement by statement.

    NewHashMap  → `new`        indexFor → `indexFor`      Value  → `value`     PutValue → `putValue`
    rehash      → `rehash`     Keys     → `keys`          KeyValues → `keyValues`

  Every method takes the map's lock for its whole body (`table_hashmap_all_locked`, regenerated from the
  source), so a method call is ONE atomic step: a concurrent history is an interleaving of whole calls,
  i.e. a list of operations.  What is modelled here is one call; the theorems of Lemmas/C11HashMap.lean
  say what a list of calls computes and that the interleaving of goroutines owning disjoint keys does
  not matter.

  Conventions: `mapArray []Bucket` is a list of lists (a nil bucket is `[]`; Go never stores an empty
  non-nil bucket); an index outside `mapArray` is the explicit outcome `Res.panic`; `loadfactor` is the
  rational `lfNum / lfDen` (the callers use 0.75 and 0.5-like dyadic values: `float64(capacity)*loadfactor`
  is exact); `uint64` wrap-around of `capacity * 2` (capacity ≥ 2⁶³) is not modelled.  A key is a value
  of `κ` with decidable equality (`HashEquals`) and `hash : κ → Nat` (`HashCode`, < 2⁶⁴).

  Core Lean only: this file is linked into the driver.
-/
namespace Gotree.C11.HM

inductive Res (α : Type) where
  | ok (a : α)
  | panic            -- index out of range
  deriving Repr, DecidableEq

structure HMap (κ ν : Type) where
  arr : List (List (κ × ν))     -- mapArray
  capacity : Nat
  lfNum : Nat                   -- loadfactor = lfNum / lfDen
  lfDen : Nat
  total : Nat
  deriving Repr, DecidableEq

variable {κ ν : Type} [DecidableEq κ]

/-- `NewHashMap(size, loadfactor)` (hashmap.go:35-46): at least one bucket -/
def new (size lfNum lfDen : Nat) : HMap κ ν :=
  let size := if size = 0 then 1 else size
  { arr := List.replicate size [], capacity := size, lfNum := lfNum, lfDen := lfDen, total := 0 }

/-- `indexFor` (hashmap.go:87-89): `hashcode & (capacity - 1)` -/
def indexFor (hashcode capacity : Nat) : Nat := hashcode &&& (capacity - 1)

/-- `Value` (hashmap.go:51-63): first entry of the bucket whose key `HashEquals` the argument -/
def value (hash : κ → Nat) (m : HMap κ ν) (k : κ) : Res (Option ν) :=
  match m.arr[indexFor (hash k) m.capacity]? with
  | none => .panic
  | some b => .ok ((b.find? (fun kv => decide (k = kv.1))).map (·.2))

/-- the loop `for _, kv := range bucket { if h.HashEquals(kv.Key) { kv.Value = value; return } }`:
    `none` = the loop ended without finding the key.  The stored KEY object stays the old one. -/
def replaceFirst (k : κ) (v : ν) : List (κ × ν) → Option (List (κ × ν))
  | [] => none
  | kv :: r => if k = kv.1 then some ((kv.1, v) :: r) else (replaceFirst k v r).map (kv :: ·)

/-- `newmap[index] = append(newmap[index], kv)` -/
def putAt (arr : List (List (κ × ν))) (i : Nat) (x : κ × ν) : Option (List (List (κ × ν))) :=
  match arr[i]? with
  | none => none
  | some b => some (arr.set i (b ++ [x]))

/-- the two nested loops of `rehash` (hashmap.go:97-108) over the entries in bucket order -/
def rehashLoop (hash : κ → Nat) (newcap : Nat) : List (κ × ν) → List (List (κ × ν)) → Option (List (List (κ × ν)))
  | [], nm => some nm
  | kv :: r, nm =>
    match putAt nm (indexFor (hash kv.1) newcap) kv with
    | none => none
    | some nm' => rehashLoop hash newcap r nm'

/-- `rehash` (hashmap.go:92-113): doubles the capacity when `total ≥ capacity * loadfactor` -/
def rehash (hash : κ → Nat) (m : HMap κ ν) : Res (HMap κ ν) :=
  if m.total * m.lfDen ≥ m.capacity * m.lfNum then
    let newcap := m.capacity * 2
    match rehashLoop hash newcap m.arr.flatten (List.replicate newcap []) with
    | none => .panic
    | some nm => .ok { m with capacity := newcap, arr := nm }
  else .ok m

/-- `PutValue` (hashmap.go:65-84) -/
def putValue (hash : κ → Nat) (m : HMap κ ν) (k : κ) (v : ν) : Res (HMap κ ν) :=
  let index := indexFor (hash k) m.capacity
  match m.arr[index]? with
  | none => .panic
  | some b =>
    if b.isEmpty then
      rehash hash { m with arr := m.arr.set index [(k, v)], total := m.total + 1 }
    else
      match replaceFirst k v b with
      | some b' => .ok { m with arr := m.arr.set index b' }      -- `return`: neither total++ nor rehash
      | none => rehash hash { m with arr := m.arr.set index (b ++ [(k, v)]), total := m.total + 1 }

/-- the filling loop of `Keys` / `KeyValues` (hashmap.go:117-129, :132-145): a slice of `em.total` cells
    filled in bucket order — more entries than `total` is an index out of range, fewer leaves nil cells -/
def cells (m : HMap κ ν) : Res (List (Option (κ × ν))) :=
  let l := m.arr.flatten
  if l.length > m.total then .panic else .ok (l.map some ++ List.replicate (m.total - l.length) none)

def keyValues (m : HMap κ ν) : Res (List (Option (κ × ν))) := cells m

def keys (m : HMap κ ν) : Res (List (Option κ)) :=
  match cells m with
  | .panic => .panic
  | .ok l => .ok (l.map (fun c => c.map (·.1)))

/-! ## Histories: one goroutine's view of a list of whole calls -/

inductive Op (κ ν : Type) where
  | put (k : κ) (v : ν)
  | get (k : κ)
  | keys
  | keyValues
  deriving Repr, DecidableEq

/-- what a call returns -/
inductive Out (κ ν : Type) where
  | unit
  | val (v : Option ν)
  | keys (l : List (Option κ))
  | kvs (l : List (Option (κ × ν)))
  | panic
  deriving Repr, DecidableEq

/-- run a history; after a panic the map is left as it was (the harness stops there) -/
def runOps (hash : κ → Nat) : HMap κ ν → List (Op κ ν) → List (Out κ ν)
  | _, [] => []
  | m, .put k v :: r =>
    match putValue hash m k v with
    | .ok m' => .unit :: runOps hash m' r
    | .panic => [.panic]
  | m, .get k :: r =>
    match value hash m k with
    | .ok x => .val x :: runOps hash m r
    | .panic => [.panic]
  | m, .keys :: r =>
    match keys m with
    | .ok l => .keys l :: runOps hash m r
    | .panic => [.panic]
  | m, .keyValues :: r =>
    match keyValues m with
    | .ok l => .kvs l :: runOps hash m r
    | .panic => [.panic]

/-- the map after a list of `PutValue` calls (`none` = one of them panicked) -/
def putAll (hash : κ → Nat) : HMap κ ν → List (κ × ν) → Option (HMap κ ν)
  | m, [] => some m
  | m, (k, v) :: r =>
    match putValue hash m k v with
    | .ok m' => putAll hash m' r
    | .panic => none

end Gotree.C11.HM
