/-
  C04 — the property theorems (audited with `#print axioms`).
-/
import Gotree.Lemmas.C04Q
import Gotree.Lemmas.C04HM
import Gotree.Lemmas.C04Idx

namespace Gotree.C04
open Gotree


/-! ## the split index -/

/-- a rooted, multifurcating example: ((A,B)x,(C,D,E)y); — and the same tips on a tree whose
    root is the tip E: (E)--((A,B),C,D) -/
def exT : T := .node ⟨"", []⟩ 0
  [(⟨1, NIL, NIL, [], 0⟩, .node ⟨"x", []⟩ 0 [(⟨1, NIL, NIL, [], 1⟩, .leaf "A"), (⟨2, NIL, NIL, [], 2⟩, .leaf "B")]),
   (⟨3, NIL, NIL, [], 3⟩, .node ⟨"y", []⟩ 0 [(⟨1, NIL, NIL, [], 4⟩, .leaf "C"), (⟨1, NIL, NIL, [], 5⟩, .leaf "D"), (⟨1, NIL, NIL, [], 6⟩, .leaf "E")])]

def exTipRoot : T := .node ⟨"E", []⟩ 0
  [(⟨1, NIL, NIL, [], 0⟩, .node ⟨"", []⟩ 0
    [(⟨1, NIL, NIL, [], 1⟩, .node ⟨"", []⟩ 0 [(⟨1, NIL, NIL, [], 2⟩, .leaf "B"), (⟨2, NIL, NIL, [], 3⟩, .leaf "A")]),
     (⟨1, NIL, NIL, [], 4⟩, .leaf "D"), (⟨1, NIL, NIL, [], 5⟩, .leaf "C")])]

example : exT.tipNames = ["A", "B", "C", "D", "E"] ∧ exT.tipNames.Nodup := by decide
example : exTipRoot.tipNames = ["E", "B", "A", "D", "C"] ∧ exTipRoot.tipNames.Nodup ∧ exT.tipNames.Perm exTipRoot.tipNames := by
  refine ⟨by decide, by decide, ?_⟩
  exact List.isPerm_iff.mp (by decide)

/-- `ReinitIndexes` (the model the driver runs: ranks, bitsets, both tip counts and both
    additive hashes of every branch, computed by the two passes) equals the direct definition
    from the split of each branch — for every tree with unique tip names (any shape, rooted or
    not, multifurcations, single-child nodes, a tip at the root), and every name hash `H`. -/
theorem reinit_correct (H : String → UInt64) (t : T) (hn : t.tipNames.Nodup) (hne : t.tipNames ≠ []) :
    reinit H t = .ok (sortNames t.tipNames, t.splits.map fun s => specIdx H t.tipNames s.below) :=
  reinit_eq H t hn hne

/-- every branch has its record, and it is `specIdx` of the branch's split -/
theorem indexOf_eq (H : String → UInt64) (t : T) (hn : t.tipNames.Nodup) (i : Nat) (hi : i < t.splits.length) :
    indexOf H t i = some (specIdx H t.tipNames (t.splits[i]).below) := by
  have hne : t.tipNames ≠ [] := by
    intro h
    have := (below_proper t t.splits[i] (List.getElem_mem hi)).2
    rw [h] at this; exact absurd this (Nat.not_lt_zero _)
  unfold indexOf
  rw [reinit_eq H t hn hne]
  simp [hi]

/-- `bitset_correct`: bit `j` of the branch's bitset is set iff the tip of rank `j` (position in
    the sorted tip names) lies below the branch. -/
theorem bitset_correct (H : String → UInt64) (t : T) (hn : t.tipNames.Nodup) (i : Nat) (hi : i < t.splits.length)
    (e : EdgeIdx) (he : indexOf H t i = some e) :
    e.bits.length = t.tipNames.length ∧
    ∀ (j : Nat) (hj : j < (sortNames t.tipNames).length),
      e.bits[j]? = some ((t.splits[i]).below.contains (sortNames t.tipNames)[j]) := by
  rw [indexOf_eq H t hn i hi] at he
  cases he
  refine ⟨by simp [specIdx, (sortNames_perm _).length_eq], ?_⟩
  intro j hj
  simp [specIdx, hj]

/-- `ntax_correct`: `NumTipsRight` / `NumTipsLeft` are the numbers of tips below / not below,
    and they add up to the number of tips. -/
theorem ntax_correct (H : String → UInt64) (t : T) (hn : t.tipNames.Nodup) (i : Nat) (hi : i < t.splits.length)
    (e : EdgeIdx) (he : indexOf H t i = some e) :
    e.nright = (t.splits[i]).below.length ∧ e.nleft = (compl t.tipNames (t.splits[i]).below).length ∧
    e.nleft + e.nright = t.tipNames.length := by
  rw [indexOf_eq H t hn i hi] at he
  cases he
  refine ⟨rfl, rfl, ?_⟩
  exact compl_length hn (below_sublist t _ (List.getElem_mem hi))

/-- `topoDepth_correct`: `TopoDepth` never fails after `ReinitIndexes` and is the size of the
    light side of the split. -/
theorem topoDepth_correct (H : String → UInt64) (t : T) (hn : t.tipNames.Nodup) (i : Nat) (hi : i < t.splits.length)
    (e : EdgeIdx) (he : indexOf H t i = some e) :
    e.topoDepth = some (specTopoDepth t.tipNames (t.splits[i]).below) := by
  have hm := List.getElem_mem hi
  have hp := below_proper t _ hm
  have hl := compl_length hn (below_sublist t _ hm)
  rw [indexOf_eq H t hn i hi] at he
  cases he
  unfold EdgeIdx.topoDepth specIdx specTopoDepth
  have h1 : ((compl t.tipNames t.splits[i].below).length == 0) = false := beq_eq_false_iff_ne.mpr (by omega)
  have h2 : (t.splits[i].below.length == 0) = false := beq_eq_false_iff_ne.mpr (by omega)
  simp only [h1, h2, Bool.or_self, Bool.false_eq_true, if_false, Nat.min_comm]

/-- The per-branch oracle of the driver (`branchOK`: bitset, both counts, depth) accepts what the model
    computes: oracle and model cannot disagree on a tree with unique tip names. -/
theorem model_passes_oracle (H : String → UInt64) (t : T) (hn : t.tipNames.Nodup) (i : Nat) (hi : i < t.splits.length)
    (e : EdgeIdx) (he : indexOf H t i = some e) :
    branchOK t.tipNames (t.splits[i]).below e.bits e.nleft e.nright (e.topoDepth.map fun (x : Nat) => (x : Int)) = true := by
  have htd := topoDepth_correct H t hn i hi e he
  rw [indexOf_eq H t hn i hi] at he
  cases he
  rw [htd]
  simp [branchOK, specIdx]

/-- `hash_sums`: the two-pass additive hashes are the sums of the name hashes over the tips
    below / not below the branch (wrap-around `uint64` sums). -/
theorem hash_sums (H : String → UInt64) (t : T) (hn : t.tipNames.Nodup) (i : Nat) (hi : i < t.splits.length)
    (e : EdgeIdx) (he : indexOf H t i = some e) :
    e.hright = sumH H (t.splits[i]).below ∧ e.hleft = sumH H (compl t.tipNames (t.splits[i]).below) := by
  rw [indexOf_eq H t hn i hi] at he
  cases he
  exact ⟨rfl, rfl⟩

/-- ★ `hashCode_split_invariant`: for every name hash `H`, two branches — of the same tree or of
    two trees on the same (uniquely named) taxa — that define the same split get the same
    `HashCode`, and `HashEquals` answers true: independent of the rooting, of the orientation of
    the branch (which side is "below") and of child order, since those only change the
    presentation `below` of the split. -/
theorem hashCode_split_invariant (H : String → UInt64) (t₁ t₂ : T)
    (hu₁ : t₁.tipNames.Nodup) (hu₂ : t₂.tipNames.Nodup) (hT : t₁.tipNames.Perm t₂.tipNames)
    (i j : Nat) (hi : i < t₁.splits.length) (hj : j < t₂.splits.length)
    (hs : sameSplit t₁.tipNames (t₁.splits[i]).below (t₂.splits[j]).below = true) :
    ∃ e₁ e₂, indexOf H t₁ i = some e₁ ∧ indexOf H t₂ j = some e₂ ∧
      e₁.hashCode = e₂.hashCode ∧ e₁.equals e₂ = true ∧ e₁.sameBipartition e₂ = true := by
  have S : Sides t₁.tipNames t₂.tipNames (t₁.splits[i]).below (t₂.splits[j]).below :=
    ⟨hu₁, hu₂, hT, below_sublist t₁ _ (List.getElem_mem hi), below_sublist t₂ _ (List.getElem_mem hj)⟩
  have hh := spec_hashCode_of_sameSplit H S hs
  have he := spec_equals_iff_sameSplit H S
  refine ⟨_, _, indexOf_eq H t₁ hu₁ i hi, indexOf_eq H t₂ hu₂ j hj, hh, by rw [he, hs], ?_⟩
  unfold EdgeIdx.sameBipartition
  rw [hh]
  unfold EdgeIdx.equals at he
  rw [he, hs]; simp

-- the same side in another order, and the complementary side
example : sameSplit exT.tipNames (exT.splits[0]).below (exTipRoot.splits[1]).below = true := by decide
example : sameSplit exT.tipNames (exT.splits[3]).below (exTipRoot.splits[1]).below = true := by decide

/-- `equals_iff_sameSplit`: `HashEquals` and `SameBipartition` hold exactly for branches that define
    the same split. -/
theorem equals_iff_sameSplit (H : String → UInt64) (t₁ t₂ : T)
    (hu₁ : t₁.tipNames.Nodup) (hu₂ : t₂.tipNames.Nodup) (hT : t₁.tipNames.Perm t₂.tipNames)
    (i j : Nat) (hi : i < t₁.splits.length) (hj : j < t₂.splits.length)
    (e₁ e₂ : EdgeIdx) (h₁ : indexOf H t₁ i = some e₁) (h₂ : indexOf H t₂ j = some e₂) :
    e₁.equals e₂ = sameSplit t₁.tipNames (t₁.splits[i]).below (t₂.splits[j]).below ∧
    e₁.sameBipartition e₂ = sameSplit t₁.tipNames (t₁.splits[i]).below (t₂.splits[j]).below := by
  have S : Sides t₁.tipNames t₂.tipNames (t₁.splits[i]).below (t₂.splits[j]).below :=
    ⟨hu₁, hu₂, hT, below_sublist t₁ _ (List.getElem_mem hi), below_sublist t₂ _ (List.getElem_mem hj)⟩
  rw [indexOf_eq H t₁ hu₁ i hi] at h₁
  rw [indexOf_eq H t₂ hu₂ j hj] at h₂
  cases h₁; cases h₂
  have he := spec_equals_iff_sameSplit H S
  refine ⟨he, ?_⟩
  unfold EdgeIdx.sameBipartition
  unfold EdgeIdx.equals at he
  rw [he]
  cases hs : sameSplit t₁.tipNames (t₁.splits[i]).below (t₂.splits[j]).below with
  | false => simp
  | true => rw [spec_hashCode_of_sameSplit H S hs]; simp

/-- `FindEdge` finds a branch exactly when the other tree (same taxa) has a branch with the same
    split whose lower node is of the same kind (tip / inner), and never reports an error. -/
theorem findEdge_correct (H : String → UInt64) (t₁ t₂ : T)
    (hu₁ : t₁.tipNames.Nodup) (hu₂ : t₂.tipNames.Nodup) (hT : t₁.tipNames.Perm t₂.tipNames)
    (i : Nat) (hi : i < t₁.splits.length) (e₁ : EdgeIdx) (h₁ : indexOf H t₁ i = some e₁)
    (r₂ : List String × List EdgeIdx) (h₂ : reinit H t₂ = .ok r₂) :
    findEdge e₁ (t₁.splits[i]).tip (r₂.2.zip (t₂.splits.map (·.tip))) =
      some (specFindEdge t₁.tipNames (t₁.splits[i]).below (t₁.splits[i]).tip t₂.splits) := by
  have hm := List.getElem_mem hi
  have hb := below_sublist t₁ _ hm
  have hne₂ : t₂.tipNames ≠ [] := by
    intro h
    have h0 := (below_proper t₁ _ hm).2
    rw [hT.length_eq, h] at h0
    exact absurd h0 (Nat.not_lt_zero _)
  rw [indexOf_eq H t₁ hu₁ i hi] at h₁
  cases h₁
  rw [reinit_eq H t₂ hu₂ hne₂] at h₂
  cases h₂
  simp only [List.zip_map']
  unfold findEdge
  rw [spec_bits_not_all_zero H hb (below_proper t₁ _ hm).1]
  simp only [Bool.false_eq_true, if_false]
  exact findEdge_go_spec H _ hu₁ hu₂ hT hb t₂.splits
    fun s hs => ⟨below_sublist t₂ s hs, (below_proper t₂ s hs).1⟩

/-- the oracle's fast form of `sameSplit` (membership vectors) is `sameSplit` -/
theorem sameSplit_vec (all a b : List String) :
    sameSplit all a b = sameSplitV (memVec all a) (memVec all b) := sameSplit_eq_vec all a b

/-- F6 (before fix 6e33baa): `ReinitIndexes` on a tree whose root has a single neighbour
    dereferenced a nil branch; the repaired model indexes it. -/
theorem reinit_roottip_pinned_panics :
    reinitPinned fnv1a exTipRoot = none ∧ (∃ r, reinit fnv1a exTipRoot = .ok r) := by
  refine ⟨by decide, ?_⟩
  exact ⟨_, reinit_eq fnv1a exTipRoot (by decide) (by decide)⟩

/-! ## quartets -/

/-- ★ Quartets that `HashEquals` identifies (equal or conflicting: any of the 24
    presentations of the same four taxa) have the same `HashCode` — for all taxon
    indexes, distinct or not. -/
theorem q_hash_compat (a b : Quartet) (h : a.hashEquals b = true) : a.hashCode = b.hashCode := by
  unfold Quartet.hashCode
  rw [sorted4_of_hashEquals a b h]

example : Quartet.hashEquals ⟨7, 2, 9, 4⟩ ⟨9, 2, 4, 7⟩ = true ∧ Quartet.distinct ⟨7, 2, 9, 4⟩ = true := by decide

/-- `q_equals_iff_same_taxa`: `HashEquals` holds exactly for quartets on the same four taxa
    (as multisets): any of the 24 presentations, equal or conflicting topology. -/
theorem q_equals_iff_same_taxa (a b : Quartet) : a.hashEquals b = true ↔ a.taxa.Perm b.taxa :=
  ⟨perm_of_hashEquals a b, hashEquals_of_perm a b⟩

/-- the executable form used by the oracle -/
theorem q_equals_eq_sameTaxa (a b : Quartet) : a.hashEquals b = a.sameTaxa b := by
  rw [Bool.eq_iff_iff, q_equals_iff_same_taxa, Quartet.sameTaxa, List.isPerm_iff]

/-- `Compare` answers EQUALS for the same two unordered pairs, CONFLICT for the same taxa paired
    differently, DIFF otherwise — for all quartets. -/
theorem q_compare_spec (a b : Quartet) : a.compare b = a.specCompare b := by
  unfold Quartet.specCompare
  rw [← q_equals_eq_sameTaxa]
  exact cmp_abs _ _ _ _ _ _

/-- Quartets are lawful keys of `hashmap.HashMap` (`IndexQuartets`): `HashEquals` is an equivalence
    and compatible with `HashCode`, so `hm_refines` applies to a quartet-keyed map. -/
theorem quartet_keys_lawful : KeyLaws Quartet.hashCode Quartet.hashEquals := by
  refine ⟨?_, ?_, ?_, q_hash_compat⟩
  · intro a; exact (q_equals_iff_same_taxa a a).mpr (List.Perm.refl _)
  · intro a b h; exact (q_equals_iff_same_taxa b a).mpr ((q_equals_iff_same_taxa a b).mp h).symm
  · intro a b c h1 h2
    exact (q_equals_iff_same_taxa a c).mpr (((q_equals_iff_same_taxa a b).mp h1).trans ((q_equals_iff_same_taxa b c).mp h2))

/-- F9 (before fix cf649d5): two presentations of one quartet that `HashEquals` identifies
    got different hash codes. -/
theorem q_hash_pinned_fails :
    Quartet.hashEquals ⟨1, 2, 3, 4⟩ ⟨3, 4, 1, 2⟩ = true ∧
    Quartet.hashCodePinned ⟨1, 2, 3, 4⟩ ≠ Quartet.hashCodePinned ⟨3, 4, 1, 2⟩ := by
  decide

/-! ## the hash map -/

/-- ★ `hashmap.HashMap` behaves like a plain association list: for every initial
    capacity (0 means one bucket since fix b2a7fc8), every rehash policy, every key type
    whose `HashEquals` is an equivalence compatible with `HashCode`, and every script of
    `PutValue` / `Value` / `KeyValues`, the replies are those of the association list
    (`KeyValues` up to order) — in particular no reply is a panic. -/
theorem hm_refines {κ ν : Type} {hash : κ → UInt64} {eqv : κ → κ → Bool} (L : KeyLaws hash eqv)
    (cap : Nat) (policy : Nat → Nat → Bool) (ops : List (HMOp κ ν)) :
    HMOut.simL (HM.run hash eqv policy ops (HM.new cap)) (Assoc.run eqv ops []) := by
  apply run_refines L policy ops _ _ (inv_new cap)
  · rw [flatten_new]
  · exact List.Pairwise.nil

/-- `EdgeIndex` scripts (`AddEdgeCount` / `PutEdgeValue` / `Value` / `Edges`) answer exactly like a
    plain map keyed by the key's equivalence class, for every capacity and rehash policy. -/
theorem ei_refines {κ : Type} {hash : κ → UInt64} {eqv : κ → κ → Bool} (L : KeyLaws hash eqv)
    (cap : Nat) (policy : Nat → Nat → Bool) (ops : List (EIOp κ)) :
    EI.run hash eqv policy ops (HM.new cap) = Assoc.runEI eqv ops [] := by
  apply ei_run_refines L policy ops _ _ (inv_new cap)
  · rw [flatten_new]
  · exact List.Pairwise.nil

/-- `edgeIndex_counts`: after `AddEdgeCount` over any list of branches, looking a branch up finds
    the number of inserted branches equal to it and the sum of their lengths (nothing if none). -/
theorem edgeIndex_counts {κ : Type} {hash : κ → UInt64} {eqv : κ → κ → Bool} (L : KeyLaws hash eqv)
    (cap : Nat) (policy : Nat → Nat → Bool) (es : List (κ × Rat)) (k : κ) :
    EI.run hash eqv policy (es.map (fun e => EIOp.add e.1 e.2) ++ [.value k]) (HM.new cap) =
      List.replicate es.length EIOut.unit ++
        [.val (if countOf eqv k es = 0 then none else some ⟨(countOf eqv k es : Nat), lenOf eqv k es⟩)] := by
  rw [ei_refines L, runEI_adds]
  simp only [Assoc.runEI, get_addAll L, Assoc.get, merged]

/-- The keys of the split index are lawful: on the index records of the branches of trees on one
    set of uniquely named taxa (`specIdx` of a sub-list of the tips — what `ReinitIndexes` computes,
    theorem `indexOf_eq`), `HashEquals` is an equivalence and equal keys have equal `HashCode`.
    So `hm_refines`, `ei_refines` and `edgeIndex_counts` apply to `tree.EdgeIndex`. -/
theorem edge_keys_lawful (H : String → UInt64) (tips : List String) (hn : tips.Nodup) :
    KeyLaws (κ := { b : List String // b.Sublist tips })
      (fun b => (specIdx H tips b.1).hashCode)
      (fun b b' => (specIdx H tips b.1).equals (specIdx H tips b'.1)) := by
  have S : ∀ b b' : { b : List String // b.Sublist tips }, Sides tips tips b.1 b'.1 :=
    fun b b' => ⟨hn, hn, List.Perm.refl _, b.2, b'.2⟩
  refine ⟨?_, ?_, ?_, ?_⟩
  · intro a; rw [spec_equals_iff_sameSplit H (S a a)]; exact sameSplit_refl _ _
  · intro a b h
    rw [spec_equals_iff_sameSplit H (S a b)] at h
    rw [spec_equals_iff_sameSplit H (S b a)]; exact sameSplit_symm h
  · intro a b c h1 h2
    rw [spec_equals_iff_sameSplit H (S a b)] at h1
    rw [spec_equals_iff_sameSplit H (S b c)] at h2
    rw [spec_equals_iff_sameSplit H (S a c)]; exact sameSplit_trans h1 h2
  · intro a b h
    rw [spec_equals_iff_sameSplit H (S a b)] at h
    exact spec_hashCode_of_sameSplit H (S a b) h

/-- F36 (before fix b2a7fc8): a map created with capacity 0 panics on the first `PutValue`. -/
theorem hm_cap0_pinned_panics (hash : Nat → UInt64) (eqv : Nat → Nat → Bool) (policy : Nat → Nat → Bool) (k v : Nat) :
    HM.run hash eqv policy [.put k v] (HM.newPinned 0) = [.panic] := by
  simp [HM.run, HM.put, HM.newPinned]

end Gotree.C04
