import Gotree.Model.Core
