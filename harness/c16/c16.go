// Package c16: the tree generators of tree/treegen.go (library and `gotree generate …`).
//
// Case lines (inputs first, then what the implementation returned):
//
//	C16.gen   kind n rooted seed | class ints lens sync dump tips rootedFlag probes answers bits nright rawbits nleft hashcodes topodepths tipindexes nodedepths
//	C16.cli   kind n rooted seed nb tofile variant argv | exit errflags ntrees unreadable-output dumps ints;… lens;…
//	C16.topo  n rooted via names | class dumps            (via = lib | cli; names may be empty)
//
// Randomness: the real function is called after rand.Seed(seed); then the source is re-seeded and
// the draw script of the generator (sequence of Intn(k) / Exp calls) is replayed, which yields the
// integer draws and the exponential lengths handed to the model; one more value drawn after each
// of the two runs must coincide (`sync`): the real function consumed exactly the scripted values.
package c16

import (
	"bufio"
	"fmt"
	"io"
	"math"
	"math/rand"
	"os"
	"os/exec"
	"runtime"
	"strconv"
	"strings"
	"sync"
	"time"

	"verifharness/core"

	"github.com/evolbioinfo/gotree/io/newick"
	"github.com/evolbioinfo/gotree/tree"
)

// Watchdog: the code under test may loop or allocate without bound (an enumerator whose stop
// condition is missed never returns).  Every call is announced with begin(); a watchdog goroutine
// emits the case line of the current request with class timeout:/memory:, flushes and ends the run
// when the call exceeds its time or heap budget (the remaining cases are not run; the verdict of
// this one is a violation anyway).
var (
	wdMu    sync.Mutex
	wdOp    string
	wdIn    []string
	wdStart time.Time
	wdLimit time.Duration
	wdOnce  sync.Once
)

func begin(c *core.Ctx, limit time.Duration, op string, in ...string) {
	wdOnce.Do(func() {
		go func() {
			var ms runtime.MemStats
			for {
				time.Sleep(25 * time.Millisecond)
				wdMu.Lock()
				op, in, start, lim := wdOp, wdIn, wdStart, wdLimit
				wdMu.Unlock()
				if op == "" {
					continue
				}
				runtime.ReadMemStats(&ms)
				class := ""
				if ms.HeapAlloc > 3<<30 {
					class = "memory:heap-over-3GiB"
				} else if time.Since(start) > lim {
					class = "timeout:" + lim.String()
				}
				if class != "" {
					f := append(append([]string{}, in...), class)
					if op == "C16.gen" {
						f = append(f, "", "", "ok")
					} else {
						f = append(f, "")
					}
					c.Emit(op, f...)
					c.W.Flush()
					os.Exit(0)
				}
			}
		}()
	})
	wdMu.Lock()
	wdOp, wdIn, wdStart, wdLimit = op, in, time.Now(), limit
	wdMu.Unlock()
}

func end() {
	wdMu.Lock()
	wdOp = ""
	wdMu.Unlock()
}

var kinds = []string{"uniform", "yule", "caterpillar", "balanced", "star"}

var cliName = map[string]string{"uniform": "uniformtree", "yule": "yuletree", "caterpillar": "caterpillartree",
	"balanced": "balancedtree", "star": "startree"}

// script returns the draw script of a generator call: 0 = one Exp value, k > 0 = Intn(k).
func script(kind string, n int, rooted bool) []int {
	var s []int
	switch kind {
	case "uniform", "yule", "caterpillar":
		if n < 3 { // one guard since f417e91: nothing is drawn for a rejected size
			return nil
		}
		s = append(s, 0)
		nedges := 1
		if rooted {
			s = append(s, 0)
			nedges = 2
		}
		for i := 2; i < n; i++ {
			switch kind {
			case "uniform":
				s = append(s, nedges)
			case "yule":
				s = append(s, i)
			}
			s = append(s, 0, 0, 0)
			nedges += 2
		}
	case "balanced":
		if n < 1 || n > 20 || (n < 2 && !rooted) {
			return nil
		}
		for i := 0; i < 2*((1<<uint(n))-1); i++ {
			s = append(s, 0)
		}
	}
	return s
}

// replay runs a draw script on the global source (already seeded by the caller).
func replay(s []int, lambda float64) (ints []int, lens []float64) {
	for _, k := range s {
		if k == 0 {
			u := rand.Float64()
			lens = append(lens, -math.Log(1-u)/lambda)
		} else {
			ints = append(ints, rand.Intn(k))
		}
	}
	return
}

func b01(b bool) string {
	if b {
		return "1"
	}
	return "0"
}

func call(kind string, n int, rooted bool) (*tree.Tree, error) {
	switch kind {
	case "uniform":
		return tree.RandomUniformBinaryTree(n, rooted)
	case "yule":
		return tree.RandomYuleBinaryTree(n, rooted)
	case "caterpillar":
		return tree.RandomCaterpillarBinaryTree(n, rooted)
	case "balanced":
		return tree.RandomBalancedBinaryTree(n, rooted)
	case "star":
		return tree.StarTree(n)
	}
	panic("unknown kind " + kind)
}

func ntips(kind string, n int) int {
	if kind == "balanced" {
		if n < 0 || n > 20 {
			return 0
		}
		return 1 << uint(n)
	}
	if n < 0 {
		return 0
	}
	return n
}

// doGen: one library call.
func doGen(c *core.Ctx, kind string, n int, rooted bool, seed int64) {
	in := []string{kind, strconv.Itoa(n), b01(rooted), strconv.FormatInt(seed, 10)}
	var t *tree.Tree
	var err error
	rand.Seed(seed)
	begin(c, 60*time.Second, "C16.gen", in...)
	panicked, msg := core.Safe(func() { t, err = call(kind, n, rooted) })
	end()
	after1 := rand.Int63()
	rand.Seed(seed)
	ints, lens := replay(script(kind, n, rooted), 1.0/0.1)
	after2 := rand.Int63()
	sync := "ok"
	if after1 != after2 {
		sync = "diff"
	}
	out := func(class string, rest ...string) {
		f := append(append([]string{}, in...), class, core.IntList(ints), core.RatList(lens), sync)
		f = append(f, rest...)
		c.Emit("C16.gen", f...)
	}
	if panicked {
		out("panic:" + core.Escape(msg))
		return
	}
	if err != nil {
		// an error that comes together with a non-nil tree is recorded as such (class err:+tree)
		if t != nil {
			out("err:+tree")
		} else {
			out("err:" + core.Escape(err.Error()))
		}
		return
	}
	if t == nil {
		out("panic:nil-tree")
		return
	}
	a, wf := core.Alpha(t)
	if !wf.OK() {
		out("malformed:" + core.Escape(strings.Join(wf.Problems, "; ")))
		return
	}
	var tips []string
	for _, x := range t.Tips() {
		tips = append(tips, x.Name())
	}
	// index answers
	var probes []string
	nt := ntips(kind, n)
	for i := 0; i < nt; i++ {
		if i < 40 || i >= nt-3 {
			probes = append(probes, "Tip"+strconv.Itoa(i))
		}
	}
	probes = append(probes, "Tip"+strconv.Itoa(nt), "", "Tip", "tip0", "Tip01")
	var ans strings.Builder
	for _, p := range probes {
		var ok bool
		var e error
		if pp, _ := core.Safe(func() { ok, e = t.ExistsTip(p) }); pp || e != nil {
			ans.WriteByte('e')
		} else if ok {
			ans.WriteByte('1')
		} else {
			ans.WriteByte('0')
		}
	}
	// bitsets and taxon counts, through the public API
	var bits [][]string
	var nright []int
	// the raw index records, as C04 models them: bit vector in index order, both taxon counts,
	// HashCode, TopoDepth (-1 = error) per branch; TipIndex of every tip
	var rawbits strings.Builder
	var nleft, topod, tipidx []int
	var hcodes []string
	bitsOK := true
	if pp, _ := core.Safe(func() {
		for _, e := range t.Edges() {
			var below []string
			bs := e.Bitset()
			if bs == nil {
				bitsOK = false
				return
			}
			for _, name := range tips {
				idx, e2 := t.TipIndex(name)
				if e2 != nil {
					bitsOK = false
					return
				}
				if bs.Test(uint(idx)) {
					below = append(below, name)
				}
			}
			bits = append(bits, below)
			nright = append(nright, e.NumTipsRight())
			for i := uint(0); i < bs.Len(); i++ {
				if bs.Test(i) {
					rawbits.WriteByte('1')
				} else {
					rawbits.WriteByte('0')
				}
			}
			rawbits.WriteByte(';')
			nleft = append(nleft, e.NumTipsLeft())
			hcodes = append(hcodes, strconv.FormatUint(e.HashCode(), 10))
			if td, e3 := e.TopoDepth(); e3 == nil {
				topod = append(topod, td)
			} else {
				topod = append(topod, -1)
			}
		}
		for _, name := range tips {
			idx, e2 := t.TipIndex(name)
			if e2 != nil {
				idx = -1
			}
			tipidx = append(tipidx, idx)
		}
	}); pp {
		bitsOK = false
	}
	bitsField := core.StrLists(bits)
	if !bitsOK {
		bitsField = "NOBITS"
	}
	out("ok", a.Dump(), core.StrList(tips), b01(t.Rooted()), core.StrList(probes), ans.String(), bitsField, core.IntList(nright),
		rawbits.String(), core.IntList(nleft), termList(hcodes), core.IntList(topod), core.IntList(tipidx), core.IntList(nodeDepths(t)))
}

// parseTrees reads the Newick lines of a command's stdout with the real parser and returns the
// α dumps ("" when nothing could be read).
func parseTrees(stdout string) (dumps []string, bad int) {
	for _, l := range strings.Split(stdout, "\n") {
		if strings.TrimSpace(l) == "" {
			continue
		}
		var t *tree.Tree
		var err error
		if p, _ := core.Safe(func() { t, err = newick.NewParser(strings.NewReader(l)).Parse() }); p || err != nil || t == nil {
			bad++
			continue
		}
		a, wf := core.Alpha(t)
		if !wf.OK() {
			bad++
			continue
		}
		dumps = append(dumps, a.Dump())
	}
	return
}

func errFlags(r core.CLIResult) string {
	f := ""
	if strings.Contains(r.Stderr, "[Error]") || strings.Contains(r.Stderr, "Error:") {
		f += "E"
	}
	if strings.Contains(r.Stderr, "panic") || strings.Contains(r.Stderr, "goroutine ") || strings.Contains(r.Stderr, "SIGSEGV") {
		f += "P"
	}
	if r.Timeout {
		f += "T"
	}
	if f == "" {
		f = "-"
	}
	return f
}

// runCLI runs the gotree binary under an address-space limit (a generator that never stops must
// not take the machine down): `sh -c 'ulimit -v …; exec gotree …'`.
func runCLI(c *core.Ctx, timeout time.Duration, args ...string) core.CLIResult {
	saved := c.Gotree
	defer func() { c.Gotree = saved }()
	sh := append([]string{"-c", `ulimit -v 6291456; exec "$0" "$@"`, saved}, args...)
	c.Gotree = "/bin/sh"
	return c.RunCLI("", timeout, sh...)
}

// doCLI: one run of `gotree generate <kind> -n nb [-o file]`.
func doCLI(c *core.Ctx, kind string, n int, rooted bool, seed int64, nb int, toFile bool, variant string) {
	in := []string{kind, strconv.Itoa(n), b01(rooted), strconv.FormatInt(seed, 10), strconv.Itoa(nb), b01(toFile), variant}
	sizeFlag, sizeLong := "-l", "--nbtips"
	if kind == "balanced" {
		sizeFlag, sizeLong = "-d", "--depth"
	}
	var args []string
	// how the options are spelled (the values asked for are the same)
	switch variant {
	case "long":
		args = []string{"--seed", strconv.FormatInt(seed, 10), "--nbtrees", strconv.Itoa(nb), sizeLong, strconv.Itoa(n)}
		if rooted {
			args = append(args, "--rooted")
		}
	case "eq":
		args = []string{"--seed=" + strconv.FormatInt(seed, 10), "--nbtrees=" + strconv.Itoa(nb), sizeLong + "=" + strconv.Itoa(n)}
		if rooted {
			args = append(args, "--rooted=true")
		} else {
			args = append(args, "--rooted=false")
		}
	case "defaults": // size and number of trees left to their defaults (10 tips / depth 3, one tree)
		args = []string{"--seed", strconv.FormatInt(seed, 10)}
		if rooted {
			args = append(args, "-r")
		}
	case "threads":
		args = []string{"-t", "4", "--seed", strconv.FormatInt(seed, 10), "-n", strconv.Itoa(nb), sizeFlag, strconv.Itoa(n)}
		if rooted {
			args = append(args, "-r")
		}
	case "twice": // an option given twice: the last one counts
		args = []string{"--seed", "1", sizeFlag, "3", "--seed", strconv.FormatInt(seed, 10), "-n", strconv.Itoa(nb), sizeFlag, strconv.Itoa(n)}
		if rooted {
			args = append(args, "-r")
		}
	case "badout": // the output file cannot be created (its directory does not exist)
		args = []string{"--seed", strconv.FormatInt(seed, 10), "-n", strconv.Itoa(nb), sizeFlag, strconv.Itoa(n)}
		if rooted {
			args = append(args, "-r")
		}
		toFile = true
		in[5] = "1"
	case "noseed": // seeded from the clock: only the oracle applies
		args = []string{"-n", strconv.Itoa(nb), sizeFlag, strconv.Itoa(n)}
		if rooted {
			args = append(args, "-r")
		}
	default:
		variant = "short"
		in[6] = variant
		args = []string{"--seed", strconv.FormatInt(seed, 10), "-n", strconv.Itoa(nb), sizeFlag, strconv.Itoa(n)}
		if rooted {
			args = append(args, "-r")
		}
	}
	outfile := ""
	if variant == "badout" {
		outfile = c.TmpFile("") + ".no-such-dir/out.nw"
		args = append(args, "-o", outfile)
	} else if toFile {
		outfile = c.TmpFile("")
		if variant == "long" {
			args = append(args, "--output", outfile)
		} else if variant == "eq" {
			args = append(args, "--output="+outfile)
		} else {
			args = append(args, "-o", outfile)
		}
	} else if variant == "long" {
		args = append(args, "--output", "-")
	}
	// what the model's option parser is given: the options, with the file name made anonymous
	var argv []string
	for _, a := range args {
		if outfile != "" {
			a = strings.Replace(a, outfile, "FILE", 1)
		}
		argv = append(argv, a)
	}
	in = append(in, core.StrList(argv))
	args = append([]string{"generate", cliName[kind]}, args...)
	r := runCLI(c, 30*time.Second, args...)
	text := r.Stdout
	if toFile {
		b, _ := os.ReadFile(outfile)
		os.Remove(outfile)
		text = string(b)
		if variant == "badout" {
			// nothing may appear anywhere: neither in a file nor on standard output
			os.Remove(strings.TrimSuffix(outfile, ".no-such-dir/out.nw"))
			text += r.Stdout
		}
	}
	dumps, bad := parseTrees(text)
	// the draws of the nb successive calls, from the same seed
	rand.Seed(seed)
	var intsM, lensM strings.Builder
	for i := 0; i < nb; i++ {
		sc := script(kind, n, rooted)
		if kind == "star" && n >= 2 {
			// cmd/startree.go redraws every branch length: n Exp values per tree
			sc = make([]int, n)
		}
		ints, lens := replay(sc, 1.0/0.1)
		intsM.WriteString(core.IntList(ints) + ";")
		lensM.WriteString(core.RatList(lens) + ";")
	}
	nt := strconv.Itoa(len(dumps))
	badS := "-"
	if bad > 0 {
		badS = core.Escape(strings.TrimSpace(text))
		if len(badS) > 300 {
			badS = badS[:300]
		}
	}
	c.Emit("C16.cli", append(in, strconv.Itoa(r.Exit), errFlags(r), nt, badS, strings.Join(dumps, "|")+sep(dumps), intsM.String(), lensM.String())...)
}

// doTopo: the enumerator, library or command; `names` (may be nil) are the caller-supplied tip
// names (library: variadic argument; command: the tips of the tree given with -i).
func doTopo(c *core.Ctx, n int, rooted bool, via string, names []string) {
	in := []string{strconv.Itoa(n), b01(rooted), via, core.StrList(names)}
	if strings.HasPrefix(via, "cli") {
		args := []string{"generate", "topologies", "-l", strconv.Itoa(n)}
		if via == "cli-noinput" {
			// -i names a file that does not exist
			args = []string{"generate", "topologies", "-l", strconv.Itoa(n), "-i", c.TmpFile("") + ".absent"}
		} else if via == "cli-badinput" {
			// -i names a file that is not a tree
			args = []string{"generate", "topologies", "-l", strconv.Itoa(n), "-i", c.TmpFile("((A,B;\n")}
		} else if len(names) > 0 {
			// a star tree carrying the names, in this order
			file := c.TmpFile("(" + strings.Join(names, ",") + ");\n")
			args = []string{"generate", "topologies", "-i", file}
			if len(names)%2 == 0 {
				// -l next to -i: the number of tips is taken from the input tree
				args = append(args, "-l", "99")
			}
		}
		if rooted {
			args = append(args, "-r")
		}
		outfile := ""
		if via == "cli-badout" {
			// the output cannot be opened (its directory does not exist): stdout is what is looked at
			outfile = c.TmpFile("") + ".no-such-dir/out.nw"
			args = append(args, "-o", outfile)
		} else if n%2 == 1 {
			outfile = c.TmpFile("")
			args = append(args, "-o", outfile)
		}
		r := runCLI(c, 120*time.Second, args...)
		if outfile != "" {
			if b, e := os.ReadFile(outfile); e == nil && (r.Exit == 0 || len(b) > 0) {
				r.Stdout = string(b)
			}
			os.Remove(outfile)
		}
		dumps, bad := parseTrees(r.Stdout)
		class := "ok"
		switch {
		case strings.Contains(errFlags(r), "P") || r.Timeout:
			class = "panic:cli-" + errFlags(r)
		case r.Exit != 0 || strings.Contains(errFlags(r), "E"):
			// cobra echoes the error message on stdout: unreadable lines are expected here
			class = "err"
			if r.Exit == 0 {
				class = "err:exit0" // reported on stderr, but a calling script sees success
			}
			if len(dumps) > 0 {
				class = "malformed:error-and-output"
			}
		case bad > 0:
			class = "malformed:unreadable-output"
		}
		c.Emit("C16.topo", append(in, class, strings.Join(dumps, "|")+sep(dumps))...)
		return
	}
	var ts []*tree.Tree
	var err error
	begin(c, 120*time.Second, "C16.topo", in...)
	p, msg := core.Safe(func() { ts, err = tree.AllTopologies(n, rooted, names...) })
	end()
	if p {
		c.Emit("C16.topo", append(in, "panic:"+core.Escape(msg), "")...)
		return
	}
	if err != nil {
		c.Emit("C16.topo", append(in, "err", "")...)
		return
	}
	var b strings.Builder
	for _, t := range ts {
		a, wf := core.Alpha(t)
		if !wf.OK() {
			c.Emit("C16.topo", append(in, "malformed:"+core.Escape(strings.Join(wf.Problems, "; ")), "")...)
			return
		}
		b.WriteString(a.Dump())
		b.WriteByte('|')
	}
	c.Emit("C16.topo", append(in, "ok", b.String())...)
}

// nodeDepths: Node.Depth() of every node in Nodes() order (-1 = error, depth not computed)
func nodeDepths(t *tree.Tree) []int {
	var out []int
	core.Safe(func() {
		for _, n := range t.Nodes() {
			d, err := n.Depth()
			if err != nil {
				d = -1
			}
			out = append(out, d)
		}
	})
	return out
}

// termList: each item followed by ","
func termList(l []string) string {
	var b strings.Builder
	for _, x := range l {
		b.WriteString(x)
		b.WriteByte(',')
	}
	return b.String()
}

func sep(d []string) string {
	if len(d) == 0 {
		return ""
	}
	return "|"
}

// ---------------------------------------------------------------- the other constructors of treegen.go

func emitTree(c *core.Ctx, op string, in []string, t *tree.Tree, err error, panicked bool, msg string) {
	switch {
	case panicked:
		c.Emit(op, append(in, "panic:"+core.Escape(msg), "")...)
	case err != nil:
		c.Emit(op, append(in, "err:"+core.Escape(err.Error()), "")...)
	case t == nil:
		c.Emit(op, append(in, "panic:nil-tree", "")...)
	default:
		a, wf := core.Alpha(t)
		if !wf.OK() {
			c.Emit(op, append(in, "malformed:"+core.Escape(strings.Join(wf.Problems, "; ")), "")...)
			return
		}
		c.Emit(op, append(in, "ok", a.Dump())...)
	}
}

func parseList(s string) []string {
	var out []string
	if s == "" {
		return out
	}
	for _, x := range strings.Split(strings.TrimSuffix(s, ","), ",") {
		u, err := core.Unescape(x)
		if err != nil {
			panic(err)
		}
		out = append(out, u)
	}
	return out
}

func doStarNames(c *core.Ctx, names []string) {
	in := []string{core.StrList(names)}
	var t *tree.Tree
	var err error
	begin(c, 30*time.Second, "C16.starn", in...)
	p, msg := core.Safe(func() { t, err = tree.StarTreeFromName(names...) })
	end()
	emitTree(c, "C16.starn", in, t, err, p, msg)
}

func doStarTree(c *core.Ctx, dump string) {
	in := []string{dump}
	n, perr := core.ParseDump(dump)
	if perr != nil {
		panic(perr)
	}
	tin, berr := core.Build(n)
	if berr != nil {
		panic(berr)
	}
	var t *tree.Tree
	var err error
	begin(c, 30*time.Second, "C16.start", in...)
	p, msg := core.Safe(func() { t, err = tree.StarTreeFromTree(tin) })
	end()
	emitTree(c, "C16.start", in, t, err, p, msg)
}

func doBipart(c *core.Ctx, left, right []string) {
	in := []string{core.StrList(left), core.StrList(right)}
	var t *tree.Tree
	var err error
	begin(c, 30*time.Second, "C16.bipart", in...)
	p, msg := core.Safe(func() { t, err = tree.BipartitionTree(left, right) })
	end()
	emitTree(c, "C16.bipart", in, t, err, p, msg)
}

func doEdgeTree(c *core.Ctx, dump string, k int) {
	in := []string{dump, strconv.Itoa(k)}
	n, perr := core.ParseDump(dump)
	if perr != nil {
		panic(perr)
	}
	tin, berr := core.Build(n)
	if berr != nil {
		panic(berr)
	}
	if e := tin.ReinitIndexes(); e != nil {
		panic(e)
	}
	var t *tree.Tree
	begin(c, 30*time.Second, "C16.edgetree", in...)
	p, msg := core.Safe(func() { t = tree.EdgeTree(tin, tin.Edges()[k], nil) })
	end()
	emitTree(c, "C16.edgetree", in, t, nil, p, msg)
}

// Replay re-executes request lines on the real code.
func Replay(c *core.Ctx, lines []string) {
	for _, l := range lines {
		f := strings.Split(l, "\t")
		switch {
		case (f[0] == "C16.gen" || f[0] == "C16.cli") && len(f) >= 5:
			n, _ := strconv.Atoi(f[2])
			seed, _ := strconv.ParseInt(f[4], 10, 64)
			if f[0] == "C16.gen" {
				doGen(c, f[1], n, f[3] == "1", seed)
			} else if c.Gotree != "" {
				nb, toFile, variant := 1, false, "short"
				if len(f) >= 7 {
					nb, _ = strconv.Atoi(f[5])
					toFile = f[6] == "1"
				}
				if len(f) >= 8 {
					variant = f[7]
				}
				doCLI(c, f[1], n, f[3] == "1", seed, nb, toFile, variant)
			}
		case f[0] == "C16.starn" && len(f) >= 2:
			doStarNames(c, parseList(f[1]))
		case f[0] == "C16.start" && len(f) >= 2:
			doStarTree(c, f[1])
		case f[0] == "C16.bipart" && len(f) >= 3:
			doBipart(c, parseList(f[1]), parseList(f[2]))
		case f[0] == "C16.edgetree" && len(f) >= 3:
			k, _ := strconv.Atoi(f[2])
			doEdgeTree(c, f[1], k)
		case f[0] == "C16.topo" && len(f) >= 4:
			n, _ := strconv.Atoi(f[1])
			var names []string
			if len(f) >= 5 {
				for _, x := range strings.Split(strings.TrimSuffix(f[4], ","), ",") {
					if u, err := core.Unescape(x); err == nil && f[4] != "" {
						names = append(names, u)
					}
				}
			}
			if f[3] == "lib" || c.Gotree != "" {
				doTopo(c, n, f[2] == "1", f[3], names)
			}
		default:
			panic(fmt.Sprintf("C16: cannot replay %q", l))
		}
	}
}

// ---------------------------------------------------------------- isolation
//
// Library calls run in a child process (re-exec of this binary with `-arg @child`): a fatal
// runtime error (stack overflow of an endless recursion, out of memory) cannot be recovered in
// process.  The parent sends one request line, waits for the case line; when the child dies or
// stays silent, the parent writes the case line itself (class panic:fatal… / timeout:…) and
// starts a new child, so that one bad request does not hide the others.

type worker struct {
	cmd   *exec.Cmd
	in    io.WriteCloser
	lines chan string
	errb  *tailBuf
}

type tailBuf struct {
	mu sync.Mutex
	b  []byte
}

func (t *tailBuf) Write(p []byte) (int, error) {
	t.mu.Lock()
	defer t.mu.Unlock()
	t.b = append(t.b, p...)
	if len(t.b) > 4000 {
		t.b = t.b[len(t.b)-2000:]
	}
	return len(p), nil
}

func (t *tailBuf) head() string {
	t.mu.Lock()
	defer t.mu.Unlock()
	s := string(t.b)
	if i := strings.Index(s, "\n"); i > 0 {
		s = s[:i]
	}
	if len(s) > 200 {
		s = s[:200]
	}
	return s
}

func startWorker(c *core.Ctx) *worker {
	cmd := exec.Command(os.Args[0], "C16", "-arg", "@child", "-tier", c.Tier, "-gotree", c.Gotree, "-tmp", c.Tmp, "-repo", c.Repo)
	cmd.Env = append(os.Environ(), "GOMEMLIMIT=3GiB")
	in, err := cmd.StdinPipe()
	if err != nil {
		panic(err)
	}
	out, err := cmd.StdoutPipe()
	if err != nil {
		panic(err)
	}
	w := &worker{cmd: cmd, in: in, lines: make(chan string, 4), errb: &tailBuf{}}
	cmd.Stderr = w.errb
	if err := cmd.Start(); err != nil {
		panic(err)
	}
	go func() {
		r := bufio.NewReaderSize(out, 1<<20)
		for {
			l, err := r.ReadString('\n')
			if strings.HasSuffix(l, "\n") {
				w.lines <- strings.TrimSuffix(l, "\n")
			}
			if err != nil {
				close(w.lines)
				return
			}
		}
	}()
	return w
}

func (w *worker) stop() {
	w.in.Close()
	w.cmd.Process.Kill()
	w.cmd.Wait()
}

// emitFailed writes the case line of a request the child did not answer.
func emitFailed(c *core.Ctx, req string, class string) {
	f := strings.Split(req, "\t")
	f = append(f[1:], class)
	if strings.HasPrefix(req, "C16.gen") {
		f = append(f, "", "", "ok")
	} else {
		f = append(f, "")
	}
	if op := strings.Split(req, "\t")[0]; op == "C16.starn" || op == "C16.start" || op == "C16.bipart" || op == "C16.edgetree" {
		// only the input fields of these requests go back
		nin := map[string]int{"C16.starn": 1, "C16.start": 1, "C16.bipart": 2, "C16.edgetree": 2}[op]
		g := strings.Split(req, "\t")
		f = append(append([]string{}, g[1:1+nin]...), class, "")
	}
	c.Emit(strings.Split(req, "\t")[0], f...)
}

// execAll runs the library requests in child processes, the command requests here.
func execAll(c *core.Ctx, reqs []string) {
	var w *worker
	defer func() {
		if w != nil {
			w.stop()
		}
	}()
	for _, req := range reqs {
		f := strings.Split(req, "\t")
		if f[0] == "C16.topo" && len(f) == 4 {
			req += "\t" // no caller-supplied names
			f = append(f, "")
		}
		if f[0] == "C16.cli" || (f[0] == "C16.topo" && len(f) >= 4 && strings.HasPrefix(f[3], "cli")) {
			Replay(c, []string{req})
			continue
		}
		if w == nil {
			w = startWorker(c)
		}
		limit := 90 * time.Second
		if f[0] == "C16.topo" {
			limit = time.Duration(c.Scale(180, 900)) * time.Second
		}
		if _, err := io.WriteString(w.in, req+"\n"); err != nil {
			w.stop()
			w = startWorker(c)
			if _, err := io.WriteString(w.in, req+"\n"); err != nil {
				panic(err)
			}
		}
		select {
		case l, ok := <-w.lines:
			if !ok {
				w.cmd.Wait()
				emitFailed(c, req, "panic:fatal:"+core.Escape(w.errb.head()))
				w = nil
				continue
			}
			c.W.WriteString(l)
			c.W.WriteByte('\n')
			lf := strings.Split(l, "\t")
			for _, x := range lf {
				if strings.HasPrefix(x, "timeout:") || strings.HasPrefix(x, "memory:") {
					w.stop() // the child's own watchdog fired: it is exiting
					w = nil
					break
				}
			}
		case <-time.After(limit):
			w.stop()
			w = nil
			emitFailed(c, req, "timeout:"+limit.String())
		}
	}
}

func childLoop(c *core.Ctx) {
	r := bufio.NewReaderSize(os.Stdin, 1<<16)
	for {
		l, err := r.ReadString('\n')
		l = strings.TrimSuffix(l, "\n")
		if l != "" {
			Replay(c, []string{l})
			c.W.Flush()
		}
		if err != nil {
			return
		}
	}
}

func reqGen(kind string, n int, rooted bool, seed int64) string {
	return strings.Join([]string{"C16.gen", kind, strconv.Itoa(n), b01(rooted), strconv.FormatInt(seed, 10)}, "\t")
}
func reqCLI(kind string, n int, rooted bool, seed int64, nb int, toFile bool, variant string) string {
	return strings.Join([]string{"C16.cli", kind, strconv.Itoa(n), b01(rooted), strconv.FormatInt(seed, 10), strconv.Itoa(nb), b01(toFile), variant}, "\t")
}
func reqTopo(n int, rooted bool, via string, names ...string) string {
	return strings.Join([]string{"C16.topo", strconv.Itoa(n), b01(rooted), via, core.StrList(names)}, "\t")
}

var namePool = []string{"A", "b_2", "10", "Tip1", "x.y", "T-1", "Zz", "tip", "0", "Q7"}

func pickNames(c *core.Ctx, k int) []string {
	perm := c.G.R.Perm(len(namePool))
	var out []string
	for i := 0; i < k && i < len(perm); i++ {
		out = append(out, namePool[perm[i]])
	}
	return out
}

// Run generates the cases of C16.
func Run(c *core.Ctx) {
	if c.Arg == "@child" {
		childLoop(c)
		return
	}
	if c.Arg != "" {
		execAll(c, core.ReadRequests(c.Arg))
		return
	}
	var reqs []string
	newSeed := func() int64 { return int64(c.G.R.Int63n(1 << 40)) }
	// library: every size from below the minimum upwards, rooted and unrooted, several seeds
	maxAll := c.Scale(40, 64)
	seedsAll := c.Scale(4, 16)
	for _, kind := range kinds {
		lo, hi := -2, maxAll
		if kind == "balanced" {
			hi = c.Scale(6, 9)
		}
		for n := lo; n <= hi; n++ {
			for _, rooted := range []bool{false, true} {
				ns := seedsAll
				if kind == "star" || kind == "caterpillar" {
					ns = 1 // the result does not depend on the integer draws
					if kind == "star" && rooted {
						continue
					}
				}
				if kind == "balanced" && n >= 7 {
					ns = 1
				}
				for s := 0; s < ns; s++ {
					reqs = append(reqs, reqGen(kind, n, rooted, newSeed()))
				}
			}
		}
	}
	if !c.Quick() {
		for _, kind := range []string{"uniform", "yule", "caterpillar", "star"} {
			for k := 0; k < 100; k++ {
				n := 65 + c.G.Intn(236)
				for _, rooted := range []bool{false, true} {
					reqs = append(reqs, reqGen(kind, n, rooted, newSeed()))
				}
			}
		}
	}
	if !c.Quick() {
		// one big size per kind, so that "sizes upwards" is not capped at 300 in the evidence
		for _, big := range []struct {
			kind string
			n    int
		}{{"uniform", 1000}, {"yule", 1200}, {"caterpillar", 700}, {"balanced", 11}, {"star", 2000}} {
			reqs = append(reqs, reqGen(big.kind, big.n, c.Seed%2 == 0, newSeed()))
		}
	}
	// enumeration
	maxU, maxR := c.Scale(7, 8), c.Scale(7, 8)
	for n := -1; n <= maxU; n++ {
		reqs = append(reqs, reqTopo(n, false, "lib"))
	}
	for n := -1; n <= maxR; n++ {
		reqs = append(reqs, reqTopo(n, true, "lib"))
	}
	// enumeration with caller-supplied names: right number of names, one too many, one too few
	for n := 1; n <= c.Scale(6, 7); n++ {
		for _, rooted := range []bool{false, true} {
			reqs = append(reqs, reqTopo(n, rooted, "lib", pickNames(c, n)...))
			reqs = append(reqs, reqTopo(n, rooted, "lib", pickNames(c, n+1)...))
			if n >= 2 {
				reqs = append(reqs, reqTopo(n, rooted, "lib", pickNames(c, n-1)...))
			}
		}
	}
	// the other constructors of treegen.go
	nextra := c.Scale(40, 400)
	for i := 0; i < nextra; i++ {
		// StarTreeFromName: 0..7 names, sometimes one twice
		names := pickNames(c, c.G.Intn(8))
		if len(names) >= 2 && c.G.Chance(0.3) {
			names[len(names)-1] = names[0]
		}
		reqs = append(reqs, "C16.starn\t"+core.StrList(names))
		// StarTreeFromTree / EdgeTree on structured random trees (multifurcations, absent and zero
		// lengths, single-child nodes, 2..12 tips)
		o := core.DefaultOpts()
		o.MinTips, o.MaxTips = 2, 12
		o.Lengths = 2
		if c.G.Chance(0.2) {
			o.Singles = 0.2
		}
		tn, _ := c.G.Tree(o)
		if c.G.Chance(0.3) {
			// degenerate shape: the root is itself a tip (one neighbour)
			tn.E = &core.E{Len: 0.5, Sup: -1, Pval: -1, Id: -1}
			tn = &core.N{Name: "rt", Kids: []*core.N{tn}}
		}
		reqs = append(reqs, "C16.start\t"+tn.Dump())
		o.Singles = 0
		o.MinTips = 3
		te, _ := c.G.Tree(o)
		if c.G.Chance(0.15) {
			// the root is itself a tip
			te.E = &core.E{Len: 0.25, Sup: -1, Pval: -1, Id: -1}
			te = &core.N{Name: "rt", Kids: []*core.N{te}}
		}
		if len(te.Kids) >= 1 {
			ne := te.NNodes() - 1
			reqs = append(reqs, "C16.edgetree\t"+te.Dump()+"\t"+strconv.Itoa(c.G.Intn(ne)))
		}
		// BipartitionTree: sides of 0..4 names; sometimes a common name, sometimes a name twice in a side
		pool := pickNames(c, 9)
		nl, nr := c.G.Intn(5), c.G.Intn(5)
		left, right := append([]string{}, pool[:nl]...), append([]string{}, pool[nl:nl+nr]...)
		switch {
		case c.G.Chance(0.2) && nl > 0 && nr > 0:
			right[c.G.Intn(nr)] = left[c.G.Intn(nl)]
		case c.G.Chance(0.1) && nl >= 2:
			left[1] = left[0]
		}
		reqs = append(reqs, "C16.bipart\t"+core.StrList(left)+"\t"+core.StrList(right))
	}
	// command line
	if c.Gotree != "" {
		sizes := []int{-1, 0, 1, 2, 3, 4, 5, 8, 17}
		if !c.Quick() {
			sizes = append(sizes, 6, 7, 11, 33, 100)
		}
		for _, kind := range kinds {
			for _, n := range sizes {
				if kind == "balanced" && n > 8 {
					continue
				}
				// every size with both rootednesses: one tree on stdout; two trees into a file (-o);
				// three trees on stdout
				reqs = append(reqs, reqCLI(kind, n, false, 1+newSeed(), 1, false, "short"))
				reqs = append(reqs, reqCLI(kind, n, true, 1+newSeed(), 1, false, "long"))
				reqs = append(reqs, reqCLI(kind, n, n%2 == 0, 1+newSeed(), 2, true, "short"))
				reqs = append(reqs, reqCLI(kind, n, n%2 == 1, 1+newSeed(), 2, true, "long"))
				reqs = append(reqs, reqCLI(kind, n, n%3 == 0, 1+newSeed(), 3, false, "threads"))
				reqs = append(reqs, reqCLI(kind, n, n%3 == 1, 1+newSeed(), 2, n%2 == 0, "eq"))
				reqs = append(reqs, reqCLI(kind, n, n%2 == 0, 1+newSeed(), 2, false, "twice"))
				reqs = append(reqs, reqCLI(kind, n, n%2 == 1, 1+newSeed(), 2, n%3 == 0, "noseed"))
			}
			// no tree asked for (-n 0, -n -1): the loop body never runs, whatever the size; an output
			// file that cannot be created: an error before any generator call
			for _, n := range []int{1, 2, 5} {
				reqs = append(reqs, reqCLI(kind, n, n%2 == 1, 1+newSeed(), 0, false, "short"))
				reqs = append(reqs, reqCLI(kind, n, n%2 == 0, 1+newSeed(), -1, n == 5, "eq"))
				reqs = append(reqs, reqCLI(kind, n+1+n/5, n%2 == 1, 1+newSeed(), 1+n%2, true, "badout")) // sizes 2, 3, 7
			}
			// size and number of trees left to their defaults: 10 tips / depth 3, one tree
			dn := 10
			if kind == "balanced" {
				dn = 3
			}
			reqs = append(reqs, reqCLI(kind, dn, false, 1+newSeed(), 1, false, "defaults"))
			reqs = append(reqs, reqCLI(kind, dn, true, 1+newSeed(), 1, true, "defaults"))
			reqs = append(reqs, reqCLI(kind, dn, false, 1+newSeed(), 1, true, "defaults"))
			reqs = append(reqs, reqCLI(kind, dn, true, 1+newSeed(), 1, false, "defaults"))
		}
		// the command's own failures: an input that does not exist / is not a tree, an output that cannot be opened
		reqs = append(reqs, reqTopo(4, false, "cli-noinput"), reqTopo(4, true, "cli-badinput"), reqTopo(4, false, "cli-badout"),
			reqTopo(3, true, "cli-badout"), reqTopo(1, false, "cli-badout"))
		for n := 1; n <= c.Scale(5, 6); n++ {
			reqs = append(reqs, reqTopo(n, false, "cli"), reqTopo(n, true, "cli"))
			if n >= 2 { // a one-name input tree would be a tree rooted at a tip
				reqs = append(reqs, reqTopo(n, false, "cli", pickNames(c, n)...), reqTopo(n, true, "cli", pickNames(c, n)...))
			}
		}
	}
	execAll(c, reqs)
}
