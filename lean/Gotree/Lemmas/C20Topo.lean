/-
  C20 — every unrooted binary topology is produced by the uniform-tree generator
  (surjectivity half of `uniform_unrooted_bijective`).  Core Lean only.
-/
import Gotree.Lemmas.C20

namespace Gotree.C20
open Gotree List

def BT.isTip (i : Nat) : BT → Bool
  | .tip j => j == i
  | .node _ _ => false

/-- remove the tip `i`: its sibling takes the place of their parent -/
def rem (i : Nat) : BT → BT
  | .tip j => .tip j
  | .node l r =>
    if l.isTip i then r else if r.isTip i then l
    else if l.leaves.contains i then .node (rem i l) r else .node l (rem i r)

/-- the leaves of the sibling of the tip `i` -/
def sib (i : Nat) : BT → List Nat
  | .tip _ => []
  | .node l r =>
    if l.isTip i then r.leaves else if r.isTip i then l.leaves
    else if l.leaves.contains i then sib i l else sib i r

/-- the clusters of the proper subtrees -/
def BT.rest (m : Nat) : BT → List (List Nat)
  | .tip _ => []
  | .node l r => l.clusters m ++ r.clusters m

theorem BT.clusters_eq (m : Nat) (t : BT) : t.clusters m = clOf m t.leaves :: t.rest m := by
  cases t <;> rfl

theorem BT.leaves_ne_nil (t : BT) : t.leaves ≠ [] := by
  induction t with
  | tip i => simp [BT.leaves]
  | node l r ihl _ => simp [BT.leaves, ihl]

theorem isTip_eq {i : Nat} {t : BT} (h : t.isTip i = true) : t = .tip i := by
  cases t with
  | tip j => simp [BT.isTip] at h; rw [h]
  | node l r => simp [BT.isTip] at h

/-! ### `clOf` -/

theorem mem_clOf {m y : Nat} {ls : List Nat} : y ∈ clOf m ls ↔ y < m ∧ y ∈ ls := by
  simp [clOf]

theorem clOf_succ (m : Nat) (ls : List Nat) :
    clOf (m + 1) ls = clOf m ls ++ (if ls.contains m then [m] else []) := by
  simp only [clOf, List.range_succ, List.filter_append]
  congr 1
  by_cases h : m ∈ ls <;> simp [h]

theorem clOf_congr {m : Nat} {l1 l2 : List Nat} (h : ∀ y, y < m → (y ∈ l1 ↔ y ∈ l2)) :
    clOf m l1 = clOf m l2 := by
  simp only [clOf]
  apply List.filter_congr
  intro y hy
  have := h y (List.mem_range.1 hy)
  by_cases h1 : y ∈ l1 <;> simp_all

theorem clOf_succ_of_not_mem {m : Nat} {ls : List Nat} (h : m ∉ ls) : clOf (m + 1) ls = clOf m ls := by
  rw [clOf_succ]; simp [h]

theorem clOf_succ_of_mem {m : Nat} {ls : List Nat} (h : m ∈ ls) : clOf (m + 1) ls = clOf m ls ++ [m] := by
  rw [clOf_succ]; simp [h]

theorem clOf_singleton_self (i : Nat) : clOf (i + 1) [i] = [i] := by
  rw [clOf_succ_of_mem (by simp)]
  have : clOf i [i] = [] := by
    simp only [clOf, List.filter_eq_nil_iff]
    intro a ha
    have := List.mem_range.1 ha
    simp; omega
  simp [this]

theorem subset_iff {b c : List Nat} : subset b c = true ↔ ∀ y ∈ b, y ∈ c := by
  simp [subset]

/-! ### clusters -/

theorem clusters_succ_of_lt {m : Nat} (t : BT) (h : ∀ y ∈ t.leaves, y < m) :
    t.clusters (m + 1) = t.clusters m := by
  induction t with
  | tip i =>
    have : m ∉ [i] := by intro hm; have := h m (by simpa [BT.leaves] using hm); omega
    simp [BT.clusters, clOf_succ_of_not_mem this]
  | node l r ihl ihr =>
    have hl : ∀ y ∈ l.leaves, y < m := fun y hy => h y (by simp [BT.leaves, hy])
    have hr : ∀ y ∈ r.leaves, y < m := fun y hy => h y (by simp [BT.leaves, hy])
    have : m ∉ l.leaves ++ r.leaves := by
      intro hm; have := h m (by simpa [BT.leaves] using hm); omega
    simp [BT.clusters, ihl hl, ihr hr, clOf_succ_of_not_mem this]

theorem mem_clusters_sub {m : Nat} (t : BT) {c : List Nat} (hc : c ∈ t.clusters m) :
    ∀ y ∈ c, y ∈ t.leaves := by
  induction t with
  | tip i =>
    simp only [BT.clusters, List.mem_singleton] at hc
    subst hc
    intro y hy; exact (mem_clOf.1 hy).2
  | node l r ihl ihr =>
    simp only [BT.clusters, List.mem_cons, List.mem_append] at hc
    rcases hc with rfl | hc | hc
    · intro y hy; exact (mem_clOf.1 hy).2
    · intro y hy; simp [BT.leaves, ihl hc y hy]
    · intro y hy; simp [BT.leaves, ihr hc y hy]

/-- a cluster `b` with an element outside `t` is contained in no cluster of `t` -/
theorem map_ext_of_outside {m : Nat} (t : BT) (b : List Nat) (i y : Nat) (hy : y ∈ b) (hn : y ∉ t.leaves) :
    (t.clusters m).map (extCl b i) = t.clusters m := by
  conv => rhs; rw [← List.map_id (t.clusters m)]
  apply List.map_congr_left
  intro c hc
  have : subset b c = false := by
    cases hs : subset b c with
    | false => rfl
    | true => exact absurd (mem_clusters_sub t hc y (subset_iff.1 hs y hy)) hn
  simp [extCl, this]

theorem rest_missing {m : Nat} (t : BT) (hn : t.leaves.Nodup) (hlt : ∀ y ∈ t.leaves, y < m)
    {c : List Nat} (hc : c ∈ t.rest m) : ∃ y ∈ clOf m t.leaves, y ∉ c := by
  cases t with
  | tip i => simp [BT.rest] at hc
  | node l r =>
    simp only [BT.leaves] at hn hlt
    have hd := (List.nodup_append.1 hn).2.2
    simp only [BT.rest, List.mem_append] at hc
    rcases hc with hc | hc
    · obtain ⟨y, hy⟩ := List.exists_mem_of_ne_nil _ r.leaves_ne_nil
      refine ⟨y, mem_clOf.2 ⟨hlt y (by simp [hy]), by simp [BT.leaves, hy]⟩, ?_⟩
      intro hyc
      have := mem_clusters_sub l hc y hyc
      exact hd y this y hy rfl
    · obtain ⟨y, hy⟩ := List.exists_mem_of_ne_nil _ l.leaves_ne_nil
      refine ⟨y, mem_clOf.2 ⟨hlt y (by simp [hy]), by simp [BT.leaves, hy]⟩, ?_⟩
      intro hyc
      have := mem_clusters_sub r hc y hyc
      exact hd y hy y this rfl

theorem map_ext_self {m : Nat} (t : BT) (i : Nat) (hn : t.leaves.Nodup) (hlt : ∀ y ∈ t.leaves, y < m) :
    (t.clusters m).map (extCl (clOf m t.leaves) i) = (clOf m t.leaves ++ [i]) :: t.rest m := by
  rw [BT.clusters_eq, List.map_cons]
  congr 1
  · simp [extCl, subset_refl]
  · conv => rhs; rw [← List.map_id (t.rest m)]
    apply List.map_congr_left
    intro c hc
    obtain ⟨y, hy, hyc⟩ := rest_missing t hn hlt hc
    have : subset (clOf m t.leaves) c = false := by
      cases hs : subset (clOf m t.leaves) c with
      | false => rfl
      | true => exact absurd (subset_iff.1 hs y hy) hyc
    simp [extCl, this]

/-! ### removing a tip -/

structure RemHyp (i : Nat) (t : BT) : Prop where
  mem : i ∈ t.leaves
  nodup : t.leaves.Nodup
  notTip : t.isTip i = false
  le : ∀ y ∈ t.leaves, y ≤ i

theorem not_mem_of_isTip_false_tip {i j : Nat} (h : (BT.tip j).isTip i = false) : i ≠ j := by
  intro e; simp [BT.isTip, e] at h

/-- hypotheses for the subtree that holds the tip -/
theorem RemHyp.left {i : Nat} {l r : BT} (h : RemHyp i (.node l r)) (hl : l.isTip i = false)
    (hm : i ∈ l.leaves) : RemHyp i l :=
  ⟨hm, (List.nodup_append.1 h.nodup).1, hl, fun y hy => h.le y (by simp [BT.leaves, hy])⟩

theorem RemHyp.right {i : Nat} {l r : BT} (h : RemHyp i (.node l r)) (hr : r.isTip i = false)
    (hm : i ∈ r.leaves) : RemHyp i r :=
  ⟨hm, (List.nodup_append.1 h.nodup).2.1, hr, fun y hy => h.le y (by simp [BT.leaves, hy])⟩

theorem RemHyp.disj {i : Nat} {l r : BT} (h : RemHyp i (.node l r)) :
    ∀ y, y ∈ l.leaves → y ∈ r.leaves → False := by
  intro y h1 h2
  exact (List.nodup_append.1 h.nodup).2.2 y h1 y h2 rfl

theorem leaves_rem {i : Nat} (t : BT) (h : RemHyp i t) : t.leaves.Perm (i :: (rem i t).leaves) := by
  induction t with
  | tip j =>
    have := h.mem; simp [BT.leaves] at this
    have := h.notTip; simp [BT.isTip] at this; omega
  | node l r ihl ihr =>
    unfold rem
    by_cases hl : l.isTip i = true
    · rw [if_pos hl, isTip_eq hl]; simp [BT.leaves]
    · rw [if_neg hl]
      by_cases hr : r.isTip i = true
      · rw [if_pos hr, isTip_eq hr]
        simp only [BT.leaves]
        exact List.perm_append_singleton _ _
      · rw [if_neg hr]
        by_cases hc : l.leaves.contains i = true
        · rw [if_pos hc]
          have hm : i ∈ l.leaves := by simpa using hc
          have := ihl (h.left (by simpa using hl) hm)
          simp only [BT.leaves]
          exact (this.append_right _).trans (by simp)
        · rw [if_neg hc]
          have hm : i ∈ r.leaves := by
            have := h.mem; simp [BT.leaves] at this
            rcases this with h1 | h1
            · exact absurd (by simpa using h1) hc
            · exact h1
          have := ihr (h.right (by simpa using hr) hm)
          simp only [BT.leaves]
          exact (this.append_left _).trans List.perm_middle

theorem mem_leaves_rem {i : Nat} (t : BT) (h : RemHyp i t) (y : Nat) :
    y ∈ (rem i t).leaves ↔ (y ∈ t.leaves ∧ y ≠ i) := by
  have hp := leaves_rem t h
  have hnd : (i :: (rem i t).leaves).Nodup := hp.nodup_iff.1 h.nodup
  rw [List.nodup_cons] at hnd
  constructor
  · intro hy
    exact ⟨hp.mem_iff.2 (by simp [hy]), fun e => hnd.1 (e ▸ hy)⟩
  · rintro ⟨hy, hne⟩
    have := hp.mem_iff.1 hy
    simp at this
    rcases this with rfl | h1
    · exact absurd rfl hne
    · exact h1

theorem lt_of_mem_rem {i : Nat} (t : BT) (h : RemHyp i t) : ∀ y ∈ (rem i t).leaves, y < i := by
  intro y hy
  have := (mem_leaves_rem t h y).1 hy
  have := h.le y this.1
  omega

theorem sib_sub {i : Nat} (t : BT) (h : RemHyp i t) :
    sib i t ≠ [] ∧ ∀ y ∈ sib i t, y ∈ (rem i t).leaves := by
  induction t with
  | tip j =>
    have := h.mem; simp [BT.leaves] at this
    have := h.notTip; simp [BT.isTip] at this; omega
  | node l r ihl ihr =>
    unfold rem sib
    by_cases hl : l.isTip i = true
    · simp only [if_pos hl]; exact ⟨r.leaves_ne_nil, fun y hy => hy⟩
    · simp only [if_neg hl]
      by_cases hr : r.isTip i = true
      · simp only [if_pos hr]; exact ⟨l.leaves_ne_nil, fun y hy => hy⟩
      · simp only [if_neg hr]
        by_cases hc : l.leaves.contains i = true
        · simp only [if_pos hc]
          have hm : i ∈ l.leaves := by simpa using hc
          have := ihl (h.left (by simpa using hl) hm)
          exact ⟨this.1, fun y hy => by simp [BT.leaves, this.2 y hy]⟩
        · simp only [if_neg hc]
          have hm : i ∈ r.leaves := by
            have := h.mem; simp [BT.leaves] at this
            rcases this with h1 | h1
            · exact absurd (by simpa using h1) hc
            · exact h1
          have := ihr (h.right (by simpa using hr) hm)
          exact ⟨this.1, fun y hy => by simp [BT.leaves, this.2 y hy]⟩

/-- the cluster of the sibling is a cluster of the tree without the tip -/
theorem sib_mem_clusters {i : Nat} (m : Nat) (t : BT) (h : RemHyp i t) :
    clOf m (sib i t) ∈ (rem i t).clusters m := by
  induction t with
  | tip j =>
    have := h.mem; simp [BT.leaves] at this
    have := h.notTip; simp [BT.isTip] at this; omega
  | node l r ihl ihr =>
    unfold rem sib
    by_cases hl : l.isTip i = true
    · simp only [if_pos hl]; rw [BT.clusters_eq]; simp
    · simp only [if_neg hl]
      by_cases hr : r.isTip i = true
      · simp only [if_pos hr]; rw [BT.clusters_eq]; simp
      · simp only [if_neg hr]
        by_cases hc : l.leaves.contains i = true
        · simp only [if_pos hc]
          have hm : i ∈ l.leaves := by simpa using hc
          have := ihl (h.left (by simpa using hl) hm)
          simp [BT.clusters, this]
        · simp only [if_neg hc]
          have hm : i ∈ r.leaves := by
            have := h.mem; simp [BT.leaves] at this
            rcases this with h1 | h1
            · exact absurd (by simpa using h1) hc
            · exact h1
          have := ihr (h.right (by simpa using hr) hm)
          simp [BT.clusters, this]

/-! ### the key step: the clusters of a tree from those of the tree without its largest tip -/

theorem clOf_append_tip_left {i : Nat} (ls : List Nat) (_h : i ∉ ls) :
    clOf (i + 1) ([i] ++ ls) = clOf i ls ++ [i] := by
  rw [clOf_succ_of_mem (by simp)]
  congr 1
  apply clOf_congr
  intro y hy
  simp; omega

theorem clOf_append_tip_right {i : Nat} (ls : List Nat) (_h : i ∉ ls) :
    clOf (i + 1) (ls ++ [i]) = clOf i ls ++ [i] := by
  rw [clOf_succ_of_mem (by simp)]
  congr 1
  apply clOf_congr
  intro y hy
  simp; omega

theorem clusters_graft {i : Nat} (t : BT) (h : RemHyp i t) :
    (t.clusters (i + 1)).Perm
      (((rem i t).clusters i).map (extCl (clOf i (sib i t)) i) ++ [[i], clOf i (sib i t)]) := by
  induction t with
  | tip j =>
    have := h.mem; simp [BT.leaves] at this
    have := h.notTip; simp [BT.isTip] at this; omega
  | node l r ihl ihr =>
    have hndl := (List.nodup_append.1 h.nodup).1
    have hndr := (List.nodup_append.1 h.nodup).2.1
    unfold rem sib
    by_cases hl : l.isTip i = true
    · -- the tip is the left child
      simp only [if_pos hl]
      have hle := isTip_eq hl
      subst hle
      have hir : i ∉ r.leaves := fun hm => h.disj i (by simp [BT.leaves]) hm
      have hlt : ∀ y ∈ r.leaves, y < i := by
        intro y hy
        have := h.le y (by simp [BT.leaves, hy])
        have : y ≠ i := fun e => hir (e ▸ hy)
        omega
      rw [map_ext_self r i hndr hlt]
      simp only [BT.clusters, BT.leaves]
      rw [clOf_append_tip_left _ hir, clOf_singleton_self, clusters_succ_of_lt r hlt, BT.clusters_eq]
      apply List.Perm.cons
      simp only [List.singleton_append]
      exact (List.perm_append_comm (l₁ := r.rest i) (l₂ := [[i], clOf i r.leaves])).symm
    · simp only [if_neg hl]
      by_cases hr : r.isTip i = true
      · -- the tip is the right child
        simp only [if_pos hr]
        have hre := isTip_eq hr
        subst hre
        have hil : i ∉ l.leaves := fun hm => h.disj i hm (by simp [BT.leaves])
        have hlt : ∀ y ∈ l.leaves, y < i := by
          intro y hy
          have := h.le y (by simp [BT.leaves, hy])
          have : y ≠ i := fun e => hil (e ▸ hy)
          omega
        rw [map_ext_self l i hndl hlt]
        simp only [BT.clusters, BT.leaves]
        rw [clOf_append_tip_right _ hil, clOf_singleton_self, clusters_succ_of_lt l hlt, BT.clusters_eq]
        apply List.Perm.cons
        simp only [List.cons_append]
        have : (clOf i l.leaves :: (l.rest i ++ [[i]])).Perm ((l.rest i ++ [[i]]) ++ [clOf i l.leaves]) :=
          (List.perm_append_singleton _ _).symm
        simpa using this
      · simp only [if_neg hr]
        by_cases hc : l.leaves.contains i = true
        · -- the tip is deeper in the left subtree
          simp only [if_pos hc]
          have hm : i ∈ l.leaves := by simpa using hc
          have hL := h.left (by simpa using hl) hm
          have ih := ihl hL
          have hs := sib_sub l hL
          obtain ⟨y0, hy0⟩ := List.exists_mem_of_ne_nil _ hs.1
          have hy0rem := hs.2 y0 hy0
          have hy0l : y0 ∈ l.leaves := ((mem_leaves_rem l hL y0).1 hy0rem).1
          have hy0lt : y0 < i := lt_of_mem_rem l hL y0 hy0rem
          have hy0b : y0 ∈ clOf i (sib i l) := mem_clOf.2 ⟨hy0lt, hy0⟩
          have hy0r : y0 ∉ r.leaves := fun hm' => h.disj y0 hy0l hm'
          have hir : i ∉ r.leaves := fun hm' => h.disj i hm hm'
          have hltr : ∀ y ∈ r.leaves, y < i := by
            intro y hy
            have := h.le y (by simp [BT.leaves, hy])
            have : y ≠ i := fun e => hir (e ▸ hy)
            omega
          simp only [BT.clusters, List.map_cons, List.map_append]
          rw [clusters_succ_of_lt r hltr, map_ext_of_outside r _ i y0 hy0b hy0r]
          -- the top cluster
          have htop : extCl (clOf i (sib i l)) i (clOf i ((rem i l).leaves ++ r.leaves)) =
              clOf (i + 1) (l.leaves ++ r.leaves) := by
            have hsub : subset (clOf i (sib i l)) (clOf i ((rem i l).leaves ++ r.leaves)) = true := by
              rw [subset_iff]
              intro y hy
              have := mem_clOf.1 hy
              exact mem_clOf.2 ⟨this.1, by simp [hs.2 y this.2]⟩
            simp only [extCl, hsub, if_true]
            rw [clOf_succ_of_mem (by simp [hm])]
            congr 1
            apply clOf_congr
            intro y hy
            simp only [List.mem_append, mem_leaves_rem l hL y]
            constructor
            · rintro (⟨h1, _⟩ | h1)
              · exact Or.inl h1
              · exact Or.inr h1
            · rintro (h1 | h1)
              · exact Or.inl ⟨h1, by omega⟩
              · exact Or.inr h1
          rw [htop]
          apply List.Perm.cons
          refine (ih.append_right _).trans ?_
          show _ ~ (_ ++ _) ++ _
          rw [List.append_assoc, List.append_assoc]
          exact List.Perm.append_left _ List.perm_append_comm
        · -- the tip is deeper in the right subtree
          simp only [if_neg hc]
          have hil : i ∉ l.leaves := by simpa using hc
          have hm : i ∈ r.leaves := by
            have := h.mem; simp [BT.leaves] at this
            rcases this with h1 | h1
            · exact absurd h1 hil
            · exact h1
          have hR := h.right (by simpa using hr) hm
          have ih := ihr hR
          have hs := sib_sub r hR
          obtain ⟨y0, hy0⟩ := List.exists_mem_of_ne_nil _ hs.1
          have hy0rem := hs.2 y0 hy0
          have hy0r : y0 ∈ r.leaves := ((mem_leaves_rem r hR y0).1 hy0rem).1
          have hy0lt : y0 < i := lt_of_mem_rem r hR y0 hy0rem
          have hy0b : y0 ∈ clOf i (sib i r) := mem_clOf.2 ⟨hy0lt, hy0⟩
          have hy0l : y0 ∉ l.leaves := fun hm' => h.disj y0 hm' hy0r
          have hltl : ∀ y ∈ l.leaves, y < i := by
            intro y hy
            have := h.le y (by simp [BT.leaves, hy])
            have : y ≠ i := fun e => hil (e ▸ hy)
            omega
          simp only [BT.clusters, List.map_cons, List.map_append]
          rw [clusters_succ_of_lt l hltl, map_ext_of_outside l _ i y0 hy0b hy0l]
          have htop : extCl (clOf i (sib i r)) i (clOf i (l.leaves ++ (rem i r).leaves)) =
              clOf (i + 1) (l.leaves ++ r.leaves) := by
            have hsub : subset (clOf i (sib i r)) (clOf i (l.leaves ++ (rem i r).leaves)) = true := by
              rw [subset_iff]
              intro y hy
              have := mem_clOf.1 hy
              exact mem_clOf.2 ⟨this.1, by simp [hs.2 y this.2]⟩
            simp only [extCl, hsub, if_true]
            rw [clOf_succ_of_mem (by simp [hm])]
            congr 1
            apply clOf_congr
            intro y hy
            simp only [List.mem_append, mem_leaves_rem r hR y]
            constructor
            · rintro (h1 | ⟨h1, _⟩)
              · exact Or.inl h1
              · exact Or.inr h1
            · rintro (h1 | h1)
              · exact Or.inl h1
              · exact Or.inr ⟨h1, by omega⟩
          rw [htop]
          apply List.Perm.cons
          show _ ~ (_ ++ _) ++ _
          rw [List.append_assoc]
          exact List.Perm.append_left _ ih

/-! ### every topology is produced -/

theorem utree_surjective (m : Nat) (bt : BT) (h : bt.leaves.Perm (List.range' 1 (m + 1))) :
    ∃ d, inBounds (loopBounds 1 m) d = true ∧
      (utreeLoop d 2 (utreeInit false)).Perm (bt.clusters (m + 2)) := by
  induction m generalizing bt with
  | zero =>
    refine ⟨[], by simp [loopBounds, inBounds], ?_⟩
    cases bt with
    | tip j =>
      have : j = 1 := by
        have := h.mem_iff (a := j)
        simp [BT.leaves] at this
        exact this
      subst this
      decide
    | node l r =>
      have := h.length_eq
      simp [BT.leaves] at this
      have h1 : l.leaves.length ≠ 0 := fun e => l.leaves_ne_nil (List.eq_nil_of_length_eq_zero e)
      have h2 : r.leaves.length ≠ 0 := fun e => r.leaves_ne_nil (List.eq_nil_of_length_eq_zero e)
      omega
  | succ m ih =>
    -- the tip added last
    have hrange : List.range' 1 (m + 1 + 1) = List.range' 1 (m + 1) ++ [m + 2] := by
      rw [List.range'_concat]; simp; omega
    have hyp : RemHyp (m + 2) bt := by
      refine ⟨?_, ?_, ?_, ?_⟩
      · exact h.mem_iff.2 (by rw [List.mem_range'_1]; omega)
      · exact h.nodup_iff.2 (List.nodup_range')
      · cases bt with
        | tip j =>
          have := h.length_eq
          simp [BT.leaves] at this
        | node l r => rfl
      · intro y hy
        have := h.mem_iff.1 hy
        simp [List.mem_range'] at this
        omega
    have hp1 := leaves_rem bt hyp
    have hleaves' : (rem (m + 2) bt).leaves.Perm (List.range' 1 (m + 1)) := by
      have h2 : ((m + 2) :: (rem (m + 2) bt).leaves).Perm ((m + 2) :: List.range' 1 (m + 1)) := by
        refine hp1.symm.trans (h.trans ?_)
        rw [hrange]
        exact List.perm_append_singleton _ _
      exact List.Perm.cons_inv h2
    obtain ⟨d', hb', hp'⟩ := ih (rem (m + 2) bt) hleaves'
    obtain ⟨hinv, hlen, hdl⟩ := utreeLoop_inv (utreeInit false) 2 (utreeInit_inv false) m d' hb'
    have hE : (utreeInit false).length = 1 := rfl
    rw [hE] at hlen
    -- the branch the last tip was grafted on
    have hbmem : clOf (m + 2) (sib (m + 2) bt) ∈ utreeLoop d' 2 (utreeInit false) :=
      hp'.mem_iff.2 (sib_mem_clusters (m + 2) bt hyp)
    have hj : (utreeLoop d' 2 (utreeInit false)).idxOf (clOf (m + 2) (sib (m + 2) bt)) <
        (utreeLoop d' 2 (utreeInit false)).length := List.idxOf_lt_length_of_mem hbmem
    refine ⟨d' ++ [(utreeLoop d' 2 (utreeInit false)).idxOf (clOf (m + 2) (sib (m + 2) bt))], ?_, ?_⟩
    · rw [loopBounds, inBounds_snoc]
      simp only [hb', Bool.true_and, decide_eq_true_eq]
      omega
    · rw [utreeLoop_snoc, hdl, show 2 + m = m + 2 by omega, graft_spec _ _ _ hj, List.getElem_idxOf hj]
      have h1 := (hp'.map (extCl (clOf (m + 2) (sib (m + 2) bt)) (m + 2))).append_right
        [[m + 2], clOf (m + 2) (sib (m + 2) bt)]
      exact h1.trans (clusters_graft bt hyp).symm

/-! ### every value of the generator is a topology -/

/-- graft the tip `i` next to the subtree whose cluster is `b` -/
def ins (b : List Nat) (i : Nat) : BT → BT
  | .tip j => .node (.tip j) (.tip i)
  | .node l r =>
    if clOf i (l.leaves ++ r.leaves) == b then .node (.node l r) (.tip i)
    else if subset b (clOf i l.leaves) then .node (ins b i l) r else .node l (ins b i r)

theorem isTip_false_of_lt {i : Nat} (t : BT) (h : ∀ y ∈ t.leaves, y < i) : t.isTip i = false := by
  cases t with
  | tip j =>
    have := h j (by simp [BT.leaves])
    simp [BT.isTip]; omega
  | node l r => rfl

theorem cluster_ne_nil {m : Nat} (t : BT) (hlt : ∀ y ∈ t.leaves, y < m) {c : List Nat}
    (hc : c ∈ t.clusters m) : c ≠ [] := by
  induction t with
  | tip j =>
    simp only [BT.clusters, List.mem_singleton] at hc
    subst hc
    intro e
    have : j ∈ clOf m [j] := mem_clOf.2 ⟨hlt j (by simp [BT.leaves]), by simp⟩
    rw [e] at this; simp at this
  | node l r ihl ihr =>
    simp only [BT.clusters, List.mem_cons, List.mem_append] at hc
    rcases hc with rfl | hc | hc
    · obtain ⟨y, hy⟩ := List.exists_mem_of_ne_nil _ l.leaves_ne_nil
      intro e
      have : y ∈ clOf m (l.leaves ++ r.leaves) := mem_clOf.2 ⟨hlt y (by simp [BT.leaves, hy]), by simp [hy]⟩
      rw [e] at this; simp at this
    · exact ihl (fun y hy => hlt y (by simp [BT.leaves, hy])) hc
    · exact ihr (fun y hy => hlt y (by simp [BT.leaves, hy])) hc

theorem mem_clusters_lt {m : Nat} (t : BT) {c : List Nat} (hc : c ∈ t.clusters m) : ∀ y ∈ c, y < m := by
  induction t with
  | tip j =>
    simp only [BT.clusters, List.mem_singleton] at hc
    subst hc
    intro y hy; exact (mem_clOf.1 hy).1
  | node l r ihl ihr =>
    simp only [BT.clusters, List.mem_cons, List.mem_append] at hc
    rcases hc with rfl | hc | hc
    · intro y hy; exact (mem_clOf.1 hy).1
    · exact ihl hc
    · exact ihr hc

theorem ins_spec {i : Nat} (t : BT) (b : List Nat) (hn : t.leaves.Nodup) (hlt : ∀ y ∈ t.leaves, y < i)
    (hb : b ∈ t.clusters i) :
    RemHyp i (ins b i t) ∧ rem i (ins b i t) = t ∧ clOf i (sib i (ins b i t)) = b := by
  induction t with
  | tip j =>
    have hj : j < i := hlt j (by simp [BT.leaves])
    simp only [BT.clusters, List.mem_singleton] at hb
    have hji : (j == i) = false := by simp; omega
    refine ⟨⟨by simp [ins, BT.leaves], ?_, rfl, ?_⟩, ?_, ?_⟩
    · simp [ins, BT.leaves]; omega
    · intro y hy; simp [ins, BT.leaves] at hy; omega
    · simp [ins, rem, BT.isTip, hji]
    · simp [ins, sib, BT.isTip, hji, BT.leaves, hb]
  | node l r ihl ihr =>
    simp only [BT.leaves] at hn hlt
    have hndl := (List.nodup_append.1 hn).1
    have hndr := (List.nodup_append.1 hn).2.1
    have hd := (List.nodup_append.1 hn).2.2
    have hltl : ∀ y ∈ l.leaves, y < i := fun y hy => hlt y (by simp [hy])
    have hltr : ∀ y ∈ r.leaves, y < i := fun y hy => hlt y (by simp [hy])
    have hil : i ∉ l.leaves := fun hm => Nat.lt_irrefl _ (hltl i hm)
    have hir : i ∉ r.leaves := fun hm => Nat.lt_irrefl _ (hltr i hm)
    unfold ins
    by_cases htop : (clOf i (l.leaves ++ r.leaves) == b) = true
    · rw [if_pos htop]
      have htop' : clOf i (l.leaves ++ r.leaves) = b := by simpa using htop
      refine ⟨⟨by simp [BT.leaves], ?_, rfl, ?_⟩, ?_, ?_⟩
      · simp only [BT.leaves]
        rw [List.nodup_append]
        refine ⟨hn, by simp, ?_⟩
        intro x hx y hy
        simp at hy; subst hy
        intro e; subst e
        exact Nat.lt_irrefl _ (hlt _ hx)
      · intro y hy
        simp only [BT.leaves, List.mem_append, List.mem_singleton] at hy
        rcases hy with (hy | hy) | hy
        · exact Nat.le_of_lt (hltl y hy)
        · exact Nat.le_of_lt (hltr y hy)
        · omega
      · simp [rem, BT.isTip]
      · simp [sib, BT.isTip, BT.leaves, htop']
    · rw [if_neg htop]
      have hb' : b ∈ l.clusters i ∨ b ∈ r.clusters i := by
        simp only [BT.clusters, List.mem_cons, List.mem_append] at hb
        rcases hb with rfl | hb | hb
        · simp at htop
        · exact Or.inl hb
        · exact Or.inr hb
      by_cases hs : subset b (clOf i l.leaves) = true
      · rw [if_pos hs]
        have hbl : b ∈ l.clusters i := by
          rcases hb' with hbl | hbr
          · exact hbl
          · exfalso
            obtain ⟨y, hy⟩ := List.exists_mem_of_ne_nil _ (cluster_ne_nil r hltr hbr)
            have h1 := mem_clusters_sub r hbr y hy
            have h2 := (mem_clOf.1 (subset_iff.1 hs y hy)).2
            exact hd y h2 y h1 rfl
        obtain ⟨hR, hrem, hsib⟩ := ihl hndl hltl hbl
        have hnt : (ins b i l).isTip i = false := hR.notTip
        have hrt : r.isTip i = false := isTip_false_of_lt r hltr
        refine ⟨⟨by simp [BT.leaves, hR.mem], ?_, rfl, ?_⟩, ?_, ?_⟩
        · simp only [BT.leaves]
          rw [List.nodup_append]
          refine ⟨hR.nodup, hndr, ?_⟩
          intro x hx y hy e
          subst e
          have := (leaves_rem _ hR).mem_iff.1 hx
          rw [hrem] at this
          simp at this
          rcases this with rfl | h1
          · exact hir hy
          · exact hd x h1 x hy rfl
        · intro y hy
          simp only [BT.leaves, List.mem_append] at hy
          rcases hy with hy | hy
          · exact hR.le y hy
          · exact Nat.le_of_lt (hltr y hy)
        · simp [rem, hnt, hrt, hR.mem, hrem]
        · simp [sib, hnt, hrt, hR.mem, hsib]
      · rw [if_neg hs]
        have hbr : b ∈ r.clusters i := by
          rcases hb' with hbl | hbr
          · exfalso
            apply hs
            rw [subset_iff]
            intro y hy
            exact mem_clOf.2 ⟨mem_clusters_lt l hbl y hy, mem_clusters_sub l hbl y hy⟩
          · exact hbr
        obtain ⟨hR, hrem, hsib⟩ := ihr hndr hltr hbr
        have hnt : (ins b i r).isTip i = false := hR.notTip
        have hlt' : l.isTip i = false := isTip_false_of_lt l hltl
        refine ⟨⟨by simp [BT.leaves, hR.mem], ?_, rfl, ?_⟩, ?_, ?_⟩
        · simp only [BT.leaves]
          rw [List.nodup_append]
          refine ⟨hndl, hR.nodup, ?_⟩
          intro x hx y hy e
          subst e
          have := (leaves_rem _ hR).mem_iff.1 hy
          rw [hrem] at this
          simp at this
          rcases this with rfl | h1
          · exact hil hx
          · exact hd x hx x h1 rfl
        · intro y hy
          simp only [BT.leaves, List.mem_append] at hy
          rcases hy with hy | hy
          · exact Nat.le_of_lt (hltl y hy)
          · exact hR.le y hy
        · simp [rem, hnt, hlt', hil, hrem]
        · simp [sib, hnt, hlt', hil, hsib]

theorem utree_welldefined (m : Nat) (d : List Nat) (hb : inBounds (loopBounds 1 m) d = true) :
    ∃ bt : BT, bt.leaves.Perm (List.range' 1 (m + 1)) ∧
      (utreeLoop d 2 (utreeInit false)).Perm (bt.clusters (m + 2)) := by
  induction m generalizing d with
  | zero =>
    have : d = [] := by simpa [loopBounds] using length_of_inBounds hb
    subst this
    exact ⟨.tip 1, by decide, by decide⟩
  | succ m ih =>
    rw [loopBounds] at hb
    obtain ⟨d', j, rfl, hb', hj⟩ := inBounds_snoc_elim hb
    obtain ⟨bt', hl', hp'⟩ := ih d' hb'
    obtain ⟨hinv, hlen, hdl⟩ := utreeLoop_inv (utreeInit false) 2 (utreeInit_inv false) m d' hb'
    have hE : (utreeInit false).length = 1 := rfl
    rw [hE] at hlen
    have hj' : j < (utreeLoop d' 2 (utreeInit false)).length := by omega
    have hbmem : (utreeLoop d' 2 (utreeInit false))[j] ∈ bt'.clusters (m + 2) :=
      hp'.mem_iff.1 (List.getElem_mem hj')
    have hnd : bt'.leaves.Nodup := hl'.nodup_iff.2 List.nodup_range'
    have hlt : ∀ y ∈ bt'.leaves, y < m + 2 := by
      intro y hy
      have := hl'.mem_iff.1 hy
      rw [List.mem_range'_1] at this
      omega
    obtain ⟨hR, hrem, hsib⟩ := ins_spec bt' _ hnd hlt hbmem
    refine ⟨ins ((utreeLoop d' 2 (utreeInit false))[j]) (m + 2) bt', ?_, ?_⟩
    · have h1 := leaves_rem _ hR
      rw [hrem] at h1
      refine h1.trans ?_
      have hrange : List.range' 1 (m + 1 + 1) = List.range' 1 (m + 1) ++ [m + 2] := by
        rw [List.range'_concat]; simp; omega
      rw [hrange]
      exact ((List.Perm.cons _ hl').trans (List.perm_append_singleton _ _).symm)
    · rw [utreeLoop_snoc, hdl, show 2 + m = m + 2 by omega, graft_spec _ _ _ hj']
      have hK := clusters_graft _ hR
      rw [hrem, hsib] at hK
      have h1 := (hp'.map (extCl ((utreeLoop d' 2 (utreeInit false))[j]) (m + 2))).append_right
        [[m + 2], (utreeLoop d' 2 (utreeInit false))[j]]
      exact h1.trans hK.symm

end Gotree.C20
