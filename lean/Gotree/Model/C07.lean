/-
  C07 — model of
    `CollapseShortBranches` / `CollapseLowSupport` / `CollapseTopoDepth`   (tree/tree.go:1093-1134)
    `RemoveEdges`                                                           (tree/tree.go:1420-1456)
    `Edge.TopoDepth`                                                        (tree/edge.go:178)
    `Resolve` / `resolveRecur`                                              (tree/tree.go:1151-1226)

  Core Lean only (linked into the driver).

  Edge identity.  Go passes `*Edge` pointers from the selector to `RemoveEdges`.
  The model identifies a branch by its `EdgeD.id`; the harness numbers the
  branches (pre-order, as the Newick parser does) so that ids are unique, the
  driver checks it (`uniqueIds`, tag `uniq-ids`), and the theorems that speak of
  "the selected branches" carry it as a hypothesis.
-/
import Gotree.Model.Core

namespace Gotree.C07
open Gotree

/- ## RemoveEdges: one iteration of `for _, e := range edges` -/

/-- `e.SetLength(0.0)` -/
def zeroLen (e : EdgeD) : EdgeD := { e with len := 0 }

/-- the neighbours that stay where they are (`delNeighbor` only shifts) -/
def stayKids (s : List (Option (EdgeD × T))) : Kids := s.filterMap id

def nNone (s : List (Option (EdgeD × T))) : Nat := (s.filter Option.isNone).length

/- `contractT rr rt id isRoot t`: the body of the loop of `RemoveEdges(removeRoot = rr,
   removeTips = rt, …)` for the branch carrying `id`, wherever it is in `t`.

   `contractL … deg k` treats the child list `k` of a node that currently has `deg`
   neighbours and returns
     * for every child, in order: `some` (it stays at its place, possibly changed below /
       its tip length set to 0) or `none` (its branch was contracted: `delNeighbor`);
     * the nodes appended at the END of the node's `neigh` slice by `addChild`
       (the children of the contracted child, in their order).
   The tests are those of the code, in the order of the code:
     `e.Right().Tip() || e.Left().Tip()`    → never removed; `SetLength(0.0)` when `removeTips`
                                              (`e.Left()` is a tip only when it is a root with a single
                                              neighbour: `deg == 1`; since fix e276115)
     `!removeRoot && e.Left() == t.Root() && e.Left().Nneigh() == 2` → skipped (a root branch of a rooted
                                              tree; since fix 82ce8b8 — before it any end point with exactly
                                              two neighbours counted, see the pinned variant below)
   `contractL` treats the children of ONE node: the `rr` it receives is "removeRoot, or this node is not
   the root" (`contractT` passes `rr || !isRoot`), `deg` the CURRENT number of neighbours of the node.
   The parent position of the node shifts by the number of removed children in front
   of it; the moved grand-children keep their own `neigh` slice (`child.neigh[idx] = e.Left()`
   is in place), hence their `ppos`. -/
mutual
def contractT (rr rt : Bool) (id : Int) (isRoot : Bool) : T → T
  | .node d p k =>
    let r := contractL (rr || !isRoot) rt id (k.length + (if isRoot then 0 else 1)) k
    .node d (p - nNone (r.1.take p)) (stayKids r.1 ++ r.2)
def contractL (rr rt : Bool) (id : Int) (deg : Nat) : Kids → List (Option (EdgeD × T)) × Kids
  | [] => ([], [])
  | (e, c) :: r =>
    let sa := contractL rr rt id deg r
    let c' := contractT rr rt id false c
    if e.id == id then
      if c.isLeaf || deg == 1 then (some (if rt then zeroLen e else e, c') :: sa.1, sa.2)
      else if !rr && deg == 2 then (some (e, c') :: sa.1, sa.2)
      else (none :: sa.1, c'.kids ++ sa.2)
    else (some (e, c') :: sa.1, sa.2)
end

/- The code before fixes e276115 and 82ce8b8: the tip test looked at `e.Right()` only (the terminal branch
   next to a root that is itself a tip was contracted like an inner branch), and the "root branch" test
   was `e.Right().Nneigh() == 2 || e.Left().Nneigh() == 2` (a single-child inner node protected both its
   branches).  Pinned variant, kept for the negative theorems `roottip_tip_lost` and
   `single_child_protected_pinned`. -/
mutual
def contractTPinned (rr rt : Bool) (id : Int) (isRoot : Bool) : T → T
  | .node d p k =>
    let r := contractLPinned rr rt id (k.length + (if isRoot then 0 else 1)) k
    .node d (p - nNone (r.1.take p)) (stayKids r.1 ++ r.2)
def contractLPinned (rr rt : Bool) (id : Int) (deg : Nat) : Kids → List (Option (EdgeD × T)) × Kids
  | [] => ([], [])
  | (e, c) :: r =>
    let sa := contractLPinned rr rt id deg r
    let c' := contractTPinned rr rt id false c
    if e.id == id then
      if c.isLeaf then (some (if rt then zeroLen e else e, c') :: sa.1, sa.2)
      else if !rr && (c.kids.length + 1 == 2 || deg == 2) then (some (e, c') :: sa.1, sa.2)
      else (none :: sa.1, c'.kids ++ sa.2)
    else (some (e, c') :: sa.1, sa.2)
end

def collapsePinned (sel : SplitE → Bool) (rr rt : Bool) (t : T) : T :=
  ((t.splits.filter sel).map (·.e.id)).foldl (fun t id => contractTPinned rr rt id true t) t

/-- `RemoveEdges(removeRoot, removeTips, edges...)`: the branches are treated one after the
    other, in the order given, each on the tree left by the previous ones. -/
def removeEdges (rr rt : Bool) (ids : List Int) (t : T) : T :=
  ids.foldl (fun t id => contractT rr rt id true t) t

/- ## the three selectors (each walks `t.Edges()`, i.e. the split list, in order) -/

/-- `e.Length() <= length` — with the sentinel: an absent length is `-1`. -/
def selLen (l : Rat) (s : SplitE) : Bool := decide (s.e.len ≤ l)

/-- `e.Support() != NIL_SUPPORT && e.Support() < support` -/
def selSup (x : Rat) (s : SplitE) : Bool := s.e.sup != NIL && decide (s.e.sup < x)

/-- `Edge.TopoDepth()` after `ReinitIndexes`: `ntaxright` = tips below, `ntaxleft` = the others
    (`total` = number of tips of the tree, the root included when it is one). -/
def topoDepth (total : Nat) (s : SplitE) : Nat := min (total - s.below.length) s.below.length

/-- `d >= mindepthThreshold && d <= maxdepthThreshold` -/
def selDepth (total : Nat) (mn mx : Int) (s : SplitE) : Bool :=
  decide (mn ≤ (topoDepth total s : Int)) && decide ((topoDepth total s : Int) ≤ mx)

/-- selection, then `RemoveEdges` on the selected branches in `Edges()` order -/
def collapse (sel : SplitE → Bool) (rr rt : Bool) (t : T) : T :=
  removeEdges rr rt ((t.splits.filter sel).map (·.e.id)) t

/-- `CollapseShortBranches(length, removeRoot, removeTips)` -/
def collapseLen (l : Rat) (rr rt : Bool) (t : T) : T := collapse (selLen l) rr rt t

/-- `CollapseLowSupport(support, removeRoot)` (always `removeTips = false`) -/
def collapseSup (x : Rat) (rr : Bool) (t : T) : T := collapse (selSup x) rr false t

/-- `TopoDepth` fails when one side has no taxon -/
def depthErr (total : Nat) (s : SplitE) : Bool := total - s.below.length == 0 || s.below.length == 0

/-- `ReinitIndexes(); CollapseTopoDepth(min, max, removeRoot, removeTips)`; `none` = the
    error of `TopoDepth` (nothing is removed then). -/
def collapseDepth (mn mx : Int) (rr rt : Bool) (t : T) : Option T :=
  let total := t.tipNames.length
  if t.splits.any (depthErr total) then none
  else some (collapse (selDepth total mn mx) rr rt t)

/-- `CollapseTopoDepth` on a tree whose subtree sizes were never computed (`ntaxleft = ntaxright = 0`
    on every branch: no `ReinitIndexes`): `TopoDepth` fails on the first branch, before anything is
    removed; without branches there is nothing to fail on. -/
def collapseDepthNoIndex (t : T) : Option T := if t.splits.isEmpty then some t else none

/- `CollapseTopoDepth` as the LIBRARY call really is: it does not index anything, it reads the subtree
   sizes `ntaxleft` / `ntaxright` that the last `ReinitIndexes` / `ReinitInternalIndexes` left on each
   `Edge` object.  `stored` gives them per branch id (a branch created since then has none: 0, 0).
   `TopoDepth` fails on the first branch, in `Edges()` order, one of whose sizes is 0 — during the
   selection loop, so nothing has been removed yet.  (The COMMAND `collapse depth` re-indexes each tree
   first: `cmdDepth`.) -/
def storedSizes (stored : List (Int × Nat × Nat)) (id : Int) : Nat × Nat :=
  match stored.find? (fun x => x.1 == id) with
  | some x => x.2
  | none => (0, 0)

def staleErr (stored : List (Int × Nat × Nat)) (s : SplitE) : Bool :=
  (storedSizes stored s.e.id).1 == 0 || (storedSizes stored s.e.id).2 == 0

def selDepthStored (stored : List (Int × Nat × Nat)) (mn mx : Int) (s : SplitE) : Bool :=
  let d := min (storedSizes stored s.e.id).1 (storedSizes stored s.e.id).2
  decide (mn ≤ (d : Int)) && decide ((d : Int) ≤ mx)

def collapseDepthStored (stored : List (Int × Nat × Nat)) (mn mx : Int) (rr rt : Bool) (t : T) : Option T :=
  if t.splits.any (staleErr stored) then none
  else some (collapse (selDepthStored stored mn mx) rr rt t)

/-- what `ReinitIndexes` would store on the branches of `t` -/
def freshSizes (t : T) : List (Int × Nat × Nat) :=
  t.splits.map fun s => (s.e.id, t.tipNames.length - s.below.length, s.below.length)

/-- branch ids pairwise distinct (edge pointers are) -/
def uniqueIds (t : T) : Bool := decide ((t.splits.map (·.e.id)).Nodup)

/- ## Resolve -/

/-- `ConnectNodes(current, n2)` + `SetLength(0.0)`, `SetSupport(NIL)`, `SetPValue(NIL)` -/
def newEdge : EdgeD := ⟨0, NIL, NIL, [], -1⟩

/-- a neighbour taken off `current` and hung under the new node:
    `etmp := ConnectNodes(n2, other)` is a fresh branch (no comment, no id) that receives
    length, support and p-value; `other` loses `current` and gets `n2` appended, so its
    parent is now last in its `neigh` slice. -/
def moveKid (x : EdgeD × T) : EdgeD × T :=
  (⟨x.1.len, x.1.sup, x.1.pval, [], -1⟩, .node x.2.d x.2.kids.length x.2.kids)

/-- one iteration of `for len(current.Neigh()) > 3`: the two LAST entries of `togroup`
    (`a` the last, `b` the one before) go under a new unnamed node -/
def joinTwo (a b : EdgeD × T) : EdgeD × T :=
  (newEdge, .node ⟨"", []⟩ 2 [moveKid a, moveKid b])

/-- The loop, on `togroup` REVERSED (head = last entry), entries tagged with the index the
    neighbour had among the children (new nodes get the tag `dummy`).  `extra` is 1 when
    `current` has a parent (it counts in `len(current.Neigh())`), 0 for the root. -/
def ladder (extra dummy : Nat) : Nat → List (Nat × (EdgeD × T)) → List (Nat × (EdgeD × T))
  | fuel + 1, a :: b :: rest =>
    if rest.length + 2 + extra > 3 then ladder extra dummy fuel ((dummy, joinTwo a.2 b.2) :: rest)
    else a :: b :: rest
  | _, r => r

/-- `rand.Perm(n)` from its draws `Intn(1), Intn(2), …, Intn(n)` (inside-out shuffle:
    `m[i] = m[j]; m[j] = i`); `none` when a draw is out of range. -/
def goPermAux : List Nat → List Nat → Option (List Nat)
  | [], m => some m
  | j :: ds, m =>
    if j ≤ m.length then goPermAux ds ((m ++ [m.getD j m.length]).set j m.length) else none

def goPerm (draws : List Nat) : Option (List Nat) := goPermAux draws []

/-- stable insertion by key -/
def insK {α : Type} (x : Nat × α) : List (Nat × α) → List (Nat × α)
  | [] => [x]
  | y :: r => if x.1 < y.1 then x :: y :: r else y :: insK x r

def sortK {α : Type} (l : List (Nat × α)) : List (Nat × α) := l.foldr insK []

/-- The part of `resolveRecur` after the recursive calls, for a node whose children `k` are
    already resolved.  Nothing happens (and nothing is drawn) unless `len(neigh) > 3`.
    `togroup[perm[nb]] = branch of the nb-th child` is "the children sorted by `perm[nb]`".
    In `current.neigh` the children that were never taken keep their relative order, the
    last new node comes at the end; the parent position becomes the number of survivors in
    front of it. -/
def resolveNode (isRoot : Bool) (d : NodeD) (p : Nat) (k : Kids) (draws : List Nat) : Option (T × List Nat) :=
  let l := k.length
  let extra := if isRoot then 0 else 1
  if l + extra ≤ 3 then some (.node d p k, draws)
  else if draws.length < l then none
  else match goPerm (draws.take l) with
    | none => none
    | some perm =>
      let togroup := (sortK (perm.zip ((List.range l).zip k))).map (·.2)
      match ladder extra l l togroup.reverse with
      | [] => none
      | nw :: surv =>
        let sv := sortK surv
        some (.node d ((sv.filter (fun x => x.1 < p)).length) (sv.map (·.2) ++ [nw.2]), draws.drop l)

/- `resolveRecur(current, previous)`: post-order — the neighbours first, in slice order,
   then the node itself.  The draws are threaded through. -/
mutual
def resolveT (isRoot : Bool) : T → List Nat → Option (T × List Nat)
  | .node d p k, ds =>
    match resolveL k ds with
    | none => none
    | some (k', ds') => resolveNode isRoot d p k' ds'
def resolveL : Kids → List Nat → Option (Kids × List Nat)
  | [], ds => some ([], ds)
  | (e, c) :: r, ds =>
    match resolveT false c ds with
    | none => none
    | some (c', ds1) =>
      match resolveL r ds1 with
      | none => none
      | some (r', ds2) => some ((e, c') :: r', ds2)
end

/-- `Resolve()` with the results of its `rand.Intn` calls; `none` when the list of draws is
    not exactly what the function consumes (too short, too long, a value out of range). -/
def resolve (t : T) (draws : List Nat) : Option T :=
  match resolveT true t draws with
  | some (t', []) => some t'
  | _ => none

/- The draw protocol: the bounds `k` of the successive `Intn(k)` calls, as a function of
   the tree (post-order; a node with `l` non-parent neighbours and more than 3 neighbours
   calls `Perm(l)` = `Intn(1) … Intn(l)`; resolving below does not change `l`). -/
mutual
def scriptT (isRoot : Bool) : T → List Nat
  | .node _ _ k =>
    scriptL k ++ (if k.length + (if isRoot then 0 else 1) ≤ 3 then [] else List.range' 1 k.length)
def scriptL : Kids → List Nat
  | [] => []
  | (_, c) :: r => scriptT false c ++ scriptL r
end

def drawScript (t : T) : List Nat := scriptT true t

end Gotree.C07
