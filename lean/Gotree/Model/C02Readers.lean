/-
  C02 — the reader entry points (io/fileutils/readln.go ReadUntilSemiColon,
  io/utils/readtrees.go ReadTreeReader / ReadMultiTrees) and the clade
  conversions of io/phyloxml and io/nextstrain, over the models of the parsers.
-/
import Gotree.Model.C02Nexus

namespace Gotree.C02.Readers
open Gotree Gotree.C02

/- ## bufio.Reader.ReadLine as a list of chunks -/

/-- what one call of `ReadLine` returns before the end of the input -/
structure Chunk where
  line : List UInt8
  isPrefix : Bool
  deriving Repr, Inhabited

def isBlank (b : UInt8) : Bool := b == 32 || b == 9

/-- the scan back over trailing blanks: `lastChar` for a non-empty `ln` given REVERSED.
    Current code: `for (lastChar == ' ' || lastChar == '\t') && i > 0`; the pinned code
    (`i >= 0`, before fix b11db41) indexes `ln[-1]` when every byte is a blank. -/
def lastCharRev (pinned : Bool) : List UInt8 → Res UInt8
  | [] => .panic "index out of range [-1]"        -- only reachable in the pinned variant
  | [b] => if isBlank b && pinned then .panic "index out of range [-1]" else .ok b
  | b :: c :: r => if isBlank b then lastCharRev pinned (c :: r) else .ok b

/-- result of `ReadUntilSemiColon` -/
structure Line where
  text : List UInt8
  err : Bool                  -- the error of ReadLine (io.EOF)
  rest : List Chunk

/-- `ReadUntilSemiColon(r)`; `lnRev` is what has been read so far, REVERSED (so that `ln[len(ln)-1]` is its
    head): structural recursion on the chunks still to come (each iteration calls `ReadLine` once; at the
    end of the input `ReadLine` returns the error and the loop leaves). -/
def readUntilSemiColonRev (pinned : Bool) : List Chunk → List UInt8 → Res Line
  | [], lnRev =>
    -- line = nil, err = EOF; `if len(ln) > 0` recomputes lastChar
    match lnRev with
    | [] => .ok ⟨[], true, []⟩
    | _ :: _ =>
      match lastCharRev pinned lnRev with
      | .ok _ => .ok ⟨lnRev.reverse, true, []⟩
      | .err m => .err m
      | .panic m => .panic m
  | c :: rest, lnRev =>
    let lnRev' := c.line.reverse ++ lnRev          -- ln = append(ln, line...)
    match lnRev' with
    | [] => readUntilSemiColonRev pinned rest lnRev'          -- lastChar keeps its initial '0'
    | _ :: _ =>
      match lastCharRev pinned lnRev' with
      | .ok last =>
        if c.isPrefix || last != 59 then readUntilSemiColonRev pinned rest lnRev'
        else .ok ⟨lnRev'.reverse, false, rest⟩
      | .err m => .err m
      | .panic m => .panic m

/-- `ReadUntilSemiColon(r)` on the chunks `ReadLine` will return; `ln` is what has been read so far -/
def readUntilSemiColon (pinned : Bool) (chunks : List Chunk) (ln : List UInt8) : Res Line :=
  readUntilSemiColonRev pinned chunks ln.reverse

theorem readUntilSemiColonRev_rest (pinned : Bool) : ∀ (cs : List Chunk) (ln : List UInt8) (l : Line),
    readUntilSemiColonRev pinned cs ln = .ok l → l.err = false → l.rest.length < cs.length
  | [], ln, l, h, he => by
    unfold readUntilSemiColonRev at h
    split at h
    · cases h; simp at he
    · split at h <;> first | (cases h; simp at he) | cases h
  | c :: rest, ln, l, h, he => by
    unfold readUntilSemiColonRev at h
    simp only at h
    split at h
    · have := readUntilSemiColonRev_rest pinned rest _ l h he
      simp only [List.length_cons]; omega
    · split at h
      · split at h
        · have := readUntilSemiColonRev_rest pinned rest _ l h he
          simp only [List.length_cons]; omega
        · cases h; simp
      · cases h
      · cases h

theorem readUntilSemiColon_rest (pinned : Bool) (cs : List Chunk) (ln : List UInt8) (l : Line)
    (h : readUntilSemiColon pinned cs ln = .ok l) (he : l.err = false) : l.rest.length < cs.length :=
  readUntilSemiColonRev_rest pinned cs _ l h he

/-- the loop of `fileutils.Readln(r)`: one line, assembled from the chunks of `ReadLine` while `isPrefix`;
    returns the line, whether `ReadLine` reported its error (io.EOF), and the chunks still to come.
    (This was all of `Readln` before fix 34f70d2.) -/
def readlnRaw : List Chunk → List UInt8 × Bool × List Chunk
  | [] => ([], true, [])
  | c :: rest =>
    if c.isPrefix then
      let r := readlnRaw rest
      (c.line ++ r.1, r.2.1, r.2.2)
    else (c.line, false, rest)

/-- the error only comes with the end of the chunks -/
theorem readlnRaw_err_rest : ∀ (cs : List Chunk), (readlnRaw cs).2.1 = true → (readlnRaw cs).2.2 = []
  | [], _ => rfl
  | c :: rest, h => by
    unfold readlnRaw at h ⊢
    split
    · rename_i hp
      simp only [hp, if_true] at h
      exact readlnRaw_err_rest rest h
    · rename_i hp
      simp [hp] at h

theorem readlnRaw_rest_lt : ∀ (cs : List Chunk), (readlnRaw cs).2.1 = false → (readlnRaw cs).2.2.length < cs.length
  | [], h => by simp [readlnRaw] at h
  | c :: rest, h => by
    unfold readlnRaw at h ⊢
    split
    · rename_i hp
      simp only [hp, if_true] at h
      have := readlnRaw_rest_lt rest h
      simp only [List.length_cons]; omega
    · simp

/-- `fileutils.Readln(r)` (34f70d2): `if err == io.EOF && len(ln) > 0 { err = nil }` — an unterminated last line
    that fills the buffer exactly arrives together with the end of the input and is still a line -/
def readln (cs : List Chunk) : List UInt8 × Bool × List Chunk :=
  let r := readlnRaw cs
  if r.2.1 && !r.1.isEmpty then (r.1, false, r.2.2) else r

theorem readln_rest_lt (cs : List Chunk) (h : (readln cs).2.1 = false) : (readln cs).2.2.length < cs.length := by
  unfold readln at h ⊢
  by_cases hc : ((readlnRaw cs).2.1 && !(readlnRaw cs).1.isEmpty) = true
  · simp only [hc, if_true]
    simp only [Bool.and_eq_true] at hc
    rw [readlnRaw_err_rest cs hc.1]
    cases cs with
    | nil => simp [readlnRaw] at hc
    | cons c r => simp
  · simp only [hc] at h ⊢
    exact readlnRaw_rest_lt cs h

/-- every line `Readln` returns until the error, as the callers loop (`for err == nil`) -/
def readLines (cs : List Chunk) : List (List UInt8) :=
  if h : (readln cs).2.1 = false then (readln cs).1 :: readLines (readln cs).2.2 else []
termination_by cs.length
decreasing_by exact readln_rest_lt cs h

/- ## records -/

structure Rec where
  id : Nat
  tree : Option (T × Bool)     -- none = the record carries an error; the Bool: a non-finite number is inside
  deriving Inhabited

/-- outcome of a reader entry point -/
inductive ROut
  | ok (recs : List Rec)
  | err (msg : String)
  | panic (msg : String)
  | hang

/-- the reader crashed (panic, also in the goroutine: the process dies) or never returns -/
def ROut.crashed : ROut → Bool
  | .panic _ => true | .hang => true | _ => false

def ROut.cls : ROut → String
  | .ok _ => "ok" | .err _ => "err" | .panic _ => "panic" | .hang => "timeout"

/-- ids of the records, in order -/
def ids (rs : List Rec) : List Nat := rs.map (·.id)

/-- all records but the last carry a tree -/
def errOnlyLast : List Rec → Bool
  | [] => true
  | [_] => true
  | r :: r' :: rest => r.tree.isSome && errOnlyLast (r' :: rest)

/-- what the inner loop over one line leaves: the records sent, whether it stopped on a parse error, the next id -/
structure LineOut where
  recs : List Rec
  failed : Bool
  next : Nat

/-- `for more := true; more; more = parser.More() { … parser.Parse() … }` (3850fd2): ONE parser reads every
    tree of the line; a parse error sends its record and ends the loop.  Well-founded on the text left:
    a successful `Parse` has consumed its `;`. -/
def lineLoop (cs : List Char) (id : Nat) : Res LineOut :=
  match h : Newick.parseChars cs with
  | .panic m => .panic m
  | .err _ => .ok ⟨[⟨id, none⟩], true, id⟩
  | .ok p =>
    if Newick.more p.rest then
      match lineLoop p.rest (id + 1) with
      | .ok o => .ok ⟨⟨id, some (p.tree, p.nonfinite)⟩ :: o.recs, o.failed, o.next⟩
      | .err m => .err m
      | .panic m => .panic m
    else .ok ⟨[⟨id, some (p.tree, p.nonfinite)⟩], false, id + 1⟩
termination_by cs.length
decreasing_by exact Newick.run_rest_lt {} cs p h

/-- the `for e == nil` loop of `ReadMultiTrees`, FORMAT_NEWICK: `line` has just been read -/
def multiLoop (pinned : Bool) (line : Line) (id : Nat) (he : line.err = false) : ROut :=
  match lineLoop (decodeLossy line.text) id with
  | .panic m => .panic m
  | .err m => .err m
  | .ok o =>
    if o.failed then .ok o.recs       -- `if err != nil { break }`
    else
      match h : readUntilSemiColon pinned line.rest [] with
      | .panic m => .panic m
      | .err m => .err m
      | .ok next =>
        if hn : next.err = false then
          match multiLoop pinned next o.next hn with
          | .ok rs => .ok (o.recs ++ rs)
          | x => x
        else
          -- after the loop: `if id > 0 && e != nil && strings.TrimSpace(line) != ""` (7ce7b93): text left
          -- after the last ';' is reported as an error record with the next id
          .ok (o.recs ++ (if (decodeLossy next.text).all Newick.goIsSpace then [] else [⟨o.next, none⟩]))
termination_by line.rest.length
decreasing_by exact readUntilSemiColon_rest pinned _ _ _ h hn

/-- `utils.ReadMultiTrees(reader, FORMAT_NEWICK)` as the list of records received from the channel;
    a panic in the goroutine kills the process. -/
def multiNewickWith (pinned : Bool) (chunks : List Chunk) : ROut :=
  match readUntilSemiColon pinned chunks [] with
  | .panic m => .panic m
  | .err m => .err m
  | .ok line =>
    if he : line.err = false then multiLoop pinned line 0 he
    else .ok [⟨0, none⟩]

def multiNewick (chunks : List Chunk) : ROut := multiNewickWith false chunks

/- `bufio.Reader.ReadLine` with a buffer of `n` bytes over an in-memory reader (trusted library,
   modelled for the correspondence only). -/
def readLine (n : Nat) (rest : List UInt8) : Option (Chunk × List UInt8) :=
  match rest with
  | [] => none
  | _ :: _ =>
    let window := rest.take n
    match window.idxOf? 10 with
    | some i =>
      let line := rest.take i
      let line := if line.getLast? == some 13 then line.dropLast else line
      some (⟨line, false⟩, rest.drop (i + 1))
    | none =>
      if window.length ≥ n then      -- the buffer is full (rest has at least n bytes)
        if window.getLast? == some 13 then some (⟨window.dropLast, true⟩, rest.drop (n - 1))
        else some (⟨window, true⟩, rest.drop n)
      else some (⟨rest, false⟩, [])

def chunksFuel (n : Nat) : Nat → List UInt8 → List Chunk
  | 0, _ => []
  | f + 1, rest =>
    match readLine n rest with
    | none => []
    | some (c, r) => c :: chunksFuel n f r

/-- all the chunks `ReadLine` returns for this input (buffer of `n ≥ 16` bytes) -/
def chunksOf (n : Nat) (b : List UInt8) : List Chunk := chunksFuel n (b.length + 1) b

/- ## Nexus through the entry points -/

def ofNTrees (ts : List Nexus.NTree) (id : Nat) : List Rec :=
  match ts with
  | [] => []
  | t :: r => ⟨id, some (t.tree, t.nonfinite)⟩ :: ofNTrees r (id + 1)

/-- `ReadTreeReader(reader, FORMAT_NEXUS)` -/
def nexusOne (b : List UInt8) : ROut :=
  match Nexus.parse b with
  | .hang => .hang
  | .panic m => .panic m
  | .err m => .err m
  | .ok [] => .err "No tree in the input Nexus file"
  | .ok (t :: _) => .ok [⟨0, some (t.tree, t.nonfinite)⟩]

/-- `ReadMultiTrees(reader, FORMAT_NEXUS)` -/
def nexusMulti (b : List UInt8) : ROut :=
  match Nexus.parse b with
  | .hang => .hang
  | .panic m => .panic m
  | .err _ => .ok [⟨0, none⟩]
  | .ok [] => .ok [⟨0, none⟩]     -- 78cdd07: a document without any tree is reported ("No tree in the input Nexus file")
  | .ok ts => .ok (ofNTrees ts 0)

/-- `newick.NewParser(r).Parse()` -/
def newickOne (b : List UInt8) : ROut :=
  match Newick.parse b with
  | .panic m => .panic m
  | .err m => .err m
  | .ok p => .ok [⟨0, some (p.tree, p.nonfinite)⟩]

/-- `cmd/root.go` PersistentPreRun: the `--format` option names a reader by one of four exact words;
    anything else (or no option at all) means Newick -/
def formatOfFlag (v : String) : String :=
  if v == "newick" || v == "nexus" || v == "phyloxml" || v == "nextstrain" then v else "newick"

/- ## clades (the decoded PhyloXML / Nextstrain structures) -/

/-- a decoded `phyloxml.Clade` -/
inductive Clade where
  | mk (name sci code : String) (len conf : Option Rat) (kids : List Clade)
  deriving Inhabited

/-- `*(p)` for a `*float64`: dereferencing nil panics -/
def derefF (p : Option Rat) : Res Rat :=
  match p with
  | some v => .ok v
  | none => .panic "invalid memory address or nil pointer dereference"

/-- variants of `phyloxml.cladeToTree` for the negative theorem: `confUnchecked` drops the
    `if c.Confidence != nil` test (own breakage B4 of round 1) -/
structure PxPins where
  confUnchecked : Bool := false

/- `phyloxml.cladeToTree(c, t, parent, nedges, nnodes)` for a clade below `parent` (so `e` exists):
   the node, the data of the branch above it, the next branch id.  The two pointer fields are
   dereferenced where the Go code dereferences them (`*(c.BranchLength)`, `*(c.Confidence)`), under the
   tests the code makes; `err` = "One tip has no name" (the conversion stops there). -/
mutual
def pxClade (pins : PxPins) : Clade → Nat → Res (EdgeD × T × Nat)
  | .mk name sci code len conf kids, nedges =>
    -- if c.BranchLength != nil { e.SetLength(*(c.BranchLength)) }
    match (if len.isSome then derefF len else .ok NIL) with
    | .panic m => .panic m
    | .err m => .err m
    | .ok l =>
      -- if len(c.Clades) > 0 { if c.Confidence != nil { e.SetSupport(*(c.Confidence)) } }
      match (if !kids.isEmpty && (conf.isSome || pins.confUnchecked) then derefF conf else .ok NIL) with
      | .panic m => .panic m
      | .err m => .err m
      | .ok sp =>
        let e : EdgeD := { EdgeD.blank with id := nedges, len := l, sup := sp }
        let nm := if name != "" then name else if sci != "" then sci else code
        match pxKids pins kids (nedges + 1) with
        | .panic m => .panic m
        | .err m => .err m
        | .ok (ks, n) =>
          if kids.isEmpty && nm == "" then .err "One tip has no name" else .ok (e, .node ⟨nm, []⟩ 0 ks, n)
def pxKids (pins : PxPins) : List Clade → Nat → Res (Kids × Nat)
  | [], n => .ok ([], n)
  | c :: r, n =>
    match pxClade pins c n with
    | .panic m => .panic m
    | .err m => .err m
    | .ok (e, t, n') =>
      match pxKids pins r n' with
      | .panic m => .panic m
      | .err m => .err m
      | .ok (ks, n'') => .ok ((e, t) :: ks, n'')
end

/-- `phylogenyToTree`: the root clade (`parent == nil`: its own branch data are not read) -/
def pxTreeWith (pins : PxPins) : Clade → Res T
  | .mk name sci code _ _ kids =>
    let nm := if name != "" then name else if sci != "" then sci else code
    match pxKids pins kids 0 with
    | .panic m => .panic m
    | .err m => .err m
    | .ok (ks, _) => if kids.isEmpty && nm == "" then .err "One tip has no name" else .ok (.node ⟨nm, []⟩ 0 ks)

def pxTree (c : Clade) : Res T := pxTreeWith {} c

/-- `ReadTreeReader(FORMAT_PHYLOXML)` on the decoded phylogenies -/
def phyloxmlOne (ps : List Clade) : ROut :=
  match ps with
  | [] => .err "No tree in the input PhyloXML file"
  | p :: _ => match pxTree p with
    | .panic m => .panic m
    | .err m => .err m
    | .ok t => .ok [⟨0, some (t, false)⟩]

/-- `IterateTrees`: one record per phylogeny; a panic in the goroutine kills the process -/
def pxRecs : List Clade → Nat → Res (List Rec)
  | [], _ => .ok []
  | p :: r, id =>
    match pxTree p with
    | .panic m => .panic m
    | .err _ => (match pxRecs r (id + 1) with | .ok rs => .ok (⟨id, none⟩ :: rs) | o => o)
    | .ok t => (match pxRecs r (id + 1) with | .ok rs => .ok (⟨id, some (t, false)⟩ :: rs) | o => o)

/-- `ReadMultiTrees(FORMAT_PHYLOXML)` on the decoded phylogenies -/
def phyloxmlMulti (ps : List Clade) : ROut :=
  match ps with
  | [] => .ok [⟨0, none⟩]          -- 78cdd07: "No tree in the input PhyloXML file"
  | _ :: _ =>
  match pxRecs ps 0 with
  | .ok rs => .ok rs
  | .err m => .err m
  | .panic m => .panic m

/-- a decoded `nextstrain.NsNode`: name, divergence, the comment `cladeToTree` builds from the
    annotations (computed by the harness with the code's own string operations), children -/
inductive NsNode where
  | mk (name : String) (div : Rat) (comment : Option String) (kids : List NsNode)
  deriving Inhabited

/-- the float64 subtraction `a - b` of two float64 values given exactly: the exact difference,
    correctly rounded (0 on overflow, which the driver excludes) -/
def f64sub (a b : Rat) : Rat :=
  let d := a - b
  if d == 0 then 0 else
  match roundF64 d.num.natAbs d.den with
  | some q => if d < 0 then -q else q
  | none => 0

mutual
def nsClade : NsNode → Rat → Nat → Option (EdgeD × T × Nat)
  | .mk name div comment kids, prevdiv, nedges =>
    let e : EdgeD := { EdgeD.blank with id := nedges, len := f64sub div prevdiv }
    match nsKids kids div (nedges + 1) with
    | none => none
    | some (ks, n) =>
      if kids.isEmpty && name == "" then none
      else some (e, .node ⟨name, (match comment with | some c => [c] | none => [])⟩ 0 ks, n)
def nsKids : List NsNode → Rat → Nat → Option (Kids × Nat)
  | [], _, n => some ([], n)
  | c :: r, pd, n =>
    match nsClade c pd n with
    | none => none
    | some (e, t, n') =>
      match nsKids r pd n' with
      | none => none
      | some (ks, n'') => some ((e, t) :: ks, n'')
end

def nsTree : NsNode → Option T
  | .mk name div comment kids =>
    match nsKids kids div 0 with
    | none => none
    | some (ks, _) =>
      if kids.isEmpty && name == "" then none
      else some (.node ⟨name, (match comment with | some c => [c] | none => [])⟩ 0 ks)

/-- `ReadTreeReader(FORMAT_NEXTSTRAIN)` on the decoded document (`Parse` rejects every version but "v2") -/
def nextstrainOne (version : String) (n : NsNode) : ROut :=
  if version != "v2" then .err "format error : gotree only supports nextstrain v2 format" else
  match nsTree n with
  | none => .err "one tip has no name"
  | some t => .ok [⟨0, some (t, false)⟩]

/-- `ReadMultiTrees(FORMAT_NEXTSTRAIN)` on the decoded document -/
def nextstrainMulti (version : String) (n : NsNode) : ROut :=
  if version != "v2" then .ok [⟨0, none⟩] else .ok [⟨0, (nsTree n).map (·, false)⟩]

end Gotree.C02.Readers
