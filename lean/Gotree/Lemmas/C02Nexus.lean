/-
  C02 — the Nexus parser never panics and always halts.
-/
import Gotree.Model.C02Readers
import Gotree.Lemmas.C02Newick
namespace Gotree.C02.Nexus
open Gotree Gotree.C02

/-- the machine has not crashed -/
def NoPanic (s : St) : Prop := ∀ m, s.halt ≠ some (.panic m)

/-- `s'` halts no worse than `s`: same halt, or an error, or the normal end -/
def Benign (s s' : St) : Prop := s'.halt = s.halt ∨ (∃ m, s'.halt = some (.err m)) ∨ s'.halt = some .done

theorem benign_refl (s : St) : Benign s s := Or.inl rfl
theorem benign_fail (s : St) (m : String) : Benign s (s.fail m) := Or.inr (Or.inl ⟨m, rfl⟩)
theorem benign_go (s : St) (c : Ctl) : Benign s (s.go c) := Or.inl rfl
theorem benign_upd (s : St) (c : Ctl) (a : Acc) : Benign s { s with ctl := c, acc := a } := Or.inl rfl
theorem benign_done (s : St) : Benign s { s with halt := some .done } := Or.inr (Or.inr rfl)

theorem commentStep_benign (s : St) (t : Token) (c : Ctl) : Benign s (commentStep {} s t c) := by
  unfold commentStep
  split
  · exact benign_go _ _
  · split
    · simp; exact benign_fail _ _
    · exact benign_refl _

theorem unsupStep_benign (s : St) (t : Token) (c : Ctl) : Benign s (unsupStep s t c) := by
  unfold unsupStep
  split <;> first | exact benign_fail _ _ | exact benign_go _ _ | exact benign_refl _

theorem treeAccum_benign (s : St) (l : TreesL) (n a : List Char) (t : Token) : Benign s (treeAccum s l n a t) := by
  unfold treeAccum
  split
  · exact benign_go _ _
  · split
    · exact benign_fail _ _
    · exact benign_go _ _

theorem singleChar_benign (s : St) (bad : Bool) (t : Token) (set : Char → Ctl) : Benign s (singleChar {} s bad t set) := by
  unfold singleChar
  simp only [Bool.false_eq_true, if_false]
  split
  · exact benign_fail _ _
  · rename_i h
    split
    · rename_i hl; rw [hl] at h; simp [utf8Len] at h
    · split
      · exact benign_fail _ _
      · exact benign_go _ _

theorem step_benign (s : St) (t : Token) : Benign s (step {} s t) := by
  unfold step
  split
  all_goals first
    | exact commentStep_benign _ _ _
    | exact unsupStep_benign _ _ _
    | exact treeAccum_benign _ _ _ _ _
    | exact singleChar_benign _ _ _ _
    | exact benign_go _ _
    | (repeat' split) <;> first
        | exact benign_refl _ | exact benign_fail _ _ | exact benign_go _ _ | exact benign_upd _ _ _ | exact benign_done _
        | exact treeAccum_benign _ _ _ _ _
theorem noPanic_of_benign {s s' : St} (h : Benign s s') (hs : NoPanic s) : NoPanic s' := by
  intro m
  rcases h with h | ⟨m', h⟩ | h
  · rw [h]; exact hs m
  · rw [h]; simp
  · rw [h]; simp

theorem deliver_noPanic (s : St) (t : Token) (hs : NoPanic s) : NoPanic (deliver {} s t) := by
  unfold deliver
  split
  · exact hs
  · split
    · exact fun m => hs m
    · exact noPanic_of_benign (step_benign _ t) (fun m => hs m)

theorem foldl_noPanic (ts : List Token) : ∀ s : St, NoPanic s → NoPanic (ts.foldl (deliver {}) s) := by
  induction ts with
  | nil => exact fun _ h => h
  | cons t r ih => exact fun s h => ih _ (deliver_noPanic s t h)

theorem runToks_noPanic (ts : List Token) : NoPanic (runToks {} ts) := by
  unfold runToks atEOF
  have h0 : NoPanic ({} : St) := by intro m; simp
  exact deliver_noPanic _ _ (deliver_noPanic _ _ (deliver_noPanic _ _ (foldl_noPanic ts _ h0)))

/-- "every loop leaves on EOF": from every control point, three EOF tokens halt the machine -/
theorem eof_halts (s : St) : (atEOF {} s).halt.isSome = true := by
  unfold atEOF
  by_cases hh : s.halt.isSome = true
  · simp [deliver, hh]
  · have hn : s.halt = none := by cases h : s.halt <;> simp_all
    rcases s with ⟨ctl, acc, skipped, halt⟩
    simp only at hn
    subst hn
    cases ctl <;>
      simp [deliver, step, eofTok, commentStep, unsupStep, treeAccum, singleChar, St.fail, St.go, rawCtl, parseInt, utf8Len]

/-- the locals of `parseTrees` held at a control point -/
def Ctl.treesL? : Ctl → Option TreesL
  | .rHead l | .rEndSemi l | .rTr l _ | .rTrVal l _ _ | .rTrSep l _ _ _ | .rTrComment l _ | .rTreeName l
  | .rTreeEq l _ | .rTreeFirst l _ | .rTreeComment l _ | .rTreeSkip l _ | .rTreeAcc l _ _ | .rComment l | .rUnsup l => some l
  | _ => none

/-- `treenames` and `treestrings` are appended together: they have the same length -/
def Inv (s : St) : Prop :=
  s.acc.treenames.length = s.acc.treestrings.length ∧
  ∀ l, s.ctl.treesL? = some l → l.names.length = l.strings.length

theorem inv_fail {s : St} (m : String) (h : Inv s) : Inv (s.fail m) := h

theorem commentStep_inv (pins : Pins) {s : St} (t : Token) (c : Ctl) (h : Inv s) (hc : Inv (s.go c)) : Inv (commentStep pins s t c) := by
  unfold commentStep
  split
  · exact hc
  · split
    · split
      · exact h
      · exact h
    · exact h

theorem unsupStep_inv {s : St} (t : Token) (c : Ctl) (h : Inv s) (hc : Inv (s.go c)) : Inv (unsupStep s t c) := by
  unfold unsupStep
  split <;> first | exact h | exact hc

theorem treeAccum_inv {s : St} (l : TreesL) (n a : List Char) (t : Token) (h : Inv s)
    (hl : l.names.length = l.strings.length) : Inv (treeAccum s l n a t) := by
  unfold treeAccum
  split
  · refine ⟨h.1, ?_⟩
    intro l' hl'
    simp [St.go, Ctl.treesL?] at hl'
    subst hl'
    simp [hl]
  · split
    · exact h
    · refine ⟨h.1, ?_⟩
      intro l' hl'
      simp [St.go, Ctl.treesL?] at hl'
      subst hl'
      exact hl

theorem singleChar_inv (pins : Pins) {s : St} (bad : Bool) (t : Token) (set : Char → Ctl) (h : Inv s)
    (hc : ∀ c, Inv (s.go (set c))) : Inv (singleChar pins s bad t set) := by
  unfold singleChar
  simp only
  repeat' split
  all_goals first | exact h | exact hc _

theorem step_inv (pins : Pins) (s : St) (t : Token) (h : Inv s) : Inv (step pins s t) := by
  have h1 := h.1
  have h2 := h.2
  unfold step
  split
  all_goals rename_i hctl
  all_goals simp only [hctl, Ctl.treesL?] at h2
  all_goals first
    | (apply commentStep_inv _ _ _ h; simp_all [Inv, St.go, Ctl.treesL?])
    | (apply unsupStep_inv _ _ h; simp_all [Inv, St.go, Ctl.treesL?])
    | (apply treeAccum_inv _ _ _ _ h; simp_all)
    | (apply singleChar_inv _ _ _ _ h; intro c; simp_all [Inv, St.go, Ctl.treesL?])
    | ((repeat' split) <;> first
        | exact h
        | (apply treeAccum_inv _ _ _ _ h; simp_all)
        | simp_all [Inv, St.go, Ctl.treesL?])

theorem deliver_inv (pins : Pins) (s : St) (t : Token) (h : Inv s) : Inv (deliver pins s t) := by
  unfold deliver
  split
  · exact h
  · split
    · exact h
    · exact step_inv pins _ t h

theorem foldl_inv (pins : Pins) (ts : List Token) : ∀ s : St, Inv s → Inv (ts.foldl (deliver pins) s) := by
  induction ts with
  | nil => exact fun _ h => h
  | cons t r ih => exact fun s h => ih _ (deliver_inv pins s t h)

theorem runToks_inv (pins : Pins) (ts : List Token) : Inv (runToks pins ts) := by
  unfold runToks atEOF
  have h0 : Inv ({} : St) := by
    refine ⟨rfl, ?_⟩
    intro l hl; simp [Ctl.treesL?] at hl
  exact deliver_inv _ _ _ (deliver_inv _ _ _ (deliver_inv _ _ _ (foldl_inv pins ts _ h0)))

/-- the loop over the tree strings never indexes `treenames` out of range and crashes only if the
    Newick parser does -/
theorem buildTrees_no_panic (np : List Char → Res Newick.Parsed) (hnp : ∀ cs m, np cs ≠ .panic m) (a : Acc) :
    ∀ (ss ns : List (List Char)) (i : Nat), ns.length = ss.length → ∀ m, buildTrees np a ss ns i ≠ .panic m
  | [], _, _, _, m => by unfold buildTrees; simp
  | s :: ss, [], _, h, m => by simp at h
  | s :: ss, n :: ns, i, h, m => by
    have ih := buildTrees_no_panic np hnp a ss ns (i + 1) (by simpa using h)
    unfold buildTrees
    split
    · rename_i m' hp; exact absurd hp (hnp _ _)
    · simp
    · simp only
      split
      · rename_i hr
        -- the renaming step never panics
        split at hr <;> (try split at hr) <;> (try split at hr) <;> simp at hr
      · simp
      · split
        · simp
        · split
          · simp
          · simp
          · rename_i m' hp; intro hc; cases hc; exact ih _ hp

theorem finalize_no_panic (np : List Char → Res Newick.Parsed) (hnp : ∀ cs m, np cs ≠ .panic m) (a : Acc)
    (ha : a.treenames.length = a.treestrings.length) (m : String) : finalize np a ≠ .panic m := by
  unfold finalize
  simp only
  repeat' split
  all_goals first
    | exact buildTrees_no_panic np hnp a _ _ 0 ha m
    | simp

theorem tokens_length_le (cs : List Char) : (tokens cs).length ≤ cs.length := by
  fun_induction tokens cs
  case case1 => simp
  case case2 c cs ih =>
    have := scan1_rest_le c cs
    simp only [List.length_cons]
    omega

end Gotree.C02.Nexus

namespace Gotree.C02
open Gotree

/-! ### Nexus -/

theorem Nexus.parseCharsWith_no_panic (np : List Char → Res Newick.Parsed) (hnp : ∀ cs m, np cs ≠ .panic m)
    (cs : List Char) (m : String) : Nexus.parseCharsWith {} np cs ≠ .panic m := by
  unfold Nexus.parseCharsWith Nexus.ofState
  have h1 := Nexus.runToks_noPanic (Nexus.tokens cs)
  have h2 := Nexus.runToks_inv {} (Nexus.tokens cs)
  split
  · simp
  · simp
  · rename_i m' hh; exact absurd hh (h1 m')
  · split
    · simp
    · simp
    · rename_i m' hp; exact absurd hp (Nexus.finalize_no_panic np hnp _ h2.1 m')

theorem Nexus.parseCharsWith_halts (np : List Char → Res Newick.Parsed) (cs : List Char) :
    Nexus.parseCharsWith {} np cs ≠ .hang := by
  unfold Nexus.parseCharsWith Nexus.ofState Nexus.runToks
  have h := Nexus.eof_halts ((Nexus.tokens cs).foldl (Nexus.deliver {}) {})
  generalize Nexus.atEOF {} ((Nexus.tokens cs).foldl (Nexus.deliver {}) {}) = s at h
  cases hh : s.halt with
  | none => rw [hh] at h; simp at h
  | some x =>
    cases x with
    | err m => simp
    | panic m => simp
    | done => simp only; split <;> simp

/-- F3 (before fix 214ace7): at the end of the input inside a `[` comment the loop of
    `consumeComment` neither consumes input nor leaves: no amount of fuel is enough. -/
theorem Nexus.comment_diverges_pinned (n : Nat) (s : Nexus.St) (hc : s.ctl = .mainComment) (hh : s.halt = none) :
    Nexus.eofFuel { f3 := true } n s = none := by
  induction n generalizing s with
  | zero => rfl
  | succ k ih =>
    unfold Nexus.eofFuel
    rw [hh]
    simp only
    apply ih
    · simp [Nexus.deliver, hh, hc, Nexus.eofTok, Nexus.step, Nexus.commentStep, Nexus.rawCtl]
    · simp [Nexus.deliver, hh, hc, Nexus.eofTok, Nexus.step, Nexus.commentStep, Nexus.rawCtl]


end Gotree.C02
