/-
  C17 — `Rearrange` never proposes the same rearrangement twice.
-/
import Gotree.Model.C17

namespace Gotree.C17
open Gotree

/-- slot of child number `j` in the neighbour slice (`newNNI`) -/
def slotOf (isRoot : Bool) (p1 j : Nat) : Nat := if isRoot then j else if j < p1 then j else j + 1

theorem slotOf_lt {isRoot : Bool} {p1 j j' : Nat} (h : j < j') : slotOf isRoot p1 j < slotOf isRoot p1 j' := by
  unfold slotOf
  cases isRoot <;> simp <;> (repeat' split) <;> omega

theorem newNNI_path (path : List Nat) (isRoot : Bool) (p1 j p2 : Nat) (cross : Bool) :
    (newNNI path isRoot p1 j p2 cross).path = path := rfl

theorem newNNI_i1 (path : List Nat) (isRoot : Bool) (p1 j p2 : Nat) (cross : Bool) :
    (newNNI path isRoot p1 j p2 cross).i1 = slotOf isRoot p1 j := rfl

theorem newNNI_cross (path : List Nat) (isRoot : Bool) (p1 j p2 : Nat) (cross : Bool) :
    (newNNI path isRoot p1 j p2 cross).cross = cross := rfl

/-- where the rearrangements listed for the children `rest` (numbered from `j`) of the node at `pre` sit -/
def PlaceL (isRoot : Bool) (pre : List Nat) (p1 j : Nat) (r : NNI) : Prop :=
  (r.path = pre ∧ ∃ j', j ≤ j' ∧ r.i1 = slotOf isRoot p1 j') ∨ (∃ j' q, j ≤ j' ∧ r.path = pre ++ j' :: q)

theorem enum_nodup_aux : ∀ (t : T),
    (∀ (isRoot : Bool) (pre : List Nat), (enumT isRoot pre t).Nodup ∧ ∀ r ∈ enumT isRoot pre t, ∃ q, r.path = pre ++ q) := by
  intro t
  induction t using T.induct with
  | h d p k ih =>
    have key : ∀ (isRoot : Bool) (pre : List Nat) (p1 : Nat) (par3 : Bool) (rest : Kids), (∀ et ∈ rest, et ∈ k) → ∀ (j : Nat),
        (enumL isRoot pre p1 par3 j rest).Nodup ∧ ∀ r ∈ enumL isRoot pre p1 par3 j rest, PlaceL isRoot pre p1 j r := by
      intro isRoot pre p1 par3 rest
      induction rest with
      | nil => intro _ j; simp [enumL]
      | cons ec rest ihr =>
        obtain ⟨e, c⟩ := ec
        intro hsub j
        obtain ⟨hcN, hcP⟩ := ih (e, c) (hsub _ (by simp)) false (pre ++ [j])
        obtain ⟨hrN, hrP⟩ := ihr (fun et het => hsub et (by simp [het])) (j + 1)
        rw [enumL]
        -- places of the three parts
        have hD : ∀ r ∈ (if par3 && c.kids.length == 2 then
            [newNNI pre isRoot p1 j c.ppos false, newNNI pre isRoot p1 j c.ppos true] else []),
            r.path = pre ∧ r.i1 = slotOf isRoot p1 j := by
          intro r hr
          split at hr
          · simp only [List.mem_cons, List.not_mem_nil, or_false] at hr
            rcases hr with rfl | rfl <;> exact ⟨rfl, rfl⟩
          · simp at hr
        have hB : ∀ r ∈ enumT false (pre ++ [j]) c, ∃ q, r.path = pre ++ j :: q := by
          intro r hr
          obtain ⟨q, hq⟩ := hcP r hr
          exact ⟨q, by rw [hq]; simp⟩
        constructor
        · rw [List.nodup_append, List.nodup_append]
          refine ⟨⟨?_, hcN, ?_⟩, hrN, ?_⟩
          · split
            · simp [newNNI]
            · simp
          · intro a ha b hb hab
            obtain ⟨h1, _⟩ := hD a ha
            obtain ⟨q, h2⟩ := hB b hb
            rw [hab, h2] at h1
            have := congrArg List.length h1
            simp at this
          · intro a ha b hb hab
            rcases List.mem_append.mp ha with ha | ha
            · obtain ⟨h1, h1'⟩ := hD a ha
              rcases hrP b hb with ⟨h2, j', hj', h3⟩ | ⟨j', q, hj', h2⟩
              · rw [hab, h3] at h1'
                have := slotOf_lt (isRoot := isRoot) (p1 := p1) (show j < j' by omega)
                omega
              · rw [hab, h2] at h1
                have := congrArg List.length h1
                simp at this
            · obtain ⟨q, h1⟩ := hB a ha
              rcases hrP b hb with ⟨h2, _⟩ | ⟨j', q', hj', h2⟩
              · rw [hab, h2] at h1
                have := congrArg List.length h1
                simp at this
              · rw [hab, h2] at h1
                have := List.append_cancel_left h1
                simp only [List.cons.injEq] at this
                omega
        · intro r hr
          rcases List.mem_append.mp hr with hr | hr
          · rcases List.mem_append.mp hr with hr | hr
            · obtain ⟨h1, h2⟩ := hD r hr
              exact Or.inl ⟨h1, j, Nat.le_refl _, h2⟩
            · obtain ⟨q, h1⟩ := hB r hr
              exact Or.inr ⟨j, q, Nat.le_refl _, h1⟩
          · rcases hrP r hr with ⟨h2, j', hj', h3⟩ | ⟨j', q, hj', h2⟩
            · exact Or.inl ⟨h2, j', by omega, h3⟩
            · exact Or.inr ⟨j', q, by omega, h2⟩
    intro isRoot pre
    rw [enumT]
    obtain ⟨h1, h2⟩ := key isRoot pre p (if isRoot then k.length == 3 else k.length == 2) k (fun _ h => h) 0
    refine ⟨h1, fun r hr => ?_⟩
    rcases h2 r hr with ⟨h3, _⟩ | ⟨j', q, _, h3⟩
    · exact ⟨[], by simp [h3]⟩
    · exact ⟨j' :: q, h3⟩

/-- no rearrangement is proposed twice -/
theorem rearrangements_nodup (t : T) : (rearrangements t).Nodup := (enum_nodup_aux t true []).1

end Gotree.C17
