/-
  C01 — laws of the EXECUTABLE codec `goCodec` (the one the driver runs against strconv).

  Proved for every input, no hypothesis:
    goFormatFloat_clean    the text of any value is non-empty and made of digits, '.', '-' only
    goParseFloat_noSlash   a literal containing '/' is never accepted            (fourth law)
  The two remaining laws (`isFloat (fmt x)`, `parse (fmt x) = some x`) are decidable per value: `goDom x`
  is that check, the driver evaluates it on every value of every case (tag `godom`; a float64 value outside
  `goDom` is reported as a broken tie), and `goFloatCodec` is the resulting lawful `FloatCodec`, so that
  `parse_write` applies to the very functions the driver runs (Proofs/C01.lean, `parse_write_go`).
-/
import Gotree.Lemmas.C01Codec

namespace Gotree.Newick

/- ## the text of a number -/

def fmtChar (c : Char) : Bool := c.isDigit || c == '.' || c == '-'

theorem fmtChar_numClean (c : Char) (h : fmtChar c = true) : numClean c = true := by
  simp only [fmtChar, Bool.or_eq_true, beq_iff_eq] at h
  rcases h with (h | h) | h
  · exact digit_numClean c h
  · subst h; decide
  · subst h; decide

theorem natDigits_all (n : Nat) : (natDigits n).all fmtChar = true :=
  all_imp _ _ _ (digits_all n) (fun c hc => by simp [fmtChar, hc])

theorem replicate0_all (k : Nat) : (List.replicate k '0').all fmtChar = true := by
  rw [List.all_eq_true]
  intro c hc
  have := List.eq_of_mem_replicate hc
  subst this; decide

theorem all_take {α} (p : α → Bool) (l : List α) (k : Nat) (h : l.all p = true) : (l.take k).all p = true := by
  rw [List.all_eq_true] at h ⊢
  exact fun c hc => h c (List.mem_of_mem_take hc)

theorem all_drop {α} (p : α → Bool) (l : List α) (k : Nat) (h : l.all p = true) : (l.drop k).all p = true := by
  rw [List.all_eq_true] at h ⊢
  exact fun c hc => h c (List.mem_of_mem_drop hc)

theorem natDigits_ne_nil (n : Nat) : natDigits n ≠ [] := Nat.toDigits_ne_nil

theorem renderFixed_ok : ∀ (fuel n : Nat) (p : Int),
    renderFixed fuel n p ≠ [] ∧ (renderFixed fuel n p).all fmtChar = true := by
  intro fuel
  induction fuel with
  | zero =>
    intro n p
    simp only [renderFixed]
    refine ⟨by simp [natDigits_ne_nil], ?_⟩
    split
    · rw [List.all_append, natDigits_all, replicate0_all]; rfl
    · simp [natDigits_all]
  | succ f ih =>
    intro n p
    simp only [renderFixed]
    split
    · exact ih _ _
    · split
      · exact ⟨by simp [natDigits_ne_nil], by rw [List.all_append, natDigits_all, replicate0_all]; rfl⟩
      · split
        · refine ⟨by simp, ?_⟩
          simp only [List.all_append, List.all_cons, Bool.and_eq_true]
          exact ⟨all_take _ _ _ (natDigits_all n), by decide, all_drop _ _ _ (natDigits_all n)⟩
        · refine ⟨by simp, ?_⟩
          simp only [List.all_cons, List.all_append, Bool.and_eq_true]
          exact ⟨by decide, by decide, replicate0_all _, natDigits_all n⟩

/-- First codec law for `goCodec`, for EVERY rational: the text is non-empty and free of Newick
    metacharacters, blanks and '/'. -/
theorem goFormatFloat_clean (x : Rat) : goFormatFloat x ≠ [] ∧ (goFormatFloat x).all numClean = true := by
  unfold goFormatFloat
  split
  · exact ⟨by simp, by decide⟩
  · obtain ⟨h1, h2⟩ := renderFixed_ok 400 (shortest (if x < 0 then -x else x)).1 (shortest (if x < 0 then -x else x)).2
    have h3 := all_imp _ _ _ h2 fmtChar_numClean
    refine ⟨?_, ?_⟩
    · intro h
      have := List.append_eq_nil_iff.1 h
      exact h1 this.2
    · rw [List.all_append, h3]
      split <;> simp <;> decide

/- ## a literal with a slash is rejected -/

def hasSlash (l : List Char) : Bool := l.any (fun c => c == '/')

theorem hasSlash_cons (c : Char) (r : List Char) : hasSlash (c :: r) = (c == '/' || hasSlash r) := by
  simp [hasSlash]

theorem hasSlash_map_lower : ∀ (l : List Char), hasSlash l = true → hasSlash (l.map lower) = true := by
  intro l
  induction l with
  | nil => simp [hasSlash]
  | cons c r ih =>
    intro h
    rw [hasSlash_cons, Bool.or_eq_true] at h
    rw [List.map_cons, hasSlash_cons, Bool.or_eq_true]
    rcases h with h | h
    · left; simp at h; subst h; decide
    · right; exact ih h

theorem readMant_slash (b : Bool) : ∀ (s : List Char) (m : Mant), hasSlash s = true → hasSlash (readMant b s m).2 = true := by
  intro s
  induction s with
  | nil => intro m h; simp [hasSlash] at h
  | cons c r ih =>
    intro m h
    rw [hasSlash_cons, Bool.or_eq_true] at h
    by_cases hc : c = '/'
    · subst hc
      cases b <;> simp [readMant, hasSlash, decDigit?, hexDigit?, lower]
    · have hr : hasSlash r = true := by
        rcases h with h | h
        · simp at h; exact absurd h hc
        · exact h
      simp only [readMant]
      split
      · exact ih _ hr
      · split
        · split
          · simp [hasSlash_cons, hr]
          · exact ih _ hr
        · split
          · exact ih _ hr
          · simp [hasSlash_cons, hr]

theorem readExpDigits_slash : ∀ (s : List Char) (e : Nat) (u : Bool), hasSlash s = true →
    hasSlash (readExpDigits s e u).2.2 = true := by
  intro s
  induction s with
  | nil => intro e u h; simp [hasSlash] at h
  | cons c r ih =>
    intro e u h
    rw [hasSlash_cons, Bool.or_eq_true] at h
    by_cases hc : c = '/'
    · subst hc
      simp [readExpDigits, hasSlash, decDigit?]
    · have hr : hasSlash r = true := by
        rcases h with h | h
        · simp at h; exact absurd h hc
        · exact h
      simp only [readExpDigits]
      split
      · exact ih _ _ hr
      · split
        · exact ih _ _ hr
        · simp [hasSlash_cons, hr]

/- `goParseFloat` cut into its stages (definitionally the same function: `goParseFloat_eq` is `rfl`) -/

def pfUnsigned (ls : List Char) : List Char :=
  match ls with
  | '+' :: r => r
  | '-' :: r => r
  | _ => ls

def pfSign (s : List Char) : Bool × List Char :=
  match s with
  | '+' :: r => (false, r)
  | '-' :: r => (true, r)
  | _ => (false, s)

def pfBase (s1 : List Char) : Bool × List Char :=
  match s1 with
  | '0' :: x :: c :: r => if lower x == 'x' then (true, c :: r) else (false, s1)
  | _ => (false, s1)

def pfExp (base16 : Bool) (s3 : List Char) : Option (Int × Bool × List Char) :=
  match s3 with
  | c :: r =>
    if lower c == (if base16 then 'p' else 'e') then
      match r with
      | [] => none
      | sc :: r' =>
        let (esign, r2) : Int × List Char := if sc == '+' then (1, r') else if sc == '-' then (-1, r') else (1, sc :: r')
        match r2 with
        | d :: _ =>
          if (decDigit? d).isSome then
            let (e, u, r3) := readExpDigits r2 0 false
            some (esign * (e : Int), u, r3)
          else none
        | [] => none
    else if base16 then none else some (0, false, s3)
  | [] => if base16 then none else some (0, false, [])

def pfValue (base16 : Bool) (m : Mant) (e : Int) : Option Rat :=
  if base16 then
    let ex : Int := e - 4 * (m.frac : Int)
    let mag : Int := (Nat.log2 m.digits : Int) + ex
    if mag > 1030 then none
    else if mag < -1100 then some 0
    else roundF64 (scale2 ((m.digits : Nat) : Rat) ex)
  else
    let ex : Int := e - (m.frac : Int)
    let mag : Int := (numDecDigits m.digits : Int) + ex
    if mag > 311 then none
    else if mag < -330 then some 0
    else roundF64 (scale10 ((m.digits : Nat) : Rat) ex)

def pfFinish (s : List Char) (neg base16 : Bool) (m : Mant) (eres : Option (Int × Bool × List Char)) : FRes :=
  match eres with
  | none => .bad
  | some (e, u, rest) =>
    if !rest.isEmpty then .bad
    else if (m.underscores || u) && !underscoreOK s then .bad
    else if m.digits == 0 then .fin 0
    else
      match pfValue base16 m e with
      | none => .bad
      | some q => .fin (if neg then -q else q)

def goParseFloat' (s : List Char) : FRes :=
  if pfUnsigned (s.map lower) == "inf".toList || pfUnsigned (s.map lower) == "infinity".toList then .nonfin
  else if s.map lower == "nan".toList then .nonfin
  else
    if !(readMant (pfBase (pfSign s).2).1 (pfBase (pfSign s).2).2 {}).1.sawdigits then .bad
    else pfFinish s (pfSign s).1 (pfBase (pfSign s).2).1 (readMant (pfBase (pfSign s).2).1 (pfBase (pfSign s).2).2 {}).1
      (pfExp (pfBase (pfSign s).2).1 (readMant (pfBase (pfSign s).2).1 (pfBase (pfSign s).2).2 {}).2)

theorem goParseFloat_eq (s : List Char) : goParseFloat s = goParseFloat' s := rfl

theorem hasSlash_tail_of_ne (c : Char) (r : List Char) (hc : (c == '/') = false) (h : hasSlash (c :: r) = true) :
    hasSlash r = true := by
  rw [hasSlash_cons, hc, Bool.false_or] at h; exact h

theorem pfUnsigned_slash (ls : List Char) (h : hasSlash ls = true) : hasSlash (pfUnsigned ls) = true := by
  unfold pfUnsigned
  split
  · exact hasSlash_tail_of_ne _ _ (by decide) h
  · exact hasSlash_tail_of_ne _ _ (by decide) h
  · exact h

theorem pfSign_slash (s : List Char) (h : hasSlash s = true) : hasSlash (pfSign s).2 = true := by
  unfold pfSign
  split
  · exact hasSlash_tail_of_ne _ _ (by decide) h
  · exact hasSlash_tail_of_ne _ _ (by decide) h
  · exact h

theorem lower_eq_slash_false (x : Char) (t : Char) (ht : (t == '/') = false)
    (h : (lower x == t) = true) : (x == '/') = false := by
  cases hx : (x == '/') with
  | false => rfl
  | true =>
    simp at hx; subst hx
    have hl : lower '/' = '/' := by decide
    rw [hl] at h
    simp at h; subst h; simp at ht

theorem pfBase_slash (s : List Char) (h : hasSlash s = true) : hasSlash (pfBase s).2 = true := by
  unfold pfBase
  split
  · rename_i x c r
    split
    · rename_i hx
      have h1 := hasSlash_tail_of_ne _ _ (by decide) h
      exact hasSlash_tail_of_ne _ _ (lower_eq_slash_false x 'x' (by decide) hx) h1
    · exact h
  · exact h

theorem pfExp_slash (b : Bool) (s3 : List Char) (h : hasSlash s3 = true) :
    pfExp b s3 = none ∨ ∃ e u rest, pfExp b s3 = some (e, u, rest) ∧ hasSlash rest = true := by
  cases s3 with
  | nil => simp [hasSlash] at h
  | cons c r =>
    by_cases hc : (lower c == (if b = true then 'p' else 'e')) = true
    · have hcs : (c == '/') = false := by
        cases b
        · exact lower_eq_slash_false c 'e' (by decide) (by simpa using hc)
        · exact lower_eq_slash_false c 'p' (by decide) (by simpa using hc)
      have hr := hasSlash_tail_of_ne _ _ hcs h
      cases r with
      | nil => left; simp [pfExp, hc]
      | cons sc r' =>
        have hr2 : hasSlash (if (sc == '+') = true then ((1 : Int), r') else if (sc == '-') = true then (-1, r') else (1, sc :: r')).2 = true := by
          split
          · rename_i hp; simp at hp; subst hp; exact hasSlash_tail_of_ne _ _ (by decide) hr
          · split
            · rename_i hm; simp at hm; subst hm; exact hasSlash_tail_of_ne _ _ (by decide) hr
            · exact hr
        simp only [pfExp, hc, if_true]
        generalize (if (sc == '+') = true then ((1 : Int), r') else if (sc == '-') = true then (-1, r') else (1, sc :: r')) = q at hr2
        obtain ⟨esign, r2⟩ := q
        simp only [] at hr2 ⊢
        cases r2 with
        | nil => simp [hasSlash] at hr2
        | cons d tl =>
          by_cases hd : (decDigit? d).isSome = true
          · right
            simp only [hd, if_true]
            exact ⟨_, _, _, rfl, readExpDigits_slash _ 0 false hr2⟩
          · left; simp [hd]
    · cases b
      · right
        have hc' : ¬ lower c = 'e' := by simpa using hc
        exact ⟨0, false, c :: r, by simp [pfExp, hc'], h⟩
      · left
        have hc' : ¬ lower c = 'p' := by simpa using hc
        simp [pfExp, hc']

theorem ne_const_of_slash (t k : List Char) (h : hasSlash t = true) (hk : hasSlash k = false) : (t == k) = false := by
  cases ht : (t == k) with
  | false => rfl
  | true => simp at ht; subst ht; rw [h] at hk; cases hk

/-- A literal containing '/' is rejected by the model of `strconv.ParseFloat`. -/
theorem goParseFloat_slash (s : List Char) (h : hasSlash s = true) : goParseFloat s = .bad := by
  have hl := hasSlash_map_lower s h
  have hu := pfUnsigned_slash _ hl
  rw [goParseFloat_eq]
  unfold goParseFloat'
  rw [ne_const_of_slash _ _ hu (by decide), ne_const_of_slash _ _ hu (by decide), ne_const_of_slash _ _ hl (by decide)]
  simp only [Bool.or_self, Bool.false_eq_true, if_false]
  split
  · rfl
  · have h3 := readMant_slash (pfBase (pfSign s).2).1 (pfBase (pfSign s).2).2 {} (pfBase_slash _ (pfSign_slash s h))
    rcases pfExp_slash (pfBase (pfSign s).2).1 _ h3 with he | ⟨e, u, rest, he, hr⟩
    · rw [he]; rfl
    · rw [he]
      have hne : rest.isEmpty = false := by
        cases rest with
        | nil => simp [hasSlash] at hr
        | cons => rfl
      simp [pfFinish, hne]

/-- Fourth codec law for `goCodec`, for every literal. -/
theorem goCodec_isFloat_noSlash (l : List Char) (h : goCodec.isFloat l = true) : l.all (fun c => c != '/') = true := by
  cases hs : hasSlash l with
  | true =>
    have := goParseFloat_slash l hs
    simp [goCodec, this] at h
  | false =>
    unfold hasSlash at hs
    rw [List.all_eq_true]
    intro c hc
    have : ¬ (c == '/') = true := by
      intro hcs
      have : l.any (fun c => c == '/') = true := List.any_eq_true.2 ⟨c, hc, hcs⟩
      rw [this] at hs; cases hs
    simpa using this

/- ## the executable codec as a lawful `FloatCodec` on the values it reads back -/

/-- `goCodec` with its laws: the first and the fourth proved for all inputs, the second and third by the
    definition of `goDom`. -/
def goFloatCodec : FloatCodec where
  toCodec := goCodec
  dom := goDom
  fmt_clean := fun x _ => goFormatFloat_clean x
  fmt_isFloat := by
    intro x h
    simp only [goDom, Bool.and_eq_true] at h
    exact h.1
  parse_fmt := by
    intro x h
    simp only [goDom, Bool.and_eq_true, beq_iff_eq] at h
    exact h.2
  isFloat_noSlash := goCodec_isFloat_noSlash

theorem goFloatCodec_toCodec : goFloatCodec.toCodec = goCodec := rfl

end Gotree.Newick
