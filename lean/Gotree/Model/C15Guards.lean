/-
  C15 — the constants the hand-written model assumes (round 7), to be compared with the table regenerated
  from the source (`Gotree.Gen.C15.sentinels`, `Gotree.Gen.C15.guards`, harness/c15/extract_guards.go).
  Each row names the model definition that relies on it.  Core Lean only.
-/
import Gotree.Model.C15

namespace Gotree.C15
open Gotree

/-- `NIL_LENGTH = NIL_SUPPORT = NIL_PVALUE = -1` (`Gotree.NIL`, `EdgeD.blank`), `NIL_ID = -1` (`zeroEdge`, `EdgeD.blank`) -/
def expectedSentinels : List (String × String) :=
  [("NIL_LENGTH", "-1"), ("NIL_SUPPORT", "-1"), ("NIL_PVALUE", "-1"), ("NIL_ID", "-1")]

/- operands are printed by the extractor with the receiver as `recv`, the i-th parameter as `arg<i>` and
   every other local variable as `<its type>`: renaming a variable changes no row -/
def expectedGuards : List (String × String × String × String) := [
  -- `T.rooted`: the root has exactly two neighbours (hypothesis of `merge`)
  ("Rooted", "recv.root.Nneigh()", "==", "2"),
  -- a node with one neighbour is a tip: `t.kids.length == 1` for a root (`graft`, `insertOne`, `nodesNamed`), `isLeaf` below
  ("Tip", "len(recv.neigh)", "==", "1"),
  -- `merge`: "tip index not initialized" exactly when an index is empty (flags i2, i1)
  ("Merge", "len(arg0.tipIndex)", "==", "0"),
  ("Merge", "len(recv.tipIndex)", "==", "0"),
  -- `insertGroups`: a group without new names inserts nothing (insertNews on [])
  ("InsertIdenticalTips", "len(<[]string>)", ">", "0"),
  -- `insKids`: `e.len == 0 && !lone` — the tip branch has length exactly 0 and the parent more than one neighbour
  ("InsertIdenticalTip", "<*Edge>.Length()", "==", "0"),
  ("InsertIdenticalTip", "<*Node>.Nneigh()", ">", "1"),
  -- `zeroEdge`: every constant length set by InsertIdenticalTip is 0
  ("InsertIdenticalTip", "SetLength", "arg", "0"),
  -- `fuseLenGo`: `max 0 child + max 0 parent` as soon as one of the two (child branch, removed branch) is not NIL
  ("removeSingleNodesRecur", "<*Node>.br[<int>].Length()", "!=", "-1"),
  ("removeSingleNodesRecur", "<float64>", "!=", "-1"),
  ("removeSingleNodesRecur", "Max", "arg", "0"),
  -- `rsKids`: a node with exactly one child of its own (two neighbours) is removed
  ("removeSingleNodesRecur", "len(arg0.Neigh())", "==", "2")
]

/-- what the model itself uses, as the same strings: ties `expectedSentinels` to `NIL`, `EdgeD.blank`, `zeroEdge` -/
def modelSentinels : List (String × String) :=
  let s (r : Rat) : String := if r == -1 then "-1" else "other"
  [("NIL_LENGTH", s EdgeD.blank.len), ("NIL_SUPPORT", s EdgeD.blank.sup), ("NIL_PVALUE", s EdgeD.blank.pval),
   ("NIL_ID", if EdgeD.blank.id == -1 && zeroEdge.id == -1 then "-1" else "other")]

end Gotree.C15
